# per-property configuration of bin/check
COMMON_ASSUMPTIONS = [
    "Lean 4.33.0 kernel; theorems audited with #print axioms (allowed: propext, Classical.choice, Quot.sound)",
    "theorems are about the Lean model; the model is tied to /repo by ofvextract (regenerated definitions) and by the differential run of this check",
]

PROPS = {
    "C16": {
        "families": ["C16"],
        "gen_deps": ["openflow13.encodeOfs", "openflow13.decode", "openflow13.NXRange", "openflow13.NewNXRange"],
        "exhaustive": True,
        "rule": "all 37x37 (first,last) pairs around the 528 in-domain ranges, by (first,last) and by (offset,width); all 1024x66 "
                "(offset,width) pairs; all 1024x64 (first,last) encodings; random out-of-domain pairs. A case is non-trivial when its "
                "result is not the all-zero word; distinct = distinct case text.",
        "trivial_outputs": ["00000000", "0000 0 1"],
        "level_text": "Kernel-checked theorems about the helper definitions regenerated from the Go source on every run: the mask of every one of the 528 ranges (decide +kernel over the whole domain plus a bit-level characterisation), the offset/width word and its inverse for all offsets < 1024 and widths 1..64 (proof over UInt16, not enumeration), agreement of the two range descriptions. The tie is double: the definitions are re-translated from /repo, and the real helpers are run over the complete finite domain and compared with model and spec.",
        "level_note": "Trusted: Lean kernel; ofvextract's translation of the Go subset (itself cross-checked by the exhaustive differential run); Spec.bits/Spec.ofsNbits as the meaning of a range; Go int = Int64.",
        "assumptions": COMMON_ASSUMPTIONS + ["Go int is 64-bit (Int64)", "unexported helpers reached through /repo/openflow13/verif_hooks.go (build tag verif)"],
    },
}

NOT_YET = {}
