# per-property configuration of bin/check
COMMON_ASSUMPTIONS = [
    "Lean 4.33.0 kernel; theorems audited with #print axioms (allowed: propext, Classical.choice, Quot.sound)",
    "theorems are about the Lean model; the model is tied to /repo by ofvextract (regenerated definitions) and by the differential run of this check",
]

PROPS = {
    "C16": {
        "families": ["C16"],
        "gen_deps": ["openflow13.encodeOfs", "openflow13.decode", "openflow13.NXRange", "openflow13.NewNXRange"],
        "exhaustive": True,
        "rule": "all 37x37 (first,last) pairs around the 528 in-domain ranges, by (first,last) and by (offset,width); all 1024x66 "
                "(offset,width) pairs; all 1024x64 (first,last) encodings; random out-of-domain pairs. A case is non-trivial when its "
                "result is not the all-zero word; distinct = distinct case text.",
        "trivial_outputs": ["00000000", "0000 0 1"],
        "level_text": "Kernel-checked theorems about the helper definitions regenerated from the Go source on every run: the mask of every one of the 528 ranges (decide +kernel over the whole domain plus a bit-level characterisation), the offset/width word and its inverse for all offsets < 1024 and widths 1..64 (proof over UInt16, not enumeration), agreement of the two range descriptions. The tie is double: the definitions are re-translated from /repo, and the real helpers are run over the complete finite domain and compared with model and spec.",
        "level_note": "Trusted: Lean kernel; ofvextract's translation of the Go subset (itself cross-checked by the exhaustive differential run); Spec.bits/Spec.ofsNbits as the meaning of a range; Go int = Int64.",
        "assumptions": COMMON_ASSUMPTIONS + ["Go int is 64-bit (Int64)", "unexported helpers reached through /repo/openflow13/verif_hooks.go (build tag verif)"],
    },
}

PROPS["C15"] = {
    "families": ["C15"],
    "gen_deps": ["openflow13.oxxFieldHeaderMap", "openflow13.newMatchFieldHeader", "openflow13.MatchField"],
    "exhaustive": True,
    "rule": "every name of the spec table and of the regenerated registry x mask on/off x upper/lower/mixed case, near-miss and unknown names, "
            "lookup-after-mutation of an earlier result (concurrently with a further lookup); header words: 7^4 boundary-byte words, all 256 values "
            "of the packed byte, random words (thorough: all 2^32 words swept on the Go side). Non-trivial = the lookup succeeds / the word is non-zero.",
    "trivial_outputs": ["err", "0 0 0 0 00000000", "00000000"],
    "level_text": "Kernel-checked theorems: the REGENERATED registry table equals, entry by entry, the class/field/width table transcribed from OpenFlow 1.3.5 and OVS meta-flow.h; the registered names are exactly the supported ones; width doubling cannot wrap; the lookup model returns table values with mask flag and doubled width; header pack/unpack are mutual inverses for all 2^32 words (proof over bytes, not enumeration) using the regenerated MarshalHeader; independence of results from regenerated syntactic facts (map never written, lookup returns a fresh composite literal, entry only read field-wise). Ties: table and MarshalHeader regenerated from source; the real lookup is run on every name/case/mask and compared with model and spec.",
    "level_note": "Trusted: Lean kernel; Spec.oxmTable (transcribed from memory); ofvextract; the model of FindFieldHeaderByName/UnmarshalHeader is hand-written and tied by the exhaustive differential run; strings.ToUpper modelled for ASCII names only; race-freedom is argued from the syntactic facts plus the concurrent lookup/mutation run, not proved about the Go memory model.",
    "assumptions": COMMON_ASSUMPTIONS + ["names are ASCII (strings.ToUpper is modelled as ASCII upper-casing)"],
}
PROPS["C18"] = {
    "families": ["C18"],
    "gen_deps": ["openflow13.CTStates", "openflow13.NewCTStates", "openflow13.MatchField.MarshalHeader", "openflow13.oxxFieldHeaderMap"],
    "exhaustive": True,
    "rule": "from each of the 3^8 = 6561 abstract builder states (canonical history) each of the 16 operations; all call sequences of length <= 4 "
            "from a fresh builder (69904); random histories of length 5..64. Observation = bytes of the encoded ct_state match field. "
            "Non-trivial = at least one flag constrained.",
    "trivial_outputs": ["0001d3080000000000000000"],
    "level_text": "Kernel-checked induction over ALL call sequences of all lengths (and from any starting state) about the setter bodies regenerated from the Go source: per flag, mask bit = touched, value bit = polarity of the most recent call, bits 8..31 untouched; plus the byte layout of the encoded match field. Ties: setter bodies are re-translated on every run (a wrong offset or missing mask update changes the definition and breaks its step lemma) and the real builder is run exhaustively over one step from every abstract state and over all sequences up to length 4.",
    "level_note": "Trusted: Lean kernel; ofvextract; Spec.ctWords as the meaning of a history; the hand-written field encoder model (header word from the regenerated MarshalHeader/registry) is tied by the differential run.",
    "assumptions": COMMON_ASSUMPTIONS,
}

PROPS["C19"] = {
    "families": ["C19"],
    "gen_deps": ["ofbase."],
    "rule": "typed write scripts: every kind, every pair and triple of kinds, alignment after every length 0..23, random sequences of up to 12 writes "
            "with boundary and random values, with and without trailing bytes; (base, offset) alignment pairs 0..40 x 0..40 (exhaustive mod 8, through a real "
            "sliced decoder); Header.Decode on every length 0..16 with exact and spare capacity plus random buffers; raw read scripts on random buffers "
            "(short, spare capacity, nested SliceDecoder up to depth 4, Length() and Header.Decode as script steps); for every data length 0..40: the data is consumed, "
            "a Skip / SkipAlign moves PAST the end, then Length() and Header.Decode are asked (error, never a panic). Non-trivial = not a panic / error outcome.",
    "trivial_outputs": ["panic", "err", "-", "ok 0"],
    "level_text": "Kernel-checked theorems over a hand model of Encoder/Decoder whose alignment arithmetic is the Int64 expression regenerated from Decoder.SkipAlign: round trip for ANY sequence of typed writes and any values (induction over the sequence, with arbitrary trailing bytes), exact widths of every put/read, alignment lands on the next multiple of 8 counted from the enclosing message's start, moves at most 7 and never backwards (for sliced decoders at any nesting depth via the Within invariant), Header.Decode on fewer than 8 bytes is an error and has no panic outcome. Tie: regenerated SkipAlign/Skip/Offset; the real Encoder/Decoder are run on generated scripts and compared with the model, including Go's slice-to-capacity semantics.",
    "level_note": "Trusted: Lean kernel; ofvextract; OFV.Go.Slice (index checks len, re-slicing checks cap); the hand model of the read/put primitives is tied by the differential run only; offsets are assumed below 2^62 (Go int = Int64).",
    "assumptions": COMMON_ASSUMPTIONS + ["buffer offsets below 2^62"],
}

RUNTIME_NOTE = ("Partial with respect to the Go runtime: goroutines are interleaved at the granularity of channel / atomic operations; preemption inside "
                "such an operation, the Go memory model and the garbage collector are not modelled. Race-freedom is argued from regenerated syntactic facts "
                "and observed with the race detector in the thorough tier, not proved.")
PROPS["C10"] = {
    "families": ["C10", "OF"], "ops": "stream,loc", "modules": ["C10", "C10b", "C10c", "C10d"],
    "gen_deps": [],
    "race": True,
    "rule": "real util.MessageStream driven through NewMessageStream with a scripted in-memory connection and a recording parser (or the real "
            "openflow13.Parse): frames of 8..5000 bytes, chunk sizes 1,2,3,4,5,7,n-1,n,n+1,2047,2048 and random, a split at every one of the first 12 "
            "offsets of every frame boundary, every proper prefix of a trailing frame, >50 frames with a slow consumer (buffer recycling), a connection "
            "failure after every byte of a frame; seeded scheduling noise in Read/Parse/consumer. Observed: multiset of delivered frames (re-encoded), "
            "errors published, buffers torn while owned by a parser, buffers shared by two parsers. Non-trivial = at least one frame delivered. "
            "failc: a connection failure on a connection whose Close() reports an error too (the failure must still be published once). "
            "loc (family OF): every second conformant frame of the independent switch-side encoder (20 kinds) is parsed from two buffers holding different bytes "
            "behind the frame; message and re-encoding must be identical (frame locality on the implementation).",
    "trivial_outputs": ["frames=- errs=0 torn=0 shared=0", "frames=- errs=1 torn=0 shared=0"],
    "level_text": "Kernel-checked theorems over two models of util.MessageStream's inbound side: (F1) the byte-at-a-time de-framer transcribed from inbound(): any partition of the byte stream into reads gives the same result; for every sequence of well-formed frames followed by a proper prefix of a frame, exactly the complete frames are handed over, intact, once, in order, and the incomplete one is not (induction over bytes, unbounded frame sizes and counts). (F2) a transition system of reader, any number of parser goroutines, consumer, buffer pool, error and shutdown channels with all parameters universally quantified: in every reachable state of every schedule frames are conserved (delivered ⊆ script as multisets; exactly once at quiescence of a failure-free run), buffers are conserved (never in two hands), at most one error is published. Props/C10b.lean (17 theorems) refines this to buffer CONTENTS (Model/Stream/PoolSys: each buffer has an identity and a content, the reader runs the Go loop body byte by byte over any chunking): every buffer in pool.Empty is empty; the reader's buffer holds exactly the received prefix of the current frame; every buffer handed to a parser holds exactly one well-formed frame of the script; the reader is the de-framer (C10b_reader_is_deframer); delivered = script as multisets at quiescence, byte-identical; after a read error nothing but complete frames is delivered and the partial frame never is; every PoolSys run maps to a StreamSys run (refinement), and two negative results: without Reset() before the return to the pool, or with buffers created with a length instead of a capacity, a delivered message is not a frame of the script (C10b_reset_needed, C10b_initial_length_zero_needed). Tie: the real stream is run on chunked scripts under scheduling noise and compared with the de-framer model; ownership violations (torn/shared buffers) are observed directly.",
    "level_note": RUNTIME_NOTE + " The transition system is hand-written from stream.go (channel operations listed in Gen.utilSites); frames still queued in pool.Full when the parsers receive the shutdown signal after a failure are not delivered (allowed by the statement; the check accepts any sub-multiset there).",
    "assumptions": COMMON_ASSUMPTIONS + [RUNTIME_NOTE],
}
PROPS["C11"] = {
    "families": ["C11"], "modules": ["C11", "C11b"],
    "gen_deps": [],
    "race": True,
    "rule": "1..64 producer goroutines x 1..80 messages of 8..7000 bytes each through m.Outbound with seeded scheduling noise; every conn.Write "
            "recorded; checks per run: each Write is exactly one submitted encoding, per-producer order, exactly once, stream re-framed by header length. "
            "outfault: the k-th Write times out after accepting 0/1/8/15/100 bytes - the wire must stay a prefix of whole submitted frames. outreal: 1/2/3/8 "
            "MessageStreams in one process send REAL library messages (packet-out, flow-mod, echo) to connections whose Write looks at the bytes only at the end "
            "of a delay - every connection must carry exactly the encodings of its own messages (computed beforehand from equal twin values).",
    "trivial_outputs": ["ok 0"],
    "level_text": "Kernel-checked invariant over a transition system of any number of producers, a FIFO channel of any capacity and one writer: for every producer, (written ++ held by writer ++ queued ++ not yet submitted) is exactly its submission sequence; hence per-producer order, prefix property in every reachable state of every schedule, exactly-once at quiescence, contiguous frames. The single-writer / one-Write-per-message premises are regenerated syntactic facts about util/stream.go checked by decide. Props/C11b.lean (31 theorems; Model/Stream/OutFault): the same system with a Write that may fail after accepting any k bytes (or a deadline failure): the wire is always whole messages ++ a prefix of the one failed message, empty while the writer is alive; it is a prefix of a complete interleaving of the submissions that respects every producer's order (what the outfault op checks on the real code); after a failure nothing is ever written again (the Go code calls log.Fatalf: the failed message is lost — C11b_failure_loses, outside the property, which quantifies over working connections); re-framing the wire with the C10 de-framer gives back exactly the written messages; refinement to OutSys in both directions; independence of connections: the states a connection can reach in a product of n connections are exactly those it reaches alone from its own submissions. C11_no_shared_encoder_storage: the regenerated list of package-level variables contains nothing an encoder could keep a buffer in. Tie: the real stream is driven by concurrent producers and every Write is checked; real library messages on several connections with late-looking writers (outreal); a Write that times out after a partial write (outfault).",
    "level_note": RUNTIME_NOTE + " A net.Conn that performs short writes without error is outside the model (the code ignores the byte count).",
    "assumptions": COMMON_ASSUMPTIONS + [RUNTIME_NOTE],
}
PROPS["C14"] = {
    "families": ["C14"],
    "gen_deps": [],
    "race": True,
    "rule": "2..64 goroutines drawing 1..20000 ids each through NewHeaderGenerator and NewOfp13Header concurrently (all ids pairwise distinct, headers "
            "well-formed); 2..64 goroutines running 60 sampled builder/encoder programs concurrently, results compared with the sequential run; concurrent mixed-case "
            "registry lookups and packet constructors in an isolated process; xtalk: every API program of the generator (about 1000 valid histories) is observed, "
            "then the traffic of a peer that leaves 0xa5 in every padding field (160 switch-side frames of all 20 kinds) is parsed, then every program is observed "
            "again - the two observations must be equal (no state shared between independent values).",
    "trivial_outputs": [],
    "level_text": "Kernel-checked: (F1) for every schedule of atomic fetch-and-add draws by any number of goroutines the issued ids are pairwise distinct while fewer than 2^32 were drawn, with the contrasting theorem that a separate load/store admits duplicates; (F2) an abstract non-interference theorem: threads whose steps read read-only globals and write only their own store end, under every interleaving, with their sequential result; its premise is instantiated from facts regenerated from the source on every run (the complete list of package-level variables and the only write/address-of on any of them: &messageXid passed to atomic.AddUint32). Tie: regenerated facts + concurrent id draws and concurrent-vs-sequential runs on the real library (race detector in the thorough tier).",
    "level_note": RUNTIME_NOTE + " logrus/log/math-rand internal state is third-party/stdlib and internally locked (trusted). The 'own store' premise for encoders/decoders (each allocates its own buffers) is supported by the absence of package-level mutable state, not proved per function.",
    "assumptions": COMMON_ASSUMPTIONS + [RUNTIME_NOTE],
}

PROPS["C17"] = {
    "families": ["C17"],
    "modules": ["C17", "C17b"],
    "gen_deps": ["openflow13.oxxFieldHeaderMap", "openflow13.newMatchFieldHeader"],
    "rule": "reg0: every window (offset,width) inside 32 bits (528) x values 0,1,2^w-1,random; register comparison against NewRegMatchField for every "
            "window; every registered field x {no mask with 0,1,max,random; 12 windows incl. full field and top bit x shift / no-shift / one-argument "
            "forms; too-wide value, window beyond field, value wider than window, negative value, negative / huge mask arguments, >3 arguments; argument "
            "kinds uint8..uint64, int8..int64, int, []byte, *big.Int with the argument re-read after the call}. Non-trivial = a field was built.",
    "trivial_outputs": ["err", "err arg=1", "err arg=-1"],
    "level_text": "Kernel-checked theorems over a model of NewMatchField with unbounded integers (math/big = Int/Nat): totality (for ANY name, integer and mask arguments the result is a field or an error, never a panic or an endless computation); for every window inside the field the value bytes are v*2^s, the mask bytes exactly the window, value has no bit outside the mask, both L bytes; no-mask form; every class of unrepresentable input (too wide, window beyond the field, value wider than its window, negative value, negative argument, unknown name, more than three arguments) is an error. Tie: the real generic function (10 instantiations) is run on all generated cases and compared with the model; an independent oracle recomputes the expected payload bytes from the specification table and demands an error for unrepresentable input; the caller's argument is re-read after each call.",
    "level_note": "The theorems are about the code after the repair commit 29c7516 (fix: in /repo). Trusted: Lean kernel; math/big modelled by Int/Nat (Lsh, And, BitLen, Bytes, Cmp on non-negative values); the registry lookup model (C15). Equality of the encoded bytes with NewRegMatchField / NewCTMarkMatchField / NewCTStateMatchField / NewConjIDMatchField is a theorem for every register, window and value (C17b_reg_window, C17b_reg_plain, ...) and is additionally checked differentially on every window.",
    "assumptions": COMMON_ASSUMPTIONS + ["math/big semantics as modelled in OFV.Model.MatchFieldGen"],
}

OF_NOTE = ("The whole library (5 packages, 130 kinds, Len/MarshalBinary/UnmarshalBinary/constructors/adders, Parse) is modelled function-for-function in Lean "
           "(OFV.Model.*, ~6.6 kLoC) and tied to /repo on every run by the differential run of the generic reflection harness (same cases on the real "
           "library and on the model, every observation compared). Theorems are about that model; property oracles (independent Spec walker / layout "
           "tables) are evaluated on the IMPLEMENTATION's bytes for generated valid API histories. Trusted: Lean kernel; OFV.Go prelude; the harness; "
           "OFV.Spec transcribed from memory (no specification documents offline). Theorem coverage of the property is partial where stated in 'level_text'.")
ENC_RULE = ("generic reflection harness: 'api' = random VALID API histories (every constructor, adder, setter with in-range arguments; match fields of all "
            "40 kinds; all standard and Nicira actions incl. nested conntrack, NAT setter subsets, learn specs; instructions; buckets; flow-mod/group-mod "
            "with every command; packet-out; port-mod; set-config; multipart requests; Nicira/ONF vendor messages; bundle-add wrapping any message; "
            "conntrack builder methods in random order with repetition; histories preceded by an unrelated hello of another protocol version; ttl actions and "
            "meter instructions), 'enc'/'prog' = literal values and constructor calls with edge arguments (correspondence only), 'embed' = children-intact check on "
            "API-built values and on self-consistent packet literals (IPv6 with 8..2048-byte routing / hop-by-hop headers), 'embedw' = the same on packet headers "
            "decoded from the independent encoder's wire images. Non-trivial = the encoder produced bytes.")
PROPS["C01"] = {
    "modules": ["C01", "C01b", "C01c"],
    "families": ["OF"], "ops": "api,apix,enc,prog", "gen_deps": [],
    "rule": ENC_RULE, "trivial_outputs": ["panic", "err"],
    "level_text": "Theorems (model): constructors stamp version 4 / their type code; for flow-mods of every command and content the first four bytes are (version, type, reported size) — the header length equals the size the message reports; C06 relates reported size to bytes. Oracle on implementation bytes for every generated API-built top-level message: version 4, type code of the kind / constructor, header length = len(bytes) = reported size before and after encoding. Theorems for the other top-level kinds are pending (their framing is decided by the oracle + correspondence only).",
    "level_note": OF_NOTE,
    "assumptions": COMMON_ASSUMPTIONS,
}
PROPS["C02"] = {
    "modules": ["C02", "C02b", "C02c"],
    "families": ["OF"], "ops": "api,apix,enc,prog,rtparse,rtw", "gen_deps": [],
    "rule": ENC_RULE, "trivial_outputs": ["panic", "err"],
    "level_text": "Kernel-checked (Props/C02.lean + C02b.lean, 153 theorems): every message / action / Nicira subtype / instruction / OXM class / vendor code regenerated from the Go constants equals the specification's; rounded sizes are the least multiple of 8; Match.AddField invariant for any history; and per element kind — 7 standard actions, set-field, 16 Nicira actions incl. conntrack with nested actions, NAT with its range setters, learn and its specs, note, reg_load2; OXM fields of all 30 payload kinds masked or not; match; instructions; bucket; hello element; TLV map; bundle property — X_wire (type / length / vendor / subtype words at offsets 0/2/4/8, bytes written), X_ok (declared length = occupied bytes, multiple of 8, padding zero, specification codes) for well-formed values and X_new_wf (each constructor and setter establishes well-formedness); through the Action / Instruction interfaces for all 23 kinds (Declares); WALK theorems: a receiver using only declared lengths visits exactly the element encodings and ends at the last byte, for apply-actions, buckets, conntrack and whole flow-mods. Proved counterexamples for what no constructor builds (4-byte header-only actions, InstrMeter, tun_metadata above 124 bytes, hello element with an even number of bitmaps). Oracle: an independent receiver written only from the wire grammar (Spec.walk: declared lengths, alignment, zero padding, legal codes and widths, ends exactly at the end) walks the implementation's bytes of every API-built message / element and must visit exactly the elements the value holds, in order.",
    "level_note": OF_NOTE,
    "assumptions": COMMON_ASSUMPTIONS,
}
# encoders whose regenerated bodies the C03d theorems are stated over (tie T1): leaving the translated subset breaks C03
C03D_GEN = (["common.Header.MarshalBinary", "common.HelloElemHeader.MarshalBinary"]
            + ["openflow13.%s.MarshalBinary" % k for k in """
    ActionHeader ActionOutput ActionSetqueue ActionGroup ActionMplsTtl ActionDecNwTtl ActionNwTtl ActionPush ActionPopVlan ActionPopMpls BundleControl
    InstrHeader InstrMeter InPortField EthTypeField VlanIdField MplsLabelField MplsBosField IPv6FlowLabelField IpProtoField IpDscpField TunnelIdField
    MetadataField PortField TcpFlagsField ArpOperField ActsetOutputField IcmpTypeField IcmpCodeField Uint16Message Uint32Message NXActionHeader
    NXActionConjunction ControllerID TLVTableMap""".split()]
            + ["openflow13.%s.Len" % k for k in "ActionHeader ActionOutput ActionGroup InstrHeader NXActionHeader NXActionConjunction ControllerID TLVTableMap BundleControl".split()])
PROPS["C03"] = {
    "modules": ["C03", "C03b", "C03c", "C03d"],
    "families": ["OF"], "ops": "api,apix,enc,prog", "gen_deps": C03D_GEN,
    "rule": ENC_RULE, "trivial_outputs": ["panic", "err"],
    "level_text": "Kernel-checked (Props/C03.lean + C03b.lean, 68 theorems): LayoutHolds K v bs := every row of the specification table Spec.layouts for kind K (field name, offset, width) holds of the encoding — proved for all 36 kinds of the table whose rows are true: standard actions, 11 Nicira actions incl. the NAT fixed part, instructions, flow-mod, group-mod, bucket, packet-out, port-mod, set-config, multipart request and bodies, vendor payloads, bundle-add; match-field placement (header word, experimenter id exactly when present, value then mask exactly when HasMask); list order (k-th child intact at start + sum of the sizes before it) for match fields, actions, buckets, instructions, conntrack actions, TLV maps, learn specs; NAT optional parts in presence-bit order exactly when set. Proved counterexamples for the rows that are false: 16-bit port_no of the stats requests (known finding D44), stub kinds InstrMeter / ActionMplsTtl / ActionNwTtl (no constructor). Oracle: specification layout tables (Spec.layouts: offset, width per field of every message, action, instruction, bucket, vendor payload; OXM payload = value||mask in the field's width; NAT optional parts by presence bits in OVS order; learn-spec header packing; header words of register fields) applied to the implementation's bytes of every API-built value, element by element along the grammar walk.",
    "level_note": OF_NOTE + " Known finding D44 (port-stats / queue-stats request port_no is 16 bits wide in the struct).",
    "assumptions": COMMON_ASSUMPTIONS,
}
# functions whose regenerated bodies the C06d theorems are stated over (tie T1): leaving the translated subset breaks C06
C06D_GEN = (["common.Header.Len", "common.HelloElemHeader.Len", "protocol.VLAN.Len", "openflow13.NewLearnHeader"]
            + ["openflow13.%s.Len" % k for k in """
    ActionHeader ActionOutput ActionSetqueue ActionGroup ActionMplsTtl ActionDecNwTtl ActionNwTtl ActionPush ActionPopVlan ActionPopMpls BundleControl
    InstrHeader InstrGotoTable InstrWriteMetadata InstrMeter InPortField EthDstField EthSrcField EthTypeField VlanIdField MplsLabelField MplsBosField
    Ipv4SrcField Ipv4DstField Ipv6SrcField Ipv6DstField IPv6FlowLabelField IpProtoField IpDscpField TunnelIdField MetadataField PortField TcpFlagsField
    ArpOperField TunnelIpv4SrcField TunnelIpv4DstField ArpXHaField ArpXPaField ActsetOutputField IcmpTypeField IcmpCodeField DescStats AggregateStats
    TableStats PortStatsRequest PortStats QueueStatsRequest QueueStats NXActionHeader NXActionConjunction NXActionRegLoad NXActionRegMove NXActionResubmit
    NXActionResubmitTable NXActionCTNAT NXActionOutputReg NXActionCTClear NXActionDecTTL NXActionDecTTLCntIDs NXLearnSpecHeader NXLearnSpecField
    NXLearnSpec NXActionController Uint16Message Uint32Message ByteArrayField CTLabel ControllerID TLVTableMap SwitchConfig""".split()])
PROPS["C06"] = {
    "modules": ["C06", "C06b", "C06c", "C06d"],
    "families": ["OF"], "ops": "api,apix,enc,prog,embed,embedw,rtrip,rtparse,rtw,dhcpsz", "gen_deps": C06D_GEN,
    "rule": ENC_RULE, "trivial_outputs": ["panic", "err"],
    "level_text": "Theorems: fill_exact / fill_length — the make(Len())+copy idiom returns exactly Len() bytes and, when the pieces fit, their concatenation plus zero padding (the general lemma every container theorem instantiates); all 30 match-payload kinds: size = encoding length and neither call modifies the value; match field and match: encoding length = reported size for any content, match size multiple of 8. Oracle: reported size before and after encoding = bytes produced, on every API-built value of every kind. C06b (≈ 100 theorems): the same for every OpenFlow action, instruction, bucket and message kind incl. the containers (children embedded intact). C06c (≈ 85 theorems): size = bytes for EVERY value of every packet kind (VLAN, Ethernet, ARP, IPv4, ICMP, UDP, TCP, IPv6 and its extension headers, IGMP, DHCP, LLDP) through the payload dispatch at every depth, and children-intact for every container under its exact consistency condition (IHL·4 = 20 + |options|, 8·(HEL+1) = 2 + Σ option sizes, …) with a concrete witness that each condition is necessary. Oracles also on the values the decoders build (rtrip / rtparse / rtw) and on packet headers (embed / embedw).",
    "level_note": OF_NOTE,
    "assumptions": COMMON_ASSUMPTIONS,
}

DEC_RULE = ("generic reflection harness, decode side: every encoding captured from the api/enc/prog cases and hand-built wire images of every switch-sent kind, "
            "each with all truncations, per-byte corruptions of the length/type/count bytes, trailing junk and spare capacity (the slice's backing array is "
            "longer than len, as in the stream's pooled buffers); random byte strings. Non-trivial = the decoder returned a value (not an error).")
PROPS["C12"] = {
    "families": ["OF"], "ops": "scribble,parse", "gen_deps": [],
    "rule": "scribble: every message that Parse accepts among the generated frames (the library's own encodings of API-built top-level messages with every action mix; api/enc encodings of every kind incl. packet-in with Ethernet/IPv4/IPv6/ARP/ICMP/UDP "
            "payloads, vendor and bundle messages with properties, multipart replies; their corruptions) is parsed from a private copy, the WHOLE backing array "
            "(len and spare capacity) is then overwritten twice with different patterns, and the message dump and its re-encoding are compared with the ones taken "
            "before. Non-trivial = Parse returned a message.",
    "trivial_outputs": ["err", "panic", "-"],
    "level_text": "Theorems about facts regenerated from the Go source on every run: the syntactic taint analysis `retained` (every statement that keeps a sub-slice of a []byte parameter instead of a copy) has no entry inside a function reachable from openflow13.Parse in the RTA call graph `parseReach`; non-vacuity of both (the graph reaches packet-in/Ethernet/IP/vendor/bundle/multipart decoders; the analysis does flag the aliasing sites outside Parse's reach). The model itself has value semantics, so aliasing is decided dynamically: the scribble oracle on the real parser for every generated frame.",
    "level_note": OF_NOTE + " The aliasing theorem is about extractor output (trusted: ofvextract's taint rules and call graph); sharing through unsafe or reflection is outside it.",
    "assumptions": COMMON_ASSUMPTIONS + ["aliasing can only arise from the statement forms the taint analysis knows (store, append element, NewBuffer, composite literal, return, send)"],
}

PROPS["C08"] = {
    "families": ["OF"], "ops": "dec,decc,prog,fn", "gen_deps": ["protocol."],
    "rule": DEC_RULE + " For C08 the protocol-package decoders: Ethernet (tagged/untagged), ARP, IPv4 (every IHL), IPv6 with hop-by-hop/routing/fragment chains and options, ICMP, TCP, UDP, IGMP v1/v2/v3 query, group record, report, DHCP Write and DHCPParseOptions, LLDP TLVs.",
    "trivial_outputs": ["err", "panic", "spin", "-"],
    "level_text": "Kernel-checked totality theorems for EVERY protocol-package decoder of the model: for any receiver and any well-formed slice (len <= cap) the result is a value or an error, never a panic and never a non-terminating loop — leaf decoders (VLAN, ARP, ICMP, TCP, UDP, IGMPv1/2, fragment, option, routing, util.Buffer), loops (hop-by-hop options, DHCP option list, IGMPv3 query/record/report) via the goLoop progress lemmas, composites (IPv4, IPv6 extension chain, Ethernet, DHCP, LLDP with an explicit non-nil-receiver hypothesis) from their parts; the regenerated size functions (HopByHopHeader.Len, RoutingHeader.Len, Option.Len, IGMPv3*.Len translated from the Go source on every run) are shown to be 8*(HEL+1) >= 8 / Length+2 >= 2 without 8-bit wrap. Every loop's fuel is linear in the input length. Oracle on the implementation: no decoder call of the generated byte strings panics or spins.",
    "level_note": OF_NOTE + " The theorems are about the code after the decoder repairs (fix commits 398adf7, 4326582, 43786dd, 85ab893, 2ae69ca, 00a04ac). Time/memory proportionality is proved as 'fuel linear in the input'; the model has no finer cost notion.",
    "assumptions": COMMON_ASSUMPTIONS + ["slices are well formed (len <= cap)"],
}

PROPS["C09"] = {
    "families": ["OF"], "ops": "pk,pkrw,rtrip,rtx,dec", "gen_deps": ["protocol."], "modules": ["C09", "C09b", "C09c"],
    "rule": "pk: packet headers written by an independent encoder (harness/cmd/ofvrun/of_switch.go, from the RFC layouts): VLAN tag over all (pcp, dei) and boundary/random vids, "
            "TCP data offset x 6 code bits, IPv6 fragment offset/M, IGMPv3 S/QRV, IGMPv1/2, IGMPv3 reports with group records and aux words, routing and hop-by-hop headers whose options fill "
            "them exactly, ICMP, ARP, whole Ethernet frames (tagged/untagged; IPv4/ICMP with all sub-byte fields, IPv4/UDP, ARP, IPv6 with hop-by-hop / fragment chains and ICMPv6 / UDP, "
            "unknown ethertype), each with exact and spare capacity. Non-trivial = the decoder returned a value.",
    "trivial_outputs": ["err", "panic", "spin", "-"],
    "level_text": "Kernel-checked theorems (Props/C09.lean): lane theorems — for ALL in-range field values unpack(pack) returns each field (VLAN PCP/DEI/VID, IPv4 version/IHL, DSCP/ECN, flags/fragment offset, IPv6 version/class/flow label across its words, TCP data offset and code bits, fragment offset/M flag, IGMPv3 S/QRV) by arithmetic over UIntN, not enumeration; round-trip theorems for the leaf header kinds (decode(encode v ++ tail) = v, size = bytes); demux theorems: the payload decoder is chosen by the ethertype after an optional tag, the IPv4 protocol byte, the IPv6 next-header chain. Oracle on the implementation: every value an independent encoder wrote is found in the decoded header, the reported size equals the bytes consumed, the re-encoding reproduces the input. C09b (50 theorems): DHCP (option, option list incl. pad options, whole message incl. 16-byte v4-mapped addresses) and LLDP (TLV lanes, the three TLVs, the whole frame) round trips for every well-formed value, with the precise limits (an explicit end option is dropped; hardware length above 16 rejected; a 512-byte chassis id does not fit the 9-bit length). pkrw: BOOTP/DHCP messages written by an independent encoder (with pad options and trailing BOOTP padding) are decoded with Write, compared field by field and re-encoded with Read.",
    "level_note": OF_NOTE + " TCP.Code is modelled as the library defines it (6 bits). DHCP / LLDP use Read/Write methods rather than Marshal/Unmarshal and are covered by the correspondence run (prog op) and C08 only.",
    "assumptions": COMMON_ASSUMPTIONS + ["RFC 791/2460/793/3376/826, IEEE 802.1Q layouts transcribed from memory in the independent encoder"],
}

PROPS["C07"] = {
    "families": ["OF"], "ops": "parse,sw,dec", "gen_deps": [],
    "rule": DEC_RULE + " For C07: every frame goes through openflow13.Parse (about 13 000 frames at the quick tier: wire images of every message kind incl. packet-in with every payload decoder, vendor and bundle messages, multipart replies; every truncation, corruption of type/length/count bytes, declared lengths 0 and 0xffff, spare capacity; flow-mods with conntrack actions nested 9..200 deep (..700 at the thorough tier); packet-ins carrying IPv6 with every next-header value 0..255, directly and after a hop-by-hop header, with and without bytes after the last header). A Parse call that does not return within 3 s counts as non-termination, a recovered panic is an error.",
    "trivial_outputs": ["err", "panic", "spin", "-"],
    "level_text": "Kernel-checked: C07_parse_no_panic (for every depth and slice, unconditional) and C07_parse_total : for EVERY well-formed slice (len <= cap, no bound on either) Parse returns a message or an error — proved decoder by decoder: every loop of every decoder reachable from Parse (hello elements, match fields, action lists at every conntrack nesting depth, learn specs, instructions, flow-stats records, multipart records, TLV maps, bundle properties and the nested Parse, packet-in -> Ethernet via the C08 theorems) advances its cursor on every successful iteration within fuel linear in the input. The failed attempts to prove it without bounds produced three concrete non-terminating inputs (hello > 65535 bytes; a 65535-byte flow-stats reply; a 65545-byte bundle-add), each replayed on the library, repaired (b558ac9, 48a6ffe, f8f0b2c) and kept as corpus witnesses. Oracle on the implementation: no generated frame makes Parse panic or exceed its time budget.",
    "level_note": OF_NOTE + " 'Time and memory proportional to the input' is proved as: no panic, no non-termination, loop fuel linear in the slice capacity; the model has no finer cost notion.",
    "assumptions": COMMON_ASSUMPTIONS + ["slices are well formed (len <= cap)"],
}

PROPS["C13"] = {
    "families": ["OF"], "ops": "rep,repx,embed,repvia", "gen_deps": [], "modules": ["C13", "C13b"],
    "rule": "rep: on every API-built value (every kind; valid histories) one of 14 scripts of Len() / MarshalBinary() calls (L, M, LL, MM, LM, ML, LML, MLM, LLMM, MMLL, LMLMLMLM, MMMM, LLLL, MLLM); every Len() in a script must give the same "
            "number, every MarshalBinary() the same bytes, and the dump afterwards is compared with the model; repx: the same scripts on arbitrary literal values (correspondence only). Non-trivial = the encoder produced bytes.",
    "trivial_outputs": ["err", "panic", "Merr", "-"],
    "level_text": "Kernel-checked (Props/C13.lean, 105 theorems): round8 idempotent for every n; purity (Len()/MarshalBinary() leave the value unchanged) for the header, all 30 match payload kinds, match field, match, 23 action/spec kinds, instructions, hello elements and 20 message kinds; for the kinds that store something when sized or encoded (resubmit, controller, note, reg_load2, learn, CT NAT rounding, conntrack, apply-actions, bucket, group-mod, flow-mod, hello, switch-config, port-mod, port-status, switch-features, bundle property) the bundle Repeatable: a second Len() gives the same size and changes nothing further, a second MarshalBinary() gives the same bytes and changes nothing further, Len() after MarshalBinary() = Len() before, MarshalBinary() after Len() = MarshalBinary() alone — composing to every nesting depth of conntrack actions; Repeatable + size theorem give Len() after encoding = number of bytes. Props/C13b.lean (44 theorems): interface_repeatable — for EVERY value v of every one of the 123 modelled kinds (every_kind_repeatable), with no well-formedness hypothesis, Repeatable holds through the interface dispatch at every nesting depth (packet-out, vendor header with every payload, bundle-add, multipart request/reply, flow-stats, packet-in with Ethernet/IPv4/IPv6/ARP/ICMP/UDP/TCP payloads included); script_repeatable — any script of Len()/MarshalBinary() calls of any length in any order answers the first size and the first bytes and the value stops changing at the first MarshalBinary(); embed_again — a child sized or encoded again inside a parent gives the same bytes. Oracle on the implementation: scripts of repeated calls on every API-built value and on literal values.",
    "level_note": OF_NOTE + " Repeatable says nothing when the first Len()/MarshalBinary() itself fails (the script theorems assume the value is sizeable and encodable).",
    "assumptions": COMMON_ASSUMPTIONS,
}

PROPS["C05"] = {
    "families": ["OF"], "ops": "rtrip,rtparse,rtw,rtx,enc,dec", "gen_deps": [], "modules": ["C05", "C05b", "C05c", "C05d"],
    "rule": "rtrip / rtparse: every API-built value (every kind; valid histories incl. bundle-add wrapping any message) is encoded, the bytes are followed by 8 other bytes inside a larger backing array, decoded by the kind's "
            "own decoder (elements) or by openflow13.Parse (top-level messages), and re-encoded: the re-encoding must equal the encoding and the reported size its length; rtx: the same on literal values (correspondence only); "
            "dec: decoders on captured encodings with truncations / corruptions (correspondence). Non-trivial = the value was encoded.",
    "trivial_outputs": ["err1", "panic", "-"],
    "level_text": "Kernel-checked round-trip theorems (Props/C05.lean, 45 theorems; RoundTrip enc dec v v' bs := enc v = (bs, v) and dec (bs ++ tail, any spare capacity) = v' and enc v' = (bs, v')): header; all 30 match payload kinds in one statement; match fields of all three decodable classes (basic, NXM_1, ONF experimenter) with and without mask; matches with every field decoded from its position in the list; 12 standard / Nicira action kinds through DecodeAction; instructions incl. apply/write-actions over any action list; flow-mod (match + instructions + nested actions) , flow-removed, switch-config, hello with any number of padded elements, switch-features (32-byte form), port-status, error message, bundle property, packet-in with an opaque frame, and the six header-only messages through parse. Each statement covers the element followed by arbitrary bytes. The counterexamples the provers found were genuine defects, repaired and turned into these positive theorems (resubmit table id 7290f82, hello elements b558ac9, experimenter id 61f6847, features-reply DPID 7fc79d3); remaining proved counterexamples are stub kinds no constructor builds (ActionMplsTtl, ActionNwTtl, InstrMeter) and a hello element of unpadded length followed by another element. Oracle on the implementation: byte-exact round trip of every API-built value through the kind's decoder and through Parse.",
    "level_note": OF_NOTE + " Known finding D28: Parse does not decode the controller-originated kinds packet-out, group-mod, port-mod, table-mod and multipart requests. Round-trip theorems for the remaining Nicira actions (reg_load, reg_move, output_reg, learn, NAT, conntrack, note, controller, dec_ttl_cnt_ids), buckets / group-mod, stats records and vendor messages are not written yet (decided by the oracle and the correspondence).",
    "assumptions": COMMON_ASSUMPTIONS,
}

PROPS["C04"] = {
    "families": ["OF"], "ops": "sw,parse,rtw,scribble", "gen_deps": [], "modules": ["C04", "C04b", "C04c"],
    "rule": "sw: an INDEPENDENT encoder of switch-sent messages written from the OpenFlow 1.3 / Nicira / ONF-bundle specifications with a plain byte builder (harness/cmd/ofvrun/of_switch.go; no encoder of the library is used) produces 20 kinds: hello with version bitmaps, "
            "error, experimenter error, echo without and with payload, features reply, get-config reply, packet-in (random OXM matches of 18 field kinds with and without masks; Ethernet frames tagged/untagged carrying IPv4/ICMP with all sub-byte fields, IPv4/UDP, ARP, IPv6 with hop-by-hop and "
            "fragment headers and ICMPv6/UDP, unknown ethertype), flow-removed, port-status, multipart replies (description, flow stats with matches and instruction/action lists, aggregate, table, port, queue, port descriptions), barrier reply, Nicira TLV-table reply, ONF bundle-control reply — "
            "with exact and spare capacity. With each frame goes the list of every value written, addressed by the Go field that must hold it after Parse. Non-trivial = Parse returned a message.",
    "trivial_outputs": ["err", "panic", "spin", "-"],
    "level_text": "Kernel-checked (Props/C04.lean, 28 theorems): for ALL field values and any xid, every well-formed slice whose visible bytes are the frame the specification assigns to the message (written out with be16/be32/be64 and explicit padding in the statement — the independent encoder) parses to exactly the value holding those fields: echo request/reply and barrier reply, get-config reply, features reply, error and experimenter error with any data, hello with a version bitmap, port-status with the full 64-byte port, flow-removed (any correctly decoded match; empty; in_port), packet-in (any correctly decoded match and frame; opaque frame; ARP down to its addresses), aggregate / description / flow-stats replies (record with any decoded match and instruction list; in_port + goto-table), bundle-control reply, TLV-table reply with any number of mappings (induction over the loop). Proved counterexamples for the known findings: echo payload dropped; table / port / queue stats records and port descriptions of OpenFlow 1.3 rejected. Oracle on the implementation: every value the independent encoder wrote must be found in the message Parse returns (paths resolved through the regenerated struct layouts; instruction lists through the grammar walker and layout tables).",
    "level_note": OF_NOTE + " Known findings D50 (echo payload dropped) and D51 (OpenFlow 1.0 layouts of table/port/queue stats records, port descriptions not decoded). The theorems are about the code after the repairs b558ac9 (hello elements), 83afeb1 (port-status, description strings) found by this check.",
    "assumptions": COMMON_ASSUMPTIONS + ["OpenFlow 1.3.5, nicira-ext.h and ONF bundle extension layouts transcribed from memory, twice and independently: in the Lean statements and in the Go encoder"],
}

# ---- later prover rounds (text appended to the level descriptions) -------------------------------------------------
PROPS["C10"]["level_text"] += (" C10c (frame locality, 23 statements over ~180 lemmas): the result of a decoder depends only on the visible bytes of the "
    "slice it is given, never on what the recycled buffer holds behind the frame — proved for every packet-header decoder (Ethernet, VLAN, ARP, IPv4, IPv6 and "
    "extension headers, ICMP, TCP, UDP, IGMP, DHCP options), matches and all match-field payloads, and for Parse on every message kind except flow-mod and "
    "flow-stats replies — for flow-mods under the decidable in-frame condition FlowModInFrame (every instruction and action the loops reach lies inside the frame; a conformant "
    "frame satisfies it, the over-read frame violates it), bundle-adds by induction over the nesting (C10c_parse_local3); with PROVED counterexamples where it is false (a header on 4..7 bytes, a vendor "
    "frame shorter than its own length field, a TLV-table reply whose body is shorter than 16 bytes: its reserved field is filled from the bytes behind the frame, a flow-mod / "
    "flow-stats reply whose last instruction declares more than the frame holds: its actions are decoded from behind the frame, goto-table / write-metadata decoders whose "
    "outcome depends on the capacity alone).")
PROPS["C10"]["level_text"] += (" C10d (regenerated facts): util/stream.go has exactly one send site on the Error channel, one conn.Read site and one "
    "reader goroutine, one parser call followed by the one send on Inbound, one hand-over site for full buffers and one recycle site after the one Reset — the "
    "premises under which the transition systems are an accurate picture (a second publication site, as in seed C10h, breaks the theorem).")
PROPS["C05"]["level_text"] += (" C05d (40 theorems, with an inventory of every kind and dispatcher case against its round-trip theorem): the remaining gaps — "
    "experimenter errors through Parse, the four stats-request bodies, the embedded element codecs, all 28 leaf action kinds of both dispatch tables in ONE list "
    "(as apply-actions, as a bucket's list, inside a flow-mod through Parse), vendor messages without payload — and the precise limits as proved counterexamples "
    "(unknown experimenter / multipart types never parse, a bare hello element header loses what follows it, packet-in and hello swallow bytes behind the message).")
PROPS["C06"]["level_text"] += (" C06d (80 theorems): for 70 kinds with a constant, stored or header-computed size the model's Len() equals the definition regenerated from the current Go Len() body (tie T1) for every value.")
PROPS["C03"]["level_text"] += (" C03d (51 theorems): for 48 fixed-layout kinds (headers, the standard actions, goto-table / write-metadata / meter, 23 match payloads, NXActionHeader / Conjunction / CTClear / DecTTL / Resubmit / ResubmitTable, ControllerID, TLVTableMap, BundleControl) the model's encoder returns exactly the bytes of the Go MarshalBinary body regenerated statement by statement on this run (tie T1), for every field value.")
PROPS["C01"]["level_text"] += (" C01c (API histories): flowMod_history_sent / groupMod_history_sent — for every xid, command and scalar field, any match that encodes, "
    "any list of instructions (apply/write-actions built by any AddAction list; goto-table, write-metadata, meter) added by AddInstruction / buckets built by NewBucket + "
    "AddAction added by AddBucket: every call succeeds, MarshalBinary succeeds, and below 64 KiB the message is framed (version 4, type code, header length = bytes = Len()); "
    "packet-out, hello and bundle-add histories are framed whenever the encoder returns; the constructors of 14 action and 3 instruction kinds are shown to encode for every argument.")
PROPS["C09"]["level_text"] += (" C09c: the VLAN tag encoder regenerated from the Go source (TPID, then PCP<<13 + DEI<<12 + VID) equals the model's, for all field values (tie T1).")
PROPS["C02"]["level_text"] += (" C02c: the REAL specification walker (Spec.walk…, incl. minimum lengths, zero padding, alignment, type codes) accepts the model's "
    "encoding and returns one subtree per child, for every hello (any list of version-bitmap elements; whole message through Spec.walk), TLV-table-mod (any list "
    "of maps), any list of bundle properties; 20 action kinds (output … set-field with any fixed-width match field, 10 Nicira kinds incl. note and controller) through the "
    "interface dispatch, any bucket / group-mod (through the top-level walker) / packet-out action list of such actions; every fixed-width match field of the walker's "
    "table ± mask, any match built by NewMatch + AddField; goto-table, write-metadata, meter, write/apply/clear-actions; and flowMod_topWalk_known: Spec.walk accepts "
    "EVERY flow-mod (any command, DELETE without instructions) of such a match and such instructions and returns one node per field and per instruction.")
PROPS["C03"]["level_text"] += (" C03c (API histories, induction over ALL call sequences): conntrack builder (flags accumulate, zone and table of the last call, "
    "ZoneImm clears the zone source, nested actions in call order — on the bytes at their offsets); NAT builder (flag setters, presence bit set iff the setter was "
    "called, value of the last call, optional parts in specification order whatever the call order, stored length = 16 + widths of the ranges present also with "
    "repeated setters and Len() interleaved — the statement whose failure exposed the repaired defect 5e9a43b); adders of bucket / group-mod / flow-mod / packet-out / "
    "match: children in call order at offset = fixed part + sizes of the earlier children.")

NOT_YET = {}
