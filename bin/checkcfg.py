# per-property configuration of bin/check
COMMON_ASSUMPTIONS = [
    "Lean 4.33.0 kernel; theorems audited with #print axioms (allowed: propext, Classical.choice, Quot.sound)",
    "theorems are about the Lean model; the model is tied to /repo by ofvextract (regenerated definitions) and by the differential run of this check",
]

PROPS = {
    "C16": {
        "families": ["C16"],
        "gen_deps": ["openflow13.encodeOfs", "openflow13.decode", "openflow13.NXRange", "openflow13.NewNXRange"],
        "exhaustive": True,
        "rule": "all 37x37 (first,last) pairs around the 528 in-domain ranges, by (first,last) and by (offset,width); all 1024x66 "
                "(offset,width) pairs; all 1024x64 (first,last) encodings; random out-of-domain pairs. A case is non-trivial when its "
                "result is not the all-zero word; distinct = distinct case text.",
        "trivial_outputs": ["00000000", "0000 0 1"],
        "level_text": "Kernel-checked theorems about the helper definitions regenerated from the Go source on every run: the mask of every one of the 528 ranges (decide +kernel over the whole domain plus a bit-level characterisation), the offset/width word and its inverse for all offsets < 1024 and widths 1..64 (proof over UInt16, not enumeration), agreement of the two range descriptions. The tie is double: the definitions are re-translated from /repo, and the real helpers are run over the complete finite domain and compared with model and spec.",
        "level_note": "Trusted: Lean kernel; ofvextract's translation of the Go subset (itself cross-checked by the exhaustive differential run); Spec.bits/Spec.ofsNbits as the meaning of a range; Go int = Int64.",
        "assumptions": COMMON_ASSUMPTIONS + ["Go int is 64-bit (Int64)", "unexported helpers reached through /repo/openflow13/verif_hooks.go (build tag verif)"],
    },
}

PROPS["C15"] = {
    "families": ["C15"],
    "gen_deps": ["openflow13.oxxFieldHeaderMap", "openflow13.newMatchFieldHeader", "openflow13.MatchField"],
    "exhaustive": True,
    "rule": "every name of the spec table and of the regenerated registry x mask on/off x upper/lower/mixed case, near-miss and unknown names, "
            "lookup-after-mutation of an earlier result (concurrently with a further lookup); header words: 7^4 boundary-byte words, all 256 values "
            "of the packed byte, random words (thorough: all 2^32 words swept on the Go side). Non-trivial = the lookup succeeds / the word is non-zero.",
    "trivial_outputs": ["err", "0 0 0 0 00000000", "00000000"],
    "level_text": "Kernel-checked theorems: the REGENERATED registry table equals, entry by entry, the class/field/width table transcribed from OpenFlow 1.3.5 and OVS meta-flow.h; the registered names are exactly the supported ones; width doubling cannot wrap; the lookup model returns table values with mask flag and doubled width; header pack/unpack are mutual inverses for all 2^32 words (proof over bytes, not enumeration) using the regenerated MarshalHeader; independence of results from regenerated syntactic facts (map never written, lookup returns a fresh composite literal, entry only read field-wise). Ties: table and MarshalHeader regenerated from source; the real lookup is run on every name/case/mask and compared with model and spec.",
    "level_note": "Trusted: Lean kernel; Spec.oxmTable (transcribed from memory); ofvextract; the model of FindFieldHeaderByName/UnmarshalHeader is hand-written and tied by the exhaustive differential run; strings.ToUpper modelled for ASCII names only; race-freedom is argued from the syntactic facts plus the concurrent lookup/mutation run, not proved about the Go memory model.",
    "assumptions": COMMON_ASSUMPTIONS + ["names are ASCII (strings.ToUpper is modelled as ASCII upper-casing)"],
}
PROPS["C18"] = {
    "families": ["C18"],
    "gen_deps": ["openflow13.CTStates", "openflow13.NewCTStates", "openflow13.MatchField.MarshalHeader", "openflow13.oxxFieldHeaderMap"],
    "exhaustive": True,
    "rule": "from each of the 3^8 = 6561 abstract builder states (canonical history) each of the 16 operations; all call sequences of length <= 4 "
            "from a fresh builder (69904); random histories of length 5..64. Observation = bytes of the encoded ct_state match field. "
            "Non-trivial = at least one flag constrained.",
    "trivial_outputs": ["0001d3080000000000000000"],
    "level_text": "Kernel-checked induction over ALL call sequences of all lengths (and from any starting state) about the setter bodies regenerated from the Go source: per flag, mask bit = touched, value bit = polarity of the most recent call, bits 8..31 untouched; plus the byte layout of the encoded match field. Ties: setter bodies are re-translated on every run (a wrong offset or missing mask update changes the definition and breaks its step lemma) and the real builder is run exhaustively over one step from every abstract state and over all sequences up to length 4.",
    "level_note": "Trusted: Lean kernel; ofvextract; Spec.ctWords as the meaning of a history; the hand-written field encoder model (header word from the regenerated MarshalHeader/registry) is tied by the differential run.",
    "assumptions": COMMON_ASSUMPTIONS,
}

PROPS["C19"] = {
    "families": ["C19"],
    "gen_deps": ["ofbase."],
    "rule": "typed write scripts: every kind, every pair and triple of kinds, alignment after every length 0..23, random sequences of up to 12 writes "
            "with boundary and random values, with and without trailing bytes; (base, offset) alignment pairs 0..40 x 0..40 (exhaustive mod 8, through a real "
            "sliced decoder); Header.Decode on every length 0..16 with exact and spare capacity plus random buffers; raw read scripts on random buffers "
            "(short, spare capacity, nested SliceDecoder up to depth 4). Non-trivial = not a panic / error outcome.",
    "trivial_outputs": ["panic", "err", "-", "ok 0"],
    "level_text": "Kernel-checked theorems over a hand model of Encoder/Decoder whose alignment arithmetic is the Int64 expression regenerated from Decoder.SkipAlign: round trip for ANY sequence of typed writes and any values (induction over the sequence, with arbitrary trailing bytes), exact widths of every put/read, alignment lands on the next multiple of 8 counted from the enclosing message's start, moves at most 7 and never backwards (for sliced decoders at any nesting depth via the Within invariant), Header.Decode on fewer than 8 bytes is an error and has no panic outcome. Tie: regenerated SkipAlign/Skip/Offset; the real Encoder/Decoder are run on generated scripts and compared with the model, including Go's slice-to-capacity semantics.",
    "level_note": "Trusted: Lean kernel; ofvextract; OFV.Go.Slice (index checks len, re-slicing checks cap); the hand model of the read/put primitives is tied by the differential run only; offsets are assumed below 2^62 (Go int = Int64).",
    "assumptions": COMMON_ASSUMPTIONS + ["buffer offsets below 2^62"],
}

NOT_YET = {}
