/-
  OFV.Lemmas.RTPacketIn — PacketIn through Parse with an opaque Ethernet frame (`EthRT`), and one instance of `EthRT`:
  an untagged frame with an uninterpreted ethertype carrying raw bytes.  Used by OFV/Props/C05.lean.
-/
import OFV.Model.All
import OFV.Lemmas.Size
import OFV.Lemmas.RTBasic
import OFV.Lemmas.RTMatch
import OFV.Lemmas.RTMsg
import OFV.Lemmas.RTMsgMore
namespace OFV.RT
set_option linter.unusedSimpArgs false
open OFV OFV.Go OFV.Model

/-- an Ethernet frame `eth` with encoding `eb` that round-trips on its own (decoded from a buffer holding exactly the frame:
    the frame's payload extends to the end of the buffer) -/
def EthRT (eth : V) (eb : Bytes) : Prop :=
  PEthernet.marshalM eth = .ok (eb, eth) ∧ PEthernet.lenM eth = .ok (UInt16.ofNat eb.length, eth) ∧
  ∀ (data : Slice), data.WF → data.bytes = eb → PEthernet.unmarshal PEthernet.zero data = .ok eth

def packetInV (ver ln xid b t r ti c : Nat) (m : V) (pad : Bytes) (eth : V) : V :=
  .obj "PacketIn" [.obj "Header" [.num ver, .num Gen.openflow13.Type_PacketIn, .num ln, .num xid], .num b, .num t, .num r,
    .num ti, .num c, m, .bytes pad, eth]

/-- PacketIn through Parse with an opaque Ethernet frame -/
theorem packetIn_rt (ver xid b t r ti c : Nat) (m eth : V) (eb : Bytes)
    (hver : ver < 256) (hxid : xid < 4294967296) (hb32 : b < 4294967296) (ht : t < 65536) (hr : r < 256) (hti : ti < 256)
    (hc : c < 18446744073709551616) (hm : MatchWF m) (heth : EthRT eth eb) :
    ∃ mbs, Match.marshalM m = .ok (mbs, m) ∧ (26 + mbs.length + eb.length < 65536 →
      let L := 26 + mbs.length + eb.length
      let bs := [n8 ver, n8 Gen.openflow13.Type_PacketIn] ++ be16 (n16 L) ++ be32 (n32 xid)
        ++ (be32 (n32 b) ++ be16 (n16 t) ++ [n8 r, n8 ti] ++ be64 (n64 c)) ++ mbs ++ zeros 2 ++ eb
      (∀ ln0, PacketIn.marshalM (packetInV ver ln0 xid b t r ti c m [] eth) = .ok (bs, packetInV ver L xid b t r ti c m [] eth)) ∧
      ∀ (depth : Nat) (data : Slice), data.WF → data.bytes = bs →
        parse depth data = .ok (packetInV ver L xid b t r ti c m [] eth)) := by
  obtain ⟨mbs, hmm, hml, _, hmdec, h8m, hm64⟩ := match_roundtrip m hm
  obtain ⟨hem, hel, hedec⟩ := heth
  refine ⟨mbs, hmm, fun hL => ?_⟩
  intro L bs
  have htom : (UInt16.ofNat mbs.length).toNat = mbs.length := by simp [UInt16.toNat_ofNat']; omega
  have htoe : (UInt16.ofNat eb.length).toNat = eb.length := by simp [UInt16.toNat_ofNat']; omega
  have hlto : ((8 : UInt16) + 16 + UInt16.ofNat mbs.length + 2 + UInt16.ofNat eb.length).toNat = L := by
    rw [UInt16.toNat_add, UInt16.toNat_add, UInt16.toNat_add, htom, htoe]
    have h24 : ((8 : UInt16) + 16).toNat = 24 := rfl
    have h2 : (2 : UInt16).toNat = 2 := rfl
    rw [h24, h2]; simp only [L]; omega
  have h24l : ((24 : UInt16) + UInt16.ofNat mbs.length).toNat = 24 + mbs.length := by
    rw [UInt16.toNat_add, htom]
    have : (24 : UInt16).toNat = 24 := rfl
    rw [this]; omega
  have h26l : ((24 : UInt16) + UInt16.ofNat mbs.length + 2).toNat = 26 + mbs.length := by
    rw [UInt16.toNat_add, h24l]
    have : (2 : UInt16).toNat = 2 := rfl
    rw [this]; omega
  have hbl : bs.length = L := by
    simp only [bs, List.length_append, be16_length, be32_length, be64_length, List.length_cons, List.length_nil,
      zeros_length, L]; omega
  refine ⟨?_, ?_⟩
  · intro ln0
    have hlenM : PacketIn.lenM (packetInV ver ln0 xid b t r ti c m [] eth) =
        .ok ((8 : UInt16) + 16 + UInt16.ofNat mbs.length + 2 + UInt16.ofNat eb.length, packetInV ver ln0 xid b t r ti c m [] eth) := by
      simp only [packetInV, PacketIn.lenM, hml, hel, Res.bind_ok, Res.pure_eq]
    unfold PacketIn.marshalM
    rw [hlenM]
    have hu : V.u16 ((8 : UInt16) + 16 + UInt16.ofNat mbs.length + 2 + UInt16.ofNat eb.length) = .num L := by
      simp only [V.u16, hlto]
    have hz : makeCopy 2 ([] : Bytes) = zeros 2 := rfl
    simp only [Res.bind_ok, packetInV, Header.setLength, Header.bytes, hu, msgTryM, hmm, hem, hz, Res.pure_eq, bs,
      List.append_assoc]
  · intro depth data hdw hb
    have hlen : data.len = L := by rw [← Slice.bytes_length data hdw, hb, hbl]
    have hb' : data.bytes = [n8 ver, n8 Gen.openflow13.Type_PacketIn] ++ (be16 (n16 L) ++ (be32 (n32 xid) ++ (be32 (n32 b) ++
        (be16 (n16 t) ++ ([n8 r, n8 ti] ++ (be64 (n64 c) ++ (mbs ++ (zeros 2 ++ eb)))))))) := by
      rw [hb]; simp only [bs, List.append_assoc]
    obtain ⟨_, _, hdec⟩ := header_roundtrip ver Gen.openflow13.Type_PacketIn L xid hver (by decide) hL hxid
    unfold parse
    obtain ⟨k, hk⟩ : ∃ k, max depth (data.cap + 1) = k + 1 := ⟨max depth (data.cap + 1) - 1, by omega⟩
    rw [hk]
    unfold parseD parseStep
    have e1 : data.bytes[1]? = some (n8 Gen.openflow13.Type_PacketIn) := by rw [hb']; rfl
    have ht10 : (n8 Gen.openflow13.Type_PacketIn).toNat = 10 := by decide
    have ht10' : (n8 10).toNat = 10 := by decide
    simp only [Slice.byteAt_eq, e1, Res.ofOption, Res.bind_ok, ht10, ht10',
      Gen.openflow13.Type_EchoRequest, Gen.openflow13.Type_EchoReply, Gen.openflow13.Type_GetConfigRequest,
      Gen.openflow13.Type_BarrierRequest, Gen.openflow13.Type_BarrierReply, Gen.openflow13.Type_FeaturesRequest,
      Gen.openflow13.Type_Hello, Gen.openflow13.Type_Error, Gen.openflow13.Type_Experimenter,
      Gen.openflow13.Type_FeaturesReply, Gen.openflow13.Type_GetConfigReply, Gen.openflow13.Type_SetConfig,
      Gen.openflow13.Type_PacketIn,
      Nat.reduceEqDiff, reduceIte, if_false, if_true, or_true, true_or, or_false, false_or, or_self]
    have hh := hdec Header.zero data ((be32 (n32 b) ++ (be16 (n16 t) ++ ([n8 r, n8 ti] ++ (be64 (n64 c) ++
      (mbs ++ (zeros 2 ++ eb))))))) hdw (by rw [hb']; simp only [List.append_assoc])
    have e8 : rd32 (data.bytes.drop 8) = some (n32 b) := by rw [hb']; exact rd32_be32 _ _
    have e12 : rd16 (data.bytes.drop 12) = some (n16 t) := by rw [hb']; exact rd16_be16 _ _
    have e14 : data.bytes[14]? = some (n8 r) := by rw [hb']; rfl
    have e15 : data.bytes[15]? = some (n8 ti) := by rw [hb']; rfl
    have e16 : rd64 (data.bytes.drop 16) = some (n64 c) := by rw [hb']; exact rd64_be64 _ _
    obtain ⟨dm, hm1, hm2, _, _⟩ := Slice.fromR_bytes data 24 (by simp only [L] at hlen; omega)
    have hdmwf : dm.WF := (Slice.fromR_wf data hdw 24 dm hm1).1
    have hdmb : dm.bytes = mbs ++ (zeros 2 ++ eb) := by rw [hm2, hb']; rfl
    have hz : msgMatchZero = Match.zero := rfl
    have hdrop : ∀ n, data.bytes.drop (24 + n) = (mbs ++ (zeros 2 ++ eb)).drop n := by
      intro n
      rw [← List.drop_drop]
      congr 1
      rw [hb']; rfl
    obtain ⟨s, hs1, hs2, _, _⟩ := Slice.fromR_bytes data (24 + mbs.length) (by simp only [L] at hlen; omega)
    have hsb : s.bytes = zeros 2 ++ eb := by rw [hs2, hdrop, List.drop_left' rfl]
    obtain ⟨de, he1, he2, _, _⟩ := Slice.fromR_bytes data (26 + mbs.length) (by simp only [L] at hlen; omega)
    have hdewf : de.WF := (Slice.fromR_wf data hdw _ de he1).1
    have hdeb : de.bytes = eb := by
      rw [he2]
      have : 26 + mbs.length = 24 + (mbs.length + 2) := by omega
      rw [this, hdrop]
      have : mbs ++ (zeros 2 ++ eb) = (mbs ++ zeros 2) ++ eb := by simp only [List.append_assoc]
      rw [this]
      exact List.drop_left' (by simp)
    simp only [PacketIn.unmarshal, PacketIn.zero, msgTryU, hh, Res.bind_ok, Slice.u32From_eq, Slice.u16From_eq,
      Slice.u64From_eq, Slice.byteAt_eq, e8, e12, e14, e15, e16, Res.ofOption, hm1, hz, hmdec dm _ hdmwf hdmb, hml, h24l,
      h26l, hs1, he1, hedec de hdewf hdeb, copyInto_nil, Res.pure_eq, recoverR, packetInV, u32_n32 b hb32, u16_n16 t ht,
      u8_n8 r hr, u8_n8 ti hti, u64_n64 c hc]


/-- an untagged Ethernet frame with an ethertype the library does not interpret (not VLAN / IPv4 / IPv6 / ARP), carrying
    opaque bytes `d` -/
def ethOpaqueV (dst src : Bytes) (et : Nat) (d : Bytes) : V :=
  .obj "p.Ethernet" [.num 0, .bytes dst, .bytes src, PVLAN.zero, .num et, UBuffer.mk d]

theorem ethRT_opaque (dst src : Bytes) (et : Nat) (d : Bytes) (hdst : dst.length = 6) (hsrc : src.length = 6)
    (het : et < 65536) (hne : et ≠ Gen.protocol.VLAN_MSG ∧ et ≠ Gen.protocol.IPv4_MSG ∧ et ≠ Gen.protocol.IPv6_MSG ∧
      et ≠ Gen.protocol.ARP_MSG) (hd : 14 + d.length < 65536) :
    EthRT (ethOpaqueV dst src et d) (dst ++ src ++ be16 (n16 et) ++ d) := by
  have hdl : (n16 d.length).toNat = d.length := n16_toNat _ (by omega)
  have hlenW : PEthernet.lenW protoAnyLenM (ethOpaqueV dst src et d) = .ok ((12 : UInt16) + 2 + n16 d.length, ethOpaqueV dst src et d) := by
    simp only [ethOpaqueV, PEthernet.lenW, PVLAN.zero, PVLAN.vid, UBuffer.mk, V.isNil]
    rfl
  have hto : ((12 : UInt16) + 2 + n16 d.length).toNat = 14 + d.length := by
    rw [UInt16.toNat_add, hdl]
    have : ((12 : UInt16) + 2).toNat = 14 := rfl
    rw [this]; omega
  have hbl : (dst ++ src ++ be16 (n16 et) ++ d).length = 14 + d.length := by
    simp only [List.length_append, be16_length, hdst, hsrc]
  refine ⟨?_, ?_, ?_⟩
  · unfold PEthernet.marshalM PEthernet.marshalW
    rw [hlenW]
    simp only [Res.bind_ok, ethOpaqueV, PVLAN.zero, PVLAN.vid, ne_eq, not_true_eq_false, if_false, List.append_nil,
      UBuffer.mk, V.isNil, hto, decide_false, Bool.false_eq_true, List.cons_append, List.nil_append]
    have hp : piecesLen [pCopy dst, pCopy src, pU16 et] = 14 := by
      simp [piecesLen, pCopy, pU16, Piece.adv, hdst, hsrc]
    have hpb : piecesBytes [pCopy dst, pCopy src, pU16 et] = dst ++ src ++ be16 (n16 et) := by
      simp [piecesBytes, pCopy, pU16, Piece.bytes]
    rw [fill_exact (14 + d.length) _ (by intro p hp; simp at hp; rcases hp with rfl | rfl | rfl <;> trivial) (by rw [hp]; omega)]
    simp only [Res.bind_ok, hp, hpb]
    have hm : protoAnyMarshalM (.obj "u.Buffer" [.bytes d]) = .ok (d, .obj "u.Buffer" [.bytes d]) := rfl
    rw [hm]
    simp only [Res.bind_ok]
    have h14 : (dst ++ src ++ be16 (n16 et)).length = 14 := by simp only [List.length_append, be16_length, hdst, hsrc]
    have hk : 14 + d.length - 14 = d.length := by omega
    have := fillFrom_exact (dst ++ src ++ be16 (n16 et)) [.put d] d.length (by intro p hp; simp at hp; subst hp; trivial)
      (by simp [piecesLen, Piece.adv])
    rw [h14] at this
    rw [hk, this]
    simp [piecesBytes, Piece.bytes, piecesLen, Piece.adv, zeros]
  · simp only [PEthernet.lenM, hlenW, hbl]
    congr 2
    apply ofNat_lit'
    exact hto
  · intro data hdw hb
    have hlen : data.len = 14 + d.length := by rw [← Slice.bytes_length data hdw, hb, hbl]
    obtain ⟨a0, a1, a2, a3, a4, a5, rfl⟩ := list_len6 dst hdst
    obtain ⟨c0, c1, c2, c3, c4, c5, rfl⟩ := list_len6 src hsrc
    have hb' : data.bytes = [a0, a1, a2, a3, a4, a5] ++ ([c0, c1, c2, c3, c4, c5] ++ (be16 (n16 et) ++ d)) := by
      rw [hb]; simp only [List.append_assoc]
    obtain ⟨s1, h11, h12, _⟩ := Slice.sliceR_bytes data hdw 0 6 (by omega) (by omega)
    obtain ⟨s2, h21, h22, _⟩ := Slice.sliceR_bytes data hdw 6 12 (by omega) (by omega)
    have hs1 : s1.bytes = [a0, a1, a2, a3, a4, a5] := by rw [h12, hb']; rfl
    have hs2 : s2.bytes = [c0, c1, c2, c3, c4, c5] := by rw [h22, hb']; rfl
    have e12 : rd16 (data.bytes.drop 12) = some (n16 et) := by rw [hb']; exact rd16_be16 _ _
    obtain ⟨rest, hr1, hr2, _, _⟩ := Slice.fromR_bytes data 14 (by omega)
    have hrb : rest.bytes = d := by rw [hr2, hb']; rfl
    unfold PEthernet.unmarshal
    rw [if_neg (by omega)]
    simp only [PEthernet.zero, h11, h21, Res.bind_ok, Slice.u16From_eq, e12, Res.ofOption, n16_toNat et het, hne.1, hne.2.1,
      hne.2.2.1, hne.2.2.2, if_false, hr1, UBuffer.unmarshal, hrb, hs1, hs2, Res.pure_eq, u16_n16 et het, ethOpaqueV]
    rfl

end OFV.RT
