/-
  OFV.Lemmas.ParseMsg — openflow13.go, port.go, multipart.go, nxt_message.go, bundles.go decoders and Parse never spin
  on a well-formed slice, given
    * that the Ethernet decoder (PacketIn payload, proved in C08) does not spin, and
    * `FlowStatsInstrLoopOK`: the instruction loop of a FlowStats record terminates (proved in ParseFlowStats).
-/
import OFV.Lemmas.ParseInstr
set_option linter.unusedSimpArgs false
namespace OFV.Model
open OFV OFV.Go InstrAux

theorem fromR_cap (s : Slice) (a : Nat) (t : Slice) (h : s.fromR a = .ok t) : t.buf.length = s.buf.length - a := by
  unfold Slice.fromR Slice.from_ Res.ofOption at h
  split at h
  · rename_i x hx
    split at hx
    · cases hx; cases h; simp
    · cases hx
  · cases h

theorem sliceR_inv (s : Slice) (a b : Nat) (t : Slice) (h : s.sliceR a b = .ok t) :
    t.len = b - a ∧ t.buf.length ≤ s.buf.length := by
  unfold Slice.sliceR Slice.slice Res.ofOption at h
  split at h
  · rename_i x hx
    split at hx
    · cases hx; cases h; simp
    · cases hx
  · cases h

/-- the header decoder stores a 16-bit length -/
theorem Header_unmarshal_post (recv : V) (d : Slice) : Post (Header.unmarshal recv d) (fun h => Header.length h ≤ 65535) := by
  unfold Header.unmarshal
  post_auto
  apply post_ok
  rename_i ln _ _ _
  have := ln.toNat_lt
  simp only [Header.length, V.u16]
  omega

theorem msgTryU_ns (f : V → Slice → R V) (recv : V) (d : Slice) (h : NS (f recv d)) : NS (msgTryU f recv d) := by
  unfold msgTryU
  split <;> first | post_leaf | exact absurd ‹_› h.1

theorem msgTryU_post (f : V → Slice → R V) (recv : V) (d : Slice) (P : V → Prop) (h : Post (f recv d) P) (h0 : P recv) :
    Post (msgTryU f recv d) (fun p => P p.1) := by
  unfold msgTryU
  split
  · rename_i v hv; exact post_ok (h.2 v hv)
  · exact post_ok h0
  · exact post_panic
  · exact absurd ‹_› h.1

theorem UBuffer_unmarshal_ns (recv : V) (d : Slice) : NS (UBuffer.unmarshal recv d) := ns_ok _

theorem PhyPort_unmarshal_ns (recv : V) (d : Slice) : NS (PhyPort.unmarshal recv d) := by
  unfold PhyPort.unmarshal; post_auto

/-- a port decoded into `NewPhyPort()` reports 64 bytes -/
theorem PhyPort_unmarshal_new_post (d : Slice) : Post (PhyPort.unmarshal PhyPort.new d) (fun p => PhyPort.len p = .ok 64) := by
  simp only [PhyPort.unmarshal, PhyPort.new]
  post_auto
  apply post_ok
  simp only [PhyPort.len, copyInto_length, zeros_length]
  rfl

theorem SwitchConfig_unmarshal_ns (recv : V) (d : Slice) : NS (SwitchConfig.unmarshal recv d) := by
  unfold SwitchConfig.unmarshal; post_auto [msgTryU_ns, Header_unmarshal_ns]
theorem ErrorMsg_unmarshal_ns (recv : V) (d : Slice) : NS (ErrorMsg.unmarshal recv d) := by
  unfold ErrorMsg.unmarshal; post_auto [msgTryU_ns, Header_unmarshal_ns, UBuffer_unmarshal_ns]
theorem VendorError_unmarshal_ns (recv : V) (d : Slice) : NS (VendorError.unmarshal recv d) := by
  unfold VendorError.unmarshal; post_auto [Header_unmarshal_ns, UBuffer_unmarshal_ns]

/-- the ports loop of SwitchFeatures advances by 64 bytes per port -/
theorem SwitchFeatures_unmarshal_ns (recv : V) (data : Slice) : NS (SwitchFeatures.unmarshal recv data) := by
  unfold SwitchFeatures.unmarshal
  split
  · apply post_bind_ns (msgTryU_ns _ _ _ (Header_unmarshal_ns _ _)); intro p _
    split
    apply post_bind_ns (ns_fromR _ _); intro _ _
    simp only []
    apply post_bind_ns (ns_u32From _ _); intro _ _
    apply post_bind_ns (ns_byteAt _ _); intro _ _
    apply post_bind_ns (ns_byteAt _ _); intro _ _
    apply post_bind_ns (ns_fromR _ _); intro _ _
    apply post_bind_ns (ns_u32From _ _); intro _ _
    apply post_bind_ns (ns_u32From _ _); intro _ _
    apply post_bind_ns
    · refine (goLoop_post _ _ _ (fun _ => True) data.len ?_ _ _ trivial ?_).ns
      · intro s _ hc
        simp only [decide_eq_true_eq] at hc
        apply post_bind_ns (ns_fromR _ _); intro d _
        apply post_bind (PhyPort_unmarshal_new_post _); intro p _ hp
        rw [hp]
        apply post_ok
        have : (64 : UInt16).toNat = 64 := rfl
        simp only [true_and, this]
        omega
      · simp only []; omega
    · intro st _; post_auto
  · exact post_panic

theorem PacketIn_unmarshal_ns (hEth : ∀ recv (d : Slice), d.WF → NS (PEthernet.unmarshal recv d)) (recv : V) (d : Slice)
    (hwf : d.WF) : NS (PacketIn.unmarshal recv d) := by
  unfold PacketIn.unmarshal
  post_auto [msgTryU_ns, Header_unmarshal_ns, Match_unmarshal_ns, Match_lenM_ns, hEth]
  exact (Slice.fromR_wf _ hwf _ _ ‹_›).1

theorem PortStatus_unmarshal_ns (recv : V) (d : Slice) : NS (PortStatus.unmarshal recv d) := by
  unfold PortStatus.unmarshal; post_auto [msgTryU_ns, Header_unmarshal_ns, PhyPort_unmarshal_ns]

theorem MultipartRequest_unmarshal_ns (recv : V) (d : Slice) : NS (MultipartRequest.unmarshal recv d) := by
  unfold MultipartRequest.unmarshal; post_auto [Header_unmarshal_ns]

theorem ControllerID_unmarshal_ns (recv : V) (d : Slice) : NS (ControllerID.unmarshal recv d) := by
  unfold ControllerID.unmarshal; post_auto
theorem BundleControl_unmarshal_ns (recv : V) (d : Slice) : NS (BundleControl.unmarshal recv d) := by
  unfold BundleControl.unmarshal; post_auto
theorem TLVTableMap_unmarshal_ns (recv : V) (d : Slice) : NS (TLVTableMap.unmarshal recv d) := by
  unfold TLVTableMap.unmarshal; post_auto

/-- the TLV-map loop advances by 8 bytes per entry -/
theorem TLVTableMap_decodeList_ns (data : Slice) (n0 : Nat) (m0 : List V) : NS (TLVTableMap.decodeList data n0 m0) := by
  unfold TLVTableMap.decodeList
  apply post_bind_ns
  · refine (goLoop_post _ _ _ (fun _ => True) data.len ?_ _ _ trivial ?_).ns
    · intro s _ hc
      simp only [decide_eq_true_eq] at hc
      apply post_bind_ns (ns_fromR _ _); intro d _
      apply post_bind_ns (TLVTableMap_unmarshal_ns _ _); intro m _
      apply post_ok
      simp only [true_and]
      omega
    · simp only []; omega
  · intro st _; post_auto

theorem TLVTableMod_unmarshal_ns (recv : V) (d : Slice) : NS (TLVTableMod.unmarshal recv d) := by
  unfold TLVTableMod.unmarshal; post_auto [TLVTableMap_decodeList_ns]
theorem TLVTableReply_unmarshal_ns (recv : V) (d : Slice) : NS (TLVTableReply.unmarshal recv d) := by
  unfold TLVTableReply.unmarshal; post_auto [TLVTableMap_decodeList_ns]


theorem makeCopy_length' (n : Nat) (src : Bytes) : (makeCopy n src).length = n := by
  simp [makeCopy, copyInto_length]

/-- a bundle property decoded from at most 65528 bytes reports a positive multiple of 8 -/
theorem BundlePropertyExperimenter_unmarshal_post (recv : V) (d : Slice) (hd : d.len ≤ 65528) :
    Post (BundlePropertyExperimenter.unmarshal recv d)
      (fun pr => ∃ l : UInt16, BundlePropertyExperimenter.len pr = .ok l ∧ 0 < l.toNat) := by
  unfold BundlePropertyExperimenter.unmarshal
  split
  · exact post_err
  · apply post_bind_ns (ns_u16From _ _); intro _ _
    apply post_bind_ns (ns_u16From _ _); intro ln _
    apply post_bind_ns (ns_u32From _ _); intro _ _
    apply post_bind_ns (ns_u32From _ _); intro _ _
    split
    · exact post_err
    · rename_i hc
      simp only [Bool.or_eq_true, decide_eq_true_eq, not_or, Nat.not_lt] at hc
      apply post_bind_ns (ns_sliceR _ _ _); intro s _
      apply post_ok
      refine ⟨_, rfl, ?_⟩
      have h12 : (12 : UInt16).toNat = 12 := rfl
      have h7 : (7 : UInt16).toNat = 7 := rfl
      have h8 : (8 : UInt16).toNat = 8 := rfl
      simp only [makeCopy_length', UInt16.toNat_mul, UInt16.toNat_div, UInt16.toNat_add, n16, UInt16.toNat_ofNat', h12, h7, h8]
      omega

theorem BundlePropertyExperimenter_unmarshal_ns (recv : V) (d : Slice) : NS (BundlePropertyExperimenter.unmarshal recv d) := by
  unfold BundlePropertyExperimenter.unmarshal; post_auto
theorem BundlePropertyExperimenter_len_ns (v : V) : NS (BundlePropertyExperimenter.len v) := by
  unfold BundlePropertyExperimenter.len; post_auto

/-- BundleAdd: the embedded message is parsed by `parseF`, the property loop refuses a property of size 0 -/
theorem BundleAdd_unmarshalWith_ns (parseF : Slice → R V) (childLen : MsgLenF)
    (hparse : ∀ d : Slice, d.WF → NS (parseF d))
    (recv : V) (data : Slice) :
    NS (BundleAdd.unmarshalWith parseF childLen recv data) := by
  unfold BundleAdd.unmarshalWith
  split
  · split
    · exact post_err
    · apply post_bind_ns (ns_u32From _ _); intro _ _
      apply post_bind_ns (ns_u16From _ _); intro _ _
      apply post_bind_ns (ns_u16From _ _); intro ml _
      simp only []
      split
      · exact post_err
      · apply post_bind (P := fun d => d.WF) ?_ ?_
        · exact ⟨(ns_sliceR _ _ _).1, fun d hd => (Slice.sliceR_wf _ _ _ _ hd).1⟩
        intro d _ hd
        apply post_bind_ns (hparse d hd); intro m _
        split
        · exact post_err
        · split
          · apply post_bind_ns
            · refine (goLoop_post _ _ _ (fun _ => True) data.len ?_ _ _ trivial ?_).ns
              · intro s _ hc
                simp only [decide_eq_true_eq] at hc
                apply post_bind_ns (ns_fromR _ _); intro dp _
                apply post_bind_ns (BundlePropertyExperimenter_unmarshal_ns _ _); intro pr _
                apply post_bind_ns (BundlePropertyExperimenter_len_ns _); intro l _
                split
                · exact post_err
                · rename_i hne
                  have : l.toNat ≠ 0 := fun h => hne (UInt16.toNat_inj.mp h)
                  apply post_ok
                  simp only [true_and]
                  omega
              · simp only []; omega
            · intro st _; post_auto
          · post_auto
  · exact post_panic

theorem decodeVendorDataWith_ns (parseF : Slice → R V) (childLen : MsgLenF)
    (hparse : ∀ d : Slice, d.WF → NS (parseF d))
    (ty : Nat) (data : Slice) :
    NS (decodeVendorDataWith parseF childLen ty data) := by
  unfold decodeVendorDataWith
  post_auto [ControllerID_unmarshal_ns, TLVTableMod_unmarshal_ns, TLVTableReply_unmarshal_ns, BundleControl_unmarshal_ns]
  exact BundleAdd_unmarshalWith_ns parseF childLen hparse _ _

/-- the experimenter message (decoded into `new(VendorHeader)` as Parse does): its payload `data[16:Header.Length]`
    is at most 65519 bytes long -/
theorem VendorHeader_unmarshalWith_ns (decVD : Nat → Slice → R V)
    (hdec : ∀ ty (d : Slice), NS (decVD ty d))
    (data : Slice) : NS (VendorHeader.unmarshalWith decVD VendorHeader.zero data) := by
  simp only [VendorHeader.unmarshalWith, VendorHeader.zero]
  split
  · exact post_err
  · apply post_bind (msgTryU_post _ _ _ (fun h => Header.length h ≤ 65535) (Header_unmarshal_post _ _) (by decide))
    intro p _ hp
    obtain ⟨h, e⟩ := p
    simp only [] at hp ⊢
    apply post_bind_ns (ns_u32From _ _); intro _ _
    apply post_bind_ns (ns_u32From _ _); intro t _
    split
    · apply post_bind_ns (ns_sliceR _ _ _); intro s _
      apply post_bind_ns (hdec _ s); intro _ _
      post_auto
    · post_auto


/-! ### multipart replies -/

theorem AggregateStats_unmarshal_post (recv : V) (d : Slice) :
    Post (AggregateStats.unmarshal recv d) (fun r => ∃ fs, r = .obj "AggregateStats" fs) := by
  unfold AggregateStats.unmarshal; post_auto; exact post_ok ⟨_, rfl⟩
theorem DescStats_unmarshal_post (recv : V) (d : Slice) :
    Post (DescStats.unmarshal recv d) (fun r => ∃ fs, r = .obj "DescStats" fs) := by
  unfold DescStats.unmarshal; post_auto; exact post_ok ⟨_, rfl⟩
theorem TableStats_unmarshal_post (recv : V) (d : Slice) :
    Post (TableStats.unmarshal recv d) (fun r => ∃ fs, r = .obj "TableStats" fs) := by
  unfold TableStats.unmarshal; post_auto; exact post_ok ⟨_, rfl⟩
theorem QueueStats_unmarshal_post (recv : V) (d : Slice) :
    Post (QueueStats.unmarshal recv d) (fun r => ∃ fs, r = .obj "QueueStats" fs) := by
  unfold QueueStats.unmarshal; post_auto; exact post_ok ⟨_, rfl⟩
theorem readCounters_ns (d : Slice) : ∀ k n, NS (PortStats.readCounters d n k) := by
  intro k
  induction k with
  | zero => intro n; exact ns_ok _
  | succ k ih => intro n; unfold PortStats.readCounters; post_auto [ih]
theorem PortStats_unmarshal_post (recv : V) (d : Slice) :
    Post (PortStats.unmarshal recv d) (fun r => ∃ fs, r = .obj "PortStats" fs) := by
  unfold PortStats.unmarshal; post_auto [readCounters_ns]; exact post_ok ⟨_, rfl⟩

/-- FlowStats, given that its instruction loop terminates -/
theorem FlowStats_unmarshalP_post (recv : V) (d : Slice)
    (hFS : ∀ limit n0 is0, NS (FlowStats.decodeInstrs d limit n0 is0)) :
    Post (FlowStats.unmarshalP recv d) (fun p => ∃ fs, p.1 = .obj "FlowStats" fs) := by
  unfold FlowStats.unmarshalP
  post_auto [Match_unmarshalP_ns, Match_lenM_ns, hFS]
  exact post_ok ⟨_, rfl⟩

theorem FlowStats_lenM_ns (v : V) : NS (FlowStats.lenM v) := by
  unfold FlowStats.lenM; post_auto [Match_lenM_ns, mapM2_ns, Instruction_lenM_ns]

/-- `Len()` through the interface of a record that `decodeRecord` produced -/
theorem anyLenM_record_ns (r : V)
    (h : (∃ fs, r = .obj "AggregateStats" fs) ∨ (∃ fs, r = .obj "DescStats" fs) ∨ (∃ fs, r = .obj "FlowStats" fs)
      ∨ (∃ fs, r = .obj "PortStats" fs) ∨ (∃ fs, r = .obj "TableStats" fs) ∨ (∃ fs, r = .obj "QueueStats" fs)) :
    NS (anyLenM r) := by
  rcases h with ⟨fs, rfl⟩ | ⟨fs, rfl⟩ | ⟨fs, rfl⟩ | ⟨fs, rfl⟩ | ⟨fs, rfl⟩ | ⟨fs, rfl⟩
  · exact (ns_same _ _ : NS (AggregateStats.lenM _))
  · exact (ns_same _ _ : NS (DescStats.lenM _))
  · exact (FlowStats_lenM_ns _ : NS (FlowStats.lenM _))
  · exact (ns_same _ _ : NS (PortStats.lenM _))
  · exact (ns_same _ _ : NS (TableStats.lenM _))
  · exact (ns_same _ _ : NS (QueueStats.lenM _))

theorem decodeRecord_post (ty : Nat) (d : Slice)
    (hFS : ∀ limit n0 is0, NS (FlowStats.decodeInstrs d limit n0 is0)) :
    Post (MultipartReply.decodeRecord ty d) (fun p => NS (anyLenM p.1)) := by
  unfold MultipartReply.decodeRecord
  split
  · exact msgTryU_post _ _ _ _ (post_mono (AggregateStats_unmarshal_post _ _) (fun r hr => anyLenM_record_ns r (by simp [hr])))
      (anyLenM_record_ns _ (Or.inl ⟨_, rfl⟩))
  split
  · exact msgTryU_post _ _ _ _ (post_mono (DescStats_unmarshal_post _ _) (fun r hr => anyLenM_record_ns r (by simp [hr])))
      (anyLenM_record_ns _ (Or.inr (Or.inl ⟨_, rfl⟩)))
  split
  · exact post_mono (FlowStats_unmarshalP_post _ _ hFS) (fun p hp => anyLenM_record_ns p.1 (by simp [hp]))
  split
  · exact msgTryU_post _ _ _ _ (post_mono (PortStats_unmarshal_post _ _) (fun r hr => anyLenM_record_ns r (by simp [hr])))
      (anyLenM_record_ns _ (Or.inr (Or.inr (Or.inr (Or.inl ⟨_, rfl⟩)))))
  split
  · exact msgTryU_post _ _ _ _ (post_mono (TableStats_unmarshal_post _ _) (fun r hr => anyLenM_record_ns r (by simp [hr])))
      (anyLenM_record_ns _ (Or.inr (Or.inr (Or.inr (Or.inr (Or.inl ⟨_, rfl⟩))))))
  split
  · exact msgTryU_post _ _ _ _ (post_mono (QueueStats_unmarshal_post _ _) (fun r hr => anyLenM_record_ns r (by simp [hr])))
      (anyLenM_record_ns _ (Or.inr (Or.inr (Or.inr (Or.inr (Or.inr ⟨_, rfl⟩))))))
  · exact post_panic


/-- the hypothesis under which the record loop of a FlowStats reply is known to terminate (see C07) -/
def FlowStatsInstrLoopOK : Prop :=
  ∀ (d : Slice) (limit n0 : Nat) (is0 : List V), d.WF → NS (FlowStats.decodeInstrs d limit n0 is0)

theorem post_ite {α} {c : Prop} [Decidable c] {x y : R α} {Q : α → Prop}
    (h1 : c → Post x Q) (h2 : ¬c → Post y Q) : Post (if c then x else y) Q := by
  by_cases h : c
  · rw [if_pos h]; exact h1 h
  · rw [if_neg h]; exact h2 h

/-- MultipartReply (decoded into `new(MultipartReply)` as Parse does): the record loop refuses a record of length 0 and
    runs below the 16-bit header length -/
theorem MultipartReply_unmarshalWith_ns (hFS : FlowStatsInstrLoopOK) (data : Slice) (hwf : data.WF) :
    NS (MultipartReply.unmarshalWith anyLenM MultipartReply.zero data) := by
  simp only [MultipartReply.unmarshalWith, MultipartReply.zero]
  apply post_bind (msgTryU_post _ _ _ (fun h => Header.length h ≤ 65535) (Header_unmarshal_post _ _) (by decide))
  intro p _ hp
  obtain ⟨h, e⟩ := p
  simp only [] at hp ⊢
  apply post_bind_ns (ns_u16From _ _); intro t _
  apply post_bind_ns (ns_u16From _ _); intro f _
  apply post_bind_ns
  · refine (msgLoopW_post _ _ _ (fun s => 16 ≤ s.n) (Header.length h) ?_ _ _ (Nat.le_refl 16) ?_).ns
    · intro s hI hc
      simp only [decide_eq_true_eq] at hc
      apply post_bind (P := fun d => d.WF) ?_ ?_
      · exact ⟨(ns_fromR _ _).1, fun d hd => (Slice.fromR_wf data hwf _ _ hd).1⟩
      intro d _ hd
      apply post_bind (decodeRecord_post _ _ (fun l n i => hFS d l n i hd)); intro p _ hp
      obtain ⟨r, e'⟩ := p
      simp only [] at hp ⊢
      apply post_ite (fun _ => post_err); intro _
      apply post_bind_ns hp; intro q _
      obtain ⟨l, r'⟩ := q
      simp only []
      split
      · exact post_err
      · rename_i hne
        have : l.toNat ≠ 0 := fun h => hne (UInt16.toNat_inj.mp h)
        apply post_ok
        simp only []
        omega
    · simp only []; omega
  · intro st _; post_auto


/-! ### Parse -/

theorem recoverR_ns (r : R V) (h : NS r) : NS (recoverR r) := by
  unfold recoverR
  split
  · exact post_err
  · exact h

/-- one level of Parse never spins when the nested Parse does not -/
theorem parseStep_ns (hEth : ∀ recv (d : Slice), d.WF → NS (PEthernet.unmarshal recv d)) (hFS : FlowStatsInstrLoopOK)
    (self : Slice → R V) (hself : ∀ d : Slice, d.WF → NS (self d))
    (b : Slice) (hb : b.WF) : NS (parseStep self b) := by
  unfold parseStep
  apply post_bind_ns (ns_byteAt _ _); intro tb _
  extract_lets t
  refine post_ite (fun _ => Hello_unmarshal_ns _ _) (fun _ => ?_)
  refine post_ite (fun _ => ?_) (fun _ => ?_)
  · apply post_bind_ns (ErrorMsg_unmarshal_ns _ _); intro e _
    exact post_ite (fun _ => VendorError_unmarshal_ns _ _) (fun _ => ns_pure _)
  refine post_ite (fun _ => Header_unmarshal_ns _ _) (fun _ => ?_)
  refine post_ite (fun _ => VendorHeader_unmarshalWith_ns _
      (fun ty d => decodeVendorDataWith_ns self anyLenM hself ty d) _) (fun _ => ?_)
  refine post_ite (fun _ => Header_unmarshal_ns _ _) (fun _ => ?_)
  refine post_ite (fun _ => SwitchFeatures_unmarshal_ns _ _) (fun _ => ?_)
  refine post_ite (fun _ => SwitchConfig_unmarshal_ns _ _) (fun _ => ?_)
  refine post_ite (fun _ => SwitchConfig_unmarshal_ns _ _) (fun _ => ?_)
  refine post_ite (fun _ => PacketIn_unmarshal_ns hEth _ _ hb) (fun _ => ?_)
  refine post_ite (fun _ => FlowRemoved_unmarshal_ns _ _) (fun _ => ?_)
  refine post_ite (fun _ => PortStatus_unmarshal_ns _ _) (fun _ => ?_)
  refine post_ite (fun _ => FlowMod_unmarshal_ns _ _) (fun _ => ?_)
  refine post_ite (fun _ => ns_pure _) (fun _ => ?_)
  refine post_ite (fun _ => MultipartRequest_unmarshal_ns _ _) (fun _ => ?_)
  exact post_ite (fun _ => MultipartReply_unmarshalWith_ns hFS _ hb) (fun _ => post_err)

theorem parseD_ns (hEth : ∀ recv (d : Slice), d.WF → NS (PEthernet.unmarshal recv d)) (hFS : FlowStatsInstrLoopOK) :
    ∀ depth (b : Slice), b.WF → NS (parseD depth b) := by
  intro depth
  induction depth with
  | zero => intro b _; exact post_panic
  | succ n ih =>
    intro b hb
    unfold parseD
    exact recoverR_ns _ (parseStep_ns hEth hFS _ (fun d h1 => ih d h1) b hb)

theorem parse_ns (hEth : ∀ recv (d : Slice), d.WF → NS (PEthernet.unmarshal recv d)) (hFS : FlowStatsInstrLoopOK)
    (depth : Nat) (b : Slice) (hb : b.WF) : NS (parse depth b) := by
  unfold parse
  exact parseD_ns hEth hFS _ b hb

/-- Parse recovers from every panic -/
theorem parse_no_panic (depth : Nat) (b : Slice) : parse depth b ≠ .panic := by
  unfold parse
  have : ∃ d, max depth (b.cap + 1) = d + 1 := ⟨max depth (b.cap + 1) - 1, by omega⟩
  obtain ⟨d, hd⟩ := this
  rw [hd]
  unfold parseD
  cases parseStep (parseD d) b <;> simp [recoverR]

end OFV.Model
