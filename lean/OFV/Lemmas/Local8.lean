/-
  OFV.Lemmas.Local8 — frame locality, round 5: the in-frame condition for flow-mods as a predicate that is evaluated on the
  frame itself, and Parse locality on every frame that satisfies it.

  `actionsOK u limit fuel n` / `instrOK d` / `instrsOK u limit fuel n` walk the action list / instruction / instruction list
  of `u` exactly as the Go loops do and check, at every offset the loops reach, the bounds the Go code omits:
    * an action starts at least 4 bytes before the end of the slice and is of a covered kind (`ActionKindCovered`);
    * an instruction header has 4 bytes; goto-table has 8, write-metadata 24 bytes inside the slice.
  They are `Bool`-valued, so on a concrete frame they are decided by evaluation (`rfl` / `decide`).  The top-level predicate
  `FlowModInFrame t` evaluates them on `Slice.exact t.bytes` — the visible bytes with NO spare capacity — and therefore
  depends on `t.bytes` only.
-/
import OFV.Lemmas.Local7
namespace OFV.Model
open OFV OFV.Go OFV.Go.Slice

instance : DecidablePred ActionKindCovered := fun k => by unfold ActionKindCovered; infer_instance

/-- the action loop `for n < limit` of `u`, checked: every reached offset leaves 4 bytes and starts a covered action -/
def actionsOK (u : Slice) (limit : Nat) : Nat → Nat → Bool
  | 0, _ => false
  | f + 1, n =>
    if n < limit then
      decide (n + 4 ≤ u.len) &&
      (match u.fromR n with
       | .ok d =>
         (match newActionFor d with
          | .ok a => decide (ActionKindCovered a.kind)
          | _ => true) &&
         (match DecodeAction (d.len + 1) d with
          | .ok act =>
            (match Action.lenM act with
             | .ok (l, _) => l == 0 || actionsOK u limit f (n + l.toNat)
             | _ => true)
          | _ => true)
       | _ => true)
    else true

theorem actionsOK_step (u : Slice) (limit : Nat) (n : Nat) (hI : ∃ f, actionsOK u limit f n = true) (hlt : n < limit) :
    n + 4 ≤ u.len ∧ (∀ d a, u.fromR n = .ok d → newActionFor d = .ok a → ActionKindCovered a.kind) ∧
    (∀ d act l act', u.fromR n = .ok d → DecodeAction (d.len + 1) d = .ok act → Action.lenM act = .ok (l, act') → l ≠ 0 →
      ∃ f, actionsOK u limit f (n + l.toNat) = true) := by
  obtain ⟨f, hf⟩ := hI
  cases f with
  | zero => simp [actionsOK] at hf
  | succ f =>
    unfold actionsOK at hf
    rw [if_pos hlt] at hf
    simp only [Bool.and_eq_true, decide_eq_true_eq] at hf
    obtain ⟨h4, hrest⟩ := hf
    refine ⟨h4, ?_, ?_⟩
    · intro d a hd ha
      rw [hd] at hrest
      simp only [ha, Bool.and_eq_true, decide_eq_true_eq] at hrest
      exact hrest.1
    · intro d act l act' hd hda hl hz
      rw [hd] at hrest
      simp only [hda, hl, Bool.and_eq_true, Bool.or_eq_true, beq_iff_eq] at hrest
      rcases hrest.2 with h | h
      · exact absurd h hz
      · exact ⟨f, h⟩

/-- the action loop on an agreeing slice, under the evaluated in-frame check -/
theorem decodeActions_loc_ok {s u : Slice} (haw : AW s u) (limit n0 : Nat) (xs0 : List V)
    (hok : ∃ f, actionsOK u limit f n0 = true) :
    InstrAux.decodeActions s limit n0 xs0 = InstrAux.decodeActions u limit n0 xs0 :=
  decodeActions_loc_inv haw limit n0 xs0 (fun n => ∃ f, actionsOK u limit f n = true) hok
    (fun n hn hlt => actionsOK_step u limit n hn hlt)

/-- one instruction at the start of `d`, checked: 4 bytes for the header, 8 for goto-table, 24 for write-metadata, and for an
    actions instruction the action loop up to the declared Length -/
def instrOK (d : Slice) : Bool :=
  decide (4 ≤ d.len) &&
  (match d.u16In 0 2 with
   | .ok ty =>
     if ty.toNat = Gen.openflow13.InstrType_GOTO_TABLE then decide (8 ≤ d.len)
     else if ty.toNat = Gen.openflow13.InstrType_WRITE_METADATA then decide (24 ≤ d.len)
     else if ty.toNat = Gen.openflow13.InstrType_WRITE_ACTIONS ∨ ty.toNat = Gen.openflow13.InstrType_APPLY_ACTIONS
         ∨ ty.toNat = Gen.openflow13.InstrType_CLEAR_ACTIONS then
       (match InstrHeader.unmarshal4 InstrHeader.zero d with
        | .ok h => actionsOK d (InstrHeader.length h) (d.len + 2) 8
        | _ => true)
     else true
   | _ => true)

theorem InstrActions_unmarshalP_zero_loc_ok {x y : Slice} (haw : AW x y) (h4 : 4 ≤ y.len)
    (hok : ∀ h, InstrHeader.unmarshal4 InstrHeader.zero y = .ok h → ∃ f, actionsOK y (InstrHeader.length h) f 8 = true) :
    InstrActions.unmarshalP InstrActions.zero x = InstrActions.unmarshalP InstrActions.zero y := by
  unfold InstrActions.unmarshalP InstrActions.zero
  simp only []
  rw [InstrHeader_unmarshal4_loc_partial _ haw h4]
  apply bind_congr_ok; intro h hh
  rw [decodeActions_loc_ok haw _ _ _ (hok h hh)]

/-- DecodeInstr on an agreeing slice, under the evaluated in-frame check -/
theorem DecodeInstr_loc_ok {x y : Slice} (haw : AW x y) (hok : instrOK y = true) : DecodeInstr x = DecodeInstr y := by
  unfold instrOK at hok
  simp only [Bool.and_eq_true, decide_eq_true_eq] at hok
  obtain ⟨h4, hrest⟩ := hok
  unfold DecodeInstr
  rw [Slice.u16In_loc haw 0 2 (by omega)]
  apply bind_congr_ok; intro ty hty
  rw [hty] at hrest
  simp only [] at hrest
  apply ite_congr rfl _ _
  · intro hc
    rw [if_pos hc] at hrest
    rw [InstrGotoTable_loc_partial _ haw (by simpa using hrest)]
  · intro hc
    rw [if_neg hc] at hrest
    apply ite_congr rfl _ _
    · intro hc2
      rw [if_pos hc2] at hrest
      rw [InstrWriteMetadata_loc_partial _ haw (by simpa using hrest)]
    · intro hc2
      rw [if_neg hc2] at hrest
      apply ite_congr rfl _ _
      · intro hc3
        rw [if_pos hc3] at hrest
        rw [InstrActions_unmarshalP_zero_loc_ok haw h4]
        intro h hh
        rw [hh] at hrest
        exact ⟨_, hrest⟩
      · intro _
        apply ite_congr rfl _ (fun _ => rfl)
        intro _
        rw [InstrMeter_loc _ haw]

/-- the instruction loop `for n < limit` of `u`, checked: every reached offset starts an instruction that passes `instrOK` -/
def instrsOK (u : Slice) (limit : Nat) : Nat → Nat → Bool
  | 0, _ => false
  | f + 1, n =>
    if n < limit then
      (match u.fromR n with
       | .ok d =>
         instrOK d &&
         (match DecodeInstr d with
          | .ok i =>
            (match Instruction.lenM i with
             | .ok (l, _) => l == 0 || instrsOK u limit f (n + l.toNat)
             | _ => true)
          | _ => true)
       | _ => true)
    else true

theorem instrsOK_step (u : Slice) (limit : Nat) (n : Nat) (hI : ∃ f, instrsOK u limit f n = true) (hlt : n < limit) :
    (∀ d, u.fromR n = .ok d → instrOK d = true) ∧
    (∀ d i l i', u.fromR n = .ok d → DecodeInstr d = .ok i → Instruction.lenM i = .ok (l, i') → l ≠ 0 →
      ∃ f, instrsOK u limit f (n + l.toNat) = true) := by
  obtain ⟨f, hf⟩ := hI
  cases f with
  | zero => simp [instrsOK] at hf
  | succ f =>
    unfold instrsOK at hf
    rw [if_pos hlt] at hf
    refine ⟨?_, ?_⟩
    · intro d hd
      rw [hd] at hf
      simp only [Bool.and_eq_true] at hf
      exact hf.1
    · intro d i l i' hd hdi hl hz
      rw [hd] at hf
      simp only [hdi, hl, Bool.and_eq_true, Bool.or_eq_true, beq_iff_eq] at hf
      rcases hf.2 with h | h
      · exact absurd h hz
      · exact ⟨f, h⟩

/-- the in-frame condition of a flow-mod as Parse decodes it (receiver `NewFlowMod()`): at least 8 bytes, and the
    instruction loop — from the end of the match up to the header's Length — passes `instrsOK` -/
def FlowModInFrameAt (u : Slice) : Prop :=
  8 ≤ u.len ∧
  ∀ y0 hp dm mp lp, u.fromR 0 = .ok y0 →
    InstrAux.catchErr (Header.unmarshal (msgOfpHeader Gen.openflow13.Type_FlowMod) y0) (msgOfpHeader Gen.openflow13.Type_FlowMod) = .ok hp →
    u.fromR 48 = .ok dm → Match.unmarshalP Match.new dm = .ok mp → Match.lenM mp.1 = .ok lp →
    instrsOK u (Header.length hp.1) (u.len + 2) (48 + lp.1.toNat) = true

theorem FlowMod_loc_inframe {s u : Slice} (haw : AW s u) (hok : FlowModInFrameAt u) :
    FlowMod.unmarshal flowModRecv s = FlowMod.unmarshal flowModRecv u := by
  obtain ⟨h8, hok⟩ := hok
  unfold FlowMod.unmarshal flowModRecv
  simp only []
  loc_norm haw
  rcases Slice.fromR_loc haw 0 with ⟨h1, h2⟩ | ⟨x0, y0, h1, h2, hxy0⟩
  · rw [h1, h2]; simp only [Res.bind_panic]
  rw [h1, h2]
  simp only [Res.bind_ok]
  have hl0 := (Slice.fromR_wf u haw.2.1 0 y0 h2).2
  rw [Header_loc_partial _ hxy0 (Or.inr (by omega))]
  apply bind_congr_ok; intro hp hhp
  iterate 11 (apply Res.bind_congr2 rfl; intro _)
  rcases Slice.fromR_loc haw 48 with ⟨h3, h4⟩ | ⟨x, y, h3, h4, hxy⟩
  · rw [h3, h4]; simp only [Res.bind_panic]
  rw [h3, h4]
  simp only [Res.bind_ok, InstrAux.matchUnmarshalP]
  rw [Match_unmarshalP_loc _ hxy]
  apply bind_congr_ok; intro mp hmp
  apply bind_congr_ok; intro lp hlp
  have hI := hok y0 hp y mp lp h2 hhp h4 hmp hlp
  apply Res.bind_congr2 _ (fun _ => rfl)
  apply goLoop_congr_inv _ _ _ _ (fun st => ∃ f, instrsOK u (Header.length hp.1) f st.n = true)
  · intro st hst hc
    simp only [decide_eq_true_eq] at hc
    obtain ⟨hin, _⟩ := instrsOK_step u _ st.n hst hc
    rcases Slice.fromR_loc haw st.n with ⟨h5, h6⟩ | ⟨xd, yd, h5, h6, hxyd⟩
    · rw [h5, h6]
    · rw [h5, h6]
      simp only [Res.bind_ok]
      rw [DecodeInstr_loc_ok hxyd (hin yd h6)]
  · intro st st' hst hc hb
    simp only [decide_eq_true_eq] at hc
    obtain ⟨_, hnext⟩ := instrsOK_step u _ st.n hst hc
    cases hd : u.fromR st.n with
    | ok yd =>
      rw [hd] at hb; simp only [Res.bind_ok] at hb
      cases hdi : DecodeInstr yd with
      | ok i =>
        rw [hdi] at hb; simp only [Res.bind_ok] at hb
        cases hl : Instruction.lenM i with
        | ok p =>
          obtain ⟨l, i'⟩ := p
          rw [hl] at hb; simp only [Res.bind_ok] at hb
          by_cases hz : l = 0
          · rw [if_pos hz] at hb; cases hb
          · rw [if_neg hz] at hb; cases hb; exact hnext yd i l i' hd hdi hl hz
        | err => rw [hl] at hb; cases hb
        | panic => rw [hl] at hb; cases hb
        | spin => rw [hl] at hb; cases hb
      | err => rw [hdi] at hb; cases hb
      | panic => rw [hdi] at hb; cases hb
      | spin => rw [hdi] at hb; cases hb
    | err => rw [hd] at hb; cases hb
    | panic => rw [hd] at hb; cases hb
    | spin => rw [hd] at hb; cases hb
  · exact ⟨_, hI⟩

/-- the in-frame condition, evaluated on the visible bytes alone (a slice with NO spare capacity) -/
def FlowModInFrame (t : Slice) : Prop := FlowModInFrameAt (Slice.exact t.bytes)

theorem AW_exact {t : Slice} (ht : t.WF) : AW t (Slice.exact t.bytes) := by
  have hl := Slice.bytes_length t ht
  refine ⟨ht, Slice.exact_wf _, ?_, ?_⟩
  · unfold Slice.exact; simp only [hl]
  · unfold Slice.exact Slice.bytes
    simp only [List.take_length]

theorem AW_trans {a b c : Slice} (h1 : AW a b) (h2 : AW b c) : AW a c :=
  ⟨h1.1, h2.2.1, h1.len_eq.trans h2.len_eq, h1.bytes_eq.trans h2.bytes_eq⟩

/-- the flow-mod decoder, as Parse calls it, on agreeing slices whose visible bytes pass the in-frame check -/
theorem FlowMod_loc_visible {s t : Slice} (haw : AW s t) (hok : FlowModInFrame t) :
    FlowMod.unmarshal flowModRecv s = FlowMod.unmarshal flowModRecv t := by
  have ht := AW_exact haw.2.1
  rw [FlowMod_loc_inframe (AW_trans haw ht) hok, FlowMod_loc_inframe ht hok]

/-- Parse on every good frame, flow-mods included when their visible bytes pass the in-frame check -/
theorem parse_good3_loc (n : Nat) {s t : Slice} (haw : AW s t) (hg : GoodFrame2 FlowModInFrame n t) (d d' : Nat) :
    parse d s = parse d' t :=
  parse_good2_loc FlowModInFrame (fun _ _ h hf => FlowMod_loc_visible h hf) n haw hg d d'

/-- a conformant flow-mod of 88 bytes: empty match, goto-table 5, apply-actions [output port 1] -/
def fmGoodFrame : Bytes :=
  [4, 14, 0, 88, 0, 0, 0, 7] ++ zeros 40 ++ [0, 1, 0, 4, 0, 0, 0, 0] ++ [0, 1, 0, 8, 5, 0, 0, 0] ++
  [0, 4, 0, 24, 0, 0, 0, 0] ++ [0, 0, 0, 16, 0, 0, 0, 1, 0xff, 0xff, 0, 0, 0, 0, 0, 0]

theorem fmGoodFrame_inframe (tail : Bytes) : FlowModInFrame ⟨fmGoodFrame ++ tail, 88⟩ := by
  have hb : (Slice.mk (fmGoodFrame ++ tail) 88).bytes = fmGoodFrame := by
    unfold Slice.bytes
    show List.take 88 (fmGoodFrame ++ tail) = fmGoodFrame
    rw [List.take_append_of_le_length (by decide)]
    rfl
  unfold FlowModInFrame
  rw [hb]
  refine ⟨by decide, ?_⟩
  intro y0 hp dm mp lp h2 hhp h4 hmp hlp
  have e2 : (Slice.exact fmGoodFrame).fromR 0 = .ok (Slice.exact fmGoodFrame) := rfl
  rw [e2] at h2; cases h2
  have ehp : InstrAux.catchErr (Header.unmarshal (msgOfpHeader Gen.openflow13.Type_FlowMod) (Slice.exact fmGoodFrame))
      (msgOfpHeader Gen.openflow13.Type_FlowMod) = .ok (.obj "Header" [.num 4, .num 14, .num 88, .num 7], false) := rfl
  rw [ehp] at hhp; cases hhp
  have e4 : (Slice.exact fmGoodFrame).fromR 48 = .ok ⟨fmGoodFrame.drop 48, 40⟩ := rfl
  rw [e4] at h4; cases h4
  have emp : Match.unmarshalP Match.new ⟨fmGoodFrame.drop 48, 40⟩ = .ok (.obj "Match" [.num 1, .num 4, .list []], false) := rfl
  rw [emp] at hmp; cases hmp
  have elp : Match.lenM (.obj "Match" [.num 1, .num 4, .list []]) = .ok (8, .obj "Match" [.num 1, .num 4, .list []]) := rfl
  rw [elp] at hlp; cases hlp
  rfl

/-- the over-read frame of `parse_flowmod_not_local_counterexample` fails the check (its apply-actions instruction claims
    16 bytes, 8 more than the frame holds) -/
theorem fmCex_not_inframe : ¬ FlowModInFrame fmCexT := by
  intro h
  have hb : fmCexT.bytes = fmFrame := by rfl
  unfold FlowModInFrame at h
  rw [hb] at h
  have h' := h.2 (Slice.exact fmFrame) (.obj "Header" [.num 4, .num 14, .num 64, .num 7], false) ⟨fmFrame.drop 48, 16⟩
    (.obj "Match" [.num 1, .num 4, .list []], false) (8, .obj "Match" [.num 1, .num 4, .list []]) rfl rfl rfl rfl rfl
  have hf : instrsOK (Slice.exact fmFrame) 64 ((Slice.exact fmFrame).len + 2) (48 + 8) = false := rfl
  exact absurd (h'.symm.trans hf) (by decide)

end OFV.Model
