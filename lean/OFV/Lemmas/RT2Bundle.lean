/-
  OFV.Lemmas.RT2Bundle — BundleAdd (ONF bundle add-message) as a vendor payload: around any inner message that round-trips through
  Parse (instances: header-only messages, FlowMod), without and with a list of BundlePropertyExperimenter properties.
  Used by OFV/Props/C05b.lean.
-/
import OFV.Model.All
import OFV.Lemmas.Size
import OFV.Lemmas.RTBasic
import OFV.Lemmas.RTMatch
import OFV.Lemmas.RTMsg
import OFV.Lemmas.RTMsgMore
import OFV.Lemmas.RTFlowMod
import OFV.Lemmas.RT2Nx
import OFV.Lemmas.RT2Vendor
namespace OFV.RT2
set_option linter.unusedSimpArgs false
open OFV OFV.Go OFV.Model OFV.RT

/-- a message `m` with encoding `e` that can sit inside a BundleAdd: encodes unchanged through the `util.Message` interface one
    nesting level down, its bytes 2..3 are its own size (the embedded header's Length, which BundleAdd's decoder reads), and Parse
    returns it from a buffer holding exactly `e` -/
def InnerMsgRT (m : V) (e : Bytes) : Prop :=
  msgAnyMarshalD 7 m = .ok (e, m) ∧ msgAnyLenD 7 m = .ok (n16 e.length, m) ∧ (∃ km fs, m = .obj km fs) ∧ 8 ≤ e.length ∧
  e.length < 65536 ∧ (∃ a b rest, e = a :: b :: (be16 (n16 e.length) ++ rest)) ∧
  ∀ (depth : Nat) (d : Slice), d.WF → d.bytes = e → parse depth d = .ok m

/-- one bundle property with its encoding -/
def PropRT (p : V) (e : Bytes) : Prop :=
  BundlePropertyExperimenter.marshalM p = .ok (e, p) ∧ BundlePropertyExperimenter.len p = .ok (n16 e.length) ∧ 0 < e.length ∧
  e.length < 65536 ∧ e.length % 8 = 0 ∧
  ∀ (data : Slice) (tail : Bytes), data.WF → data.bytes = e ++ tail →
    BundlePropertyExperimenter.unmarshal BundlePropertyExperimenter.zero data = .ok p

inductive PropsRT : List V → List Bytes → Prop
  | nil : PropsRT [] []
  | cons {p : V} {e : Bytes} {ps : List V} {es : List Bytes} : PropRT p e → PropsRT ps es → PropsRT (p :: ps) (e :: es)

theorem propRT_of (t ei et : Nat) (d : Bytes) (ht : t < 65536) (hei : ei < 4294967296) (het : et < 4294967296)
    (hd : 12 + d.length + 7 < 65536) :
    PropRT (bundlePropV t (12 + d.length) ei et d)
      (be16 (n16 t) ++ be16 (n16 (12 + d.length)) ++ be32 (n32 ei) ++ be32 (n32 et) ++ d ++ zeros ((12 + d.length + 7) / 8 * 8 - (12 + d.length))) := by
  obtain ⟨h1, h2, h3, h4⟩ := bundleProp_rt t ei et d ht hei het hd
  have hl : (be16 (n16 t) ++ be16 (n16 (12 + d.length)) ++ be32 (n32 ei) ++ be32 (n32 et) ++ d ++
      zeros ((12 + d.length + 7) / 8 * 8 - (12 + d.length))).length = (12 + d.length + 7) / 8 * 8 := by
    simp only [List.length_append, be16_length, be32_length, zeros_length]; omega
  refine ⟨h1 _, ?_, by rw [hl]; omega, by rw [hl]; omega, h3, fun data tail hd hb => h4 _ data tail hd hb⟩
  simp only [BundlePropertyExperimenter.lenM] at h2
  cases hlen : BundlePropertyExperimenter.len (bundlePropV t (12 + d.length) ei et d) with
  | ok l =>
    rw [hlen] at h2
    simp only [Res.bind_ok, same, Res.ok.injEq, Prod.mk.injEq, and_true] at h2
    rw [h2]; rfl
  | err => rw [hlen] at h2; cases h2
  | panic => rw [hlen] at h2; cases h2
  | spin => rw [hlen] at h2; cases h2

theorem props_facts (ps : List V) (es : List Bytes) (h : PropsRT ps es) (hfit : es.flatten.length < 65536) :
    mapM2 BundlePropertyExperimenter.marshalM ps = .ok (es, ps) ∧
    (∃ ps', mapM2 BundlePropertyExperimenter.lenM ps = .ok (es.map (fun e => n16 e.length), ps')) ∧
    sum16 (es.map (fun e => n16 e.length)) = n16 es.flatten.length ∧ es.length ≤ es.flatten.length ∧ es.flatten.length % 8 = 0 ∧
    (ps = [] ↔ es = []) := by
  induction h with
  | nil => exact ⟨rfl, ⟨_, rfl⟩, rfl, by simp, by simp, by simp⟩
  | @cons p e ps es h1 _ ih =>
    obtain ⟨hm, hl, h0, _, h8, _⟩ := h1
    simp only [List.flatten_cons, List.length_append] at hfit
    obtain ⟨i1, ⟨ps', i2⟩, i3, i4, i5, _⟩ := ih (by omega)
    refine ⟨?_, ⟨p :: ps', ?_⟩, ?_, ?_, ?_, by simp⟩
    · simp [mapM2, hm, i1]
    · simp only [mapM2, BundlePropertyExperimenter.lenM, hl, Res.bind_ok, same, Res.pure_eq, List.map_cons]
      rw [i2]; rfl
    · simp only [List.map_cons, sum16_cons, i3, n16_add, List.flatten_cons, List.length_append]
    · simp only [List.length_cons, List.flatten_cons, List.length_append]; omega
    · simp only [List.flatten_cons, List.length_append]; omega

/-- the property loop of BundleAdd.UnmarshalBinary: runs to the end of the slice -/
theorem props_loop (s : Slice) (hs : s.WF) (ps : List V) (es : List Bytes) (h : PropsRT ps es) :
    ∀ (pre : Bytes) (acc : List V) (fuel : Nat), s.bytes = pre ++ es.flatten → es.length < fuel →
      goLoop (σ := BundleAdd.St) fuel (fun st => decide (st.n < s.len)) (·.n)
        (fun st => do
          let dp ← s.fromR st.n
          let pr ← BundlePropertyExperimenter.unmarshal BundlePropertyExperimenter.zero dp
          let l ← BundlePropertyExperimenter.len pr
          if l = 0 then .err else
          pure { n := st.n + l.toNat, ps := st.ps ++ [pr] })
        { n := pre.length, ps := acc }
      = .ok { n := s.len, ps := acc ++ ps } := by
  induction h with
  | nil =>
    intro pre acc fuel hb hfuel
    have hl : s.len = pre.length := by
      have := Slice.bytes_length s hs; rw [hb] at this; simpa using this.symm
    cases fuel with
    | zero => simp at hfuel
    | succ j => simp [goLoop, hl]
  | @cons p e ps es h1 _ ih =>
    intro pre acc fuel hb hfuel
    obtain ⟨hm, hl, h0, h64, h8, hdec⟩ := h1
    cases fuel with
    | zero => simp at hfuel
    | succ j =>
      have hlen : s.len = pre.length + (e.length + es.flatten.length) := by
        have := Slice.bytes_length s hs; rw [hb] at this
        simp only [List.length_append, List.flatten_cons] at this; omega
      obtain ⟨t, ht1, ht2, _, _⟩ := Slice.fromR_bytes s pre.length (by omega)
      have htb : t.bytes = e ++ (es.flatten ++ []) := by
        rw [ht2, hb]; simp only [List.flatten_cons, List.append_assoc, List.append_nil]; exact List.drop_left' rfl
      have htwf : t.WF := (Slice.fromR_wf s hs _ t ht1).1
      have hto : (n16 e.length).toNat = e.length := n16_toNat _ h64
      have hne : ¬ (n16 e.length = 0) := by
        intro h0'
        have := congrArg UInt16.toNat h0'
        rw [hto] at this
        have h00 : (0 : UInt16).toNat = 0 := rfl
        rw [h00] at this; omega
      unfold goLoop
      have hcond : decide (pre.length < s.len) = true := by simp only [decide_eq_true_eq]; omega
      simp only [hcond, if_true, ht1, Res.bind_ok, hdec t _ htwf htb, hl, Res.pure_eq, hto, hne, if_false]
      have hcur : ¬ (pre.length + e.length ≤ pre.length) := by omega
      simp only [if_false, hcur]
      have := ih (pre ++ e) (acc ++ [p]) j (by rw [hb]; simp) (by simp only [List.length_cons] at hfuel; omega)
      simp only [List.length_append, List.append_assoc, List.cons_append, List.nil_append, Res.pure_eq] at this
      rw [this]

/-- a BundleAdd payload -/
def bundleAddV (i f : Nat) (m : V) (ps : List V) : V := .obj "BundleAdd" [.num i, .bytes (zeros 2), .num f, m, .list ps]

theorem anyMarshal_bundleAdd (fs : List V) :
    anyMarshalM (.obj "BundleAdd" fs) = BundleAdd.marshalWith (msgAnyLenD 7) (msgAnyMarshalD 7) (.obj "BundleAdd" fs) := rfl
theorem anyLen_bundleAdd (fs : List V) :
    anyLenM (.obj "BundleAdd" fs) = BundleAdd.lenWith (msgAnyLenD 7) (.obj "BundleAdd" fs) := rfl


theorem sum16_lens'' (encs : List Bytes) (hsum : ((encs.map (fun e => UInt16.ofNat e.length)).map UInt16.toNat).sum = encs.flatten.length)
    (h : encs.flatten.length < 65536) : sum16 (encs.map (fun e => UInt16.ofNat e.length)) = n16 encs.flatten.length := by
  apply UInt16.toNat_inj.mp
  rw [sum16_toNat _ (by rw [hsum]; exact h), hsum, n16_toNat _ h]

theorem parseD_of_parse (k : Nat) (d : Slice) (hk : d.cap < k) : parseD k d = parse k d := by
  unfold parse
  have : max k (d.cap + 1) = k := by omega
  rw [this]

/-- BundleAdd (ONF bundle add-message) around any inner message that round-trips through Parse, WITHOUT properties -/
theorem vendorData_bundleAdd_noprops (i f : Nat) (m : V) (e : Bytes) (hi : i < 4294967296) (hf : f < 65536) (hm : InnerMsgRT m e)
    (hS : 8 + e.length < 65536) :
    VendorDataRT Gen.openflow13.Type_BundleAdd (bundleAddV i f m []) (be32 (n32 i) ++ zeros 2 ++ be16 (n16 f) ++ e) := by
  obtain ⟨hmm, hml, ⟨km, fs, rfl⟩, h8, h64, ⟨a, b, rest, hshape⟩, hparse⟩ := hm
  have hel : (be32 (n32 i) ++ zeros 2 ++ be16 (n16 f) ++ e).length = 8 + e.length := by
    simp only [List.length_append, be16_length, be32_length, zeros_length]
  have hbase : (4 : UInt16) + 2 + 2 + n16 e.length = n16 (8 + e.length) := by
    have : (4 : UInt16) + 2 + 2 = n16 8 := rfl
    rw [this, n16_add]
  have hlenW : BundleAdd.lenWith (msgAnyLenD 7) (bundleAddV i f (.obj km fs) [])
      = .ok (n16 (8 + e.length), bundleAddV i f (.obj km fs) []) := by
    simp only [bundleAddV, BundleAdd.lenWith, hml, Res.bind_ok, mapM2, Res.pure_eq, hbase, List.isEmpty_nil, if_true]
  refine ⟨?_, by rw [bundleAddV, anyLen_bundleAdd, ← bundleAddV, hlenW, hel], ⟨_, _, rfl⟩, by rw [hel]; omega, ?_⟩
  · rw [bundleAddV, anyMarshal_bundleAdd, ← bundleAddV]
    unfold BundleAdd.marshalWith
    rw [hlenW]
    simp only [bundleAddV, Res.bind_ok, n16_toNat _ hS, hmm, mapM2, Res.pure_eq, List.isEmpty_nil, if_true, List.map_nil, List.append_nil]
    have hp1 : piecesLen [pU32 i, pSkip 2, pU16 f] = 8 := rfl
    rw [fill_exact (8 + e.length) _ (by intro p hp; simp at hp; rcases hp with rfl | rfl | rfl <;> trivial) (by rw [hp1]; omega)]
    simp only [Res.bind_ok]
    rw [fill_eq (8 + e.length) _ (by intro p hp; simp at hp; rcases hp with rfl | rfl | rfl | rfl <;> first | trivial | exact Nat.le_refl _)
      (by rw [piecesLen_app, hp1]; simp [piecesLen, Piece.adv])]
    simp [piecesBytes, pU32, pSkip, pU16, Piece.bytes, zeros]
  · intro k s hs hb hk
    have hlen : s.len = 8 + e.length := by
      have := Slice.bytes_length s hs; rw [hb, hel] at this; exact this.symm
    have hb' : s.bytes = be32 (n32 i) ++ (zeros 2 ++ (be16 (n16 f) ++ (a :: b :: (be16 (n16 e.length) ++ rest)))) := by
      rw [hb, ← hshape]; simp only [List.append_assoc]
    have e0 : rd32 (s.bytes.drop 0) = some (n32 i) := by rw [hb']; exact rd32_be32 _ _
    have e6 : rd16 (s.bytes.drop 6) = some (n16 f) := by rw [hb']; exact rd16_be16 _ _
    have e10 : rd16 (s.bytes.drop 10) = some (n16 e.length) := by rw [hb']; exact rd16_be16 _ _
    obtain ⟨d, hd1, hd2, _⟩ := Slice.sliceR_bytes s hs 8 (8 + e.length) (by omega) (by omega)
    have hdwf : d.WF := (Slice.sliceR_wf s 8 (8 + e.length) d hd1).1
    have hdb : d.bytes = e := by
      rw [hd2, hb]
      have : List.drop 8 (be32 (n32 i) ++ zeros 2 ++ be16 (n16 f) ++ e) = e := rfl
      rw [this]; simp
    have hdcap : d.cap < k := by
      have := slice_cap_le s d 8 (8 + e.length) hd1; omega
    simp only [decodeVendorDataWith, Gen.openflow13.Type_SetControllerId, Gen.openflow13.Type_TlvTableMod,
      Gen.openflow13.Type_TlvTableReply, Gen.openflow13.Type_BundleCtrl, Gen.openflow13.Type_BundleAdd, Nat.reduceEqDiff, if_false,
      if_true, BundleAdd.unmarshalWith, BundleAdd.zero]
    rw [if_neg (by omega)]
    simp only [Slice.u32From_eq, Slice.u16From_eq, e0, e6, e10, Res.ofOption, Res.bind_ok, n16_toNat _ h64]
    rw [if_neg (by simp only [Bool.or_eq_true, decide_eq_true_eq]; omega)]
    simp only [hd1, Res.bind_ok, parseD_of_parse k d hdcap, hparse k d hdwf hdb, V.isNil, Bool.false_eq_true, if_false]
    rw [if_neg (by omega)]
    simp only [Res.pure_eq, u32_n32 i hi, u16_n16 f hf, bundleAddV]


/-- BundleAdd around an inner message WITH a non-empty list of properties: the message is zero-padded to a multiple of 8, then the
    properties follow -/
theorem vendorData_bundleAdd_props (i f : Nat) (m : V) (e : Bytes) (ps : List V) (es : List Bytes) (hi : i < 4294967296)
    (hf : f < 65536) (hm : InnerMsgRT m e) (hps : PropsRT ps es) (hne : ps ≠ [])
    (hS : 8 + e.length + 7 + es.flatten.length < 65536) :
    let start := (8 + e.length + 7) / 8 * 8
    VendorDataRT Gen.openflow13.Type_BundleAdd (bundleAddV i f m ps)
      (be32 (n32 i) ++ zeros 2 ++ be16 (n16 f) ++ e ++ zeros (start - (8 + e.length)) ++ es.flatten) := by
  intro start
  obtain ⟨hmm, hml, ⟨km, fs, rfl⟩, h8, h64, ⟨a, b, rest, hshape⟩, hparse⟩ := hm
  obtain ⟨hpm, ⟨ps', hpl⟩, hs16, hcnt, hS8, hnil⟩ := props_facts ps es hps (by omega)
  have hes : 0 < es.flatten.length := by
    cases hps with
    | nil => exact absurd rfl hne
    | cons h1 _ => simp only [List.flatten_cons, List.length_append]; have := h1.2.2.1; omega
  have hst : 8 + e.length ≤ start ∧ start < 8 + e.length + 8 ∧ start % 8 = 0 := by simp only [start]; omega
  have hel : (be32 (n32 i) ++ zeros 2 ++ be16 (n16 f) ++ e ++ zeros (start - (8 + e.length)) ++ es.flatten).length = start + es.flatten.length := by
    simp only [List.length_append, be16_length, be32_length, zeros_length]; omega
  have hbase : (4 : UInt16) + 2 + 2 + n16 e.length = n16 (8 + e.length) := by
    have : (4 : UInt16) + 2 + 2 = n16 8 := rfl
    rw [this, n16_add]
  have hie : ps.isEmpty = false := by cases ps with
    | nil => exact absurd rfl hne
    | cons _ _ => rfl
  have hr8 : (n16 (8 + e.length) + 7) / 8 * 8 = n16 start := by
    have := round8_n16 (8 + e.length) (by omega)
    unfold round8 at this
    exact this
  have hlenW : BundleAdd.lenWith (msgAnyLenD 7) (bundleAddV i f (.obj km fs) ps)
      = .ok (n16 (start + es.flatten.length), bundleAddV i f (.obj km fs) ps) := by
    simp only [bundleAddV, BundleAdd.lenWith, hml, Res.bind_ok, hpl, Res.pure_eq, hbase, hie, Bool.false_eq_true, if_false, hr8, hs16,
      n16_add]
  have htot : start + es.flatten.length < 65536 := by omega
  obtain ⟨pc1, pc2, pc3⟩ := pieces_copy es
  refine ⟨?_, by rw [bundleAddV, anyLen_bundleAdd, ← bundleAddV, hlenW, hel], ⟨_, _, rfl⟩, by rw [hel]; omega, ?_⟩
  · rw [bundleAddV, anyMarshal_bundleAdd, ← bundleAddV]
    unfold BundleAdd.marshalWith
    rw [hlenW]
    simp only [bundleAddV, Res.bind_ok, n16_toNat _ htot, hmm, hpm, Res.pure_eq, hie, Bool.false_eq_true, if_false]
    have hp1 : piecesLen [pU32 i, pSkip 2, pU16 f] = 8 := rfl
    rw [fill_exact (start + es.flatten.length) _ (by intro p hp; simp at hp; rcases hp with rfl | rfl | rfl <;> trivial) (by rw [hp1]; omega)]
    simp only [Res.bind_ok]
    have hadv : (8 + e.length + 7) / 8 * 8 - 8 = start - 8 := rfl
    rw [hadv]
    rw [fill_eq (start + es.flatten.length) _ (by
        intro p hp
        simp only [List.mem_append, List.mem_cons, List.not_mem_nil, or_false] at hp
        rcases hp with ((rfl | rfl | rfl) | rfl) | hp
        · trivial
        · trivial
        · trivial
        · show e.length ≤ start - 8; omega
        · exact pc3 p hp)
      (by rw [piecesLen_app, piecesLen_app, hp1, pc1]; simp [piecesLen, Piece.adv]; omega)]
    rw [piecesBytes_app, piecesBytes_app, pc2]
    have hz : start - 8 - e.length = start - (8 + e.length) := by omega
    simp [piecesBytes, pU32, pSkip, pU16, Piece.bytes, zeros, List.take_of_length_le (show e.length ≤ start - 8 by omega), hz]
  · intro k s hs hb hk
    have hlen : s.len = start + es.flatten.length := by
      have := Slice.bytes_length s hs; rw [hb, hel] at this; exact this.symm
    obtain ⟨n, hn⟩ : ∃ n, e.length = n := ⟨_, rfl⟩
    have hshape' : e = a :: b :: (be16 (n16 n) ++ rest) := by rw [← hn]; exact hshape
    have hb' : s.bytes = be32 (n32 i) ++ (zeros 2 ++ (be16 (n16 f) ++ (a :: b :: (be16 (n16 n) ++ (rest ++
        (zeros (start - (8 + e.length)) ++ es.flatten)))))) := by
      rw [hb]
      have : be32 (n32 i) ++ zeros 2 ++ be16 (n16 f) ++ e ++ zeros (start - (8 + e.length)) ++ es.flatten
        = be32 (n32 i) ++ (zeros 2 ++ (be16 (n16 f) ++ (e ++ (zeros (start - (8 + e.length)) ++ es.flatten)))) := by
        simp only [List.append_assoc]
      rw [this]
      generalize zeros (start - (8 + e.length)) ++ es.flatten = X
      have he : e ++ X = a :: b :: (be16 (n16 n) ++ (rest ++ X)) := by
        have := congrArg (fun l => l ++ X) hshape'
        simpa only [List.cons_append, List.append_assoc] using this
      rw [he]
    have e0 : rd32 (s.bytes.drop 0) = some (n32 i) := by rw [hb']; exact rd32_be32 _ _
    have e6 : rd16 (s.bytes.drop 6) = some (n16 f) := by rw [hb']; exact rd16_be16 _ _
    have e10 : rd16 (s.bytes.drop 10) = some (n16 e.length) := by rw [hb', hn]; exact rd16_be16 _ _
    obtain ⟨d, hd1, hd2, _⟩ := Slice.sliceR_bytes s hs 8 (8 + e.length) (by omega) (by omega)
    have hdwf : d.WF := (Slice.sliceR_wf s 8 (8 + e.length) d hd1).1
    have hdb : d.bytes = e := by
      rw [hd2, hb]
      have : List.drop 8 (be32 (n32 i) ++ zeros 2 ++ be16 (n16 f) ++ e ++ zeros (start - (8 + e.length)) ++ es.flatten)
          = e ++ (zeros (start - (8 + e.length)) ++ es.flatten) := by
        simp only [List.append_assoc]; rfl
      rw [this]; simp
    have hdcap : d.cap < k := by
      have := slice_cap_le s d 8 (8 + e.length) hd1; omega
    have hloop := props_loop s hs ps es hps (be32 (n32 i) ++ zeros 2 ++ be16 (n16 f) ++ e ++ zeros (start - (8 + e.length))) []
      (s.len + 1) hb (by omega)
    have hpre : (be32 (n32 i) ++ zeros 2 ++ be16 (n16 f) ++ e ++ zeros (start - (8 + e.length))).length = start := by
      simp only [List.length_append, be16_length, be32_length, zeros_length]; omega
    rw [hpre] at hloop
    simp only [decodeVendorDataWith, Gen.openflow13.Type_SetControllerId, Gen.openflow13.Type_TlvTableMod,
      Gen.openflow13.Type_TlvTableReply, Gen.openflow13.Type_BundleCtrl, Gen.openflow13.Type_BundleAdd, Nat.reduceEqDiff, if_false,
      if_true, BundleAdd.unmarshalWith, BundleAdd.zero]
    rw [if_neg (by omega)]
    simp only [Slice.u32From_eq, Slice.u16From_eq, e0, e6, e10, Res.ofOption, Res.bind_ok, n16_toNat _ h64]
    rw [if_neg (by simp only [Bool.or_eq_true, decide_eq_true_eq]; omega)]
    simp only [hd1, Res.bind_ok, parseD_of_parse k d hdcap, hparse k d hdwf hdb, V.isNil, Bool.false_eq_true, if_false]
    rw [if_pos (by omega)]
    erw [hloop]
    simp only [Res.bind_ok, Res.pure_eq, u32_n32 i hi, u16_n16 f hf, bundleAddV, List.nil_append]


theorem anyMar7_header (fs : List V) : msgAnyMarshalD 7 (.obj "Header" fs) = Header.marshalM (.obj "Header" fs) := rfl
theorem anyLen7_header (fs : List V) : msgAnyLenD 7 (.obj "Header" fs) = Header.lenM (.obj "Header" fs) := rfl
theorem anyMar7_flowMod (fs : List V) : msgAnyMarshalD 7 (.obj "FlowMod" fs) = FlowMod.marshalM (.obj "FlowMod" fs) := rfl
theorem anyLen7_flowMod (fs : List V) : msgAnyLenD 7 (.obj "FlowMod" fs) = FlowMod.lenM (.obj "FlowMod" fs) := rfl

/-- a header-only message (echo, barrier, …; Length = 8) as the message of a BundleAdd -/
theorem innerMsgRT_header (ver ty xid : Nat) (hv : ver < 256) (hty : HeaderOnlyType ty) (hx : xid < 4294967296) :
    InnerMsgRT (.obj "Header" [.num ver, .num ty, .num 8, .num xid]) ([n8 ver, n8 ty] ++ be16 (n16 8) ++ be32 (n32 xid)) := by
  refine ⟨rfl, rfl, ⟨_, _, rfl⟩, by simp, by simp, ⟨n8 ver, n8 ty, be32 (n32 xid), rfl⟩, ?_⟩
  intro depth d hd hb
  exact RT.parse_header_only ver ty 8 xid hv hty (by decide) hx depth d [] hd (by rw [hb, List.append_nil])

/-- FlowMod (Match, instructions, actions nested) as the message of a BundleAdd -/
theorem innerMsgRT_flowMod (ver xid ck cm tid cmd it ht pr bid op og fl : Nat) (m : V) (is : List V) (encs : List Bytes)
    (hver : ver < 256) (hxid : xid < 4294967296) (hck : ck < 18446744073709551616) (hcm : cm < 18446744073709551616)
    (htid : tid < 256) (hcmd : cmd < 256) (hit : it < 65536) (hht : ht < 65536) (hpr : pr < 65536)
    (hbid : bid < 4294967296) (hop : op < 4294967296) (hog : og < 4294967296) (hfl : fl < 65536)
    (hm : MatchWF m) (his : InstrsRT is encs)
    (hdel : (cmd = Gen.openflow13.FC_DELETE ∨ cmd = Gen.openflow13.FC_DELETE_STRICT) → is = []) :
    ∃ mbs, Match.marshalM m = .ok (mbs, m) ∧ (48 + mbs.length + encs.flatten.length < 65536 →
      let L := 48 + mbs.length + encs.flatten.length
      InnerMsgRT (flowModV ver L xid ck cm tid cmd it ht pr bid op og fl (.bytes []) m is)
        ([n8 ver, n8 Gen.openflow13.Type_FlowMod] ++ be16 (n16 L) ++ be32 (n32 xid) ++ flowModFixed ck cm tid cmd it ht pr bid op og fl
          ++ mbs ++ encs.flatten)) := by
  obtain ⟨mbs, hmm, hml, _, hmdec, _, _⟩ := match_roundtrip m hm
  refine ⟨mbs, hmm, fun hL => ?_⟩
  intro L
  have hbl : ([n8 ver, n8 Gen.openflow13.Type_FlowMod] ++ be16 (n16 L) ++ be32 (n32 xid)
      ++ flowModFixed ck cm tid cmd it ht pr bid op og fl ++ mbs ++ encs.flatten).length = L := by
    simp only [List.length_append, flowModFixed_length, be16_length, be32_length, List.length_cons, List.length_nil, L]
  have henc := flowMod_encode ver L xid ck cm tid cmd it ht pr bid op og fl (.bytes []) m is encs mbs hmm hml his hdel hL
  obtain ⟨hil, hill⟩ := instrs_marshalList is encs his
  obtain ⟨_, hsum⟩ := instrs_len is encs his
  refine ⟨by rw [flowModV, anyMar7_flowMod, ← flowModV]; exact henc, ?_, ⟨_, _, rfl⟩, by rw [hbl]; simp only [L]; omega, by rw [hbl]; exact hL,
    ⟨_, _, _, by rw [hbl]; simp only [List.append_assoc, List.cons_append, List.nil_append]; rfl⟩, ?_⟩
  · rw [flowModV, anyLen7_flowMod, hbl]
    have hto : (UInt16.ofNat mbs.length).toNat = mbs.length := by
      simp [UInt16.toNat_ofNat']; omega
    simp only [FlowMod.lenM, hml, Res.bind_ok]
    have h48 : (8 : UInt16) + 40 + UInt16.ofNat mbs.length = n16 (48 + mbs.length) := by
      have : (8 : UInt16) + 40 = n16 48 := rfl
      rw [this]; show n16 48 + n16 mbs.length = _
      rw [n16_add]
    by_cases hd : cmd = Gen.openflow13.FC_DELETE ∨ cmd = Gen.openflow13.FC_DELETE_STRICT
    · have := hdel hd
      subst this
      have := instrsRT_nil encs his
      subst this
      rw [if_pos hd, h48]; rfl
    · rw [if_neg hd]
      simp only [hill, Res.bind_ok, h48, sum16_lens'' encs hsum (by omega), n16_add]
      rfl
  · intro depth d hd hb
    exact flowMod_decode ver xid ck cm tid cmd it ht pr bid op og fl m is encs mbs hver hxid hck hcm htid hcmd hit hht hpr
      hbid hop hog hfl hml hmdec his hL depth d [] hd (by rw [hb, List.append_nil])

end OFV.RT2
