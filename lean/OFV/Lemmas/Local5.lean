/-
  OFV.Lemmas.Local5 — frame locality, round 3.

  NEW OVER-READS, reachable through `openflow13.Parse` on a frame whose visible length EQUALS its Length field (the shape
  the stream delivers):

  * flow-mod: `InstrActions.UnmarshalBinary` (openflow13/instruction.go:208-209) loops `for n < int(instr.Length)` and
    hands `data[n:]` to `DecodeAction`, never comparing `instr.Length` with `len(data)`.  When the instruction claims more
    bytes than the frame holds, `data[n:]` is EMPTY, and `DecodeAction` (action.go:69 `binary.BigEndian.Uint16(data[:2])`)
    and e.g. `ActionDecNwTtl.UnmarshalBinary` (action.go:342 `data[:4]`) re-slice it up to the CAPACITY: a whole action is
    decoded from the bytes that follow the frame in the buffer (`parse_flowmod_not_local_counterexample`).
  * multipart reply with a flow-stats record: the same loop, reached through `FlowStats.UnmarshalBinary` →
    `DecodeInstr` (`parse_multipart_flowstats_not_local_counterexample`).
  `DecodeInstr` (instruction.go:55 `data[:2]`) and `InstrHeader … data[:4]` have the same defect for a trailing fragment
  of fewer than 4 bytes.

  Proved here besides: Parse is local on every "good" frame — any kind except flow-mod and multipart reply; experimenter
  frames not cut before their Length field; TLV table replies with a body of at least 16 bytes; bundle-add frames whose
  embedded message is again good (induction over the nesting) — `parse_good_loc`.
-/
import OFV.Lemmas.Local4
namespace OFV.Model
open OFV OFV.Go OFV.Go.Slice

/-! ### counterexamples through Parse, frame length = Length field -/

/-- a flow-mod of 64 bytes (Length field 64): fixed part, an empty OXM match (8 bytes) and ONE apply-actions instruction
    header `00 04 00 10 00000000` that claims 16 bytes, i.e. an 8-byte action that is not in the frame -/
def fmFrame : Bytes :=
  [4, 14, 0, 64, 0, 0, 0, 7] ++ zeros 40 ++ [0, 1, 0, 4, 0, 0, 0, 0] ++ [0, 4, 0, 16, 0, 0, 0, 0]

def fmCexS : Slice := ⟨fmFrame ++ [0, 24, 0, 8, 0, 0, 0, 0], 64⟩
def fmCexT : Slice := ⟨fmFrame ++ [0, 24, 0, 9, 0, 0, 0, 0], 64⟩

theorem fmCex_agree : fmCexS.WF ∧ fmCexT.WF ∧ fmCexS.Agree fmCexT ∧ 8 ≤ fmCexT.len ∧ fmCexT.u16In 2 4 = .ok 64 ∧ fmCexT.len = 64 := by
  refine ⟨?_, ?_, ?_, ?_, rfl, rfl⟩
  · unfold WF; decide
  · unfold WF; decide
  · unfold Agree; decide
  · decide

def fmResult (staleLen : Nat) : V :=
  .obj "FlowMod" [.obj "Header" [.num 4, .num 14, .num 64, .num 7], .num 0, .num 0, .num 0, .num 0, .num 0, .num 0, .num 0,
    .num 0, .num 0, .num 0, .num 0, .bytes [], .obj "Match" [.num 1, .num 4, .list []],
    .list [.obj "InstrActions" [.obj "InstrHeader" [.num 4, .num 16], .bytes [],
      .list [.obj "ActionDecNwTtl" [.obj "ActionHeader" [.num 24, .num staleLen], .bytes []]]]]]

theorem fmCexS_eval : parse 65 fmCexS = .ok (fmResult 8) := by rfl
theorem fmCexT_eval : parse 65 fmCexT = .ok (fmResult 9) := by rfl

/-- REACHABLE THROUGH PARSE, frame length = Length field = 64: the delivered flow-mod contains an action
    (`ActionDecNwTtl`, header `00 18 00 08` versus `00 18 00 09`) that was decoded entirely from the 8 bytes FOLLOWING the
    frame in the buffer. -/
theorem parse_flowmod_not_local_counterexample :
    fmCexS.WF ∧ fmCexT.WF ∧ fmCexS.Agree fmCexT ∧ 8 ≤ fmCexT.len ∧
    parse (fmCexS.len + 1) fmCexS ≠ parse (fmCexT.len + 1) fmCexT := by
  refine ⟨fmCex_agree.1, fmCex_agree.2.1, fmCex_agree.2.2.1, fmCex_agree.2.2.2.1, ?_⟩
  show parse 65 fmCexS ≠ parse 65 fmCexT
  rw [fmCexS_eval, fmCexT_eval]; intro h; simp [fmResult] at h

/-- a multipart reply of 80 bytes (Length field 80) of type flow with ONE flow-stats record of 64 bytes whose single
    apply-actions instruction claims 16 bytes -/
def mpFrame : Bytes :=
  [4, 19, 0, 80, 0, 0, 0, 7, 0, 1, 0, 0, 0, 0, 0, 0] ++ ([0, 64, 0, 0] ++ zeros 44 ++ [0, 1, 0, 4, 0, 0, 0, 0] ++ [0, 4, 0, 16, 0, 0, 0, 0])

def mpCexS : Slice := ⟨mpFrame ++ [0, 24, 0, 8, 0, 0, 0, 0], 80⟩
def mpCexT : Slice := ⟨mpFrame ++ [0, 24, 0, 9, 0, 0, 0, 0], 80⟩

theorem mpCex_agree : mpCexS.WF ∧ mpCexT.WF ∧ mpCexS.Agree mpCexT ∧ 8 ≤ mpCexT.len ∧ mpCexT.u16In 2 4 = .ok 80 ∧ mpCexT.len = 80 := by
  refine ⟨?_, ?_, ?_, ?_, rfl, rfl⟩
  · unfold WF; decide
  · unfold WF; decide
  · unfold Agree; decide
  · decide

def mpResult (staleLen : Nat) : V :=
  .obj "MultipartReply" [.obj "Header" [.num 4, .num 19, .num 80, .num 7], .num 1, .num 0, .bytes [],
    .list [.obj "FlowStats" [.num 64, .num 0, .num 0, .num 0, .num 0, .num 0, .num 0, .num 0, .num 0, .bytes [0, 0, 0, 0],
      .num 0, .num 0, .num 0, .obj "Match" [.num 1, .num 4, .list []],
      .list [.obj "InstrActions" [.obj "InstrHeader" [.num 4, .num 16], .bytes [],
        .list [.obj "ActionDecNwTtl" [.obj "ActionHeader" [.num 24, .num staleLen], .bytes []]]]]]]]

theorem mpCexS_eval : parse 81 mpCexS = .ok (mpResult 8) := by rfl
theorem mpCexT_eval : parse 81 mpCexT = .ok (mpResult 9) := by rfl

/-- REACHABLE THROUGH PARSE, frame length = Length field = 80: the same over-read inside a flow-stats record of a
    multipart reply. -/
theorem parse_multipart_flowstats_not_local_counterexample :
    mpCexS.WF ∧ mpCexT.WF ∧ mpCexS.Agree mpCexT ∧ 8 ≤ mpCexT.len ∧
    parse (mpCexS.len + 1) mpCexS ≠ parse (mpCexT.len + 1) mpCexT := by
  refine ⟨mpCex_agree.1, mpCex_agree.2.1, mpCex_agree.2.2.1, mpCex_agree.2.2.2.1, ?_⟩
  show parse 81 mpCexS ≠ parse 81 mpCexT
  rw [mpCexS_eval, mpCexT_eval]; intro h; simp [mpResult] at h

/-! ### Parse on good frames: induction over the bundle-add nesting -/

/-- bundle-add, the embedded Parse being compared on the actual message window only -/
theorem BundleAdd_unmarshalWith_loc2 (parseF parseF' : Slice → R V) (cl cl' : MsgLenF) (recv : V) {s t : Slice} (haw : AW s t)
    (hp : ∀ ml x y, t.u16From 10 = .ok ml → t.sliceR 8 (8 + ml.toNat) = .ok y → AW x y → 8 ≤ y.len → y.len + 8 ≤ t.len →
      parseF x = parseF' y) :
    BundleAdd.unmarshalWith parseF cl recv s = BundleAdd.unmarshalWith parseF' cl' recv t := by
  unfold BundleAdd.unmarshalWith
  loc_norm haw
  split
  · apply ite_congr rfl (fun _ => rfl); intro h16
    apply Res.bind_congr2 rfl; intro _
    apply Res.bind_congr2 rfl; intro _
    apply bind_congr_ok; intro ml hml
    apply ite_congr rfl (fun _ => rfl); intro hc
    simp only [Bool.or_eq_true, decide_eq_true_eq, not_or, Nat.not_lt, Nat.not_lt] at hc
    rcases Slice.sliceR_loc haw 8 (8 + ml.toNat) (by omega) with ⟨h1, h2⟩ | ⟨x, y, h1, h2, hxy⟩
    · rw [h1, h2]; rfl
    · rw [h1, h2]
      have hy := (Slice.sliceR_wf t 8 _ y h2).2
      simp only [Res.bind_ok]
      rw [hp ml x y hml h2 hxy (by omega) (by omega)]
      apply Res.bind_congr2 rfl; intro _
      apply ite_congr rfl (fun _ => rfl); intro _
      apply ite_congr rfl _ (fun _ => rfl); intro _
      apply Res.bind_congr2 _ (fun _ => rfl)
      apply goLoop_congr
      intro st _
      apply Slice.fromR_bind_loc haw; intro x y hxy
      rw [BundlePropertyExperimenter_loc _ hxy]
  · rfl

theorem decodeVendorDataWith_loc_partial2 (parseF parseF' : Slice → R V) (cl cl' : MsgLenF) (ty : Nat) {x y : Slice}
    (hxy : AW x y) (htlv : ty = Gen.openflow13.Type_TlvTableReply → 16 ≤ y.len)
    (hp : ty = Gen.openflow13.Type_BundleAdd → ∀ ml u v, y.u16From 10 = .ok ml → y.sliceR 8 (8 + ml.toNat) = .ok v → AW u v →
      8 ≤ v.len → v.len + 8 ≤ y.len → parseF u = parseF' v) :
    decodeVendorDataWith parseF cl ty x = decodeVendorDataWith parseF' cl' ty y := by
  unfold decodeVendorDataWith
  rw [ControllerID_loc _ hxy, TLVTableMod_loc _ hxy, BundleControl_loc _ hxy]
  apply ite_congr rfl (fun _ => rfl); intro _
  apply ite_congr rfl (fun _ => rfl); intro _
  apply ite_congr rfl (fun h26 => TLVTableReply_loc_partial _ hxy (htlv h26)); intro _
  apply ite_congr rfl (fun _ => rfl); intro _
  apply ite_congr rfl _ (fun _ => rfl); intro hba
  exact BundleAdd_unmarshalWith_loc2 parseF parseF' cl cl' _ hxy (hp hba)

/-- the experimenter message, the body decoders being compared on the actual body window `data[16:Length]` only -/
theorem VendorHeader_unmarshalWith_loc_partial3 (decVD decVD' : Nat → Slice → R V) (recv : V) {s t : Slice} (haw : AW s t)
    (hL : ∀ w, t.u16In 2 4 = .ok w → w.toNat ≤ t.len)
    (hd : ∀ w ty x y, t.u16In 2 4 = .ok w → t.u32From 12 = .ok ty → t.sliceR 16 w.toNat = .ok y → AW x y →
      decVD ty.toNat x = decVD' ty.toNat y) :
    VendorHeader.unmarshalWith decVD recv s = VendorHeader.unmarshalWith decVD' recv t := by
  unfold VendorHeader.unmarshalWith
  loc_norm haw
  split
  · apply ite_congr rfl (fun _ => rfl); intro h16
    rw [msgTryU_Header_loc _ haw (by omega)]
    apply bind_congr_ok; intro he hhe
    obtain ⟨w, hw, hlw⟩ := Header_length_of _ he.1 t he.2 hhe (by omega)
    have hle := hL w hw
    apply Res.bind_congr2 rfl; intro _
    apply bind_congr_ok; intro ty hty
    apply ite_congr rfl _ (fun _ => rfl); intro hlt
    rcases Slice.sliceR_loc haw 16 (Header.length he.1) (by omega) with ⟨h1, h2⟩ | ⟨x, y, h1, h2, hxy⟩
    · rw [h1, h2]; rfl
    · rw [h1, h2]
      simp only [Res.bind_ok]
      rw [hd w ty x y hw hty (hlw ▸ h2) hxy]
  · rfl

/-- `parseStep` with the experimenter branch left as a hypothesis -/
theorem parseStep_loc3 (self self' : Slice → R V) {s t : Slice} (haw : AW s t) (h8 : 8 ≤ t.len)
    (hk : ∀ tb, t.byteAt 1 = .ok tb → parseCovered2 tb.toNat ∧ (tb.toNat = Gen.openflow13.Type_Experimenter →
      VendorHeader.unmarshalWith (decodeVendorDataWith self anyLenM) VendorHeader.zero s =
        VendorHeader.unmarshalWith (decodeVendorDataWith self' anyLenM) VendorHeader.zero t)) :
    parseStep self s = parseStep self' t := by
  unfold parseStep
  loc_norm haw
  apply bind_congr_ok; intro tb htb
  obtain ⟨⟨k1, k2⟩, kv⟩ := hk tb htb
  rw [Hello_loc _ haw h8, ErrorMsg_loc _ haw h8, VendorError_loc _ haw h8, Header_loc_partial _ haw (Or.inr h8),
    Header_loc_partial _ haw (Or.inr h8), SwitchConfig_loc _ haw h8, SwitchConfig_loc _ haw h8,
    SwitchFeatures_loc _ haw h8, PacketIn_loc _ haw h8, FlowRemoved_loc _ haw h8, PortStatus_loc _ haw h8,
    MultipartRequest_loc _ haw h8]
  rw [if_neg k1, if_neg k1, if_neg k2, if_neg k2]
  apply ite_congr rfl (fun _ => rfl); intro _
  apply ite_congr rfl (fun _ => rfl); intro _
  apply ite_congr rfl (fun _ => rfl); intro _
  apply ite_congr rfl _ (fun _ => rfl); intro hexp
  exact kv hexp

/-- the frames on which Parse is proved local; the `Nat` bounds the bundle-add nesting:
    at least 8 bytes; not a flow-mod or multipart reply (over-reads, see the counterexamples); an experimenter frame is not
    cut before its Length field, a TLV table reply has Length ≥ 32 (body ≥ 16), and the message embedded in a bundle-add is
    again a good frame -/
def GoodFrame : Nat → Slice → Prop
  | 0, _ => False
  | n + 1, t =>
    8 ≤ t.len ∧
    ∀ tb, t.byteAt 1 = .ok tb → parseCovered2 tb.toNat ∧
      (tb.toNat = Gen.openflow13.Type_Experimenter →
        (∀ w, t.u16In 2 4 = .ok w → w.toNat ≤ t.len) ∧
        (∀ ty, t.u32From 12 = .ok ty →
          (ty.toNat = Gen.openflow13.Type_TlvTableReply → ∀ w, t.u16In 2 4 = .ok w → 32 ≤ w.toNat) ∧
          (ty.toNat = Gen.openflow13.Type_BundleAdd → ∀ w body ml inner, t.u16In 2 4 = .ok w →
            t.sliceR 16 w.toNat = .ok body → body.u16From 10 = .ok ml → body.sliceR 8 (8 + ml.toNat) = .ok inner →
            GoodFrame n inner)))

theorem parseD_good_loc : ∀ (n : Nat) (s t : Slice), AW s t → GoodFrame n t → ∀ d d', t.len ≤ d → t.len ≤ d' →
    parseD (d + 1) s = parseD (d' + 1) t := by
  intro n
  induction n with
  | zero => intro s t _ hg; exact absurd hg (by unfold GoodFrame; exact fun h => h)
  | succ n ih =>
    intro s t haw hg d d' hd hd'
    unfold GoodFrame at hg
    obtain ⟨h8, hk⟩ := hg
    unfold parseD
    rw [parseStep_loc3 (parseD d) (parseD d') haw h8]
    intro tb htb
    obtain ⟨hc, hexp⟩ := hk tb htb
    refine ⟨hc, fun he => ?_⟩
    obtain ⟨hL, hty⟩ := hexp he
    apply VendorHeader_unmarshalWith_loc_partial3 _ _ _ haw hL
    intro w ty x y hw hty' hy hxy
    obtain ⟨htlv, hba⟩ := hty ty hty'
    have hylen := (Slice.sliceR_wf t 16 _ y hy).2
    have hwle := hL w hw
    apply decodeVendorDataWith_loc_partial2 _ _ _ _ _ hxy
    · intro h26; have := htlv h26 w hw; omega
    · intro h2301 ml u v hml hv huv hv8 hvl
      have hgi := hba h2301 w y ml v hw hy hml hv
      have e1 : d = (d - 1) + 1 := by omega
      have e2 : d' = (d' - 1) + 1 := by omega
      rw [e1, e2]
      exact ih u v huv hgi _ _ (by omega) (by omega)

/-- Parse on a good frame: the nesting bounds (which Parse derives from the capacities) do not matter -/
theorem parse_good_loc (n : Nat) {s t : Slice} (haw : AW s t) (hg : GoodFrame n t) (d d' : Nat) :
    parse d s = parse d' t := by
  unfold parse
  have hs := haw.1
  have ht := haw.2.1
  have hl := haw.len_eq
  unfold Slice.WF at hs ht
  unfold Slice.cap
  have e1 : max d (s.buf.length + 1) = (max d (s.buf.length + 1) - 1) + 1 := by omega
  have e2 : max d' (t.buf.length + 1) = (max d' (t.buf.length + 1) - 1) + 1 := by omega
  rw [e1, e2]
  exact parseD_good_loc n s t haw hg _ _ (by omega) (by omega)

end OFV.Model
