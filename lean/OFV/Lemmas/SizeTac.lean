/-
  OFV.Lemmas.SizeTac — small tactics and byte-count lemmas shared by the size / repeatability properties
  (Props/C06b, Props/C13): peeling `do` blocks of encoders, lengths of the fixed headers, `round8` arithmetic,
  predicates `SizeMod` (size modulo 2^16), `LenIdem` (a second Len() gives the same answer and changes nothing).
-/
import OFV.Model.All
import OFV.Lemmas.Size
namespace OFV.Model
open OFV OFV.Go

/-! ### tactics -/

/-- goal `(r >>= f) = .ok y → P`: name nothing, keep `r = .ok x` in the context, continue with `f x = .ok y → P` -/
macro "peel1" : tactic => `(tactic| (intro h; obtain ⟨x, hx, h⟩ := bind_ok_inv _ _ _ h; revert h))

/-- goal `… = .ok (bs, v2) → bs.length = L` where the left side is the final `same out v` / `.ok (out, v)` of an
    encoder whose `fill L ps = .ok out` is in the context -/
macro "fin_fill" : tactic => `(tactic| (intro h; first
  | (obtain ⟨e, _⟩ := same_ok _ _ _ _ h; subst e; exact fill_length _ _ _ (by assumption))
  | (cases h; exact fill_length _ _ _ (by assumption))))

/-- peel every bind, then conclude with `fill_length` -/
macro "size_fill" : tactic => `(tactic| ((repeat peel1); fin_fill))

/-- NX action kinds whose Len() is the stored header length and whose encoder allocates exactly that many bytes:
    proves `SizeOK l m v` -/
macro "nx_size" l:ident m:ident : tactic => `(tactic| (
  intro l v1 bs v2 h1 h2
  unfold $m at h2
  split at h2
  · simp only [$l:ident] at h1
    obtain ⟨l', hl, h1⟩ := bind_ok_inv _ _ _ h1
    obtain ⟨e1, e2⟩ := same_ok _ _ _ _ h1
    subst e1; subst e2
    simp only [hl, Res.bind_ok] at h2
    revert h2; size_fill
  · exact absurd h2 (by simp)))

/-! ### predicates -/

/-- the reported size is the encoded size modulo 2^16 (Len() computes in uint16; an encoding built with `append`
    is not bounded by it) -/
def SizeMod (lenM : V → R (UInt16 × V)) (marshalM : V → R (Bytes × V)) (v : V) : Prop :=
  ∀ l v1 bs v2, lenM v = .ok (l, v1) → marshalM v = .ok (bs, v2) → l.toNat = bs.length % 65536

theorem SizeOK.toMod {lenM marshalM v} (h : SizeOK lenM marshalM v) : SizeMod lenM marshalM v := by
  intro l v1 bs v2 h1 h2
  have := h l v1 bs v2 h1 h2
  have hl := l.toNat_lt
  omega

theorem SizeMod.toOK {lenM marshalM v} (h : SizeMod lenM marshalM v) :
    ∀ l v1 bs v2, lenM v = .ok (l, v1) → marshalM v = .ok (bs, v2) → bs.length < 65536 → bs.length = l.toNat := by
  intro l v1 bs v2 h1 h2 hlt
  have := h l v1 bs v2 h1 h2
  omega

/-- a second Len() on the value the first one left behind gives the same answer and changes nothing further -/
def LenIdem (lenM : V → R (UInt16 × V)) (v : V) : Prop :=
  ∀ l v1, lenM v = .ok (l, v1) → lenM v1 = .ok (l, v1)

/-- Len() does not modify the value -/
def LenPure (lenM : V → R (UInt16 × V)) (v : V) : Prop :=
  ∀ l v1, lenM v = .ok (l, v1) → v1 = v

theorem LenPure.idem {lenM v} (h : LenPure lenM v) : LenIdem lenM v := by
  intro l v1 h1
  have := h l v1 h1
  subst this
  exact h1

/-! ### fixed headers -/

theorem ActionHeader.bytes_length (h : V) (b : Bytes) (hb : ActionHeader.bytes h = .ok b) : b.length = 4 := by
  unfold ActionHeader.bytes at hb
  split at hb
  · cases hb; simp
  · exact absurd hb (by simp)

theorem NXActionHeader.bytes_length (h : V) (b : Bytes) (hb : NXActionHeader.bytes h = .ok b) : b.length = 10 := by
  unfold NXActionHeader.bytes at hb
  split at hb
  · obtain ⟨x, _, hb⟩ := bind_ok_inv _ _ _ hb
    exact fill_length _ _ _ hb
  · exact absurd hb (by simp)

theorem Header.bytes_length (h : V) (b : Bytes) (hb : Header.bytes h = .ok b) : b.length = 8 := by
  unfold Header.bytes at hb
  split at hb
  · cases hb; simp
  · exact absurd hb (by simp)

theorem InstrHeader.bytes_length (h : V) (b : Bytes) (hb : InstrHeader.bytes h = .ok b) : b.length = 4 := by
  unfold InstrHeader.bytes at hb
  split at hb
  · cases hb; simp
  · exact absurd hb (by simp)

theorem HelloElemHeader.bytes_length (h : V) (b : Bytes) (hb : HelloElemHeader.bytes h = .ok b) : b.length = 4 := by
  unfold HelloElemHeader.bytes at hb
  split at hb
  · cases hb; simp
  · exact absurd hb (by simp)

/-- the nested-action loop of NXActionConnTrack writes into the buffer allocated from the stored length: it never
    changes the buffer's size -/
theorem NXActionConnTrack.marshalActs_length (sub : V → R (Bytes × V)) :
    ∀ (acts : List V) (buf : Bytes) (n : Nat) (buf' : Bytes) (acts' : List V),
      NXActionConnTrack.marshalActs sub acts buf n = .ok (buf', acts') → buf'.length = buf.length := by
  intro acts
  induction acts with
  | nil =>
    intro buf n buf' acts' h
    simp only [NXActionConnTrack.marshalActs] at h
    cases h; rfl
  | cons a as ih =>
    intro buf n buf' acts' h
    simp only [NXActionConnTrack.marshalActs] at h
    obtain ⟨⟨ab, a'⟩, _, h⟩ := bind_ok_inv _ _ _ h
    obtain ⟨b1, hb1, h⟩ := bind_ok_inv _ _ _ h
    obtain ⟨⟨b2, as'⟩, hb2, h⟩ := bind_ok_inv _ _ _ h
    cases h
    rw [ih _ _ _ _ hb2]
    exact fillFrom_length _ _ _ _ hb1

/-! ### round8 -/

theorem round8_toNat (n : UInt16) : (round8 n).toNat = ((n.toNat + 7) % 65536) / 8 * 8 := by
  unfold round8
  rw [UInt16.toNat_mul, UInt16.toNat_div, UInt16.toNat_add]
  have h8 : (8 : UInt16).toNat = 8 := rfl
  have h7 : (7 : UInt16).toNat = 7 := rfl
  rw [h8, h7]
  have := n.toNat_lt
  have h2 : (n.toNat + 7) % 2 ^ 16 / 8 * 8 < 65536 := by omega
  exact Nat.mod_eq_of_lt h2

/-- the result of `round8` is a multiple of 8 — for every input, including those where `n + 7` wraps -/
theorem round8_aligned (n : UInt16) : (round8 n).toNat % 8 = 0 := by
  rw [round8_toNat]; omega

/-- rounding twice is rounding once — for EVERY n (no overflow condition: when `n + 7` wraps the result is 0) -/
theorem round8_idem (n : UInt16) : round8 (round8 n) = round8 n := by
  apply UInt16.toNat_inj.mp
  rw [round8_toNat (round8 n), round8_toNat n]
  have := n.toNat_lt
  omega

/-- `round8` rounds UP exactly when `n ≤ 65528`; above that it returns 0 -/
theorem round8_ge (n : UInt16) (h : n.toNat ≤ 65528) : n.toNat ≤ (round8 n).toNat ∧ (round8 n).toNat < n.toNat + 8 := by
  rw [round8_toNat]; omega

theorem round8_wrap (n : UInt16) (h : 65528 < n.toNat) : round8 n = 0 := by
  apply UInt16.toNat_inj.mp
  rw [round8_toNat]
  have := n.toNat_lt
  have h0 : (0 : UInt16).toNat = 0 := rfl
  rw [h0]; omega

theorem round8_of_aligned (n : UInt16) (h : n.toNat % 8 = 0) : round8 n = n := by
  apply UInt16.toNat_inj.mp
  rw [round8_toNat]
  have := n.toNat_lt
  omega

end OFV.Model
