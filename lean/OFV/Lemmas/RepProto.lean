/-
  OFV.Lemmas.RepProto — repeatability (C13) of the packet kinds of package protocol:
    * every leaf kind (VLAN, ARP, ICMP, TCP, UDP, IGMP…, the IPv6 extension headers, DHCP, LLDP) stores nothing;
    * Ethernet, IPv4, IPv6 for ANY payload functions satisfying `ChildOK` (`repeatableW`), where IPv4.Len() forces
      IHL ≥ 5 in the receiver (idempotent, `PIPv4.ihl_stored`);
    * the `util.Message` dispatch `protoAnyLenD / protoAnyMarshalD` at every depth (`protoAny_childOK`), hence
      Ethernet / IPv4 / IPv6 with the knot tied.
-/
import OFV.Lemmas.RepCore
namespace OFV.Rep
open OFV OFV.Go OFV.Model OFV.Model.InstrAux

/-! ### kinds that store nothing -/

theorem PVLAN.pure2 (v : V) : Pure2 PVLAN.lenM PVLAN.marshalM v := ⟨by mar_pure PVLAN.lenM, by mar_pure PVLAN.marshalM⟩
theorem PARP.pure2 (v : V) : Pure2 PARP.lenM PARP.marshalM v := ⟨by mar_pure PARP.lenM, by mar_pure PARP.marshalM⟩
theorem PICMP.pure2 (v : V) : Pure2 PICMP.lenM PICMP.marshalM v := ⟨by mar_pure PICMP.lenM, by mar_pure PICMP.marshalM⟩
theorem PTCP.pure2 (v : V) : Pure2 PTCP.lenM PTCP.marshalM v := ⟨by mar_pure PTCP.lenM, by mar_pure PTCP.marshalM⟩
theorem PUDP.pure2 (v : V) : Pure2 PUDP.lenM PUDP.marshalM v := ⟨by mar_pure PUDP.lenM, by mar_pure PUDP.marshalM⟩
theorem PIGMPv1or2.pure2 (v : V) : Pure2 PIGMPv1or2.lenM PIGMPv1or2.marshalM v := ⟨by mar_pure PIGMPv1or2.lenM, by mar_pure PIGMPv1or2.marshalM⟩
theorem PIGMPv3Query.pure2 (v : V) : Pure2 PIGMPv3Query.lenM PIGMPv3Query.marshalM v := ⟨by mar_pure PIGMPv3Query.lenM, by mar_pure PIGMPv3Query.marshalM⟩
theorem PIGMPv3GroupRecord.pure2 (v : V) : Pure2 PIGMPv3GroupRecord.lenM PIGMPv3GroupRecord.marshalM v := ⟨by mar_pure PIGMPv3GroupRecord.lenM, by mar_pure PIGMPv3GroupRecord.marshalM⟩
theorem PIGMPv3MembershipReport.pure2 (v : V) : Pure2 PIGMPv3MembershipReport.lenM PIGMPv3MembershipReport.marshalM v := ⟨by mar_pure PIGMPv3MembershipReport.lenM, by mar_pure PIGMPv3MembershipReport.marshalM⟩
theorem POption.pure2 (v : V) : Pure2 POption.lenM POption.marshalM v := ⟨by mar_pure POption.lenM, by mar_pure POption.marshalM⟩
theorem PHopByHop.pure2 (v : V) : Pure2 PHopByHop.lenM PHopByHop.marshalM v := ⟨by mar_pure PHopByHop.lenM, by mar_pure PHopByHop.marshalM⟩
theorem PRouting.pure2 (v : V) : Pure2 PRouting.lenM PRouting.marshalM v := ⟨by mar_pure PRouting.lenM, by mar_pure PRouting.marshalM⟩
theorem PFragment.pure2 (v : V) : Pure2 PFragment.lenM PFragment.marshalM v := ⟨by mar_pure PFragment.lenM, by mar_pure PFragment.marshalM⟩
theorem PDHCP.pure2 (v : V) : Pure2 PDHCP.lenM protoNoMarshal v := ⟨by mar_pure PDHCP.lenM, by mar_pure protoNoMarshal⟩
theorem PLLDP.pure2 (v : V) : Pure2 PLLDP.lenM protoNoMarshal v := ⟨by mar_pure PLLDP.lenM, by mar_pure protoNoMarshal⟩

/-! ### Ethernet -/

/-- the fixed part of an Ethernet frame's size: addresses, optional VLAN tag, ethertype -/
def PEthernet.base (vlan : V) : UInt16 := (if PVLAN.vid vlan ≠ 0 then (12 : UInt16) + 4 else 12) + 2

theorem PEthernet.lenW_nil (L : V → R (UInt16 × V)) (del dst src vlan et dat : V) (hn : dat.isNil = true) :
    PEthernet.lenW L (.obj "p.Ethernet" [del, dst, src, vlan, et, dat]) =
      .ok (PEthernet.base vlan, .obj "p.Ethernet" [del, dst, src, vlan, et, dat]) := by
  simp only [PEthernet.lenW, hn, if_true, PEthernet.base]

theorem PEthernet.lenW_obj (L : V → R (UInt16 × V)) (del dst src vlan et dat : V) (hn : dat.isNil = false) :
    PEthernet.lenW L (.obj "p.Ethernet" [del, dst, src, vlan, et, dat]) =
      (L dat >>= fun r => .ok (PEthernet.base vlan + r.1, .obj "p.Ethernet" [del, dst, src, vlan, et, r.2])) := by
  simp only [PEthernet.lenW, hn, Bool.false_eq_true, if_false, PEthernet.base]

theorem PEthernet.lenW_ok (L : V → R (UInt16 × V)) (v : V) (l : UInt16) (v1 : V) (h : PEthernet.lenW L v = .ok (l, v1)) :
    ∃ del dst src vlan et dat, v = .obj "p.Ethernet" [del, dst, src, vlan, et, dat] := by
  unfold PEthernet.lenW at h
  split at h
  · exact ⟨_, _, _, _, _, _, rfl⟩
  · exact absurd h (by simp)

theorem PEthernet.lenW_idem (L : V → R (UInt16 × V)) (M : V → R (Bytes × V)) (hc : ChildOK L M) (v : V) :
    LenIdem (PEthernet.lenW L) v := by
  intro l v1 h
  obtain ⟨del, dst, src, vlan, et, dat, rfl⟩ := PEthernet.lenW_ok L v l v1 h
  by_cases hn : dat.isNil = true
  · rw [PEthernet.lenW_nil L _ _ _ _ _ _ hn] at h
    cases h
    exact PEthernet.lenW_nil L _ _ _ _ _ _ hn
  · have hn' : dat.isNil = false := by simpa using hn
    rw [PEthernet.lenW_obj L _ _ _ _ _ _ hn'] at h
    obtain ⟨⟨ld, dat'⟩, hd, h2⟩ := bind_ok_inv _ _ _ h
    cases h2
    have hd' := (hc.rep dat).lenIdem ld dat' hd
    have hnn := V.isNil_false_of_ne (hc.len_ne_nil hd)
    rw [PEthernet.lenW_obj L _ _ _ _ _ _ hnn, hd']
    rfl

/-- Ethernet frame, for ANY payload functions that are repeatable and fail on nil -/
theorem PEthernet.repeatableW (L : V → R (UInt16 × V)) (M : V → R (Bytes × V)) (hc : ChildOK L M) :
    ∀ v, Repeatable (PEthernet.lenW L) (PEthernet.marshalW L M) v := by
  apply repeatable_of_lenThen (PEthernet.lenW L)
    (fun l v => match v with
      | .obj "p.Ethernet" [del, .bytes dst, .bytes src, vlan, .num et, dat] => do
        let tagged := PVLAN.vid vlan ≠ 0
        let vb ← if tagged then PVLAN.bytes vlan else .ok []
        let pre := [pCopy dst, pCopy src] ++ (if tagged then [pCopy vb] else []) ++ [pU16 et]
        let buf ← fill l.toNat pre
        if dat.isNil then .ok (buf, v) else do
          let (b, dat') ← M dat
          let out ← fillFrom buf (piecesLen pre) [.put b]
          .ok (out, .obj "p.Ethernet" [del, .bytes dst, .bytes src, vlan, .num et, dat'])
      | _ => .panic)
  · intro v; rfl
  · exact PEthernet.lenW_idem L M hc
  · intro l v1 bs v2 hl hE
    split at hE
    · rename_i del dst src vlan et dat
      by_cases hn : dat.isNil = true
      · have e2 : v2 = .obj "p.Ethernet" [del, .bytes dst, .bytes src, vlan, .num et, dat] := by
          simp only [hn, if_true] at hE
          split at hE
          all_goals (
            obtain ⟨vb, hvb, h3⟩ := bind_ok_inv _ _ _ hE
            obtain ⟨buf, hbuf, h4⟩ := bind_ok_inv _ _ _ h3
            cases h4; rfl)
        subst e2
        exact ⟨hl, hE⟩
      · have hn' : dat.isNil = false := by simpa using hn
        rw [PEthernet.lenW_obj L _ _ _ _ _ _ hn'] at hl
        obtain ⟨⟨ld, dat'⟩, hd, hl2⟩ := bind_ok_inv _ _ _ hl
        simp only [Res.ok.injEq, Prod.mk.injEq, V.obj.injEq, List.cons.injEq, true_and, and_true] at hl2
        obtain ⟨el, e2⟩ := hl2
        subst e2
        simp only [hn', Bool.false_eq_true, if_false] at hE
        split at hE
        · rename_i ht
          obtain ⟨vb, hvb, h3⟩ := bind_ok_inv _ _ _ hE
          obtain ⟨buf, hbuf, h4⟩ := bind_ok_inv _ _ _ h3
          obtain ⟨⟨b, dat2⟩, hm, h5⟩ := bind_ok_inv _ _ _ h4
          obtain ⟨out, hout, h6⟩ := bind_ok_inv _ _ _ h5
          cases h6
          have hn2 := V.isNil_false_of_ne (hc.mar_ne_nil hm)
          have hd2 := (hc.rep _).lenAfterMar ld _ b dat2 hd hm
          have hm2 := (hc.rep _).marIdem b dat2 hm
          constructor
          · rw [PEthernet.lenW_obj L _ _ _ _ _ _ hn2, hd2, ← el]; rfl
          · simp only [if_pos ht, if_false, hvb, hbuf, Res.bind_ok, hn2, Bool.false_eq_true, hm2, hout]
        · rename_i ht
          obtain ⟨vb, hvb, h3⟩ := bind_ok_inv _ _ _ hE
          cases hvb
          obtain ⟨buf, hbuf, h4⟩ := bind_ok_inv _ _ _ h3
          obtain ⟨⟨b, dat2⟩, hm, h5⟩ := bind_ok_inv _ _ _ h4
          obtain ⟨out, hout, h6⟩ := bind_ok_inv _ _ _ h5
          cases h6
          have hn2 := V.isNil_false_of_ne (hc.mar_ne_nil hm)
          have hd2 := (hc.rep _).lenAfterMar ld _ b dat2 hd hm
          have hm2 := (hc.rep _).marIdem b dat2 hm
          constructor
          · rw [PEthernet.lenW_obj L _ _ _ _ _ _ hn2, hd2, ← el]; rfl
          · simp only [if_neg ht, if_false, hbuf, Res.bind_ok, hn2, Bool.false_eq_true, hm2, hout]
    · exact absurd hE (by simp)

/-! ### IPv4 -/

theorem PIPv4.fixIHL_idem (x : UInt8) : PIPv4.fixIHL (PIPv4.fixIHL x) = PIPv4.fixIHL x := by
  unfold PIPv4.fixIHL
  split
  · rfl
  · rfl

/-- the IHL that Len() stores, read back -/
theorem PIPv4.ihl_stored (x : UInt8) : PIPv4.fixIHL (n8 (PIPv4.fixIHL x).toNat) = PIPv4.fixIHL x := by
  have : n8 (PIPv4.fixIHL x).toNat = PIPv4.fixIHL x := by simp [n8]
  rw [this, PIPv4.fixIHL_idem]

theorem PIPv4.lenW_nil (L : V → R (UInt16 × V)) (ver : V) (ihl : Nat) (dscp ecn ln ident fl fo ttl pr cs src dst opts dat : V)
    (hn : dat.isNil = true) :
    PIPv4.lenW L (.obj "p.IPv4" [ver, .num ihl, dscp, ecn, ln, ident, fl, fo, ttl, pr, cs, src, dst, opts, dat]) =
      .ok (PIPv4.hdrLen (PIPv4.fixIHL (n8 ihl)),
        .obj "p.IPv4" [ver, V.u8 (PIPv4.fixIHL (n8 ihl)), dscp, ecn, ln, ident, fl, fo, ttl, pr, cs, src, dst, opts, dat]) := by
  simp only [PIPv4.lenW, hn, if_true]

theorem PIPv4.lenW_obj (L : V → R (UInt16 × V)) (ver : V) (ihl : Nat) (dscp ecn ln ident fl fo ttl pr cs src dst opts dat : V)
    (hn : dat.isNil = false) :
    PIPv4.lenW L (.obj "p.IPv4" [ver, .num ihl, dscp, ecn, ln, ident, fl, fo, ttl, pr, cs, src, dst, opts, dat]) =
      (L dat >>= fun r => .ok (PIPv4.hdrLen (PIPv4.fixIHL (n8 ihl)) + r.1,
        .obj "p.IPv4" [ver, V.u8 (PIPv4.fixIHL (n8 ihl)), dscp, ecn, ln, ident, fl, fo, ttl, pr, cs, src, dst, opts, r.2])) := by
  simp only [PIPv4.lenW, hn, Bool.false_eq_true, if_false]

theorem PIPv4.lenW_ok (L : V → R (UInt16 × V)) (v : V) (l : UInt16) (v1 : V) (h : PIPv4.lenW L v = .ok (l, v1)) :
    ∃ ver ihl dscp ecn ln ident fl fo ttl pr cs src dst opts dat,
      v = .obj "p.IPv4" [ver, .num ihl, dscp, ecn, ln, ident, fl, fo, ttl, pr, cs, src, dst, opts, dat] := by
  unfold PIPv4.lenW at h
  split at h
  · exact ⟨_, _, _, _, _, _, _, _, _, _, _, _, _, _, _, rfl⟩
  · exact absurd h (by simp)

/-- IPv4.Len() forces IHL ≥ 5 in the receiver: not pure, but a second call finds the value it stored -/
theorem PIPv4.lenW_idem (L : V → R (UInt16 × V)) (M : V → R (Bytes × V)) (hc : ChildOK L M) (v : V) :
    LenIdem (PIPv4.lenW L) v := by
  intro l v1 h
  obtain ⟨ver, ihl, dscp, ecn, ln, ident, fl, fo, ttl, pr, cs, src, dst, opts, dat, rfl⟩ := PIPv4.lenW_ok L v l v1 h
  by_cases hn : dat.isNil = true
  · rw [PIPv4.lenW_nil L _ _ _ _ _ _ _ _ _ _ _ _ _ _ _ hn] at h
    cases h
    rw [V.u8, PIPv4.lenW_nil L _ _ _ _ _ _ _ _ _ _ _ _ _ _ _ hn, PIPv4.ihl_stored]
    rfl
  · have hn' : dat.isNil = false := by simpa using hn
    rw [PIPv4.lenW_obj L _ _ _ _ _ _ _ _ _ _ _ _ _ _ _ hn'] at h
    obtain ⟨⟨ld, dat'⟩, hd, h2⟩ := bind_ok_inv _ _ _ h
    cases h2
    have hd' := (hc.rep dat).lenIdem ld dat' hd
    have hnn := V.isNil_false_of_ne (hc.len_ne_nil hd)
    rw [V.u8, PIPv4.lenW_obj L _ _ _ _ _ _ _ _ _ _ _ _ _ _ _ hnn, hd', PIPv4.ihl_stored]
    rfl

/-- IPv4 packet, for ANY payload functions that are repeatable and fail on nil -/
theorem PIPv4.repeatableW (L : V → R (UInt16 × V)) (M : V → R (Bytes × V)) (hc : ChildOK L M) :
    ∀ v, Repeatable (PIPv4.lenW L) (PIPv4.marshalW L M) v := by
  apply repeatable_of_lenThen (PIPv4.lenW L)
    (fun l v => match v with
      | .obj "p.IPv4" [.num ver, .num ihl, .num dscp, .num ecn, .num ln, .num ident, .num fl, .num fo, .num ttl, .num pr, .num cs,
          .bytes src, .bytes dst, opts, dat] => do
        let ob ← UBuffer.content opts
        let pre := [.put [PIPv4.packVerIHL (n8 ver) (n8 ihl)], .put [PIPv4.packDscpEcn (n8 dscp) (n8 ecn)], pU16 ln, pU16 ident,
          .put (be16 (PIPv4.packFlagsFrag (n16 fl) (n16 fo))), pU8 ttl, pU8 pr, pU16 cs,
          pCopyAdv (pIpTo4 src) 4, pCopyAdv (pIpTo4 dst) 4, pCopy ob]
        let buf ← fill l.toNat pre
        if dat.isNil then .ok (buf, v) else do
          let (b, dat') ← M dat
          let out ← fillFrom buf (piecesLen pre) [pCopy b]
          .ok (out, .obj "p.IPv4" [.num ver, .num ihl, .num dscp, .num ecn, .num ln, .num ident, .num fl, .num fo, .num ttl, .num pr,
            .num cs, .bytes src, .bytes dst, opts, dat'])
      | _ => .panic)
  · intro v; rfl
  · exact PIPv4.lenW_idem L M hc
  · intro l v1 bs v2 hl hE
    split at hE
    · rename_i ver ihl dscp ecn ln ident fl fo ttl pr cs src dst opts dat
      obtain ⟨ob, hob, h3⟩ := bind_ok_inv _ _ _ hE
      obtain ⟨buf, hbuf, h4⟩ := bind_ok_inv _ _ _ h3
      by_cases hn : dat.isNil = true
      · simp only [hn, if_true] at h4
        cases h4
        exact ⟨hl, hE⟩
      · have hn' : dat.isNil = false := by simpa using hn
        rw [PIPv4.lenW_obj L _ _ _ _ _ _ _ _ _ _ _ _ _ _ _ hn'] at hl
        obtain ⟨⟨ld, dat'⟩, hd, hl2⟩ := bind_ok_inv _ _ _ hl
        simp only [Res.ok.injEq, Prod.mk.injEq, V.obj.injEq, List.cons.injEq, true_and, and_true] at hl2
        obtain ⟨el, eihl, e2⟩ := hl2
        subst e2
        simp only [hn', Bool.false_eq_true, if_false] at h4
        obtain ⟨⟨b, dat2⟩, hm, h5⟩ := bind_ok_inv _ _ _ h4
        obtain ⟨out, hout, h6⟩ := bind_ok_inv _ _ _ h5
        cases h6
        have hn2 := V.isNil_false_of_ne (hc.mar_ne_nil hm)
        have hd2 := (hc.rep _).lenAfterMar ld _ b dat2 hd hm
        have hm2 := (hc.rep _).marIdem b dat2 hm
        constructor
        · rw [PIPv4.lenW_obj L _ _ _ _ _ _ _ _ _ _ _ _ _ _ _ hn2, hd2, ← el]
          simp only [Res.bind_ok, eihl]
        · simp only [hob, hbuf, Res.bind_ok, hn2, Bool.false_eq_true, if_false, hm2, hout]
    · exact absurd hE (by simp)

/-! ### IPv6 -/

theorem PIPv6.lenW_eq (L : V → R (UInt16 × V)) (ver tc fl ln nh hl src dst hbh rt fr dat : V) :
    PIPv6.lenW L (.obj "p.IPv6" [ver, tc, fl, ln, nh, hl, src, dst, hbh, rt, fr, dat]) =
      (PIPv6.optLen PHopByHop.len hbh >>= fun l1 => PIPv6.optLen PRouting.len rt >>= fun l2 =>
        PIPv6.optLen PFragment.len fr >>= fun l3 => L dat >>= fun r =>
        .ok (40 + l1 + l2 + l3 + r.1, .obj "p.IPv6" [ver, tc, fl, ln, nh, hl, src, dst, hbh, rt, fr, r.2])) := rfl

theorem PIPv6.lenW_ok (L : V → R (UInt16 × V)) (v : V) (l : UInt16) (v1 : V) (h : PIPv6.lenW L v = .ok (l, v1)) :
    ∃ ver tc fl ln nh hl src dst hbh rt fr dat, v = .obj "p.IPv6" [ver, tc, fl, ln, nh, hl, src, dst, hbh, rt, fr, dat] := by
  unfold PIPv6.lenW at h
  split at h
  · exact ⟨_, _, _, _, _, _, _, _, _, _, _, _, rfl⟩
  · exact absurd h (by simp)

/-- the pieces of a successful IPv6.Len() -/
theorem PIPv6.lenW_inv (L : V → R (UInt16 × V)) (ver tc fl ln nh hl src dst hbh rt fr dat : V) (l : UInt16) (v1 : V)
    (h : PIPv6.lenW L (.obj "p.IPv6" [ver, tc, fl, ln, nh, hl, src, dst, hbh, rt, fr, dat]) = .ok (l, v1)) :
    ∃ l1 l2 l3 ld dat', PIPv6.optLen PHopByHop.len hbh = .ok l1 ∧ PIPv6.optLen PRouting.len rt = .ok l2 ∧
      PIPv6.optLen PFragment.len fr = .ok l3 ∧ L dat = .ok (ld, dat') ∧ l = 40 + l1 + l2 + l3 + ld ∧
      v1 = .obj "p.IPv6" [ver, tc, fl, ln, nh, hl, src, dst, hbh, rt, fr, dat'] := by
  rw [PIPv6.lenW_eq] at h
  obtain ⟨l1, h1, g1⟩ := bind_ok_inv _ _ _ h
  obtain ⟨l2, h2, g2⟩ := bind_ok_inv _ _ _ g1
  obtain ⟨l3, h3, g3⟩ := bind_ok_inv _ _ _ g2
  obtain ⟨⟨ld, dat'⟩, h4, g4⟩ := bind_ok_inv _ _ _ g3
  cases g4
  exact ⟨l1, l2, l3, ld, dat', h1, h2, h3, h4, rfl, rfl⟩

theorem PIPv6.lenW_build (L : V → R (UInt16 × V)) (ver tc fl ln nh hl src dst hbh rt fr dat : V) (l1 l2 l3 ld : UInt16) (dat' : V)
    (h1 : PIPv6.optLen PHopByHop.len hbh = .ok l1) (h2 : PIPv6.optLen PRouting.len rt = .ok l2)
    (h3 : PIPv6.optLen PFragment.len fr = .ok l3) (h4 : L dat = .ok (ld, dat')) :
    PIPv6.lenW L (.obj "p.IPv6" [ver, tc, fl, ln, nh, hl, src, dst, hbh, rt, fr, dat]) =
      .ok (40 + l1 + l2 + l3 + ld, .obj "p.IPv6" [ver, tc, fl, ln, nh, hl, src, dst, hbh, rt, fr, dat']) := by
  rw [PIPv6.lenW_eq, h1, h2, h3, h4]; rfl

theorem PIPv6.lenW_idem (L : V → R (UInt16 × V)) (M : V → R (Bytes × V)) (hc : ChildOK L M) (v : V) :
    LenIdem (PIPv6.lenW L) v := by
  intro l v1 h
  obtain ⟨ver, tc, fl, ln, nh, hl, src, dst, hbh, rt, fr, dat, rfl⟩ := PIPv6.lenW_ok L v l v1 h
  obtain ⟨l1, l2, l3, ld, dat', h1, h2, h3, h4, rfl, rfl⟩ := PIPv6.lenW_inv L _ _ _ _ _ _ _ _ _ _ _ _ l v1 h
  exact PIPv6.lenW_build L _ _ _ _ _ _ _ _ _ _ _ _ _ _ _ _ _ h1 h2 h3 ((hc.rep dat).lenIdem ld dat' h4)

/-- IPv6 packet (with its extension headers), for ANY payload functions that are repeatable and fail on nil -/
theorem PIPv6.repeatableW (L : V → R (UInt16 × V)) (M : V → R (Bytes × V)) (hc : ChildOK L M) :
    ∀ v, Repeatable (PIPv6.lenW L) (PIPv6.marshalW L M) v := by
  apply repeatable_of_lenThen (PIPv6.lenW L)
    (fun l v => match v with
      | .obj "p.IPv6" [.num ver, .num tc, .num fl, .num ln, .num nh, .num hl, .bytes src, .bytes dst, hbh, rt, fr, dat] => do
        let pre := [.put [PIPv6.packB0 (n8 ver) (n8 tc)], .put [PIPv6.packB1 (n8 tc) (n32 fl)], .put (be16 (PIPv6.packLo (n32 fl))), pU16 ln,
          pU8 nh, pU8 hl, pCopyAdv src 16, pCopyAdv dst 16]
        let _ ← fill l.toNat pre
        let chain ← PIPv6.extChain hbh rt fr (l.toNat / 8 + 2) (n8 nh)
        let pre2 := pre ++ chain.map pCopy ++ [pCopy []]
        let buf ← fill l.toNat pre2
        if dat.isNil then .ok (buf, v) else do
          let (b, dat') ← M dat
          let out ← fillFrom buf (piecesLen pre2) [pCopy b]
          .ok (out, .obj "p.IPv6" [.num ver, .num tc, .num fl, .num ln, .num nh, .num hl, .bytes src, .bytes dst, hbh, rt, fr, dat'])
      | _ => .panic)
  · intro v; rfl
  · exact PIPv6.lenW_idem L M hc
  · intro l v1 bs v2 hl hE
    split at hE
    · rename_i ver tc fl ln nh hl0 src dst hbh rt fr dat
      obtain ⟨b0, hb0, h3⟩ := bind_ok_inv _ _ _ hE
      obtain ⟨chain, hch, h4⟩ := bind_ok_inv _ _ _ h3
      obtain ⟨buf, hbuf, h5⟩ := bind_ok_inv _ _ _ h4
      by_cases hn : dat.isNil = true
      · simp only [hn, if_true] at h5
        cases h5
        exact ⟨hl, hE⟩
      · have hn' : dat.isNil = false := by simpa using hn
        obtain ⟨l1, l2, l3, ld, dat', h1, h2, h3', hd, el, e1⟩ := PIPv6.lenW_inv L _ _ _ _ _ _ _ _ _ _ _ _ l _ hl
        simp only [V.obj.injEq, List.cons.injEq, true_and, and_true] at e1
        subst e1
        simp only [hn', Bool.false_eq_true, if_false] at h5
        obtain ⟨⟨b, dat2⟩, hm, h6⟩ := bind_ok_inv _ _ _ h5
        obtain ⟨out, hout, h7⟩ := bind_ok_inv _ _ _ h6
        cases h7
        have hn2 := V.isNil_false_of_ne (hc.mar_ne_nil hm)
        have hd2 := (hc.rep _).lenAfterMar ld _ b dat2 hd hm
        have hm2 := (hc.rep _).marIdem b dat2 hm
        constructor
        · rw [el]; exact PIPv6.lenW_build L _ _ _ _ _ _ _ _ _ _ _ _ _ _ _ _ _ h1 h2 h3' hd2
        · simp only [hb0, hch, hbuf, Res.bind_ok, hn2, Bool.false_eq_true, if_false, hm2, hout]
    · exact absurd hE (by simp)

/-! ### the `util.Message` dispatch of package protocol -/

theorem PEthernet.lenW_kind (L : V → R (UInt16 × V)) : LenKind "p.Ethernet" (PEthernet.lenW L) := by kind_tac PEthernet.lenW
theorem PEthernet.marshalW_kind (L : V → R (UInt16 × V)) (M : V → R (Bytes × V)) : MarKind "p.Ethernet" (PEthernet.marshalW L M) := by
  kind_tac PEthernet.marshalW
theorem PIPv4.lenW_kind (L : V → R (UInt16 × V)) : LenKind "p.IPv4" (PIPv4.lenW L) := by kind_tac PIPv4.lenW
theorem PIPv4.marshalW_kind (L : V → R (UInt16 × V)) (M : V → R (Bytes × V)) : MarKind "p.IPv4" (PIPv4.marshalW L M) := by
  kind_tac PIPv4.marshalW
theorem PIPv6.lenW_kind (L : V → R (UInt16 × V)) : LenKind "p.IPv6" (PIPv6.lenW L) := by kind_tac PIPv6.lenW
theorem PIPv6.marshalW_kind (L : V → R (UInt16 × V)) (M : V → R (Bytes × V)) : MarKind "p.IPv6" (PIPv6.marshalW L M) := by
  kind_tac PIPv6.marshalW

/-- one arm of the dispatch -/
theorem proto_arm (d : Nat) (k : String) (L' : V → R (UInt16 × V)) (M' : V → R (Bytes × V)) (v : V) (hv : v.kind = k)
    (hL : ∀ w, w.kind = k → protoAnyLenD (d + 1) w = L' w) (hM : ∀ w, w.kind = k → protoAnyMarshalD (d + 1) w = M' w)
    (hkl : LenKind k L') (hkm : MarKind k M') (hr : Repeatable L' M' v) :
    Repeatable (protoAnyLenD (d + 1)) (protoAnyMarshalD (d + 1)) v :=
  Repeatable.of_dispatch (fun w => w.kind = k) hv hL hM (fun l w1 h => hkl v l w1 hv h) (fun bs w2 h => hkm v bs w2 hv h) hr

/-- one arm of the dispatch: a kind that stores nothing -/
theorem proto_arm_pure (d : Nat) (k : String) (L' : V → R (UInt16 × V)) (M' : V → R (Bytes × V)) (v : V) (hv : v.kind = k)
    (hL : ∀ w, w.kind = k → protoAnyLenD (d + 1) w = L' w) (hM : ∀ w, w.kind = k → protoAnyMarshalD (d + 1) w = M' w)
    (hp : ∀ w, Pure2 L' M' w) :
    Repeatable (protoAnyLenD (d + 1)) (protoAnyMarshalD (d + 1)) v :=
  proto_arm d k L' M' v hv hL hM (LenKind.of_pure fun w => (hp w).1) (MarKind.of_pure fun w => (hp w).2) (hp v).repeatable

theorem protoAnyLenD_nil (d : Nat) (r : UInt16 × V) : protoAnyLenD d .nil ≠ .ok r := by
  cases d <;> simp [protoAnyLenD, V.kind]
theorem protoAnyMarshalD_nil (d : Nat) (r : Bytes × V) : protoAnyMarshalD d .nil ≠ .ok r := by
  cases d <;> simp [protoAnyMarshalD, V.kind]

/-- Len() / MarshalBinary() through the `util.Message` interface of package protocol (what an Ethernet frame, an IPv4
    or IPv6 packet calls on its payload): repeatable for EVERY value, at every nesting depth -/
theorem protoAny_childOK : ∀ d, ChildOK (protoAnyLenD d) (protoAnyMarshalD d) := by
  intro d
  induction d with
  | zero =>
    exact ⟨fun a => Repeatable.of_fail (fun r => by simp [protoAnyLenD]) (fun r => by simp [protoAnyMarshalD]),
      protoAnyLenD_nil 0, protoAnyMarshalD_nil 0⟩
  | succ d ih =>
    refine ⟨?_, protoAnyLenD_nil _, protoAnyMarshalD_nil _⟩
    intro v
    by_cases h1 : v.kind = "p.Ethernet"
    · exact proto_arm d _ _ _ v h1 (fun w hw => by unfold protoAnyLenD; simp only [hw])
        (fun w hw => by unfold protoAnyMarshalD; simp only [hw]) (PEthernet.lenW_kind _) (PEthernet.marshalW_kind _ _)
        (PEthernet.repeatableW _ _ ih v)
    by_cases h2 : v.kind = "p.IPv4"
    · exact proto_arm d _ _ _ v h2 (fun w hw => by unfold protoAnyLenD; simp only [hw])
        (fun w hw => by unfold protoAnyMarshalD; simp only [hw]) (PIPv4.lenW_kind _) (PIPv4.marshalW_kind _ _)
        (PIPv4.repeatableW _ _ ih v)
    by_cases h3 : v.kind = "p.IPv6"
    · exact proto_arm d _ _ _ v h3 (fun w hw => by unfold protoAnyLenD; simp only [hw])
        (fun w hw => by unfold protoAnyMarshalD; simp only [hw]) (PIPv6.lenW_kind _) (PIPv6.marshalW_kind _ _)
        (PIPv6.repeatableW _ _ ih v)
    by_cases h4 : v.kind = "u.Buffer"
    · exact proto_arm_pure d _ _ _ v h4 (fun w hw => by unfold protoAnyLenD; simp only [hw])
        (fun w hw => by unfold protoAnyMarshalD; simp only [hw]) Props.C13.uBuffer_pure
    by_cases h5 : v.kind = "p.VLAN"
    · exact proto_arm_pure d _ _ _ v h5 (fun w hw => by unfold protoAnyLenD; simp only [hw])
        (fun w hw => by unfold protoAnyMarshalD; simp only [hw]) PVLAN.pure2
    by_cases h6 : v.kind = "p.ARP"
    · exact proto_arm_pure d _ _ _ v h6 (fun w hw => by unfold protoAnyLenD; simp only [hw])
        (fun w hw => by unfold protoAnyMarshalD; simp only [hw]) PARP.pure2
    by_cases h7 : v.kind = "p.ICMP"
    · exact proto_arm_pure d _ _ _ v h7 (fun w hw => by unfold protoAnyLenD; simp only [hw])
        (fun w hw => by unfold protoAnyMarshalD; simp only [hw]) PICMP.pure2
    by_cases h8 : v.kind = "p.TCP"
    · exact proto_arm_pure d _ _ _ v h8 (fun w hw => by unfold protoAnyLenD; simp only [hw])
        (fun w hw => by unfold protoAnyMarshalD; simp only [hw]) PTCP.pure2
    by_cases h9 : v.kind = "p.UDP"
    · exact proto_arm_pure d _ _ _ v h9 (fun w hw => by unfold protoAnyLenD; simp only [hw])
        (fun w hw => by unfold protoAnyMarshalD; simp only [hw]) PUDP.pure2
    by_cases h10 : v.kind = "p.IGMPv1or2"
    · exact proto_arm_pure d _ _ _ v h10 (fun w hw => by unfold protoAnyLenD; simp only [hw])
        (fun w hw => by unfold protoAnyMarshalD; simp only [hw]) PIGMPv1or2.pure2
    by_cases h11 : v.kind = "p.IGMPv3Query"
    · exact proto_arm_pure d _ _ _ v h11 (fun w hw => by unfold protoAnyLenD; simp only [hw])
        (fun w hw => by unfold protoAnyMarshalD; simp only [hw]) PIGMPv3Query.pure2
    by_cases h12 : v.kind = "p.IGMPv3GroupRecord"
    · exact proto_arm_pure d _ _ _ v h12 (fun w hw => by unfold protoAnyLenD; simp only [hw])
        (fun w hw => by unfold protoAnyMarshalD; simp only [hw]) PIGMPv3GroupRecord.pure2
    by_cases h13 : v.kind = "p.IGMPv3MembershipReport"
    · exact proto_arm_pure d _ _ _ v h13 (fun w hw => by unfold protoAnyLenD; simp only [hw])
        (fun w hw => by unfold protoAnyMarshalD; simp only [hw]) PIGMPv3MembershipReport.pure2
    by_cases h14 : v.kind = "p.Option"
    · exact proto_arm_pure d _ _ _ v h14 (fun w hw => by unfold protoAnyLenD; simp only [hw])
        (fun w hw => by unfold protoAnyMarshalD; simp only [hw]) POption.pure2
    by_cases h15 : v.kind = "p.HopByHopHeader"
    · exact proto_arm_pure d _ _ _ v h15 (fun w hw => by unfold protoAnyLenD; simp only [hw])
        (fun w hw => by unfold protoAnyMarshalD; simp only [hw]) PHopByHop.pure2
    by_cases h16 : v.kind = "p.RoutingHeader"
    · exact proto_arm_pure d _ _ _ v h16 (fun w hw => by unfold protoAnyLenD; simp only [hw])
        (fun w hw => by unfold protoAnyMarshalD; simp only [hw]) PRouting.pure2
    by_cases h17 : v.kind = "p.FragmentHeader"
    · exact proto_arm_pure d _ _ _ v h17 (fun w hw => by unfold protoAnyLenD; simp only [hw])
        (fun w hw => by unfold protoAnyMarshalD; simp only [hw]) PFragment.pure2
    apply Repeatable.of_fail
    · intro r
      unfold protoAnyLenD
      split <;> first | contradiction | simp
    · intro r
      unfold protoAnyMarshalD
      split <;> first | contradiction | simp

/-! ### the knot tied -/

/-- an Ethernet frame carrying any packet -/
theorem PEthernet.repeatable (v : V) : Repeatable PEthernet.lenM PEthernet.marshalM v :=
  PEthernet.repeatableW _ _ (protoAny_childOK _) v
/-- an IPv4 packet carrying any payload -/
theorem PIPv4.repeatable (v : V) : Repeatable PIPv4.lenM PIPv4.marshalM v :=
  PIPv4.repeatableW _ _ (protoAny_childOK _) v
/-- an IPv6 packet carrying any payload -/
theorem PIPv6.repeatable (v : V) : Repeatable PIPv6.lenM PIPv6.marshalM v :=
  PIPv6.repeatableW _ _ (protoAny_childOK _) v

theorem PEthernet.lenM_kind : LenKind "p.Ethernet" PEthernet.lenM := PEthernet.lenW_kind _
theorem PEthernet.marshalM_kind : MarKind "p.Ethernet" PEthernet.marshalM := PEthernet.marshalW_kind _ _
theorem PIPv4.lenM_kind : LenKind "p.IPv4" PIPv4.lenM := PIPv4.lenW_kind _
theorem PIPv4.marshalM_kind : MarKind "p.IPv4" PIPv4.marshalM := PIPv4.marshalW_kind _ _
theorem PIPv6.lenM_kind : LenKind "p.IPv6" PIPv6.lenM := PIPv6.lenW_kind _
theorem PIPv6.marshalM_kind : MarKind "p.IPv6" PIPv6.marshalM := PIPv6.marshalW_kind _ _

/-- IPv4.Len() is NOT pure: on a fresh `NewIPv4()` (IHL = 0) it stores IHL = 5 -/
theorem PIPv4.lenM_not_pure : ∃ v l v1, PIPv4.lenM v = .ok (l, v1) ∧ v1 ≠ v :=
  ⟨PIPv4.new, 20, _, rfl, by
    intro h
    simp only [PIPv4.new, V.u8, V.obj.injEq, List.cons.injEq, V.num.injEq, true_and, and_true] at h
    revert h; decide⟩

end OFV.Rep
