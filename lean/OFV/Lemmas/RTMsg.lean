/-
  OFV.Lemmas.RTMsg — round trip of the OpenFlow header and of the header-only messages through Parse.
  Used by OFV/Props/C05.lean.
-/
import OFV.Model.All
import OFV.Lemmas.Size
import OFV.Lemmas.RTBasic
namespace OFV.RT
set_option linter.unusedSimpArgs false
open OFV OFV.Go OFV.Model

/-- header with every field inside its width -/
def HeaderWF : V → Prop
  | .obj "Header" [.num ver, .num ty, .num ln, .num xid] => ver < 256 ∧ ty < 256 ∧ ln < 65536 ∧ xid < 4294967296
  | _ => False

theorem header_roundtrip (ver ty ln xid : Nat) (hv : ver < 256) (ht : ty < 256) (hl : ln < 65536)
    (hx : xid < 4294967296) :
    let h := V.obj "Header" [.num ver, .num ty, .num ln, .num xid]
    let bs := [n8 ver, n8 ty] ++ be16 (n16 ln) ++ be32 (n32 xid)
    Header.marshalM h = .ok (bs, h) ∧ bs.length = 8 ∧
    ∀ (recv : V) (data : Slice) (tail : Bytes), data.WF → data.bytes = bs ++ tail →
      Header.unmarshal recv data = .ok h := by
  intro h bs
  refine ⟨rfl, rfl, ?_⟩
  intro recv data tail hd hb
  have hlen := Slice.len_ge_of_bytes data _ _ hb
  have hlen8 : 8 ≤ data.len := by
    have : bs.length = 8 := rfl
    omega
  unfold Header.unmarshal
  rw [if_neg (by omega)]
  have e0 : data.bytes[0]? = some (n8 ver) := by rw [hb]; rfl
  have e1 : data.bytes[1]? = some (n8 ty) := by rw [hb]; rfl
  have e2 : rd16 ((data.bytes.drop 2).take (4 - 2)) = some (n16 ln) := by
    rw [hb]
    have : (List.drop 2 (bs ++ tail)).take (4 - 2) = be16 (n16 ln) := rfl
    rw [this]; exact rd16_be16' _
  have e4 : rd32 ((data.bytes.drop 4).take (8 - 4)) = some (n32 xid) := by
    rw [hb]
    have : (List.drop 4 (bs ++ tail)).take (8 - 4) = be32 (n32 xid) := rfl
    rw [this]; exact rd32_be32' _
  simp only [Slice.byteAt_eq, Slice.u16In_eq data hd 2 4 (by omega) (by omega),
    Slice.u32In_eq data hd 4 8 (by omega) (by omega), e0, e1, e2, e4, Res.ofOption, Res.bind_ok, Res.pure_eq,
    u8_n8 ver hv, u8_n8 ty ht, u16_n16 ln hl, u32_n32 xid hx]
  rfl


/-- the message types that are a bare header for Parse -/
def HeaderOnlyType (ty : Nat) : Prop :=
  ty = Gen.openflow13.Type_EchoRequest ∨ ty = Gen.openflow13.Type_EchoReply ∨
  ty = Gen.openflow13.Type_GetConfigRequest ∨ ty = Gen.openflow13.Type_BarrierRequest ∨
  ty = Gen.openflow13.Type_BarrierReply ∨ ty = Gen.openflow13.Type_FeaturesRequest

theorem parse_header_only (ver ty ln xid : Nat) (hv : ver < 256) (hty : HeaderOnlyType ty) (hl : ln < 65536)
    (hx : xid < 4294967296) (depth : Nat) (data : Slice) (tail : Bytes) (hd : data.WF)
    (hb : data.bytes = ([n8 ver, n8 ty] ++ be16 (n16 ln) ++ be32 (n32 xid)) ++ tail) :
    parse depth data = .ok (.obj "Header" [.num ver, .num ty, .num ln, .num xid]) := by
  have ht : ty < 256 := by
    unfold HeaderOnlyType at hty
    rcases hty with h | h | h | h | h | h <;> (rw [h]; decide)
  obtain ⟨_, _, hdec⟩ := header_roundtrip ver ty ln xid hv ht hl hx
  unfold parse
  obtain ⟨k, hk⟩ : ∃ k, max depth (data.cap + 1) = k + 1 := ⟨max depth (data.cap + 1) - 1, by omega⟩
  rw [hk]
  unfold parseD parseStep
  have e1 : data.bytes[1]? = some (n8 ty) := by rw [hb]; rfl
  simp only [Slice.byteAt_eq, e1, Res.ofOption, Res.bind_ok, n8_toNat ty ht]
  unfold HeaderOnlyType at hty
  rcases hty with h | h | h | h | h | h <;> subst h <;>
    simp only [Gen.openflow13.Type_EchoRequest, Gen.openflow13.Type_EchoReply, Gen.openflow13.Type_GetConfigRequest,
      Gen.openflow13.Type_BarrierRequest, Gen.openflow13.Type_BarrierReply, Gen.openflow13.Type_FeaturesRequest,
      Gen.openflow13.Type_Hello, Gen.openflow13.Type_Error, Gen.openflow13.Type_Experimenter,
      Nat.reduceEqDiff, reduceIte, if_false, if_true, or_true, true_or, or_false, false_or, or_self] <;>
    (rw [hdec _ data tail hd hb]; rfl)

end OFV.RT
