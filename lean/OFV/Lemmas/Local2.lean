/-
  OFV.Lemmas.Local2 — frame locality of the OpenFlow decoders (`OFV.Model.OF.Header`, `OFV.Model.OF.Msg`), continuing
  `OFV.Lemmas.Local`.

  Unlike the packet decoders, several OpenFlow decoders re-slice their argument WITHOUT first checking the window
  against `len`; Go then only checks the capacity, so the decoder reads what the backing array holds behind the frame:
    * `Header.UnmarshalBinary` (common/header.go:56-62) checks `len(data) < 4` but reads `data[4:8]`;
    * `HelloElemVersionBitmap.UnmarshalBinary` (common/header.go:158) reads `data[:4]` unchecked;
    * `TLVTableReply.UnmarshalBinary` (openflow13/nxt_message.go:223) reads `data[n:n+10]` unchecked, and its loop
      `for n < len(data)` is simply skipped on a short slice.
  For these the locality statement is FALSE (`…_not_local_counterexample`); the provable part (`…_local_partial`) needs
  the length bound that the Go code forgot to check.
-/
import OFV.Lemmas.Local
import OFV.Model.OF.Msg
namespace OFV.Model
open OFV OFV.Go OFV.Go.Slice

/-- two loops whose bodies coincide on every state that satisfies the loop condition compute the same -/
theorem goLoop_congr {σ} (cond : σ → Bool) (cursor : σ → Nat) (body body' : σ → R σ)
    (h : ∀ st, cond st = true → body st = body' st) :
    ∀ fuel st, goLoop fuel cond cursor body st = goLoop fuel cond cursor body' st := by
  intro fuel
  induction fuel with
  | zero => intro st; rfl
  | succ f ih =>
    intro st
    unfold goLoop
    by_cases hc : cond st = true
    · simp only [hc, if_true]
      rw [h st hc]
      cases body' st with
      | ok s' => simp only []; split
                 · rfl
                 · exact ih _
      | err => rfl
      | panic => rfl
      | spin => rfl
    · simp only [hc]; rfl

/-! ### common/header.go -/

/-- the header decoder on agreeing slices that hold a whole header (or fewer than 4 bytes: an error) -/
theorem Header_loc_partial (recv : V) {s t : Slice} (haw : AW s t) (h8 : t.len < 4 ∨ 8 ≤ t.len) :
    Header.unmarshal recv s = Header.unmarshal recv t := by
  unfold Header.unmarshal
  loc_norm haw
  repeat' loc_step haw

def hdrCexS : Slice := ⟨[4, 0, 0, 8, 0, 0, 0, 1], 4⟩
def hdrCexT : Slice := ⟨[4, 0, 0, 8, 0, 0, 0, 2], 4⟩

theorem hdrCex_agree : hdrCexS.WF ∧ hdrCexT.WF ∧ hdrCexS.Agree hdrCexT := by
  unfold WF Agree; decide

theorem hdrCexS_eval : Header.unmarshal Header.zero hdrCexS = .ok (.obj "Header" [.num 4, .num 0, .num 8, .num 1]) := by rfl
theorem hdrCexT_eval : Header.unmarshal Header.zero hdrCexT = .ok (.obj "Header" [.num 4, .num 0, .num 8, .num 2]) := by rfl

/-- FALSE in general: a 4-byte slice `04 00 00 08` is decoded (no error: only `len < 4` is refused) and its Xid is read
    from `data[4:8]`, i.e. from behind the slice: `00 00 00 01` gives Xid 1, `00 00 00 02` gives Xid 2. -/
theorem Header_not_local_counterexample :
    hdrCexS.WF ∧ hdrCexT.WF ∧ hdrCexS.Agree hdrCexT ∧
    Header.unmarshal Header.zero hdrCexS ≠ Header.unmarshal Header.zero hdrCexT := by
  refine ⟨hdrCex_agree.1, hdrCex_agree.2.1, hdrCex_agree.2.2, ?_⟩
  rw [hdrCexS_eval, hdrCexT_eval]; intro h; simp at h

theorem HelloElemHeader_loc (recv : V) {s t : Slice} (haw : AW s t) :
    HelloElemHeader.unmarshal recv s = HelloElemHeader.unmarshal recv t := by
  unfold HelloElemHeader.unmarshal
  loc_norm haw
  repeat' loc_step haw

/-- the version-bitmap element on agreeing slices of at least 4 bytes -/
theorem HelloElemVersionBitmap_loc_partial (recv : V) {s t : Slice} (haw : AW s t) (h4 : 4 ≤ t.len) :
    HelloElemVersionBitmap.unmarshal recv s = HelloElemVersionBitmap.unmarshal recv t := by
  unfold HelloElemVersionBitmap.unmarshal
  loc_norm haw
  apply Slice.uptoR_bind_loc haw _ _ _ h4
  intro x y hxy
  rw [HelloElemHeader_loc _ hxy]
  repeat' loc_step haw
  rename_i hdr hlen
  apply Res.bind_congr2 _ (fun _ => rfl)
  -- inside the loop `read + 4 ≤ length ≤ len`
  apply goLoop_congr
  intro st hc
  simp only [decide_eq_true_eq] at hc
  rw [Slice.u32In_loc haw _ _ (by omega)]

def vbmCexS : Slice := ⟨[0, 1, 0, 0], 0⟩
def vbmCexT : Slice := ⟨[0, 2, 0, 0], 0⟩
theorem vbmCex_agree : vbmCexS.WF ∧ vbmCexT.WF ∧ vbmCexS.Agree vbmCexT := by
  unfold WF Agree; decide
theorem vbmCexS_eval : HelloElemVersionBitmap.unmarshal HelloElemVersionBitmap.new vbmCexS =
    .ok (.obj "HelloElemVersionBitmap" [.obj "HelloElemHeader" [.num 1, .num 0], .list []]) := by rfl
theorem vbmCexT_eval : HelloElemVersionBitmap.unmarshal HelloElemVersionBitmap.new vbmCexT =
    .ok (.obj "HelloElemVersionBitmap" [.obj "HelloElemHeader" [.num 2, .num 0], .list []]) := by rfl

/-- FALSE in general: on an EMPTY slice the element header is read from `data[:4]` behind the slice; with a stale
    Length of 0 the element is accepted and its Type is whatever the buffer held. -/
theorem HelloElemVersionBitmap_not_local_counterexample :
    vbmCexS.WF ∧ vbmCexT.WF ∧ vbmCexS.Agree vbmCexT ∧
    HelloElemVersionBitmap.unmarshal HelloElemVersionBitmap.new vbmCexS ≠
      HelloElemVersionBitmap.unmarshal HelloElemVersionBitmap.new vbmCexT := by
  refine ⟨vbmCex_agree.1, vbmCex_agree.2.1, vbmCex_agree.2.2, ?_⟩
  rw [vbmCexS_eval, vbmCexT_eval]; intro h; simp at h

/-! ### openflow13: simple messages.  The OpenFlow header is decoded first, so the frame must hold its 8 bytes -/

theorem msgTryU_Header_loc (recv : V) {s t : Slice} (haw : AW s t) (h8 : 8 ≤ t.len) :
    msgTryU Header.unmarshal recv s = msgTryU Header.unmarshal recv t := by
  unfold msgTryU
  rw [Header_loc_partial recv haw (Or.inr h8)]

theorem SwitchConfig_loc (recv : V) {s t : Slice} (haw : AW s t) (h8 : 8 ≤ t.len) :
    SwitchConfig.unmarshal recv s = SwitchConfig.unmarshal recv t := by
  unfold SwitchConfig.unmarshal
  loc_norm haw
  simp only [msgTryU_Header_loc _ haw h8]

theorem ErrorMsg_loc (recv : V) {s t : Slice} (haw : AW s t) (h8 : 8 ≤ t.len) :
    ErrorMsg.unmarshal recv s = ErrorMsg.unmarshal recv t := by
  unfold ErrorMsg.unmarshal
  loc_norm haw
  simp only [msgTryU_Header_loc _ haw h8]
  split
  · repeat' loc_step haw
  · rfl

theorem VendorError_loc (recv : V) {s t : Slice} (haw : AW s t) (h8 : 8 ≤ t.len) :
    VendorError.unmarshal recv s = VendorError.unmarshal recv t := by
  unfold VendorError.unmarshal
  loc_norm haw
  simp only [Header_loc_partial _ haw (Or.inr h8)]
  split
  · repeat' loc_step haw
  · rfl

theorem ControllerID_loc (recv : V) {s t : Slice} (haw : AW s t) :
    ControllerID.unmarshal recv s = ControllerID.unmarshal recv t := by
  unfold ControllerID.unmarshal
  loc_norm haw

theorem BundleControl_loc (recv : V) {s t : Slice} (haw : AW s t) :
    BundleControl.unmarshal recv s = BundleControl.unmarshal recv t := by
  unfold BundleControl.unmarshal
  loc_norm haw

theorem BundlePropertyExperimenter_loc (recv : V) {s t : Slice} (haw : AW s t) :
    BundlePropertyExperimenter.unmarshal recv s = BundlePropertyExperimenter.unmarshal recv t := by
  unfold BundlePropertyExperimenter.unmarshal
  loc_norm haw
  repeat' loc_step haw
  rename_i hc
  simp only [Bool.or_eq_true, decide_eq_true_eq, not_or, Nat.not_lt] at hc
  repeat' loc_step haw

theorem TLVTableMap_loc (recv : V) {s t : Slice} (haw : AW s t) :
    TLVTableMap.unmarshal recv s = TLVTableMap.unmarshal recv t := by
  unfold TLVTableMap.unmarshal
  loc_norm haw

theorem TLVTableMap_decodeList_loc {s t : Slice} (haw : AW s t) (n : Nat) (ms : List V) :
    TLVTableMap.decodeList s n ms = TLVTableMap.decodeList t n ms := by
  unfold TLVTableMap.decodeList
  loc_norm haw
  apply Res.bind_congr2 _ (fun _ => rfl)
  apply goLoop_congr
  intro st _
  apply Slice.fromR_bind_loc haw; intro x y hxy
  rw [TLVTableMap_loc _ hxy]

theorem TLVTableMod_loc (recv : V) {s t : Slice} (haw : AW s t) :
    TLVTableMod.unmarshal recv s = TLVTableMod.unmarshal recv t := by
  unfold TLVTableMod.unmarshal
  loc_norm haw
  simp only [TLVTableMap_decodeList_loc haw]

/-- the TLV table reply on agreeing slices that hold the 16 fixed bytes -/
theorem TLVTableReply_loc_partial (recv : V) {s t : Slice} (haw : AW s t) (h16 : 16 ≤ t.len) :
    TLVTableReply.unmarshal recv s = TLVTableReply.unmarshal recv t := by
  unfold TLVTableReply.unmarshal
  loc_norm haw
  simp only [TLVTableMap_decodeList_loc haw]
  split
  · repeat' loc_step haw
  · rfl

def tlvCexS : Slice := ⟨[0, 0, 0, 1, 0, 2, 1, 1, 1, 1, 1, 1, 1, 1, 1, 1], 6⟩
def tlvCexT : Slice := ⟨[0, 0, 0, 1, 0, 2, 2, 2, 2, 2, 2, 2, 2, 2, 2, 2], 6⟩
theorem tlvCex_agree : tlvCexS.WF ∧ tlvCexT.WF ∧ tlvCexS.Agree tlvCexT := by
  unfold WF Agree; decide
theorem tlvCexS_eval : TLVTableReply.unmarshal TLVTableReply.zero tlvCexS =
    .ok (.obj "TLVTableReply" [.num 1, .num 2, .bytes [1, 1, 1, 1, 1, 1, 1, 1, 1, 1], .list []]) := by rfl
theorem tlvCexT_eval : TLVTableReply.unmarshal TLVTableReply.zero tlvCexT =
    .ok (.obj "TLVTableReply" [.num 1, .num 2, .bytes [2, 2, 2, 2, 2, 2, 2, 2, 2, 2], .list []]) := by rfl

/-- FALSE in general: a 6-byte slice is accepted (there is no length check and the map loop `for n < len(data)` is
    skipped) and the 10 reserved bytes are copied from `data[6:16]`, i.e. from behind the slice. -/
theorem TLVTableReply_not_local_counterexample :
    tlvCexS.WF ∧ tlvCexT.WF ∧ tlvCexS.Agree tlvCexT ∧
    TLVTableReply.unmarshal TLVTableReply.zero tlvCexS ≠ TLVTableReply.unmarshal TLVTableReply.zero tlvCexT := by
  refine ⟨tlvCex_agree.1, tlvCex_agree.2.1, tlvCex_agree.2.2, ?_⟩
  rw [tlvCexS_eval, tlvCexT_eval]; intro h; simp at h

/-! ### Hello and the entry point `Parse` -/

theorem fromR_bind_loc_len {β} {s t : Slice} (h : AW s t) (a : Nat) (f g : Slice → Res β)
    (hf : ∀ x y, AW x y → y.len = t.len - a → f x = g y) : (s.fromR a >>= f) = (t.fromR a >>= g) := by
  rcases Slice.fromR_loc h a with ⟨h1, h2⟩ | ⟨x, y, h1, h2, hxy⟩
  · rw [h1, h2]; rfl
  · rw [h1, h2]; exact hf x y hxy (Slice.fromR_wf t h.2.1 a y h2).2

theorem Hello_loc (recv : V) {s t : Slice} (haw : AW s t) (h8 : 8 ≤ t.len) :
    Hello.unmarshal recv s = Hello.unmarshal recv t := by
  unfold Hello.unmarshal
  loc_norm haw
  apply fromR_bind_loc_len haw; intro x0 y0 hxy0 hlen0
  rw [Header_loc_partial _ hxy0 (Or.inr (by omega))]
  have hbody : ∀ (st : Hello.St) (x y : Slice), AW x y →
      (do let e ← HelloElemHeader.unmarshal HelloElemHeader.new x
          match e with
          | .obj _ [.num ty, .num elen] =>
            if elen < 4 then .err else
            let adv := (elen + 7) / 8 * 8
            if ty = 1 then do
              let v ← HelloElemVersionBitmap.unmarshal HelloElemVersionBitmap.new x
              pure { next := st.next + adv, elems := st.elems ++ [v], err := false }
            else .ok { st with next := st.next + adv }
          | _ => .panic : R Hello.St) =
      (do let e ← HelloElemHeader.unmarshal HelloElemHeader.new y
          match e with
          | .obj _ [.num ty, .num elen] =>
            if elen < 4 then .err else
            let adv := (elen + 7) / 8 * 8
            if ty = 1 then do
              let v ← HelloElemVersionBitmap.unmarshal HelloElemVersionBitmap.new y
              pure { next := st.next + adv, elems := st.elems ++ [v], err := false }
            else .ok { st with next := st.next + adv }
          | _ => .panic) := by
    intro st x y hxy
    rw [HelloElemHeader_loc _ hxy]
    by_cases h4 : 4 ≤ y.len
    · simp only [HelloElemVersionBitmap_loc_partial _ hxy h4]
    · have he : HelloElemHeader.unmarshal HelloElemHeader.new y = .err := by
        unfold HelloElemHeader.unmarshal; rw [if_pos (by omega)]
      rw [he]; rfl
  split
  · apply Res.bind_congr2 rfl; intro _
    apply Res.bind_congr2 _ (fun _ => rfl)
    apply goLoop_congr
    intro st _
    exact Slice.fromR_bind_loc haw _ _ _ (hbody st)
  · apply Res.bind_congr2 rfl; intro _
    apply Res.bind_congr2 _ (fun _ => rfl)
    apply goLoop_congr
    intro st _
    exact Slice.fromR_bind_loc haw _ _ _ (hbody st)
  · rfl
  · rfl

theorem bind_congr_ok {α β} {x : Res α} {f g : α → Res β} (hf : ∀ a, x = .ok a → f a = g a) : (x >>= f) = (x >>= g) := by
  cases x with
  | ok a => exact hf a rfl
  | err => rfl
  | panic => rfl
  | spin => rfl

/-- the message kinds whose decoders are covered by the lemmas above (the remaining kinds of `Parse` — experimenter,
    features reply, packet-in, flow-removed, port-status, flow-mod, multipart — are left open) -/
def parseCovered (ty : Nat) : Prop :=
  ty ≠ Gen.openflow13.Type_Experimenter ∧ ty ≠ Gen.openflow13.Type_FeaturesReply ∧ ty ≠ Gen.openflow13.Type_PacketIn ∧
  ty ≠ Gen.openflow13.Type_FlowRemoved ∧ ty ≠ Gen.openflow13.Type_PortStatus ∧ ty ≠ Gen.openflow13.Type_FlowMod ∧
  ty ≠ Gen.openflow13.Type_MultiPartRequest ∧ ty ≠ Gen.openflow13.Type_MultiPartReply

theorem parseStep_loc (self self' : Slice → R V) {s t : Slice} (haw : AW s t) (h8 : 8 ≤ t.len)
    (hk : ∀ tb, t.byteAt 1 = .ok tb → parseCovered tb.toNat) : parseStep self s = parseStep self' t := by
  unfold parseStep
  loc_norm haw
  apply bind_congr_ok; intro tb htb
  obtain ⟨k1, k2, k3, k4, k5, k6, k7, k8⟩ := hk tb htb
  rw [Hello_loc _ haw h8, ErrorMsg_loc _ haw h8, VendorError_loc _ haw h8, Header_loc_partial _ haw (Or.inr h8),
    Header_loc_partial _ haw (Or.inr h8), SwitchConfig_loc _ haw h8, SwitchConfig_loc _ haw h8]
  rw [if_neg k1, if_neg k1, if_neg k2, if_neg k2, if_neg k3, if_neg k3, if_neg k4, if_neg k4, if_neg k5, if_neg k5,
    if_neg k6, if_neg k6, if_neg k7, if_neg k7, if_neg k8, if_neg k8]

theorem parseD_loc {s t : Slice} (haw : AW s t) (h8 : 8 ≤ t.len)
    (hk : ∀ tb, t.byteAt 1 = .ok tb → parseCovered tb.toNat) (d d' : Nat) :
    parseD (d + 1) s = parseD (d' + 1) t := by
  unfold parseD
  rw [parseStep_loc (parseD d) (parseD d') haw h8 hk]

theorem parse_loc {s t : Slice} (haw : AW s t) (h8 : 8 ≤ t.len)
    (hk : ∀ tb, t.byteAt 1 = .ok tb → parseCovered tb.toNat) (d d' : Nat) :
    parse d s = parse d' t := by
  unfold parse
  have e1 : max d (s.cap + 1) = (max d (s.cap + 1) - 1) + 1 := by omega
  have e2 : max d' (t.cap + 1) = (max d' (t.cap + 1) - 1) + 1 := by omega
  rw [e1, e2]
  exact parseD_loc haw h8 hk _ _

end OFV.Model
