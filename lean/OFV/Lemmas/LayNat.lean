/-
  OFV.Lemmas.LayNat — helpers for the layout theorems of the two connection-tracking actions (Props/C03b):
  what the optional part of an NXActionCTNAT looks like on the wire (`natOpt`), the piece list the encoder runs and its
  bytes (`natPieces_spec`), and the fact that the nested-action loop of NXActionConnTrack never writes below its
  starting offset (`marshalActs_take`).
-/
import OFV.Model.All
import OFV.Lemmas.LayFill
import OFV.Lemmas.LayDefs
namespace OFV.Model
open OFV OFV.Go OFV.Spec

theorem piecesBytes_map_pCopy (bss : List Bytes) : piecesBytes (bss.map pCopy) = bss.flatten := piecesBytes_map_copy bss
theorem tight_map_pCopy (bss : List Bytes) : ∀ p ∈ bss.map pCopy, p.Tight := tight_map_copy bss

/-- the four address bytes `copy(data[n:], ip.To4()); n += 4` leaves in the buffer (zeros when To4() is nil) -/
def natIP4 (ip : Bytes) : Bytes := actIpTo4 ip ++ zeros (4 - (actIpTo4 ip).length)
/-- the sixteen address bytes `copy(data[n:], ip.To16()); n += 16` leaves in the buffer -/
def natIP6 (ip : Bytes) : Bytes := actIpTo16 ip ++ zeros (16 - (actIpTo16 ip).length)
def natPort : V → Bytes
  | .num x => be16 (n16 x)
  | _ => []

/-- the optional part of a NAT action as the encoder emits it: each range that is set, in the order of the presence
    bits (IPv4 min, IPv4 max, IPv6 min, IPv6 max, proto min, proto max) -/
def natOpt (v4a v4b v6a v6b : Bytes) (pmin pmax : V) : Bytes :=
  (if v4a ≠ [] then natIP4 v4a else []) ++ (if v4b ≠ [] then natIP4 v4b else []) ++
  (if v6a ≠ [] then natIP6 v6a else []) ++ (if v6b ≠ [] then natIP6 v6b else []) ++ natPort pmin ++ natPort pmax

theorem actIpTo4_len (ip : Bytes) : (actIpTo4 ip).length ≤ 4 := by
  unfold actIpTo4
  split
  · omega
  · split
    · rename_i h; simp; omega
    · simp

theorem actIpTo16_len (ip : Bytes) : (actIpTo16 ip).length ≤ 16 := by
  unfold actIpTo16
  split
  · rename_i h; simp [actV4InV6Prefix, h]
  · split
    · omega
    · simp

theorem natIP4_length (ip : Bytes) : (natIP4 ip).length = 4 := by
  have := actIpTo4_len ip
  simp [natIP4]; omega
theorem natIP6_length (ip : Bytes) : (natIP6 ip).length = 16 := by
  have := actIpTo16_len ip
  simp [natIP6]; omega
theorem natIP4_of_len (ip : Bytes) (h : ip.length = 4) : natIP4 ip = ip := by
  simp [natIP4, actIpTo4, h, zeros]
theorem natIP6_of_len (ip : Bytes) (h : ip.length = 16) : natIP6 ip = ip := by
  simp [natIP6, actIpTo16, h, zeros]

def natPieces (hb : Bytes) (fl rp : Nat) (v4a v4b v6a v6b : Bytes) (pmin : V) (pm : List Piece) : List Piece :=
  [pCopy hb, pSkip 2, pU16 fl, pU16 rp]
      ++ (if v4a ≠ [] then [pCopyAdv (actIpTo4 v4a) 4] else [])
      ++ (if v4b ≠ [] then [pCopyAdv (actIpTo4 v4b) 4] else [])
      ++ (if v6a ≠ [] then [pCopyAdv (actIpTo16 v6a) 16] else [])
      ++ (if v6b ≠ [] then [pCopyAdv (actIpTo16 v6b) 16] else [])
      ++ (match pmin with | .num x => [pU16 x] | _ => [])
      ++ pm

def natPortPieces : V → List Piece
  | .num y => [pU16 y]
  | _ => []

theorem natPieces_spec (hb : Bytes) (fl rp : Nat) (v4a v4b v6a v6b : Bytes) (pmin pmax : V) :
    piecesBytes (natPieces hb fl rp v4a v4b v6a v6b pmin (natPortPieces pmax)) =
      hb ++ zeros 2 ++ be16 (n16 fl) ++ be16 (n16 rp) ++ natOpt v4a v4b v6a v6b pmin pmax ∧
    (∀ p ∈ natPieces hb fl rp v4a v4b v6a v6b pmin (natPortPieces pmax), p.Tight) := by
  have h4 : ∀ ip, Piece.bytes (pCopyAdv (actIpTo4 ip) 4) = natIP4 ip := by
    intro ip; simp [pCopyAdv, Piece.bytes, natIP4, List.take_of_length_le (actIpTo4_len ip)]
  have h6 : ∀ ip, Piece.bytes (pCopyAdv (actIpTo16 ip) 16) = natIP6 ip := by
    intro ip; simp [pCopyAdv, Piece.bytes, natIP6, List.take_of_length_le (actIpTo16_len ip)]
  have hp : ∀ p : V, piecesBytes (natPortPieces p) = natPort p ∧ ∀ q ∈ natPortPieces p, q.Tight := by
    intro p
    cases p <;> simp [piecesBytes, natPort, natPortPieces, pU16, Piece.bytes, Piece.Tight]
  have hp' : ∀ p : V, (match p with | .num x => [pU16 x] | _ => [] : List Piece) = natPortPieces p := by
    intro p; cases p <;> rfl
  have hc4 : ∀ ip : Bytes, piecesBytes (if ip ≠ [] then [pCopyAdv (actIpTo4 ip) 4] else []) = (if ip ≠ [] then natIP4 ip else []) ∧
      ∀ q ∈ (if ip ≠ [] then [pCopyAdv (actIpTo4 ip) 4] else [] : List Piece), q.Tight := by
    intro ip
    split
    · refine ⟨by simp [piecesBytes, h4], ?_⟩
      intro q hq; simp at hq; subst hq; exact actIpTo4_len ip
    · exact ⟨rfl, by simp⟩
  have hc6 : ∀ ip : Bytes, piecesBytes (if ip ≠ [] then [pCopyAdv (actIpTo16 ip) 16] else []) = (if ip ≠ [] then natIP6 ip else []) ∧
      ∀ q ∈ (if ip ≠ [] then [pCopyAdv (actIpTo16 ip) 16] else [] : List Piece), q.Tight := by
    intro ip
    split
    · refine ⟨by simp [piecesBytes, h6], ?_⟩
      intro q hq; simp at hq; subst hq; exact actIpTo16_len ip
    · exact ⟨rfl, by simp⟩
  have e : piecesBytes [pCopy hb, pSkip 2, pU16 fl, pU16 rp] = hb ++ zeros 2 ++ be16 (n16 fl) ++ be16 (n16 rp) := by
    simp [piecesBytes, pCopy, pSkip, pU16, Piece.bytes]
  unfold natPieces
  rw [hp']
  constructor
  · simp only [natOpt, piecesBytes_append, (hc4 _).1, (hc6 _).1, (hp _).1, e, List.append_assoc]
  · intro p hp2
    simp only [List.mem_append] at hp2
    rcases hp2 with (((((h | h) | h) | h) | h) | h) | h
    · simp only [pCopy, pSkip, pU16, List.mem_cons, List.mem_nil_iff, or_false] at h
      rcases h with rfl | rfl | rfl | rfl <;> trivial
    · exact (hc4 _).2 p h
    · exact (hc4 _).2 p h
    · exact (hc6 _).2 p h
    · exact (hc6 _).2 p h
    · exact (hp _).2 p h
    · exact (hp _).2 p h

/-- the nested-action loop of NXActionConnTrack only writes at or above its starting offset -/
theorem NXActionConnTrack.marshalActs_take (sub : V → R (Bytes × V)) :
    ∀ (acts : List V) (buf : Bytes) (n : Nat) (buf' : Bytes) (acts' : List V),
      NXActionConnTrack.marshalActs sub acts buf n = .ok (buf', acts') → ∀ m, m ≤ n → buf'.take m = buf.take m := by
  intro acts
  induction acts with
  | nil =>
    intro buf n buf' acts' h m _
    simp only [NXActionConnTrack.marshalActs] at h
    cases h; rfl
  | cons a as ih =>
    intro buf n buf' acts' h m hm
    simp only [NXActionConnTrack.marshalActs] at h
    obtain ⟨⟨ab, a'⟩, _, h⟩ := bind_ok_inv _ _ _ h
    obtain ⟨b1, hb1, h⟩ := bind_ok_inv _ _ _ h
    obtain ⟨⟨b2, as'⟩, hb2, h⟩ := bind_ok_inv _ _ _ h
    cases h
    rw [ih _ _ _ _ hb2 m (by omega), fillFrom_take _ _ _ _ hb1 m hm]

theorem beAt_of_take_eq (a b : Bytes) (m : Nat) (h : a.take m = b.take m) (off w : Nat) (hw : off + w ≤ m) :
    beAt a off w = beAt b off w := by
  rw [← beAt_take a m off w hw, h, beAt_take b m off w hw]

/-- a window of `bs` that equals `db`: reads inside the window are reads of `db` -/
theorem beAt_of_window_eq (bs db : Bytes) (s n : Nat) (h : (bs.drop s).take n = db) (off w : Nat) (hw : off + w ≤ n) :
    beAt bs (s + off) w = beAt db off w := by
  unfold beAt
  rw [← h, window_take _ n off w hw, List.drop_drop]

/-- the nested actions of a conntrack action are copied one after the other: complete and in list order -/
theorem NXActionConnTrack.marshalActs_in_order (sub : V → R (Bytes × V)) :
    ∀ (acts : List V) (buf : Bytes) (n : Nat) (buf' : Bytes) (acts' : List V),
      NXActionConnTrack.marshalActs sub acts buf n = .ok (buf', acts') →
      ∃ bss, mapM2 sub acts = .ok (bss, acts') ∧ (n + bss.flatten.length ≤ buf.length → InOrderAt buf' n bss) := by
  intro acts
  induction acts with
  | nil =>
    intro buf n buf' acts' h
    simp only [NXActionConnTrack.marshalActs] at h
    cases h
    exact ⟨[], rfl, fun _ k hk => absurd hk (by simp)⟩
  | cons a as ih =>
    intro buf n buf' acts' h
    simp only [NXActionConnTrack.marshalActs] at h
    obtain ⟨⟨ab, a'⟩, ha, h2⟩ := bind_ok_inv _ _ _ h
    obtain ⟨b1, hb1, h3⟩ := bind_ok_inv _ _ _ h2
    obtain ⟨⟨b2, as'⟩, hb2, h4⟩ := bind_ok_inv _ _ _ h3
    cases h4
    simp only at hb1 hb2
    obtain ⟨bss', hm', hord⟩ := ih _ _ _ _ hb2
    have hl1 := fillFrom_length _ _ _ _ hb1
    refine ⟨ab :: bss', by simp [mapM2, ha, hm'], ?_⟩
    intro hfit
    simp only [List.flatten_cons, List.length_append] at hfit
    have hord' := hord (by rw [hl1]; omega)
    intro k hk
    cases k with
    | zero =>
      simp only [List.take_zero, List.map_nil, List.sum_nil, Nat.add_zero, List.getElem_cons_zero]
      have htk := NXActionConnTrack.marshalActs_take _ _ _ _ _ _ hb2 (n + ab.length) (Nat.le_refl _)
      have hh := fillFrom_head (pCopy ab) [] buf n b1 hb1 ab.length (Nat.le_refl _) (Nat.le_refl _) (by omega)
      rw [List.take_drop, htk, ← List.take_drop, hh]
      simp [pCopy, Piece.raw]
    | succ k =>
      have := hord' k (by simpa using hk)
      simp only [List.take_succ_cons, List.map_cons, List.sum_cons, List.getElem_cons_succ]
      rw [show n + (ab.length + ((bss'.take k).map List.length).sum) = n + ab.length + ((bss'.take k).map List.length).sum by omega]
      exact this

/-- "presence flags agree with the ranges that are set": bit i of range_present is set exactly when the i-th optional
    range (IPv4 min, IPv4 max, IPv6 min, IPv6 max, proto min, proto max) holds a value -/
def NatPresent (rp : Nat) (v4a v4b v6a v6b : Bytes) (pmin pmax : V) : Prop :=
  (rp.testBit 0 = true ↔ v4a ≠ []) ∧ (rp.testBit 1 = true ↔ v4b ≠ []) ∧ (rp.testBit 2 = true ↔ v6a ≠ []) ∧
  (rp.testBit 3 = true ↔ v6b ≠ []) ∧ (rp.testBit 4 = true ↔ ∃ x, pmin = .num x) ∧ (rp.testBit 5 = true ↔ ∃ y, pmax = .num y)

/-- the optional part as the SPECIFICATION describes it: driven by the presence bits -/
def natOptBits (rp : Nat) (v4a v4b v6a v6b : Bytes) (pmin pmax : V) : Bytes :=
  (if rp.testBit 0 then natIP4 v4a else []) ++ (if rp.testBit 1 then natIP4 v4b else []) ++
  (if rp.testBit 2 then natIP6 v6a else []) ++ (if rp.testBit 3 then natIP6 v6b else []) ++
  (if rp.testBit 4 then natPort pmin else []) ++ (if rp.testBit 5 then natPort pmax else [])

theorem natOpt_presence (rp : Nat) (v4a v4b v6a v6b : Bytes) (pmin pmax : V) (h : NatPresent rp v4a v4b v6a v6b pmin pmax) :
    natOpt v4a v4b v6a v6b pmin pmax = natOptBits rp v4a v4b v6a v6b pmin pmax := by
  obtain ⟨h0, h1, h2, h3, h4, h5⟩ := h
  have hb : ∀ (b : Bool) (x : Bytes) (A : Bytes), (b = true ↔ x ≠ []) → (if x ≠ [] then A else []) = (if b then A else []) := by
    intro b x A hi
    by_cases hx : x ≠ []
    · rw [if_pos hx, if_pos (hi.mpr hx)]
    · have : ¬ b = true := fun hb => hx (hi.mp hb)
      rw [if_neg hx, if_neg this]
  have hp : ∀ (b : Bool) (p : V), (b = true ↔ ∃ x, p = .num x) → natPort p = (if b then natPort p else []) := by
    intro b p hi
    by_cases hb' : b = true
    · rw [if_pos hb']
    · rw [if_neg hb']
      cases p with
      | num x => exact absurd (hi.mpr ⟨x, rfl⟩) hb'
      | _ => rfl
  unfold natOpt natOptBits
  rw [hb _ _ _ h0, hb _ _ _ h1, hb _ _ _ h2, hb _ _ _ h3, ← hp _ _ h4, ← hp _ _ h5]

theorem testBit_set (rp i j : Nat) : (rp ||| 2 ^ i).testBit j = (rp.testBit j || decide (i = j)) := by
  rw [Nat.testBit_or, Nat.testBit_two_pow]

/-- NewNXActionCTNAT(): no range, no presence bit -/
theorem natPresent_new : NatPresent 0 [] [] [] [] .nil .nil := by
  simp [NatPresent]

/-- the four address setters (SetRangeIPv4Min/Max, SetRangeIPv6Min/Max = `setRange i 2^i _ (.bytes x)`, i = 0..3) called
    with a non-empty address: field and presence bit are set together, the other ranges and bits are untouched -/
theorem setRange_addr_present (i : Nat) (hi : i < 4) (add : UInt16) (x : Bytes) (hx : x ≠ []) (h pad fl : V) (rp : Nat)
    (a b c d : Bytes) (e f : V) (v' : V)
    (hs : NXActionCTNAT.setRange i (2 ^ i) add (.bytes x)
      (.obj "NXActionCTNAT" [h, pad, fl, .num rp, .bytes a, .bytes b, .bytes c, .bytes d, e, f]) = .ok v')
    (hp : NatPresent rp a b c d e f) :
    ∃ h' a' b' c' d', v' = .obj "NXActionCTNAT" [h', pad, fl, .num (rp ||| 2 ^ i), .bytes a', .bytes b', .bytes c', .bytes d', e, f] ∧
      [a', b', c', d'] = [a, b, c, d].set i x ∧ NatPresent (rp ||| 2 ^ i) a' b' c' d' e f := by
  unfold NXActionCTNAT.setRange at hs
  obtain ⟨l, _, hs2⟩ := bind_ok_inv _ _ _ hs
  obtain ⟨h', _, hs3⟩ := bind_ok_inv _ _ _ hs2
  obtain ⟨h0, h1, h2, h3, h4, h5⟩ := hp
  have hcases : i = 0 ∨ i = 1 ∨ i = 2 ∨ i = 3 := by omega
  rcases hcases with rfl | rfl | rfl | rfl
  all_goals (
    simp only [Res.pure_eq, Res.ok.injEq] at hs3
    subst hs3
    refine ⟨h', _, _, _, _, rfl, rfl, ?_⟩
    simp only [NatPresent, testBit_set]
    generalize rp.testBit 0 = t0 at *
    generalize rp.testBit 1 = t1 at *
    generalize rp.testBit 2 = t2 at *
    generalize rp.testBit 3 = t3 at *
    generalize rp.testBit 4 = t4 at *
    generalize rp.testBit 5 = t5 at *
    simp [h0, h1, h2, h3, h4, h5, hx])

/-- the two port setters (SetRangeProtoMin/Max = `setRange i 2^i _ (.num x)`, i = 4, 5) called with a non-nil port -/
theorem setRange_port_present (i : Nat) (hi : i = 4 ∨ i = 5) (add : UInt16) (x : Nat) (h pad fl : V) (rp : Nat)
    (a b c d : Bytes) (e f : V) (v' : V)
    (hs : NXActionCTNAT.setRange i (2 ^ i) add (.num x)
      (.obj "NXActionCTNAT" [h, pad, fl, .num rp, .bytes a, .bytes b, .bytes c, .bytes d, e, f]) = .ok v')
    (hp : NatPresent rp a b c d e f) :
    ∃ h' e' f', v' = .obj "NXActionCTNAT" [h', pad, fl, .num (rp ||| 2 ^ i), .bytes a, .bytes b, .bytes c, .bytes d, e', f'] ∧
      [e', f'] = [e, f].set (i - 4) (.num x) ∧ NatPresent (rp ||| 2 ^ i) a b c d e' f' := by
  unfold NXActionCTNAT.setRange at hs
  obtain ⟨l, _, hs2⟩ := bind_ok_inv _ _ _ hs
  obtain ⟨h', _, hs3⟩ := bind_ok_inv _ _ _ hs2
  obtain ⟨h0, h1, h2, h3, h4, h5⟩ := hp
  rcases hi with rfl | rfl
  all_goals (
    simp only [Res.pure_eq, Res.ok.injEq] at hs3
    subst hs3
    refine ⟨h', _, _, rfl, rfl, ?_⟩
    simp only [NatPresent, testBit_set]
    generalize rp.testBit 0 = t0 at *
    generalize rp.testBit 1 = t1 at *
    generalize rp.testBit 2 = t2 at *
    generalize rp.testBit 3 = t3 at *
    generalize rp.testBit 4 = t4 at *
    generalize rp.testBit 5 = t5 at *
    simp [h0, h1, h2, h3, h4, h5])

/-- an encoder of the shape "fixed pieces, then copy each element of a list": when everything fits, the result is the
    fixed bytes, the elements complete and in list order, and zero padding -/
theorem fill_fixed_list (L : Nat) (fixed : List Piece) (bss : List Bytes) (out : Bytes)
    (h : fill L (fixed ++ bss.map pCopy) = .ok out) (ht : ∀ p ∈ fixed, p.Tight)
    (hfit : piecesLen fixed + bss.flatten.length ≤ L) :
    out = piecesBytes fixed ++ bss.flatten ++ zeros (L - (piecesLen fixed + bss.flatten.length)) ∧
    InOrderAt out (piecesLen fixed) bss := by
  have htl : ∀ p ∈ fixed ++ bss.map pCopy, p.Tight := by
    intro p hp
    rw [List.mem_append] at hp
    rcases hp with hp | hp
    · exact ht p hp
    · exact tight_map_pCopy bss p hp
  have hpl : piecesLen (fixed ++ bss.map pCopy) = piecesLen fixed + bss.flatten.length := by
    rw [piecesLen_append, piecesLen_eq_bytes _ (tight_map_pCopy bss), piecesBytes_map_pCopy]
  rw [fill_exact _ _ htl (by rw [hpl]; exact hfit)] at h
  simp only [Res.ok.injEq] at h
  have hout : out = piecesBytes fixed ++ bss.flatten ++ zeros (L - (piecesLen fixed + bss.flatten.length)) := by
    rw [← h, piecesBytes_append, piecesBytes_map_pCopy, hpl]
  exact ⟨hout, inOrderAt_of_eq out _ bss _ _ hout (piecesLen_eq_bytes _ ht).symm⟩

end OFV.Model
