/-
  OFV.Lemmas.ParseLen — what `Len()` reports for decoded OXM payloads, match fields and actions, relative to the data
  they were decoded from (first part: payloads, match fields, header-length helpers).  Used to show that the
  instruction loop of a FlowStats record, which advances by an unchecked `Len()`, terminates when the buffer is small.
-/
import OFV.Lemmas.ParseMsg
set_option linter.unusedSimpArgs false
namespace OFV.Model
open OFV OFV.Go InstrAux

/-- what a decoded OXM payload reports: nothing is modified by Len(), and the length is at most 16 or was checked
    against the data -/
theorem MatchPayload_dec_bound (recv : V) (d : Slice) :
    Post (MatchPayload.unmarshal recv d)
      (fun v => Post (MatchPayload.lenM v) (fun p => p.2 = v ∧ (p.1.toNat ≤ 16 ∨ p.1.toNat ≤ d.len))) := by
  unfold MatchPayload.unmarshal
  split <;> first
    | exact post_panic
    | (simp only [InPortField.unmarshal, EthDstField.unmarshal, EthSrcField.unmarshal, EthTypeField.unmarshal,
        VlanIdField.unmarshal, MplsLabelField.unmarshal, MplsBosField.unmarshal, Ipv4SrcField.unmarshal,
        Ipv4DstField.unmarshal, Ipv6SrcField.unmarshal, Ipv6DstField.unmarshal, IPv6FlowLabelField.unmarshal,
        IpProtoField.unmarshal, IpDscpField.unmarshal, TunnelIdField.unmarshal, MetadataField.unmarshal,
        PortField.unmarshal, TcpFlagsField.unmarshal, ArpOperField.unmarshal, TunnelIpv4SrcField.unmarshal,
        TunnelIpv4DstField.unmarshal, ArpXHaField.unmarshal, ArpXPaField.unmarshal, ActsetOutputField.unmarshal,
        IcmpTypeField.unmarshal, IcmpCodeField.unmarshal, Uint16Message.unmarshal, Uint32Message.unmarshal,
        ByteArrayField.unmarshal, CTLabel.unmarshal]
       post_auto [readIPv4_ns]
       all_goals first
         | exact post_ok (post_ok ⟨rfl, Or.inl (by simp only []; decide)⟩)
         | (apply post_ok
            refine post_ok ⟨rfl, Or.inr ?_⟩
            simp only [UInt8.toNat_toUInt16]
            omega))


theorem post_and {α} {r : R α} {P Q : α → Prop} (h1 : Post r P) (h2 : Post r Q) : Post r (fun a => P a ∧ Q a) :=
  ⟨h1.1, fun a ha => ⟨h1.2 a ha, h2.2 a ha⟩⟩

theorem DecodeMatchField_dec_bound (cls field length : Nat) (hasMask : Bool) (d : Slice) :
    Post (DecodeMatchField cls field length hasMask d)
      (fun v => Post (MatchPayload.lenM v) (fun p => p.2 = v ∧ (p.1.toNat ≤ 16 ∨ p.1.toNat ≤ d.len))) := by
  unfold DecodeMatchField
  post_auto [MatchPayload_dec_bound]

/-- a decoded match field: Len() changes nothing and reports at most 24 bytes more than the data holds -/
theorem MatchField_dec_bound (recv : V) (data : Slice) :
    Post (MatchField.unmarshal recv data)
      (fun f => Post (MatchField.lenM f) (fun p => p.2 = f ∧ p.1.toNat ≤ data.len + 24)) := by
  have h4 : (4 : UInt16).toNat = 4 := rfl
  have h8 : (8 : UInt16).toNat = 8 := rfl
  unfold MatchField.unmarshal
  split
  · rename_i eid0 _ mask0
    apply post_bind_ns (ns_u16From _ _); intro cls _
    apply post_bind_ns (ns_byteAt _ _); intro fld _
    extract_lets hasMask field
    apply post_bind_ns (ns_byteAt _ _); intro length _
    apply post_bind (P := fun p => p.1 = 4 ∨ p.1 = 8) ?_ ?_
    · post_auto
      · exact post_ok (Or.inr rfl)
      · exact post_ok (Or.inl rfl)
    intro p _ hn
    obtain ⟨n, eid⟩ := p
    simp only [] at hn ⊢
    apply post_bind (P := fun d1 => n.toNat ≤ data.len ∧ d1.len = data.len - n.toNat) ?_ ?_
    · exact ⟨(ns_fromR _ _).1, fun d hd => fromR_inv _ _ _ hd⟩
    intro d1 _ hd1
    apply post_bind (DecodeMatchField_dec_bound _ _ _ _ _); intro val _ hval
    apply post_bind (post_and hval (MatchPayload_lenM_post val)); intro q hq ⟨⟨hq2, hq1⟩, hq255⟩
    obtain ⟨lv, val'⟩ := q
    simp only [] at hq2 hq1 hq255 ⊢
    subst hq2
    have hnlv : (n + lv).toNat = n.toNat + lv.toNat := by
      rw [UInt16.toNat_add]
      rcases hn with rfl | rfl <;> simp only [h4, h8] <;> omega
    refine post_ite (fun hM => ?_) (fun hM => ?_)
    · -- with a mask
      apply post_bind (P := fun d2 => n.toNat + lv.toNat ≤ data.len ∧ d2.len = data.len - (n.toNat + lv.toNat)) ?_ ?_
      · refine ⟨(ns_fromR _ _).1, fun d hd => ?_⟩
        have := fromR_inv _ _ _ hd
        rw [hnlv] at this
        exact this
      intro d2 _ hd2
      apply post_bind (DecodeMatchField_dec_bound _ _ _ _ _); intro mask _ hmask
      apply post_bind (post_and hmask (MatchPayload_lenM_post mask)); intro q2 hq2 ⟨⟨hm2, hm1⟩, hm255⟩
      obtain ⟨lm, mask'⟩ := q2
      simp only [] at hm2 hm1 hm255 ⊢
      subst hm2
      apply post_ok
      unfold MatchField.lenM
      simp only [V.bool, V.u16, V.u8]
      split
      · rename_i heq
        simp only [V.obj.injEq, List.cons.injEq, and_true, true_and] at heq
        obtain ⟨rfl, rfl, hhm, rfl, rfl, hv, hm⟩ := heq
        subst hv; subst hm
        have hhm' := V.num.inj hhm
        rw [hq]
        simp only [Res.bind_ok]
        rw [← hhm', if_pos hM, if_neg (by decide), hq2]
        apply post_ok
        refine ⟨rfl, ?_⟩
        simp only [UInt16.toNat_add]
        split <;> simp only [h4, h8] <;> omega
      · exact post_panic
    · -- no mask
      apply post_ok
      unfold MatchField.lenM
      simp only [V.bool, V.u16, V.u8]
      split
      · rename_i heq
        simp only [V.obj.injEq, List.cons.injEq, and_true, true_and] at heq
        obtain ⟨rfl, rfl, hhm, rfl, rfl, hv, hm⟩ := heq
        subst hv; subst hm
        have hhm' := V.num.inj hhm
        rw [hq]
        simp only [Res.bind_ok]
        rw [← hhm', if_neg hM, if_pos rfl]
        apply post_ok
        refine ⟨rfl, ?_⟩
        simp only [UInt16.toNat_add]
        split <;> simp only [h4, h8] <;> omega
      · exact post_panic
  · exact post_panic


/-! ### actions: what `Len()` reports for a decoded action -/

/-- the postcondition of an action decoder on the slice `d`: `Len()` of the decoded action (if it returns) leaves a
    value on which `Len()` is stable, and reports at most 48 bytes more than the capacity of `d` -/
def ActQ (d : Slice) (act : V) : Prop :=
  Post (Action.lenM act) (fun p => Action.lenM p.2 = .ok p ∧ p.1.toNat ≤ d.buf.length + 48)

theorem ActionHeader_setLength_inv (x : UInt16) (ah ah' : V) (h : ActionHeader.setLength x ah = .ok ah') :
    ActionHeader.length ah' = .ok x ∧ ActionHeader.setLength x ah' = .ok ah' := by
  unfold ActionHeader.setLength at h
  split at h
  · cases h
    simp [ActionHeader.length, ActionHeader.setLength, V.u16, n16]
  · cases h

theorem NXActionHeader_setLength_inv (x : UInt16) (h h' : V) (hs : NXActionHeader.setLength x h = .ok h') :
    NXActionHeader.length h' = .ok x ∧ NXActionHeader.setLength x h' = .ok h' := by
  unfold NXActionHeader.setLength at hs
  split at hs
  · obtain ⟨ah', hah, hs⟩ := bind_ok_inv _ _ _ hs
    cases hs
    obtain ⟨h1, h2⟩ := ActionHeader_setLength_inv _ _ _ hah
    simp [NXActionHeader.length, NXActionHeader.setLength, h1, h2]
  · cases hs

/-- the common NX prefix checks the stored length against the data -/
theorem nxPrefix_inv (d : Slice) (h : V) (hp : nxPrefix d = .ok h) :
    ∃ l, NXActionHeader.length h = .ok l ∧ l.toNat ≤ d.len := by
  unfold nxPrefix at hp
  obtain ⟨⟨h0, e⟩, _, hp⟩ := bind_ok_inv _ _ _ hp
  obtain ⟨l, hl, hp⟩ := bind_ok_inv _ _ _ hp
  try simp only [] at hl hp
  split at hp
  · cases hp
  · cases hp
    exact ⟨l, hl, by omega⟩

theorem round8_le (x : UInt16) : (round8 x).toNat ≤ x.toNat + 7 := by
  have h7 : (7 : UInt16).toNat = 7 := rfl
  have h8 : (8 : UInt16).toNat = 8 := rfl
  simp only [round8, UInt16.toNat_mul, UInt16.toNat_div, UInt16.toNat_add, h7, h8]
  omega

theorem round8_idem (x : UInt16) : round8 (round8 x) = round8 x := by
  have h7 : (7 : UInt16).toNat = 7 := rfl
  have h8 : (8 : UInt16).toNat = 8 := rfl
  apply UInt16.toNat_inj.mp
  simp only [round8, UInt16.toNat_mul, UInt16.toNat_div, UInt16.toNat_add, h7, h8]
  have := x.toNat_lt
  omega

/-- actions whose `Len()` is the stored header length -/
theorem hdrlen_post (d : Slice) (v h : V) (hv : Action.lenM v = (NXActionHeader.length h >>= fun l => same l v))
    (l : UInt16) (hl : NXActionHeader.length h = .ok l) (hle : l.toNat ≤ d.buf.length + 48) : ActQ d v := by
  unfold ActQ
  have : Action.lenM v = .ok (l, v) := by rw [hv, hl]; rfl
  rw [this]
  exact post_ok ⟨this, hle⟩

end OFV.Model
