/-
  OFV.Lemmas.SizeIdem — Len() / MarshalBinary() and the receiver: which calls leave the value unchanged (`LenPure`,
  `MarPure`) and which store something but are idempotent (`LenIdem`).  Match payloads, MatchField, Match, every action
  kind and the Action interface.  Used by Props/C06b (containers that encode the children a preceding Len() left
  behind) and Props/C13.
-/
import OFV.Model.All
import OFV.Lemmas.Size
import OFV.Lemmas.SizeTac
import OFV.Lemmas.SizeList
namespace OFV.Model
open OFV OFV.Go

/-- MarshalBinary() does not modify the value -/
def MarPure (marshalM : V → R (Bytes × V)) (v : V) : Prop :=
  ∀ bs v2, marshalM v = .ok (bs, v2) → v2 = v

/-- `l, v ← lenM v` where the Len() is pure -/
macro "pure_same" : tactic => `(tactic| (
  intro l v1 h1
  first
    | (obtain ⟨_, e⟩ := same_ok _ _ _ _ h1; exact e)
    | (obtain ⟨x, _, h1⟩ := bind_ok_inv _ _ _ h1; obtain ⟨_, e⟩ := same_ok _ _ _ _ h1; exact e)))

/-! ### match payloads -/

theorem MatchPayload.lenM_pure (v : V) : LenPure MatchPayload.lenM v := by
  intro l v1 h
  unfold MatchPayload.lenM at h
  split at h
  all_goals first
    | exact absurd h (by simp)
    | (
    simp only [InPortField.lenM, EthDstField.lenM, EthSrcField.lenM, EthTypeField.lenM, VlanIdField.lenM, MplsLabelField.lenM, MplsBosField.lenM, Ipv4SrcField.lenM, Ipv4DstField.lenM, Ipv6SrcField.lenM, Ipv6DstField.lenM, IPv6FlowLabelField.lenM, IpProtoField.lenM, IpDscpField.lenM, TunnelIdField.lenM, MetadataField.lenM, PortField.lenM, TcpFlagsField.lenM, ArpOperField.lenM, TunnelIpv4SrcField.lenM, TunnelIpv4DstField.lenM, ArpXHaField.lenM, ArpXPaField.lenM, ActsetOutputField.lenM, IcmpTypeField.lenM, IcmpCodeField.lenM, Uint16Message.lenM, Uint32Message.lenM, ByteArrayField.lenM, CTLabel.lenM] at h
    try split at h
    all_goals (try (exact absurd h (by simp)))
    all_goals exact (same_ok _ _ _ _ h).2)

theorem MatchPayload.marshalM_pure (v : V) : MarPure MatchPayload.marshalM v := by
  intro l v1 h
  unfold MatchPayload.marshalM at h
  split at h
  all_goals first
    | exact absurd h (by simp)
    | (
    simp only [InPortField.marshalM, EthDstField.marshalM, EthSrcField.marshalM, EthTypeField.marshalM, VlanIdField.marshalM, MplsLabelField.marshalM, MplsBosField.marshalM, Ipv4SrcField.marshalM, Ipv4DstField.marshalM, Ipv6SrcField.marshalM, Ipv6DstField.marshalM, IPv6FlowLabelField.marshalM, IpProtoField.marshalM, IpDscpField.marshalM, TunnelIdField.marshalM, MetadataField.marshalM, PortField.marshalM, TcpFlagsField.marshalM, ArpOperField.marshalM, TunnelIpv4SrcField.marshalM, TunnelIpv4DstField.marshalM, ArpXHaField.marshalM, ArpXPaField.marshalM, ActsetOutputField.marshalM, IcmpTypeField.marshalM, IcmpCodeField.marshalM, Uint16Message.marshalM, Uint32Message.marshalM, ByteArrayField.marshalM, CTLabel.marshalM] at h
    try split at h
    all_goals (try (exact absurd h (by simp)))
    all_goals exact (same_ok _ _ _ _ h).2)

/-! ### MatchField, Match -/

theorem MatchField.lenM_pure (v : V) : LenPure MatchField.lenM v := by
  intro l v1 h
  unfold MatchField.lenM at h
  split at h
  · obtain ⟨⟨lv, val'⟩, hv, h2⟩ := bind_ok_inv _ _ _ h
    clear h
    have e1 := MatchPayload.lenM_pure _ _ _ hv
    subst e1
    simp only at h2
    split at h2
    · cases h2; rfl
    · obtain ⟨⟨lm, mask'⟩, hm, h3⟩ := bind_ok_inv _ _ _ h2
      clear h2
      have e2 := MatchPayload.lenM_pure _ _ _ hm
      subst e2
      cases h3; rfl
  · exact absurd h (by simp)

theorem MatchField.marshalM_pure (v : V) : MarPure MatchField.marshalM v := by
  intro bs v2 h
  unfold MatchField.marshalM at h
  obtain ⟨⟨l, v'⟩, hl, h2⟩ := bind_ok_inv _ _ _ h
  clear h
  have e0 := MatchField.lenM_pure _ _ _ hl
  subst e0
  simp only at h2
  split at h2
  · obtain ⟨⟨vb, val'⟩, hv, h3⟩ := bind_ok_inv _ _ _ h2
    clear h2
    have e1 := MatchPayload.marshalM_pure _ _ _ hv
    subst e1
    simp only at h3
    split at h3
    · obtain ⟨out, _, h4⟩ := bind_ok_inv _ _ _ h3
      cases h4; rfl
    · obtain ⟨⟨mb, mask'⟩, hm, h4⟩ := bind_ok_inv _ _ _ h3
      clear h3
      have e2 := MatchPayload.marshalM_pure _ _ _ hm
      subst e2
      obtain ⟨out, _, h5⟩ := bind_ok_inv _ _ _ h4
      cases h5; rfl
  · exact absurd h2 (by simp)

theorem Match.lenM_pure (v : V) : LenPure Match.lenM v := by
  intro l v1 h
  unfold Match.lenM at h
  split at h
  · obtain ⟨_, _, h⟩ := bind_ok_inv _ _ _ h
    exact (same_ok _ _ _ _ h).2
  · exact absurd h (by simp)

theorem Match.marshalM_pure (v : V) : MarPure Match.marshalM v := by
  intro bs v2 h
  unfold Match.marshalM at h
  obtain ⟨⟨l, v'⟩, hl, h2⟩ := bind_ok_inv _ _ _ h
  clear h
  have e0 := Match.lenM_pure _ _ _ hl
  subst e0
  simp only at h2
  split at h2
  · obtain ⟨_, _, h3⟩ := bind_ok_inv _ _ _ h2
    obtain ⟨_, _, h4⟩ := bind_ok_inv _ _ _ h3
    exact (same_ok _ _ _ _ h4).2
  · exact absurd h2 (by simp)

/-! ### actions: Len() -/

theorem ActionHeader.lenM_pure (v : V) : LenPure ActionHeader.lenM v := by
  intro l v1 h; exact (same_ok _ _ _ _ h).2
theorem ActionOutput.lenM_pure (v : V) : LenPure ActionOutput.lenM v := by
  intro l v1 h; exact (same_ok _ _ _ _ h).2
theorem ActionSetqueue.lenM_pure (v : V) : LenPure ActionSetqueue.lenM v := by
  intro l v1 h; exact (same_ok _ _ _ _ h).2
theorem ActionGroup.lenM_pure (v : V) : LenPure ActionGroup.lenM v := by
  intro l v1 h; exact (same_ok _ _ _ _ h).2
theorem ActionMplsTtl.lenM_pure (v : V) : LenPure ActionMplsTtl.lenM v := by
  intro l v1 h; exact (same_ok _ _ _ _ h).2
theorem ActionNwTtl.lenM_pure (v : V) : LenPure ActionNwTtl.lenM v := by
  intro l v1 h; exact (same_ok _ _ _ _ h).2
theorem ActionDecNwTtl.lenM_pure (v : V) : LenPure ActionDecNwTtl.lenM v := by
  intro l v1 h; exact (same_ok _ _ _ _ h).2
theorem ActionPush.lenM_pure (v : V) : LenPure ActionPush.lenM v := by
  intro l v1 h; exact (same_ok _ _ _ _ h).2
theorem ActionPopVlan.lenM_pure (v : V) : LenPure ActionPopVlan.lenM v := by
  intro l v1 h; exact (same_ok _ _ _ _ h).2
theorem ActionPopMpls.lenM_pure (v : V) : LenPure ActionPopMpls.lenM v := by
  intro l v1 h; exact (same_ok _ _ _ _ h).2
theorem NXActionHeader.lenM_pure (v : V) : LenPure NXActionHeader.lenM v := by
  intro l v1 h; exact (same_ok _ _ _ _ h).2
theorem NXActionController.lenM_pure (v : V) : LenPure NXActionController.lenM v := by
  intro l v1 h; exact (same_ok _ _ _ _ h).2
theorem NXLearnSpecField.lenM_pure (v : V) : LenPure NXLearnSpecField.lenM v := by
  intro l v1 h; exact (same_ok _ _ _ _ h).2
theorem NXActionConjunction.lenM_pure (v : V) : LenPure NXActionConjunction.lenM v := by
  intro l v1 h
  unfold NXActionConjunction.lenM at h
  split at h
  · obtain ⟨_, _, h⟩ := bind_ok_inv _ _ _ h
    exact (same_ok _ _ _ _ h).2
  · exact absurd h (by simp)
theorem NXActionRegLoad.lenM_pure (v : V) : LenPure NXActionRegLoad.lenM v := by
  intro l v1 h
  unfold NXActionRegLoad.lenM at h
  split at h
  · obtain ⟨_, _, h⟩ := bind_ok_inv _ _ _ h
    exact (same_ok _ _ _ _ h).2
  · exact absurd h (by simp)
theorem NXActionRegMove.lenM_pure (v : V) : LenPure NXActionRegMove.lenM v := by
  intro l v1 h
  unfold NXActionRegMove.lenM at h
  split at h
  · obtain ⟨_, _, h⟩ := bind_ok_inv _ _ _ h
    exact (same_ok _ _ _ _ h).2
  · exact absurd h (by simp)
theorem NXActionResubmit.lenM_pure (v : V) : LenPure NXActionResubmit.lenM v := by
  intro l v1 h
  unfold NXActionResubmit.lenM at h
  split at h
  · obtain ⟨_, _, h⟩ := bind_ok_inv _ _ _ h
    exact (same_ok _ _ _ _ h).2
  · exact absurd h (by simp)
theorem NXActionResubmitTable.lenM_pure (v : V) : LenPure NXActionResubmitTable.lenM v := by
  intro l v1 h
  unfold NXActionResubmitTable.lenM at h
  split at h
  · obtain ⟨_, _, h⟩ := bind_ok_inv _ _ _ h
    exact (same_ok _ _ _ _ h).2
  · exact absurd h (by simp)
theorem NXActionOutputReg.lenM_pure (v : V) : LenPure NXActionOutputReg.lenM v := by
  intro l v1 h
  unfold NXActionOutputReg.lenM at h
  split at h
  · obtain ⟨_, _, h⟩ := bind_ok_inv _ _ _ h
    exact (same_ok _ _ _ _ h).2
  · exact absurd h (by simp)
theorem NXActionCTClear.lenM_pure (v : V) : LenPure NXActionCTClear.lenM v := by
  intro l v1 h
  unfold NXActionCTClear.lenM at h
  split at h
  · obtain ⟨_, _, h⟩ := bind_ok_inv _ _ _ h
    exact (same_ok _ _ _ _ h).2
  · exact absurd h (by simp)
theorem NXActionDecTTL.lenM_pure (v : V) : LenPure NXActionDecTTL.lenM v := by
  intro l v1 h
  unfold NXActionDecTTL.lenM at h
  split at h
  · obtain ⟨_, _, h⟩ := bind_ok_inv _ _ _ h
    exact (same_ok _ _ _ _ h).2
  · exact absurd h (by simp)
theorem NXActionDecTTLCntIDs.lenM_pure (v : V) : LenPure NXActionDecTTLCntIDs.lenM v := by
  intro l v1 h
  unfold NXActionDecTTLCntIDs.lenM at h
  split at h
  · obtain ⟨_, _, h⟩ := bind_ok_inv _ _ _ h
    exact (same_ok _ _ _ _ h).2
  · exact absurd h (by simp)
theorem NXActionNote.lenM_pure (v : V) : LenPure NXActionNote.lenM v := by
  intro l v1 h
  unfold NXActionNote.lenM at h
  split at h
  · exact (same_ok _ _ _ _ h).2
  · exact absurd h (by simp)
theorem NXLearnSpecHeader.lenM_pure (v : V) : LenPure NXLearnSpecHeader.lenM v := by
  intro l v1 h
  unfold NXLearnSpecHeader.lenM at h
  split at h
  · exact (same_ok _ _ _ _ h).2
  · exact absurd h (by simp)
theorem NXLearnSpec.lenM_pure (v : V) : LenPure NXLearnSpec.lenM v := by
  intro l v1 h
  unfold NXLearnSpec.lenM at h
  obtain ⟨_, _, h⟩ := bind_ok_inv _ _ _ h
  exact (same_ok _ _ _ _ h).2
theorem NXActionLearn.lenM_pure (v : V) : LenPure NXActionLearn.lenM v := by
  intro l v1 h
  unfold NXActionLearn.lenM at h
  obtain ⟨_, _, h⟩ := bind_ok_inv _ _ _ h
  exact (same_ok _ _ _ _ h).2
theorem ActionSetField.lenM_pure (v : V) : LenPure ActionSetField.lenM v := by
  intro l v1 h
  unfold ActionSetField.lenM at h
  split at h
  · obtain ⟨⟨fl, f'⟩, hf, h2⟩ := bind_ok_inv _ _ _ h
    clear h
    have e := MatchField.lenM_pure _ _ _ hf
    subst e
    cases h2; rfl
  · exact absurd h (by simp)
theorem NXActionRegLoad2.lenM_pure (v : V) : LenPure NXActionRegLoad2.lenM v := by
  intro l v1 h
  unfold NXActionRegLoad2.lenM at h
  split at h
  · split at h
    · exact absurd h (by simp)
    · obtain ⟨⟨fl, f'⟩, hf, h2⟩ := bind_ok_inv _ _ _ h
      clear h
      have e := MatchField.lenM_pure _ _ _ hf
      subst e
      cases h2; rfl
  · exact absurd h (by simp)

/-- ActionHeader.setLength then reading it back -/
theorem ActionHeader.length_setLength (l : UInt16) (h h' : V) (hs : ActionHeader.setLength l h = .ok h') :
    ActionHeader.length h' = .ok l ∧ ∀ l2, ActionHeader.setLength l2 h' = ActionHeader.setLength l2 h := by
  unfold ActionHeader.setLength at hs
  split at hs
  · cases hs
    refine ⟨?_, fun l2 => rfl⟩
    simp only [ActionHeader.length, V.u16, n16]
    congr 1
    apply UInt16.toNat_inj.mp
    rw [UInt16.toNat_ofNat']
    exact Nat.mod_eq_of_lt l.toNat_lt
  · exact absurd hs (by simp)

theorem NXActionHeader.length_setLength (l : UInt16) (h h' : V) (hs : NXActionHeader.setLength l h = .ok h') :
    NXActionHeader.length h' = .ok l ∧ ∀ l2, NXActionHeader.setLength l2 h' = NXActionHeader.setLength l2 h := by
  unfold NXActionHeader.setLength at hs
  split at hs
  · obtain ⟨ah', ha, hs⟩ := bind_ok_inv _ _ _ hs
    cases hs
    obtain ⟨e1, e2⟩ := ActionHeader.length_setLength _ _ _ ha
    refine ⟨?_, fun l2 => ?_⟩
    · simp only [NXActionHeader.length]; exact e1
    · simp only [NXActionHeader.setLength, e2]
  · exact absurd hs (by simp)

/-- NXActionCTNAT.Len() STORES the rounded length; a second call finds it already rounded (`round8_idem`):
    same answer, nothing changes any more.  No hypothesis: also when the rounding wraps to 0. -/
theorem NXActionCTNAT.lenM_idem (v : V) : LenIdem NXActionCTNAT.lenM v := by
  intro l v1 h
  unfold NXActionCTNAT.lenM at h
  split at h
  · rename_i hd r
    obtain ⟨l0, hl0, h⟩ := bind_ok_inv _ _ _ h
    obtain ⟨h', hs, h⟩ := bind_ok_inv _ _ _ h
    cases h
    obtain ⟨e1, e2⟩ := NXActionHeader.length_setLength _ _ _ hs
    simp only [NXActionCTNAT.lenM, e1, Res.bind_ok, round8_idem, e2, hs]
  · exact absurd h (by simp)

/-- …and it is NOT pure: a CTNAT action whose stored length is not a multiple of 8 is modified by Len() -/
theorem NXActionCTNAT.lenM_not_pure :
    ∃ v l v1, NXActionCTNAT.lenM v = .ok (l, v1) ∧ v1 ≠ v :=
  ⟨.obj "NXActionCTNAT" [NXActionHeader.newL Gen.openflow13.NXAST_NAT 20, .bytes [], .num 0, .num 0, .bytes [], .bytes [], .bytes [], .bytes [], .nil, .nil],
   24, _, rfl, by
     intro h
     simp only [NXActionHeader.newL, ActionHeader.mk, V.u16, V.obj.injEq, List.cons.injEq, V.num.injEq, true_and, and_true] at h
     revert h; decide⟩

/-! ### the Action interface: Len() -/

/-- Len() of every kind except conntrack leaves the action unchanged, except NXActionCTNAT -/
theorem Action.lenLeaf_pure (v : V) (hk : v.kind ≠ "NXActionCTNAT") : LenPure Action.lenLeaf v := by
  intro l v1 h
  unfold Action.lenLeaf at h
  split at h
  · exact ActionHeader.lenM_pure v l v1 h
  · exact ActionOutput.lenM_pure v l v1 h
  · exact ActionSetqueue.lenM_pure v l v1 h
  · exact ActionGroup.lenM_pure v l v1 h
  · exact ActionMplsTtl.lenM_pure v l v1 h
  · exact ActionNwTtl.lenM_pure v l v1 h
  · exact ActionDecNwTtl.lenM_pure v l v1 h
  · exact ActionPush.lenM_pure v l v1 h
  · exact ActionPopVlan.lenM_pure v l v1 h
  · exact ActionPopMpls.lenM_pure v l v1 h
  · exact ActionSetField.lenM_pure v l v1 h
  · exact NXActionHeader.lenM_pure v l v1 h
  · exact NXActionConjunction.lenM_pure v l v1 h
  · exact NXActionRegLoad.lenM_pure v l v1 h
  · exact NXActionRegMove.lenM_pure v l v1 h
  · exact NXActionResubmit.lenM_pure v l v1 h
  · exact NXActionResubmitTable.lenM_pure v l v1 h
  · rename_i hk'; exact absurd hk' hk
  · exact NXActionOutputReg.lenM_pure v l v1 h
  · exact NXActionCTClear.lenM_pure v l v1 h
  · exact NXActionDecTTL.lenM_pure v l v1 h
  · exact NXActionDecTTLCntIDs.lenM_pure v l v1 h
  · exact NXActionLearn.lenM_pure v l v1 h
  · exact NXActionNote.lenM_pure v l v1 h
  · exact NXActionRegLoad2.lenM_pure v l v1 h
  · exact NXActionController.lenM_pure v l v1 h
  · exact absurd h (by simp)

theorem NXActionCTNAT.lenM_kind (v : V) (l : UInt16) (v1 : V) (h : NXActionCTNAT.lenM v = .ok (l, v1)) :
    v1.kind = "NXActionCTNAT" := by
  unfold NXActionCTNAT.lenM at h
  split at h
  · obtain ⟨l0, _, h2⟩ := bind_ok_inv _ _ _ h
    obtain ⟨h', _, h3⟩ := bind_ok_inv _ _ _ h2
    cases h3; rfl
  · exact absurd h (by simp)

theorem Action.lenLeaf_kind (v : V) (l : UInt16) (v1 : V) (h : Action.lenLeaf v = .ok (l, v1)) : v1.kind = v.kind := by
  by_cases hk : v.kind = "NXActionCTNAT"
  · have h' : NXActionCTNAT.lenM v = .ok (l, v1) := by
      unfold Action.lenLeaf at h; simp only [hk] at h; exact h
    rw [hk]; exact NXActionCTNAT.lenM_kind v l v1 h'
  · rw [Action.lenLeaf_pure v hk l v1 h]

theorem Action.lenLeaf_idem (v : V) : LenIdem Action.lenLeaf v := by
  intro l v1 h
  by_cases hk : v.kind = "NXActionCTNAT"
  · have h' : NXActionCTNAT.lenM v = .ok (l, v1) := by
      unfold Action.lenLeaf at h; simp only [hk] at h; exact h
    have hk1 := NXActionCTNAT.lenM_kind v l v1 h'
    have := NXActionCTNAT.lenM_idem v l v1 h'
    unfold Action.lenLeaf; simp only [hk1]; exact this
  · exact (Action.lenLeaf_pure v hk).idem l v1 h

theorem NXActionConnTrack.lenWith_kind (sub : V → R (UInt16 × V)) (v : V) (l : UInt16) (v1 : V)
    (h : NXActionConnTrack.lenWith sub v = .ok (l, v1)) : v1.kind = v.kind := by
  unfold NXActionConnTrack.lenWith at h
  split at h
  · obtain ⟨_, _, h2⟩ := bind_ok_inv _ _ _ h
    obtain ⟨_, _, h3⟩ := bind_ok_inv _ _ _ h2
    obtain ⟨_, _, h4⟩ := bind_ok_inv _ _ _ h3
    cases h4; rfl
  · exact absurd h (by simp)

/-- NXActionConnTrack.Len() sums the nested actions' current sizes and STORES the result in the header; a second call
    finds the same sizes (given that holds for the nested actions) and stores the same length -/
theorem NXActionConnTrack.lenWith_idem (sub : V → R (UInt16 × V)) (hsub : ∀ a, LenIdem sub a) (v : V) :
    LenIdem (NXActionConnTrack.lenWith sub) v := by
  intro l v1 h
  unfold NXActionConnTrack.lenWith at h
  split at h
  · obtain ⟨⟨hl, h0⟩, hh, h2⟩ := bind_ok_inv _ _ _ h
    obtain ⟨e1, e2⟩ := same_ok _ _ _ _ hh
    subst e1; subst e2
    obtain ⟨⟨ls, acts'⟩, hm, h3⟩ := bind_ok_inv _ _ _ h2
    obtain ⟨h', hs, h4⟩ := bind_ok_inv _ _ _ h3
    cases h4
    have hm' := mapM2_idem sub _ _ _ (fun x _ a x' hx => hsub x a x' hx) hm
    have hs' : NXActionHeader.setLength (n16 Gen.openflow13.NxActionHeaderLength + 14 + sum16 ls) h' = .ok h' := by
      rw [(NXActionHeader.length_setLength _ _ _ hs).2 _, hs]
    simp only [NXActionConnTrack.lenWith, NXActionHeader.lenM, same, Res.bind_ok, hm', hs']
  · exact absurd h (by simp)

theorem Action.lenD_kind : ∀ (d : Nat) (v : V) (l : UInt16) (v1 : V), Action.lenD d v = .ok (l, v1) → v1.kind = v.kind := by
  intro d v l v1 h
  cases d with
  | zero => exact absurd h (by simp [Action.lenD])
  | succ d =>
    unfold Action.lenD at h
    split at h
    · exact NXActionConnTrack.lenWith_kind _ v l v1 h
    · exact Action.lenLeaf_kind v l v1 h

theorem Action.lenD_idem : ∀ (d : Nat) (v : V), LenIdem (Action.lenD d) v := by
  intro d
  induction d with
  | zero => intro v l v1 h; exact absurd h (by simp [Action.lenD])
  | succ d ih =>
    intro v l v1 h
    have hk1 := Action.lenD_kind _ v l v1 h
    unfold Action.lenD at h ⊢
    split at h
    · rename_i hk
      rw [hk] at hk1
      simp only [hk1, if_true]
      exact NXActionConnTrack.lenWith_idem _ ih v l v1 h
    · rename_i hk
      rw [if_neg (by rw [hk1]; exact hk)]
      exact Action.lenLeaf_idem v l v1 h

/-- Len() never changes the dynamic type of an action -/
theorem Action.lenM_kind (v : V) (l : UInt16) (v1 : V) (h : Action.lenM v = .ok (l, v1)) : v1.kind = v.kind :=
  Action.lenD_kind _ v l v1 h

/-- Action.Len() through the interface is idempotent for EVERY action: the second call returns the same size and
    changes nothing more -/
theorem Action.lenM_idem (v : V) : LenIdem Action.lenM v := Action.lenD_idem _ v

theorem Action.lenD_succ_ct (d : Nat) (v : V) (hk : v.kind = "NXActionConnTrack") :
    Action.lenD (d + 1) v = NXActionConnTrack.lenWith (Action.lenD d) v := by
  unfold Action.lenD; simp only [hk, if_true]
theorem Action.lenD_succ_leaf (d : Nat) (v : V) (hk : v.kind ≠ "NXActionConnTrack") :
    Action.lenD (d + 1) v = Action.lenLeaf v := by
  rw [Action.lenD]; simp only [hk, if_false]

/-- Action.Len() leaves every action unchanged, except NXActionCTNAT (rounds its stored length) and
    NXActionConnTrack (stores the recomputed length) -/
theorem Action.lenM_pure (v : V) (hk : v.kind ≠ "NXActionCTNAT") (hk2 : v.kind ≠ "NXActionConnTrack") :
    LenPure Action.lenM v := by
  intro l v1 h
  unfold Action.lenM at h
  rw [Action.lenD_succ_leaf _ v hk2] at h
  exact Action.lenLeaf_pure v hk l v1 h

end OFV.Model
