/-
  OFV.Lemmas.Walk4 — walker-only lemmas for the flow-mod path: acceptance of single instructions by `Spec.walkInstrs`
  (stated on bytes in the `beAt` vocabulary), `walkInstrs_flatten`; acceptance of one OXM TLV by `Spec.walkOxm` (generic
  over the walker's width table), `walkOxms_flatten`, and `Spec.walkMatch` on a padded match.
-/
import OFV.Lemmas.Walk3
namespace OFV.Walk4
open OFV OFV.Spec OFV.Walk2 OFV.Walk3

/-! ### instructions -/

/-- the real walker accepts `c` as ONE instruction in front of whatever follows, with subtree `t`, and goes on with the
    rest -/
def InstrAccept (c : Bytes) (t : Tree) : Prop :=
  ∀ fuel rest, walkInstrs (fuel + 1) (c ++ rest) = (walkInstrs fuel rest >>= fun r => pure (t :: r))

/-- common front of the instruction walk: what the walker reads from an instruction that declares its own bytes -/
theorem instr_front (c rest : Bytes) (h8 : 8 ≤ c.length) (hal : c.length % 8 = 0) (hd : beAt c 2 2 = c.length) :
    (c ++ rest).isEmpty = false ∧ ¬ (c ++ rest).length < 4 ∧ u16At (c ++ rest) 0 = beAt c 0 2 ∧
    u16At (c ++ rest) 2 = c.length ∧ ¬ (c.length < 8 ∨ c.length % 8 ≠ 0) ∧ ¬ (c ++ rest).length < c.length ∧
    (c ++ rest).take c.length = c ∧ (c ++ rest).drop c.length = rest :=
  ⟨isEmpty_append_false c rest (by omega), by simp; omega,
   by rw [u16At_append_left _ _ _ (by omega), u16At_eq_beAt _ _ (by omega)],
   by rw [u16At_append_left _ _ _ (by omega), u16At_eq_beAt _ _ (by omega), hd],
   by omega, by simp, List.take_left, List.drop_left⟩

/-- goto-table: 8 bytes, type 1, the last 3 zero -/
theorem accept_goto (c : Bytes) (hl : c.length = 8) (h0 : beAt c 0 2 = 1) (h2 : beAt c 2 2 = 8)
    (hz : c.drop 5 = List.replicate 3 0) : InstrAccept c (.node "ins 1" c []) := by
  intro fuel rest
  obtain ⟨a1, a2, a3, a4, a5, a6, a7, a8⟩ := instr_front c rest (by omega) (by omega) (by omega)
  rw [h0] at a3; rw [hl] at a4 a5 a6 a7 a8
  have z := zerosAt_ok c 5 3 "goto-table" (zeros_slice c 5 3 hz)
  simp only [walkInstrs, a1, a2, a3, a4, a5, a6, a7, a8, z, Bool.false_eq_true, if_false]
  rfl

/-- write-metadata: 24 bytes, type 2, bytes 4-7 zero -/
theorem accept_writeMetadata (c : Bytes) (hl : c.length = 24) (h0 : beAt c 0 2 = 2) (h2 : beAt c 2 2 = 24)
    (hz : allZero (slice c 4 4) = true) : InstrAccept c (.node "ins 2" c []) := by
  intro fuel rest
  obtain ⟨a1, a2, a3, a4, a5, a6, a7, a8⟩ := instr_front c rest (by omega) (by omega) (by omega)
  rw [h0] at a3; rw [hl] at a4 a5 a6 a7 a8
  have z := zerosAt_ok c 4 4 "write-metadata" hz
  simp only [walkInstrs, a1, a2, a3, a4, a5, a6, a7, a8, z, Bool.false_eq_true, if_false]
  rfl

/-- meter: 8 bytes, type 6 -/
theorem accept_meter (c : Bytes) (hl : c.length = 8) (h0 : beAt c 0 2 = 6) (h2 : beAt c 2 2 = 8) :
    InstrAccept c (.node "ins 6" c []) := by
  intro fuel rest
  obtain ⟨a1, a2, a3, a4, a5, a6, a7, a8⟩ := instr_front c rest (by omega) (by omega) (by omega)
  rw [h0] at a3; rw [hl] at a4 a5 a6 a7 a8
  simp only [walkInstrs, a1, a2, a3, a4, a5, a6, a7, a8, Bool.false_eq_true, if_false]
  rfl

/-- write-actions (3), apply-actions (4), clear-actions (5, without actions): the instruction declares its bytes, bytes
    4-7 are zero and the action area behind the 8 header bytes is accepted -/
theorem accept_instrActions (ty : Nat) (hty : ty ∈ [3, 4, 5]) (c : Bytes) (acts : List Tree) (h8 : 8 ≤ c.length)
    (hal : c.length % 8 = 0) (h0 : beAt c 0 2 = ty) (h2 : beAt c 2 2 = c.length) (hz : allZero (slice c 4 4) = true)
    (h5 : ty = 5 → c.length = 8) (hw : walkActions (c.length + 1) (c.drop 8) = .ok acts) :
    InstrAccept c (.node s!"ins {ty}" c acts) := by
  intro fuel rest
  obtain ⟨a1, a2, a3, a4, a5, a6, a7, a8⟩ := instr_front c rest h8 hal h2
  rw [h0] at a3
  have z : ∀ w, zerosAt c 4 4 w = .ok () := fun w => zerosAt_ok c 4 4 w hz
  simp only [List.mem_cons, List.mem_nil_iff, or_false] at hty
  rcases hty with rfl | rfl | rfl
  · simp only [walkInstrs, a1, a2, a3, a4, a5, a6, a7, a8, z, hw, Bool.false_eq_true, if_false]
    rfl
  · simp only [walkInstrs, a1, a2, a3, a4, a5, a6, a7, a8, z, hw, Bool.false_eq_true, if_false]
    rfl
  · have n5 : ¬ (True ∧ c.length ≠ 8) := by intro ⟨_, b⟩; exact b (h5 rfl)
    simp only [walkInstrs, a1, a2, a3, a4, a5, a6, a7, a8, z, hw, n5, Bool.false_eq_true, if_false]
    rfl

theorem walkInstrs_flatten (it : Bytes → Tree) (bss : List Bytes) (h : ∀ c ∈ bss, InstrAccept c (it c)) :
    ∀ fuel, bss.length < fuel → walkInstrs fuel bss.flatten = .ok (bss.map it) := by
  induction bss with
  | nil => intro fuel hf; cases fuel with
    | zero => omega
    | succ f => simp [walkInstrs]; rfl
  | cons c cs ih =>
    intro fuel hf
    cases fuel with
    | zero => omega
    | succ f =>
      rw [List.flatten_cons, h c (by simp) f cs.flatten,
        ih (fun x hx => h x (by simp [hx])) f (by simp at hf; omega)]
      rfl

/-! ### OXM TLVs and the match -/

/-- ONE OXM/NXM TLV `b` of a non-experimenter class whose (class, field) the walker's table knows with width `w`, of
    fixed length (not tun_metadata), carrying exactly `w` payload bytes (`2·w` with the mask bit): accepted, whatever
    follows, consuming exactly its bytes -/
theorem walkOxm_accept (b tail : Bytes) (cls fm len w : Nat) (h4 : b.length = 4 + len) (hc : u16At b 0 = cls)
    (hf : u8At b 2 = fm) (hl : u8At b 3 = len) (hne : cls ≠ 0xffff) (hw : oxmLegalWidth cls (fm / 2) = some w)
    (hnv : ¬ (cls = 1 ∧ 40 ≤ fm / 2 ∧ fm / 2 ≤ 103)) (hlen : len = if fm % 2 = 1 then 2 * w else w) :
    walkOxm (b ++ tail) = .ok (.node s!"oxm {cls} {fm / 2} {if (decide (fm % 2 = 1)) = true then 1 else 0}" b [], b.length) := by
  have e0 : u16At (b ++ tail) 0 = cls := by rw [u16At_append_left _ _ _ (by omega), hc]
  have e2 : u8At (b ++ tail) 2 = fm := by rw [u8At_append_left _ _ _ (by omega), hf]
  have e3 : u8At (b ++ tail) 3 = len := by rw [u8At_append_left _ _ _ (by omega), hl]
  have l1 : ¬ (b ++ tail).length < 4 := by simp; omega
  have l2 : ¬ (b ++ tail).length < 4 + len := by simp; omega
  have t1 : (b ++ tail).take (4 + len) = b := by rw [← h4]; exact List.take_left
  unfold walkOxm
  simp only [e0, e2, e3, l1, l2, t1, hne, hw, if_false]
  by_cases hm : fm % 2 = 1
  · simp only [hm, if_true] at hlen
    simp [hm, hnv, hlen, h4]
    rfl
  · simp only [hm, if_false] at hlen
    simp [hm, hnv, hlen, h4]
    rfl

/-- the walker accepts `b` as ONE OXM TLV, whatever follows -/
def OxmAccept (b : Bytes) (t : Tree) : Prop := 0 < b.length ∧ ∀ tail, walkOxm (b ++ tail) = .ok (t, b.length)

theorem walkOxms_flatten (ot : Bytes → Tree) (bss : List Bytes) (h : ∀ b ∈ bss, OxmAccept b (ot b)) :
    ∀ fuel, bss.length < fuel → walkOxms fuel bss.flatten = .ok (bss.map ot) := by
  induction bss with
  | nil => intro fuel hf; cases fuel with
    | zero => omega
    | succ f => simp [walkOxms]; rfl
  | cons c cs ih =>
    intro fuel hf
    cases fuel with
    | zero => omega
    | succ f =>
      obtain ⟨hpos, ha⟩ := h c (by simp)
      have hne := isEmpty_append_false c cs.flatten hpos
      have hd : (c ++ cs.flatten).drop c.length = cs.flatten := List.drop_left
      have hn0 : ¬ c.length = 0 := by omega
      have hrec := ih (fun x hx => h x (by simp [hx])) f (by simp at hf; omega)
      rw [List.flatten_cons, walkOxms]
      simp only [hne, Bool.false_eq_true, if_false, ha cs.flatten]
      show (do if c.length = 0 then fail "oxm: no progress"
               let rest ← walkOxms f ((c ++ cs.flatten).drop c.length); pure (ot c :: rest) : W (List Tree)) = _
      rw [hd, hrec, if_neg hn0]
      rfl

theorem count_le_flatten' (bss : List Bytes) (h : ∀ b ∈ bss, 1 ≤ b.length) : bss.length ≤ bss.flatten.length := by
  induction bss with
  | nil => simp
  | cons b bs ih =>
    have := ih (fun x hx => h x (by simp [hx]))
    have := h b (by simp)
    simp only [List.flatten_cons, List.length_append, List.length_cons]
    omega

/-- a match `m` = type 1, length word `len` = 4 + the fields' bytes, the accepted fields `fs`, zero padding up to the
    next multiple of 8: accepted by `Spec.walkMatch`, whatever follows, with one subtree per field; all of `m` consumed -/
theorem walkMatch_accept (ot : Bytes → Tree) (m tail : Bytes) (fs : List Bytes) (len : Nat) (h0 : u16At m 0 = 1)
    (h2 : u16At m 2 = len) (hlen : len = 4 + fs.flatten.length) (hml : m.length = round8 len)
    (hf : slice m 4 (len - 4) = fs.flatten) (hz : allZero (m.drop len) = true) (hok : ∀ b ∈ fs, OxmAccept b (ot b)) :
    walkMatch (m ++ tail) = .ok (.node "match" m (fs.map ot), m.length) := by
  have hr : len ≤ m.length ∧ 8 ≤ m.length := by rw [hml]; unfold round8; omega
  have e0 : u16At (m ++ tail) 0 = 1 := by rw [u16At_append_left _ _ _ (by omega), h0]
  have e2 : u16At (m ++ tail) 2 = len := by rw [u16At_append_left _ _ _ (by omega), h2]
  have l1 : ¬ (m ++ tail).length < 4 := by simp; omega
  have l2 : ¬ len < 4 := by omega
  have l3 : ¬ (m ++ tail).length < round8 len := by rw [← hml]; simp
  have hs : slice (m ++ tail) 4 (len - 4) = fs.flatten := by rw [slice_append_left _ _ _ _ (by omega), hf]
  have hcnt := count_le_flatten' fs (fun b hb => (hok b hb).1)
  have hw := walkOxms_flatten ot fs hok (len + 1) (by omega)
  have hz' : zerosAt (m ++ tail) len (round8 len - len) "match" = .ok () :=
    zerosAt_ok _ _ _ _ (by rw [← hml, slice_append_tail _ _ _ hr.1]; exact hz)
  have t1 : (m ++ tail).take (round8 len) = m := by rw [← hml]; exact List.take_left
  unfold walkMatch
  simp only [e0, e2, l1, l2, l3, hs, hw, hz', t1, ne_eq, not_true_eq_false, if_false]
  rw [← hml]
  rfl

end OFV.Walk4
