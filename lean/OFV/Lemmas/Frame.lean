/-
  OFV.Lemmas.Frame — the first bytes of an encoding (used by Props/C01b: message framing).

  * encoders of the `make([]byte, Len()) + copy` shape (`fill L (pCopy hb :: …)`): later pieces are written at offsets
    ≥ len(hb), so the buffer starts with `hb` — provided the buffer is at least that long, which a following write
    (that did not panic) guarantees;
  * the 8 header bytes `Header.bytes` produces, and what `Header.setLength` stores;
  * `hdrOf` = the embedded header of a message value (its first field).
-/
import OFV.Model.All
import OFV.Lemmas.Size
import OFV.Lemmas.SizeTac
import OFV.Lemmas.BeAt
namespace OFV.Frame
open OFV OFV.Go OFV.Model OFV.Spec

/-! ### prefixes of `fill` -/

theorem overwrite_keeps (buf : Bytes) (n k : Nat) (bs : Bytes) (hk : k ≤ n) (hn : n ≤ buf.length) :
    (overwrite buf n bs).take k = buf.take k := by
  unfold overwrite
  rw [List.append_assoc, List.take_append_of_le_length (by simp; omega), List.take_take, Nat.min_eq_left hk]

/-- pieces written from offset `n` on never touch the first `n` bytes (nor any shorter prefix) -/
theorem fillFrom_keeps (ps : List Piece) : ∀ (buf : Bytes) (n k : Nat) (out : Bytes), k ≤ n →
    fillFrom buf n ps = .ok out → out.take k = buf.take k := by
  induction ps with
  | nil => intro buf n k out _ h; simp [fillFrom] at h; rw [h]
  | cons p ps ih =>
    intro buf n k out hk h
    cases p with
    | put bs =>
      simp only [fillFrom] at h
      split at h
      · rw [ih _ _ k _ (by omega) h, overwrite_keeps _ _ _ _ hk (by omega)]
      · exact absurd h (by simp)
    | copy bs =>
      simp only [fillFrom] at h
      split at h
      · rw [ih _ _ k _ (by omega) h, overwrite_keeps _ _ _ _ hk (by omega)]
      · exact absurd h (by simp)
    | copyAdv bs a =>
      simp only [fillFrom] at h
      split at h
      · rw [ih _ _ k _ (by omega) h, overwrite_keeps _ _ _ _ hk (by omega)]
      · exact absurd h (by simp)
    | skip j =>
      simp only [fillFrom] at h
      exact ih _ _ k _ (by omega) h

/-- a buffer that starts with a copied block keeps it: `fill L (pCopy hb :: ps)` starts with `hb` when `hb` fits -/
theorem fill_head (L : Nat) (hb : Bytes) (ps : List Piece) (out : Bytes)
    (h : fill L (pCopy hb :: ps) = .ok out) (hfit : hb.length ≤ L) : out.take hb.length = hb := by
  simp only [fill, pCopy, fillFrom, Nat.zero_le, if_true, Nat.zero_add] at h
  rw [fillFrom_keeps ps _ _ hb.length _ (Nat.le_refl _) h]
  simp only [overwrite, List.take_zero, List.nil_append, zeros_length, Nat.sub_zero, Nat.zero_add]
  rw [List.take_of_length_le hfit, List.take_append_of_le_length (Nat.le_refl _), List.take_length]

/-- a write (anything but a skip) at offset `n` that did not panic shows that `n` is inside the buffer -/
theorem fillFrom_ok_le (buf : Bytes) (n : Nat) (p : Piece) (ps : List Piece) (out : Bytes)
    (hp : ∀ k, p ≠ .skip k) (h : fillFrom buf n (p :: ps) = .ok out) : n ≤ buf.length := by
  cases p with
  | put bs =>
    simp only [fillFrom] at h
    split at h
    · omega
    · exact absurd h (by simp)
  | copy bs =>
    simp only [fillFrom] at h
    split at h
    · assumption
    · exact absurd h (by simp)
  | copyAdv bs a =>
    simp only [fillFrom] at h
    split at h
    · assumption
    · exact absurd h (by simp)
  | skip j => exact absurd rfl (hp j)

/-- `fill L (pCopy hb :: p :: ps)` succeeded and `p` writes something: `hb` fits, so the buffer starts with it -/
theorem fill_head_of_next (L : Nat) (hb : Bytes) (p : Piece) (ps : List Piece) (out : Bytes)
    (hp : ∀ k, p ≠ .skip k) (h : fill L (pCopy hb :: p :: ps) = .ok out) :
    hb.length ≤ L ∧ out.take hb.length = hb := by
  have hfit : hb.length ≤ L := by
    have h' := h
    simp only [fill, pCopy, fillFrom, Nat.zero_le, if_true, Nat.zero_add] at h'
    have := fillFrom_ok_le _ _ _ _ _ hp h'
    rw [overwrite_length _ _ _ (Nat.zero_le _)] at this
    simpa using this
  exact ⟨hfit, fill_head L hb _ out h hfit⟩

/-- `copy(data[n:], hb); n += 8` of an 8-byte block is a plain copy -/
theorem fill_copyAdv8 (L : Nat) (hb : Bytes) (ps : List Piece) (h8 : hb.length = 8) :
    fill L (pCopyAdv hb 8 :: ps) = fill L (pCopy hb :: ps) := by
  simp only [fill, pCopyAdv, pCopy, fillFrom, h8]

/-! ### the OpenFlow header -/

/-- the embedded header of a message value: its first field (`.nil` if there is none) -/
def hdrOf : V → V
  | .obj _ (h :: _) => h
  | _ => .nil

/-- the eight bytes on the wire: version, type, length, transaction id -/
def frameBytes (ver ty len xid : Nat) : Bytes := [n8 ver, n8 ty] ++ be16 (n16 len) ++ be32 (n32 xid)

theorem frameBytes_length (ver ty len xid : Nat) : (frameBytes ver ty len xid).length = 8 := rfl

/-- `h.Length = l` followed by `h.MarshalBinary()` on a header with version `ver`, type `ty`, transaction id `xid` -/
theorem hdr_bytes_setLength (ver ty xid : Nat) (ln : V) (l : UInt16) (hb : Bytes)
    (h : Header.bytes (Header.setLength l (.obj "Header" [.num ver, .num ty, ln, .num xid])) = .ok hb) :
    hb = frameBytes ver ty l.toNat xid := by
  simp only [Header.setLength, V.u16, Header.bytes, Res.ok.injEq] at h
  exact h.symm

theorem n16_of_toNat (l : UInt16) : n16 l.toNat = l := by
  apply UInt16.toNat_inj.mp
  simp only [n16, UInt16.toNat_ofNat']
  exact Nat.mod_eq_of_lt l.toNat_lt

theorem take8_append (hb rest : Bytes) (h : hb.length = 8) : (hb ++ rest).take 8 = hb := by
  rw [← h, List.take_append_of_le_length (Nat.le_refl _), List.take_length]

/-! ### what "framed" means -/

/-- one successful encoding `(bs, v')` of a message whose embedded header carries version `ver`, type `ty` and
    transaction id `xid` is FRAMED when
    * the first eight bytes are: version, type, the exact number of bytes produced (big-endian uint16), transaction id;
    * the header stored back in the value (Go: `m.Header.Length = m.Len()`) holds that same number. -/
structure Framed (ver ty xid : Nat) (bs : Bytes) (v' : V) : Prop where
  head : bs.take 8 = frameBytes ver ty bs.length xid
  stored : hdrOf v' = .obj "Header" [.num ver, .num ty, .num bs.length, .num xid]

/-- a framed encoding has at least the eight header bytes -/
theorem Framed.length_ge {ver ty xid : Nat} {bs : Bytes} {v' : V} (h : Framed ver ty xid bs v') : 8 ≤ bs.length := by
  have := congrArg List.length h.head
  rw [frameBytes_length, List.length_take] at this
  omega

/-- eight leading bytes of that form, read field by field as a receiver does: byte 0 = version, byte 1 = type,
    bytes 2–3 = the number of bytes produced, bytes 4–7 = transaction id -/
theorem head_reads {ver ty xid : Nat} {bs : Bytes} (h : bs.take 8 = frameBytes ver ty bs.length xid)
    (hv : ver < 256) (ht : ty < 256) (hx : xid < 4294967296) (hl : bs.length < 65536) :
    beAt bs 0 1 = ver ∧ beAt bs 1 1 = ty ∧ beAt bs 2 2 = bs.length ∧ beAt bs 4 4 = xid := by
  have hsplit : bs = frameBytes ver ty bs.length xid ++ bs.drop 8 := by
    conv => lhs; rw [← List.take_append_drop 8 bs, h]
  generalize bs.length = n at hsplit hl
  rw [hsplit]
  simp only [frameBytes, be16, be32, n8, n16, n32, UInt16.toNat_ofNat', UInt32.toNat_ofNat']
  refine ⟨?_, ?_, ?_, ?_⟩ <;> simp [beAt] <;> omega

/-- a framed encoding, field by field -/
theorem Framed.reads {ver ty xid : Nat} {bs : Bytes} {v' : V} (h : Framed ver ty xid bs v')
    (hv : ver < 256) (ht : ty < 256) (hx : xid < 4294967296) (hl : bs.length < 65536) :
    beAt bs 0 1 = ver ∧ beAt bs 1 1 = ty ∧ beAt bs 2 2 = bs.length ∧ beAt bs 4 4 = xid :=
  head_reads h.head hv ht hx hl

/-- `append`-style encoders (`data, _ = hdr.MarshalBinary(); data = append(data, …)`): the encoding starts with the
    header bytes, which were produced after `Header.Length = l` -/
theorem framed_append (ver ty xid : Nat) (ln : V) (l : UInt16) (hb rest : Bytes) (v' : V)
    (hhb : Header.bytes (Header.setLength l (.obj "Header" [.num ver, .num ty, ln, .num xid])) = .ok hb)
    (hlen : (hb ++ rest).length = l.toNat)
    (hst : hdrOf v' = Header.setLength l (.obj "Header" [.num ver, .num ty, ln, .num xid])) :
    Framed ver ty xid (hb ++ rest) v' := by
  have e8 := Header.bytes_length _ _ hhb
  constructor
  · rw [take8_append _ _ e8, hlen]
    exact hdr_bytes_setLength _ _ _ _ _ _ hhb
  · rw [hst, hlen]; rfl

/-- `make([]byte, L) + copy`-style encoders whose first piece is the header and whose buffer has room for it: the
    buffer starts with the header bytes (later pieces are written behind them) -/
theorem framed_fill_fit (ver ty xid : Nat) (ln : V) (l : UInt16) (hb : Bytes) (L : Nat) (ps : List Piece)
    (out : Bytes) (v' : V)
    (hhb : Header.bytes (Header.setLength l (.obj "Header" [.num ver, .num ty, ln, .num xid])) = .ok hb)
    (hfit : 8 ≤ L) (hfill : fill L (pCopy hb :: ps) = .ok out) (hlen : out.length = l.toNat)
    (hst : hdrOf v' = Header.setLength l (.obj "Header" [.num ver, .num ty, ln, .num xid])) :
    Framed ver ty xid out v' := by
  have e8 := Header.bytes_length _ _ hhb
  have htk := fill_head L hb ps out hfill (by omega)
  rw [e8] at htk
  constructor
  · rw [htk, hlen]
    exact hdr_bytes_setLength _ _ _ _ _ _ hhb
  · rw [hst, hlen]; rfl

/-- … and the room is there as soon as one further write succeeded (a write beyond the buffer panics) -/
theorem framed_fill (ver ty xid : Nat) (ln : V) (l : UInt16) (hb : Bytes) (L : Nat) (p : Piece) (ps : List Piece)
    (out : Bytes) (v' : V)
    (hhb : Header.bytes (Header.setLength l (.obj "Header" [.num ver, .num ty, ln, .num xid])) = .ok hb)
    (hp : ∀ k, p ≠ .skip k) (hfill : fill L (pCopy hb :: p :: ps) = .ok out) (hlen : out.length = l.toNat)
    (hst : hdrOf v' = Header.setLength l (.obj "Header" [.num ver, .num ty, ln, .num xid])) :
    Framed ver ty xid out v' := by
  have e8 := Header.bytes_length _ _ hhb
  obtain ⟨hfit, _⟩ := fill_head_of_next L hb p ps out hp hfill
  exact framed_fill_fit ver ty xid ln l hb L _ out v' hhb (by omega) hfill hlen hst

/-! ### what the constructors stamp, and what the API leaves alone -/

/-- `v` is a message whose embedded header carries protocol version 1.3 (wire value 4 = `Gen.openflow13.VERSION`), the
    type code `ty` and the transaction id `xid` (the stored Length is whatever it is: every encoder overwrites it) -/
def Stamped (ty xid : Nat) (v : V) : Prop :=
  ∃ ln, hdrOf v = .obj "Header" [.num Gen.openflow13.VERSION, .num ty, ln, .num xid]

/-- `m.Xid = x` (promoted field of the embedded header): what every program does right after a constructor that drew
    its header from `NewOfp13Header()` -/
def setXid (x : Nat) : V → V
  | .obj k (.obj "Header" [a, b, c, _] :: rest) => .obj k (.obj "Header" [a, b, c, .num x] :: rest)
  | v => v

theorem Stamped.setXid {ty xid : Nat} {v : V} (h : Stamped ty xid v) (x : Nat) : Stamped ty x (setXid x v) := by
  obtain ⟨ln, hh⟩ := h
  cases v with
  | obj k fs =>
    cases fs with
    | nil => simp [hdrOf] at hh
    | cons f rest =>
      simp only [hdrOf] at hh
      subst hh
      exact ⟨ln, rfl⟩
  | _ => simp [hdrOf] at hh

/-- anything that leaves the embedded header alone (adders, setters of other fields) keeps the stamp -/
theorem Stamped.of_hdr_eq {ty xid : Nat} {v v' : V} (h : Stamped ty xid v) (he : hdrOf v' = hdrOf v) : Stamped ty xid v' := by
  obtain ⟨ln, hh⟩ := h
  exact ⟨ln, he.trans hh⟩

/-- the four multipart request bodies the library has -/
def IsMpBody (b : V) : Prop :=
  (∃ fs, b = .obj "FlowStatsRequest" fs) ∨ (∃ fs, b = .obj "AggregateStatsRequest" fs) ∨
  (∃ fs, b = .obj "PortStatsRequest" fs) ∨ (∃ fs, b = .obj "QueueStatsRequest" fs)

/-- what `VendorHeader.MarshalBinary()` needs of its payload: the encoder calls `Len()` twice (once for `Header.Length`,
    once for `make`), so the payload's `Len()` must be repeatable and must leave a non-nil payload behind -/
def VendorPayloadOK (d : V) : Prop :=
  LenIdem anyLenM d ∧ ∀ l d', anyLenM d = .ok (l, d') → d' ≠ .nil

theorem VendorPayloadOK.of_pure (d : V) (hp : LenPure anyLenM d) (hd : d ≠ .nil) : VendorPayloadOK d :=
  ⟨hp.idem, fun l d' h => by rw [hp l d' h]; exact hd⟩

end OFV.Frame
