/-
  OFV.Lemmas.RT2Port — PortMod and PacketOut through their own decoders (Parse dispatches neither).  Used by OFV/Props/C05b.lean.
-/
import OFV.Model.All
import OFV.Lemmas.Size
import OFV.Lemmas.RTBasic
import OFV.Lemmas.RTMsg
import OFV.Lemmas.RTMsgMore
import OFV.Lemmas.RT2Nx
namespace OFV.RT2
set_option linter.unusedSimpArgs false
open OFV OFV.Go OFV.Model OFV.RT

theorem anyLen_buffer (c : Bytes) : anyLenM (UBuffer.mk c) = .ok (n16 c.length, UBuffer.mk c) := rfl
theorem anyMarshal_buffer (c : Bytes) : anyMarshalM (UBuffer.mk c) = .ok (c, UBuffer.mk c) := rfl
theorem leafUnmarshal_buffer (c : Bytes) (d : Slice) : msgLeafUnmarshal (UBuffer.mk c) d = .ok (UBuffer.mk d.bytes) := rfl

theorem bind_ne_ok {α β} (r : R α) (f : α → R β) (y : β) (h : ∀ a, f a ≠ .ok y) : (r >>= f) ≠ .ok y := by
  cases r with
  | ok a => exact h a
  | err => intro h'; cases h'
  | panic => intro h'; cases h'
  | spin => intro h'; cases h'

/-- PacketOut.UnmarshalBinary into a receiver whose Data is nil — `new(PacketOut)` and `NewPacketOut()`, the only receivers the
    library builds — never succeeds: whatever the bytes are, the call panics (`p.Data.UnmarshalBinary` on the nil interface,
    if the action loop is survived at all), returns an error, or does not terminate. -/
theorem packetOut_data_nil (h0 b ip al pad : V) (as0 : List V) (data : Slice) (v : V) :
    PacketOut.unmarshal (.obj "PacketOut" [h0, b, ip, al, pad, .list as0, .nil]) data ≠ .ok v := by
  unfold PacketOut.unmarshal
  simp only
  refine bind_ne_ok _ _ _ (fun _ => ?_)
  refine bind_ne_ok _ _ _ (fun _ => ?_)
  refine bind_ne_ok _ _ _ (fun _ => ?_)
  refine bind_ne_ok _ _ _ (fun _ => ?_)
  refine bind_ne_ok _ _ _ (fun _ => ?_)
  intro h; cases h


/-- a PacketOut value -/
def packetOutV (ver ty ln xid b ip al : Nat) (pad : V) (as : List V) (d : V) : V :=
  .obj "PacketOut" [.obj "Header" [.num ver, .num ty, .num ln, .num xid], .num b, .num ip, .num al, pad, .list as, d]

/-- PacketOut WITHOUT actions, payload = a `util.Buffer` with `c`, decoded into a receiver whose Data has been pre-set to a Buffer
    (the only kind of receiver for which the decoder can return at all) from a buffer holding exactly the message: round trip. -/
theorem packetOut_noactions_rt (ver ty xid b ip : Nat) (c c0 : Bytes) (pad : V) (hver : ver < 256) (hty : ty < 256)
    (hxid : xid < 4294967296) (hb32 : b < 4294967296) (hip : ip < 4294967296) (hc : 24 + c.length < 65536) :
    let L := 24 + c.length
    let bs := [n8 ver, n8 ty] ++ be16 (n16 L) ++ be32 (n32 xid) ++ be32 (n32 b) ++ be32 (n32 ip) ++ be16 (n16 0) ++ zeros 6 ++ c
    (∀ ln0 al0, PacketOut.marshalM (packetOutV ver ty ln0 xid b ip al0 pad [] (UBuffer.mk c))
      = .ok (bs, packetOutV ver ty L xid b ip 0 pad [] (UBuffer.mk c))) ∧
    ∀ (data : Slice) (h0 b0 ip0 al0 : V), data.WF → data.bytes = bs →
      PacketOut.unmarshal (.obj "PacketOut" [h0, b0, ip0, al0, pad, .list [], UBuffer.mk c0]) data
        = .ok (packetOutV ver ty L xid b ip 0 pad [] (UBuffer.mk c)) := by
  intro L bs
  have hL : L < 65536 := hc
  have hbl : bs.length = L := by
    simp only [bs, List.length_append, be16_length, be32_length, zeros_length, List.length_cons, List.length_nil, L]
  have hlen : ∀ ln0 al0, PacketOut.lenWith anyLenM (packetOutV ver ty ln0 xid b ip al0 pad [] (UBuffer.mk c))
      = .ok (n16 L, packetOutV ver ty ln0 xid b ip al0 pad [] (UBuffer.mk c)) := by
    intro ln0 al0
    simp only [packetOutV, PacketOut.lenWith, mapM2, anyLen_buffer, Res.bind_ok, Res.pure_eq, sum16_nil]
    have : (8 : UInt16) + 16 + 0 + n16 c.length = n16 L := by
      have : (8 : UInt16) + 16 + 0 = n16 24 := rfl
      rw [this, n16_add]
    rw [this]
  constructor
  · intro ln0 al0
    unfold PacketOut.marshalM PacketOut.marshalWith
    rw [hlen ln0 al0]
    simp only [Res.bind_ok]
    have := hlen ln0 al0
    simp only [packetOutV] at this ⊢
    rw [this]
    simp only [Res.bind_ok, Header.setLength, Header.bytes, mapM2, Res.pure_eq, sum16_nil, List.map_nil, List.append_nil,
      anyMarshal_buffer, u16_n16 L hL, n16_toNat L hL]
    have h0 : (0 : UInt16).toNat = 0 := rfl
    rw [h0]
    have hp1 : piecesLen [pCopy ([n8 ver, n8 ty] ++ be16 (n16 L) ++ be32 (n32 xid)), pU32 b, pU32 ip, pU16 0, pSkip 6] = 24 := rfl
    rw [fill_exact L _ (by intro p hp; simp at hp; rcases hp with rfl | rfl | rfl | rfl | rfl <;> trivial) (by rw [hp1]; simp only [L]; omega)]
    simp only [Res.bind_ok]
    have hp2 : piecesLen ([pCopy ([n8 ver, n8 ty] ++ be16 (n16 L) ++ be32 (n32 xid)), pU32 b, pU32 ip, pU16 0, pSkip 6] ++ [pCopy c]) = L := by
      rw [piecesLen_app, hp1]; simp [piecesLen, pCopy, Piece.adv, L]
    rw [fill_eq L _ (by intro p hp; simp at hp; rcases hp with rfl | rfl | rfl | rfl | rfl | rfl <;> trivial) hp2]
    simp [piecesBytes, pCopy, pU32, pU16, pSkip, Piece.bytes, bs]
  · intro data h0 b0 ip0 al0 hd hb
    have hlen' : L ≤ data.len := by
      have := Slice.bytes_length_le data
      rw [hb, hbl] at this; exact this
    have hb' : data.bytes = ([n8 ver, n8 ty] ++ be16 (n16 L) ++ be32 (n32 xid)) ++ (be32 (n32 b) ++ (be32 (n32 ip) ++ (be16 (n16 0) ++ (zeros 6 ++ c)))) := by
      rw [hb]; simp only [bs, List.append_assoc]
    obtain ⟨_, _, hhdr⟩ := header_roundtrip ver ty L xid hver hty hL hxid
    have hh := hhdr h0 data _ hd hb'
    have e8 : rd32 (data.bytes.drop 8) = some (n32 b) := by rw [hb']; exact rd32_be32 _ _
    have e12 : rd32 (data.bytes.drop 12) = some (n32 ip) := by rw [hb']; exact rd32_be32 _ _
    have e16 : rd16 (data.bytes.drop 16) = some (n16 0) := by rw [hb']; exact rd16_be16 _ _
    obtain ⟨dd, hd1, hd2, _⟩ := Slice.fromR_bytes data 24 (by omega)
    have hddb : dd.bytes = c := by rw [hd2, hb']; rfl
    unfold PacketOut.unmarshal
    simp only [msgTryU, hh, Res.bind_ok, Slice.u32From_eq, Slice.u16From_eq, e8, e12, e16, Res.ofOption]
    have hloop : msgLoopW (σ := PacketOut.St) 65537 (fun s => decide (s.n < s.n + n16 0)) (fun s => s.n.toNat)
        (fun s => do
          let d ← data.fromR s.n.toNat
          let a ← DecodeAction (data.cap + 1) d
          let (l, a) ← Action.lenM a
          pure { n := s.n + l, as := s.as ++ [a] }) { n := 24, as := [] } = .ok { n := 24, as := [] } := by
      unfold msgLoopW
      rfl
    erw [hloop]
    have h24 : (24 : UInt16).toNat = 24 := rfl
    simp only [Res.bind_ok, UBuffer.mk, h24, hd1, msgLeafUnmarshal]
    have := leafUnmarshal_buffer c0 dd
    simp only [UBuffer.mk, msgLeafUnmarshal] at this
    rw [this]
    simp only [Res.bind_ok, Res.pure_eq, hddb, u32_n32 b hb32, u32_n32 ip hip, packetOutV, UBuffer.mk]
    rfl


/-- a PortMod value -/
def portModV (ver ty ln xid no : Nat) (pad hw pad2 : Bytes) (cfg mask adv : Nat) (pad3 : Bytes) : V :=
  .obj "PortMod" [.obj "Header" [.num ver, .num ty, .num ln, .num xid], .num no, .bytes pad, .bytes hw, .bytes pad2, .num cfg, .num mask,
    .num adv, .bytes pad3]

theorem copyAdv_zeros (k a : Nat) (h : k ≤ a) : (pCopyAdv (zeros k) a).bytes = zeros a := by
  simp only [pCopyAdv, Piece.bytes, zeros, List.take_replicate, List.length_replicate, List.replicate_append_replicate]
  congr 1; omega

theorem copyInto_zeros_le (pad : Bytes) (n : Nat) (tail : Bytes) (h : pad.length ≤ n) :
    copyInto pad (zeros n ++ tail) = zeros pad.length := by
  simp only [copyInto, zeros, List.take_append, List.take_replicate, List.length_replicate, List.length_append]
  have h1 : pad.length - n = 0 := by omega
  have h2 : List.drop (n + tail.length) pad = [] := List.drop_eq_nil_of_le (by omega)
  rw [h1, h2, Nat.min_eq_left h]
  simp

/-- PortMod (40 bytes) with unexported pads that are nil or zero bytes: `MarshalBinary` stores 40 in Header.Length and writes
    header, port, 4 pad bytes, the 6-byte address, 2 pad bytes, config / mask / advertise, 4 pad bytes. -/
theorem portMod_marshal (ver ty xid no : Nat) (hw : Bytes) (cfg mask adv k1 k2 k3 : Nat) (hhw : hw.length = 6)
    (hk1 : k1 ≤ 4) (hk2 : k2 ≤ 2) (hk3 : k3 ≤ 4) (ln0 : Nat) :
    PortMod.marshalM (portModV ver ty ln0 xid no (zeros k1) hw (zeros k2) cfg mask adv (zeros k3)) =
      .ok ([n8 ver, n8 ty] ++ be16 (n16 40) ++ be32 (n32 xid) ++ be32 (n32 no) ++ zeros 4 ++ hw ++ zeros 2 ++ be32 (n32 cfg)
          ++ be32 (n32 mask) ++ be32 (n32 adv) ++ zeros 4,
        portModV ver ty 40 xid no (zeros k1) hw (zeros k2) cfg mask adv (zeros k3)) := by
  obtain ⟨a0, a1, a2, a3, a4, a5, rfl⟩ := list_len6 hw hhw
  unfold PortMod.marshalM
  simp only [portModV, PortMod.lenM, same, Res.bind_ok, Header.setLength, Header.bytes]
  have hp : piecesLen [pU32 no, pCopyAdv (zeros k1) 4, pCopyAdv [a0, a1, a2, a3, a4, a5] Gen.openflow13.ETH_ALEN, pCopyAdv (zeros k2) 2,
      pU32 cfg, pU32 mask, pU32 adv, pCopyAdv (zeros k3) 4] = 32 := rfl
  rw [fill_eq 32 _ (by intro p hp; simp at hp; rcases hp with rfl | rfl | rfl | rfl | rfl | rfl | rfl | rfl <;>
    first | trivial | exact (Nat.le_of_eq rfl) | (simp only [pCopyAdv, Piece.Tight, zeros_length]; assumption)) hp]
  simp only [piecesBytes, List.map_cons, List.map_nil, List.flatten_cons, List.flatten_nil, List.append_nil,
    copyAdv_zeros k1 4 hk1, copyAdv_zeros k2 2 hk2, copyAdv_zeros k3 4 hk3, Res.bind_ok]
  rfl

/-- PortMod.UnmarshalBinary into ANY PortMod receiver whose unexported pads hold at most 4 / 2 / 4 bytes (nil in `new(PortMod)`,
    4 / 2 / 4 zero bytes in `NewPortMod(p0)`), whatever its HWAddr (a receiver address that is not 6 bytes long is replaced by a
    fresh 6-byte one): all exported fields come back, the pads keep their lengths and hold zeros. -/
theorem portMod_decode (ver ty xid no : Nat) (hw : Bytes) (cfg mask adv : Nat) (hver : ver < 256) (hty : ty < 256) (hxid : xid < 4294967296)
    (hno : no < 4294967296) (hhw : hw.length = 6) (hcfg : cfg < 4294967296) (hmask : mask < 4294967296) (hadv : adv < 4294967296)
    (h0 x y z w : V) (p1 hw0 p2 p3 : Bytes) (hp1 : p1.length ≤ 4) (hp2 : p2.length ≤ 2) (hp3 : p3.length ≤ 4)
    (data : Slice) (tail : Bytes) (hd : data.WF)
    (hb : data.bytes = [n8 ver, n8 ty] ++ be16 (n16 40) ++ be32 (n32 xid) ++ be32 (n32 no) ++ zeros 4 ++ hw ++ zeros 2 ++ be32 (n32 cfg)
      ++ be32 (n32 mask) ++ be32 (n32 adv) ++ zeros 4 ++ tail) :
    PortMod.unmarshal (.obj "PortMod" [h0, x, .bytes p1, .bytes hw0, .bytes p2, y, z, w, .bytes p3]) data
      = .ok (portModV ver ty 40 xid no (zeros p1.length) hw (zeros p2.length) cfg mask adv (zeros p3.length)) := by
  obtain ⟨a0, a1, a2, a3, a4, a5, rfl⟩ := list_len6 hw hhw
  have hlen := Slice.len_ge_of_bytes data _ _ hb
  have h40 : ([n8 ver, n8 ty] ++ be16 (n16 40) ++ be32 (n32 xid) ++ be32 (n32 no) ++ zeros 4 ++ [a0, a1, a2, a3, a4, a5] ++ zeros 2
      ++ be32 (n32 cfg) ++ be32 (n32 mask) ++ be32 (n32 adv) ++ zeros 4).length = 40 := rfl
  rw [h40] at hlen
  have hb' : data.bytes = ([n8 ver, n8 ty] ++ be16 (n16 40) ++ be32 (n32 xid)) ++ (be32 (n32 no) ++ (zeros 4 ++ ([a0, a1, a2, a3, a4, a5] ++
      (zeros 2 ++ (be32 (n32 cfg) ++ (be32 (n32 mask) ++ (be32 (n32 adv) ++ (zeros 4 ++ tail)))))))) := by
    rw [hb]; simp only [List.append_assoc]
  obtain ⟨_, _, hhdr⟩ := header_roundtrip ver ty 40 xid hver hty (by decide) hxid
  have hh := hhdr h0 data _ hd hb'
  have e8 : rd32 (data.bytes.drop 8) = some (n32 no) := by rw [hb']; exact rd32_be32 _ _
  have e24 : rd32 (data.bytes.drop 24) = some (n32 cfg) := by rw [hb']; exact rd32_be32 _ _
  have e28 : rd32 (data.bytes.drop 28) = some (n32 mask) := by rw [hb']; exact rd32_be32 _ _
  have e32 : rd32 (data.bytes.drop 32) = some (n32 adv) := by rw [hb']; exact rd32_be32 _ _
  obtain ⟨s1, hs11, hs12, _⟩ := Slice.sliceR_bytes data hd 12 16 (by omega) (by omega)
  obtain ⟨s2, hs21, hs22, _⟩ := Slice.sliceR_bytes data hd 16 22 (by omega) (by omega)
  obtain ⟨s3, hs31, hs32, _⟩ := Slice.sliceR_bytes data hd 22 24 (by omega) (by omega)
  obtain ⟨s4, hs41, hs42, _⟩ := Slice.fromR_bytes data 36 (by omega)
  have b1 : s1.bytes = zeros 4 ++ [] := by rw [hs12, hb']; rfl
  have b2 : s2.bytes = [a0, a1, a2, a3, a4, a5] := by rw [hs22, hb']; rfl
  have b3 : s3.bytes = zeros 2 ++ [] := by rw [hs32, hb']; rfl
  have b4 : s4.bytes = zeros 4 ++ tail := by rw [hs42, hb']; rfl
  have hhwr : copyInto (if hw0.length ≠ Gen.openflow13.ETH_ALEN then zeros Gen.openflow13.ETH_ALEN else hw0) [a0, a1, a2, a3, a4, a5]
      = [a0, a1, a2, a3, a4, a5] := by
    have := copyInto_prefix (if hw0.length ≠ Gen.openflow13.ETH_ALEN then zeros Gen.openflow13.ETH_ALEN else hw0)
      [a0, a1, a2, a3, a4, a5] [] (by split <;> rename_i hc <;> first | rfl | (simp only [ne_eq, Decidable.not_not] at hc; rw [hc]; rfl))
    rw [List.append_nil] at this
    exact this
  have hE : Gen.openflow13.ETH_ALEN = 6 := rfl
  unfold PortMod.unmarshal
  simp only [msgTryU, hh, Res.bind_ok, Slice.u32From_eq, e8, e24, e28, e32, Res.ofOption, hE, Nat.reduceAdd, hs11, hs21, hs31, hs41,
    Bool.false_eq_true, if_false, Res.pure_eq, u32_n32 no hno, u32_n32 cfg hcfg, u32_n32 mask hmask, u32_n32 adv hadv]
  rw [hE] at hhwr
  rw [b1, b2, b3, b4, copyInto_zeros_le p1 4 [] hp1, copyInto_zeros_le p2 2 [] hp2, copyInto_zeros_le p3 4 tail hp3, hhwr]
  rfl

/-- PortMod (40 bytes), decoded into `NewPortMod(p0)` (any p0) — a receiver with an allocated 6-byte HWAddr and pads.
    `MarshalBinary` stores 40 in Header.Length. -/
theorem portMod_rt (ver ty xid no : Nat) (hw : Bytes) (cfg mask adv : Nat) (hver : ver < 256) (hty : ty < 256) (hxid : xid < 4294967296)
    (hno : no < 4294967296) (hhw : hw.length = 6) (hcfg : cfg < 4294967296) (hmask : mask < 4294967296) (hadv : adv < 4294967296) :
    let v' := portModV ver ty 40 xid no (zeros 4) hw (zeros 2) cfg mask adv (zeros 4)
    let bs := [n8 ver, n8 ty] ++ be16 (n16 40) ++ be32 (n32 xid) ++ be32 (n32 no) ++ zeros 4 ++ hw ++ zeros 2 ++ be32 (n32 cfg)
      ++ be32 (n32 mask) ++ be32 (n32 adv) ++ zeros 4
    (∀ ln0, PortMod.marshalM (portModV ver ty ln0 xid no (zeros 4) hw (zeros 2) cfg mask adv (zeros 4)) = .ok (bs, v')) ∧
    bs.length = 40 ∧
    ∀ (p0 : Nat) (data : Slice) (tail : Bytes), data.WF → data.bytes = bs ++ tail → PortMod.unmarshal (PortMod.new p0) data = .ok v' := by
  intro v' bs
  refine ⟨fun ln0 => portMod_marshal ver ty xid no hw cfg mask adv 4 2 4 hhw (by omega) (by omega) (by omega) ln0, ?_, ?_⟩
  · simp only [bs, List.length_append, be16_length, be32_length, zeros_length, hhw, List.length_cons, List.length_nil]
  · intro p0 data tail hd hb
    exact portMod_decode ver ty xid no hw cfg mask adv hver hty hxid hno hhw hcfg hmask hadv _ _ _ _ _ (zeros 4)
      (zeros Gen.openflow13.ETH_ALEN) (zeros 2) (zeros 4) (by decide) (by decide) (by decide) data tail hd hb

/-- PortMod decoded into `new(PortMod)` (nil HWAddr and pads; fixed: the decoder used to advance by `len(p.HWAddr)` = 0 and read
    Config / Mask / Advertise 6 bytes too early): every exported field comes back, the unexported pads stay nil, and the
    result encodes to the same 40 bytes. -/
theorem portMod_rt_zero (ver ty xid no : Nat) (hw : Bytes) (cfg mask adv : Nat) (hver : ver < 256) (hty : ty < 256) (hxid : xid < 4294967296)
    (hno : no < 4294967296) (hhw : hw.length = 6) (hcfg : cfg < 4294967296) (hmask : mask < 4294967296) (hadv : adv < 4294967296) :
    let v0 := portModV ver ty 40 xid no [] hw [] cfg mask adv []
    let bs := [n8 ver, n8 ty] ++ be16 (n16 40) ++ be32 (n32 xid) ++ be32 (n32 no) ++ zeros 4 ++ hw ++ zeros 2 ++ be32 (n32 cfg)
      ++ be32 (n32 mask) ++ be32 (n32 adv) ++ zeros 4
    (∀ ln0, PortMod.marshalM (portModV ver ty ln0 xid no [] hw [] cfg mask adv []) = .ok (bs, v0)) ∧
    ∀ (data : Slice) (tail : Bytes), data.WF → data.bytes = bs ++ tail → PortMod.unmarshal PortMod.zero data = .ok v0 := by
  intro v0 bs
  refine ⟨fun ln0 => portMod_marshal ver ty xid no hw cfg mask adv 0 0 0 hhw (by omega) (by omega) (by omega) ln0, ?_⟩
  intro data tail hd hb
  exact portMod_decode ver ty xid no hw cfg mask adv hver hty hxid hno hhw hcfg hmask hadv _ _ _ _ _ [] [] [] []
    (by decide) (by decide) (by decide) data tail hd hb

end OFV.RT2
