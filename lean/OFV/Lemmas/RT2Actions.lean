/-
  OFV.Lemmas.RT2Actions — the Nicira leaf actions of RT2Nx / RT2Nat / RT2Learn as `ActionRT` facts, so that they can be elements of
  any action list.  Used by OFV/Props/C05b.lean.
-/
import OFV.Model.All
import OFV.Lemmas.Size
import OFV.Lemmas.RTBasic
import OFV.Lemmas.RTMatch
import OFV.Lemmas.RTAction
import OFV.Lemmas.RTList
import OFV.Lemmas.RTNx
import OFV.Lemmas.RT2Nx
import OFV.Lemmas.RT2Nat
import OFV.Lemmas.RT2Learn
namespace OFV.RT2
set_option linter.unusedSimpArgs false
open OFV OFV.Go OFV.Model OFV.RT

/-! the Nicira leaf actions as `ActionRT` facts (decoded form), so that they can be elements of any action list
    (InstrActions, Bucket, NXActionConnTrack …) -/

theorem actionRT_ctClear :
    ActionRT (.obj "NXActionCTClear" [nxHdr 16 Gen.openflow13.NXAST_CT_CLEAR, .bytes (zeros 4)])
      (nxHdrBytes 16 Gen.openflow13.NXAST_CT_CLEAR ++ zeros 6) := by
  obtain ⟨h1, h2, h3⟩ := nxCTClear_rt
  exact ⟨h1, h2, by decide, by decide, h3⟩

theorem actionRT_regLoad (ofs c f hm l val : Nat) (hofs : ofs < 65536) (hh : HdrOK c f hm l) (hval : val < 18446744073709551616) :
    ActionRT (.obj "NXActionRegLoad" [nxHdr 24 Gen.openflow13.NXAST_REG_LOAD, .num ofs, hdrField c f hm l, .num val])
      (nxHdrBytes 24 Gen.openflow13.NXAST_REG_LOAD ++ be16 (n16 ofs) ++ be32 (hdrWord c f hm l) ++ be64 (n64 val)) := by
  obtain ⟨_, h1, h2, h3⟩ := nxRegLoad_rt ofs c f hm l 0 val .nil .nil hofs hh hval
  exact ⟨h1, h2, by simp [nxHdrBytes], by simp [nxHdrBytes], h3⟩

theorem actionRT_regMove (nb so dso c1 f1 hm1 l1 c2 f2 hm2 l2 : Nat) (hnb : nb < 65536) (hso : so < 65536) (hdso : dso < 65536)
    (hh1 : HdrOK c1 f1 hm1 l1) (hh2 : HdrOK c2 f2 hm2 l2) :
    ActionRT (.obj "NXActionRegMove" [nxHdr 24 Gen.openflow13.NXAST_REG_MOVE, .num nb, .num so, .num dso, hdrField c1 f1 hm1 l1,
        hdrField c2 f2 hm2 l2])
      (nxHdrBytes 24 Gen.openflow13.NXAST_REG_MOVE ++ be16 (n16 nb) ++ be16 (n16 so) ++ be16 (n16 dso) ++ be32 (hdrWord c1 f1 hm1 l1)
        ++ be32 (hdrWord c2 f2 hm2 l2)) := by
  obtain ⟨_, h1, h2, h3⟩ := nxRegMove_rt nb so dso c1 f1 hm1 l1 0 c2 f2 hm2 l2 0 .nil .nil .nil .nil hnb hso hdso hh1 hh2
  exact ⟨h1, h2, by simp [nxHdrBytes], by simp [nxHdrBytes], h3⟩

theorem actionRT_outputReg (sub ofs c f hm l ml : Nat)
    (hsub : sub = Gen.openflow13.NXAST_OUTPUT_REG ∨ sub = Gen.openflow13.NXAST_OUTPUT_REG2) (hofs : ofs < 65536) (hh : HdrOK c f hm l)
    (hml : ml < 65536) :
    ActionRT (.obj "NXActionOutputReg" [nxHdr 24 sub, .num ofs, hdrField c f hm l, .num ml, .bytes (zeros 6)])
      (nxHdrBytes 24 sub ++ be16 (n16 ofs) ++ be32 (hdrWord c f hm l) ++ be16 (n16 ml) ++ zeros 6) := by
  obtain ⟨_, h1, h2, h3⟩ := nxOutputReg_rt sub ofs c f hm l 0 ml .nil .nil hsub hofs hh hml
  exact ⟨h1, h2, by simp [nxHdrBytes], by simp [nxHdrBytes], h3⟩

theorem actionRT_controller (ml id rs : Nat) (hml : ml < 65536) (hid : id < 65536) (hrs : rs < 256) :
    ActionRT (.obj "NXActionController" [nxHdr 16 Gen.openflow13.NXAST_CONTROLLER, .num ml, .num id, .num rs, .num 0])
      (nxHdrBytes 16 Gen.openflow13.NXAST_CONTROLLER ++ be16 (n16 ml) ++ be16 (n16 id) ++ [n8 rs, 0]) := by
  obtain ⟨h1, h2, h3⟩ := nxController_rt ml id rs hml hid hrs
  exact ⟨h1 16 (.num 0), h2, by simp [nxHdrBytes], by simp [nxHdrBytes], h3⟩

theorem actionRT_decTTLCntIDs (ln : Nat) (ns : List Nat) (hns : ∀ n ∈ ns, n < 65536) (hfit : 16 + 2 * ns.length ≤ ln) (hln : ln < 65536) :
    ActionRT (.obj "NXActionDecTTLCntIDs" [nxHdr ln Gen.openflow13.NXAST_DEC_TTL_CNT_IDS, .num ns.length, .bytes (zeros 4),
        .list (ns.map V.num)])
      (nxHdrBytes ln Gen.openflow13.NXAST_DEC_TTL_CNT_IDS ++ be16 (n16 ns.length) ++ zeros 4 ++ idsBytes ns ++ zeros (ln - (16 + 2 * ns.length))) := by
  obtain ⟨h1, h2, h3, h4⟩ := nxDecTTLCntIDs_rt ln ns hns hfit hln
  exact ⟨h1, by rw [h3]; exact h2, by rw [h3]; omega, by rw [h3]; exact hln, h4⟩

theorem actionRT_note (note : Bytes) (hn : 10 + note.length + 7 < 65536) :
    let L := (10 + note.length + 7) / 8 * 8
    let note' := note ++ zeros (L - (10 + note.length))
    ActionRT (.obj "NXActionNote" [nxHdr L Gen.openflow13.NXAST_NOTE, .bytes note']) (nxHdrBytes L Gen.openflow13.NXAST_NOTE ++ note') := by
  intro L note'
  obtain ⟨_, h1, h2, h3, h4⟩ := nxNote_rt note hn
  exact ⟨h1, by rw [h3]; exact h2, by rw [h3]; omega, by rw [h3]; omega, h4⟩

theorem actionRT_regLoad2 (f : V) (hf : MatchFieldWF f) :
    ∃ e L, ActionRT (.obj "NXActionRegLoad2" [nxHdr L Gen.openflow13.NXAST_REG_LOAD2, f, .bytes []]) e ∧ e.length = L := by
  obtain ⟨fb, _, h4, h518, h1, h2, h3, h5⟩ := nxRegLoad2_rt f hf
  refine ⟨nxHdrBytes ((10 + fb.length + 7) / 8 * 8) Gen.openflow13.NXAST_REG_LOAD2 ++ fb ++ zeros ((10 + fb.length + 7) / 8 * 8 - (10 + fb.length)),
    (10 + fb.length + 7) / 8 * 8, ⟨h1 _ _, ?_, ?_, ?_, h5⟩, h3⟩
  · rw [h3]; exact h2
  · rw [h3]; omega
  · rw [h3]; omega

theorem actionRT_ctnat (fl : Nat) (a4 b4 : Option IP4) (a6 b6 : Option Bytes) (pa pb : Option Nat) (hfl : fl < 65536)
    (ha6 : ∀ x, a6 = some x → x.length = 16) (hb6 : ∀ x, b6 = some x → x.length = 16)
    (hpa : ∀ x, pa = some x → x < 65536) (hpb : ∀ x, pb = some x → x < 65536) :
    let W := rangesWire a4 b4 a6 b6 pa pb
    let L := (16 + W.length + 7) / 8 * 8
    ActionRT (ctnatV L (.bytes []) fl a4 b4 a6 b6 pa pb)
      (nxHdrBytes L Gen.openflow13.NXAST_NAT ++ zeros 2 ++ be16 (n16 fl) ++ be16 (n16 (rangeBits a4 b4 a6 b6 pa pb)) ++ W
        ++ zeros (L - (16 + W.length))) := by
  intro W L
  obtain ⟨h1, h2, h3, h4⟩ := nxCTNAT_rt fl a4 b4 a6 b6 pa pb hfl ha6 hb6 hpa hpb
  have hW : (rangesWire a4 b4 a6 b6 pa pb).length ≤ 44 := rangesWire_le a4 b4 a6 b6 pa pb ha6 hb6
  exact ⟨h1 L _ (by simp only [L, W]; omega), by rw [h3]; exact h2, by rw [h3]; omega, by rw [h3]; omega, h4⟩

theorem actionRT_learn (idle hard prio cookie fl tid fi fh : Nat) (ss : List V) (es : List Bytes)
    (hidle : idle < 65536) (hhard : hard < 65536) (hprio : prio < 65536) (hcookie : cookie < 18446744073709551616)
    (hfl : fl < 65536) (htid : tid < 256) (hfi : fi < 65536) (hfh : fh < 65536) (hss : SpecsRT ss es)
    (hS : 32 + es.flatten.length + 7 < 65536) :
    let L := (32 + es.flatten.length + 7) / 8 * 8
    ActionRT (learnV L (.num 0) (.bytes []) idle hard prio cookie fl tid fi fh ss)
      (nxHdrBytes L Gen.openflow13.NXAST_LEARN ++ learnFixed idle hard prio cookie fl tid fi fh ++ es.flatten
        ++ zeros (L - (32 + es.flatten.length))) := by
  intro L
  obtain ⟨h1, h2, h3, h4⟩ := learn_rt idle hard prio cookie fl tid fi fh ss es hidle hhard hprio hcookie hfl htid hfi hfh hss hS
  exact ⟨h1 L _ _, by rw [h3]; exact h2, by rw [h3]; omega, by rw [h3]; omega, h4⟩

end OFV.RT2
