/-
  OFV.Lemmas.PoolEx — the concrete connection and schedules used by the `example`s of Props/C10b:
  2 buffers, 1 parser, 3 frames, reads that cut inside the 4-byte prefix.
-/
import OFV.Model.Stream.PoolSys
namespace OFV.Pool.Ex
open OFV OFV.Model.PoolSys

def f1 : Frame := [4, 0, 0, 8, 1, 1, 1, 1]
def f2 : Frame := [4, 0, 0, 9, 2, 2, 2, 2, 2]
def f3 : Frame := [4, 0, 0, 8, 3, 3, 3, 3]
def script : List Frame := [f1, f2, f3]

/-- four reads: the first ends inside the 4-byte prefix of f1, the second inside the prefix of f2, the third after the
    first byte of f3 -/
def chunks : List Bytes := [[4, 0], [0, 8, 1, 1, 1, 1, 4, 0, 0], [9, 2, 2, 2, 2, 2, 4], [0, 0, 8, 3, 3, 3, 3]]

/-- the same connection, but it ends inside the prefix of f3: the bytes `cutTail` never arrive -/
def chunksCut : List Bytes := [[4, 0], [0, 8, 1, 1, 1, 1, 4, 0, 0], [9, 2, 2, 2, 2, 2, 4], [0, 0]]
def cutTail : Bytes := [8, 3, 3, 3, 3]

/-- the parser takes a buffer from pool.Full, sends the message, the consumer receives it, the parser returns the
    buffer to pool.Empty -/
def parserRound : List Move := [.par 0, .par 0, .consume, .par 0]

/-- the reader runs until both buffers are in pool.Full (f1 in buffer 0, f2 in buffer 1) and it waits for an empty one;
    f1 is parsed and buffer 0 comes back; the reader receives f3 in buffer 0; f2 and f3 are parsed -/
def sched : List Move :=
  List.replicate 26 .rd ++ parserRound ++ List.replicate 13 .rd ++ parserRound ++ parserRound

/-- as `sched` up to the return of buffer 0; the reader takes it, receives the first byte of f3, then conn.Read fails;
    the parser still delivers f2 and then leaves -/
def schedFail : List Move :=
  List.replicate 26 .rd ++ parserRound ++ [.rd, .rd, .fail] ++ parserRound ++ [.par 0]

end OFV.Pool.Ex
