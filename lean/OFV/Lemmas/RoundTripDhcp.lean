/-
  OFV.Lemmas.RoundTripDhcp — helper lemmas for the DHCP round-trip theorems of C09b (Go: protocol/dhcp.go):
  * reads on `Slice.exact b` expressed through facts `b.drop k = piece ++ rest` (`exact_u32In`, `drop_step` …);
  * one option: the carryable option values (`DhcpOptOK`), their wire form (`dhcpOptWire`), what `DHCPMarshalOption`
    emits and what one pass of the `DHCPParseOptions` loop (`dhcpBody`) makes of it;
  * option lists: the encoder's three passes (`optBytes`, `hasEnd`, `optLens`) and the decoder loop over the
    concatenated wire forms, with and without the end marker behind them (`dhcp_parse_end`, `dhcp_parse_exact`);
  * the 240-byte fixed part: `dhcpFixed` (addresses in their 4-byte wire form `PDHCP.ip4`: `ip4_four`, `ip4_mapped`,
    `ip4_other`), and `DHCP.Write` on `dhcpFixed … ++ optionBytes` (`dhcp_write_fixed`, `dhcp_write_fixed_gen`);
    `DHCP.Read`'s buffer for a message whose options are carryable (`dhcp_readBuf`), `DHCP.Len` (`dhcp_len`,
    `dhcp_len_end`: `Len()` = number of bytes, pad and explicit end options counting 1).
-/
import OFV.Model.Proto
import OFV.Lemmas.Size
import OFV.Lemmas.Total
import OFV.Lemmas.RoundTripCore
namespace OFV.Lemmas.RT
open OFV OFV.Go OFV.Model

/-! ### reads on `Slice.exact b` through facts about `b.drop k` -/

theorem exact_sliceR (b : Bytes) (k e : Nat) (hke : k ≤ e) (he : e ≤ b.length) :
    (Slice.exact b).sliceR k e = .ok ⟨b.drop k, e - k⟩ := Slice.sliceR_ok _ _ _ hke he

theorem drop_bytes (b : Bytes) (k n : Nat) (m rest : Bytes) (h : b.drop k = m ++ rest) (hm : m.length = n) :
    (⟨b.drop k, n⟩ : Slice).bytes = m := by
  simp [Slice.bytes, h, take_prefix n m rest hm]

theorem bytes_prefix' (m post : Bytes) : (⟨m ++ post, m.length⟩ : Slice).bytes = m := by
  simp [Slice.bytes]

theorem exact_byteAt (b : Bytes) (i : Nat) (x : UInt8) (h : b[i]? = some x) : (Slice.exact b).byteAt i = .ok x := by
  have hi : i < b.length := by
    by_cases hi : i < b.length
    · exact hi
    · rw [List.getElem?_eq_none (by omega)] at h; cases h
  rw [List.getElem?_eq_getElem hi] at h
  cases h
  simp [Slice.byteAt, Slice.index, Slice.exact, hi, Res.ofOption]

theorem drop_step (b : Bytes) (k n : Nat) (m rest : Bytes) (h : b.drop k = m ++ rest) (hm : m.length = n) :
    b.drop (k + n) = rest := by
  rw [← List.drop_drop, h]; exact List.drop_left' hm

theorem exact_u32In (b : Bytes) (k : Nat) (x : UInt32) (rest : Bytes) (h : b.drop k = be32 x ++ rest) :
    (Slice.exact b).u32In k (k + 4) = .ok x := by
  have hl : k + 4 ≤ b.length := by
    have := congrArg List.length h
    simp at this; omega
  unfold Slice.u32In
  rw [exact_sliceR b k (k + 4) (by omega) hl]
  simp only [Res.bind_ok, Slice.u32Here, Nat.add_sub_cancel_left, drop_bytes b k 4 _ rest h rfl]
  have := rd32_be32 x []
  simp only [List.append_nil] at this
  rw [this]; rfl

theorem exact_u16In (b : Bytes) (k : Nat) (x : UInt16) (rest : Bytes) (h : b.drop k = be16 x ++ rest) :
    (Slice.exact b).u16In k (k + 2) = .ok x := by
  have hl : k + 2 ≤ b.length := by
    have := congrArg List.length h
    simp at this; omega
  unfold Slice.u16In
  rw [exact_sliceR b k (k + 2) (by omega) hl]
  simp only [Res.bind_ok, Slice.u16Here, Nat.add_sub_cancel_left, drop_bytes b k 2 _ rest h rfl]
  have := rd16_be16 x []
  simp only [List.append_nil] at this
  rw [this]; rfl



/-! ### slice reads at a known position of a concatenation -/

theorem byteAt_at (pre : Bytes) (x : UInt8) (post : Bytes) (len : Nat) (h : pre.length < len) :
    (⟨pre ++ x :: post, len⟩ : Slice).byteAt pre.length = .ok x := by
  simp [Slice.byteAt, Slice.index, h, Res.ofOption]

theorem byteAt_at1 (pre : Bytes) (x y : UInt8) (post : Bytes) (len : Nat) (h : pre.length + 1 < len) :
    (⟨pre ++ x :: y :: post, len⟩ : Slice).byteAt (pre.length + 1) = .ok y := by
  have := byteAt_at (pre ++ [x]) y post len (by simpa using h)
  simpa using this

theorem sliceR_at (pre m post : Bytes) (len a b : Nat) (ha : a = pre.length) (hb : b = a + m.length) :
    (⟨pre ++ (m ++ post), len⟩ : Slice).sliceR a b = .ok ⟨m ++ post, m.length⟩ := by
  subst ha hb
  rw [Slice.sliceR_ok _ _ _ (by omega) (by simp)]
  simp only [List.drop_left, Nat.add_sub_cancel_left]

theorem bytes_prefix (m post : Bytes) : (⟨m ++ post, m.length⟩ : Slice).bytes = m := by
  simp [Slice.bytes]

/-! ### DHCP options -/

/-- an option value the codec can carry: not the end marker (tag 255), at most 253 data bytes, a pad option (tag 0)
    carries no data -/
def DhcpOptOK : V → Prop
  | .obj "p.dhcpoption" [.num t, .bytes d] => t < 255 ∧ d.length ≤ 253 ∧ (t = 0 → d = [])
  | _ => False
instance : DecidablePred DhcpOptOK := fun v => by unfold DhcpOptOK; split <;> infer_instance

/-- wire form of one option: the single byte 0 for a pad option, otherwise tag, length, data -/
def dhcpOptWire : V → Bytes
  | .obj "p.dhcpoption" [.num t, .bytes d] => if t = 0 then [n8 0] else [n8 t, n8 d.length] ++ d
  | _ => []

def dhcpOptsWire (os : List V) : Bytes := (os.map dhcpOptWire).flatten

/-- what `dhcpoption.Len()` reports for a carryable option: 1 for a pad option (the lone tag byte), data length + 2
    otherwise — the number of bytes of the wire form (`dhcp_wire_len`) -/
def dhcpOptLen : V → Nat
  | .obj "p.dhcpoption" [.num t, .bytes d] => if t = 0 then 1 else d.length + 2
  | _ => 0

theorem dhcp_one (o : V) : dhcpOptsWire [o] = dhcpOptWire o := by simp [dhcpOptsWire]

theorem dhcpOptsWire_cons (o : V) (os : List V) : dhcpOptsWire (o :: os) = dhcpOptWire o ++ dhcpOptsWire os := rfl

theorem dhcp_opt_shape (o : V) (h : DhcpOptOK o) :
    ∃ t d, o = .obj "p.dhcpoption" [.num t, .bytes d] ∧ t < 255 ∧ d.length ≤ 253 ∧ (t = 0 → d = []) := by
  unfold DhcpOptOK at h
  split at h
  · exact ⟨_, _, rfl, h⟩
  · exact h.elim

theorem dhcp_isPadOrEnd (t : Nat) (h : t < 255) : PDhcpOpt.isPadOrEnd (n8 t) = decide (t = 0) := by
  unfold PDhcpOpt.isPadOrEnd
  rw [n8_toNat t (by omega)]
  have e : (t == 255) = false := by simp; omega
  simp only [Gen.protocol.DHCP_OPT_PAD, Gen.protocol.DHCP_OPT_END, e, Bool.or_false]
  by_cases h0 : t = 0 <;> simp [h0]

/-- `DHCPMarshalOption` of a carryable option is its wire form -/
theorem dhcp_marshalOption (o : V) (h : DhcpOptOK o) : PDhcpOpt.marshalOption o = .ok (dhcpOptWire o) := by
  obtain ⟨t, d, rfl, h1, h2, h3⟩ := dhcp_opt_shape o h
  simp only [PDhcpOpt.marshalOption, PDhcpOpt.tag, PDhcpOpt.data, Res.bind_ok, dhcp_isPadOrEnd t h1, dhcpOptWire]
  by_cases h0 : t = 0
  · subst h0; rfl
  · simp [h0]; omega

theorem dhcp_wire_len (o : V) (h : DhcpOptOK o) : (dhcpOptWire o).length = dhcpOptLen o ∧ 1 ≤ (dhcpOptWire o).length := by
  obtain ⟨t, d, rfl, h1, h2, h3⟩ := dhcp_opt_shape o h
  by_cases h0 : t = 0
  · subst h0; simp [dhcpOptWire, dhcpOptLen]
  · simp [dhcpOptWire, dhcpOptLen, h0]

/-- `dhcpoption.Len()` of a carryable option -/
theorem dhcp_opt_len (o : V) (h : DhcpOptOK o) : PDhcpOpt.len o = .ok (n16 (dhcpOptLen o)) := by
  obtain ⟨t, d, rfl, h1, h2, h3⟩ := dhcp_opt_shape o h
  simp only [PDhcpOpt.len, PDhcpOpt.tag, PDhcpOpt.data, Res.bind_ok, dhcp_isPadOrEnd t h1, dhcpOptLen]
  by_cases h0 : t = 0
  · subst h0; rfl
  · simp [h0]


/-- the encoder's passes over a list of carryable options: their wire forms in order, no end marker among them, and the
    sizes `Len()` adds up -/
theorem dhcp_opts_enc (os : List V) (hwf : ∀ o ∈ os, DhcpOptOK o) :
    PDHCP.optBytes os = .ok (dhcpOptsWire os) ∧ PDHCP.hasEnd os = .ok false ∧
      PDHCP.optLens os = .ok (os.map (fun o => n16 (dhcpOptLen o))) ∧
      (dhcpOptsWire os).length = (os.map dhcpOptLen).sum ∧ os.length ≤ (dhcpOptsWire os).length := by
  induction os with
  | nil => exact ⟨rfl, rfl, rfl, rfl, Nat.le_refl _⟩
  | cons o os ih =>
    obtain ⟨i1, i2, i3, i4, i5⟩ := ih (fun x hx => hwf x (by simp [hx]))
    have ho := hwf o (by simp)
    obtain ⟨w1, w2⟩ := dhcp_wire_len o ho
    refine ⟨?_, ?_, ?_, ?_, ?_⟩
    · simp only [PDHCP.optBytes, dhcp_marshalOption o ho, i1, Res.bind_ok]; rfl
    · obtain ⟨t, d, rfl, h1, h2, h3⟩ := dhcp_opt_shape o ho
      simp only [PDHCP.hasEnd, PDhcpOpt.tag, i2, Res.bind_ok, n8_toNat t (by omega), Gen.protocol.DHCP_OPT_END]
      have e : (t == 255) = false := by simp; omega
      rw [e]; rfl
    · simp only [PDHCP.optLens, dhcp_opt_len o ho, i3, Res.bind_ok]; rfl
    · simp only [dhcpOptsWire_cons, List.length_append, List.map_cons, List.sum_cons]; omega
    · simp only [dhcpOptsWire_cons, List.length_append, List.length_cons]; omega

theorem goLoop_step {σ} (f : Nat) (cond : σ → Bool) (cursor : σ → Nat) (body : σ → R σ) (s s' : σ)
    (hc : cond s = true) (hb : body s = .ok s') (hadv : cursor s < cursor s') :
    goLoop (f + 1) cond cursor body s = goLoop f cond cursor body s' := by
  rw [goLoop]
  simp only [hc, if_true, hb]
  rw [if_neg (by omega)]

theorem goLoop_stop {σ} (f : Nat) (cond : σ → Bool) (cursor : σ → Nat) (body : σ → R σ) (s : σ)
    (hc : cond s = false) : goLoop (f + 1) cond cursor body s = .ok s := by
  rw [goLoop]
  simp [hc]

/-- the loop condition of `DHCPParseOptions` -/
def dhcpCond (len : Nat) (s : PDhcpOpt.St) : Bool := decide (s.pos < len) && !s.done

/-- one pass of the option loop over a carryable option that lies inside the input appends exactly that option and
    moves the cursor behind its wire form -/
theorem dhcp_body_step (o : V) (ho : DhcpOptOK o) (pre post : Bytes) (len : Nat) (acc : List V)
    (hlen : pre.length + (dhcpOptWire o).length ≤ len) :
    dhcpBody ⟨pre ++ (dhcpOptWire o ++ post), len⟩ { pos := pre.length, opts := acc, done := false }
      = .ok { pos := pre.length + (dhcpOptWire o).length, opts := acc ++ [o], done := false } := by
  obtain ⟨t, d, rfl, h1, h2, h3⟩ := dhcp_opt_shape o ho
  unfold dhcpBody
  by_cases h0 : t = 0
  · subst h0
    have hd := h3 rfl
    subst hd
    simp only [dhcpOptWire, if_true, List.cons_append, List.nil_append, List.length_cons, List.length_nil] at hlen ⊢
    rw [byteAt_at pre _ _ len (by omega)]
    rfl
  · simp only [dhcpOptWire, if_neg h0, List.cons_append, List.nil_append, List.length_cons] at hlen ⊢
    rw [byteAt_at pre _ _ len (by omega)]
    simp only [Res.bind_ok, n8_toNat t (by omega), Gen.protocol.DHCP_OPT_PAD, Gen.protocol.DHCP_OPT_END, if_neg h0,
      if_neg (show ¬ t = 255 by omega)]
    rw [if_pos (by omega), byteAt_at1 pre _ _ _ len (by omega)]
    simp only [Res.bind_ok, n8_toNat d.length (by omega)]
    rw [if_neg (by omega)]
    have := sliceR_at (pre ++ [n8 t, n8 d.length]) d post len (pre.length + 1 + 1) (pre.length + 1 + 1 + d.length)
      (by simp) rfl
    simp only [List.append_assoc, List.cons_append, List.nil_append] at this
    rw [this]
    simp only [Res.bind_ok, bytes_prefix, PDhcpOpt.mk, u8_n8 t (by omega), Res.pure_eq]
    congr 2
    omega


/-- the option loop run over the wire forms of a list of carryable options that lie inside the input: after one pass per
    option the cursor stands behind them and exactly these options have been appended -/
theorem dhcp_opts_loop (os : List V) (hwf : ∀ o ∈ os, DhcpOptOK o) :
    ∀ (pre rest : Bytes) (len : Nat) (acc : List V) (f : Nat), pre.length + (dhcpOptsWire os).length ≤ len →
      goLoop (os.length + f) (dhcpCond len) (·.pos) (dhcpBody ⟨pre ++ (dhcpOptsWire os ++ rest), len⟩)
          { pos := pre.length, opts := acc, done := false }
        = goLoop f (dhcpCond len) (·.pos) (dhcpBody ⟨pre ++ (dhcpOptsWire os ++ rest), len⟩)
          { pos := pre.length + (dhcpOptsWire os).length, opts := acc ++ os, done := false } := by
  induction os with
  | nil =>
    intro pre rest len acc f _
    simp [dhcpOptsWire]
  | cons o os ih =>
    intro pre rest len acc f hlen
    have ho := hwf o (by simp)
    obtain ⟨_, w2⟩ := dhcp_wire_len o ho
    simp only [dhcpOptsWire_cons, List.length_append, List.append_assoc] at hlen ⊢
    have hf : (o :: os).length + f = (os.length + f) + 1 := by simp; omega
    rw [hf]
    have hc : dhcpCond len { pos := pre.length, opts := acc, done := false } = true := by
      simp [dhcpCond]; omega
    rw [goLoop_step _ _ _ _ _ _ hc (dhcp_body_step o ho pre _ len acc (by omega)) (by simp only; omega)]
    have := ih (fun x hx => hwf x (by simp [hx])) (pre ++ dhcpOptWire o) rest len (acc ++ [o]) f
      (by simp only [List.length_append]; omega)
    simp only [List.length_append, List.append_assoc, List.cons_append, List.nil_append] at this
    rw [this]
    simp only [Nat.add_assoc]

/-- `DHCPParseOptions` on the wire forms of carryable options followed by the end marker: exactly these options
    (the end marker itself is not returned; anything behind it is ignored) -/
theorem dhcp_parse_end (os : List V) (hwf : ∀ o ∈ os, DhcpOptOK o) (tail : Bytes) (len : Nat)
    (h1 : (dhcpOptsWire os).length < len) :
    PDhcpOpt.parseOptions ⟨dhcpOptsWire os ++ (255 :: tail), len⟩ = .ok os := by
  obtain ⟨_, _, _, _, hl⟩ := dhcp_opts_enc os hwf
  unfold PDhcpOpt.parseOptions
  show (goLoop (len + 1) (dhcpCond len) (·.pos) (dhcpBody ⟨dhcpOptsWire os ++ (255 :: tail), len⟩)
    { pos := 0, opts := [], done := false } >>= _) = _
  obtain ⟨f, hf⟩ : ∃ f, len + 1 = os.length + (f + 2) := ⟨len - os.length - 1, by omega⟩
  rw [hf]
  have := dhcp_opts_loop os hwf [] (255 :: tail) len [] (f + 2) (by simp; omega)
  simp only [List.nil_append, List.length_nil, Nat.zero_add] at this
  rw [this]
  have hc : dhcpCond len { pos := (dhcpOptsWire os).length, opts := os, done := false } = true := by
    simp [dhcpCond]; omega
  have hb : dhcpBody ⟨dhcpOptsWire os ++ (255 :: tail), len⟩ { pos := (dhcpOptsWire os).length, opts := os, done := false }
      = .ok { pos := (dhcpOptsWire os).length + 1, opts := os, done := true } := by
    unfold dhcpBody
    simp only
    rw [byteAt_at _ _ _ len h1]
    rfl
  rw [goLoop_step _ _ _ _ _ _ hc hb (by simp), goLoop_stop _ _ _ _ _ (by simp [dhcpCond])]
  rfl

/-- `DHCPParseOptions` on exactly the wire forms of carryable options (no end marker): these options -/
theorem dhcp_parse_exact (os : List V) (hwf : ∀ o ∈ os, DhcpOptOK o) (spare : Bytes) :
    PDhcpOpt.parseOptions ⟨dhcpOptsWire os ++ spare, (dhcpOptsWire os).length⟩ = .ok os := by
  obtain ⟨_, _, _, _, hl⟩ := dhcp_opts_enc os hwf
  unfold PDhcpOpt.parseOptions
  show (goLoop ((dhcpOptsWire os).length + 1) (dhcpCond (dhcpOptsWire os).length) (·.pos)
    (dhcpBody ⟨dhcpOptsWire os ++ spare, (dhcpOptsWire os).length⟩) { pos := 0, opts := [], done := false } >>= _) = _
  obtain ⟨f, hf⟩ : ∃ f, (dhcpOptsWire os).length + 1 = os.length + (f + 1) := ⟨(dhcpOptsWire os).length - os.length, by omega⟩
  rw [hf]
  have := dhcp_opts_loop os hwf [] spare (dhcpOptsWire os).length [] (f + 1) (by simp)
  simp only [List.nil_append, List.length_nil, Nat.zero_add] at this
  rw [this, goLoop_stop _ _ _ _ _ (by simp [dhcpCond])]
  rfl

/-- the 240-byte fixed part of a DHCP message as `DHCP.Read` writes it: every address in its 4-byte wire form
    (`dhcpIP4`: `To4()` copied into four zero bytes) -/
def dhcpFixed (op ht hl ho xid secs fl : Nat) (cip yip sip gip hw sname file : Bytes) : Bytes :=
  [n8 op, n8 ht, n8 hl, n8 ho] ++ be32 (n32 xid) ++ be16 (n16 secs) ++ be16 (n16 fl)
    ++ PDHCP.ip4 cip ++ PDHCP.ip4 yip ++ PDHCP.ip4 sip ++ PDHCP.ip4 gip ++ copyInto (zeros 16) hw ++ pFitTo 64 sname
    ++ pFitTo 128 file ++ be32 PDHCP.magic

/-- the wire form of an address field always has 4 bytes -/
theorem ip4_length (ip : Bytes) : (PDHCP.ip4 ip).length = 4 := by
  simp [PDHCP.ip4, copyInto_length]

/-- a 4-byte address is written as it is -/
theorem ip4_four (ip : Bytes) (h : ip.length = 4) : PDHCP.ip4 ip = ip := by
  simp [PDHCP.ip4, pIpTo4_four ip h, copyInto, h, zeros, List.take_of_length_le (Nat.le_of_eq h)]

/-- the wire form is a fixed point: writing it again changes nothing -/
theorem ip4_idem (ip : Bytes) : PDHCP.ip4 (PDHCP.ip4 ip) = PDHCP.ip4 ip := ip4_four _ (ip4_length ip)

/-- a 16-byte v4-mapped address `::ffff:a.b.c.d` (what `net.IPv4(a, b, c, d)` and `net.ParseIP` return) is written as
    the four bytes `a b c d` -/
theorem ip4_mapped (a b c d : UInt8) : PDHCP.ip4 (ipV4Mapped a b c d) = [a, b, c, d] := rfl

/-- any other length (for instance a 16-byte address that is not v4-mapped, or an empty slice): `To4()` is nil, nothing
    is copied, four zero bytes are written -/
theorem ip4_other (ip : Bytes) (h : pIpTo4? ip = none) : PDHCP.ip4 ip = zeros 4 := by
  simp [PDHCP.ip4, pIpTo4, h, copyInto]

theorem copyInto_zeros (n : Nat) (hw : Bytes) (h : hw.length ≤ n) : copyInto (zeros n) hw = hw ++ zeros (n - hw.length) := by
  simp [copyInto, zeros, List.take_of_length_le h]

theorem dhcpFixed_length (op ht hl ho xid secs fl : Nat) (cip yip sip gip hw sname file : Bytes) :
    (dhcpFixed op ht hl ho xid secs fl cip yip sip gip hw sname file).length = 240 := by
  simp [dhcpFixed, copyInto_length, pFitTo, ip4_length]
  omega

/-- only the 4-byte wire form of each address reaches the wire -/
theorem dhcpFixed_ip4 (op ht hl ho xid secs fl : Nat) (cip yip sip gip hw sname file : Bytes) :
    dhcpFixed op ht hl ho xid secs fl cip yip sip gip hw sname file
      = dhcpFixed op ht hl ho xid secs fl (PDHCP.ip4 cip) (PDHCP.ip4 yip) (PDHCP.ip4 sip) (PDHCP.ip4 gip) hw sname file := by
  simp only [dhcpFixed, ip4_idem]

/-- only the first 16 bytes of the hardware address reach the wire -/
theorem dhcpFixed_hw_take (op ht hl ho xid secs fl : Nat) (cip yip sip gip hw sname file : Bytes) :
    dhcpFixed op ht hl ho xid secs fl cip yip sip gip hw sname file
      = dhcpFixed op ht hl ho xid secs fl cip yip sip gip (hw.take 16) sname file := by
  have : copyInto (zeros 16) hw = copyInto (zeros 16) (hw.take 16) := by
    by_cases h : hw.length ≤ 16
    · rw [List.take_of_length_le h]
    · simp only [copyInto, zeros_length, List.take_take, Nat.min_self, List.length_take]
      rw [List.drop_eq_nil_of_le (by simp; omega), List.drop_eq_nil_of_le (by simp; omega)]
  simp only [dhcpFixed, this]

/-- `DHCP.Write` on a fixed part as `DHCP.Read` writes it (addresses of any length in their 4-byte wire form, hardware
    address of at most 16 bytes, zero-padded to 16) followed by option bytes: a `HardwareLen` above 16 is rejected;
    otherwise every fixed field comes back, each address in its 4-byte wire form, the hardware address is the first
    `HardwareLen` bytes of the padded 16, the options are what `DHCPParseOptions` makes of the rest, and the byte count is
    the whole input -/
theorem dhcp_write_fixed_gen (recv : V) (op ht hl ho xid secs fl : Nat) (cip yip sip gip hw sname file optsB : Bytes)
    (h1 : op < 256) (h2 : ht < 256) (h3 : hl < 256) (h4 : ho < 256) (h5 : xid < 4294967296) (h6 : secs < 65536)
    (h7 : fl < 65536) (c5 : hw.length ≤ 16) (c7 : sname.length = 64) (c8 : file.length = 128) :
    PDHCP.write recv (dhcpFixed op ht hl ho xid secs fl cip yip sip gip hw sname file ++ optsB) =
      if hl > 16 then .err else
      (PDhcpOpt.parseOptions (Slice.exact optsB) >>= fun opts =>
        .ok (.obj "p.DHCP" [.num op, .num ht, .num hl, .num ho, .num xid, .num secs, .num fl, .bytes (PDHCP.ip4 cip),
          .bytes (PDHCP.ip4 yip), .bytes (PDHCP.ip4 sip), .bytes (PDHCP.ip4 gip),
          .bytes ((hw ++ zeros (16 - hw.length)).take hl), .bytes sname, .bytes file, .list opts],
          240 + optsB.length)) := by
  have hlen := dhcpFixed_length op ht hl ho xid secs fl cip yip sip gip hw sname file
  obtain ⟨b, hb⟩ : ∃ b, b = dhcpFixed op ht hl ho xid secs fl cip yip sip gip hw sname file ++ optsB := ⟨_, rfl⟩
  have hbl : b.length = 240 + optsB.length := by rw [hb, List.length_append, hlen]
  rw [← hb]
  have c1 := ip4_length cip
  have c2 := ip4_length yip
  have c3 := ip4_length sip
  have c4 := ip4_length gip
  obtain ⟨a1, ha1⟩ : ∃ a, a = PDHCP.ip4 cip := ⟨_, rfl⟩
  obtain ⟨a2, ha2⟩ : ∃ a, a = PDHCP.ip4 yip := ⟨_, rfl⟩
  obtain ⟨a3, ha3⟩ : ∃ a, a = PDHCP.ip4 sip := ⟨_, rfl⟩
  obtain ⟨a4, ha4⟩ : ∃ a, a = PDHCP.ip4 gip := ⟨_, rfl⟩
  rw [← ha1] at c1 ⊢
  rw [← ha2] at c2 ⊢
  rw [← ha3] at c3 ⊢
  rw [← ha4] at c4 ⊢
  have hb' : b = n8 op :: n8 ht :: n8 hl :: n8 ho :: (be32 (n32 xid) ++ (be16 (n16 secs) ++ (be16 (n16 fl) ++ (a1 ++ (a2 ++ (a3
      ++ (a4 ++ ((hw ++ zeros (16 - hw.length)) ++ (sname ++ (file ++ (be32 PDHCP.magic ++ optsB))))))))))) := by
    rw [hb, dhcpFixed, copyInto_zeros 16 hw (by omega), pFitTo_self 64 sname c7, pFitTo_self 128 file c8,
      ← ha1, ← ha2, ← ha3, ← ha4]
    simp only [List.append_assoc, List.cons_append, List.nil_append]
  have d4 : b.drop 4 = be32 (n32 xid) ++ (be16 (n16 secs) ++ (be16 (n16 fl) ++ (a1 ++ (a2 ++ (a3
      ++ (a4 ++ ((hw ++ zeros (16 - hw.length)) ++ (sname ++ (file ++ (be32 PDHCP.magic ++ optsB)))))))))) := by
    rw [hb']; rfl
  have d8 := drop_step b 4 4 _ _ d4 rfl
  have d10 := drop_step b 8 2 _ _ d8 rfl
  have d12 := drop_step b 10 2 _ _ d10 rfl
  have d16 := drop_step b 12 4 _ _ d12 c1
  have d20 := drop_step b 16 4 _ _ d16 c2
  have d24 := drop_step b 20 4 _ _ d20 c3
  have d28 := drop_step b 24 4 _ _ d24 c4
  have d44 := drop_step b 28 16 _ _ d28 (by simp; omega)
  have d108 := drop_step b 44 64 _ _ d44 c7
  have d236 := drop_step b 108 128 _ _ d108 c8
  have d240 := drop_step b 236 4 _ _ d236 rfl
  have r0 : (Slice.exact b).byteAt 0 = .ok (n8 op) := exact_byteAt b 0 _ (by rw [hb']; rfl)
  have r1 : (Slice.exact b).byteAt 1 = .ok (n8 ht) := exact_byteAt b 1 _ (by rw [hb']; rfl)
  have r2 : (Slice.exact b).byteAt 2 = .ok (n8 hl) := exact_byteAt b 2 _ (by rw [hb']; rfl)
  have r3 : (Slice.exact b).byteAt 3 = .ok (n8 ho) := exact_byteAt b 3 _ (by rw [hb']; rfl)
  have r4 : (Slice.exact b).u32In 4 8 = .ok (n32 xid) := exact_u32In b 4 _ _ d4
  have r8 : (Slice.exact b).u16In 8 10 = .ok (n16 secs) := exact_u16In b 8 _ _ d8
  have r10 : (Slice.exact b).u16In 10 12 = .ok (n16 fl) := exact_u16In b 10 _ _ d10
  have r236 : (Slice.exact b).u32In 236 240 = .ok PDHCP.magic := exact_u32In b 236 _ _ d236
  unfold PDHCP.write
  rw [if_neg (by omega)]
  simp only [r0, r1, r2, r3, r4, r8, r10, r236, Res.bind_ok,
    exact_sliceR b 12 16 (by omega) (by omega), exact_sliceR b 16 20 (by omega) (by omega),
    exact_sliceR b 20 24 (by omega) (by omega), exact_sliceR b 24 28 (by omega) (by omega),
    exact_sliceR b 28 44 (by omega) (by omega), exact_sliceR b 44 108 (by omega) (by omega),
    exact_sliceR b 108 236 (by omega) (by omega),
    Nat.reduceSub,
    drop_bytes b 12 4 _ _ d12 c1, drop_bytes b 16 4 _ _ d16 c2, drop_bytes b 20 4 _ _ d20 c3, drop_bytes b 24 4 _ _ d24 c4,
    drop_bytes b 28 16 _ _ d28 (by simp; omega), drop_bytes b 44 64 _ _ d44 c7, drop_bytes b 108 128 _ _ d108 c8,
    n8_toNat hl h3, d240]
  by_cases hgt : hl > 16
  · rw [if_pos hgt, if_pos hgt]
  · rw [if_neg hgt, if_neg hgt]
    have hup : (Slice.exact (hw ++ zeros (16 - hw.length))).uptoR hl = .ok ⟨hw ++ zeros (16 - hw.length), hl⟩ := by
      have := Slice.sliceR_ok (Slice.exact (hw ++ zeros (16 - hw.length))) 0 hl (by omega) (by simp [Slice.exact]; omega)
      simpa [Slice.uptoR, Slice.upto, Slice.sliceR, Slice.exact] using this
    rw [hup]
    simp only [Res.bind_ok, ne_eq, not_true_eq_false, if_false, hbl, Nat.add_sub_cancel_left,
      u8_n8 op h1, u8_n8 ht h2, u8_n8 hl h3, u8_n8 ho h4, u32_n32 xid h5, u16_n16 secs h6, u16_n16 fl h7]
    rfl

/-- … for 4-byte addresses and a hardware address of exactly `HardwareLen ≤ 16` bytes: they come back as they are -/
theorem dhcp_write_fixed (recv : V) (op ht hl ho xid secs fl : Nat) (cip yip sip gip hw sname file optsB : Bytes)
    (h1 : op < 256) (h2 : ht < 256) (h3 : hl < 256) (h4 : ho < 256) (h5 : xid < 4294967296) (h6 : secs < 65536)
    (h7 : fl < 65536) (c1 : cip.length = 4) (c2 : yip.length = 4) (c3 : sip.length = 4) (c4 : gip.length = 4)
    (c5 : hw.length = hl) (c6 : hl ≤ 16) (c7 : sname.length = 64) (c8 : file.length = 128) :
    PDHCP.write recv (dhcpFixed op ht hl ho xid secs fl cip yip sip gip hw sname file ++ optsB) =
      (PDhcpOpt.parseOptions (Slice.exact optsB) >>= fun opts =>
        .ok (.obj "p.DHCP" [.num op, .num ht, .num hl, .num ho, .num xid, .num secs, .num fl, .bytes cip, .bytes yip,
          .bytes sip, .bytes gip, .bytes hw, .bytes sname, .bytes file, .list opts], 240 + optsB.length)) := by
  rw [dhcp_write_fixed_gen recv op ht hl ho xid secs fl cip yip sip gip hw sname file optsB h1 h2 h3 h4 h5 h6 h7
    (by omega) c7 c8, if_neg (by omega), take_prefix hl hw _ c5, ip4_four cip c1, ip4_four yip c2, ip4_four sip c3,
    ip4_four gip c4]

/-- `DHCPMarshalOption` of the end marker -/
theorem dhcp_marshal_end : PDhcpOpt.marshalOption (PDhcpOpt.mk (n8 Gen.protocol.DHCP_OPT_END) []) = .ok [255] := rfl

/-- the buffer `DHCP.Read` assembles for a message whose options are carryable: fixed part, the options' wire forms,
    and the end marker the encoder adds -/
theorem dhcp_readBuf (op ht hl ho xid secs fl : Nat) (cip yip sip gip hw sname file : Bytes) (os : List V)
    (hwf : ∀ o ∈ os, DhcpOptOK o) :
    PDHCP.readBuf (.obj "p.DHCP" [.num op, .num ht, .num hl, .num ho, .num xid, .num secs, .num fl, .bytes cip, .bytes yip,
        .bytes sip, .bytes gip, .bytes hw, .bytes sname, .bytes file, .list os])
      = .ok (dhcpFixed op ht hl ho xid secs fl cip yip sip gip hw sname file ++ (dhcpOptsWire os ++ [255])) := by
  obtain ⟨e1, e2, _, _, _⟩ := dhcp_opts_enc os hwf
  simp only [PDHCP.readBuf, e1, e2, Res.bind_ok, Bool.false_eq_true, if_false, dhcp_marshal_end, dhcpFixed,
    List.append_assoc]

/-- the encoder's passes over carryable options followed by an explicit end marker (whatever data that option value
    holds): the same bytes as the encoder produces for the options alone plus its own end marker -/
theorem dhcp_opts_enc_end (os : List V) (hwf : ∀ o ∈ os, DhcpOptOK o) (d : Bytes) :
    PDHCP.optBytes (os ++ [.obj "p.dhcpoption" [.num 255, .bytes d]]) = .ok (dhcpOptsWire os ++ [255]) ∧
      PDHCP.hasEnd (os ++ [.obj "p.dhcpoption" [.num 255, .bytes d]]) = .ok true := by
  induction os with
  | nil => exact ⟨rfl, rfl⟩
  | cons o os ih =>
    obtain ⟨i1, i2⟩ := ih (fun x hx => hwf x (by simp [hx]))
    have ho := hwf o (by simp)
    refine ⟨?_, ?_⟩
    · simp only [List.cons_append, PDHCP.optBytes, dhcp_marshalOption o ho, i1, Res.bind_ok, dhcpOptsWire_cons,
        List.append_assoc]; rfl
    · obtain ⟨t, d', rfl, h1, h2, h3⟩ := dhcp_opt_shape o ho
      simp only [List.cons_append, PDHCP.hasEnd, PDhcpOpt.tag, i2, Res.bind_ok, Bool.or_true]; rfl

/-- … hence the same `DHCP.Read` buffer -/
theorem dhcp_readBuf_end (op ht hl ho xid secs fl : Nat) (cip yip sip gip hw sname file : Bytes) (os : List V)
    (hwf : ∀ o ∈ os, DhcpOptOK o) (d : Bytes) :
    PDHCP.readBuf (.obj "p.DHCP" [.num op, .num ht, .num hl, .num ho, .num xid, .num secs, .num fl, .bytes cip, .bytes yip,
        .bytes sip, .bytes gip, .bytes hw, .bytes sname, .bytes file, .list (os ++ [.obj "p.dhcpoption" [.num 255, .bytes d]])])
      = .ok (dhcpFixed op ht hl ho xid secs fl cip yip sip gip hw sname file ++ (dhcpOptsWire os ++ [255])) := by
  obtain ⟨e1, e2⟩ := dhcp_opts_enc_end os hwf d
  simp only [PDHCP.readBuf, e1, e2, Res.bind_ok, if_true, dhcpFixed, List.append_assoc, List.append_nil]

/-- the first `n ≥ |bs|` bytes of `bs ++ tail` -/
theorem take_app_ge (bs tail : Bytes) (n : Nat) (h : bs.length ≤ n) :
    (bs ++ tail).take n = bs ++ tail.take (n - bs.length) := by
  rw [List.take_append, List.take_of_length_le h]

/-- `DHCP.Len()` of a message whose options are carryable: 240 + Σ option bytes + 1 (for the end marker) -/
theorem dhcp_len (f0 f1 f2 f3 f4 f5 f6 f7 f8 f9 f10 f11 f12 f13 : V) (os : List V) (hwf : ∀ o ∈ os, DhcpOptOK o)
    (hsz : 240 + (os.map dhcpOptLen).sum + 1 < 65536) :
    ∃ l, PDHCP.len (.obj "p.DHCP" [f0, f1, f2, f3, f4, f5, f6, f7, f8, f9, f10, f11, f12, f13, .list os]) = .ok l ∧
      l.toNat = 240 + (os.map dhcpOptLen).sum + 1 := by
  obtain ⟨_, e2, e3, _, _⟩ := dhcp_opts_enc os hwf
  refine ⟨_, by simp only [PDHCP.len, e2, e3, Res.bind_ok]; rfl, ?_⟩
  have hmap : ((os.map (fun o => n16 (dhcpOptLen o))).map UInt16.toNat) = os.map dhcpOptLen := by
    rw [List.map_map]
    apply List.map_congr_left
    intro o ho
    obtain ⟨t, d, rfl, _, h2, _⟩ := dhcp_opt_shape o (hwf o ho)
    simp only [Function.comp, dhcpOptLen]
    exact n16_toNat _ (by split <;> omega)
  have hs := sum16_toNat (os.map (fun o => n16 (dhcpOptLen o))) (by rw [hmap]; omega)
  rw [hmap] at hs
  simp only [Bool.false_eq_true, if_false, UInt16.toNat_add, hs]
  have h240 : (240 : UInt16).toNat = 240 := rfl
  have h1 : (1 : UInt16).toNat = 1 := rfl
  rw [h240, h1]
  omega

/-- `Len()` of the explicit end option (whatever data it holds) is 1, and the size pass over carryable options followed
    by it gives their sizes and that 1 -/
theorem dhcp_optLens_end (os : List V) (hwf : ∀ o ∈ os, DhcpOptOK o) (d : Bytes) :
    PDHCP.optLens (os ++ [.obj "p.dhcpoption" [.num 255, .bytes d]]) = .ok (os.map (fun o => n16 (dhcpOptLen o)) ++ [1]) := by
  induction os with
  | nil => rfl
  | cons o os ih =>
    have i1 := ih (fun x hx => hwf x (by simp [hx]))
    simp only [List.cons_append, PDHCP.optLens, dhcp_opt_len o (hwf o (by simp)), i1, Res.bind_ok]; rfl

/-- `DHCP.Len()` of a message whose carryable options are followed by an explicit end option: the same
    240 + Σ option bytes + 1 as without it (the explicit end option counts 1, the implicit one is then not added) -/
theorem dhcp_len_end (f0 f1 f2 f3 f4 f5 f6 f7 f8 f9 f10 f11 f12 f13 : V) (os : List V) (hwf : ∀ o ∈ os, DhcpOptOK o)
    (hsz : 240 + (os.map dhcpOptLen).sum + 1 < 65536) (d : Bytes) :
    ∃ l, PDHCP.len (.obj "p.DHCP" [f0, f1, f2, f3, f4, f5, f6, f7, f8, f9, f10, f11, f12, f13,
        .list (os ++ [.obj "p.dhcpoption" [.num 255, .bytes d]])]) = .ok l ∧
      l.toNat = 240 + (os.map dhcpOptLen).sum + 1 := by
  obtain ⟨_, e2⟩ := dhcp_opts_enc_end os hwf d
  have e3 := dhcp_optLens_end os hwf d
  refine ⟨_, by simp only [PDHCP.len, e2, e3, Res.bind_ok]; rfl, ?_⟩
  have hmap : ((os.map (fun o => n16 (dhcpOptLen o)) ++ [1]).map UInt16.toNat) = os.map dhcpOptLen ++ [1] := by
    rw [List.map_append, List.map_map]
    congr 1
    apply List.map_congr_left
    intro o ho
    obtain ⟨t, d, rfl, _, h2, _⟩ := dhcp_opt_shape o (hwf o ho)
    simp only [Function.comp, dhcpOptLen]
    exact n16_toNat _ (by split <;> omega)
  have hs := sum16_toNat (os.map (fun o => n16 (dhcpOptLen o)) ++ [1]) (by rw [hmap]; simp; omega)
  rw [hmap] at hs
  simp only [if_true, UInt16.toNat_add, hs, List.sum_append, List.sum_cons, List.sum_nil]
  have h240 : (240 : UInt16).toNat = 240 := rfl
  have h0 : (0 : UInt16).toNat = 0 := rfl
  rw [h240, h0]
  omega

end OFV.Lemmas.RT
