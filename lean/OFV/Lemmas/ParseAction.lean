/-
  OFV.Lemmas.ParseAction — openflow13/action.go, nx_action.go decoders never spin: all leaf kinds are straight-line
  code; the learn-spec loop advances by at least 2 bytes per spec; the nested-action loop of a conntrack action refuses
  an action of length 0; DecodeAction at every nesting depth.
-/
import OFV.Lemmas.ParseMatch
set_option linter.unusedSimpArgs false
namespace OFV.Model
open OFV OFV.Go

theorem tryE_ns {α} (r : R α) (d : α) (h : NS r) : NS (tryE r d) := by
  unfold tryE
  split <;> first | post_leaf | exact absurd rfl h.1

theorem ActionHeader_unmarshal_ns (recv : V) (d : Slice) : NS (ActionHeader.unmarshal recv d) := by
  unfold ActionHeader.unmarshal; post_auto
theorem ActionHeader_length_ns (v : V) : NS (ActionHeader.length v) := by
  unfold ActionHeader.length; post_auto
theorem ActionHeader_setLength_ns (l : UInt16) (v : V) : NS (ActionHeader.setLength l v) := by
  unfold ActionHeader.setLength; post_auto
theorem NXActionHeader_unmarshal_ns (recv : V) (d : Slice) : NS (NXActionHeader.unmarshal recv d) := by
  unfold NXActionHeader.unmarshal; post_auto [ActionHeader_unmarshal_ns]
theorem NXActionHeader_fresh_ns (d : Slice) : NS (NXActionHeader.fresh d) := by
  unfold NXActionHeader.fresh; exact tryE_ns _ _ (NXActionHeader_unmarshal_ns _ _)
theorem NXActionHeader_length_ns (v : V) : NS (NXActionHeader.length v) := by
  unfold NXActionHeader.length; post_auto [ActionHeader_length_ns]
theorem NXActionHeader_setLength_ns (l : UInt16) (v : V) : NS (NXActionHeader.setLength l v) := by
  unfold NXActionHeader.setLength; post_auto [ActionHeader_setLength_ns]
theorem nxPrefix_ns (d : Slice) : NS (nxPrefix d) := by
  unfold nxPrefix; post_auto [NXActionHeader_fresh_ns, NXActionHeader_length_ns]

theorem ActionSetField_unmarshal_ns (recv : V) (d : Slice) : NS (ActionSetField.unmarshal recv d) := by
  unfold ActionSetField.unmarshal
  split
  · apply post_bind_ns (ns_fromR _ _); intro d0 _
    apply post_bind_ns (tryE_ns _ _ (ActionHeader_unmarshal_ns _ _)); intro p _
    split
    apply post_bind_ns (ns_fromR _ _); intro d4 _
    split
    · post_auto [(MatchField_lenM_post _).ns]
    · exact post_panic
    · exact post_panic
    · exact absurd ‹_› (MatchField_unmarshal_ns _ _).1
  · exact post_panic

theorem readIDs_ns (d : Slice) : ∀ k n, NS (NXActionDecTTLCntIDs.readIDs d k n) := by
  intro k
  induction k with
  | zero => intro n; exact ns_ok _
  | succ k ih => intro n; unfold NXActionDecTTLCntIDs.readIDs; post_auto [ih]

theorem rdIPv4_ns (p : Bool) (d : Slice) (n : Nat) (o : V) : NS (NXActionCTNAT.rdIPv4 p d n o) := by
  unfold NXActionCTNAT.rdIPv4; post_auto
theorem rdIPv6_ns (p : Bool) (d : Slice) (n : Nat) (o : V) : NS (NXActionCTNAT.rdIPv6 p d n o) := by
  unfold NXActionCTNAT.rdIPv6; post_auto
theorem rdPort_ns (p : Bool) (d : Slice) (n : Nat) (o : V) : NS (NXActionCTNAT.rdPort p d n o) := by
  unfold NXActionCTNAT.rdPort; post_auto

theorem NXLearnSpecHeader_unmarshal_post (recv : V) (d : Slice) :
    Post (NXLearnSpecHeader.unmarshal recv d)
      (fun h => ∃ a b c : Nat, ∃ nb : UInt16, h = .obj "NXLearnSpecHeader" [.num a, .num b, .num c, V.u16 nb, .num 2]) := by
  unfold NXLearnSpecHeader.unmarshal
  post_auto
  exact post_ok ⟨_, _, _, _, rfl⟩

theorem NXLearnSpecField_unmarshal_ns (recv : V) (d : Slice) : NS (NXLearnSpecField.unmarshal recv d) := by
  unfold NXLearnSpecField.unmarshal; post_auto [MatchField_unmarshalHeader_ns]


/-- a learn spec with the 2-byte header the decoder stores reports between 2 and 8200 bytes -/
theorem NXLearnSpec_len_pos (a b c : Nat) (nb : UInt16) (sf df sv : V) :
    ∃ l : UInt16, NXLearnSpec.len (.obj "NXLearnSpec" [.obj "NXLearnSpecHeader" [.num a, .num b, .num c, V.u16 nb, .num 2], sf, df, sv])
      = .ok l ∧ 0 < l.toNat := by
  refine ⟨_, rfl, ?_⟩
  have h2 : (2 : UInt16).toNat = 2 := rfl
  have h6 : (6 : UInt16).toNat = 6 := rfl
  have h15 : (15 : UInt16).toNat = 15 := rfl
  have h16 : (16 : UInt16).toNat = 16 := rfl
  have hn := (n16 nb.toNat).toNat_lt
  simp only [NXLearnSpec.srcLen]
  split <;> split <;> simp only [UInt16.toNat_add, UInt16.toNat_mul, UInt16.toNat_div, n16, UInt16.toNat_ofNat', h2, h6, h15, h16] <;> omega

theorem NXLearnSpec_unmarshal_post (recv : V) (d : Slice) :
    Post (NXLearnSpec.unmarshal recv d) (fun spec => ∃ l : UInt16, NXLearnSpec.len spec = .ok l ∧ 0 < l.toNat) := by
  unfold NXLearnSpec.unmarshal
  split
  · apply post_bind (NXLearnSpecHeader_unmarshal_post _ _); intro hdr _ ⟨a, b, c, nb, hh⟩
    subst hh
    simp only [V.u16]
    post_auto [NXLearnSpecField_unmarshal_ns]
    all_goals exact post_ok (NXLearnSpec_len_pos _ _ _ _ _ _ _)
  · exact post_panic


theorem specsLen_ns : ∀ xs, NS (NXActionLearn.specsLen xs) := by
  intro xs
  induction xs with
  | nil => exact ns_ok _
  | cons x xs ih =>
    unfold NXActionLearn.specsLen
    have : NS (NXLearnSpec.len x) := by unfold NXLearnSpec.len; post_auto
    post_auto [this, ih]

/-- the learn-spec loop of NXActionLearn terminates: every decoded spec reports at least 2 bytes -/
theorem NXActionLearn_unmarshal_ns (recv : V) (data : Slice) : NS (NXActionLearn.unmarshal recv data) := by
  unfold NXActionLearn.unmarshal
  split
  · apply post_bind_ns (NXActionHeader_unmarshal_ns _ _); intro h _
    apply post_bind_ns (NXActionHeader_length_ns _); intro l _
    simp only []
    split
    · exact post_err
    · apply post_bind_ns (ns_u16From _ _); intro _ _
      apply post_bind_ns (ns_u16From _ _); intro _ _
      apply post_bind_ns (ns_u16From _ _); intro _ _
      apply post_bind_ns (ns_u64From _ _); intro _ _
      apply post_bind_ns (ns_u16From _ _); intro _ _
      apply post_bind_ns (ns_byteAt _ _); intro _ _
      apply post_bind_ns (ns_u16From _ _); intro _ _
      apply post_bind_ns (ns_u16From _ _); intro _ _
      apply post_bind_ns
      · refine (goLoop_post _ _ _ (fun _ => True) l.toNat ?_ _ _ trivial ?_).ns
        · intro s _ hc
          simp only [Bool.and_eq_true, decide_eq_true_eq] at hc
          apply post_bind_ns (ns_fromR _ _); intro d _
          apply post_bind (NXLearnSpec_unmarshal_post _ _); intro spec _ ⟨sl, hsl, hpos⟩
          rw [hsl]
          apply post_ok
          simp only [true_and]
          omega
        · have := l.toNat_lt
          simp only []
          omega
      · intro st _; post_auto
  · exact post_panic


/-- UnmarshalBinary of every action kind except conntrack -/
theorem Action_unmarshalLeaf_ns (a : V) (d : Slice) : NS (Action.unmarshalLeaf a d) := by
  unfold Action.unmarshalLeaf
  split <;> first
    | exact post_panic
    | with_reducible exact ActionHeader_unmarshal_ns _ _
    | with_reducible exact NXActionHeader_unmarshal_ns _ _
    | with_reducible exact ActionSetField_unmarshal_ns _ _
    | with_reducible exact NXActionLearn_unmarshal_ns _ _
    | ((first
        | unfold ActionOutput.unmarshal | unfold ActionSetqueue.unmarshal | unfold ActionGroup.unmarshal
        | unfold ActionMplsTtl.unmarshal | unfold ActionNwTtl.unmarshal | unfold ActionDecNwTtl.unmarshal
        | unfold ActionPush.unmarshal | unfold ActionPopVlan.unmarshal | unfold ActionPopMpls.unmarshal
        | unfold NXActionConjunction.unmarshal | unfold NXActionRegLoad.unmarshal | unfold NXActionRegMove.unmarshal
        | unfold NXActionResubmit.unmarshal | unfold NXActionResubmitTable.unmarshal | unfold NXActionCTNAT.unmarshal
        | unfold NXActionOutputReg.unmarshal | unfold NXActionCTClear.unmarshal | unfold NXActionDecTTL.unmarshal
        | unfold NXActionDecTTLCntIDs.unmarshal | unfold NXActionNote.unmarshal | unfold NXActionRegLoad2.unmarshal
        | unfold NXActionController.unmarshal)
       post_auto [tryE_ns, ActionHeader_unmarshal_ns, NXActionHeader_unmarshal_ns, NXActionHeader_fresh_ns,
         NXActionHeader_length_ns, NXActionHeader_setLength_ns, nxPrefix_ns, MatchField_unmarshalHeader_ns,
         MatchField_unmarshal_ns, readIDs_ns, rdIPv4_ns, rdIPv6_ns, rdPort_ns])

/-- Len() of every action kind except conntrack -/
theorem Action_lenLeaf_ns (v : V) : NS (Action.lenLeaf v) := by
  unfold Action.lenLeaf
  split <;> first
    | exact post_panic
    | ((first
        | unfold ActionHeader.lenM | unfold ActionOutput.lenM | unfold ActionSetqueue.lenM | unfold ActionGroup.lenM
        | unfold ActionMplsTtl.lenM | unfold ActionNwTtl.lenM | unfold ActionDecNwTtl.lenM
        | unfold ActionPush.lenM | unfold ActionPopVlan.lenM | unfold ActionPopMpls.lenM | unfold ActionSetField.lenM
        | unfold NXActionHeader.lenM
        | unfold NXActionConjunction.lenM | unfold NXActionRegLoad.lenM | unfold NXActionRegMove.lenM
        | unfold NXActionResubmit.lenM | unfold NXActionResubmitTable.lenM | unfold NXActionCTNAT.lenM
        | unfold NXActionOutputReg.lenM | unfold NXActionCTClear.lenM | unfold NXActionDecTTL.lenM
        | unfold NXActionDecTTLCntIDs.lenM | unfold NXActionNote.lenM | unfold NXActionRegLoad2.lenM
        | unfold NXActionController.lenM | (unfold NXActionLearn.lenM NXActionLearn.len))
       post_auto [NXActionHeader_length_ns, NXActionHeader_setLength_ns, (MatchField_lenM_post _).ns, specsLen_ns])

theorem NXActionHeader_lenM_ns (v : V) : NS (NXActionHeader.lenM v) := ns_same _ _

/-- Action.Len() at every nesting depth of conntrack actions -/
theorem Action_lenD_ns : ∀ depth v, NS (Action.lenD depth v) := by
  intro depth
  induction depth with
  | zero => intro v; exact post_panic
  | succ n ih =>
    intro v
    unfold Action.lenD
    split
    · unfold NXActionConnTrack.lenWith
      post_auto [NXActionHeader_lenM_ns, mapM2_ns, ih, NXActionHeader_setLength_ns]
    · exact Action_lenLeaf_ns v

/-- Action.Len() of any value -/
theorem Action_lenM_ns (v : V) : NS (Action.lenM v) := Action_lenD_ns _ v

theorem DecodeNxAction_ns (d : Slice) : NS (DecodeNxAction d) := by
  unfold DecodeNxAction; post_auto
theorem newActionFor_ns (d : Slice) : NS (newActionFor d) := by
  unfold newActionFor; post_auto [DecodeNxAction_ns]

/-- the nested-action loop of a conntrack action terminates (an action of length 0 is refused) -/
theorem NXActionConnTrack_unmarshalWith_ns (dec : Slice → R V) (alen : V → R (UInt16 × V))
    (hdec : ∀ d, NS (dec d)) (halen : ∀ v, NS (alen v)) (recv : V) (data : Slice) :
    NS (NXActionConnTrack.unmarshalWith dec alen recv data) := by
  unfold NXActionConnTrack.unmarshalWith
  split
  · apply post_bind_ns (nxPrefix_ns _); intro h _
    apply post_bind_ns (NXActionHeader_length_ns _); intro l _
    apply post_bind_ns (ns_u16From _ _); intro _ _
    apply post_bind_ns (ns_u32From _ _); intro _ _
    apply post_bind_ns (ns_u16From _ _); intro _ _
    apply post_bind_ns (ns_byteAt _ _); intro _ _
    apply post_bind_ns (ns_sliceR _ _ _); intro _ _
    apply post_bind_ns (ns_u16From _ _); intro _ _
    apply post_bind_ns
    · refine (goLoop_post _ _ _ (fun _ => True) l.toNat ?_ _ _ trivial ?_).ns
      · intro s _ hc
        simp only [decide_eq_true_eq] at hc
        apply post_bind_ns (ns_fromR _ _); intro d _
        apply post_bind_ns (hdec _); intro act _
        apply post_bind_ns (halen _); intro p _
        obtain ⟨al, act'⟩ := p
        simp only []
        split
        · exact post_err
        · rename_i hne
          apply post_ok
          have : al.toNat ≠ 0 := fun h => hne (UInt16.toNat_inj.mp h)
          simp only [true_and]
          omega
      · have := l.toNat_lt
        simp only []
        omega
    · intro st _; post_auto [NXActionHeader_setLength_ns]
  · exact post_panic

/-- DecodeAction at any nesting depth -/
theorem DecodeAction_ns : ∀ depth d, NS (DecodeAction depth d) := by
  intro depth
  induction depth with
  | zero => intro d; exact post_panic
  | succ n ih =>
    intro d
    unfold DecodeAction
    apply post_bind_ns (newActionFor_ns _); intro a _
    split
    · exact NXActionConnTrack_unmarshalWith_ns _ _ ih Action_lenM_ns _ _
    · exact Action_unmarshalLeaf_ns _ _

end OFV.Model
