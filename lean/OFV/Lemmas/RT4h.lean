/-
  OFV.Lemmas.RT4h — PacketIn through Parse does not use Header.Length: whatever Length the header carries, the frame is everything
  behind match + 2 pad bytes up to the end of the buffer.  Used by OFV/Props/C05d.lean.
-/
import OFV.Model.All
import OFV.Lemmas.Size
import OFV.Lemmas.RTBasic
import OFV.Lemmas.RTMsg
import OFV.Lemmas.RTMatch
import OFV.Lemmas.RTPacketIn
namespace OFV.RT4
set_option linter.unusedSimpArgs false
open OFV OFV.Go OFV.Model OFV.RT

theorem packetIn_decode_anyLength (ver lnH xid b t r ti c : Nat) (m eth : V) (eb mbs : Bytes)
    (hver : ver < 256) (hlnH : lnH < 65536) (hxid : xid < 4294967296) (hb32 : b < 4294967296) (ht : t < 65536) (hr : r < 256)
    (hti : ti < 256) (hc : c < 18446744073709551616) (hm : MatchWF m) (hmm : Match.marshalM m = .ok (mbs, m)) (heth : EthRT eth eb)
    (hL : 26 + mbs.length + eb.length < 65536) (depth : Nat) (data : Slice) (hdw : data.WF)
    (hb : data.bytes = [n8 ver, n8 Gen.openflow13.Type_PacketIn] ++ be16 (n16 lnH) ++ be32 (n32 xid)
        ++ (be32 (n32 b) ++ be16 (n16 t) ++ [n8 r, n8 ti] ++ be64 (n64 c)) ++ mbs ++ zeros 2 ++ eb) :
    parse depth data = .ok (packetInV ver lnH xid b t r ti c m [] eth) := by
  obtain ⟨mbs', hmm', hml, _, hmdec, h8m, hm64⟩ := match_roundtrip m hm
  rw [hmm] at hmm'; cases hmm'
  obtain ⟨hem, hel, hedec⟩ := heth
  have htom : (UInt16.ofNat mbs.length).toNat = mbs.length := by simp [UInt16.toNat_ofNat']; omega
  have h24l : ((24 : UInt16) + UInt16.ofNat mbs.length).toNat = 24 + mbs.length := by
    rw [UInt16.toNat_add, htom]
    have : (24 : UInt16).toNat = 24 := rfl
    rw [this]; omega
  have h26l : ((24 : UInt16) + UInt16.ofNat mbs.length + 2).toNat = 26 + mbs.length := by
    rw [UInt16.toNat_add, h24l]
    have : (2 : UInt16).toNat = 2 := rfl
    rw [this]; omega
  have hlen : data.len = 26 + mbs.length + eb.length := by
    rw [← Slice.bytes_length data hdw, hb]
    simp only [List.length_append, be16_length, be32_length, be64_length, List.length_cons, List.length_nil, zeros_length]; omega
  have hb' : data.bytes = [n8 ver, n8 Gen.openflow13.Type_PacketIn] ++ (be16 (n16 lnH) ++ (be32 (n32 xid) ++ (be32 (n32 b) ++
      (be16 (n16 t) ++ ([n8 r, n8 ti] ++ (be64 (n64 c) ++ (mbs ++ (zeros 2 ++ eb)))))))) := by
    rw [hb]; simp only [List.append_assoc]
  obtain ⟨_, _, hdec⟩ := header_roundtrip ver Gen.openflow13.Type_PacketIn lnH xid hver (by decide) hlnH hxid
  unfold parse
  obtain ⟨k, hk⟩ : ∃ k, max depth (data.cap + 1) = k + 1 := ⟨max depth (data.cap + 1) - 1, by omega⟩
  rw [hk]
  unfold parseD parseStep
  have e1 : data.bytes[1]? = some (n8 Gen.openflow13.Type_PacketIn) := by rw [hb']; rfl
  have ht10 : (n8 Gen.openflow13.Type_PacketIn).toNat = 10 := by decide
  have ht10' : (n8 10).toNat = 10 := by decide
  simp only [Slice.byteAt_eq, e1, Res.ofOption, Res.bind_ok, ht10, ht10',
    Gen.openflow13.Type_EchoRequest, Gen.openflow13.Type_EchoReply, Gen.openflow13.Type_GetConfigRequest,
    Gen.openflow13.Type_BarrierRequest, Gen.openflow13.Type_BarrierReply, Gen.openflow13.Type_FeaturesRequest,
    Gen.openflow13.Type_Hello, Gen.openflow13.Type_Error, Gen.openflow13.Type_Experimenter,
    Gen.openflow13.Type_FeaturesReply, Gen.openflow13.Type_GetConfigReply, Gen.openflow13.Type_SetConfig,
    Gen.openflow13.Type_PacketIn,
    Nat.reduceEqDiff, reduceIte, if_false, if_true, or_true, true_or, or_false, false_or, or_self]
  have hh := hdec Header.zero data ((be32 (n32 b) ++ (be16 (n16 t) ++ ([n8 r, n8 ti] ++ (be64 (n64 c) ++
    (mbs ++ (zeros 2 ++ eb))))))) hdw (by rw [hb']; simp only [List.append_assoc])
  have e8 : rd32 (data.bytes.drop 8) = some (n32 b) := by rw [hb']; exact rd32_be32 _ _
  have e12 : rd16 (data.bytes.drop 12) = some (n16 t) := by rw [hb']; exact rd16_be16 _ _
  have e14 : data.bytes[14]? = some (n8 r) := by rw [hb']; rfl
  have e15 : data.bytes[15]? = some (n8 ti) := by rw [hb']; rfl
  have e16 : rd64 (data.bytes.drop 16) = some (n64 c) := by rw [hb']; exact rd64_be64 _ _
  obtain ⟨dm, hm1, hm2, _, _⟩ := Slice.fromR_bytes data 24 (by omega)
  have hdmwf : dm.WF := (Slice.fromR_wf data hdw 24 dm hm1).1
  have hdmb : dm.bytes = mbs ++ (zeros 2 ++ eb) := by rw [hm2, hb']; rfl
  have hz : msgMatchZero = Match.zero := rfl
  have hdrop : ∀ n, data.bytes.drop (24 + n) = (mbs ++ (zeros 2 ++ eb)).drop n := by
    intro n
    rw [← List.drop_drop]
    congr 1
    rw [hb']; rfl
  obtain ⟨s, hs1, hs2, _, _⟩ := Slice.fromR_bytes data (24 + mbs.length) (by omega)
  have hsb : s.bytes = zeros 2 ++ eb := by rw [hs2, hdrop, List.drop_left' rfl]
  obtain ⟨de, he1, he2, _, _⟩ := Slice.fromR_bytes data (26 + mbs.length) (by omega)
  have hdewf : de.WF := (Slice.fromR_wf data hdw _ de he1).1
  have hdeb : de.bytes = eb := by
    rw [he2]
    have : 26 + mbs.length = 24 + (mbs.length + 2) := by omega
    rw [this, hdrop]
    have : mbs ++ (zeros 2 ++ eb) = (mbs ++ zeros 2) ++ eb := by simp only [List.append_assoc]
    rw [this]
    exact List.drop_left' (by simp)
  simp only [PacketIn.unmarshal, PacketIn.zero, msgTryU, hh, Res.bind_ok, Slice.u32From_eq, Slice.u16From_eq,
    Slice.u64From_eq, Slice.byteAt_eq, e8, e12, e14, e15, e16, Res.ofOption, hm1, hz, hmdec dm _ hdmwf hdmb, hml, h24l,
    h26l, hs1, he1, hedec de hdewf hdeb, copyInto_nil, Res.pure_eq, recoverR, packetInV, u32_n32 b hb32, u16_n16 t ht,
    u8_n8 r hr, u8_n8 ti hti, u64_n64 c hc]

end OFV.RT4
