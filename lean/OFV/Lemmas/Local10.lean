/-
  OFV.Lemmas.Local10 — frame locality, last round: the covered action kinds widened (`ActionKindCovered2` = the kinds of
  `ActionKindCovered` plus set-field, conjunction, ct_clear, dec_ttl, resubmit, resubmit-table, reg-move, controller), and the
  whole chain of `Local7`–`Local9` (action loop, instruction check, flow-mod, flow-stats record, multipart reply, good
  frames, Parse) re-established over it.  The definitions and proofs below are those of `Local7`–`Local9` with the kind
  predicate exchanged (names carry the suffix `2`); only `Action_unmarshalLeaf_loc_covered2` has new cases.
  reg-load and output-reg re-slice `data[12:16]` against the capacity: they are proved local on slices of at least 16 bytes
  (`NXActionRegLoad_loc_partial`, `NXActionOutputReg_loc_partial`) and stay outside the predicate.
-/
import OFV.Lemmas.Local9
namespace OFV.Model
open OFV OFV.Go OFV.Go.Slice

/-! ### four more Nicira kinds whose decoders read through `len`-checked primitives only -/

theorem NXActionResubmit_loc (recv : V) {s t : Slice} (haw : AW s t) :
    NXActionResubmit.unmarshal recv s = NXActionResubmit.unmarshal recv t := by
  unfold NXActionResubmit.unmarshal
  split
  · rw [nxPrefix_loc haw]; loc_norm haw
  · rfl

theorem NXActionResubmitTable_loc (recv : V) {s t : Slice} (haw : AW s t) :
    NXActionResubmitTable.unmarshal recv s = NXActionResubmitTable.unmarshal recv t := by
  unfold NXActionResubmitTable.unmarshal
  split
  · rw [nxPrefix_loc haw]; loc_norm haw
  · rfl

theorem NXActionRegMove_loc (recv : V) {s t : Slice} (haw : AW s t) :
    NXActionRegMove.unmarshal recv s = NXActionRegMove.unmarshal recv t := by
  unfold NXActionRegMove.unmarshal
  rw [nxPrefix_loc haw]
  loc_norm haw
  repeat' first
    | loc_step haw
    | simp only [MatchField.unmarshalHeader, Slice.AW.bytes_eq ‹AW _ _›]

theorem NXActionController_loc (recv : V) {s t : Slice} (haw : AW s t) :
    NXActionController.unmarshal recv s = NXActionController.unmarshal recv t := by
  unfold NXActionController.unmarshal
  split
  · rw [NXActionHeader_loc _ haw]; loc_norm haw
  · rfl

/-! ### the chain over `ActionKindCovered2` -/

/-- the action kinds covered: the kinds whose decoders are proved local on slices of at least 4 bytes, and the nil
    receiver (unknown type / foreign vendor / unknown subtype: the method call on the nil interface panics on both sides) -/
def ActionKindCovered2 (k : String) : Prop :=
  k = "ActionHeader" ∨ k = "ActionOutput" ∨ k = "ActionSetqueue" ∨ k = "ActionGroup" ∨ k = "ActionMplsTtl" ∨ k = "ActionNwTtl" ∨
  k = "ActionDecNwTtl" ∨ k = "ActionPush" ∨ k = "ActionPopVlan" ∨ k = "ActionPopMpls" ∨ k = "NXActionHeader" ∨ k = "" ∨
  k = "ActionSetField" ∨ k = "NXActionConjunction" ∨ k = "NXActionCTClear" ∨ k = "NXActionDecTTL" ∨ k = "NXActionResubmit" ∨
  k = "NXActionResubmitTable" ∨ k = "NXActionRegMove" ∨ k = "NXActionController"

theorem Action_unmarshalLeaf_loc_covered2 (a : V) {s t : Slice} (haw : AW s t) (h4 : 4 ≤ t.len) (hk : ActionKindCovered2 a.kind) :
    Action.unmarshalLeaf a s = Action.unmarshalLeaf a t := by
  unfold ActionKindCovered2 at hk
  unfold Action.unmarshalLeaf
  split
  all_goals first
    | exact ActionHeader_loc a haw
    | exact ActionOutput_loc a haw
    | exact ActionSetqueue_loc a haw
    | exact ActionGroup_loc a haw
    | exact ActionMplsTtl_loc a haw
    | exact ActionNwTtl_loc a haw
    | exact ActionDecNwTtl_loc_partial a haw h4
    | exact ActionPush_loc_partial a haw h4
    | exact ActionPopVlan_loc_partial a haw h4
    | exact ActionPopMpls_loc_partial a haw h4
    | exact NXActionHeader_loc a haw
    | exact ActionSetField_loc a haw
    | exact NXActionConjunction_loc a haw
    | exact NXActionCTClear_loc a haw
    | exact NXActionDecTTL_loc a haw
    | exact NXActionResubmit_loc a haw
    | exact NXActionResubmitTable_loc a haw
    | exact NXActionRegMove_loc a haw
    | exact NXActionController_loc a haw
    | rfl
    | (exfalso; rename_i heq; rw [heq] at hk; simp at hk)

/-- DecodeAction on a slice of at least 4 bytes whose action is of a covered kind -/
theorem DecodeAction_loc_covered2 {s t : Slice} (haw : AW s t) (h4 : 4 ≤ t.len)
    (hk : ∀ a, newActionFor t = .ok a → ActionKindCovered2 a.kind) (d d' : Nat) :
    DecodeAction (d + 1) s = DecodeAction (d' + 1) t := by
  unfold DecodeAction
  rw [newActionFor_loc_partial haw (by omega)]
  apply bind_congr_ok; intro a ha
  have hc := hk a ha
  have hne : a.kind ≠ "NXActionConnTrack" := by
    unfold ActionKindCovered2 at hc
    intro heq; rw [heq] at hc; simp at hc
  rw [if_neg hne, if_neg hne]
  exact Action_unmarshalLeaf_loc_covered2 a haw h4 hc

/-- the action loop `for n < limit { DecodeAction(data[n:]) … }`: local when every offset the loop reaches (invariant `I`,
    closed under "advance by the decoded action's length") leaves at least 4 bytes inside the frame and starts an action of
    a covered kind -/
theorem decodeActions_loc_inv2 {s t : Slice} (haw : AW s t) (limit n0 : Nat) (xs0 : List V) (I : Nat → Prop) (h0 : I n0)
    (hstep : ∀ n, I n → n < limit →
      n + 4 ≤ t.len ∧ (∀ d a, t.fromR n = .ok d → newActionFor d = .ok a → ActionKindCovered2 a.kind) ∧
      (∀ d act l act', t.fromR n = .ok d → DecodeAction (d.len + 1) d = .ok act → Action.lenM act = .ok (l, act') → l ≠ 0 →
        I (n + l.toNat))) :
    InstrAux.decodeActions s limit n0 xs0 = InstrAux.decodeActions t limit n0 xs0 := by
  unfold InstrAux.decodeActions
  rw [haw.len_eq]
  apply goLoop_congr_inv _ _ _ _ (fun st => st.err = false → I st.n)
  · intro st hst hc
    simp only [Bool.and_eq_true, Bool.not_eq_true', decide_eq_true_eq] at hc
    obtain ⟨herr, hlt⟩ := hc
    obtain ⟨h4, hk, _⟩ := hstep st.n (hst herr) hlt
    rcases Slice.fromR_loc haw st.n with ⟨h1, h2⟩ | ⟨x, y, h1, h2, hxy⟩
    · rw [h1, h2]
    · rw [h1, h2]
      simp only [Res.bind_ok]
      have hyl := (Slice.fromR_wf t haw.2.1 st.n y h2).2
      rw [hxy.len_eq, DecodeAction_loc_covered2 hxy (by omega) (fun a ha => hk y a h2 ha) y.len y.len]
  · intro st st' hst hc hb
    simp only [Bool.and_eq_true, Bool.not_eq_true', decide_eq_true_eq] at hc
    obtain ⟨herr, hlt⟩ := hc
    obtain ⟨_, _, hnext⟩ := hstep st.n (hst herr) hlt
    simp only [] at hb
    cases hd : t.fromR st.n with
    | ok y =>
      rw [hd] at hb; simp only [Res.bind_ok] at hb
      cases hda : DecodeAction (y.len + 1) y with
      | ok act =>
        rw [hda] at hb; simp only [] at hb
        cases hl : Action.lenM act with
        | ok p =>
          obtain ⟨l, act'⟩ := p
          rw [hl] at hb; simp only [Res.bind_ok] at hb
          by_cases hz : l = 0
          · simp only [hz, if_true, Res.pure_eq] at hb; cases hb; intro h; cases h
          · rw [if_neg hz] at hb; cases hb; intro _; exact hnext y act l act' hd hda hl hz
        | err => rw [hl] at hb; cases hb
        | panic => rw [hl] at hb; cases hb
        | spin => rw [hl] at hb; cases hb
      | err => rw [hda] at hb; cases hb; intro h; cases h
      | panic => rw [hda] at hb; cases hb
      | spin => rw [hda] at hb; cases hb
    | err => rw [hd] at hb; cases hb
    | panic => rw [hd] at hb; cases hb
    | spin => rw [hd] at hb; cases hb
  · intro _; exact h0

instance : DecidablePred ActionKindCovered2 := fun k => by unfold ActionKindCovered2; infer_instance

/-- the action loop `for n < limit` of `u`, checked: every reached offset leaves 4 bytes and starts a covered action -/
def actionsOK2 (u : Slice) (limit : Nat) : Nat → Nat → Bool
  | 0, _ => false
  | f + 1, n =>
    if n < limit then
      decide (n + 4 ≤ u.len) &&
      (match u.fromR n with
       | .ok d =>
         (match newActionFor d with
          | .ok a => decide (ActionKindCovered2 a.kind)
          | _ => true) &&
         (match DecodeAction (d.len + 1) d with
          | .ok act =>
            (match Action.lenM act with
             | .ok (l, _) => l == 0 || actionsOK2 u limit f (n + l.toNat)
             | _ => true)
          | _ => true)
       | _ => true)
    else true

theorem actionsOK_step2 (u : Slice) (limit : Nat) (n : Nat) (hI : ∃ f, actionsOK2 u limit f n = true) (hlt : n < limit) :
    n + 4 ≤ u.len ∧ (∀ d a, u.fromR n = .ok d → newActionFor d = .ok a → ActionKindCovered2 a.kind) ∧
    (∀ d act l act', u.fromR n = .ok d → DecodeAction (d.len + 1) d = .ok act → Action.lenM act = .ok (l, act') → l ≠ 0 →
      ∃ f, actionsOK2 u limit f (n + l.toNat) = true) := by
  obtain ⟨f, hf⟩ := hI
  cases f with
  | zero => simp [actionsOK2] at hf
  | succ f =>
    unfold actionsOK2 at hf
    rw [if_pos hlt] at hf
    simp only [Bool.and_eq_true, decide_eq_true_eq] at hf
    obtain ⟨h4, hrest⟩ := hf
    refine ⟨h4, ?_, ?_⟩
    · intro d a hd ha
      rw [hd] at hrest
      simp only [ha, Bool.and_eq_true, decide_eq_true_eq] at hrest
      exact hrest.1
    · intro d act l act' hd hda hl hz
      rw [hd] at hrest
      simp only [hda, hl, Bool.and_eq_true, Bool.or_eq_true, beq_iff_eq] at hrest
      rcases hrest.2 with h | h
      · exact absurd h hz
      · exact ⟨f, h⟩

/-- the action loop on an agreeing slice, under the evaluated in-frame check -/
theorem decodeActions_loc_ok2 {s u : Slice} (haw : AW s u) (limit n0 : Nat) (xs0 : List V)
    (hok : ∃ f, actionsOK2 u limit f n0 = true) :
    InstrAux.decodeActions s limit n0 xs0 = InstrAux.decodeActions u limit n0 xs0 :=
  decodeActions_loc_inv2 haw limit n0 xs0 (fun n => ∃ f, actionsOK2 u limit f n = true) hok
    (fun n hn hlt => actionsOK_step2 u limit n hn hlt)

/-- one instruction at the start of `d`, checked: 4 bytes for the header, 8 for goto-table, 24 for write-metadata, and for an
    actions instruction the action loop up to the declared Length -/
def instrOK2 (d : Slice) : Bool :=
  decide (4 ≤ d.len) &&
  (match d.u16In 0 2 with
   | .ok ty =>
     if ty.toNat = Gen.openflow13.InstrType_GOTO_TABLE then decide (8 ≤ d.len)
     else if ty.toNat = Gen.openflow13.InstrType_WRITE_METADATA then decide (24 ≤ d.len)
     else if ty.toNat = Gen.openflow13.InstrType_WRITE_ACTIONS ∨ ty.toNat = Gen.openflow13.InstrType_APPLY_ACTIONS
         ∨ ty.toNat = Gen.openflow13.InstrType_CLEAR_ACTIONS then
       (match InstrHeader.unmarshal4 InstrHeader.zero d with
        | .ok h => actionsOK2 d (InstrHeader.length h) (d.len + 2) 8
        | _ => true)
     else true
   | _ => true)

theorem InstrActions_unmarshalP_zero_loc_ok2 {x y : Slice} (haw : AW x y) (h4 : 4 ≤ y.len)
    (hok : ∀ h, InstrHeader.unmarshal4 InstrHeader.zero y = .ok h → ∃ f, actionsOK2 y (InstrHeader.length h) f 8 = true) :
    InstrActions.unmarshalP InstrActions.zero x = InstrActions.unmarshalP InstrActions.zero y := by
  unfold InstrActions.unmarshalP InstrActions.zero
  simp only []
  rw [InstrHeader_unmarshal4_loc_partial _ haw h4]
  apply bind_congr_ok; intro h hh
  rw [decodeActions_loc_ok2 haw _ _ _ (hok h hh)]

/-- DecodeInstr on an agreeing slice, under the evaluated in-frame check -/
theorem DecodeInstr_loc_ok2 {x y : Slice} (haw : AW x y) (hok : instrOK2 y = true) : DecodeInstr x = DecodeInstr y := by
  unfold instrOK2 at hok
  simp only [Bool.and_eq_true, decide_eq_true_eq] at hok
  obtain ⟨h4, hrest⟩ := hok
  unfold DecodeInstr
  rw [Slice.u16In_loc haw 0 2 (by omega)]
  apply bind_congr_ok; intro ty hty
  rw [hty] at hrest
  simp only [] at hrest
  apply ite_congr rfl _ _
  · intro hc
    rw [if_pos hc] at hrest
    rw [InstrGotoTable_loc_partial _ haw (by simpa using hrest)]
  · intro hc
    rw [if_neg hc] at hrest
    apply ite_congr rfl _ _
    · intro hc2
      rw [if_pos hc2] at hrest
      rw [InstrWriteMetadata_loc_partial _ haw (by simpa using hrest)]
    · intro hc2
      rw [if_neg hc2] at hrest
      apply ite_congr rfl _ _
      · intro hc3
        rw [if_pos hc3] at hrest
        rw [InstrActions_unmarshalP_zero_loc_ok2 haw h4]
        intro h hh
        rw [hh] at hrest
        exact ⟨_, hrest⟩
      · intro _
        apply ite_congr rfl _ (fun _ => rfl)
        intro _
        rw [InstrMeter_loc _ haw]

/-- the instruction loop `for n < limit` of `u`, checked: every reached offset starts an instruction that passes `instrOK2` -/
def instrsOK2 (u : Slice) (limit : Nat) : Nat → Nat → Bool
  | 0, _ => false
  | f + 1, n =>
    if n < limit then
      (match u.fromR n with
       | .ok d =>
         instrOK2 d &&
         (match DecodeInstr d with
          | .ok i =>
            (match Instruction.lenM i with
             | .ok (l, _) => l == 0 || instrsOK2 u limit f (n + l.toNat)
             | _ => true)
          | _ => true)
       | _ => true)
    else true

theorem instrsOK_step2 (u : Slice) (limit : Nat) (n : Nat) (hI : ∃ f, instrsOK2 u limit f n = true) (hlt : n < limit) :
    (∀ d, u.fromR n = .ok d → instrOK2 d = true) ∧
    (∀ d i l i', u.fromR n = .ok d → DecodeInstr d = .ok i → Instruction.lenM i = .ok (l, i') → l ≠ 0 →
      ∃ f, instrsOK2 u limit f (n + l.toNat) = true) := by
  obtain ⟨f, hf⟩ := hI
  cases f with
  | zero => simp [instrsOK2] at hf
  | succ f =>
    unfold instrsOK2 at hf
    rw [if_pos hlt] at hf
    refine ⟨?_, ?_⟩
    · intro d hd
      rw [hd] at hf
      simp only [Bool.and_eq_true] at hf
      exact hf.1
    · intro d i l i' hd hdi hl hz
      rw [hd] at hf
      simp only [hdi, hl, Bool.and_eq_true, Bool.or_eq_true, beq_iff_eq] at hf
      rcases hf.2 with h | h
      · exact absurd h hz
      · exact ⟨f, h⟩

/-- the in-frame condition of a flow-mod as Parse decodes it (receiver `NewFlowMod()`): at least 8 bytes, and the
    instruction loop — from the end of the match up to the header's Length — passes `instrsOK2` -/
def FlowModInFrameAt2 (u : Slice) : Prop :=
  8 ≤ u.len ∧
  ∀ y0 hp dm mp lp, u.fromR 0 = .ok y0 →
    InstrAux.catchErr (Header.unmarshal (msgOfpHeader Gen.openflow13.Type_FlowMod) y0) (msgOfpHeader Gen.openflow13.Type_FlowMod) = .ok hp →
    u.fromR 48 = .ok dm → Match.unmarshalP Match.new dm = .ok mp → Match.lenM mp.1 = .ok lp →
    instrsOK2 u (Header.length hp.1) (u.len + 2) (48 + lp.1.toNat) = true

theorem FlowMod_loc_inframe2 {s u : Slice} (haw : AW s u) (hok : FlowModInFrameAt2 u) :
    FlowMod.unmarshal flowModRecv s = FlowMod.unmarshal flowModRecv u := by
  obtain ⟨h8, hok⟩ := hok
  unfold FlowMod.unmarshal flowModRecv
  simp only []
  loc_norm haw
  rcases Slice.fromR_loc haw 0 with ⟨h1, h2⟩ | ⟨x0, y0, h1, h2, hxy0⟩
  · rw [h1, h2]; simp only [Res.bind_panic]
  rw [h1, h2]
  simp only [Res.bind_ok]
  have hl0 := (Slice.fromR_wf u haw.2.1 0 y0 h2).2
  rw [Header_loc_partial _ hxy0 (Or.inr (by omega))]
  apply bind_congr_ok; intro hp hhp
  iterate 11 (apply Res.bind_congr2 rfl; intro _)
  rcases Slice.fromR_loc haw 48 with ⟨h3, h4⟩ | ⟨x, y, h3, h4, hxy⟩
  · rw [h3, h4]; simp only [Res.bind_panic]
  rw [h3, h4]
  simp only [Res.bind_ok, InstrAux.matchUnmarshalP]
  rw [Match_unmarshalP_loc _ hxy]
  apply bind_congr_ok; intro mp hmp
  apply bind_congr_ok; intro lp hlp
  have hI := hok y0 hp y mp lp h2 hhp h4 hmp hlp
  apply Res.bind_congr2 _ (fun _ => rfl)
  apply goLoop_congr_inv _ _ _ _ (fun st => ∃ f, instrsOK2 u (Header.length hp.1) f st.n = true)
  · intro st hst hc
    simp only [decide_eq_true_eq] at hc
    obtain ⟨hin, _⟩ := instrsOK_step2 u _ st.n hst hc
    rcases Slice.fromR_loc haw st.n with ⟨h5, h6⟩ | ⟨xd, yd, h5, h6, hxyd⟩
    · rw [h5, h6]
    · rw [h5, h6]
      simp only [Res.bind_ok]
      rw [DecodeInstr_loc_ok2 hxyd (hin yd h6)]
  · intro st st' hst hc hb
    simp only [decide_eq_true_eq] at hc
    obtain ⟨_, hnext⟩ := instrsOK_step2 u _ st.n hst hc
    cases hd : u.fromR st.n with
    | ok yd =>
      rw [hd] at hb; simp only [Res.bind_ok] at hb
      cases hdi : DecodeInstr yd with
      | ok i =>
        rw [hdi] at hb; simp only [Res.bind_ok] at hb
        cases hl : Instruction.lenM i with
        | ok p =>
          obtain ⟨l, i'⟩ := p
          rw [hl] at hb; simp only [Res.bind_ok] at hb
          by_cases hz : l = 0
          · rw [if_pos hz] at hb; cases hb
          · rw [if_neg hz] at hb; cases hb; exact hnext yd i l i' hd hdi hl hz
        | err => rw [hl] at hb; cases hb
        | panic => rw [hl] at hb; cases hb
        | spin => rw [hl] at hb; cases hb
      | err => rw [hdi] at hb; cases hb
      | panic => rw [hdi] at hb; cases hb
      | spin => rw [hdi] at hb; cases hb
    | err => rw [hd] at hb; cases hb
    | panic => rw [hd] at hb; cases hb
    | spin => rw [hd] at hb; cases hb
  · exact ⟨_, hI⟩


/-- the in-frame condition, evaluated on the visible bytes alone (a slice with NO spare capacity) -/
def FlowModInFrame2 (t : Slice) : Prop := FlowModInFrameAt2 (Slice.exact t.bytes)

theorem FlowMod_loc_visible2 {s t : Slice} (haw : AW s t) (hok : FlowModInFrame2 t) :
    FlowMod.unmarshal flowModRecv s = FlowMod.unmarshal flowModRecv t := by
  have ht := AW_exact haw.2.1
  rw [FlowMod_loc_inframe2 (AW_trans haw ht) hok, FlowMod_loc_inframe2 ht hok]

/-- the instruction loop of a flow-stats record (`FlowStats.decodeInstrs`: it advances by the SECOND `instr.Len()`), checked -/
def fsInstrsOK2 (u : Slice) (limit : Nat) : Nat → Nat → Bool
  | 0, _ => false
  | f + 1, n =>
    if n < limit then
      (match u.fromR n with
       | .ok d =>
         instrOK2 d &&
         (match DecodeInstr d with
          | .ok i =>
            (match Instruction.lenM i with
             | .ok (l, i') =>
               l == 0 || (match Instruction.lenM i' with
                          | .ok (l2, _) => fsInstrsOK2 u limit f (n + l2.toNat)
                          | _ => true)
             | _ => true)
          | _ => true)
       | _ => true)
    else true

theorem fsInstrsOK_step2 (u : Slice) (limit : Nat) (n : Nat) (hI : ∃ f, fsInstrsOK2 u limit f n = true) (hlt : n < limit) :
    (∀ d, u.fromR n = .ok d → instrOK2 d = true) ∧
    (∀ d i l i' l2 i'', u.fromR n = .ok d → DecodeInstr d = .ok i → Instruction.lenM i = .ok (l, i') → l ≠ 0 →
      Instruction.lenM i' = .ok (l2, i'') → ∃ f, fsInstrsOK2 u limit f (n + l2.toNat) = true) := by
  obtain ⟨f, hf⟩ := hI
  cases f with
  | zero => simp [fsInstrsOK2] at hf
  | succ f =>
    unfold fsInstrsOK2 at hf
    rw [if_pos hlt] at hf
    refine ⟨?_, ?_⟩
    · intro d hd
      rw [hd] at hf
      simp only [Bool.and_eq_true] at hf
      exact hf.1
    · intro d i l i' l2 i'' hd hdi hl hz hl2
      rw [hd] at hf
      simp only [hdi, hl, hl2, Bool.and_eq_true, Bool.or_eq_true, beq_iff_eq] at hf
      rcases hf.2 with h | h
      · exact absurd h hz
      · exact ⟨f, h⟩

theorem decodeInstrs_loc_ok2 {s u : Slice} (haw : AW s u) (limit n0 : Nat) (is0 : List V)
    (hok : ∃ f, fsInstrsOK2 u limit f n0 = true) :
    FlowStats.decodeInstrs s limit n0 is0 = FlowStats.decodeInstrs u limit n0 is0 := by
  unfold FlowStats.decodeInstrs
  rw [haw.len_eq]
  apply Res.bind_congr2 _ (fun _ => rfl)
  apply goLoop_congr_inv _ _ _ _ (fun st => ∃ f, fsInstrsOK2 u limit f st.n = true)
  · intro st hst hc
    simp only [decide_eq_true_eq] at hc
    obtain ⟨hin, _⟩ := fsInstrsOK_step2 u _ st.n hst hc
    rcases Slice.fromR_loc haw st.n with ⟨h5, h6⟩ | ⟨xd, yd, h5, h6, hxyd⟩
    · rw [h5, h6]
    · rw [h5, h6]
      simp only [Res.bind_ok]
      rw [DecodeInstr_loc_ok2 hxyd (hin yd h6)]
  · intro st st' hst hc hb
    simp only [decide_eq_true_eq] at hc
    obtain ⟨_, hnext⟩ := fsInstrsOK_step2 u _ st.n hst hc
    cases hd : u.fromR st.n with
    | ok yd =>
      rw [hd] at hb; simp only [Res.bind_ok] at hb
      cases hdi : DecodeInstr yd with
      | ok i =>
        rw [hdi] at hb; simp only [Res.bind_ok] at hb
        cases hl : Instruction.lenM i with
        | ok p =>
          obtain ⟨l, i'⟩ := p
          rw [hl] at hb; simp only [Res.bind_ok] at hb
          by_cases hz : l = 0
          · rw [if_pos hz] at hb; cases hb
          · rw [if_neg hz] at hb
            cases hl2 : Instruction.lenM i' with
            | ok q =>
              obtain ⟨l2, i''⟩ := q
              rw [hl2] at hb; simp only [Res.bind_ok] at hb
              cases hb; exact hnext yd i l i' l2 i'' hd hdi hl hz hl2
            | err => rw [hl2] at hb; cases hb
            | panic => rw [hl2] at hb; cases hb
            | spin => rw [hl2] at hb; cases hb
        | err => rw [hl] at hb; cases hb
        | panic => rw [hl] at hb; cases hb
        | spin => rw [hl] at hb; cases hb
      | err => rw [hdi] at hb; cases hb
      | panic => rw [hdi] at hb; cases hb
      | spin => rw [hdi] at hb; cases hb
    | err => rw [hd] at hb; cases hb
    | panic => rw [hd] at hb; cases hb
    | spin => rw [hd] at hb; cases hb
  · exact hok

/-- one flow-stats record at the start of `d`, checked: the 48 fixed bytes lie inside the slice and the instruction loop —
    from the end of the match up to the record's declared length — passes `fsInstrsOK2` -/
def flowStatsOK2 (d : Slice) : Bool :=
  decide (48 ≤ d.len) &&
  (match d.u16From 0 with
   | .ok ln =>
     (match d.fromR 48 with
      | .ok dm =>
        (match Match.unmarshalP Match.new dm with
         | .ok mp =>
           (match Match.lenM mp.1 with
            | .ok lp => fsInstrsOK2 d ln.toNat (d.len + 2) (48 + lp.1.toNat)
            | _ => true)
         | _ => true)
      | _ => true)
   | _ => true)

theorem FlowStats_unmarshalP_new_loc_ok2 {x y : Slice} (haw : AW x y) (hok : flowStatsOK2 y = true) :
    FlowStats.unmarshalP FlowStats.new x = FlowStats.unmarshalP FlowStats.new y := by
  unfold flowStatsOK2 at hok
  simp only [Bool.and_eq_true, decide_eq_true_eq] at hok
  obtain ⟨h48, hrest⟩ := hok
  unfold FlowStats.unmarshalP FlowStats.new
  simp only []
  loc_norm haw
  apply bind_congr_ok; intro ln hln
  iterate 8 (apply Res.bind_congr2 rfl; intro _)
  apply Slice.sliceR_bind_loc haw _ _ _ _ (by omega); intro xs ys hxys
  simp only [hxys.bytes_eq]
  iterate 3 (apply Res.bind_congr2 rfl; intro _)
  rcases Slice.fromR_loc haw 48 with ⟨h3, h4⟩ | ⟨xm, ym, h3, h4, hxym⟩
  · rw [h3, h4]; simp only [Res.bind_panic]
  rw [h3, h4]
  simp only [Res.bind_ok]
  rw [Match_unmarshalP_loc _ hxym]
  apply bind_congr_ok; intro mp hmp
  apply bind_congr_ok; intro lp hlp
  simp only [hln, h4, hmp, hlp] at hrest
  rw [decodeInstrs_loc_ok2 haw _ _ _ ⟨_, hrest⟩]

theorem decodeRecord_loc_ok2 (ty : Nat) {x y : Slice} (haw : AW x y)
    (hok : ty = Gen.openflow13.MultipartType_Flow → flowStatsOK2 y = true) :
    MultipartReply.decodeRecord ty x = MultipartReply.decodeRecord ty y := by
  unfold MultipartReply.decodeRecord msgTryU
  rw [AggregateStats_loc _ haw, DescStats_loc _ haw, PortStats_loc _ haw, TableStats_loc _ haw, QueueStats_loc _ haw]
  apply ite_congr rfl (fun _ => rfl); intro _
  apply ite_congr rfl (fun _ => rfl); intro _
  apply ite_congr rfl _ (fun _ => rfl); intro hc
  exact FlowStats_unmarshalP_new_loc_ok2 haw (hok hc)

/-- the record loop of a multipart reply of type `ty` (`for n < Header.Length`), checked: every reached flow-stats record
    passes `flowStatsOK2` -/
def recordsOK2 (cl : MsgLenF) (u : Slice) (ty limit : Nat) : Nat → Nat → Bool
  | 0, _ => false
  | f + 1, n =>
    if n < limit then
      (match u.fromR n with
       | .ok d =>
         (if ty = Gen.openflow13.MultipartType_Flow then flowStatsOK2 d else true) &&
         (match MultipartReply.decodeRecord ty d with
          | .ok (r, e) =>
            e || (match cl r with
                  | .ok (l, _) => l == 0 || recordsOK2 cl u ty limit f (n + l.toNat)
                  | _ => true)
          | _ => true)
       | _ => true)
    else true

theorem recordsOK_step2 (cl : MsgLenF) (u : Slice) (ty limit n : Nat) (hI : ∃ f, recordsOK2 cl u ty limit f n = true) (hlt : n < limit) :
    (∀ d, u.fromR n = .ok d → ty = Gen.openflow13.MultipartType_Flow → flowStatsOK2 d = true) ∧
    (∀ d r l r', u.fromR n = .ok d → MultipartReply.decodeRecord ty d = .ok (r, false) → cl r = .ok (l, r') → l ≠ 0 →
      ∃ f, recordsOK2 cl u ty limit f (n + l.toNat) = true) := by
  obtain ⟨f, hf⟩ := hI
  cases f with
  | zero => simp [recordsOK2] at hf
  | succ f =>
    unfold recordsOK2 at hf
    rw [if_pos hlt] at hf
    refine ⟨?_, ?_⟩
    · intro d hd hty
      rw [hd] at hf
      simp only [Bool.and_eq_true, hty, if_true] at hf
      exact hf.1
    · intro d r l r' hd hdr hl hz
      rw [hd] at hf
      simp only [hdr, hl, Bool.and_eq_true, Bool.or_eq_true, beq_iff_eq, Bool.false_eq_true, false_or] at hf
      rcases hf.2 with h | h
      · exact absurd h hz
      · exact ⟨f, h⟩

/-- the in-frame condition of a multipart reply as Parse decodes it -/
def MultipartInFrameAt2 (cl : MsgLenF) (u : Slice) : Prop :=
  8 ≤ u.len ∧
  ∀ hp mt, msgTryU Header.unmarshal Header.zero u = .ok hp → u.u16From 8 = .ok mt →
    recordsOK2 cl u mt.toNat (Header.length hp.1) (u.len + 2) 16 = true

theorem MultipartReply_loc_inframe2 (cl : MsgLenF) {s u : Slice} (haw : AW s u) (hok : MultipartInFrameAt2 cl u) :
    MultipartReply.unmarshalWith cl MultipartReply.zero s = MultipartReply.unmarshalWith cl MultipartReply.zero u := by
  obtain ⟨h8, hok⟩ := hok
  unfold MultipartReply.unmarshalWith MultipartReply.zero
  simp only []
  loc_norm haw
  rw [msgTryU_Header_loc _ haw h8]
  apply bind_congr_ok; intro hp hhp
  apply bind_congr_ok; intro mt hmt
  apply Res.bind_congr2 rfl; intro _
  have hI := hok hp mt hhp hmt
  apply Res.bind_congr2 _ (fun _ => rfl)
  apply msgLoopW_congr_inv _ _ _ _ (fun st => ∃ f, recordsOK2 cl u mt.toNat (Header.length hp.1) f st.n = true)
  · intro st hst hc
    simp only [decide_eq_true_eq] at hc
    obtain ⟨hin, _⟩ := recordsOK_step2 cl u _ _ st.n hst hc
    rcases Slice.fromR_loc haw st.n with ⟨h5, h6⟩ | ⟨xd, yd, h5, h6, hxyd⟩
    · rw [h5, h6]
    · rw [h5, h6]
      simp only [Res.bind_ok]
      rw [decodeRecord_loc_ok2 _ hxyd (hin yd h6)]
  · intro st st' hst hc hb
    simp only [decide_eq_true_eq] at hc
    obtain ⟨_, hnext⟩ := recordsOK_step2 cl u _ _ st.n hst hc
    cases hd : u.fromR st.n with
    | ok yd =>
      rw [hd] at hb; simp only [Res.bind_ok] at hb
      cases hdr : MultipartReply.decodeRecord mt.toNat yd with
      | ok p =>
        obtain ⟨r, e⟩ := p
        rw [hdr] at hb; simp only [Res.bind_ok] at hb
        cases e with
        | true => simp at hb
        | false =>
          simp only [Bool.false_eq_true, if_false] at hb
          cases hl : cl r with
          | ok q =>
            obtain ⟨l, r'⟩ := q
            rw [hl] at hb; simp only [Res.bind_ok] at hb
            by_cases hz : l = 0
            · rw [if_pos hz] at hb; cases hb
            · rw [if_neg hz] at hb; cases hb; exact hnext yd r l r' hd hdr hl hz
          | err => rw [hl] at hb; cases hb
          | panic => rw [hl] at hb; cases hb
          | spin => rw [hl] at hb; cases hb
      | err => rw [hdr] at hb; cases hb
      | panic => rw [hdr] at hb; cases hb
      | spin => rw [hdr] at hb; cases hb
    | err => rw [hd] at hb; cases hb
    | panic => rw [hd] at hb; cases hb
    | spin => rw [hd] at hb; cases hb
  · exact ⟨_, hI⟩

/-- the in-frame condition of a multipart reply, evaluated on the visible bytes alone.  For a reply of a type other than
    flow it only asks for the 8 header bytes (the record walk has nothing to check). -/
def FlowStatsInFrame2 (t : Slice) : Prop := MultipartInFrameAt2 anyLenM (Slice.exact t.bytes)

theorem MultipartReply_loc_visible2 {s t : Slice} (haw : AW s t) (hok : FlowStatsInFrame2 t) :
    MultipartReply.unmarshalWith anyLenM MultipartReply.zero s = MultipartReply.unmarshalWith anyLenM MultipartReply.zero t := by
  have ht := AW_exact haw.2.1
  rw [MultipartReply_loc_inframe2 anyLenM (AW_trans haw ht) hok, MultipartReply_loc_inframe2 anyLenM ht hok]

/-- good frames, final form: at least 8 bytes; a flow-mod passes `FlowModInFrame2`, a multipart reply passes
    `FlowStatsInFrame2`; an experimenter frame is not cut before its Length field, a TLV table reply has Length ≥ 32, and the
    message embedded in a bundle-add is again good -/
def GoodFrame32 : Nat → Slice → Prop
  | 0, _ => False
  | n + 1, t =>
    8 ≤ t.len ∧
    ∀ tb, t.byteAt 1 = .ok tb →
      (tb.toNat = Gen.openflow13.Type_FlowMod → FlowModInFrame2 t) ∧
      (tb.toNat = Gen.openflow13.Type_MultiPartReply → FlowStatsInFrame2 t) ∧
      (tb.toNat = Gen.openflow13.Type_Experimenter →
        (∀ w, t.u16In 2 4 = .ok w → w.toNat ≤ t.len) ∧
        (∀ ty, t.u32From 12 = .ok ty →
          (ty.toNat = Gen.openflow13.Type_TlvTableReply → ∀ w, t.u16In 2 4 = .ok w → 32 ≤ w.toNat) ∧
          (ty.toNat = Gen.openflow13.Type_BundleAdd → ∀ w body ml inner, t.u16In 2 4 = .ok w →
            t.sliceR 16 w.toNat = .ok body → body.u16From 10 = .ok ml → body.sliceR 8 (8 + ml.toNat) = .ok inner →
            GoodFrame32 n inner)))

theorem parseD_good3_loc2 : ∀ (n : Nat) (s t : Slice), AW s t → GoodFrame32 n t → ∀ d d', t.len ≤ d → t.len ≤ d' →
    parseD (d + 1) s = parseD (d' + 1) t := by
  intro n
  induction n with
  | zero => intro s t _ hg; exact absurd hg (by unfold GoodFrame32; exact fun h => h)
  | succ n ih =>
    intro s t haw hg d d' hd hd'
    unfold GoodFrame32 at hg
    obtain ⟨h8, hk⟩ := hg
    unfold parseD
    rw [parseStep_loc4 (parseD d) (parseD d') haw h8]
    intro tb htb
    obtain ⟨hfm, hmp, hexp⟩ := hk tb htb
    refine ⟨fun he => ?_, fun hf => FlowMod_loc_visible2 haw (hfm hf), fun hm => MultipartReply_loc_visible2 haw (hmp hm)⟩
    obtain ⟨hL, hty⟩ := hexp he
    apply VendorHeader_unmarshalWith_loc_partial3 _ _ _ haw hL
    intro w ty x y hw hty' hy hxy
    obtain ⟨htlv, hba⟩ := hty ty hty'
    have hylen := (Slice.sliceR_wf t 16 _ y hy).2
    have hwle := hL w hw
    apply decodeVendorDataWith_loc_partial2 _ _ _ _ _ hxy
    · intro h26; have := htlv h26 w hw; omega
    · intro h2301 ml u v hml hv huv hv8 hvl
      have hgi := hba h2301 w y ml v hw hy hml hv
      have e1 : d = (d - 1) + 1 := by omega
      have e2 : d' = (d' - 1) + 1 := by omega
      rw [e1, e2]
      exact ih u v huv hgi _ _ (by omega) (by omega)

/-- Parse on every good frame (final form) -/
theorem parse_good4_loc2 (n : Nat) {s t : Slice} (haw : AW s t) (hg : GoodFrame32 n t) (d d' : Nat) : parse d s = parse d' t := by
  unfold parse
  have hs := haw.1
  have ht := haw.2.1
  have hl := haw.len_eq
  unfold Slice.WF at hs ht
  unfold Slice.cap
  have e1 : max d (s.buf.length + 1) = (max d (s.buf.length + 1) - 1) + 1 := by omega
  have e2 : max d' (t.buf.length + 1) = (max d' (t.buf.length + 1) - 1) + 1 := by omega
  rw [e1, e2]
  exact parseD_good3_loc2 n s t haw hg _ _ (by omega) (by omega)


/-! ### a conformant Open-vSwitch-style flow-mod: apply-actions [set-field in_port, resubmit-table, ct_clear] -/

def fmOvsFrame : Bytes :=
  [4, 14, 0, 112, 0, 0, 0, 7] ++ zeros 40 ++ [0, 1, 0, 4, 0, 0, 0, 0] ++ [0, 4, 0, 56, 0, 0, 0, 0] ++
  [0, 25, 0, 16, 0x80, 0, 0, 4, 0, 0, 0, 1, 0, 0, 0, 0] ++
  [0xff, 0xff, 0, 16, 0, 0, 0x23, 0x20, 0, 14, 0xff, 0xf8, 5, 0, 0, 0] ++
  [0xff, 0xff, 0, 16, 0, 0, 0x23, 0x20, 0, 43, 0, 0, 0, 0, 0, 0]

theorem fmOvsFrame_inframe2 (tail : Bytes) : FlowModInFrame2 ⟨fmOvsFrame ++ tail, 112⟩ := by
  have hb : (Slice.mk (fmOvsFrame ++ tail) 112).bytes = fmOvsFrame := by
    unfold Slice.bytes
    show List.take 112 (fmOvsFrame ++ tail) = fmOvsFrame
    rw [List.take_append_of_le_length (by decide)]
    rfl
  unfold FlowModInFrame2
  rw [hb]
  refine ⟨by decide, ?_⟩
  intro y0 hp dm mp lp h2 hhp h4 hmp hlp
  have e2 : (Slice.exact fmOvsFrame).fromR 0 = .ok (Slice.exact fmOvsFrame) := rfl
  rw [e2] at h2; cases h2
  have ehp : InstrAux.catchErr (Header.unmarshal (msgOfpHeader Gen.openflow13.Type_FlowMod) (Slice.exact fmOvsFrame))
      (msgOfpHeader Gen.openflow13.Type_FlowMod) = .ok (.obj "Header" [.num 4, .num 14, .num 112, .num 7], false) := rfl
  rw [ehp] at hhp; cases hhp
  have e4 : (Slice.exact fmOvsFrame).fromR 48 = .ok ⟨fmOvsFrame.drop 48, 64⟩ := rfl
  rw [e4] at h4; cases h4
  have emp : Match.unmarshalP Match.new ⟨fmOvsFrame.drop 48, 64⟩ = .ok (.obj "Match" [.num 1, .num 4, .list []], false) := rfl
  rw [emp] at hmp; cases hmp
  have elp : Match.lenM (.obj "Match" [.num 1, .num 4, .list []]) = .ok (8, .obj "Match" [.num 1, .num 4, .list []]) := rfl
  rw [elp] at hlp; cases hlp
  rfl

/-- with the narrower kind predicate of round 5 the same frame was outside the check -/
theorem fmOvsFrame_not_inframe_old : instrsOK (Slice.exact fmOvsFrame) 112 114 56 = false := rfl

/-! ### reg-load and output-reg: `data[12:16]` is checked against the capacity only -/

theorem NXActionRegLoad_loc_partial (recv : V) {s t : Slice} (haw : AW s t) (h16 : 16 ≤ t.len) :
    NXActionRegLoad.unmarshal recv s = NXActionRegLoad.unmarshal recv t := by
  unfold NXActionRegLoad.unmarshal
  rw [nxPrefix_loc haw]
  loc_norm haw
  repeat' first
    | loc_step haw
    | simp only [MatchField.unmarshalHeader, Slice.AW.bytes_eq ‹AW _ _›]

theorem NXActionOutputReg_loc_partial (recv : V) {s t : Slice} (haw : AW s t) (h16 : 16 ≤ t.len) :
    NXActionOutputReg.unmarshal recv s = NXActionOutputReg.unmarshal recv t := by
  unfold NXActionOutputReg.unmarshal
  split
  · rw [nxPrefix_loc haw]
    loc_norm haw
    repeat' first
      | loc_step haw
      | simp only [MatchField.unmarshalHeader, Slice.AW.bytes_eq ‹AW _ _›]
  · rfl

/-! ### the round-3 over-read frames fail the final predicates; an Open-vSwitch-style flow-stats reply passes -/

theorem fmCex_not_inframe2 : ¬ FlowModInFrame2 fmCexT := by
  intro h
  have hb : fmCexT.bytes = fmFrame := by rfl
  unfold FlowModInFrame2 at h
  rw [hb] at h
  have h' := h.2 (Slice.exact fmFrame) (.obj "Header" [.num 4, .num 14, .num 64, .num 7], false) ⟨fmFrame.drop 48, 16⟩
    (.obj "Match" [.num 1, .num 4, .list []], false) (8, .obj "Match" [.num 1, .num 4, .list []]) rfl rfl rfl rfl rfl
  have hf : instrsOK2 (Slice.exact fmFrame) 64 ((Slice.exact fmFrame).len + 2) (48 + 8) = false := rfl
  exact absurd (h'.symm.trans hf) (by decide)

theorem mpCex_not_inframe2 : ¬ FlowStatsInFrame2 mpCexT := by
  intro h
  have hb : mpCexT.bytes = mpFrame := by rfl
  unfold FlowStatsInFrame2 at h
  rw [hb] at h
  have h' := h.2 (.obj "Header" [.num 4, .num 19, .num 80, .num 7], false) 1 rfl rfl
  have hf : recordsOK2 anyLenM (Slice.exact mpFrame) 1 80 ((Slice.exact mpFrame).len + 2) 16 = false := rfl
  exact absurd (h'.symm.trans hf) (by decide)

/-- a conformant flow-stats reply of 128 bytes: one record of 112 bytes, apply-actions [set-field in_port:=1, resubmit-table 5,
    ct_clear] -/
def mpOvsFrame : Bytes :=
  [4, 19, 0, 128, 0, 0, 0, 7, 0, 1, 0, 0, 0, 0, 0, 0] ++
  ([0, 112, 0, 0] ++ zeros 44 ++ [0, 1, 0, 4, 0, 0, 0, 0] ++ [0, 4, 0, 56, 0, 0, 0, 0] ++
   [0, 25, 0, 16, 0x80, 0, 0, 4, 0, 0, 0, 1, 0, 0, 0, 0] ++
   [0xff, 0xff, 0, 16, 0, 0, 0x23, 0x20, 0, 14, 0xff, 0xf8, 5, 0, 0, 0] ++
   [0xff, 0xff, 0, 16, 0, 0, 0x23, 0x20, 0, 43, 0, 0, 0, 0, 0, 0])

set_option maxRecDepth 8000 in
theorem mpOvsFrame_inframe2 (tail : Bytes) : FlowStatsInFrame2 ⟨mpOvsFrame ++ tail, 128⟩ := by
  have hb : (Slice.mk (mpOvsFrame ++ tail) 128).bytes = mpOvsFrame := by
    unfold Slice.bytes
    show List.take 128 (mpOvsFrame ++ tail) = mpOvsFrame
    rw [List.take_append_of_le_length (by decide)]
    exact List.take_of_length_le (by decide)
  unfold FlowStatsInFrame2
  rw [hb]
  refine ⟨by decide, ?_⟩
  intro hp mt hhp hmt
  have ehp : msgTryU Header.unmarshal Header.zero (Slice.exact mpOvsFrame) =
      .ok (.obj "Header" [.num 4, .num 19, .num 128, .num 7], false) := rfl
  rw [ehp] at hhp; cases hhp
  have emt : (Slice.exact mpOvsFrame).u16From 8 = .ok 1 := rfl
  rw [emt] at hmt; cases hmt
  rfl

end OFV.Model
