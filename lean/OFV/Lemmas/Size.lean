/-
  OFV.Lemmas.Size — "reported size = encoded size" as a predicate on (Len, MarshalBinary) pairs, and the tools to
  prove it kind by kind.
-/
import OFV.Model.Core
import OFV.Lemmas.Fill
namespace OFV.Model
open OFV OFV.Go

/-- for this value: whenever Len() and MarshalBinary() both succeed, the encoding has exactly the reported size -/
def SizeOK (lenM : V → R (UInt16 × V)) (marshalM : V → R (Bytes × V)) (v : V) : Prop :=
  ∀ l v1 bs v2, lenM v = .ok (l, v1) → marshalM v = .ok (bs, v2) → bs.length = l.toNat

/-- … and neither call modifies the value -/
def Pure2 (lenM : V → R (UInt16 × V)) (marshalM : V → R (Bytes × V)) (v : V) : Prop :=
  (∀ l v1, lenM v = .ok (l, v1) → v1 = v) ∧ (∀ bs v2, marshalM v = .ok (bs, v2) → v2 = v)

theorem same_ok {α} (a : α) (v : V) (x : α) (w : V) (h : same a v = .ok (x, w)) : x = a ∧ w = v := by
  simp [same] at h; exact ⟨h.1.symm, h.2.symm⟩

theorem bind_ok_inv {α β} (r : R α) (f : α → R β) (y : β) (h : (r >>= f) = .ok y) :
    ∃ x, r = .ok x ∧ f x = .ok y := by
  cases r with
  | ok x => exact ⟨x, rfl, h⟩
  | err => exact absurd h (by simp)
  | panic => exact absurd h (by simp)
  | spin => exact absurd h (by simp)

theorem sum16_nil : sum16 [] = 0 := rfl
theorem sum16_cons (x : UInt16) (xs : List UInt16) : sum16 (x :: xs) = x + sum16 xs := by
  unfold sum16
  simp only [List.foldl_cons]
  suffices ∀ (a b : UInt16) (l : List UInt16), List.foldl (· + ·) (a + b) l = a + List.foldl (· + ·) b l by
    have := this x 0 xs
    simpa [UInt16.add_comm] using this
  intro a b l
  induction l generalizing b with
  | nil => rfl
  | cons y ys ih => simp only [List.foldl_cons]; rw [UInt16.add_assoc]; exact ih (b + y)

/-- the unbounded sum agrees with the wrapping one when it fits in 16 bits -/
theorem sum16_toNat (xs : List UInt16) (h : (xs.map UInt16.toNat).sum < 65536) :
    (sum16 xs).toNat = (xs.map UInt16.toNat).sum := by
  induction xs with
  | nil => rfl
  | cons x xs ih =>
    simp only [List.map_cons, List.sum_cons] at h ⊢
    rw [sum16_cons, UInt16.toNat_add, ih (by omega)]
    exact Nat.mod_eq_of_lt h

theorem mapM2_length {α} (f : V → R (α × V)) : ∀ (xs : List V) (as : List α) (ys : List V),
    mapM2 f xs = .ok (as, ys) → as.length = xs.length ∧ ys.length = xs.length := by
  intro xs
  induction xs with
  | nil => intro as ys h; simp [mapM2] at h; obtain ⟨rfl, rfl⟩ := h; simp
  | cons x xs ih =>
    intro as ys h
    simp only [mapM2] at h
    obtain ⟨⟨a, x'⟩, _, h⟩ := bind_ok_inv _ _ _ h
    obtain ⟨⟨as', xs'⟩, h2, h⟩ := bind_ok_inv _ _ _ h
    simp at h
    obtain ⟨rfl, rfl⟩ := h
    have := ih as' xs' h2
    simp [this.1, this.2]

end OFV.Model
