/-
  OFV.Lemmas.RT2Deep — action lists with the DecodeAction nesting budget made explicit (`ActionRTd` / `ActionsRTd`), so that
  NXActionConnTrack — whose decoder recurses through DecodeAction — can be an element of an action list (InstrActions, Bucket):
  the shared action loop over such lists, conntrack as an `ActionRTd` fact, InstrActions over such lists as an `InstrRT` fact.
  Used by OFV/Props/C05b.lean.
-/
import OFV.Model.All
import OFV.Lemmas.Size
import OFV.Lemmas.RTBasic
import OFV.Lemmas.RTMatch
import OFV.Lemmas.RTAction
import OFV.Lemmas.RTInstr
import OFV.Lemmas.RTList
import OFV.Lemmas.RTFlowMod
import OFV.Lemmas.RTNx
import OFV.Lemmas.RT2Nx
import OFV.Lemmas.RT2Ct
namespace OFV.RT2
set_option linter.unusedSimpArgs false
open OFV OFV.Go OFV.Model OFV.Model.InstrAux OFV.RT

/-- `ActionRT` with the nesting budget made explicit: the action `a` with encoding `e` is decoded by DecodeAction whenever the
    budget exceeds |e| — which is what every caller in the library provides (`len(data) + 1` resp. `cap(data) + 1` of a slice
    that holds `e`).  Every `ActionRT` fact is one (`ActionRTd.of`); NXActionConnTrack, whose decoder recurses, is one too. -/
def ActionRTd (a : V) (e : Bytes) : Prop :=
  Action.marshalM a = .ok (e, a) ∧ Action.lenM a = .ok (UInt16.ofNat e.length, a) ∧
  0 < e.length ∧ e.length < 65536 ∧
  ∀ (data : Slice) (tail : Bytes) (k : Nat), data.WF → data.bytes = e ++ tail → e.length ≤ k → DecodeAction (k + 1) data = .ok a

theorem ActionRTd.of {a : V} {e : Bytes} (h : ActionRT a e) : ActionRTd a e :=
  ⟨h.1, h.2.1, h.2.2.1, h.2.2.2.1, fun data tail k hd hb _ => h.2.2.2.2 data tail k hd hb⟩

inductive ActionsRTd : List V → List Bytes → Prop
  | nil : ActionsRTd [] []
  | cons {a : V} {e : Bytes} {as : List V} {es : List Bytes} : ActionRTd a e → ActionsRTd as es → ActionsRTd (a :: as) (e :: es)

theorem ActionsRTd.of {as : List V} {es : List Bytes} (h : ActionsRT as es) : ActionsRTd as es := by
  induction h with
  | nil => exact .nil
  | cons h1 _ ih => exact .cons (.of h1) ih

theorem actionsd_marshalList (as : List V) (encs : List Bytes) (h : ActionsRTd as encs) :
    marshalList Action.marshalM as false = .ok (encs.flatten, as, false) ∧
    mapM2 Action.lenM as = .ok (encs.map (fun e => UInt16.ofNat e.length), as) := by
  induction h with
  | nil => exact ⟨rfl, rfl⟩
  | cons h1 _ ih =>
    obtain ⟨hm, hl, _⟩ := h1
    constructor
    · simp [marshalList, hm, ih.1]
    · simp [mapM2, hl, ih.2]

theorem actionsd_len (as : List V) (encs : List Bytes) (h : ActionsRTd as encs) :
    encs.length ≤ encs.flatten.length ∧
    ((encs.map (fun e => UInt16.ofNat e.length)).map UInt16.toNat).sum = encs.flatten.length := by
  induction h with
  | nil => simp
  | @cons a e as es h1 _ ih =>
    obtain ⟨_, _, h0, h64, _⟩ := h1
    have hto : (UInt16.ofNat e.length).toNat = e.length := by
      simp [UInt16.toNat_ofNat']; omega
    constructor
    · simp only [List.length_cons, List.flatten_cons, List.length_append]; omega
    · simp only [List.map_cons, List.sum_cons, List.flatten_cons, List.length_append, ih.2, hto]

/-- the action loop shared by InstrActions and Bucket over `ActionsRTd` lists -/
theorem decodeActions_loop_d (data : Slice) (hd : data.WF) (limit : Nat) (as : List V) (encs : List Bytes)
    (h : ActionsRTd as encs) :
    ∀ (pre rest : Bytes) (acc : List V) (fuel : Nat),
      data.bytes = pre ++ encs.flatten ++ rest → limit = pre.length + encs.flatten.length → encs.length < fuel →
      goLoop (σ := St) fuel (fun s => !s.err && s.n < limit) St.cursor
        (fun s => do
          let d ← data.fromR s.n
          match DecodeAction (d.len + 1) d with
          | .ok act => do
            let (l, act') ← Action.lenM act
            if l = 0 then pure { s with err := true }
            else pure { n := s.n + l.toNat, xs := s.xs ++ [act'], err := false }
          | .err => .ok { s with err := true }
          | .panic => .panic
          | .spin => .spin)
        { n := pre.length, xs := acc, err := false }
      = .ok { n := limit, xs := acc ++ as, err := false } := by
  induction h with
  | nil =>
    intro pre rest acc fuel hb hln hfuel
    simp at hln
    subst hln
    cases fuel with
    | zero => simp at hfuel
    | succ k => simp [goLoop]
  | @cons a e as es h1 _ ih =>
    intro pre rest acc fuel hb hln hfuel
    obtain ⟨hm, hl, h0, h64, hdec⟩ := h1
    cases fuel with
    | zero => simp at hfuel
    | succ k =>
      simp only [List.flatten_cons, List.length_append] at hln
      have hlen := Slice.bytes_length_le data
      rw [hb] at hlen
      simp only [List.flatten_cons, List.length_append] at hlen
      obtain ⟨t, ht1, ht2, ht3, _⟩ := Slice.fromR_bytes data pre.length (by omega)
      have htb : t.bytes = e ++ (es.flatten ++ rest) := by
        rw [ht2, hb]; simp only [List.flatten_cons, List.append_assoc]; exact List.drop_left' rfl
      have htwf : t.WF := (Slice.fromR_wf data hd _ t ht1).1
      have hto : (UInt16.ofNat e.length).toNat = e.length := by
        simp [UInt16.toNat_ofNat']; omega
      have hne : ¬ (UInt16.ofNat e.length = 0) := by
        intro h0'
        have := congrArg UInt16.toNat h0'
        rw [hto] at this
        have h00 : (0 : UInt16).toNat = 0 := rfl
        rw [h00] at this; omega
      unfold goLoop
      have hcond : (!false && decide (pre.length < limit)) = true := by simp; omega
      simp only [hcond, if_true, ht1, Res.bind_ok, hdec t _ t.len htwf htb (by omega), hl, Res.pure_eq, hto, hne, if_false,
        St.cursor]
      have hcur : ¬ (pre.length + e.length + 0 ≤ pre.length + 0) := by omega
      simp only [Bool.false_eq_true, if_false, hcur]
      have := ih (pre ++ e) rest (acc ++ [a]) k (by rw [hb]; simp) (by simp only [List.length_append]; omega)
        (by simp only [List.length_cons] at hfuel; omega)
      simp only [List.length_append, List.append_assoc, List.cons_append, List.nil_append] at this
      exact this

/-- NXActionConnTrack (with non-conntrack nested actions) as an element of any action list -/
theorem actionRTd_connTrack (fl zs zo rt alg : Nat) (as : List V) (encs : List Bytes)
    (hfl : fl < 65536) (hzs : zs < 4294967296) (hzo : zo < 65536) (hrt : rt < 256) (halg : alg < 65536)
    (has : ActionsRT as encs) (hleaf : Leafs as) (hS : 24 + encs.flatten.length < 65536) :
    ActionRTd (ctV (24 + encs.flatten.length) fl zs zo rt [] alg as)
      (nxHdrBytes (24 + encs.flatten.length) Gen.openflow13.NXAST_CT ++ ctFixed fl zs zo rt alg ++ encs.flatten) := by
  obtain ⟨h1, h2, h3, h4⟩ := nxConnTrack_rt fl zs zo rt alg 0 as encs hfl hzs hzo hrt halg (by omega) has hleaf hS
  refine ⟨h1 _, by rw [h3]; exact h2, by rw [h3]; omega, by rw [h3]; exact hS, ?_⟩
  intro data tail k hd hb hk
  rw [h3] at hk
  obtain ⟨j, rfl⟩ : ∃ j, k = j + 1 := ⟨k - 1, by omega⟩
  exact h4 data tail j hd hb

/-- InstrActions holding an `ActionsRTd` list (which may contain conntrack actions) as an `InstrRT` fact, usable in FlowMod
    (C05 flowMod_roundtrip) and FlowStats -/
theorem instrRT_actions_d (ty ln : Nat) (as : List V) (encs : List Bytes)
    (hty : ty = Gen.openflow13.InstrType_WRITE_ACTIONS ∨ ty = Gen.openflow13.InstrType_APPLY_ACTIONS ∨
      ty = Gen.openflow13.InstrType_CLEAR_ACTIONS)
    (has : ActionsRTd as encs) (hln : ln = 8 + encs.flatten.length) (hlt : ln < 65536) :
    InstrRT (.obj "InstrActions" [.obj "InstrHeader" [.num ty, .num ln], .bytes [], .list as])
      (be16 (n16 ty) ++ be16 (n16 ln) ++ zeros 4 ++ encs.flatten) := by
  obtain ⟨hml, hll⟩ := actionsd_marshalList as encs has
  obtain ⟨hcnt, hsum⟩ := actionsd_len as encs has
  have hty16 : ty < 65536 := by rcases hty with h | h | h <;> (rw [h]; decide)
  have hbl : (be16 (n16 ty) ++ be16 (n16 ln) ++ zeros 4 ++ encs.flatten).length = ln := by
    simp only [List.length_append, be16_length, zeros_length]; omega
  have hlenM : InstrActions.lenM (.obj "InstrActions" [.obj "InstrHeader" [.num ty, .num ln], .bytes [], .list as])
      = .ok (UInt16.ofNat ln, .obj "InstrActions" [.obj "InstrHeader" [.num ty, .num ln], .bytes [], .list as]) := by
    simp only [InstrActions.lenM, hll, Res.bind_ok]
    congr 2
    apply ofNat_lit
    rw [UInt16.toNat_add, sum16_toNat _ (by rw [hsum]; omega), hsum]
    have : (8 : UInt16).toNat = 8 := rfl
    rw [this]; omega
  refine ⟨?_, ?_, by rw [hbl]; omega, by rw [hbl]; exact hlt, ?_⟩
  · have hu : V.u16 (UInt16.ofNat ln) = .num ln := u16_n16 ln hlt
    simp only [Instruction.marshalM, V.kind]
    unfold InstrActions.marshalM
    rw [hlenM]
    simp only [Res.bind_ok, hu, InstrHeader.bytes, hml, List.append_assoc, Bool.false_eq_true, if_false]
    rfl
  · simp only [Instruction.lenM, V.kind]
    rw [hlenM, hbl]
  · intro data tail hd hb
    have hlen := Slice.len_ge_of_bytes data _ _ hb
    rw [hbl] at hlen
    unfold DecodeInstr
    rw [instr_type data hd ty (be16 (n16 ln) ++ (zeros 4 ++ (encs.flatten ++ tail)))
      (by rw [hb]; simp only [List.append_assoc])]
    simp only [Res.bind_ok, n16_toNat ty hty16]
    have hdisp : ¬ ty = Gen.openflow13.InstrType_GOTO_TABLE ∧ ¬ ty = Gen.openflow13.InstrType_WRITE_METADATA := by
      rcases hty with h | h | h <;> (rw [h]; decide)
    rw [if_neg hdisp.1, if_neg hdisp.2, if_pos hty]
    simp only [InstrActions.unmarshalP, InstrActions.zero, InstrHeader.zero]
    rw [instrHeader_unmarshal4 _ data hd ty ln hty16 hlt (zeros 4 ++ (encs.flatten ++ tail))
      (by rw [hb]; simp only [List.append_assoc])]
    simp only [Res.bind_ok, InstrHeader.length, decodeActions]
    have hloop := decodeActions_loop_d data hd ln as encs has (be16 (n16 ty) ++ be16 (n16 ln) ++ zeros 4) tail []
      (data.len + 2) (by rw [hb]) (by simp only [List.length_append, be16_length, zeros_length]; omega) (by omega)
    simp only [List.length_append, be16_length, zeros_length, List.nil_append, Nat.reduceAdd] at hloop
    erw [hloop]
    rfl

end OFV.RT2
