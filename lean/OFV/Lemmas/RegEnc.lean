/-
  OFV.Lemmas.RegEnc — helper lemmas for OFV/Props/C17b.lean: what `MatchField.marshalM` produces for the two shapes of
  field that occur there (byte-array payloads built by the generic builder `NewMatchField`, 32-bit payloads built by the
  dedicated constructors), facts about the registry, and the dedicated constructors taken out of the model's function table.
-/
import OFV.Model.All
import OFV.Model.MatchFieldGen
import OFV.Lemmas.RTMatch
import OFV.Spec.Bits
namespace OFV.Lemmas.RegEnc
open OFV OFV.Go OFV.Model OFV.Model.MFG OFV.RT

/-! ### bytes -/

theorem u8_ofNat_eq (a b : Nat) (h : a % 256 = b % 256) : UInt8.ofNat a = UInt8.ofNat b := by
  apply UInt8.toNat_inj.mp
  simp [UInt8.toNat_ofNat']
  exact h

/-- four big-endian bytes of a number = the 32-bit big-endian encoding of its low 32 bits -/
theorem beN_four (n : Nat) : beN 4 n = be32 (UInt32.ofNat n) := by
  simp only [beN, be32, List.nil_append, List.cons_append, UInt32.toNat_ofNat']
  congr 1
  · apply u8_ofNat_eq; omega
  congr 1
  · apply u8_ofNat_eq; omega
  congr 1
  · apply u8_ofNat_eq; omega
  congr 1
  · apply u8_ofNat_eq; omega

theorem makeCopy_same (n : Nat) (b : Bytes) (h : b.length = n) : makeCopy n b = b := by
  subst h
  simp [makeCopy, copyInto, zeros]

theorem eidOf_zero (c : Nat) (hc : c ≠ 65535) : eidOf c = 0 ∧ eidBytes c = [] := by
  unfold eidOf eidBytes
  have : ¬ c = Gen.openflow13.OXM_CLASS_EXPERIMENTER := hc
  simp [this]

theorem wf_bytes (vb : Bytes) (L : Nat) (hL : L < 256) (hv : vb.length = L) :
    PayloadWF (.obj "ByteArrayField" [.bytes vb, .num L]) := ⟨_, _, rfl, hL, hv⟩

theorem wf_u32 (x : UInt32) : PayloadWF (Uint32Message.new x) := ⟨x.toNat, rfl, x.toNat_lt⟩

theorem payload_bytes (vb : Bytes) (L : Nat) (hL : L < 256) (hv : vb.length = L) :
    MatchPayload.marshalM (.obj "ByteArrayField" [.bytes vb, .num L]) =
      .ok (vb, .obj "ByteArrayField" [.bytes vb, .num L]) := by
  have hn8 : (n8 L).toNat = L := by simp [n8, UInt8.toNat_ofNat']; omega
  have : MatchPayload.marshalM (.obj "ByteArrayField" [.bytes vb, .num L]) =
      ByteArrayField.marshalM (.obj "ByteArrayField" [.bytes vb, .num L]) := rfl
  rw [this]
  simp only [ByteArrayField.marshalM, same, hn8, makeCopy_same L vb hv]

theorem payload_u32 (x : UInt32) : MatchPayload.marshalM (Uint32Message.new x) = .ok (be32 x, Uint32Message.new x) := by
  have hx : n32 x.toNat = x := by simp [n32]
  have : MatchPayload.marshalM (Uint32Message.new x) = Uint32Message.marshalM (Uint32Message.new x) := rfl
  rw [this]
  simp only [Uint32Message.marshalM, Uint32Message.new, V.u32, same, hx]

/-! ### the encoder on the two shapes of field -/

/-- a field whose value and mask are byte arrays of `L` bytes (what the generic builder returns): header, value, mask -/
theorem enc_bytes_masked (c : UInt16) (f ln : UInt8) (L : Nat) (vb mb : Bytes)
    (hc : c.toNat ≠ 65535) (hL : L < 256) (hv : vb.length = L) (hm : mb.length = L) :
    MatchField.marshalM (.obj "MatchField" [V.u16 c, V.u8 f, V.bool true, V.u8 ln, .num 0,
        .obj "ByteArrayField" [.bytes vb, .num L], .obj "ByteArrayField" [.bytes mb, .num L]]) =
      .ok (be16 c ++ [shl8 f 1 ||| 1, ln] ++ vb ++ mb,
        .obj "MatchField" [V.u16 c, V.u8 f, V.bool true, V.u8 ln, .num 0,
        .obj "ByteArrayField" [.bytes vb, .num L], .obj "ByteArrayField" [.bytes mb, .num L]]) := by
  obtain ⟨e0, eb⟩ := eidOf_zero c.toNat hc
  have hmv := payload_bytes vb L hL hv
  have hmm := payload_bytes mb L hL hm
  have := (matchField_encode_mask c.toNat f.toNat ln.toNat _ _ (wf_bytes vb L hL hv) (wf_bytes mb L hL hm) vb mb _ _ hmv hmm).1
  simp only [e0, eb, List.append_nil] at this
  have h1 : n16 c.toNat = c := by simp [n16]
  have h2 : n8 f.toNat = f := by simp [n8]
  have h3 : n8 ln.toNat = ln := by simp [n8]
  rw [h1, h2, h3] at this
  exact this

/-- the same without mask -/
theorem enc_bytes_plain (c : UInt16) (f ln : UInt8) (L : Nat) (vb : Bytes) (mask : V)
    (hc : c.toNat ≠ 65535) (hL : L < 256) (hv : vb.length = L) :
    MatchField.marshalM (.obj "MatchField" [V.u16 c, V.u8 f, V.bool false, V.u8 ln, .num 0,
        .obj "ByteArrayField" [.bytes vb, .num L], mask]) =
      .ok (be16 c ++ [shl8 f 1, ln] ++ vb,
        .obj "MatchField" [V.u16 c, V.u8 f, V.bool false, V.u8 ln, .num 0,
        .obj "ByteArrayField" [.bytes vb, .num L], mask]) := by
  obtain ⟨e0, eb⟩ := eidOf_zero c.toNat hc
  have hmv := payload_bytes vb L hL hv
  have := (matchField_encode_nomask c.toNat f.toNat ln.toNat _ mask (wf_bytes vb L hL hv) vb _ hmv).1
  simp only [e0, eb, List.append_nil] at this
  have h1 : n16 c.toNat = c := by simp [n16]
  have h2 : n8 f.toNat = f := by simp [n8]
  have h3 : n8 ln.toNat = ln := by simp [n8]
  rw [h1, h2, h3] at this
  exact this

/-- `Len()` of the generic builder's field: 4 + value + mask -/
theorem len_bytes_masked (c : UInt16) (f ln : UInt8) (L : Nat) (vb mb : Bytes)
    (hc : c.toNat ≠ 65535) (hL : L < 256) (hv : vb.length = L) (hm : mb.length = L) :
    MatchField.lenM (.obj "MatchField" [V.u16 c, V.u8 f, V.bool true, V.u8 ln, .num 0,
        .obj "ByteArrayField" [.bytes vb, .num L], .obj "ByteArrayField" [.bytes mb, .num L]]) =
      .ok (UInt16.ofNat (4 + L + L),
        .obj "MatchField" [V.u16 c, V.u8 f, V.bool true, V.u8 ln, .num 0,
        .obj "ByteArrayField" [.bytes vb, .num L], .obj "ByteArrayField" [.bytes mb, .num L]]) := by
  obtain ⟨e0, eb⟩ := eidOf_zero c.toNat hc
  have hmv := payload_bytes vb L hL hv
  have hmm := payload_bytes mb L hL hm
  have := (matchField_encode_mask c.toNat f.toNat ln.toNat _ _ (wf_bytes vb L hL hv) (wf_bytes mb L hL hm) vb mb _ _ hmv hmm).2
  simp only [e0, eb, List.length_nil, Nat.add_zero, hv, hm] at this
  exact this

theorem len_bytes_plain (c : UInt16) (f ln : UInt8) (L : Nat) (vb : Bytes) (mask : V)
    (hc : c.toNat ≠ 65535) (hL : L < 256) (hv : vb.length = L) :
    MatchField.lenM (.obj "MatchField" [V.u16 c, V.u8 f, V.bool false, V.u8 ln, .num 0,
        .obj "ByteArrayField" [.bytes vb, .num L], mask]) =
      .ok (UInt16.ofNat (4 + L),
        .obj "MatchField" [V.u16 c, V.u8 f, V.bool false, V.u8 ln, .num 0,
        .obj "ByteArrayField" [.bytes vb, .num L], mask]) := by
  obtain ⟨e0, eb⟩ := eidOf_zero c.toNat hc
  have hmv := payload_bytes vb L hL hv
  have := (matchField_encode_nomask c.toNat f.toNat ln.toNat _ mask (wf_bytes vb L hL hv) vb _ hmv).2
  simp only [e0, eb, List.length_nil, Nat.add_zero, hv] at this
  exact this

/-- a field whose value and mask are 32-bit words (what the dedicated constructors return) -/
theorem enc_u32_masked (c : UInt16) (f ln : UInt8) (x m : UInt32) (hc : c.toNat ≠ 65535) :
    MatchField.marshalM (.obj "MatchField" [V.u16 c, V.u8 f, V.bool true, V.u8 ln, .num 0,
        Uint32Message.new x, Uint32Message.new m]) =
      .ok (be16 c ++ [shl8 f 1 ||| 1, ln] ++ be32 x ++ be32 m,
        .obj "MatchField" [V.u16 c, V.u8 f, V.bool true, V.u8 ln, .num 0,
        Uint32Message.new x, Uint32Message.new m]) := by
  obtain ⟨e0, eb⟩ := eidOf_zero c.toNat hc
  have hmv := payload_u32 x
  have hmk := payload_u32 m
  have := (matchField_encode_mask c.toNat f.toNat ln.toNat _ _ (wf_u32 x) (wf_u32 m)
    _ _ _ _ hmv hmk).1
  simp only [e0, eb, List.append_nil] at this
  have h1 : n16 c.toNat = c := by simp [n16]
  have h2 : n8 f.toNat = f := by simp [n8]
  have h3 : n8 ln.toNat = ln := by simp [n8]
  rw [h1, h2, h3] at this
  exact this

theorem enc_u32_plain (c : UInt16) (f ln : UInt8) (x : UInt32) (mask : V) (hc : c.toNat ≠ 65535) :
    MatchField.marshalM (.obj "MatchField" [V.u16 c, V.u8 f, V.bool false, V.u8 ln, .num 0,
        Uint32Message.new x, mask]) =
      .ok (be16 c ++ [shl8 f 1, ln] ++ be32 x,
        .obj "MatchField" [V.u16 c, V.u8 f, V.bool false, V.u8 ln, .num 0, Uint32Message.new x, mask]) := by
  obtain ⟨e0, eb⟩ := eidOf_zero c.toNat hc
  have hmv := payload_u32 x
  have := (matchField_encode_nomask c.toNat f.toNat ln.toNat _ mask (wf_u32 x) _ _ hmv).1
  simp only [e0, eb, List.append_nil] at this
  have h1 : n16 c.toNat = c := by simp [n16]
  have h2 : n8 f.toNat = f := by simp [n8]
  have h3 : n8 ln.toNat = ln := by simp [n8]
  rw [h1, h2, h3] at this
  exact this

/-! ### the header word -/

theorem or_add (a i b : Nat) (h : b < 2 ^ i) : a * 2 ^ i ||| b = a * 2 ^ i + b := by
  rw [← Nat.shiftLeft_eq, Nat.shiftLeft_add_eq_or_of_lt h]

theorem resh1 (c f : Nat) : c * 2 ^ 16 + f * 2 ^ 9 = (c * 128 + f) * 2 ^ 9 := by omega
theorem resh2 (c f : Nat) (hm : Bool) : (c * 128 + f) * 2 ^ 9 + (if hm = true then 256 else 0)
      = (c * 256 + f * 2 + (if hm = true then 1 else 0)) * 2 ^ 8 := by
  cases hm <;> simp only [Bool.false_eq_true, reduceIte] <;> omega
theorem resh3 (c f l : Nat) (hm : Bool) : (c * 256 + f * 2 + (if hm = true then 1 else 0)) * 2 ^ 8 + l =
    c * 65536 + f * 512 + (if hm = true then 256 else 0) + l := by
  cases hm <;> simp only [Bool.false_eq_true, reduceIte] <;> omega

/-- `MarshalHeader` as arithmetic: class·2^16 + field·2^9 + hasmask·2^8 + length (for a 7-bit field number) -/
theorem word_toNat (c : UInt16) (f ln : UInt8) (hf : f.toNat < 128) (hm : Bool) (e : UInt32) :
    (Gen.openflow13.MatchField.MarshalHeader
      { Class := c, Field := f, HasMask := hm, Length := ln, ExperimenterID := e }).toNat =
      c.toNat * 65536 + f.toNat * 512 + (if hm then 256 else 0) + ln.toNat := by
  have hc := c.toNat_lt
  have hl := ln.toNat_lt
  unfold Gen.openflow13.MatchField.MarshalHeader shl32
  simp only [show (16 : Nat) < 32 by omega, show (9 : Nat) < 32 by omega, if_true]
  have e16 : (UInt32.ofNat 16) = 16 := rfl
  have e9 : (UInt32.ofNat 9) = 9 := rfl
  rw [e16, e9]
  have hA : (c.toUInt64.toUInt32 <<< (16 : UInt32)).toNat = c.toNat * 2 ^ 16 := by
    simp [UInt32.toNat_shiftLeft, Nat.shiftLeft_eq]; omega
  have hB : (f.toUInt64.toUInt32 <<< (9 : UInt32)).toNat = f.toNat * 2 ^ 9 := by
    simp [UInt32.toNat_shiftLeft, Nat.shiftLeft_eq]; omega
  have hL : ln.toUInt64.toUInt32.toNat = ln.toNat := by simp
  have hM : (if hm = true then (256 : UInt32) else 0).toNat = if hm then 256 else 0 := by cases hm <;> rfl
  rw [UInt32.toNat_or, UInt32.toNat_or, UInt32.toNat_or, hA, hB, hL, hM]
  rw [or_add _ 16 _ (by omega)]
  rw [resh1, or_add _ 9 _ (by cases hm <;> simp)]
  rw [resh2, or_add _ 8 _ (by omega)]

theorem fld_byte : ∀ f : Fin 128, shl8 (UInt8.ofNat f.val) 1 = UInt8.ofNat (f.val * 2) ∧
    shl8 (UInt8.ofNat f.val) 1 ||| 1 = UInt8.ofNat (f.val * 2 + 1) := by decide

/-- the first four bytes the encoder writes are the big-endian header word of `MarshalHeader` -/
theorem header_bytes (c : UInt16) (f ln : UInt8) (hf : f.toNat < 128) (hm : Bool) (e : UInt32) :
    be16 c ++ [if hm then shl8 f 1 ||| 1 else shl8 f 1, ln] =
      be32 (Gen.openflow13.MatchField.MarshalHeader
        { Class := c, Field := f, HasMask := hm, Length := ln, ExperimenterID := e }) := by
  have hc := c.toNat_lt
  have hl := ln.toNat_lt
  have hw := word_toNat c f ln hf hm e
  have hfb := fld_byte ⟨f.toNat, hf⟩
  simp only [UInt8.ofNat_toNat] at hfb
  unfold be32 be16
  rw [hw]
  simp only [List.cons_append, List.nil_append]
  congr 1
  · apply u8_ofNat_eq; cases hm <;> simp only [Bool.false_eq_true, reduceIte] <;> omega
  congr 1
  · apply u8_ofNat_eq; cases hm <;> simp only [Bool.false_eq_true, reduceIte] <;> omega
  congr 1
  · cases hm
    · simp only [Bool.false_eq_true, reduceIte]; rw [hfb.1]; apply u8_ofNat_eq; omega
    · simp only [reduceIte]; rw [hfb.2]; apply u8_ofNat_eq; omega
  congr 1
  · have : ln = UInt8.ofNat ln.toNat := by simp
    rw [this]; apply u8_ofNat_eq; simp only [UInt8.toNat_ofNat']; cases hm <;> simp only [Bool.false_eq_true, reduceIte] <;> omega

/-- the scalar header `FindFieldHeaderByName` returns -/
def hdrOf (c : UInt16) (f : UInt8) (hm : Bool) (ln : UInt8) : Gen.openflow13.MatchField :=
  { Class := c, Field := f, HasMask := hm, Length := ln, ExperimenterID := 0 }

/-- `MarshalHeader()` of a freshly built field only sees its four scalars -/
theorem headerWord_built (c : UInt16) (f ln : UInt8) (hm : Bool) (val mask : V) :
    MatchField.headerWord (.obj "MatchField" [V.u16 c, V.u8 f, V.bool hm, V.u8 ln, .num 0, val, mask]) =
      Gen.openflow13.MatchField.MarshalHeader (hdrOf c f hm ln) := by
  cases hm <;>
  simp [MatchField.headerWord, MatchField.scalars, V.u16, V.u8, V.bool, n16, n8, n32, hdrOf]

/-! ### the registry -/

theorem lookup_mem_str {β : Type} (k : String) (tab : List (String × β)) (y : β) (h : tab.lookup k = some y) :
    (k, y) ∈ tab := by
  induction tab with
  | nil => simp [List.lookup] at h
  | cons x t ih =>
    obtain ⟨a, b⟩ := x
    simp only [List.lookup] at h
    split at h
    · rename_i heq
      have : k = a := by simpa using heq
      cases h; subst this; simp
    · exact List.mem_cons_of_mem _ (ih h)

theorem registry_bounds_all : ∀ e ∈ Gen.registry, e.2.1 < 65535 ∧ e.2.2.1 < 128 ∧ 1 ≤ e.2.2.2 ∧ e.2.2.2 ≤ 124 := by
  decide +kernel

theorem registry_bounds (key : String) (c f l : Nat) (h : Gen.registry.lookup key = some (c, f, l)) :
    c < 65535 ∧ f < 128 ∧ 1 ≤ l ∧ l ≤ 124 :=
  registry_bounds_all _ (lookup_mem_str key Gen.registry (c, f, l) h)

theorem find_header (name : String) (c f l : Nat) (hm : Bool)
    (h : Gen.registry.lookup (toUpperASCII name) = some (c, f, l)) :
    FindFieldHeaderByName name hm = some { Class := UInt16.ofNat c, Field := UInt8.ofNat f, HasMask := hm, Length := UInt8.ofNat (if hm then 2 * l else l) } := by
  obtain ⟨_, _, _, hl⟩ := registry_bounds _ c f l h
  unfold FindFieldHeaderByName
  rw [h]
  simp only
  cases hm
  · simp
  · simp only [if_true]
    congr 2
    apply UInt8.toNat_inj.mp
    simp [UInt8.toNat_mul, UInt8.toNat_ofNat']
    omega

def ctStateBody (args : List V) : R (List V) := match args with
    | [.obj "CTStates" [.num d, .num m]] => do
      let h ← headerOrPanic "NXM_NX_CT_STATE" true
      ret1 (setValueMask h (Uint32Message.new (n32 d)) (some (Uint32Message.new (n32 m))))
    | _ => .panic
def ctMarkBody (args : List V) : R (List V) := match args with
    | [.num mark, m] => do
      let h ← headerOrPanic "NXM_NX_CT_MARK" (!m.isNil)
      ret1 (setValueMask h (Uint32Message.new (n32 mark)) ((optArg m).map fun x => Uint32Message.new (n32 x.asNat)))
    | _ => .panic
def conjIDBody (args : List V) : R (List V) := match args with
    | [.num c] => do
      let h ← headerOrPanic "NXM_NX_CONJ_ID" false
      ret1 (setValueMask h (Uint32Message.new (n32 c)) none)
    | _ => .panic
theorem lookup_ctState : Model.funcs.lookup "NewCTStateMatchField" = some ctStateBody := by rfl
theorem lookup_ctMark : Model.funcs.lookup "NewCTMarkMatchField" = some ctMarkBody := by rfl
theorem lookup_conjID : Model.funcs.lookup "NewConjIDMatchField" = some conjIDBody := by rfl

/-! ### the dedicated constructors, taken from the model's function table -/

/-- call an exported function of the model by name, the way the harness driver does (`funcs.lookup`); one result -/
def callFn (name : String) (args : List V) : R V :=
  match Model.funcs.lookup name with
  | none => .panic
  | some f =>
    match f args with
    | .ok [v] => .ok v
    | .ok _ => .panic
    | .err => .err
    | .panic => .panic
    | .spin => .spin

/-- copy of the table entry "NewRegMatchField" (checked against the table by `lookup_reg`) -/
def regBody (args : List V) : R (List V) := match args with
    | [.num idx, .num data, rng] => do
      let h ← headerOrPanic ("NXM_NX_REG" ++ toString idx) (!rng.isNil)
      let val := Uint32Message.new (n32 data)
      match rng with
      | .nil => ret1 (setValueMask h val none)
      | r => ret1 (setValueMask h val (some (Uint32Message.new (Gen.openflow13.NXRange.ToUint32Mask (NXRange.ofV r)))))
    | _ => .panic

theorem lookup_reg : Model.funcs.lookup "NewRegMatchField" = some regBody := by rfl

/-- the name the register constructor looks up: `fmt.Sprintf("NXM_NX_REG%d", i)` -/
def regName (i : Nat) : String := "NXM_NX_REG" ++ toString i

/-- the value of `NewNXRange(s, e)` (see `call_range`) -/
def rangeV (s e : Nat) : V := .obj "NXRange" [.num s, .num e]

theorem call_range (s e : Nat) (hs : s < 2 ^ 63) (he : e < 2 ^ 63) : callFn "NewNXRange" [.num s, .num e] = .ok (rangeV s e) := by
  have : Model.funcs.lookup "NewNXRange" = some (fun (args : List V) => match args with
    | [.num s, .num e] => ret1 (NXRange.toV (Gen.openflow13.NewNXRange (NXRange.i64 s) (NXRange.i64 e)))
    | _ => .panic) := by rfl
  unfold callFn
  rw [this]
  simp only [ret1, NXRange.toV, Gen.openflow13.NewNXRange, NXRange.i64, rangeV]
  have h1 : ∀ n, n < 2 ^ 63 → (UInt64.ofNat n).toInt64.toUInt64.toNat = n := by
    intro n hn
    simp [UInt64.toNat_ofNat']
    omega
  rw [h1 s hs, h1 e he]

theorem reg_header : ∀ i : Fin 16, ∀ hm : Bool, FindFieldHeaderByName ("NXM_NX_REG" ++ toString i.val) hm =
   some { Class := 1, Field := UInt8.ofNat i.val, HasMask := hm, Length := if hm then 8 else 4 } := by decide +kernel

theorem range_mask : ∀ s e : Fin 32, s ≤ e →
    Gen.openflow13.NXRange.ToUint32Mask (NXRange.ofV (rangeV s.val e.val)) = Spec.bits s e := by
  decide +kernel

theorem call_reg_masked (i data : Nat) (hi : i < 16) (r : V) (hr : r ≠ .nil) :
    callFn "NewRegMatchField" [.num i, .num data, r] =
      .ok (.obj "MatchField" [V.u16 1, V.u8 (UInt8.ofNat i), V.bool true, V.u8 8, .num 0,
        Uint32Message.new (n32 data), Uint32Message.new (Gen.openflow13.NXRange.ToUint32Mask (NXRange.ofV r))]) := by
  have hh := reg_header ⟨i, hi⟩ true
  simp only at hh
  have hn : r.isNil = false := by cases r <;> simp_all [V.isNil]
  unfold callFn
  rw [lookup_reg]
  simp only [regBody, hn, Bool.not_false, headerOrPanic, findHeaderV, hh, Option.map_some, bind, Res.bind]
  cases r with
  | nil => exact absurd rfl hr
  | _ => simp only [ret1, setValueMask, Option.getD_some]; rfl

theorem call_reg_plain (i data : Nat) (hi : i < 16) :
    callFn "NewRegMatchField" [.num i, .num data, .nil] =
      .ok (.obj "MatchField" [V.u16 1, V.u8 (UInt8.ofNat i), V.bool false, V.u8 4, .num 0,
        Uint32Message.new (n32 data), .nil]) := by
  have hh := reg_header ⟨i, hi⟩ false
  simp only at hh
  unfold callFn
  rw [lookup_reg]
  simp only [regBody, V.isNil, Bool.not_true, headerOrPanic, findHeaderV, hh, Option.map_some, bind, Res.bind,
    ret1, setValueMask, Option.getD_none]
  rfl

theorem ct_headers :
    FindFieldHeaderByName "NXM_NX_CT_STATE" true = some { Class := 1, Field := 105, HasMask := true, Length := 8 } ∧
    FindFieldHeaderByName "NXM_NX_CT_MARK" true = some { Class := 1, Field := 107, HasMask := true, Length := 8 } ∧
    FindFieldHeaderByName "NXM_NX_CT_MARK" false = some { Class := 1, Field := 107, HasMask := false, Length := 4 } ∧
    FindFieldHeaderByName "NXM_NX_CONJ_ID" false = some { Class := 1, Field := 37, HasMask := false, Length := 4 } := by
  decide +kernel

theorem call_ctState (d m : Nat) :
    callFn "NewCTStateMatchField" [.obj "CTStates" [.num d, .num m]] =
      .ok (.obj "MatchField" [V.u16 1, V.u8 105, V.bool true, V.u8 8, .num 0,
        Uint32Message.new (n32 d), Uint32Message.new (n32 m)]) := by
  unfold callFn
  rw [lookup_ctState]
  simp only [ctStateBody, headerOrPanic, findHeaderV, ct_headers.1, Option.map_some, bind, Res.bind,
    ret1, setValueMask, Option.getD_some]
  rfl

theorem call_ctMark_masked (mark m : Nat) :
    callFn "NewCTMarkMatchField" [.num mark, .num m] =
      .ok (.obj "MatchField" [V.u16 1, V.u8 107, V.bool true, V.u8 8, .num 0,
        Uint32Message.new (n32 mark), Uint32Message.new (n32 m)]) := by
  unfold callFn
  rw [lookup_ctMark]
  simp only [ctMarkBody, V.isNil, Bool.not_false, headerOrPanic, findHeaderV, ct_headers.2.1, Option.map_some, bind,
    Res.bind, ret1, setValueMask, optArg, Option.getD_some, V.asNat]
  rfl

theorem call_ctMark_plain (mark : Nat) :
    callFn "NewCTMarkMatchField" [.num mark, .nil] =
      .ok (.obj "MatchField" [V.u16 1, V.u8 107, V.bool false, V.u8 4, .num 0, Uint32Message.new (n32 mark), .nil]) := by
  unfold callFn
  rw [lookup_ctMark]
  simp only [ctMarkBody, V.isNil, Bool.not_true, headerOrPanic, findHeaderV, ct_headers.2.2.1, Option.map_some, bind,
    Res.bind, ret1, setValueMask, optArg, Option.map_none, Option.getD_none]
  rfl

theorem call_conjID (c : Nat) :
    callFn "NewConjIDMatchField" [.num c] =
      .ok (.obj "MatchField" [V.u16 1, V.u8 37, V.bool false, V.u8 4, .num 0, Uint32Message.new (n32 c), .nil]) := by
  unfold callFn
  rw [lookup_conjID]
  simp only [conjIDBody, headerOrPanic, findHeaderV, ct_headers.2.2.2, Option.map_some, bind,
    Res.bind, ret1, setValueMask, Option.getD_none]
  rfl

/-- the bytes of a built field: build, then `MatchField.MarshalBinary` (errors and panics of either step are kept) -/
def encoded (r : R V) : R Bytes :=
  match r with
  | .ok f =>
    match MatchField.marshalM f with
    | .ok (bs, _) => .ok bs
    | .err => .err
    | .panic => .panic
    | .spin => .spin
  | .err => .err
  | .panic => .panic
  | .spin => .spin

theorem encoded_ok (r : R V) (f f' : V) (bs : Bytes) (h : r = .ok f) (hm : MatchField.marshalM f = .ok (bs, f')) :
    encoded r = .ok bs := by
  subst h; simp only [encoded, hm]

end OFV.Lemmas.RegEnc
