/-
  OFV.Lemmas.RT3Multipart — MultipartRequest: what its decoder returns (header, type, flags; the body is the receiver's, never
  decoded — known finding D28) and that Parse never returns a multipart request.  Used by OFV/Props/C05c.lean.
-/
import OFV.Model.All
import OFV.Lemmas.RTBasic
import OFV.Lemmas.RTMsg
namespace OFV.RT3
set_option linter.unusedSimpArgs false
open OFV OFV.Go OFV.Model OFV.RT

theorem mpRequest_zero_never (data : Slice) (v : V) : MultipartRequest.unmarshal MultipartRequest.zero data ≠ .ok v := by
  intro h
  simp only [MultipartRequest.unmarshal, MultipartRequest.zero] at h
  cases h1 : Header.unmarshal Header.zero data <;> rw [h1] at h <;> try (cases h; done)
  cases h2 : data.u16From 8 <;> rw [h2] at h <;> try (cases h; done)
  cases h3 : data.u16From 10 <;> rw [h3] at h <;> try (cases h; done)
  rename_i hd t f
  simp only [Res.bind_ok] at h
  by_cases c1 : t.toNat = Gen.openflow13.MultipartType_Aggregate
  · rw [if_pos c1] at h; cases h
  · rw [if_neg c1] at h
    by_cases c2 : t.toNat = Gen.openflow13.MultipartType_Flow
    · rw [if_pos c2] at h; cases h
    · rw [if_neg c2] at h
      by_cases c3 : t.toNat = Gen.openflow13.MultipartType_Port
      · rw [if_pos c3] at h; cases h
      · rw [if_neg c3] at h
        by_cases c4 : t.toNat = Gen.openflow13.MultipartType_Queue
        · rw [if_pos c4] at h; cases h
        · rw [if_neg c4] at h; cases h

theorem parse_mpRequest_never (depth : Nat) (data : Slice) (h1 : data.byteAt 1 = .ok (n8 Gen.openflow13.Type_MultiPartRequest)) (v : V) :
    parse depth data ≠ .ok v := by
  unfold parse
  obtain ⟨k, hk⟩ : ∃ k, max depth (data.cap + 1) = k + 1 := ⟨max depth (data.cap + 1) - 1, by omega⟩
  rw [hk, parseD, parseStep, h1]
  simp only [Res.bind_ok]
  have : (n8 Gen.openflow13.Type_MultiPartRequest).toNat = 18 := rfl
  simp only [this]
  intro h
  have hh : recoverR (MultipartRequest.unmarshal MultipartRequest.zero data) = .ok v := h
  cases h5 : MultipartRequest.unmarshal MultipartRequest.zero data with
  | ok w => exact mpRequest_zero_never data w h5
  | err => rw [h5] at hh; cases hh
  | panic => rw [h5] at hh; cases hh
  | spin => rw [h5] at hh; cases hh

def mpBodyKind (t : Nat) : Option String :=
  if t = Gen.openflow13.MultipartType_Aggregate then some "AggregateStatsRequest"
  else if t = Gen.openflow13.MultipartType_Flow then some "FlowStatsRequest"
  else if t = Gen.openflow13.MultipartType_Port then some "PortStatsRequest"
  else if t = Gen.openflow13.MultipartType_Queue then some "QueueStatsRequest"
  else none

theorem mpRequest_own (ver ty ln xid t f : Nat) (h0 t0 f0 p0 b0 : V) (hver : ver < 256) (hty : ty < 256) (hln : ln < 65536)
    (hxid : xid < 4294967296) (ht : t < 65536) (hf : f < 65536)
    (data : Slice) (rest : Bytes) (hd : data.WF)
    (hb : data.bytes = [n8 ver, n8 ty] ++ be16 (n16 ln) ++ be32 (n32 xid) ++ (be16 (n16 t) ++ be16 (n16 f) ++ rest)) :
    MultipartRequest.unmarshal (.obj "MultipartRequest" [h0, t0, f0, p0, b0]) data =
      match mpBodyKind t with
      | none => .err
      | some k => if b0.kind = k then .ok (.obj "MultipartRequest" [.obj "Header" [.num ver, .num ty, .num ln, .num xid], .num t, .num f, p0, b0])
                  else .panic := by
  obtain ⟨_, _, hh⟩ := RT.header_roundtrip ver ty ln xid hver hty hln hxid
  have e8 : rd16 (data.bytes.drop 8) = some (n16 t) := by rw [hb]; exact rd16_be16 _ _
  have e10 : rd16 (data.bytes.drop 10) = some (n16 f) := by
    rw [hb]
    have : List.drop 10 ([n8 ver, n8 ty] ++ be16 (n16 ln) ++ be32 (n32 xid) ++ (be16 (n16 t) ++ be16 (n16 f) ++ rest))
      = be16 (n16 f) ++ rest := rfl
    rw [this]; exact rd16_be16 _ _
  simp only [MultipartRequest.unmarshal, hh _ data _ hd hb, Res.bind_ok, Slice.u16From_eq, e8, e10, Res.ofOption, n16_toNat t ht,
    u16_n16 t ht, u16_n16 f hf, mpBodyKind]
  by_cases c1 : t = Gen.openflow13.MultipartType_Aggregate
  · simp only [if_pos c1]; rfl
  · simp only [if_neg c1]
    by_cases c2 : t = Gen.openflow13.MultipartType_Flow
    · simp only [if_pos c2]; rfl
    · simp only [if_neg c2]
      by_cases c3 : t = Gen.openflow13.MultipartType_Port
      · simp only [if_pos c3]; rfl
      · simp only [if_neg c3]
        by_cases c4 : t = Gen.openflow13.MultipartType_Queue
        · simp only [if_pos c4]; rfl
        · simp only [if_neg c4]

end OFV.RT3
