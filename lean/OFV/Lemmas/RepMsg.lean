/-
  OFV.Lemmas.RepMsg — repeatability (C13) of the message kinds that hold `util.Message` children or lists of records:
  PacketOut, VendorHeader, BundleAdd, MultipartRequest, MultipartReply (each for ANY child functions that are
  repeatable — `repeatableWith`), FlowStats, PacketIn; the encoder loop that keeps only the last child's error
  (`lastLoop`); and that these kinds' Len() / MarshalBinary() return a value of the receiver's dynamic type.
-/
import OFV.Lemmas.RepCore
import OFV.Lemmas.RepProto
namespace OFV.Rep
open OFV OFV.Go OFV.Model OFV.Model.InstrAux OFV.Props.C13

/-! ### PacketOut -/

theorem PacketOut.lenWith_eq (cl : MsgLenF) (h b ip al pad : V) (as : List V) (d : V) :
    PacketOut.lenWith cl (.obj "PacketOut" [h, b, ip, al, pad, .list as, d]) =
      (mapM2 Action.lenM as >>= fun r => cl d >>= fun q =>
        .ok (8 + 16 + sum16 r.1 + q.1, .obj "PacketOut" [h, b, ip, al, pad, .list r.2, q.2])) := rfl

theorem PacketOut.lenWith_ok (cl : MsgLenF) (v : V) (l : UInt16) (v1 : V) (hl : PacketOut.lenWith cl v = .ok (l, v1)) :
    ∃ h b ip al pad as d, v = .obj "PacketOut" [h, b, ip, al, pad, .list as, d] := by
  unfold PacketOut.lenWith at hl
  split at hl
  · exact ⟨_, _, _, _, _, _, _, rfl⟩
  · exact absurd hl (by simp)

theorem PacketOut.lenWith_inv (cl : MsgLenF) (h b ip al pad : V) (as : List V) (d : V) (l : UInt16) (v1 : V)
    (hl : PacketOut.lenWith cl (.obj "PacketOut" [h, b, ip, al, pad, .list as, d]) = .ok (l, v1)) :
    ∃ ls as1 ld d1, mapM2 Action.lenM as = .ok (ls, as1) ∧ cl d = .ok (ld, d1) ∧ l = 8 + 16 + sum16 ls + ld ∧
      v1 = .obj "PacketOut" [h, b, ip, al, pad, .list as1, d1] := by
  rw [PacketOut.lenWith_eq] at hl
  obtain ⟨⟨ls, as1⟩, h1, g1⟩ := bind_ok_inv _ _ _ hl
  obtain ⟨⟨ld, d1⟩, h2, g2⟩ := bind_ok_inv _ _ _ g1
  cases g2
  exact ⟨ls, as1, ld, d1, h1, h2, rfl, rfl⟩

theorem PacketOut.lenWith_build (cl : MsgLenF) (h b ip al pad : V) (as : List V) (d : V) (ls : List UInt16) (as1 : List V)
    (ld : UInt16) (d1 : V) (h1 : mapM2 Action.lenM as = .ok (ls, as1)) (h2 : cl d = .ok (ld, d1)) :
    PacketOut.lenWith cl (.obj "PacketOut" [h, b, ip, al, pad, .list as, d]) =
      .ok (8 + 16 + sum16 ls + ld, .obj "PacketOut" [h, b, ip, al, pad, .list as1, d1]) := by
  rw [PacketOut.lenWith_eq, h1, h2]; rfl

theorem PacketOut.lenWith_idem (cl : MsgLenF) (hcl : ∀ d, LenIdem cl d) (v : V) : LenIdem (PacketOut.lenWith cl) v := by
  intro l v1 hl
  obtain ⟨h, b, ip, al, pad, as, d, rfl⟩ := PacketOut.lenWith_ok cl v l v1 hl
  obtain ⟨ls, as1, ld, d1, h1, h2, rfl, rfl⟩ := PacketOut.lenWith_inv cl _ _ _ _ _ _ _ l v1 hl
  exact PacketOut.lenWith_build cl _ _ _ _ _ _ _ _ _ _ _ (actions_len_idem _ _ _ h1) (hcl d ld d1 h2)

/-- PacketOut for ANY repeatable payload functions: MarshalBinary() calls Len() twice, stores `Header.Length` and
    `ActionsLen`, and threads what the actions and the payload store -/
theorem PacketOut.repeatableWith (cl : MsgLenF) (cm : MsgMarF) (hc : ∀ d, Repeatable cl cm d) :
    ∀ v, Repeatable (PacketOut.lenWith cl) (PacketOut.marshalWith cl cm) v := by
  apply repeatable_of_lenThen (PacketOut.lenWith cl)
    (fun l0 v => do
      let (l1, v) ← PacketOut.lenWith cl v
      match v with
      | .obj "PacketOut" [h, .num b, .num ip, .num _, pad, .list as, d] =>
        let h := Header.setLength l1 h
        let hb ← Header.bytes h
        let (als, as) ← mapM2 Action.lenM as
        let al := (sum16 als).toNat
        let (abs, as) ← mapM2 (msgTryM Action.marshalM) as
        let pre := [pCopy hb, pU32 b, pU32 ip, pU16 al, pSkip 6] ++ abs.map pCopy
        let _ ← fill l0.toNat pre
        let (db, d) ← cm d
        let bs ← fill l0.toNat (pre ++ [pCopy db])
        .ok (bs, .obj "PacketOut" [h, .num b, .num ip, .num al, pad, .list as, d])
      | _ => .panic)
  · intro v; rfl
  · exact PacketOut.lenWith_idem cl (fun d => (hc d).lenIdem)
  · intro l v1 bs v2 hl hE
    simp only [hl, Res.bind_ok, msgTryM_eq _ Action.marshalM_noErr] at hE
    split at hE
    · rename_i h b ip x pad as d
      obtain ⟨ls, as1, ld, d1, h1, h2, el, e1⟩ := PacketOut.lenWith_inv cl _ _ _ _ _ _ _ l _ hl
      simp only [V.obj.injEq, List.cons.injEq, V.list.injEq, true_and, and_true] at e1
      obtain ⟨ea, ed⟩ := e1
      subst ea; subst ed
      obtain ⟨hb, hhb, g1⟩ := bind_ok_inv _ _ _ hE
      obtain ⟨⟨als, as'⟩, hals, g2⟩ := bind_ok_inv _ _ _ g1
      rw [h1] at hals
      cases hals
      obtain ⟨⟨abs, as2⟩, hm, g3⟩ := bind_ok_inv _ _ _ g2
      obtain ⟨f0, hf0, g4⟩ := bind_ok_inv _ _ _ g3
      obtain ⟨⟨db, d2⟩, hd, g5⟩ := bind_ok_inv _ _ _ g4
      obtain ⟨out, hout, g6⟩ := bind_ok_inv _ _ _ g5
      cases g6
      have hl2 := actions_len_after_mar _ _ _ _ _ h1 hm
      have hm2 := actions_mar_idem _ _ _ hm
      have hd2 := (hc _).lenAfterMar ld _ db d2 h2 hd
      have hdm := (hc _).marIdem db d2 hd
      have hlen := PacketOut.lenWith_build cl (Header.setLength l h) (.num b) (.num ip) (.num (sum16 ls).toNat) pad as2 d2 ls as2 ld d2 hl2 hd2
      rw [← el] at hlen
      refine ⟨hlen, ?_⟩
      simp only [hlen, Res.bind_ok, msgTryM_eq _ Action.marshalM_noErr, Header.setLength_idem, hhb, hl2, hm2, hf0, hdm, hout]
    · exact absurd hE (by simp)

/-! ### the encoder loop that keeps only the LAST child's error
  `for _, x := range xs { b, err = x.MarshalBinary(); data = append(data, b...) }; return data, err`
  (MultipartReply's records, FlowStats' instructions) -/

/-- the bytes appended by the loop and the children afterwards -/
def lastLoop (f : V → R (Bytes × V)) (xs : List V) : R (Bytes × List V) :=
  match xs.reverse with
  | [] => .ok ([], [])
  | last :: revInit => do
    let (ibs, init) ← mapM2 (msgTryM f) revInit.reverse
    let (lb, last) ← f last
    .ok (ibs.flatten ++ lb, init ++ [last])

theorem lastLoop_nil (f : V → R (Bytes × V)) : lastLoop f [] = .ok ([], []) := rfl

theorem lastLoop_snoc (f : V → R (Bytes × V)) (init : List V) (last : V) :
    lastLoop f (init ++ [last]) =
      (mapM2 (msgTryM f) init >>= fun r => f last >>= fun q => .ok (r.1.flatten ++ q.1, r.2 ++ [q.2])) := by
  simp only [lastLoop, List.reverse_append, List.reverse_cons, List.reverse_nil, List.nil_append, List.singleton_append,
    List.reverse_reverse]

/-- a list the Len() loop leaves as it is, split at its last element -/
theorem mapM2_fixed_snoc (g : V → R (UInt16 × V)) (init : List V) (last : V) (ls : List UInt16)
    (h : mapM2 g (init ++ [last]) = .ok (ls, init ++ [last])) :
    ∃ ls1 ll, mapM2 g init = .ok (ls1, init) ∧ g last = .ok (ll, last) ∧ ls = ls1 ++ [ll] := by
  obtain ⟨ls1, ys1, ls2, ys2, h1, h2, e1, e2⟩ := mapM2_append g init [last] ls _ h
  have hlen := (mapM2_length g _ _ _ h1).2
  obtain ⟨ea, eb⟩ := List.append_inj e2 hlen.symm
  subst ea; subst eb
  obtain ⟨ll, y, ls', ys', g1, g2, e3, e4⟩ := mapM2_cons_ok _ _ _ _ _ h2
  simp [mapM2] at g2
  obtain ⟨rfl, rfl⟩ := g2
  simp only [List.cons.injEq, and_true] at e4
  subst e4
  exact ⟨ls1, ll, h1, g1, by rw [e1, e3]⟩

/-- on children Len() has settled, the loop leaves children on which Len() and the loop are stable -/
theorem lastLoop_settled (g : V → R (UInt16 × V)) (f : V → R (Bytes × V)) (hr : ∀ x, Repeatable g f x)
    (xs : List V) (ls : List UInt16) (b : Bytes) (zs : List V)
    (h1 : mapM2 g xs = .ok (ls, xs)) (h2 : lastLoop f xs = .ok (b, zs)) :
    mapM2 g zs = .ok (ls, zs) ∧ lastLoop f zs = .ok (b, zs) := by
  rcases List.eq_nil_or_concat xs with rfl | ⟨init, last, rfl⟩
  · rw [lastLoop_nil] at h2
    cases h2
    exact ⟨h1, rfl⟩
  · rw [List.concat_eq_append] at h1 h2
    obtain ⟨ls1, ll, g1, g2, rfl⟩ := mapM2_fixed_snoc g init last ls h1
    rw [lastLoop_snoc] at h2
    obtain ⟨⟨ibs, init2⟩, k1, k2⟩ := bind_ok_inv _ _ _ h2
    obtain ⟨⟨lb, last2⟩, k3, k4⟩ := bind_ok_inv _ _ _ k2
    cases k4
    obtain ⟨a1, a2⟩ := mapM2_settled g (msgTryM f) init ls1 ibs init2 g1 k1
      (fun x _ l b z hx hy => msgTryM_settled x (hr x) l b z hx hy)
    have b1 := (hr last).lenAfterMar ll last lb last2 g2 k3
    have b2 := (hr last).marIdem lb last2 k3
    refine ⟨mapM2_snoc_of_ok g _ _ _ _ _ _ a1 b1, ?_⟩
    rw [lastLoop_snoc, a2, b2]
    rfl

/-- for children that never return an error, a successful run of the loop is a successful run of the plain encoder
    loop, and conversely -/
theorem lastLoop_ok_iff (f : V → R (Bytes × V)) (hn : ∀ x, NoErr (f x)) (xs : List V) (b : Bytes) (zs : List V) :
    lastLoop f xs = .ok (b, zs) ↔ ∃ bss, mapM2 f xs = .ok (bss, zs) ∧ b = bss.flatten := by
  rcases List.eq_nil_or_concat xs with rfl | ⟨init, last, rfl⟩
  · constructor
    · intro h
      rw [lastLoop_nil] at h
      cases h
      exact ⟨[], rfl, rfl⟩
    · rintro ⟨bss, h, rfl⟩
      simp [mapM2] at h
      obtain ⟨rfl, rfl⟩ := h
      rfl
  · rw [List.concat_eq_append, lastLoop_snoc, msgTryM_eq f hn]
    constructor
    · intro h
      obtain ⟨⟨ibs, init2⟩, k1, k2⟩ := bind_ok_inv _ _ _ h
      obtain ⟨⟨lb, last2⟩, k3, k4⟩ := bind_ok_inv _ _ _ k2
      cases k4
      exact ⟨ibs ++ [lb], mapM2_snoc_of_ok f _ _ _ _ _ _ k1 k3, by simp⟩
    · rintro ⟨bss, h, rfl⟩
      obtain ⟨bs1, ys1, bs2, ys2, h1, h2, rfl, rfl⟩ := mapM2_append f init [last] bss zs h
      obtain ⟨lb, y, bs', ys', g1, g2, rfl, rfl⟩ := mapM2_cons_ok _ _ _ _ _ h2
      simp [mapM2] at g2
      obtain ⟨rfl, rfl⟩ := g2
      simp only [h1, g1, Res.bind_ok]
      simp

/-! ### VendorHeader -/

theorem VendorHeader.lenWith_nil (cl : MsgLenF) (h vn t : V) :
    VendorHeader.lenWith cl (.obj "VendorHeader" [h, vn, t, .nil]) = .ok (16, .obj "VendorHeader" [h, vn, t, .nil]) := rfl

theorem VendorHeader.lenWith_obj (cl : MsgLenF) (h vn t d : V) (hd : d ≠ .nil) :
    VendorHeader.lenWith cl (.obj "VendorHeader" [h, vn, t, d]) =
      (cl d >>= fun r => .ok (16 + r.1, .obj "VendorHeader" [h, vn, t, r.2])) := by
  cases d <;> first | rfl | exact absurd rfl hd

theorem VendorHeader.lenWith_ok (cl : MsgLenF) (v : V) (l : UInt16) (v1 : V) (hl : VendorHeader.lenWith cl v = .ok (l, v1)) :
    ∃ h vn t d, v = .obj "VendorHeader" [h, vn, t, d] := by
  unfold VendorHeader.lenWith at hl
  split at hl
  · exact ⟨_, _, _, _, rfl⟩
  · exact ⟨_, _, _, _, rfl⟩
  · exact absurd hl (by simp)

theorem VendorHeader.lenWith_idem (cl : MsgLenF) (cm : MsgMarF) (hc : ChildOK cl cm) (v : V) : LenIdem (VendorHeader.lenWith cl) v := by
  intro l v1 hl
  obtain ⟨h, vn, t, d, rfl⟩ := VendorHeader.lenWith_ok cl v l v1 hl
  by_cases hd : d = .nil
  · subst hd
    rw [VendorHeader.lenWith_nil] at hl
    cases hl
    rfl
  · rw [VendorHeader.lenWith_obj cl _ _ _ _ hd] at hl
    obtain ⟨⟨ld, d1⟩, h1, g1⟩ := bind_ok_inv _ _ _ hl
    cases g1
    rw [VendorHeader.lenWith_obj cl _ _ _ _ (hc.len_ne_nil h1), (hc.rep d).lenIdem ld d1 h1]
    rfl

/-- VendorHeader (experimenter message) for ANY payload functions that are repeatable and fail on nil; a nil payload
    is covered too -/
theorem VendorHeader.repeatableWith (cl : MsgLenF) (cm : MsgMarF) (hc : ChildOK cl cm) :
    ∀ v, Repeatable (VendorHeader.lenWith cl) (VendorHeader.marshalWith cl cm) v := by
  apply repeatable_of_lenThen (VendorHeader.lenWith cl)
    (fun l1 v => do
      let (l2, v) ← VendorHeader.lenWith cl v
      match v with
      | .obj "VendorHeader" [h, .num vn, .num t, d] =>
        let h := Header.setLength l1 h
        let hb ← Header.bytes h
        let pre := [pCopy hb, pU32 vn, pU32 t]
        match d with
        | .nil => do
          let bs ← fill l2.toNat pre
          .ok (bs, .obj "VendorHeader" [h, .num vn, .num t, d])
        | _ => do
          let _ ← fill l2.toNat pre
          let (db, d) ← cm d
          let bs ← fill l2.toNat (pre ++ [pCopy db])
          .ok (bs, .obj "VendorHeader" [h, .num vn, .num t, d])
      | _ => .panic)
  · intro v; rfl
  · exact VendorHeader.lenWith_idem cl cm hc
  · intro l v1 bs v2 hl hE
    simp only [hl, Res.bind_ok] at hE
    split at hE
    · rename_i h vn t d
      obtain ⟨hb, hhb, g1⟩ := bind_ok_inv _ _ _ hE
      split at g1
      · -- nil payload
        obtain ⟨out, hout, g2⟩ := bind_ok_inv _ _ _ g1
        cases g2
        rw [VendorHeader.lenWith_nil] at hl
        simp only [Res.ok.injEq, Prod.mk.injEq, and_true] at hl
        subst hl
        refine ⟨rfl, ?_⟩
        simp only [VendorHeader.lenWith_nil, Res.bind_ok, Header.setLength_idem, hhb, hout]
      · rename_i hnn
        have hd : d ≠ .nil := fun e => hnn e
        obtain ⟨f0, hf0, g2⟩ := bind_ok_inv _ _ _ g1
        obtain ⟨⟨db, d2⟩, hm, g3⟩ := bind_ok_inv _ _ _ g2
        obtain ⟨out, hout, g4⟩ := bind_ok_inv _ _ _ g3
        cases g4
        rw [VendorHeader.lenWith_obj cl _ _ _ _ hd] at hl
        obtain ⟨⟨ld, d1⟩, h1, k1⟩ := bind_ok_inv _ _ _ hl
        simp only [Res.ok.injEq, Prod.mk.injEq, V.obj.injEq, List.cons.injEq, true_and, and_true] at k1
        obtain ⟨el, e1⟩ := k1
        subst e1
        have hd2 : d2 ≠ .nil := hc.mar_ne_nil hm
        have hl2 := (hc.rep _).lenAfterMar ld _ db d2 h1 hm
        have hm2 := (hc.rep _).marIdem db d2 hm
        have hlen : VendorHeader.lenWith cl (.obj "VendorHeader" [Header.setLength l h, .num vn, .num t, d2]) =
            .ok (l, .obj "VendorHeader" [Header.setLength l h, .num vn, .num t, d2]) := by
          rw [VendorHeader.lenWith_obj cl _ _ _ _ hd2, hl2, ← el]; rfl
        refine ⟨hlen, ?_⟩
        simp only [hlen, Res.bind_ok, Header.setLength_idem, hhb, hf0, hm2, hout]
    · exact absurd hE (by simp)

/-! ### BundleAdd -/

/-- the size BundleAdd.Len() computes from the message's size and the properties' sizes -/
def BundleAdd.size (lm : UInt16) (ps : List V) (ls : List UInt16) : UInt16 :=
  if ps.isEmpty then 4 + 2 + 2 + lm else (4 + 2 + 2 + lm + 7) / 8 * 8 + sum16 ls

theorem BundleAdd.lenWith_eq (cl : MsgLenF) (i p f m : V) (ps : List V) :
    BundleAdd.lenWith cl (.obj "BundleAdd" [i, p, f, m, .list ps]) =
      (cl m >>= fun r => mapM2 BundlePropertyExperimenter.lenM ps >>= fun q =>
        .ok (BundleAdd.size r.1 ps q.1, .obj "BundleAdd" [i, p, f, r.2, .list ps])) := rfl

theorem BundleAdd.lenWith_ok (cl : MsgLenF) (v : V) (l : UInt16) (v1 : V) (hl : BundleAdd.lenWith cl v = .ok (l, v1)) :
    ∃ i p f m ps, v = .obj "BundleAdd" [i, p, f, m, .list ps] := by
  unfold BundleAdd.lenWith at hl
  split at hl
  · exact ⟨_, _, _, _, _, rfl⟩
  · exact absurd hl (by simp)

theorem BundleAdd.lenWith_inv (cl : MsgLenF) (i p f m : V) (ps : List V) (l : UInt16) (v1 : V)
    (hl : BundleAdd.lenWith cl (.obj "BundleAdd" [i, p, f, m, .list ps]) = .ok (l, v1)) :
    ∃ lm m1 ls ps1, cl m = .ok (lm, m1) ∧ mapM2 BundlePropertyExperimenter.lenM ps = .ok (ls, ps1) ∧
      l = BundleAdd.size lm ps ls ∧ v1 = .obj "BundleAdd" [i, p, f, m1, .list ps] := by
  rw [BundleAdd.lenWith_eq] at hl
  obtain ⟨⟨lm, m1⟩, h1, g1⟩ := bind_ok_inv _ _ _ hl
  obtain ⟨⟨ls, ps1⟩, h2, g2⟩ := bind_ok_inv _ _ _ g1
  cases g2
  exact ⟨lm, m1, ls, ps1, h1, h2, rfl, rfl⟩

theorem BundleAdd.lenWith_build (cl : MsgLenF) (i p f m : V) (ps : List V) (lm : UInt16) (m1 : V) (ls : List UInt16) (ps1 : List V)
    (h1 : cl m = .ok (lm, m1)) (h2 : mapM2 BundlePropertyExperimenter.lenM ps = .ok (ls, ps1)) :
    BundleAdd.lenWith cl (.obj "BundleAdd" [i, p, f, m, .list ps]) =
      .ok (BundleAdd.size lm ps ls, .obj "BundleAdd" [i, p, f, m1, .list ps]) := by
  rw [BundleAdd.lenWith_eq, h1, h2]; rfl

theorem BundleAdd.lenWith_idem (cl : MsgLenF) (hcl : ∀ d, LenIdem cl d) (v : V) : LenIdem (BundleAdd.lenWith cl) v := by
  intro l v1 hl
  obtain ⟨i, p, f, m, ps, rfl⟩ := BundleAdd.lenWith_ok cl v l v1 hl
  obtain ⟨lm, m1, ls, ps1, h1, h2, rfl, rfl⟩ := BundleAdd.lenWith_inv cl _ _ _ _ _ l v1 hl
  exact BundleAdd.lenWith_build cl _ _ _ _ _ _ _ _ _ (hcl m lm m1 h1) h2

/-- BundleAdd wrapping ANY repeatable message, with any properties (they are encoded from copies) -/
theorem BundleAdd.repeatableWith (cl : MsgLenF) (cm : MsgMarF) (hc : ∀ d, Repeatable cl cm d) :
    ∀ v, Repeatable (BundleAdd.lenWith cl) (BundleAdd.marshalWith cl cm) v := by
  apply repeatable_of_lenThen (BundleAdd.lenWith cl)
    (fun l v => match v with
      | .obj "BundleAdd" [.num i, p, .num f, m, .list ps] => do
        let pre := [pU32 i, pSkip 2, pU16 f]
        let _ ← fill l.toNat pre
        let (mb, m) ← cm m
        let (pbs, _) ← mapM2 BundlePropertyExperimenter.marshalM ps
        let adv := if ps.isEmpty then mb.length else (8 + mb.length + 7) / 8 * 8 - 8
        let bs ← fill l.toNat (pre ++ [.copyAdv mb adv] ++ pbs.map pCopy)
        .ok (bs, .obj "BundleAdd" [.num i, p, .num f, m, .list ps])
      | _ => .panic)
  · intro v; rfl
  · exact BundleAdd.lenWith_idem cl (fun d => (hc d).lenIdem)
  · intro l v1 bs v2 hl hE
    split at hE
    · rename_i i p f m ps
      obtain ⟨lm, m1, ls, ps1, h1, h2, el, e1⟩ := BundleAdd.lenWith_inv cl _ _ _ _ _ l _ hl
      simp only [V.obj.injEq, List.cons.injEq, true_and, and_true] at e1
      subst e1
      obtain ⟨f0, hf0, g1⟩ := bind_ok_inv _ _ _ hE
      obtain ⟨⟨mb, m2⟩, hm, g2⟩ := bind_ok_inv _ _ _ g1
      obtain ⟨⟨pbs, ps2⟩, hp, g3⟩ := bind_ok_inv _ _ _ g2
      obtain ⟨out, hout, g4⟩ := bind_ok_inv _ _ _ g3
      cases g4
      have hl2 := (hc _).lenAfterMar lm _ mb m2 h1 hm
      have hm2 := (hc _).marIdem mb m2 hm
      have hlen := BundleAdd.lenWith_build cl (.num i) p (.num f) m2 ps lm m2 ls ps1 hl2 h2
      rw [← el] at hlen
      refine ⟨hlen, ?_⟩
      simp only [hf0, hm2, hp, hout, Res.bind_ok]
    · exact absurd hE (by simp)

/-! ### MultipartRequest -/

theorem MultipartRequest.lenWith_eq (cl : MsgLenF) (h t f p b : V) :
    MultipartRequest.lenWith cl (.obj "MultipartRequest" [h, t, f, p, b]) =
      (cl b >>= fun r => .ok (8 + 8 + r.1, .obj "MultipartRequest" [h, t, f, p, r.2])) := rfl

theorem MultipartRequest.lenWith_ok (cl : MsgLenF) (v : V) (l : UInt16) (v1 : V) (hl : MultipartRequest.lenWith cl v = .ok (l, v1)) :
    ∃ h t f p b, v = .obj "MultipartRequest" [h, t, f, p, b] := by
  unfold MultipartRequest.lenWith at hl
  split at hl
  · exact ⟨_, _, _, _, _, rfl⟩
  · exact absurd hl (by simp)

theorem MultipartRequest.lenWith_idem (cl : MsgLenF) (hcl : ∀ d, LenIdem cl d) (v : V) : LenIdem (MultipartRequest.lenWith cl) v := by
  intro l v1 hl
  obtain ⟨h, t, f, p, b, rfl⟩ := MultipartRequest.lenWith_ok cl v l v1 hl
  rw [MultipartRequest.lenWith_eq] at hl
  obtain ⟨⟨lb, b1⟩, h1, g1⟩ := bind_ok_inv _ _ _ hl
  cases g1
  rw [MultipartRequest.lenWith_eq, hcl b lb b1 h1]
  rfl

/-- MultipartRequest with ANY repeatable body -/
theorem MultipartRequest.repeatableWith (cl : MsgLenF) (cm : MsgMarF) (hc : ∀ d, Repeatable cl cm d) :
    ∀ v, Repeatable (MultipartRequest.lenWith cl) (MultipartRequest.marshalWith cl cm) v := by
  apply repeatable_of_lenThen (MultipartRequest.lenWith cl)
    (fun l v => match v with
      | .obj "MultipartRequest" [h, .num t, .num f, p, b] => do
        let h := Header.setLength l h
        let hb ← Header.bytes h
        let (bb, b) ← cm b
        .ok (hb ++ (be16 (n16 t) ++ be16 (n16 f) ++ zeros 4) ++ bb, .obj "MultipartRequest" [h, .num t, .num f, p, b])
      | _ => .panic)
  · intro v; rfl
  · exact MultipartRequest.lenWith_idem cl (fun d => (hc d).lenIdem)
  · intro l v1 bs v2 hl hE
    split at hE
    · rename_i h t f p b
      rw [MultipartRequest.lenWith_eq] at hl
      obtain ⟨⟨lb, b1⟩, h1, k1⟩ := bind_ok_inv _ _ _ hl
      simp only [Res.ok.injEq, Prod.mk.injEq, V.obj.injEq, List.cons.injEq, true_and, and_true] at k1
      obtain ⟨el, e1⟩ := k1
      subst e1
      obtain ⟨hb, hhb, g1⟩ := bind_ok_inv _ _ _ hE
      obtain ⟨⟨bb, b2⟩, hm, g2⟩ := bind_ok_inv _ _ _ g1
      cases g2
      have hl2 := (hc _).lenAfterMar lb _ bb b2 h1 hm
      have hm2 := (hc _).marIdem bb b2 hm
      constructor
      · rw [MultipartRequest.lenWith_eq, hl2, ← el]; rfl
      · simp only [Header.setLength_idem, hhb, hm2, Res.bind_ok]
    · exact absurd hE (by simp)

/-! ### MultipartReply -/

theorem MultipartReply.lenWith_eq (cl : MsgLenF) (h t f p : V) (bs : List V) :
    MultipartReply.lenWith cl (.obj "MultipartReply" [h, t, f, p, .list bs]) =
      (mapM2 cl bs >>= fun r => .ok (8 + 8 + sum16 r.1, .obj "MultipartReply" [h, t, f, p, .list r.2])) := rfl

theorem MultipartReply.lenWith_ok (cl : MsgLenF) (v : V) (l : UInt16) (v1 : V) (hl : MultipartReply.lenWith cl v = .ok (l, v1)) :
    ∃ h t f p bs, v = .obj "MultipartReply" [h, t, f, p, .list bs] := by
  unfold MultipartReply.lenWith at hl
  split at hl
  · exact ⟨_, _, _, _, _, rfl⟩
  · exact absurd hl (by simp)

theorem MultipartReply.lenWith_idem (cl : MsgLenF) (hcl : ∀ d, LenIdem cl d) (v : V) : LenIdem (MultipartReply.lenWith cl) v := by
  intro l v1 hl
  obtain ⟨h, t, f, p, bs, rfl⟩ := MultipartReply.lenWith_ok cl v l v1 hl
  rw [MultipartReply.lenWith_eq] at hl
  obtain ⟨⟨ls, bs1⟩, h1, g1⟩ := bind_ok_inv _ _ _ hl
  cases g1
  rw [MultipartReply.lenWith_eq, mapM2_idem cl _ _ _ (fun x _ a x' hx => hcl x a x' hx) h1]
  rfl

/-- MultipartReply.MarshalBinary() after its leading Len() -/
def MultipartReply.afterLen (cm : MsgMarF) (l : UInt16) (v : V) : R (Bytes × V) :=
  match v with
  | .obj "MultipartReply" [h, .num t, .num f, p, .list bs] =>
    let h := Header.setLength l h
    (do
      let hb ← Header.bytes h
      let fixed := hb ++ (be16 (n16 t) ++ be16 (n16 f) ++ zeros 4)
      match bs.reverse with
      | [] => .ok (fixed, .obj "MultipartReply" [h, .num t, .num f, p, .list []])
      | last :: revInit => do
        let (ibs, init) ← mapM2 (msgTryM cm) revInit.reverse
        let (lb, last) ← cm last
        .ok (fixed ++ ibs.flatten ++ lb, .obj "MultipartReply" [h, .num t, .num f, p, .list (init ++ [last])]) : R (Bytes × V))
  | _ => .panic

theorem MultipartReply.afterLen_ok (cm : MsgMarF) (l : UInt16) (v : V) (r : Bytes × V) (h : MultipartReply.afterLen cm l v = .ok r) :
    ∃ h t f p bs, v = .obj "MultipartReply" [h, .num t, .num f, p, .list bs] := by
  unfold MultipartReply.afterLen at h
  split at h
  · exact ⟨_, _, _, _, _, rfl⟩
  · exact absurd h (by simp)

/-- the records part of MultipartReply.MarshalBinary() is `lastLoop` -/
theorem MultipartReply.afterLen_eq (cm : MsgMarF) (l : UInt16) (h : V) (t f : Nat) (p : V) (bs : List V) :
    MultipartReply.afterLen cm l (.obj "MultipartReply" [h, .num t, .num f, p, .list bs]) =
    (Header.bytes (Header.setLength l h) >>= fun hb => lastLoop cm bs >>= fun r =>
      .ok (hb ++ (be16 (n16 t) ++ be16 (n16 f) ++ zeros 4) ++ r.1,
        .obj "MultipartReply" [Header.setLength l h, .num t, .num f, p, .list r.2])) := by
  simp only [MultipartReply.afterLen, lastLoop]
  cases Header.bytes (Header.setLength l h) with
  | ok hb =>
    simp only [Res.bind_ok]
    cases bs.reverse with
    | nil => simp
    | cons last revInit =>
      simp only
      cases mapM2 (msgTryM cm) revInit.reverse with
      | ok r =>
        simp only [Res.bind_ok]
        cases cm last with
        | ok q => simp
        | _ => rfl
      | _ => rfl
  | _ => rfl

/-- MultipartReply with ANY list of records of a repeatable kind; the errors of all records but the last are dropped -/
theorem MultipartReply.repeatableWith (cl : MsgLenF) (cm : MsgMarF) (hc : ∀ d, Repeatable cl cm d) :
    ∀ v, Repeatable (MultipartReply.lenWith cl) (MultipartReply.marshalWith cl cm) v := by
  apply repeatable_of_lenThen (MultipartReply.lenWith cl) (MultipartReply.afterLen cm)
  · intro v; rfl
  · exact MultipartReply.lenWith_idem cl (fun d => (hc d).lenIdem)
  · intro l v1 bs v2 hl hE
    obtain ⟨h, t, f, p, rs, rfl⟩ := MultipartReply.afterLen_ok cm l v1 _ hE
    rw [MultipartReply.afterLen_eq] at hE
    rw [MultipartReply.lenWith_eq] at hl
    obtain ⟨⟨ls, rs1⟩, h1, k1⟩ := bind_ok_inv _ _ _ hl
    simp only [Res.ok.injEq, Prod.mk.injEq, V.obj.injEq, List.cons.injEq, V.list.injEq, true_and, and_true] at k1
    obtain ⟨el, e1⟩ := k1
    subst e1
    obtain ⟨hb, hhb, g1⟩ := bind_ok_inv _ _ _ hE
    obtain ⟨⟨tb, rs2⟩, ht, g2⟩ := bind_ok_inv _ _ _ g1
    cases g2
    obtain ⟨a1, a2⟩ := lastLoop_settled cl cm hc _ ls tb rs2 h1 ht
    constructor
    · rw [MultipartReply.lenWith_eq, a1, ← el]; rfl
    · rw [MultipartReply.afterLen_eq, Header.setLength_idem, hhb, a2]; rfl

/-! ### FlowStats -/

/-- a FlowStats value with the given match and instructions (the thirteen scalar fields in `fs`) -/
def FlowStats.fin (ln t p ds dn pr it ht fl : Nat) (p2 : Bytes) (c pc bc : Nat) (mt : V) (is : List V) : V :=
  .obj "FlowStats" [.num ln, .num t, .num p, .num ds, .num dn, .num pr, .num it, .num ht, .num fl, .bytes p2, .num c, .num pc,
    .num bc, mt, .list is]

theorem FlowStats.lenM_eq (a b c d e f g h i j k l m mt : V) (is : List V) :
    FlowStats.lenM (.obj "FlowStats" [a, b, c, d, e, f, g, h, i, j, k, l, m, mt, .list is]) =
      (Match.lenM mt >>= fun r => mapM2 Instruction.lenM is >>= fun q =>
        .ok (48 + r.1 + sum16 q.1, .obj "FlowStats" [a, b, c, d, e, f, g, h, i, j, k, l, m, r.2, .list q.2])) := rfl

theorem FlowStats.lenM_ok (v : V) (l : UInt16) (v1 : V) (hl : FlowStats.lenM v = .ok (l, v1)) :
    ∃ a b c d e f g h i j k l m mt is, v = .obj "FlowStats" [a, b, c, d, e, f, g, h, i, j, k, l, m, mt, .list is] := by
  unfold FlowStats.lenM at hl
  split at hl
  · exact ⟨_, _, _, _, _, _, _, _, _, _, _, _, _, _, _, rfl⟩
  · exact absurd hl (by simp)

theorem FlowStats.lenM_inv (a b c d e f g h i j k l m mt : V) (is : List V) (len : UInt16) (v1 : V)
    (hl : FlowStats.lenM (.obj "FlowStats" [a, b, c, d, e, f, g, h, i, j, k, l, m, mt, .list is]) = .ok (len, v1)) :
    ∃ lm ls is1, Match.lenM mt = .ok (lm, mt) ∧ mapM2 Instruction.lenM is = .ok (ls, is1) ∧ len = 48 + lm + sum16 ls ∧
      v1 = .obj "FlowStats" [a, b, c, d, e, f, g, h, i, j, k, l, m, mt, .list is1] := by
  rw [FlowStats.lenM_eq] at hl
  obtain ⟨⟨lm, mt1⟩, h1, g1⟩ := bind_ok_inv _ _ _ hl
  have e := Match.lenM_pure _ _ _ h1
  subst e
  obtain ⟨⟨ls, is1⟩, h2, g2⟩ := bind_ok_inv _ _ _ g1
  cases g2
  exact ⟨lm, ls, is1, h1, h2, rfl, rfl⟩

theorem FlowStats.lenM_build (a b c d e f g h i j k l m mt : V) (is : List V) (lm : UInt16) (ls : List UInt16) (is1 : List V)
    (h1 : Match.lenM mt = .ok (lm, mt)) (h2 : mapM2 Instruction.lenM is = .ok (ls, is1)) :
    FlowStats.lenM (.obj "FlowStats" [a, b, c, d, e, f, g, h, i, j, k, l, m, mt, .list is]) =
      .ok (48 + lm + sum16 ls, .obj "FlowStats" [a, b, c, d, e, f, g, h, i, j, k, l, m, mt, .list is1]) := by
  rw [FlowStats.lenM_eq, h1, h2]; rfl

theorem FlowStats.marshalM_ok (v : V) (r : Bytes × V) (h : FlowStats.marshalM v = .ok r) :
    ∃ ln t p ds dn pr it ht fl p2 c pc bc mt is, v = FlowStats.fin ln t p ds dn pr it ht fl p2 c pc bc mt is := by
  unfold FlowStats.marshalM at h
  split at h
  · exact ⟨_, _, _, _, _, _, _, _, _, _, _, _, _, _, _, rfl⟩
  · exact absurd h (by simp)

/-- FlowStats.MarshalBinary(): the 48 fixed bytes (the stored Length as it is), the match, the instruction loop -/
theorem FlowStats.marshalM_eq (ln t p ds dn pr it ht fl : Nat) (p2 : Bytes) (c pc bc : Nat) (mt : V) (is : List V) :
    FlowStats.marshalM (FlowStats.fin ln t p ds dn pr it ht fl p2 c pc bc mt is) =
      (fill 48 [pU16 ln, pU8 t, pU8 p, pU32 ds, pU32 dn, pU16 pr, pU16 it, pU16 ht, pU16 fl, pCopy p2, pU64 c, pU64 pc, pU64 bc]
        >>= fun bs => Match.marshalM mt >>= fun r => lastLoop Instruction.marshalM is >>= fun q =>
        .ok (bs ++ r.1 ++ q.1, FlowStats.fin ln t p ds dn pr it ht fl p2 c pc bc r.2 q.2)) := by
  simp only [FlowStats.marshalM, FlowStats.fin, lastLoop, msgTryM_noErr _ _ (Match.marshalM_noErr _)]
  cases fill 48 [pU16 ln, pU8 t, pU8 p, pU32 ds, pU32 dn, pU16 pr, pU16 it, pU16 ht, pU16 fl, pCopy p2, pU64 c, pU64 pc, pU64 bc] with
  | ok bs =>
    simp only [Res.bind_ok]
    cases is.reverse with
    | nil =>
      simp only
      cases Match.marshalM mt with
      | ok r => simp
      | _ => rfl
    | cons last revInit =>
      simp only
      cases Match.marshalM mt with
      | ok r =>
        simp only [Res.bind_ok]
        cases mapM2 (msgTryM Instruction.marshalM) revInit.reverse with
        | ok q =>
          simp only [Res.bind_ok]
          cases Instruction.marshalM last with
          | ok w => simp
          | _ => rfl
        | _ => rfl
      | _ => rfl
  | _ => rfl

/-- one successful FlowStats.MarshalBinary(), and conversely -/
theorem FlowStats.marshalM_iff (ln t p ds dn pr it ht fl : Nat) (p2 : Bytes) (c pc bc : Nat) (mt : V) (is : List V)
    (out : Bytes) (v2 : V) :
    FlowStats.marshalM (FlowStats.fin ln t p ds dn pr it ht fl p2 c pc bc mt is) = .ok (out, v2) ↔
      ∃ bs mb ibss is2,
        fill 48 [pU16 ln, pU8 t, pU8 p, pU32 ds, pU32 dn, pU16 pr, pU16 it, pU16 ht, pU16 fl, pCopy p2, pU64 c, pU64 pc, pU64 bc] = .ok bs ∧
        Match.marshalM mt = .ok (mb, mt) ∧ mapM2 Instruction.marshalM is = .ok (ibss, is2) ∧
        out = bs ++ mb ++ ibss.flatten ∧ v2 = FlowStats.fin ln t p ds dn pr it ht fl p2 c pc bc mt is2 := by
  rw [FlowStats.marshalM_eq]
  constructor
  · intro h
    obtain ⟨bs, h1, g1⟩ := bind_ok_inv _ _ _ h
    obtain ⟨⟨mb, mt1⟩, h2, g2⟩ := bind_ok_inv _ _ _ g1
    have e := Match.marshalM_pure _ _ _ h2
    subst e
    obtain ⟨⟨tb, is2⟩, h3, g3⟩ := bind_ok_inv _ _ _ g2
    cases g3
    obtain ⟨ibss, h4, rfl⟩ := (lastLoop_ok_iff _ Instruction.marshalM_noErr _ _ _).mp h3
    exact ⟨bs, mb, ibss, is2, h1, h2, h4, rfl, rfl⟩
  · rintro ⟨bs, mb, ibss, is2, h1, h2, h4, rfl, rfl⟩
    have h3 := (lastLoop_ok_iff _ Instruction.marshalM_noErr is ibss.flatten is2).mpr ⟨ibss, h4, rfl⟩
    rw [h1, h2, h3]
    rfl

/-- FlowStats (a flow-stats reply record): Len() threads what the instructions store, MarshalBinary() writes the STORED
    Length (it does not call Len()) and threads what the instructions store.  Repeatable in any order. -/
theorem FlowStats.repeatable (v : V) : Repeatable FlowStats.lenM FlowStats.marshalM v := by
  refine ⟨?_, ?_, ?_, ?_⟩
  · intro l v1 hl
    obtain ⟨a, b, c, d, e, f, g, h, i, j, k, l', m, mt, is, rfl⟩ := FlowStats.lenM_ok v l v1 hl
    obtain ⟨lm, ls, is1, h1, h2, rfl, rfl⟩ := FlowStats.lenM_inv _ _ _ _ _ _ _ _ _ _ _ _ _ _ _ l v1 hl
    exact FlowStats.lenM_build _ _ _ _ _ _ _ _ _ _ _ _ _ _ _ _ _ _ h1 (instrs_len_idem _ _ _ h2)
  · intro bs v2 h2
    obtain ⟨ln, t, p, ds, dn, pr, it, ht, fl, p2, c, pc, bc, mt, is, rfl⟩ := FlowStats.marshalM_ok v _ h2
    obtain ⟨b0, mb, ibss, is2, k1, k2, k3, rfl, rfl⟩ := (FlowStats.marshalM_iff _ _ _ _ _ _ _ _ _ _ _ _ _ _ _ _ _).mp h2
    exact (FlowStats.marshalM_iff _ _ _ _ _ _ _ _ _ _ _ _ _ _ _ _ _).mpr ⟨b0, mb, ibss, is2, k1, k2, instrs_mar_idem _ _ _ k3, rfl, rfl⟩
  · intro l v1 bs v2 h1 h2
    obtain ⟨ln, t, p, ds, dn, pr, it, ht, fl, p2, c, pc, bc, mt, is, rfl⟩ := FlowStats.marshalM_ok v _ h2
    obtain ⟨b0, mb, ibss, is2, k1, k2, k3, rfl, rfl⟩ := (FlowStats.marshalM_iff _ _ _ _ _ _ _ _ _ _ _ _ _ _ _ _ _).mp h2
    obtain ⟨lm, ls, is1, g1, g2, rfl, rfl⟩ := FlowStats.lenM_inv _ _ _ _ _ _ _ _ _ _ _ _ _ _ _ l v1 h1
    exact FlowStats.lenM_build _ _ _ _ _ _ _ _ _ _ _ _ _ _ _ _ _ _ g1 (instrs_len_after_mar _ _ _ _ _ g2 k3)
  · intro l v1 bs v2 h1 h2
    obtain ⟨ln, t, p, ds, dn, pr, it, ht, fl, p2, c, pc, bc, mt, is, rfl⟩ := FlowStats.marshalM_ok v _ h2
    obtain ⟨b0, mb, ibss, is2, k1, k2, k3, rfl, rfl⟩ := (FlowStats.marshalM_iff _ _ _ _ _ _ _ _ _ _ _ _ _ _ _ _ _).mp h2
    obtain ⟨lm, ls, is1, g1, g2, rfl, rfl⟩ := FlowStats.lenM_inv _ _ _ _ _ _ _ _ _ _ _ _ _ _ _ l v1 h1
    have k3' := mapM2_mar_after_len Instruction.lenM Instruction.marshalM _ _ _ _ _ g2 k3
      (fun x _ l y b z hx hy => (instruction_repeatable x).marAfterLen l y b z hx hy)
    exact (FlowStats.marshalM_iff _ _ _ _ _ _ _ _ _ _ _ _ _ _ _ _ _).mpr ⟨b0, mb, ibss, is2, k1, k2, k3', rfl, rfl⟩

/-! ### PacketIn -/

theorem PacketIn.lenM_eq (h b t r ti c m pad eth : V) :
    PacketIn.lenM (.obj "PacketIn" [h, b, t, r, ti, c, m, pad, eth]) =
      (Match.lenM m >>= fun x => PEthernet.lenM eth >>= fun y =>
        .ok (8 + 16 + x.1 + 2 + y.1, .obj "PacketIn" [h, b, t, r, ti, c, x.2, pad, y.2])) := rfl

theorem PacketIn.lenM_ok (v : V) (l : UInt16) (v1 : V) (hl : PacketIn.lenM v = .ok (l, v1)) :
    ∃ h b t r ti c m pad eth, v = .obj "PacketIn" [h, b, t, r, ti, c, m, pad, eth] := by
  unfold PacketIn.lenM at hl
  split at hl
  · exact ⟨_, _, _, _, _, _, _, _, _, rfl⟩
  · exact absurd hl (by simp)

theorem PacketIn.lenM_inv (h b t r ti c m pad eth : V) (l : UInt16) (v1 : V)
    (hl : PacketIn.lenM (.obj "PacketIn" [h, b, t, r, ti, c, m, pad, eth]) = .ok (l, v1)) :
    ∃ lm le eth1, Match.lenM m = .ok (lm, m) ∧ PEthernet.lenM eth = .ok (le, eth1) ∧ l = 8 + 16 + lm + 2 + le ∧
      v1 = .obj "PacketIn" [h, b, t, r, ti, c, m, pad, eth1] := by
  rw [PacketIn.lenM_eq] at hl
  obtain ⟨⟨lm, m1⟩, h1, g1⟩ := bind_ok_inv _ _ _ hl
  have e := Match.lenM_pure _ _ _ h1
  subst e
  obtain ⟨⟨le, eth1⟩, h2, g2⟩ := bind_ok_inv _ _ _ g1
  cases g2
  exact ⟨lm, le, eth1, h1, h2, rfl, rfl⟩

theorem PacketIn.lenM_build (h b t r ti c m pad eth : V) (lm le : UInt16) (eth1 : V)
    (h1 : Match.lenM m = .ok (lm, m)) (h2 : PEthernet.lenM eth = .ok (le, eth1)) :
    PacketIn.lenM (.obj "PacketIn" [h, b, t, r, ti, c, m, pad, eth]) =
      .ok (8 + 16 + lm + 2 + le, .obj "PacketIn" [h, b, t, r, ti, c, m, pad, eth1]) := by
  rw [PacketIn.lenM_eq, h1, h2]; rfl

theorem PacketIn.lenM_idem (v : V) : LenIdem PacketIn.lenM v := by
  intro l v1 hl
  obtain ⟨h, b, t, r, ti, c, m, pad, eth, rfl⟩ := PacketIn.lenM_ok v l v1 hl
  obtain ⟨lm, le, eth1, h1, h2, rfl, rfl⟩ := PacketIn.lenM_inv _ _ _ _ _ _ _ _ _ l v1 hl
  exact PacketIn.lenM_build _ _ _ _ _ _ _ _ _ _ _ _ h1 ((PEthernet.repeatable eth).lenIdem le eth1 h2)

/-- PacketIn carrying ANY Ethernet frame (with any decoded packet inside): MarshalBinary() stores `Header.Length`,
    and the frame may store things too (an IPv4 packet's IHL) -/
theorem PacketIn.repeatable : ∀ v, Repeatable PacketIn.lenM PacketIn.marshalM v := by
  apply repeatable_of_lenThen PacketIn.lenM
    (fun l v => match v with
      | .obj "PacketIn" [h, .num b, .num t, .num r, .num ti, .num c, m, .bytes pad, eth] => do
        let h := Header.setLength l h
        let hb ← Header.bytes h
        let (mb, m) ← msgTryM Match.marshalM m
        let (eb, eth) ← PEthernet.marshalM eth
        pure (hb ++ (be32 (n32 b) ++ be16 (n16 t) ++ [n8 r, n8 ti] ++ be64 (n64 c)) ++ mb ++ makeCopy 2 pad ++ eb,
          .obj "PacketIn" [h, .num b, .num t, .num r, .num ti, .num c, m, .bytes pad, eth])
      | _ => .panic)
  · intro v; rfl
  · exact PacketIn.lenM_idem
  · intro l v1 bs v2 hl hE
    split at hE
    · rename_i h b t r ti c m pad eth
      obtain ⟨lm, le, eth1, h1, h2, el, e1⟩ := PacketIn.lenM_inv _ _ _ _ _ _ _ _ _ l _ hl
      simp only [V.obj.injEq, List.cons.injEq, true_and, and_true] at e1
      subst e1
      rw [msgTryM_noErr _ _ (Match.marshalM_noErr _)] at hE
      obtain ⟨hb, hhb, g1⟩ := bind_ok_inv _ _ _ hE
      obtain ⟨⟨mb, m2⟩, hm, g2⟩ := bind_ok_inv _ _ _ g1
      have e := Match.marshalM_pure _ _ _ hm
      subst e
      obtain ⟨⟨eb, eth2⟩, he, g3⟩ := bind_ok_inv _ _ _ g2
      cases g3
      have hl2 := (PEthernet.repeatable _).lenAfterMar le _ eb eth2 h2 he
      have hm2 := (PEthernet.repeatable _).marIdem eb eth2 he
      constructor
      · rw [el]; exact PacketIn.lenM_build _ _ _ _ _ _ _ _ _ _ _ _ h1 hl2
      · simp only [msgTryM_noErr _ _ (Match.marshalM_noErr _), Header.setLength_idem, hhb, hm, hm2, Res.bind_ok, Res.pure_eq]
    · exact absurd hE (by simp)

/-! ### dynamic types -/

theorem PacketOut.lenWith_kind (cl : MsgLenF) : LenKind "PacketOut" (PacketOut.lenWith cl) := by kind_tac PacketOut.lenWith
theorem PacketOut.marshalWith_kind (cl : MsgLenF) (cm : MsgMarF) : MarKind "PacketOut" (PacketOut.marshalWith cl cm) := by
  kind_tac PacketOut.marshalWith
theorem VendorHeader.lenWith_kind (cl : MsgLenF) : LenKind "VendorHeader" (VendorHeader.lenWith cl) := by kind_tac VendorHeader.lenWith
theorem VendorHeader.marshalWith_kind (cl : MsgLenF) (cm : MsgMarF) : MarKind "VendorHeader" (VendorHeader.marshalWith cl cm) := by
  kind_tac VendorHeader.marshalWith
theorem BundleAdd.lenWith_kind (cl : MsgLenF) : LenKind "BundleAdd" (BundleAdd.lenWith cl) := by kind_tac BundleAdd.lenWith
theorem BundleAdd.marshalWith_kind (cl : MsgLenF) (cm : MsgMarF) : MarKind "BundleAdd" (BundleAdd.marshalWith cl cm) := by
  kind_tac BundleAdd.marshalWith
theorem MultipartRequest.lenWith_kind (cl : MsgLenF) : LenKind "MultipartRequest" (MultipartRequest.lenWith cl) := by
  kind_tac MultipartRequest.lenWith
theorem MultipartRequest.marshalWith_kind (cl : MsgLenF) (cm : MsgMarF) :
    MarKind "MultipartRequest" (MultipartRequest.marshalWith cl cm) := by kind_tac MultipartRequest.marshalWith
theorem MultipartReply.lenWith_kind (cl : MsgLenF) : LenKind "MultipartReply" (MultipartReply.lenWith cl) := by
  kind_tac MultipartReply.lenWith
theorem MultipartReply.marshalWith_kind (cl : MsgLenF) (cm : MsgMarF) :
    MarKind "MultipartReply" (MultipartReply.marshalWith cl cm) := by kind_tac MultipartReply.marshalWith
theorem PacketIn.lenM_kind : LenKind "PacketIn" PacketIn.lenM := by kind_tac PacketIn.lenM
theorem PacketIn.marshalM_kind : MarKind "PacketIn" PacketIn.marshalM := by kind_tac PacketIn.marshalM
theorem FlowStats.lenM_kind : LenKind "FlowStats" FlowStats.lenM := by kind_tac FlowStats.lenM
theorem FlowStats.marshalM_kind : MarKind "FlowStats" FlowStats.marshalM := by
  intro v bs v2 _ h
  obtain ⟨ln, t, p, ds, dn, pr, it, ht, fl, p2, c, pc, bc, mt, is, rfl⟩ := FlowStats.marshalM_ok v _ h
  obtain ⟨b0, mb, ibss, is2, k1, k2, k3, rfl, rfl⟩ := (FlowStats.marshalM_iff _ _ _ _ _ _ _ _ _ _ _ _ _ _ _ _ _).mp h
  rfl

end OFV.Rep
