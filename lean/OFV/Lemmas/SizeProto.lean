/-
  OFV.Lemmas.SizeProto — helper lemmas for Props/C06c (size = bytes and children intact for the packet headers of
  package protocol):
    * `encAll M xs`          : the encodings of a list of children, in order;
    * `K.bytes_len`          : the encoders of the children that containers embed return as many bytes as the
                               child's Len() says;
    * `optPieces_enc`, `recPieces_enc` : the pieces a container's loop writes are the children's own encodings;
    * `protoAny_elim`        : the `util.Message` dispatch as an elimination rule (one `by_cases` chain for all uses).
-/
import OFV.Model.All
import OFV.Lemmas.Size
import OFV.Lemmas.SizeTac
import OFV.Lemmas.SizeList
import OFV.Lemmas.SizeProtoFill
import OFV.Lemmas.RepProto
namespace OFV.SizeP
open OFV OFV.Go OFV.Model

/-- MarshalBinary() of every element of a list, in order: the list of the encodings -/
def encAll (M : V → R (Bytes × V)) : List V → R (List Bytes)
  | [] => .ok []
  | x :: xs => do
    let (b, _) ← M x
    let r ← encAll M xs
    pure (b :: r)

/-! ### sizes of the children that containers of package protocol embed -/

theorem POption.bytes_len (o : V) (b : Bytes) (h : POption.bytes o = .ok b) :
    ∃ l, POption.len o = .ok l ∧ b.length = l.toNat := by
  unfold POption.bytes at h
  split at h
  · obtain ⟨l, hl, h⟩ := bind_ok_inv _ _ _ h
    refine ⟨l, hl, ?_⟩
    split at h <;> exact fill_length _ _ _ h
  · exact absurd h (by simp)

theorem PIGMPv3GroupRecord.bytes_len (o : V) (b : Bytes) (h : PIGMPv3GroupRecord.bytes o = .ok b) :
    ∃ l, PIGMPv3GroupRecord.len o = .ok l ∧ b.length = l.toNat := by
  unfold PIGMPv3GroupRecord.bytes at h
  split at h
  · obtain ⟨l, hl, h⟩ := bind_ok_inv _ _ _ h
    obtain ⟨ips, _, h⟩ := bind_ok_inv _ _ _ h
    exact ⟨l, hl, fill_length _ _ _ h⟩
  · exact absurd h (by simp)

theorem PHopByHop.bytes_len (o : V) (b : Bytes) (h : PHopByHop.bytes o = .ok b) :
    ∃ l, PHopByHop.len o = .ok l ∧ b.length = l.toNat := by
  unfold PHopByHop.bytes at h
  split at h
  · obtain ⟨l, hl, h⟩ := bind_ok_inv _ _ _ h
    obtain ⟨_, _, h⟩ := bind_ok_inv _ _ _ h
    obtain ⟨_, _, h⟩ := bind_ok_inv _ _ _ h
    exact ⟨l, hl, fill_length _ _ _ h⟩
  · exact absurd h (by simp)

theorem PRouting.bytes_len (o : V) (b : Bytes) (h : PRouting.bytes o = .ok b) :
    ∃ l, PRouting.len o = .ok l ∧ b.length = l.toNat := by
  unfold PRouting.bytes at h
  split at h
  · obtain ⟨l, hl, h⟩ := bind_ok_inv _ _ _ h
    obtain ⟨_, _, h⟩ := bind_ok_inv _ _ _ h
    obtain ⟨_, _, h⟩ := bind_ok_inv _ _ _ h
    exact ⟨l, hl, fill_length _ _ _ h⟩
  · exact absurd h (by simp)

theorem PFragment.bytes_len (o : V) (b : Bytes) (h : PFragment.bytes o = .ok b) :
    ∃ l, PFragment.len o = .ok l ∧ b.length = l.toNat := by
  unfold PFragment.bytes at h
  split at h
  · obtain ⟨l, hl, h⟩ := bind_ok_inv _ _ _ h
    exact ⟨l, hl, fill_length _ _ _ h⟩
  · exact absurd h (by simp)

/-! ### the per-child piece lists are the children's own encodings -/

theorem POption.marshalM_eq (o : V) (b : Bytes) (h : POption.bytes o = .ok b) : POption.marshalM o = .ok (b, o) := by
  simp [POption.marshalM, h, same]

theorem PIGMPv3GroupRecord.marshalM_eq (o : V) (b : Bytes) (h : PIGMPv3GroupRecord.bytes o = .ok b) :
    PIGMPv3GroupRecord.marshalM o = .ok (b, o) := by
  simp [PIGMPv3GroupRecord.marshalM, h, same]

/-- hop-by-hop options: the pieces the encoder writes are exactly the options' own MarshalBinary() results, each
    advancing by its own length -/
theorem optPieces_enc : ∀ (os : List V) (ps : List Piece), PHopByHop.optPieces os = .ok ps →
    ∃ obs, encAll POption.marshalM os = .ok obs ∧ piecesBytes ps = obs.flatten ∧ (∀ p ∈ ps, p.Tight) ∧
      obs.length = os.length := by
  intro os
  induction os with
  | nil => intro ps h; simp only [PHopByHop.optPieces] at h; cases h; exact ⟨[], rfl, rfl, by simp, rfl⟩
  | cons o os ih =>
    intro ps h
    simp only [PHopByHop.optPieces] at h
    obtain ⟨b, hb, h⟩ := bind_ok_inv _ _ _ h
    obtain ⟨l, hl, h⟩ := bind_ok_inv _ _ _ h
    obtain ⟨ps', hps, h⟩ := bind_ok_inv _ _ _ h
    cases h
    obtain ⟨obs, he, hpb, ht, hlen⟩ := ih ps' hps
    obtain ⟨l', hl', hbl⟩ := POption.bytes_len o b hb
    rw [hl] at hl'
    cases hl'
    refine ⟨b :: obs, ?_, ?_, ?_, by simp [hlen]⟩
    · simp only [encAll, POption.marshalM_eq o b hb, Res.bind_ok, he, Res.pure_eq]
    · have : piecesBytes (pCopyAdv b l.toNat :: ps') = (pCopyAdv b l.toNat).bytes ++ piecesBytes ps' := by
        simp [piecesBytes]
      rw [this, hpb]
      simp [pCopyAdv, Piece.bytes, hbl, zeros, List.take_of_length_le (Nat.le_of_eq hbl)]
    · intro p hp
      simp only [List.mem_cons] at hp
      rcases hp with rfl | hp
      · simp only [pCopyAdv, Piece.Tight]; omega
      · exact ht p hp

/-- group records of a membership report: as `optPieces_enc`; also the advances -/
theorem recPieces_enc : ∀ (rs : List V) (ps : List Piece), PIGMPv3MembershipReport.recPieces rs = .ok ps →
    ∃ rbs ls, encAll PIGMPv3GroupRecord.marshalM rs = .ok rbs ∧ PIGMPv3MembershipReport.recLens rs = .ok ls ∧
      piecesBytes ps = rbs.flatten ∧ (∀ p ∈ ps, p.Tight) ∧ ps.map Piece.adv = ls.map UInt16.toNat ∧
      (∀ p ∈ ps, ∀ k, p ≠ .skip k) := by
  intro rs
  induction rs with
  | nil =>
    intro ps h; simp only [PIGMPv3MembershipReport.recPieces] at h; cases h
    exact ⟨[], [], rfl, rfl, rfl, by simp, rfl, by simp⟩
  | cons o os ih =>
    intro ps h
    simp only [PIGMPv3MembershipReport.recPieces] at h
    obtain ⟨b, hb, h⟩ := bind_ok_inv _ _ _ h
    obtain ⟨l, hl, h⟩ := bind_ok_inv _ _ _ h
    obtain ⟨ps', hps, h⟩ := bind_ok_inv _ _ _ h
    cases h
    obtain ⟨rbs, ls, he, hls, hpb, ht, hadv, hns⟩ := ih ps' hps
    obtain ⟨l', hl', hbl⟩ := PIGMPv3GroupRecord.bytes_len o b hb
    rw [hl] at hl'
    cases hl'
    refine ⟨b :: rbs, l :: ls, ?_, ?_, ?_, ?_, ?_, ?_⟩
    · simp only [encAll, PIGMPv3GroupRecord.marshalM_eq o b hb, Res.bind_ok, he, Res.pure_eq]
    · simp only [PIGMPv3MembershipReport.recLens, hl, Res.bind_ok, hls, Res.pure_eq]
    · have : piecesBytes (pCopyAdv b l.toNat :: ps') = (pCopyAdv b l.toNat).bytes ++ piecesBytes ps' := by
        simp [piecesBytes]
      rw [this, hpb]
      simp [pCopyAdv, Piece.bytes, hbl, zeros, List.take_of_length_le (Nat.le_of_eq hbl)]
    · intro p hp
      simp only [List.mem_cons] at hp
      rcases hp with rfl | hp
      · simp only [pCopyAdv, Piece.Tight]; omega
      · exact ht p hp
    · simp [hadv, pCopyAdv, Piece.adv]
    · intro p hp
      simp only [List.mem_cons] at hp
      rcases hp with rfl | hp
      · intro k; simp [pCopyAdv]
      · exact hns p hp

/-! ### small facts about the helpers of Model/Proto -/

theorem pFitTo_length (k : Nat) (b : Bytes) : (pFitTo k b).length = k := by
  simp [pFitTo]; omega

theorem pFitTo_exact (k : Nat) (b : Bytes) (h : b.length = k) : pFitTo k b = b := by
  subst h; simp [pFitTo, zeros]

theorem pIpTo4_of_len4 (ip : Bytes) (h : ip.length = 4) : pIpTo4 ip = ip := by
  simp [pIpTo4, pIpTo4?, h]

theorem pIpTo4_length_le (ip : Bytes) : (pIpTo4 ip).length ≤ 4 := by
  unfold pIpTo4 pIpTo4?
  split
  · rename_i h; simp at h; simp [h]
  · split
    · rename_i h; simp at h; simp [h.1.1.1]
    · simp

theorem flatten_map_const_length {α} (f : α → Bytes) (k : Nat) (xs : List α) (h : ∀ x ∈ xs, (f x).length = k) :
    (xs.map f).flatten.length = k * xs.length := by
  induction xs with
  | nil => simp
  | cons x xs ih =>
    simp only [List.map_cons, List.flatten_cons, List.length_append, List.length_cons]
    rw [ih (fun y hy => h y (by simp [hy])), h x (by simp), Nat.mul_succ]; omega

theorem map_id_of_forall {α} (f : α → α) (xs : List α) (h : ∀ x ∈ xs, f x = x) : xs.map f = xs := by
  induction xs with
  | nil => rfl
  | cons x xs ih => simp [h x (by simp), ih (fun y hy => h y (by simp [hy]))]

theorem ext_len_toNat (hel : UInt8) :
    ((8 : UInt16) * ((hel.toUInt64).toUInt16 + (1 : UInt16))).toNat = 8 * (hel.toNat + 1) := by
  have := hel.toNat_lt
  simp only [UInt16.toNat_mul, UInt16.toNat_add, UInt64.toNat_toUInt16, UInt8.toNat_toUInt64]
  show 8 * ((hel.toNat % 2 ^ 16 + 1) % 2 ^ 16) % 2 ^ 16 = _
  omega

theorem grouprec_len_toNat (ty aux ns : Nat) :
    (Gen.protocol.IGMPv3GroupRecord.Len { Type_ := n8 ty, AuxDataLen := n8 aux, NumberOfSources := n16 ns }).toNat
      = (8 + 4 * (n8 aux).toNat + 4 * (n16 ns).toNat) % 65536 := by
  unfold Gen.protocol.IGMPv3GroupRecord.Len
  have := (n8 aux).toNat_lt
  have := (n16 ns).toNat_lt
  simp only [UInt16.toNat_mul, UInt16.toNat_add, UInt64.toNat_toUInt16, UInt8.toNat_toUInt64]
  show (((8 + (n8 aux).toNat % 2 ^ 16 * 4 % 2 ^ 16) % 2 ^ 16) + (n16 ns).toNat * 4 % 2 ^ 16) % 2 ^ 16 = _
  omega

/-- the bytes a group record consists of: fixed part, source addresses (through To4(), each in a 4-byte window),
    auxiliary words -/
def groupRecordBody (ty aux ns : Nat) (mc : Bytes) (ips : List Bytes) (auxd : List V) : Bytes :=
  [n8 ty, n8 aux] ++ be16 (n16 ns) ++ pFitTo 4 (pIpTo4 mc) ++ (ips.map (fun ip => pFitTo 4 (pIpTo4 ip))).flatten
    ++ (auxd.map (fun d => be32 (n32 d.asNat))).flatten

theorem groupRecordBody_length (ty aux ns : Nat) (mc : Bytes) (ips : List Bytes) (auxd : List V) :
    (groupRecordBody ty aux ns mc ips auxd).length = 8 + 4 * ips.length + 4 * auxd.length := by
  unfold groupRecordBody
  simp only [List.length_append, List.length_cons, List.length_nil, be16_length, pFitTo_length]
  rw [flatten_map_const_length _ 4 ips (fun x _ => pFitTo_length 4 _),
    flatten_map_const_length _ 4 auxd (fun x _ => be32_length _)]

theorem pIpList_length : ∀ (xs : List V) (ips : List Bytes), pIpList xs = .ok ips → ips.length = xs.length := by
  intro xs
  induction xs with
  | nil => intro ips h; simp only [pIpList] at h; cases h; rfl
  | cons x xs ih =>
    intro ips h
    simp only [pIpList] at h
    obtain ⟨b, _, h⟩ := bind_ok_inv _ _ _ h
    obtain ⟨r, hr, h⟩ := bind_ok_inv _ _ _ h
    cases h
    simp [ih r hr]

/-- with 4-byte addresses the body is the plain concatenation -/
theorem groupRecordBody_v4 (ty aux ns : Nat) (mc : Bytes) (ips : List Bytes) (auxd : List V) (hmc : mc.length = 4)
    (hips : ∀ ip ∈ ips, ip.length = 4) :
    groupRecordBody ty aux ns mc ips auxd
      = [n8 ty, n8 aux] ++ be16 (n16 ns) ++ mc ++ ips.flatten ++ (auxd.map (fun d => be32 (n32 d.asNat))).flatten := by
  unfold groupRecordBody
  rw [pIpTo4_of_len4 mc hmc, pFitTo_exact 4 mc hmc,
    map_id_of_forall (fun ip => pFitTo 4 (pIpTo4 ip)) ips (fun ip hip => by
      rw [pIpTo4_of_len4 ip (hips ip hip), pFitTo_exact 4 ip (hips ip hip)])]

/-! ### Ethernet, IPv4 -/

theorem PVLAN.bytes_length (v : V) (b : Bytes) (h : PVLAN.bytes v = .ok b) : b.length = 4 := by
  unfold PVLAN.bytes at h
  split at h
  · cases h; rfl
  · exact absurd h (by simp)

/-- the 20 fixed bytes of an IPv4 header as the encoder writes them (addresses through To4(), each in a 4-byte window) -/
def ipv4Header (ver : Nat) (ihl : UInt8) (dscp ecn ln ident fl fo ttl pr cs : Nat) (src dst : Bytes) : Bytes :=
  [PIPv4.packVerIHL (n8 ver) ihl, PIPv4.packDscpEcn (n8 dscp) (n8 ecn)] ++ be16 (n16 ln) ++ be16 (n16 ident)
    ++ be16 (PIPv4.packFlagsFrag (n16 fl) (n16 fo)) ++ [n8 ttl, n8 pr] ++ be16 (n16 cs)
    ++ pFitTo 4 (pIpTo4 src) ++ pFitTo 4 (pIpTo4 dst)

theorem ipv4Header_length (ver : Nat) (ihl : UInt8) (dscp ecn ln ident fl fo ttl pr cs : Nat) (src dst : Bytes) :
    (ipv4Header ver ihl dscp ecn ln ident fl fo ttl pr cs src dst).length = 20 := by
  simp [ipv4Header, pFitTo_length]

/-- the piece list of the IPv4 encoder up to and including the options -/
def ipv4Pre (ver : Nat) (ihl : UInt8) (dscp ecn ln ident fl fo ttl pr cs : Nat) (src dst ob : Bytes) : List Piece :=
  [Piece.put [PIPv4.packVerIHL (n8 ver) ihl], .put [PIPv4.packDscpEcn (n8 dscp) (n8 ecn)], pU16 ln, pU16 ident,
    .put (be16 (PIPv4.packFlagsFrag (n16 fl) (n16 fo))), pU8 ttl, pU8 pr, pU16 cs,
    pCopyAdv (pIpTo4 src) 4, pCopyAdv (pIpTo4 dst) 4, pCopy ob]

theorem ipv4_pre (ver : Nat) (ihl : UInt8) (dscp ecn ln ident fl fo ttl pr cs : Nat) (src dst ob : Bytes) :
    piecesBytes (ipv4Pre ver ihl dscp ecn ln ident fl fo ttl pr cs src dst ob)
      = ipv4Header ver ihl dscp ecn ln ident fl fo ttl pr cs src dst ++ ob ∧
    (∀ p ∈ ipv4Pre ver ihl dscp ecn ln ident fl fo ttl pr cs src dst ob, p.Tight) ∧
      piecesLen (ipv4Pre ver ihl dscp ecn ln ident fl fo ttl pr cs src dst ob) = 20 + ob.length := by
  refine ⟨?_, ?_, ?_⟩
  · simp [ipv4Pre, piecesBytes, Piece.bytes, pU8, pU16, pCopyAdv, pCopy, ipv4Header, pFitTo]
  · intro p hp
    simp only [ipv4Pre, List.mem_cons, List.not_mem_nil, or_false] at hp
    rcases hp with rfl | rfl | rfl | rfl | rfl | rfl | rfl | rfl | rfl | rfl | rfl
    all_goals first | trivial | exact pIpTo4_length_le _
  · simp [ipv4Pre, piecesLen, Piece.adv, pU8, pU16, pCopyAdv, pCopy]; omega

/-- the condition in the familiar form: 5 ≤ IHL ≤ 15 (it is a 4-bit field) and IHL·4 = 20 + |options| -/
theorem ipv4_hdrLen_of (ihl n : Nat) (h5 : 5 ≤ ihl) (h15 : ihl ≤ 63) (h : ihl * 4 = 20 + n) :
    (PIPv4.hdrLen (PIPv4.fixIHL (n8 ihl))).toNat = 20 + n := by
  have e : (n8 ihl).toNat = ihl := by simp [n8]; omega
  have hfix : PIPv4.fixIHL (n8 ihl) = n8 ihl := by
    unfold PIPv4.fixIHL
    rw [if_neg]
    rw [UInt8.lt_iff_toNat_lt, e]
    show ¬ ihl < 5
    omega
  rw [hfix]
  unfold PIPv4.hdrLen
  rw [UInt8.toNat_toUInt16, UInt8.toNat_mul, e]
  show ihl * 4 % 2 ^ 8 = _
  omega
/-! ### IPv6 -/

/-- the 40 fixed bytes of an IPv6 header as the encoder writes them (each address in a 16-byte window) -/
def ipv6Header (ver tc fl ln nh hl : Nat) (src dst : Bytes) : Bytes :=
  [PIPv6.packB0 (n8 ver) (n8 tc), PIPv6.packB1 (n8 tc) (n32 fl)] ++ be16 (PIPv6.packLo (n32 fl)) ++ be16 (n16 ln)
    ++ [n8 nh, n8 hl] ++ pFitTo 16 src ++ pFitTo 16 dst

theorem ipv6Header_length (ver tc fl ln nh hl : Nat) (src dst : Bytes) :
    (ipv6Header ver tc fl ln nh hl src dst).length = 40 := by
  simp [ipv6Header, pFitTo_length]

def ipv6Pre (ver tc fl ln nh hl : Nat) (src dst : Bytes) : List Piece :=
  [.put [PIPv6.packB0 (n8 ver) (n8 tc)], .put [PIPv6.packB1 (n8 tc) (n32 fl)], .put (be16 (PIPv6.packLo (n32 fl))), pU16 ln,
    pU8 nh, pU8 hl, pCopyAdv src 16, pCopyAdv dst 16]

theorem ipv6_pre (ver tc fl ln nh hl : Nat) (src dst : Bytes) (hs : src.length ≤ 16) (hd : dst.length ≤ 16) :
    piecesBytes (ipv6Pre ver tc fl ln nh hl src dst) = ipv6Header ver tc fl ln nh hl src dst ∧
    (∀ p ∈ ipv6Pre ver tc fl ln nh hl src dst, p.Tight) ∧ piecesLen (ipv6Pre ver tc fl ln nh hl src dst) = 40 := by
  refine ⟨?_, ?_, ?_⟩
  · simp [ipv6Pre, piecesBytes, Piece.bytes, pU8, pU16, pCopyAdv, ipv6Header, pFitTo]
  · intro p hp
    simp only [ipv6Pre, List.mem_cons, List.not_mem_nil, or_false] at hp
    rcases hp with rfl | rfl | rfl | rfl | rfl | rfl | rfl | rfl
    all_goals first | trivial | exact hs | exact hd
  · simp [ipv6Pre, piecesLen, Piece.adv, pU8, pU16, pCopyAdv]

/-- every entry of the encoder's chain is the encoding of one of the three extension headers of the value -/
theorem extChain_mem (hbh rt fr : V) : ∀ (f : Nat) (nxt : UInt8) (chain : List Bytes),
    PIPv6.extChain hbh rt fr f nxt = .ok chain →
    ∀ c ∈ chain, PHopByHop.marshalM hbh = .ok (c, hbh) ∨ PRouting.marshalM rt = .ok (c, rt) ∨ PFragment.marshalM fr = .ok (c, fr) := by
  intro f
  induction f with
  | zero => intro nxt chain h; exact absurd h (by simp [PIPv6.extChain])
  | succ f ih =>
    intro nxt chain h c hc
    unfold PIPv6.extChain at h
    split at h
    · obtain ⟨nx, _, h⟩ := bind_ok_inv _ _ _ h
      obtain ⟨b, hb, h⟩ := bind_ok_inv _ _ _ h
      obtain ⟨rest, hrest, h⟩ := bind_ok_inv _ _ _ h
      cases h
      simp only [List.mem_cons] at hc
      rcases hc with rfl | hc
      · left; simp [PHopByHop.marshalM, hb, same]
      · exact ih nx rest hrest c hc
    · split at h
      · obtain ⟨nx, _, h⟩ := bind_ok_inv _ _ _ h
        obtain ⟨b, hb, h⟩ := bind_ok_inv _ _ _ h
        obtain ⟨rest, hrest, h⟩ := bind_ok_inv _ _ _ h
        cases h
        simp only [List.mem_cons] at hc
        rcases hc with rfl | hc
        · right; left; simp [PRouting.marshalM, hb, same]
        · exact ih nx rest hrest c hc
      · split at h
        · obtain ⟨nx, _, h⟩ := bind_ok_inv _ _ _ h
          obtain ⟨b, hb, h⟩ := bind_ok_inv _ _ _ h
          obtain ⟨rest, hrest, h⟩ := bind_ok_inv _ _ _ h
          cases h
          simp only [List.mem_cons] at hc
          rcases hc with rfl | hc
          · right; right; simp [PFragment.marshalM, hb, same]
          · exact ih nx rest hrest c hc
        · cases h; exact absurd hc (by simp)

theorem extChain_succ (hbh rt fr : V) (f : Nat) (nxt : UInt8) :
    PIPv6.extChain hbh rt fr (f + 1) nxt =
      if nxt.toNat = Gen.protocol.Type_HBH then
        (PHopByHop.nextHeader hbh >>= fun nx => PHopByHop.bytes hbh >>= fun b =>
          PIPv6.extChain hbh rt fr f nx >>= fun rest => pure (b :: rest))
      else if nxt.toNat = Gen.protocol.Type_Routing then
        (PRouting.nextHeader rt >>= fun nx => PRouting.bytes rt >>= fun b =>
          PIPv6.extChain hbh rt fr f nx >>= fun rest => pure (b :: rest))
      else if nxt.toNat = Gen.protocol.Type_Fragment then
        (PFragment.nextHeader fr >>= fun nx => PFragment.bytes fr >>= fun b =>
          PIPv6.extChain hbh rt fr f nx >>= fun rest => pure (b :: rest))
      else .ok [] := rfl

/-- more fuel does not change the chain -/
theorem extChain_mono (hbh rt fr : V) : ∀ (f : Nat) (nxt : UInt8) (chain : List Bytes),
    PIPv6.extChain hbh rt fr f nxt = .ok chain → PIPv6.extChain hbh rt fr (f + 1) nxt = .ok chain := by
  intro f
  induction f with
  | zero => intro nxt chain h; exact absurd h (by simp [PIPv6.extChain])
  | succ f ih =>
    intro nxt chain h
    rw [extChain_succ] at h ⊢
    split at h
    · rename_i c1
      rw [if_pos c1]
      obtain ⟨nx, hnx, h⟩ := bind_ok_inv _ _ _ h
      obtain ⟨b, hb, h⟩ := bind_ok_inv _ _ _ h
      obtain ⟨rest, hrest, h⟩ := bind_ok_inv _ _ _ h
      simp only [hnx, hb, Res.bind_ok, ih nx rest hrest]
      exact h
    · rename_i c1
      rw [if_neg c1]
      split at h
      · rename_i c2
        rw [if_pos c2]
        obtain ⟨nx, hnx, h⟩ := bind_ok_inv _ _ _ h
        obtain ⟨b, hb, h⟩ := bind_ok_inv _ _ _ h
        obtain ⟨rest, hrest, h⟩ := bind_ok_inv _ _ _ h
        simp only [hnx, hb, Res.bind_ok, ih nx rest hrest]
        exact h
      · rename_i c2
        rw [if_neg c2]
        split at h
        · rename_i c3
          rw [if_pos c3]
          obtain ⟨nx, hnx, h⟩ := bind_ok_inv _ _ _ h
          obtain ⟨b, hb, h⟩ := bind_ok_inv _ _ _ h
          obtain ⟨rest, hrest, h⟩ := bind_ok_inv _ _ _ h
          simp only [hnx, hb, Res.bind_ok, ih nx rest hrest]
          exact h
        · rename_i c3
          rw [if_neg c3]
          exact h

theorem extChain_mono' (hbh rt fr : V) (f : Nat) (nxt : UInt8) (chain : List Bytes)
    (h : PIPv6.extChain hbh rt fr f nxt = .ok chain) : ∀ k, PIPv6.extChain hbh rt fr (f + k) nxt = .ok chain := by
  intro k
  induction k with
  | zero => exact h
  | succ k ih => exact extChain_mono hbh rt fr (f + k) nxt chain ih

/-- the chain does not depend on the fuel -/
theorem extChain_agree (hbh rt fr : V) (f1 f2 : Nat) (nxt : UInt8) (c1 c2 : List Bytes)
    (h1 : PIPv6.extChain hbh rt fr f1 nxt = .ok c1) (h2 : PIPv6.extChain hbh rt fr f2 nxt = .ok c2) : c1 = c2 := by
  have a := extChain_mono' hbh rt fr f1 nxt c1 h1 f2
  have b := extChain_mono' hbh rt fr f2 nxt c2 h2 f1
  rw [Nat.add_comm] at b
  rw [a] at b
  cases b; rfl

theorem optLen_hbh_le (hbh : V) (l : UInt16) (h : PIPv6.optLen PHopByHop.len hbh = .ok l) : l.toNat ≤ 2048 := by
  unfold PIPv6.optLen at h
  split at h
  · cases h; decide
  · unfold PHopByHop.len at h
    split at h
    · cases h
      unfold Gen.protocol.HopByHopHeader.Len
      rw [ext_len_toNat]
      exact (fun x : UInt8 => by have := x.toNat_lt; omega : ∀ x : UInt8, 8 * (x.toNat + 1) ≤ 2048) _
    · exact absurd h (by simp)

theorem optLen_rt_le (rt : V) (l : UInt16) (h : PIPv6.optLen PRouting.len rt = .ok l) : l.toNat ≤ 2048 := by
  unfold PIPv6.optLen at h
  split at h
  · cases h; decide
  · unfold PRouting.len at h
    split at h
    · cases h
      unfold Gen.protocol.RoutingHeader.Len
      rw [ext_len_toNat]
      exact (fun x : UInt8 => by have := x.toNat_lt; omega : ∀ x : UInt8, 8 * (x.toNat + 1) ≤ 2048) _
    · exact absurd h (by simp)

theorem optLen_fr_le (fr : V) (l : UInt16) (h : PIPv6.optLen PFragment.len fr = .ok l) : l.toNat ≤ 8 := by
  unfold PIPv6.optLen at h
  split at h
  · cases h; decide
  · unfold PFragment.len at h
    split at h
    · cases h; exact Nat.le_refl 8
    · exact absurd h (by simp)

/-- a next-header value that names no extension header ends the chain -/
theorem extChain_plain (hbh rt fr : V) (f : Nat) (nxt : UInt8) (h0 : nxt.toNat ≠ 0) (h43 : nxt.toNat ≠ 43)
    (h44 : nxt.toNat ≠ 44) : PIPv6.extChain hbh rt fr (f + 1) nxt = .ok [] := by
  have a0 : ¬ nxt.toNat = Gen.protocol.Type_HBH := h0
  have a43 : ¬ nxt.toNat = Gen.protocol.Type_Routing := h43
  have a44 : ¬ nxt.toNat = Gen.protocol.Type_Fragment := h44
  rw [extChain_succ, if_neg a0, if_neg a43, if_neg a44]

/-- the canonical order hop-by-hop → routing → fragment → payload -/
theorem extChain_hbh_rt_fr_inv (hbh rt fr : V) (f : Nat) (x : UInt8) (chain : List Bytes)
    (h : PIPv6.extChain hbh rt fr f 0 = .ok chain)
    (n1 : PHopByHop.nextHeader hbh = .ok 43) (n2 : PRouting.nextHeader rt = .ok 44) (n3 : PFragment.nextHeader fr = .ok x)
    (h0 : x.toNat ≠ 0) (h43 : x.toNat ≠ 43) (h44 : x.toNat ≠ 44) :
    ∃ hb rb fb, PHopByHop.bytes hbh = .ok hb ∧ PRouting.bytes rt = .ok rb ∧ PFragment.bytes fr = .ok fb ∧
      chain = [hb, rb, fb] := by
  cases f with
  | zero => exact absurd h (by simp [PIPv6.extChain])
  | succ f =>
  rw [extChain_succ, if_pos (by decide), n1] at h
  simp only [Res.bind_ok] at h
  obtain ⟨hb, hhb, h⟩ := bind_ok_inv _ _ _ h
  obtain ⟨r1, hr1, h⟩ := bind_ok_inv _ _ _ h
  cases h
  cases f with
  | zero => exact absurd hr1 (by simp [PIPv6.extChain])
  | succ f =>
  rw [extChain_succ, if_neg (by decide), if_pos (by decide), n2] at hr1
  simp only [Res.bind_ok] at hr1
  obtain ⟨rb, hrb, hr1⟩ := bind_ok_inv _ _ _ hr1
  obtain ⟨r2, hr2, hr1⟩ := bind_ok_inv _ _ _ hr1
  cases hr1
  cases f with
  | zero => exact absurd hr2 (by simp [PIPv6.extChain])
  | succ f =>
  rw [extChain_succ, if_neg (by decide), if_neg (by decide), if_pos (by decide), n3] at hr2
  simp only [Res.bind_ok] at hr2
  obtain ⟨fb, hfb, hr2⟩ := bind_ok_inv _ _ _ hr2
  obtain ⟨r3, hr3, hr2⟩ := bind_ok_inv _ _ _ hr2
  cases hr2
  cases f with
  | zero => exact absurd hr3 (by simp [PIPv6.extChain])
  | succ f =>
  rw [extChain_plain hbh rt fr f x h0 h43 h44] at hr3
  cases hr3
  exact ⟨hb, rb, fb, hhb, hrb, hfb, rfl⟩

theorem optLen_of_nextHeader_hbh (hbh : V) (x : UInt8) (h : PHopByHop.nextHeader hbh = .ok x) :
    PIPv6.optLen PHopByHop.len hbh = PHopByHop.len hbh := by
  unfold PHopByHop.nextHeader at h
  split at h
  · rfl
  · exact absurd h (by simp)
theorem optLen_of_nextHeader_rt (rt : V) (x : UInt8) (h : PRouting.nextHeader rt = .ok x) :
    PIPv6.optLen PRouting.len rt = PRouting.len rt := by
  unfold PRouting.nextHeader at h
  split at h
  · rfl
  · exact absurd h (by simp)
theorem optLen_of_nextHeader_fr (fr : V) (x : UInt8) (h : PFragment.nextHeader fr = .ok x) :
    PIPv6.optLen PFragment.len fr = PFragment.len fr := by
  unfold PFragment.nextHeader at h
  split at h
  · rfl
  · exact absurd h (by simp)

/-! ### DHCP, LLDP -/

/-- a function returning plain bytes, applied to every element -/
def mapR (f : V → R Bytes) : List V → R (List Bytes)
  | [] => .ok []
  | x :: xs => do
    let b ← f x
    let r ← mapR f xs
    pure (b :: r)

theorem optBytes_eq : ∀ (os : List V) (ob : Bytes), PDHCP.optBytes os = .ok ob →
    ∃ obs, mapR PDhcpOpt.marshalOption os = .ok obs ∧ ob = obs.flatten := by
  intro os
  induction os with
  | nil => intro ob h; simp only [PDHCP.optBytes] at h; cases h; exact ⟨[], rfl, rfl⟩
  | cons o os ih =>
    intro ob h
    simp only [PDHCP.optBytes] at h
    obtain ⟨b, hb, h⟩ := bind_ok_inv _ _ _ h
    obtain ⟨r, hr, h⟩ := bind_ok_inv _ _ _ h
    cases h
    obtain ⟨obs, he, rfl⟩ := ih r hr
    exact ⟨b :: obs, by simp only [mapR, hb, Res.bind_ok, he, Res.pure_eq], by simp⟩

/-- the fixed 240 bytes of a DHCP message as Read assembles them (each address in its 4-byte wire form `PDHCP.ip4`) -/
def dhcpHeader (op ht hl ho xid secs fl : Nat) (cip yip sip gip hw sname file : Bytes) : Bytes :=
  [n8 op, n8 ht, n8 hl, n8 ho] ++ be32 (n32 xid) ++ be16 (n16 secs) ++ be16 (n16 fl)
    ++ PDHCP.ip4 cip ++ PDHCP.ip4 yip ++ PDHCP.ip4 sip ++ PDHCP.ip4 gip ++ copyInto (zeros 16) hw ++ pFitTo 64 sname
    ++ pFitTo 128 file ++ be32 PDHCP.magic

theorem ip4_length (ip : Bytes) : (PDHCP.ip4 ip).length = 4 := by
  simp [PDHCP.ip4, copyInto_length]

/-- a 4-byte address is written as it is -/
theorem ip4_of_len4 (ip : Bytes) (h : ip.length = 4) : PDHCP.ip4 ip = ip := by
  have hz : List.drop 4 (zeros 4) = [] := rfl
  simp only [PDHCP.ip4, pIpTo4_of_len4 ip h, copyInto, h, zeros_length, hz, List.append_nil]
  exact List.take_of_length_le (by omega)

theorem dhcpHeader_length (op ht hl ho xid secs fl : Nat) (cip yip sip gip hw sname file : Bytes) :
    (dhcpHeader op ht hl ho xid secs fl cip yip sip gip hw sname file).length = 240 := by
  simp [dhcpHeader, pFitTo_length, copyInto_length, ip4_length]

/-- one DHCP option: when Len() and the encoder both succeed the encoding has Len() bytes (a pad / end option is its
    lone tag byte; any other option only encodes with at most 253 data bytes, so `uint16(len + 2)` is exact) -/
theorem dhcp_opt_size (o : V) (l : UInt16) (b : Bytes) (hl : PDhcpOpt.len o = .ok l)
    (hb : PDhcpOpt.marshalOption o = .ok b) : b.length = l.toNat := by
  simp only [PDhcpOpt.marshalOption] at hb
  obtain ⟨t, ht, hb⟩ := bind_ok_inv _ _ _ hb
  simp only [PDhcpOpt.len, ht, Res.bind_ok] at hl
  obtain ⟨d, hd, hl⟩ := bind_ok_inv _ _ _ hl
  cases hpe : PDhcpOpt.isPadOrEnd t with
  | true =>
    rw [hpe] at hb hl
    simp only [if_true] at hb hl
    cases hb; cases hl; rfl
  | false =>
    rw [hpe] at hb hl
    simp only [Bool.false_eq_true, if_false] at hb hl
    rw [hd] at hb
    simp only [Res.bind_ok] at hb
    split at hb
    · exact absurd hb (by simp)
    · rename_i hd253
      cases hb; cases hl
      have : (n16 (d.length + 2)).toNat = d.length + 2 := by
        simp only [n16, UInt16.toNat_ofNat']
        omega
      rw [this]
      simp only [List.length_append, List.length_cons, List.length_nil]
      omega

/-- EVERY option list: the options' encodings are, one by one and in total, as long as the options' Len() says -/
theorem dhcp_opts_size : ∀ (os : List V) (ls : List UInt16) (obs : List Bytes),
    PDHCP.optLens os = .ok ls → mapR PDhcpOpt.marshalOption os = .ok obs →
    obs.map List.length = ls.map UInt16.toNat ∧ obs.flatten.length = (ls.map UInt16.toNat).sum := by
  intro os
  induction os with
  | nil =>
    intro ls obs h1 h2
    simp only [PDHCP.optLens] at h1; simp only [mapR] at h2
    cases h1; cases h2; exact ⟨rfl, rfl⟩
  | cons o os ih =>
    intro ls obs h1 h2
    simp only [PDHCP.optLens] at h1
    simp only [mapR] at h2
    obtain ⟨l, hl, h1⟩ := bind_ok_inv _ _ _ h1
    obtain ⟨ls', hls', h1⟩ := bind_ok_inv _ _ _ h1
    cases h1
    obtain ⟨b, hb, h2⟩ := bind_ok_inv _ _ _ h2
    obtain ⟨obs', hobs', h2⟩ := bind_ok_inv _ _ _ h2
    cases h2
    obtain ⟨hmap, hsum⟩ := ih ls' obs' hls' hobs'
    have hbl := dhcp_opt_size o l b hl hb
    constructor
    · simp [hmap, hbl]
    · simp [hsum, hbl]

theorem tlv_readBuf_length (kind : String) (v : V) (b : Bytes) (h : PTLV.readBuf kind v = .ok b) : 3 ≤ b.length := by
  unfold PTLV.readBuf at h
  split at h
  · split at h
    · cases h; simp; omega
    · exact absurd h (by simp)
  · exact absurd h (by simp)

theorem copyInto_take (dst src : Bytes) (h : src.length ≤ dst.length) : (copyInto dst src).take src.length = src := by
  unfold copyInto
  rw [List.take_of_length_le h]
  simp

theorem copyInto_fits (dst src : Bytes) (h : src.length ≤ dst.length) : copyInto dst src = src ++ dst.drop src.length := by
  unfold copyInto
  rw [List.take_of_length_le h]

theorem take_app2 (a b t : Bytes) : (a ++ (b ++ t)).take (a.length + b.length) = a ++ b := by
  rw [← List.append_assoc]
  have : (a ++ b).length = a.length + b.length := by simp
  rw [← this, List.take_left]

theorem drop_app2 (a b t : Bytes) : (a ++ (b ++ t)).drop (a.length + b.length) = t := by
  rw [← List.append_assoc]
  have : (a ++ b).length = a.length + b.length := by simp
  rw [← this, List.drop_left]

theorem tlv_readBuf_shape (kind : String) (v : V) (b : Bytes) (h : PTLV.readBuf kind v = .ok b) :
    ∃ ty ln st d, v = .obj kind [.num ty, .num ln, .num st, .bytes d] ∧
      b = be16 (PTLV.packTypeLen (n8 ty) (n16 ln)) ++ [n8 st] ++ d ∧ b.length = 3 + d.length := by
  unfold PTLV.readBuf at h
  split at h
  · split at h
    · rename_i hk
      cases h; subst hk
      exact ⟨_, _, _, _, rfl, rfl, by simp; omega⟩
    · exact absurd h (by simp)
  · exact absurd h (by simp)

theorem ttl_readBuf_shape (v : V) (b : Bytes) (h : PTLV.ttlReadBuf v = .ok b) :
    ∃ ty ln secs, v = .obj "p.TTLTLV" [.num ty, .num ln, .num secs] ∧
      b = be16 (PTLV.packTypeLen (n8 ty) (n16 ln)) ++ be16 (n16 secs) ∧ b.length = 4 := by
  unfold PTLV.ttlReadBuf at h
  split at h
  · cases h; exact ⟨_, _, _, rfl, rfl, rfl⟩
  · exact absurd h (by simp)

/-- LLDP.Read into a buffer that can hold the three TLVs: they are written one behind the other, nothing else of the
    buffer changes, and the count is the sum of the three sizes -/
theorem lldp_read_eq (ch pt ttl : V) (cb pb tb b : Bytes)
    (hcb : PTLV.readBuf "p.ChassisTLV" ch = .ok cb) (hpb : PTLV.readBuf "p.PortTLV" pt = .ok pb)
    (htb : PTLV.ttlReadBuf ttl = .ok tb) (hfit : cb.length + pb.length + tb.length ≤ b.length) :
    PLLDP.read (.obj "p.LLDP" [ch, pt, ttl]) b
      = .ok (cb ++ pb ++ tb ++ b.drop (cb.length + pb.length + tb.length), cb.length + pb.length + tb.length) := by
  have c3 := tlv_readBuf_length _ _ _ hcb
  have p3 := tlv_readBuf_length _ _ _ hpb
  simp only [PLLDP.read, hcb, hpb, htb, Res.bind_ok]
  have hm : min b.length cb.length = cb.length := Nat.min_eq_right (by omega)
  have ho : min (b.length - cb.length) pb.length = pb.length := Nat.min_eq_right (by omega)
  have hp : min (b.length - (cb.length + pb.length)) tb.length = tb.length := Nat.min_eq_right (by omega)
  rw [hm, ho, hp, if_neg (by omega), if_neg (by omega)]
  rw [copyInto_fits b cb (by omega)]
  have e1 : (cb ++ b.drop cb.length).take cb.length = cb := by simp
  have e2 : (cb ++ b.drop cb.length).drop cb.length = b.drop cb.length := by simp
  rw [e1, e2, copyInto_fits _ pb (by simp; omega)]
  rw [take_app2, drop_app2, copyInto_fits _ tb (by simp; omega), List.drop_drop, List.drop_drop]
  simp [List.append_assoc, Nat.add_assoc]

/-- LLDP.Len(): the sum of the three TLV sizes, in uint16; the receiver is unchanged -/
theorem lldp_len_mod (ch pt ttl : V) (l : UInt16) (v1 : V) (cb pb tb : Bytes)
    (h1 : PLLDP.lenM (.obj "p.LLDP" [ch, pt, ttl]) = .ok (l, v1))
    (hcb : PTLV.readBuf "p.ChassisTLV" ch = .ok cb) (hpb : PTLV.readBuf "p.PortTLV" pt = .ok pb)
    (htb : PTLV.ttlReadBuf ttl = .ok tb) :
    v1 = .obj "p.LLDP" [ch, pt, ttl] ∧ l.toNat = (cb.length + pb.length + tb.length) % 65536 := by
  obtain ⟨cty, cln, cst, cd, ec, _, lc⟩ := tlv_readBuf_shape _ _ _ hcb
  obtain ⟨pty, pln, pst, pd, ep, _, lp⟩ := tlv_readBuf_shape _ _ _ hpb
  obtain ⟨_, _, _, _, _, lt⟩ := ttl_readBuf_shape _ _ htb
  subst ec; subst ep
  simp only [PLLDP.lenM] at h1
  obtain ⟨e1, e2⟩ := same_ok _ _ _ _ h1
  subst e1; subst e2
  refine ⟨rfl, ?_⟩
  rw [lc, lp, lt, UInt16.toNat_add, UInt16.toNat_add]
  simp only [n16, UInt16.toNat_ofNat']
  show (((3 + cd.length) % 2 ^ 16 + (3 + pd.length) % 2 ^ 16) % 2 ^ 16 + 4) % 2 ^ 16 = _
  omega

/-- Len() of every element of a list, in order -/
def lenAll (L : V → R (UInt16 × V)) : List V → R (List UInt16)
  | [] => .ok []
  | x :: xs => do
    let (l, _) ← L x
    let r ← lenAll L xs
    pure (l :: r)

/-- the encodings of a list of IPv6 options are, one by one, as long as the options' Len() says -/
theorem option_encAll_lens : ∀ (os : List V) (obs : List Bytes), encAll POption.marshalM os = .ok obs →
    ∃ ls, lenAll POption.lenM os = .ok ls ∧ obs.map List.length = ls.map UInt16.toNat ∧
      obs.flatten.length = (ls.map UInt16.toNat).sum := by
  intro os
  induction os with
  | nil => intro obs h; simp only [encAll] at h; cases h; exact ⟨[], rfl, rfl, rfl⟩
  | cons o os ih =>
    intro obs h
    simp only [encAll] at h
    obtain ⟨⟨b, o'⟩, hb, h⟩ := bind_ok_inv _ _ _ h
    obtain ⟨r, hr, h⟩ := bind_ok_inv _ _ _ h
    cases h
    obtain ⟨ls, hls, hmap, hsum⟩ := ih r hr
    simp only [POption.marshalM] at hb
    obtain ⟨b', hb', hb⟩ := bind_ok_inv _ _ _ hb
    obtain ⟨e, _⟩ := same_ok _ _ _ _ hb
    subst e
    obtain ⟨l, hl, hbl⟩ := POption.bytes_len o b hb'
    refine ⟨l :: ls, ?_, ?_, ?_⟩
    · simp only [lenAll, POption.lenM, hl, Res.bind_ok, same, hls, Res.pure_eq]
    · simp [hmap, hbl]
    · simp [hsum, hbl]

/-! ### the interface dispatch -/

/-- the `util.Message` dispatch of package protocol, as an elimination rule: whatever holds of every arm's pair of
    functions (given the dynamic type that selects the arm) and of the failing default holds of the pair the dispatch
    selects for `v` -/
theorem protoAny_elim (d : Nat) (v : V) (C : (V → R (UInt16 × V)) → (V → R (Bytes × V)) → Prop)
    (h1 : v.kind = "p.Ethernet" → C (PEthernet.lenW (protoAnyLenD d)) (PEthernet.marshalW (protoAnyLenD d) (protoAnyMarshalD d)))
    (h2 : v.kind = "p.IPv4" → C (PIPv4.lenW (protoAnyLenD d)) (PIPv4.marshalW (protoAnyLenD d) (protoAnyMarshalD d)))
    (h3 : v.kind = "p.IPv6" → C (PIPv6.lenW (protoAnyLenD d)) (PIPv6.marshalW (protoAnyLenD d) (protoAnyMarshalD d)))
    (h4 : v.kind = "u.Buffer" → C UBuffer.lenM UBuffer.marshalM)
    (h5 : v.kind = "p.VLAN" → C PVLAN.lenM PVLAN.marshalM)
    (h6 : v.kind = "p.ARP" → C PARP.lenM PARP.marshalM)
    (h7 : v.kind = "p.ICMP" → C PICMP.lenM PICMP.marshalM)
    (h8 : v.kind = "p.TCP" → C PTCP.lenM PTCP.marshalM)
    (h9 : v.kind = "p.UDP" → C PUDP.lenM PUDP.marshalM)
    (h10 : v.kind = "p.IGMPv1or2" → C PIGMPv1or2.lenM PIGMPv1or2.marshalM)
    (h11 : v.kind = "p.IGMPv3Query" → C PIGMPv3Query.lenM PIGMPv3Query.marshalM)
    (h12 : v.kind = "p.IGMPv3GroupRecord" → C PIGMPv3GroupRecord.lenM PIGMPv3GroupRecord.marshalM)
    (h13 : v.kind = "p.IGMPv3MembershipReport" → C PIGMPv3MembershipReport.lenM PIGMPv3MembershipReport.marshalM)
    (h14 : v.kind = "p.Option" → C POption.lenM POption.marshalM)
    (h15 : v.kind = "p.HopByHopHeader" → C PHopByHop.lenM PHopByHop.marshalM)
    (h16 : v.kind = "p.RoutingHeader" → C PRouting.lenM PRouting.marshalM)
    (h17 : v.kind = "p.FragmentHeader" → C PFragment.lenM PFragment.marshalM)
    (h0 : C (fun _ => .panic) (fun _ => .panic)) :
    ∃ L' M', protoAnyLenD (d + 1) v = L' v ∧ protoAnyMarshalD (d + 1) v = M' v ∧ C L' M' := by
  by_cases k1 : v.kind = "p.Ethernet"
  · exact ⟨_, _, by unfold protoAnyLenD; simp only [k1], by unfold protoAnyMarshalD; simp only [k1], h1 k1⟩
  by_cases k2 : v.kind = "p.IPv4"
  · exact ⟨_, _, by unfold protoAnyLenD; simp only [k2], by unfold protoAnyMarshalD; simp only [k2], h2 k2⟩
  by_cases k3 : v.kind = "p.IPv6"
  · exact ⟨_, _, by unfold protoAnyLenD; simp only [k3], by unfold protoAnyMarshalD; simp only [k3], h3 k3⟩
  by_cases k4 : v.kind = "u.Buffer"
  · exact ⟨_, _, by unfold protoAnyLenD; simp only [k4], by unfold protoAnyMarshalD; simp only [k4], h4 k4⟩
  by_cases k5 : v.kind = "p.VLAN"
  · exact ⟨_, _, by unfold protoAnyLenD; simp only [k5], by unfold protoAnyMarshalD; simp only [k5], h5 k5⟩
  by_cases k6 : v.kind = "p.ARP"
  · exact ⟨_, _, by unfold protoAnyLenD; simp only [k6], by unfold protoAnyMarshalD; simp only [k6], h6 k6⟩
  by_cases k7 : v.kind = "p.ICMP"
  · exact ⟨_, _, by unfold protoAnyLenD; simp only [k7], by unfold protoAnyMarshalD; simp only [k7], h7 k7⟩
  by_cases k8 : v.kind = "p.TCP"
  · exact ⟨_, _, by unfold protoAnyLenD; simp only [k8], by unfold protoAnyMarshalD; simp only [k8], h8 k8⟩
  by_cases k9 : v.kind = "p.UDP"
  · exact ⟨_, _, by unfold protoAnyLenD; simp only [k9], by unfold protoAnyMarshalD; simp only [k9], h9 k9⟩
  by_cases k10 : v.kind = "p.IGMPv1or2"
  · exact ⟨_, _, by unfold protoAnyLenD; simp only [k10], by unfold protoAnyMarshalD; simp only [k10], h10 k10⟩
  by_cases k11 : v.kind = "p.IGMPv3Query"
  · exact ⟨_, _, by unfold protoAnyLenD; simp only [k11], by unfold protoAnyMarshalD; simp only [k11], h11 k11⟩
  by_cases k12 : v.kind = "p.IGMPv3GroupRecord"
  · exact ⟨_, _, by unfold protoAnyLenD; simp only [k12], by unfold protoAnyMarshalD; simp only [k12], h12 k12⟩
  by_cases k13 : v.kind = "p.IGMPv3MembershipReport"
  · exact ⟨_, _, by unfold protoAnyLenD; simp only [k13], by unfold protoAnyMarshalD; simp only [k13], h13 k13⟩
  by_cases k14 : v.kind = "p.Option"
  · exact ⟨_, _, by unfold protoAnyLenD; simp only [k14], by unfold protoAnyMarshalD; simp only [k14], h14 k14⟩
  by_cases k15 : v.kind = "p.HopByHopHeader"
  · exact ⟨_, _, by unfold protoAnyLenD; simp only [k15], by unfold protoAnyMarshalD; simp only [k15], h15 k15⟩
  by_cases k16 : v.kind = "p.RoutingHeader"
  · exact ⟨_, _, by unfold protoAnyLenD; simp only [k16], by unfold protoAnyMarshalD; simp only [k16], h16 k16⟩
  by_cases k17 : v.kind = "p.FragmentHeader"
  · exact ⟨_, _, by unfold protoAnyLenD; simp only [k17], by unfold protoAnyMarshalD; simp only [k17], h17 k17⟩
  refine ⟨_, _, ?_, ?_, h0⟩
  · unfold protoAnyLenD
    split <;> first | contradiction | rfl
  · unfold protoAnyMarshalD
    split <;> first | contradiction | rfl

end OFV.SizeP
