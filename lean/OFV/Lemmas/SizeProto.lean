/-
  OFV.Lemmas.SizeProto — helper lemmas for Props/C06c (size = bytes and children intact for the packet headers of
  package protocol):
    * `encAll M xs`          : the encodings of a list of children, in order;
    * `K.bytes_len`          : the encoders of the children that containers embed return as many bytes as the
                               child's Len() says;
    * `optPieces_enc`, `recPieces_enc` : the pieces a container's loop writes are the children's own encodings;
    * `protoAny_elim`        : the `util.Message` dispatch as an elimination rule (one `by_cases` chain for all uses).
-/
import OFV.Model.All
import OFV.Lemmas.Size
import OFV.Lemmas.SizeTac
import OFV.Lemmas.SizeList
import OFV.Lemmas.SizeProtoFill
import OFV.Lemmas.RepProto
namespace OFV.SizeP
open OFV OFV.Go OFV.Model

/-- MarshalBinary() of every element of a list, in order: the list of the encodings -/
def encAll (M : V → R (Bytes × V)) : List V → R (List Bytes)
  | [] => .ok []
  | x :: xs => do
    let (b, _) ← M x
    let r ← encAll M xs
    pure (b :: r)

/-! ### sizes of the children that containers of package protocol embed -/

theorem POption.bytes_len (o : V) (b : Bytes) (h : POption.bytes o = .ok b) :
    ∃ l, POption.len o = .ok l ∧ b.length = l.toNat := by
  unfold POption.bytes at h
  split at h
  · obtain ⟨l, hl, h⟩ := bind_ok_inv _ _ _ h
    refine ⟨l, hl, ?_⟩
    split at h <;> exact fill_length _ _ _ h
  · exact absurd h (by simp)

theorem PIGMPv3GroupRecord.bytes_len (o : V) (b : Bytes) (h : PIGMPv3GroupRecord.bytes o = .ok b) :
    ∃ l, PIGMPv3GroupRecord.len o = .ok l ∧ b.length = l.toNat := by
  unfold PIGMPv3GroupRecord.bytes at h
  split at h
  · obtain ⟨l, hl, h⟩ := bind_ok_inv _ _ _ h
    obtain ⟨ips, _, h⟩ := bind_ok_inv _ _ _ h
    exact ⟨l, hl, fill_length _ _ _ h⟩
  · exact absurd h (by simp)

theorem PHopByHop.bytes_len (o : V) (b : Bytes) (h : PHopByHop.bytes o = .ok b) :
    ∃ l, PHopByHop.len o = .ok l ∧ b.length = l.toNat := by
  unfold PHopByHop.bytes at h
  split at h
  · obtain ⟨l, hl, h⟩ := bind_ok_inv _ _ _ h
    obtain ⟨_, _, h⟩ := bind_ok_inv _ _ _ h
    obtain ⟨_, _, h⟩ := bind_ok_inv _ _ _ h
    exact ⟨l, hl, fill_length _ _ _ h⟩
  · exact absurd h (by simp)

theorem PRouting.bytes_len (o : V) (b : Bytes) (h : PRouting.bytes o = .ok b) :
    ∃ l, PRouting.len o = .ok l ∧ b.length = l.toNat := by
  unfold PRouting.bytes at h
  split at h
  · obtain ⟨l, hl, h⟩ := bind_ok_inv _ _ _ h
    obtain ⟨_, _, h⟩ := bind_ok_inv _ _ _ h
    obtain ⟨_, _, h⟩ := bind_ok_inv _ _ _ h
    exact ⟨l, hl, fill_length _ _ _ h⟩
  · exact absurd h (by simp)

theorem PFragment.bytes_len (o : V) (b : Bytes) (h : PFragment.bytes o = .ok b) :
    ∃ l, PFragment.len o = .ok l ∧ b.length = l.toNat := by
  unfold PFragment.bytes at h
  split at h
  · obtain ⟨l, hl, h⟩ := bind_ok_inv _ _ _ h
    exact ⟨l, hl, fill_length _ _ _ h⟩
  · exact absurd h (by simp)

/-! ### the per-child piece lists are the children's own encodings -/

theorem POption.marshalM_eq (o : V) (b : Bytes) (h : POption.bytes o = .ok b) : POption.marshalM o = .ok (b, o) := by
  simp [POption.marshalM, h, same]

theorem PIGMPv3GroupRecord.marshalM_eq (o : V) (b : Bytes) (h : PIGMPv3GroupRecord.bytes o = .ok b) :
    PIGMPv3GroupRecord.marshalM o = .ok (b, o) := by
  simp [PIGMPv3GroupRecord.marshalM, h, same]

/-- hop-by-hop options: the pieces the encoder writes are exactly the options' own MarshalBinary() results, each
    advancing by its own length -/
theorem optPieces_enc : ∀ (os : List V) (ps : List Piece), PHopByHop.optPieces os = .ok ps →
    ∃ obs, encAll POption.marshalM os = .ok obs ∧ piecesBytes ps = obs.flatten ∧ (∀ p ∈ ps, p.Tight) ∧
      obs.length = os.length := by
  intro os
  induction os with
  | nil => intro ps h; simp only [PHopByHop.optPieces] at h; cases h; exact ⟨[], rfl, rfl, by simp, rfl⟩
  | cons o os ih =>
    intro ps h
    simp only [PHopByHop.optPieces] at h
    obtain ⟨b, hb, h⟩ := bind_ok_inv _ _ _ h
    obtain ⟨l, hl, h⟩ := bind_ok_inv _ _ _ h
    obtain ⟨ps', hps, h⟩ := bind_ok_inv _ _ _ h
    cases h
    obtain ⟨obs, he, hpb, ht, hlen⟩ := ih ps' hps
    obtain ⟨l', hl', hbl⟩ := POption.bytes_len o b hb
    rw [hl] at hl'
    cases hl'
    refine ⟨b :: obs, ?_, ?_, ?_, by simp [hlen]⟩
    · simp only [encAll, POption.marshalM_eq o b hb, Res.bind_ok, he, Res.pure_eq]
    · have : piecesBytes (pCopyAdv b l.toNat :: ps') = (pCopyAdv b l.toNat).bytes ++ piecesBytes ps' := by
        simp [piecesBytes]
      rw [this, hpb]
      simp [pCopyAdv, Piece.bytes, hbl, zeros, List.take_of_length_le (Nat.le_of_eq hbl)]
    · intro p hp
      simp only [List.mem_cons] at hp
      rcases hp with rfl | hp
      · simp only [pCopyAdv, Piece.Tight]; omega
      · exact ht p hp

/-- group records of a membership report: as `optPieces_enc`; also the advances -/
theorem recPieces_enc : ∀ (rs : List V) (ps : List Piece), PIGMPv3MembershipReport.recPieces rs = .ok ps →
    ∃ rbs ls, encAll PIGMPv3GroupRecord.marshalM rs = .ok rbs ∧ PIGMPv3MembershipReport.recLens rs = .ok ls ∧
      piecesBytes ps = rbs.flatten ∧ (∀ p ∈ ps, p.Tight) ∧ ps.map Piece.adv = ls.map UInt16.toNat ∧
      (∀ p ∈ ps, ∀ k, p ≠ .skip k) := by
  intro rs
  induction rs with
  | nil =>
    intro ps h; simp only [PIGMPv3MembershipReport.recPieces] at h; cases h
    exact ⟨[], [], rfl, rfl, rfl, by simp, rfl, by simp⟩
  | cons o os ih =>
    intro ps h
    simp only [PIGMPv3MembershipReport.recPieces] at h
    obtain ⟨b, hb, h⟩ := bind_ok_inv _ _ _ h
    obtain ⟨l, hl, h⟩ := bind_ok_inv _ _ _ h
    obtain ⟨ps', hps, h⟩ := bind_ok_inv _ _ _ h
    cases h
    obtain ⟨rbs, ls, he, hls, hpb, ht, hadv, hns⟩ := ih ps' hps
    obtain ⟨l', hl', hbl⟩ := PIGMPv3GroupRecord.bytes_len o b hb
    rw [hl] at hl'
    cases hl'
    refine ⟨b :: rbs, l :: ls, ?_, ?_, ?_, ?_, ?_, ?_⟩
    · simp only [encAll, PIGMPv3GroupRecord.marshalM_eq o b hb, Res.bind_ok, he, Res.pure_eq]
    · simp only [PIGMPv3MembershipReport.recLens, hl, Res.bind_ok, hls, Res.pure_eq]
    · have : piecesBytes (pCopyAdv b l.toNat :: ps') = (pCopyAdv b l.toNat).bytes ++ piecesBytes ps' := by
        simp [piecesBytes]
      rw [this, hpb]
      simp [pCopyAdv, Piece.bytes, hbl, zeros, List.take_of_length_le (Nat.le_of_eq hbl)]
    · intro p hp
      simp only [List.mem_cons] at hp
      rcases hp with rfl | hp
      · simp only [pCopyAdv, Piece.Tight]; omega
      · exact ht p hp
    · simp [hadv, pCopyAdv, Piece.adv]
    · intro p hp
      simp only [List.mem_cons] at hp
      rcases hp with rfl | hp
      · intro k; simp [pCopyAdv]
      · exact hns p hp

/-! ### the interface dispatch -/

/-- the `util.Message` dispatch of package protocol, as an elimination rule: whatever holds of every arm's pair of
    functions (given the dynamic type that selects the arm) and of the failing default holds of the pair the dispatch
    selects for `v` -/
theorem protoAny_elim (d : Nat) (v : V) (C : (V → R (UInt16 × V)) → (V → R (Bytes × V)) → Prop)
    (h1 : v.kind = "p.Ethernet" → C (PEthernet.lenW (protoAnyLenD d)) (PEthernet.marshalW (protoAnyLenD d) (protoAnyMarshalD d)))
    (h2 : v.kind = "p.IPv4" → C (PIPv4.lenW (protoAnyLenD d)) (PIPv4.marshalW (protoAnyLenD d) (protoAnyMarshalD d)))
    (h3 : v.kind = "p.IPv6" → C (PIPv6.lenW (protoAnyLenD d)) (PIPv6.marshalW (protoAnyLenD d) (protoAnyMarshalD d)))
    (h4 : v.kind = "u.Buffer" → C UBuffer.lenM UBuffer.marshalM)
    (h5 : v.kind = "p.VLAN" → C PVLAN.lenM PVLAN.marshalM)
    (h6 : v.kind = "p.ARP" → C PARP.lenM PARP.marshalM)
    (h7 : v.kind = "p.ICMP" → C PICMP.lenM PICMP.marshalM)
    (h8 : v.kind = "p.TCP" → C PTCP.lenM PTCP.marshalM)
    (h9 : v.kind = "p.UDP" → C PUDP.lenM PUDP.marshalM)
    (h10 : v.kind = "p.IGMPv1or2" → C PIGMPv1or2.lenM PIGMPv1or2.marshalM)
    (h11 : v.kind = "p.IGMPv3Query" → C PIGMPv3Query.lenM PIGMPv3Query.marshalM)
    (h12 : v.kind = "p.IGMPv3GroupRecord" → C PIGMPv3GroupRecord.lenM PIGMPv3GroupRecord.marshalM)
    (h13 : v.kind = "p.IGMPv3MembershipReport" → C PIGMPv3MembershipReport.lenM PIGMPv3MembershipReport.marshalM)
    (h14 : v.kind = "p.Option" → C POption.lenM POption.marshalM)
    (h15 : v.kind = "p.HopByHopHeader" → C PHopByHop.lenM PHopByHop.marshalM)
    (h16 : v.kind = "p.RoutingHeader" → C PRouting.lenM PRouting.marshalM)
    (h17 : v.kind = "p.FragmentHeader" → C PFragment.lenM PFragment.marshalM)
    (h0 : C (fun _ => .panic) (fun _ => .panic)) :
    ∃ L' M', protoAnyLenD (d + 1) v = L' v ∧ protoAnyMarshalD (d + 1) v = M' v ∧ C L' M' := by
  by_cases k1 : v.kind = "p.Ethernet"
  · exact ⟨_, _, by unfold protoAnyLenD; simp only [k1], by unfold protoAnyMarshalD; simp only [k1], h1 k1⟩
  by_cases k2 : v.kind = "p.IPv4"
  · exact ⟨_, _, by unfold protoAnyLenD; simp only [k2], by unfold protoAnyMarshalD; simp only [k2], h2 k2⟩
  by_cases k3 : v.kind = "p.IPv6"
  · exact ⟨_, _, by unfold protoAnyLenD; simp only [k3], by unfold protoAnyMarshalD; simp only [k3], h3 k3⟩
  by_cases k4 : v.kind = "u.Buffer"
  · exact ⟨_, _, by unfold protoAnyLenD; simp only [k4], by unfold protoAnyMarshalD; simp only [k4], h4 k4⟩
  by_cases k5 : v.kind = "p.VLAN"
  · exact ⟨_, _, by unfold protoAnyLenD; simp only [k5], by unfold protoAnyMarshalD; simp only [k5], h5 k5⟩
  by_cases k6 : v.kind = "p.ARP"
  · exact ⟨_, _, by unfold protoAnyLenD; simp only [k6], by unfold protoAnyMarshalD; simp only [k6], h6 k6⟩
  by_cases k7 : v.kind = "p.ICMP"
  · exact ⟨_, _, by unfold protoAnyLenD; simp only [k7], by unfold protoAnyMarshalD; simp only [k7], h7 k7⟩
  by_cases k8 : v.kind = "p.TCP"
  · exact ⟨_, _, by unfold protoAnyLenD; simp only [k8], by unfold protoAnyMarshalD; simp only [k8], h8 k8⟩
  by_cases k9 : v.kind = "p.UDP"
  · exact ⟨_, _, by unfold protoAnyLenD; simp only [k9], by unfold protoAnyMarshalD; simp only [k9], h9 k9⟩
  by_cases k10 : v.kind = "p.IGMPv1or2"
  · exact ⟨_, _, by unfold protoAnyLenD; simp only [k10], by unfold protoAnyMarshalD; simp only [k10], h10 k10⟩
  by_cases k11 : v.kind = "p.IGMPv3Query"
  · exact ⟨_, _, by unfold protoAnyLenD; simp only [k11], by unfold protoAnyMarshalD; simp only [k11], h11 k11⟩
  by_cases k12 : v.kind = "p.IGMPv3GroupRecord"
  · exact ⟨_, _, by unfold protoAnyLenD; simp only [k12], by unfold protoAnyMarshalD; simp only [k12], h12 k12⟩
  by_cases k13 : v.kind = "p.IGMPv3MembershipReport"
  · exact ⟨_, _, by unfold protoAnyLenD; simp only [k13], by unfold protoAnyMarshalD; simp only [k13], h13 k13⟩
  by_cases k14 : v.kind = "p.Option"
  · exact ⟨_, _, by unfold protoAnyLenD; simp only [k14], by unfold protoAnyMarshalD; simp only [k14], h14 k14⟩
  by_cases k15 : v.kind = "p.HopByHopHeader"
  · exact ⟨_, _, by unfold protoAnyLenD; simp only [k15], by unfold protoAnyMarshalD; simp only [k15], h15 k15⟩
  by_cases k16 : v.kind = "p.RoutingHeader"
  · exact ⟨_, _, by unfold protoAnyLenD; simp only [k16], by unfold protoAnyMarshalD; simp only [k16], h16 k16⟩
  by_cases k17 : v.kind = "p.FragmentHeader"
  · exact ⟨_, _, by unfold protoAnyLenD; simp only [k17], by unfold protoAnyMarshalD; simp only [k17], h17 k17⟩
  refine ⟨_, _, ?_, ?_, h0⟩
  · unfold protoAnyLenD
    split <;> first | contradiction | rfl
  · unfold protoAnyMarshalD
    split <;> first | contradiction | rfl

end OFV.SizeP
