/-
  OFV.Lemmas.Local4 — frame locality, continued: match payloads, match fields, Match, and the messages built on them
  (flow-removed, packet-in).
-/
import OFV.Lemmas.Local3
namespace OFV.Model
open OFV OFV.Go OFV.Go.Slice

theorem readIPv4_loc {s t : Slice} (haw : AW s t) : readIPv4 s = readIPv4 t := by
  unfold readIPv4
  loc_norm haw

/-! ### match payload kinds -/

theorem InPortField_loc (recv : V) {s t : Slice} (haw : AW s t) : InPortField.unmarshal recv s = InPortField.unmarshal recv t := by
  unfold InPortField.unmarshal
  (try simp only [readIPv4_loc haw]) <;> (loc_norm haw) <;> (repeat' first | loc_step haw | split)

theorem EthDstField_loc (recv : V) {s t : Slice} (haw : AW s t) : EthDstField.unmarshal recv s = EthDstField.unmarshal recv t := by
  unfold EthDstField.unmarshal
  (try simp only [readIPv4_loc haw]) <;> (loc_norm haw) <;> (repeat' first | loc_step haw | split)

theorem EthSrcField_loc (recv : V) {s t : Slice} (haw : AW s t) : EthSrcField.unmarshal recv s = EthSrcField.unmarshal recv t := by
  unfold EthSrcField.unmarshal
  (try simp only [readIPv4_loc haw]) <;> (loc_norm haw) <;> (repeat' first | loc_step haw | split)

theorem EthTypeField_loc (recv : V) {s t : Slice} (haw : AW s t) : EthTypeField.unmarshal recv s = EthTypeField.unmarshal recv t := by
  unfold EthTypeField.unmarshal
  (try simp only [readIPv4_loc haw]) <;> (loc_norm haw) <;> (repeat' first | loc_step haw | split)

theorem VlanIdField_loc (recv : V) {s t : Slice} (haw : AW s t) : VlanIdField.unmarshal recv s = VlanIdField.unmarshal recv t := by
  unfold VlanIdField.unmarshal
  (try simp only [readIPv4_loc haw]) <;> (loc_norm haw) <;> (repeat' first | loc_step haw | split)

theorem MplsLabelField_loc (recv : V) {s t : Slice} (haw : AW s t) : MplsLabelField.unmarshal recv s = MplsLabelField.unmarshal recv t := by
  unfold MplsLabelField.unmarshal
  (try simp only [readIPv4_loc haw]) <;> (loc_norm haw) <;> (repeat' first | loc_step haw | split)

theorem MplsBosField_loc (recv : V) {s t : Slice} (haw : AW s t) : MplsBosField.unmarshal recv s = MplsBosField.unmarshal recv t := by
  unfold MplsBosField.unmarshal
  (try simp only [readIPv4_loc haw]) <;> (loc_norm haw) <;> (repeat' first | loc_step haw | split)

theorem Ipv4SrcField_loc (recv : V) {s t : Slice} (haw : AW s t) : Ipv4SrcField.unmarshal recv s = Ipv4SrcField.unmarshal recv t := by
  unfold Ipv4SrcField.unmarshal
  (try simp only [readIPv4_loc haw]) <;> (loc_norm haw) <;> (repeat' first | loc_step haw | split)

theorem Ipv4DstField_loc (recv : V) {s t : Slice} (haw : AW s t) : Ipv4DstField.unmarshal recv s = Ipv4DstField.unmarshal recv t := by
  unfold Ipv4DstField.unmarshal
  (try simp only [readIPv4_loc haw]) <;> (loc_norm haw) <;> (repeat' first | loc_step haw | split)

theorem Ipv6SrcField_loc (recv : V) {s t : Slice} (haw : AW s t) : Ipv6SrcField.unmarshal recv s = Ipv6SrcField.unmarshal recv t := by
  unfold Ipv6SrcField.unmarshal
  (try simp only [readIPv4_loc haw]) <;> (loc_norm haw) <;> (repeat' first | loc_step haw | split)

theorem Ipv6DstField_loc (recv : V) {s t : Slice} (haw : AW s t) : Ipv6DstField.unmarshal recv s = Ipv6DstField.unmarshal recv t := by
  unfold Ipv6DstField.unmarshal
  (try simp only [readIPv4_loc haw]) <;> (loc_norm haw) <;> (repeat' first | loc_step haw | split)

theorem IPv6FlowLabelField_loc (recv : V) {s t : Slice} (haw : AW s t) : IPv6FlowLabelField.unmarshal recv s = IPv6FlowLabelField.unmarshal recv t := by
  unfold IPv6FlowLabelField.unmarshal
  (try simp only [readIPv4_loc haw]) <;> (loc_norm haw) <;> (repeat' first | loc_step haw | split)

theorem IpProtoField_loc (recv : V) {s t : Slice} (haw : AW s t) : IpProtoField.unmarshal recv s = IpProtoField.unmarshal recv t := by
  unfold IpProtoField.unmarshal
  (try simp only [readIPv4_loc haw]) <;> (loc_norm haw) <;> (repeat' first | loc_step haw | split)

theorem IpDscpField_loc (recv : V) {s t : Slice} (haw : AW s t) : IpDscpField.unmarshal recv s = IpDscpField.unmarshal recv t := by
  unfold IpDscpField.unmarshal
  (try simp only [readIPv4_loc haw]) <;> (loc_norm haw) <;> (repeat' first | loc_step haw | split)

theorem TunnelIdField_loc (recv : V) {s t : Slice} (haw : AW s t) : TunnelIdField.unmarshal recv s = TunnelIdField.unmarshal recv t := by
  unfold TunnelIdField.unmarshal
  (try simp only [readIPv4_loc haw]) <;> (loc_norm haw) <;> (repeat' first | loc_step haw | split)

theorem MetadataField_loc (recv : V) {s t : Slice} (haw : AW s t) : MetadataField.unmarshal recv s = MetadataField.unmarshal recv t := by
  unfold MetadataField.unmarshal
  (try simp only [readIPv4_loc haw]) <;> (loc_norm haw) <;> (repeat' first | loc_step haw | split)

theorem PortField_loc (recv : V) {s t : Slice} (haw : AW s t) : PortField.unmarshal recv s = PortField.unmarshal recv t := by
  unfold PortField.unmarshal
  (try simp only [readIPv4_loc haw]) <;> (loc_norm haw) <;> (repeat' first | loc_step haw | split)

theorem TcpFlagsField_loc (recv : V) {s t : Slice} (haw : AW s t) : TcpFlagsField.unmarshal recv s = TcpFlagsField.unmarshal recv t := by
  unfold TcpFlagsField.unmarshal
  (try simp only [readIPv4_loc haw]) <;> (loc_norm haw) <;> (repeat' first | loc_step haw | split)

theorem ArpOperField_loc (recv : V) {s t : Slice} (haw : AW s t) : ArpOperField.unmarshal recv s = ArpOperField.unmarshal recv t := by
  unfold ArpOperField.unmarshal
  (try simp only [readIPv4_loc haw]) <;> (loc_norm haw) <;> (repeat' first | loc_step haw | split)

theorem TunnelIpv4SrcField_loc (recv : V) {s t : Slice} (haw : AW s t) : TunnelIpv4SrcField.unmarshal recv s = TunnelIpv4SrcField.unmarshal recv t := by
  unfold TunnelIpv4SrcField.unmarshal
  (try simp only [readIPv4_loc haw]) <;> (loc_norm haw) <;> (repeat' first | loc_step haw | split)

theorem TunnelIpv4DstField_loc (recv : V) {s t : Slice} (haw : AW s t) : TunnelIpv4DstField.unmarshal recv s = TunnelIpv4DstField.unmarshal recv t := by
  unfold TunnelIpv4DstField.unmarshal
  (try simp only [readIPv4_loc haw]) <;> (loc_norm haw) <;> (repeat' first | loc_step haw | split)

theorem ArpXHaField_loc (recv : V) {s t : Slice} (haw : AW s t) : ArpXHaField.unmarshal recv s = ArpXHaField.unmarshal recv t := by
  unfold ArpXHaField.unmarshal
  (try simp only [readIPv4_loc haw]) <;> (loc_norm haw) <;> (repeat' first | loc_step haw | split)

theorem ArpXPaField_loc (recv : V) {s t : Slice} (haw : AW s t) : ArpXPaField.unmarshal recv s = ArpXPaField.unmarshal recv t := by
  unfold ArpXPaField.unmarshal
  (try simp only [readIPv4_loc haw]) <;> (loc_norm haw) <;> (repeat' first | loc_step haw | split)

theorem ActsetOutputField_loc (recv : V) {s t : Slice} (haw : AW s t) : ActsetOutputField.unmarshal recv s = ActsetOutputField.unmarshal recv t := by
  unfold ActsetOutputField.unmarshal
  (try simp only [readIPv4_loc haw]) <;> (loc_norm haw) <;> (repeat' first | loc_step haw | split)

theorem IcmpTypeField_loc (recv : V) {s t : Slice} (haw : AW s t) : IcmpTypeField.unmarshal recv s = IcmpTypeField.unmarshal recv t := by
  unfold IcmpTypeField.unmarshal
  (try simp only [readIPv4_loc haw]) <;> (loc_norm haw) <;> (repeat' first | loc_step haw | split)

theorem IcmpCodeField_loc (recv : V) {s t : Slice} (haw : AW s t) : IcmpCodeField.unmarshal recv s = IcmpCodeField.unmarshal recv t := by
  unfold IcmpCodeField.unmarshal
  (try simp only [readIPv4_loc haw]) <;> (loc_norm haw) <;> (repeat' first | loc_step haw | split)

theorem Uint16Message_loc (recv : V) {s t : Slice} (haw : AW s t) : Uint16Message.unmarshal recv s = Uint16Message.unmarshal recv t := by
  unfold Uint16Message.unmarshal
  (loc_norm haw) <;> (repeat' first | loc_step haw | split)

theorem Uint32Message_loc (recv : V) {s t : Slice} (haw : AW s t) : Uint32Message.unmarshal recv s = Uint32Message.unmarshal recv t := by
  unfold Uint32Message.unmarshal
  (loc_norm haw) <;> (repeat' first | loc_step haw | split)

theorem ByteArrayField_loc (recv : V) {s t : Slice} (haw : AW s t) : ByteArrayField.unmarshal recv s = ByteArrayField.unmarshal recv t := by
  unfold ByteArrayField.unmarshal
  (loc_norm haw) <;> (repeat' first | loc_step haw | split)

theorem CTLabel_loc (recv : V) {s t : Slice} (haw : AW s t) : CTLabel.unmarshal recv s = CTLabel.unmarshal recv t := by
  unfold CTLabel.unmarshal
  (try simp only [readIPv4_loc haw]) <;> (loc_norm haw) <;> (repeat' first | loc_step haw | split)

theorem MatchPayload_loc (recv : V) {s t : Slice} (haw : AW s t) :
    MatchPayload.unmarshal recv s = MatchPayload.unmarshal recv t := by
  unfold MatchPayload.unmarshal
  split
  · exact InPortField_loc recv haw
  · exact EthDstField_loc recv haw
  · exact EthSrcField_loc recv haw
  · exact EthTypeField_loc recv haw
  · exact VlanIdField_loc recv haw
  · exact MplsLabelField_loc recv haw
  · exact MplsBosField_loc recv haw
  · exact Ipv4SrcField_loc recv haw
  · exact Ipv4DstField_loc recv haw
  · exact Ipv6SrcField_loc recv haw
  · exact Ipv6DstField_loc recv haw
  · exact IPv6FlowLabelField_loc recv haw
  · exact IpProtoField_loc recv haw
  · exact IpDscpField_loc recv haw
  · exact TunnelIdField_loc recv haw
  · exact MetadataField_loc recv haw
  · exact PortField_loc recv haw
  · exact TcpFlagsField_loc recv haw
  · exact ArpOperField_loc recv haw
  · exact TunnelIpv4SrcField_loc recv haw
  · exact TunnelIpv4DstField_loc recv haw
  · exact ArpXHaField_loc recv haw
  · exact ArpXPaField_loc recv haw
  · exact ActsetOutputField_loc recv haw
  · exact IcmpTypeField_loc recv haw
  · exact IcmpCodeField_loc recv haw
  · exact Uint16Message_loc recv haw
  · exact Uint32Message_loc recv haw
  · exact ByteArrayField_loc recv haw
  · exact CTLabel_loc recv haw
  · rfl

theorem DecodeMatchField_loc (cls field length : Nat) (hasMask : Bool) {s t : Slice} (haw : AW s t) :
    DecodeMatchField cls field length hasMask s = DecodeMatchField cls field length hasMask t := by
  unfold DecodeMatchField
  simp only [MatchPayload_loc _ haw]

/-! ### MatchField, Match -/

theorem MatchField_loc (recv : V) {s t : Slice} (haw : AW s t) :
    MatchField.unmarshal recv s = MatchField.unmarshal recv t := by
  unfold MatchField.unmarshal
  loc_norm haw
  split
  · repeat' first
      | loc_step haw
      | simp only [DecodeMatchField_loc _ _ _ _ ‹AW _ _›]
  · rfl

theorem Match_unmarshalP_loc (recv : V) {s t : Slice} (haw : AW s t) :
    Match.unmarshalP recv s = Match.unmarshalP recv t := by
  unfold Match.unmarshalP
  loc_norm haw
  split
  · apply Res.bind_congr2 rfl; intro _
    apply Res.bind_congr2 rfl; intro _
    apply Res.bind_congr2 _ (fun _ => rfl)
    apply goLoop_congr
    intro st _
    apply Slice.fromR_bind_loc haw; intro x y hxy
    rw [MatchField_loc _ hxy]
  · rfl

theorem Match_loc (recv : V) {s t : Slice} (haw : AW s t) : Match.unmarshal recv s = Match.unmarshal recv t := by
  unfold Match.unmarshal
  rw [Match_unmarshalP_loc recv haw]

/-! ### flow-removed, packet-in -/

theorem FlowRemoved_loc (recv : V) {s t : Slice} (haw : AW s t) (h8 : 8 ≤ t.len) :
    FlowRemoved.unmarshal recv s = FlowRemoved.unmarshal recv t := by
  unfold FlowRemoved.unmarshal
  loc_norm haw
  split
  · apply fromR_bind_loc_len haw; intro x0 y0 hxy0 hlen0
    rw [Header_loc_partial _ hxy0 (Or.inr (by omega))]
    repeat' first
      | loc_step haw
      | simp only [InstrAux.matchUnmarshalP, Match_unmarshalP_loc _ ‹AW _ _›]
  · rfl

theorem PacketIn_loc (recv : V) {s t : Slice} (haw : AW s t) (h8 : 8 ≤ t.len) :
    PacketIn.unmarshal recv s = PacketIn.unmarshal recv t := by
  unfold PacketIn.unmarshal
  loc_norm haw
  simp only [msgTryU_Header_loc _ haw h8]
  split
  · repeat' first
      | loc_step haw
      | simp only [Match_loc _ ‹AW _ _›]
      | simp only [PEthernet_loc _ ‹AW _ _›]
  · rfl

theorem MultipartRequest_loc (recv : V) {s t : Slice} (haw : AW s t) (h8 : 8 ≤ t.len) :
    MultipartRequest.unmarshal recv s = MultipartRequest.unmarshal recv t := by
  unfold MultipartRequest.unmarshal
  loc_norm haw
  simp only [Header_loc_partial _ haw (Or.inr h8)]

/-! ### the experimenter message inside Parse, and Parse for all kinds but flow-mod and multipart reply -/

/-- as `VendorHeader_unmarshalWith_loc_partial`, the body decoders being compared only for the experimenter type that the
    frame actually carries -/
theorem VendorHeader_unmarshalWith_loc_partial2 (decVD decVD' : Nat → Slice → R V) (recv : V) {s t : Slice} (haw : AW s t)
    (hL : ∀ w, t.u16In 2 4 = .ok w → w.toNat ≤ t.len)
    (hd : ∀ ty, t.u32From 12 = .ok ty → ∀ x y, AW x y → x.len + 16 ≤ t.len → decVD ty.toNat x = decVD' ty.toNat y) :
    VendorHeader.unmarshalWith decVD recv s = VendorHeader.unmarshalWith decVD' recv t := by
  unfold VendorHeader.unmarshalWith
  loc_norm haw
  split
  · apply ite_congr rfl (fun _ => rfl); intro h16
    rw [msgTryU_Header_loc _ haw (by omega)]
    apply bind_congr_ok; intro he hhe
    obtain ⟨w, hw, hlw⟩ := Header_length_of _ he.1 t he.2 hhe (by omega)
    have hle := hL w hw
    apply Res.bind_congr2 rfl; intro _
    apply bind_congr_ok; intro ty hty
    apply ite_congr rfl _ (fun _ => rfl); intro hlt
    rcases Slice.sliceR_loc haw 16 (Header.length he.1) (by omega) with ⟨h1, h2⟩ | ⟨x, y, h1, h2, hxy⟩
    · rw [h1, h2]; rfl
    · rw [h1, h2]
      have hx := (Slice.sliceR_wf s 16 _ x h1).2
      simp only [Res.bind_ok]
      rw [hd ty hty x y hxy (by omega)]
  · rfl

/-- decodeVendorData for the experimenter types that neither over-read (TLV table reply) nor embed a message (bundle add) -/
theorem decodeVendorDataWith_loc_plain (parseF parseF' : Slice → R V) (cl cl' : MsgLenF) (ty : Nat) {x y : Slice}
    (hxy : AW x y) (h1 : ty ≠ Gen.openflow13.Type_TlvTableReply) (h2 : ty ≠ Gen.openflow13.Type_BundleAdd) :
    decodeVendorDataWith parseF cl ty x = decodeVendorDataWith parseF' cl' ty y := by
  unfold decodeVendorDataWith
  rw [ControllerID_loc _ hxy, TLVTableMod_loc _ hxy, BundleControl_loc _ hxy, if_neg h1, if_neg h1, if_neg h2, if_neg h2]

/-- the kinds of `Parse` covered now: everything except flow-mod and multipart reply -/
def parseCovered2 (ty : Nat) : Prop :=
  ty ≠ Gen.openflow13.Type_FlowMod ∧ ty ≠ Gen.openflow13.Type_MultiPartReply

/-- an experimenter frame that is not cut before its own Length field and carries neither a TLV table reply nor a
    bundle-add -/
def vendorPlain (t : Slice) : Prop :=
  (∀ w, t.u16In 2 4 = .ok w → w.toNat ≤ t.len) ∧
  (∀ ty, t.u32From 12 = .ok ty → ty.toNat ≠ Gen.openflow13.Type_TlvTableReply ∧ ty.toNat ≠ Gen.openflow13.Type_BundleAdd)

theorem parseStep_loc2 (self self' : Slice → R V) {s t : Slice} (haw : AW s t) (h8 : 8 ≤ t.len)
    (hk : ∀ tb, t.byteAt 1 = .ok tb → parseCovered2 tb.toNat ∧ (tb.toNat = Gen.openflow13.Type_Experimenter → vendorPlain t)) :
    parseStep self s = parseStep self' t := by
  unfold parseStep
  loc_norm haw
  apply bind_congr_ok; intro tb htb
  obtain ⟨⟨k1, k2⟩, kv⟩ := hk tb htb
  rw [Hello_loc _ haw h8, ErrorMsg_loc _ haw h8, VendorError_loc _ haw h8, Header_loc_partial _ haw (Or.inr h8),
    Header_loc_partial _ haw (Or.inr h8), SwitchConfig_loc _ haw h8, SwitchConfig_loc _ haw h8,
    SwitchFeatures_loc _ haw h8, PacketIn_loc _ haw h8, FlowRemoved_loc _ haw h8, PortStatus_loc _ haw h8,
    MultipartRequest_loc _ haw h8]
  rw [if_neg k1, if_neg k1, if_neg k2, if_neg k2]
  apply ite_congr rfl (fun _ => rfl); intro _
  apply ite_congr rfl (fun _ => rfl); intro _
  apply ite_congr rfl (fun _ => rfl); intro _
  apply ite_congr rfl _ (fun _ => rfl); intro hexp
  obtain ⟨hL, hty⟩ := kv hexp
  exact VendorHeader_unmarshalWith_loc_partial2 _ _ _ haw hL
    (fun ty hty' x y hxy _ => decodeVendorDataWith_loc_plain _ _ _ _ _ hxy (hty ty hty').1 (hty ty hty').2)

theorem parse_loc2 {s t : Slice} (haw : AW s t) (h8 : 8 ≤ t.len)
    (hk : ∀ tb, t.byteAt 1 = .ok tb → parseCovered2 tb.toNat ∧ (tb.toNat = Gen.openflow13.Type_Experimenter → vendorPlain t))
    (d d' : Nat) : parse d s = parse d' t := by
  unfold parse
  have e1 : max d (s.cap + 1) = (max d (s.cap + 1) - 1) + 1 := by omega
  have e2 : max d' (t.cap + 1) = (max d' (t.cap + 1) - 1) + 1 := by omega
  rw [e1, e2]
  unfold parseD
  rw [parseStep_loc2 _ _ haw h8 hk]

end OFV.Model
