/-
  OFV.Lemmas.SizeList — lists of children: how the sizes / encodings of a container's children add up.
    * `sum16` is the true sum modulo 2^16
    * `mapM2` over a list: append, idempotence, purity
    * `InstrAux.marshalList` (the `append` loop of InstrActions / Bucket / GroupMod / FlowMod) and `mapM2 … |>.flatten`
      (FlowStats / MultipartReply): the appended bytes are exactly the children's encodings, in order, and their
      total length is the sum of the reported sizes (mod 2^16)
-/
import OFV.Model.All
import OFV.Lemmas.Size
import OFV.Lemmas.SizeTac
import OFV.Lemmas.SizeNoErr
namespace OFV.Model
open OFV OFV.Go

/-! ### sum16 -/

theorem sum16_toNat_mod (xs : List UInt16) : (sum16 xs).toNat = (xs.map UInt16.toNat).sum % 65536 := by
  induction xs with
  | nil => rfl
  | cons x xs ih =>
    simp only [List.map_cons, List.sum_cons]
    rw [sum16_cons, UInt16.toNat_add, ih]
    have : (2:Nat) ^ 16 = 65536 := rfl
    rw [this]
    omega

theorem sum16_append (xs ys : List UInt16) : sum16 (xs ++ ys) = sum16 xs + sum16 ys := by
  induction xs with
  | nil => simp [sum16_nil]
  | cons x xs ih => simp only [List.cons_append, sum16_cons, ih, UInt16.add_assoc]

/-! ### mapM2 -/

theorem mapM2_nil {α} (f : V → R (α × V)) : mapM2 f [] = .ok ([], []) := rfl

theorem mapM2_cons_ok {α} (f : V → R (α × V)) (x : V) (xs : List V) (as : List α) (ys : List V)
    (h : mapM2 f (x :: xs) = .ok (as, ys)) :
    ∃ a x' as' xs', f x = .ok (a, x') ∧ mapM2 f xs = .ok (as', xs') ∧ as = a :: as' ∧ ys = x' :: xs' := by
  simp only [mapM2] at h
  obtain ⟨⟨a, x'⟩, h1, h⟩ := bind_ok_inv _ _ _ h
  obtain ⟨⟨as', xs'⟩, h2, h⟩ := bind_ok_inv _ _ _ h
  simp at h
  exact ⟨a, x', as', xs', h1, h2, h.1.symm, h.2.symm⟩

theorem mapM2_cons_of_ok {α} (f : V → R (α × V)) (x : V) (xs : List V) (a : α) (x' : V) (as' : List α) (xs' : List V)
    (h1 : f x = .ok (a, x')) (h2 : mapM2 f xs = .ok (as', xs')) : mapM2 f (x :: xs) = .ok (a :: as', x' :: xs') := by
  simp only [mapM2, h1, h2, Res.bind_ok, Res.pure_eq]

/-- a list of children whose Len() (or MarshalBinary()) changes nothing is left unchanged -/
theorem mapM2_pure {α} (f : V → R (α × V)) : ∀ (xs : List V) (as : List α) (ys : List V),
    (∀ x ∈ xs, ∀ a x', f x = .ok (a, x') → x' = x) → mapM2 f xs = .ok (as, ys) → ys = xs := by
  intro xs
  induction xs with
  | nil => intro as ys _ h; simp [mapM2] at h; exact h.2
  | cons x xs ih =>
    intro as ys hp h
    obtain ⟨a, x', as', xs', h1, h2, rfl, rfl⟩ := mapM2_cons_ok _ _ _ _ _ h
    rw [hp x (by simp) a x' h1, ih as' xs' (fun y hy => hp y (by simp [hy])) h2]

/-- running the loop a second time over the children the first run left behind gives the same answers and changes
    nothing further, provided that holds for each child -/
theorem mapM2_idem {α} (f : V → R (α × V)) : ∀ (xs : List V) (as : List α) (ys : List V),
    (∀ x ∈ xs, ∀ a x', f x = .ok (a, x') → f x' = .ok (a, x')) → mapM2 f xs = .ok (as, ys) →
    mapM2 f ys = .ok (as, ys) := by
  intro xs
  induction xs with
  | nil => intro as ys _ h; simp [mapM2] at h; obtain ⟨rfl, rfl⟩ := h; rfl
  | cons x xs ih =>
    intro as ys hp h
    obtain ⟨a, x', as', xs', h1, h2, rfl, rfl⟩ := mapM2_cons_ok _ _ _ _ _ h
    exact mapM2_cons_of_ok _ _ _ _ _ _ _ (hp x (by simp) a x' h1) (ih as' xs' (fun y hy => hp y (by simp [hy])) h2)

theorem mapM2_append {α} (f : V → R (α × V)) : ∀ (xs zs : List V) (as : List α) (ys : List V),
    mapM2 f (xs ++ zs) = .ok (as, ys) →
    ∃ as1 ys1 as2 ys2, mapM2 f xs = .ok (as1, ys1) ∧ mapM2 f zs = .ok (as2, ys2) ∧ as = as1 ++ as2 ∧ ys = ys1 ++ ys2 := by
  intro xs
  induction xs with
  | nil => intro zs as ys h; exact ⟨[], [], as, ys, rfl, h, rfl, rfl⟩
  | cons x xs ih =>
    intro zs as ys h
    rw [List.cons_append] at h
    obtain ⟨a, x', as', xs', h1, h2, rfl, rfl⟩ := mapM2_cons_ok _ _ _ _ _ h
    obtain ⟨as1, ys1, as2, ys2, e1, e2, rfl, rfl⟩ := ih zs as' xs' h2
    exact ⟨a :: as1, x' :: ys1, as2, ys2, mapM2_cons_of_ok _ _ _ _ _ _ _ h1 e1, e2, rfl, rfl⟩

theorem mapM2_append_of_ok {α} (f : V → R (α × V)) : ∀ (xs zs : List V) (as1 : List α) (ys1 : List V) (as2 : List α) (ys2 : List V),
    mapM2 f xs = .ok (as1, ys1) → mapM2 f zs = .ok (as2, ys2) → mapM2 f (xs ++ zs) = .ok (as1 ++ as2, ys1 ++ ys2) := by
  intro xs
  induction xs with
  | nil => intro zs as1 ys1 as2 ys2 h1 h2; simp [mapM2] at h1; obtain ⟨rfl, rfl⟩ := h1; simpa using h2
  | cons x xs ih =>
    intro zs as1 ys1 as2 ys2 h1 h2
    obtain ⟨a, x', as', xs', e1, e2, rfl, rfl⟩ := mapM2_cons_ok _ _ _ _ _ h1
    rw [List.cons_append]
    exact mapM2_cons_of_ok _ _ _ _ _ _ _ e1 (ih zs as' xs' as2 ys2 e2 h2)

/-- `mapM2 g xs` then `mapM2 f` over the children it left behind: when each child's encoding (after Len) has the
    reported size mod 2^16, the concatenation has the summed size mod 2^16 -/
theorem mapM2_flatten_after (g : V → R (UInt16 × V)) (f : V → R (Bytes × V)) :
    ∀ (xs : List V) (ls : List UInt16) (ys : List V) (bss : List Bytes) (zs : List V),
    mapM2 g xs = .ok (ls, ys) → mapM2 f ys = .ok (bss, zs) →
    (∀ x ∈ xs, ∀ l y b z, g x = .ok (l, y) → f y = .ok (b, z) → l.toNat = b.length % 65536) →
    (sum16 ls).toNat = bss.flatten.length % 65536 := by
  intro xs
  induction xs with
  | nil =>
    intro ls ys bss zs h1 h2 _
    simp [mapM2] at h1; obtain ⟨rfl, rfl⟩ := h1
    simp [mapM2] at h2; obtain ⟨rfl, rfl⟩ := h2
    rfl
  | cons x xs ih =>
    intro ls ys bss zs h1 h2 hp
    obtain ⟨l, y, ls', ys', e1, e2, rfl, rfl⟩ := mapM2_cons_ok _ _ _ _ _ h1
    obtain ⟨b, z, bss', zs', e3, e4, rfl, rfl⟩ := mapM2_cons_ok _ _ _ _ _ h2
    have hx := hp x (by simp) l y b z e1 e3
    have ih' := ih ls' ys' bss' zs' e2 e4 (fun w hw => hp w (by simp [hw]))
    rw [sum16_cons, UInt16.toNat_add, List.flatten_cons, List.length_append, hx, ih']
    have : (2:Nat) ^ 16 = 65536 := rfl
    rw [this]; omega

/-! ### the `append` loop -/
open InstrAux

/-- when no child returns an error the loop's error flag ends up false unless the list is empty -/
theorem marshalList_ok_cons (f : V → R (Bytes × V)) (x : V) (xs : List V) (e : Bool) (bs : Bytes) (zs : List V) (e' : Bool)
    (hne : NoErr (f x)) (h : marshalList f (x :: xs) e = .ok (bs, zs, e')) :
    ∃ b x' bs' zs', f x = .ok (b, x') ∧ marshalList f xs false = .ok (bs', zs', e') ∧ bs = b ++ bs' ∧ zs = x' :: zs' := by
  simp only [marshalList] at h
  split at h
  · rename_i b x' hfx
    split at h
    · rename_i bs' zs' e'' hr
      cases h
      exact ⟨b, x', bs', zs', hfx, hr, rfl, rfl⟩
    all_goals exact absurd h (by simp)
  · rename_i hfx; exact absurd hfx hne.ne
  all_goals exact absurd h (by simp)

/-- children that never return an error: the loop's final `err` is false (or the incoming one, for no children) -/
theorem marshalList_flag (f : V → R (Bytes × V)) : ∀ (xs : List V) (e : Bool) (bs : Bytes) (zs : List V) (e' : Bool),
    (∀ x ∈ xs, NoErr (f x)) → marshalList f xs e = .ok (bs, zs, e') → e' = (if xs = [] then e else false) := by
  intro xs
  induction xs with
  | nil => intro e bs zs e' _ h; simp [marshalList] at h; simp [h.2.2]
  | cons x xs ih =>
    intro e bs zs e' hne h
    obtain ⟨b, x', bs', zs', _, h2, _, _⟩ := marshalList_ok_cons f x xs e bs zs e' (hne x (by simp)) h
    have := ih false bs' zs' e' (fun y hy => hne y (by simp [hy])) h2
    simp only [reduceCtorEq, if_false]
    rw [this]; split <;> rfl

/-- the loop is `mapM2` plus concatenation when no child returns an error:
    the appended bytes are exactly the children's encodings, complete and in order -/
theorem marshalList_eq_mapM2 (f : V → R (Bytes × V)) : ∀ (xs : List V) (e : Bool) (bs : Bytes) (zs : List V) (e' : Bool),
    (∀ x ∈ xs, NoErr (f x)) → marshalList f xs e = .ok (bs, zs, e') →
    ∃ bss, mapM2 f xs = .ok (bss, zs) ∧ bs = bss.flatten := by
  intro xs
  induction xs with
  | nil => intro e bs zs e' _ h; simp [marshalList] at h; exact ⟨[], by simp [mapM2, h.2.1], by simp [h.1]⟩
  | cons x xs ih =>
    intro e bs zs e' hne h
    obtain ⟨b, x', bs', zs', h1, h2, rfl, rfl⟩ := marshalList_ok_cons f x xs e bs zs e' (hne x (by simp)) h
    obtain ⟨bss, hm, rfl⟩ := ih false bs' zs' e' (fun y hy => hne y (by simp [hy])) h2
    exact ⟨b :: bss, mapM2_cons_of_ok _ _ _ _ _ _ _ h1 hm, by simp⟩

/-- sizes through the `append` loop run over the children a preceding Len() loop left behind -/
theorem marshalList_length_after (g : V → R (UInt16 × V)) (f : V → R (Bytes × V))
    (xs : List V) (ls : List UInt16) (ys : List V) (e : Bool) (bs : Bytes) (zs : List V) (e' : Bool)
    (h1 : mapM2 g xs = .ok (ls, ys)) (h2 : marshalList f ys e = .ok (bs, zs, e'))
    (hne : ∀ y ∈ ys, NoErr (f y))
    (hp : ∀ x ∈ xs, ∀ l y b z, g x = .ok (l, y) → f y = .ok (b, z) → l.toNat = b.length % 65536) :
    (sum16 ls).toNat = bs.length % 65536 := by
  obtain ⟨bss, hm, rfl⟩ := marshalList_eq_mapM2 f ys e bs zs e' hne h2
  exact mapM2_flatten_after g f xs ls ys bss zs h1 hm hp

/-- sizes through the `append` loop run over the same children as the Len() loop -/
theorem marshalList_length_same (g : V → R (UInt16 × V)) (f : V → R (Bytes × V)) :
    ∀ (xs : List V) (ls : List UInt16) (ys : List V) (e : Bool) (bs : Bytes) (zs : List V) (e' : Bool),
    mapM2 g xs = .ok (ls, ys) → marshalList f xs e = .ok (bs, zs, e') →
    (∀ x ∈ xs, NoErr (f x)) → (∀ x ∈ xs, SizeMod g f x) →
    (sum16 ls).toNat = bs.length % 65536 := by
  intro xs
  induction xs with
  | nil =>
    intro ls ys e bs zs e' h1 h2 _ _
    simp [mapM2] at h1; obtain ⟨rfl, rfl⟩ := h1
    simp [marshalList] at h2; obtain ⟨rfl, _, _⟩ := h2
    rfl
  | cons x xs ih =>
    intro ls ys e bs zs e' h1 h2 hne hp
    obtain ⟨l, y, ls', ys', e1, e2, rfl, rfl⟩ := mapM2_cons_ok _ _ _ _ _ h1
    obtain ⟨b, x', bs', zs', e3, e4, rfl, rfl⟩ := marshalList_ok_cons f x xs e _ _ e' (hne x (by simp)) h2
    have hx := hp x (by simp) l y b x' e1 e3
    have ih' := ih ls' ys' false bs' zs' e' e2 e4 (fun w hw => hne w (by simp [hw])) (fun w hw => hp w (by simp [hw]))
    rw [sum16_cons, UInt16.toNat_add, List.length_append, hx, ih']
    have : (2:Nat) ^ 16 = 65536 := rfl
    rw [this]; omega

end OFV.Model
