/-
  OFV.Lemmas.RT3Stats — TableStats and PortStats records of a multipart reply as `RecordRT` facts (OFV/Lemmas/RT2Multipart.lean).
  Used by OFV/Props/C05c.lean.
-/
import OFV.Model.All
import OFV.Lemmas.Size
import OFV.Lemmas.RTBasic
import OFV.Lemmas.RTMsgMore
import OFV.Lemmas.RT2Nx
import OFV.Lemmas.RT2Multipart
namespace OFV.RT3
set_option linter.unusedSimpArgs false
open OFV OFV.Go OFV.Model OFV.RT OFV.RT2

theorem anyLen_table (fs : List V) : anyLenM (.obj "TableStats" fs) = TableStats.lenM (.obj "TableStats" fs) := rfl
theorem anyMarshal_table (fs : List V) : anyMarshalM (.obj "TableStats" fs) = TableStats.marshalM (.obj "TableStats" fs) := rfl
theorem anyLen_port (fs : List V) : anyLenM (.obj "PortStats" fs) = PortStats.lenM (.obj "PortStats" fs) := rfl
theorem anyMarshal_port (fs : List V) : anyMarshalM (.obj "PortStats" fs) = PortStats.marshalM (.obj "PortStats" fs) := rfl

def tableStatsV (t : Nat) (pad name : Bytes) (w me ac lc mc : Nat) : V :=
  .obj "TableStats" [.num t, .bytes pad, .bytes name, .num w, .num me, .num ac, .num lc, .num mc]

def tableStatsBytes (t : Nat) (pad name : Bytes) (w me ac lc mc : Nat) : Bytes :=
  [n8 t] ++ pad ++ name ++ be32 (n32 w) ++ be32 (n32 me) ++ be32 (n32 ac) ++ be64 (n64 lc) ++ be64 (n64 mc)

/-- TableStats record (64 bytes; decoded into NewTableStats(): 3 pad bytes and a 32-byte name, which fix the decoder's offsets) -/
theorem recordRT_table (t : Nat) (pad name : Bytes) (w me ac lc mc : Nat) (ht : t < 256) (hpad : pad.length = 3)
    (hname : name.length = 32) (hw : w < 4294967296) (hme : me < 4294967296) (hac : ac < 4294967296)
    (hlc : lc < 18446744073709551616) (hmc : mc < 18446744073709551616) :
    RecordRT Gen.openflow13.MultipartType_Table (tableStatsV t pad name w me ac lc mc) (tableStatsBytes t pad name w me ac lc mc) := by
  have hl : (tableStatsBytes t pad name w me ac lc mc).length = 64 := by
    simp only [tableStatsBytes, List.length_append, List.length_cons, List.length_nil, hpad, hname, be32_length, be64_length]
  have h64 : TableStats.len = n16 64 := rfl
  refine ⟨?_, by rw [tableStatsV, anyLen_table, hl]; rfl, by omega, by omega, ?_⟩
  · rw [tableStatsV, anyMarshal_table]
    simp only [TableStats.marshalM, h64, n16_toNat 64 (by decide)]
    rw [fill_eq 64 _ (by intro p hp; simp at hp; rcases hp with rfl | rfl | rfl | rfl | rfl | rfl | rfl | rfl <;> trivial)
      (by simp [piecesLen, pCopy, pU8, pU32, pU64, Piece.adv, hpad, hname])]
    simp [piecesBytes, pCopy, pU8, pU32, pU64, Piece.bytes, same, tableStatsBytes]
  · intro data tail hdw hbb
    have hlen := Slice.len_ge_of_bytes data _ _ hbb
    rw [hl] at hlen
    have hb' : data.bytes = [n8 t] ++ (pad ++ (name ++ (be32 (n32 w) ++ (be32 (n32 me) ++ (be32 (n32 ac) ++ (be64 (n64 lc) ++
        (be64 (n64 mc) ++ tail))))))) := by
      rw [hbb]; simp only [tableStatsBytes, List.append_assoc]
    have hP : ([n8 t] ++ pad ++ name).length = 36 := by simp [hpad, hname]
    have hbP : data.bytes = ([n8 t] ++ pad ++ name) ++ (be32 (n32 w) ++ (be32 (n32 me) ++ (be32 (n32 ac) ++ (be64 (n64 lc) ++
        (be64 (n64 mc) ++ tail))))) := by
      rw [hb']; simp only [List.append_assoc]
    have hd36 : ∀ k, data.bytes.drop (36 + k) = (be32 (n32 w) ++ (be32 (n32 me) ++ (be32 (n32 ac) ++ (be64 (n64 lc) ++
        (be64 (n64 mc) ++ tail))))).drop k := by
      intro k; rw [hbP, ← hP, ← List.drop_drop]; congr 1; exact List.drop_left' rfl
    have e0 : data.bytes[0]? = some (n8 t) := by rw [hb']; rfl
    have e36 : rd32 (data.bytes.drop 36) = some (n32 w) := by rw [hd36 0]; exact rd32_be32 _ _
    have e40 : rd32 (data.bytes.drop 40) = some (n32 me) := by rw [hd36 4]; exact rd32_be32 _ _
    have e44 : rd32 (data.bytes.drop 44) = some (n32 ac) := by rw [hd36 8]; exact rd32_be32 _ _
    have e48 : rd64 (data.bytes.drop 48) = some (n64 lc) := by rw [hd36 12]; exact rd64_be64 _ _
    have e56 : rd64 (data.bytes.drop 56) = some (n64 mc) := by rw [hd36 20]; exact rd64_be64 _ _
    obtain ⟨s1, h11, h12, _⟩ := Slice.fromR_bytes data 1 (by omega)
    obtain ⟨s2, h21, h22, _⟩ := Slice.fromR_bytes data 4 (by omega)
    have b1 : s1.bytes = pad ++ (name ++ (be32 (n32 w) ++ (be32 (n32 me) ++ (be32 (n32 ac) ++ (be64 (n64 lc) ++
        (be64 (n64 mc) ++ tail)))))) := by rw [h12, hb']; rfl
    have b2 : s2.bytes = name ++ (be32 (n32 w) ++ (be32 (n32 me) ++ (be32 (n32 ac) ++ (be64 (n64 lc) ++
        (be64 (n64 mc) ++ tail))))) := by
      rw [h22, hb', ← List.append_assoc]; exact List.drop_left' (by simp [hpad])
    have z3 : (zeros 3).length = 3 := rfl
    have z32 : (zeros Gen.openflow13.MAX_TABLE_NAME_LEN).length = 32 := rfl
    simp only [MultipartReply.decodeRecord, Gen.openflow13.MultipartType_Desc, Gen.openflow13.MultipartType_Aggregate,
      Gen.openflow13.MultipartType_Flow, Gen.openflow13.MultipartType_Port, Gen.openflow13.MultipartType_Table,
      Nat.reduceEqDiff, if_false, if_true, msgTryU, TableStats.unmarshal, TableStats.new, z3, z32, Nat.reduceAdd,
      Slice.byteAt_eq, Slice.u32From_eq, Slice.u64From_eq, e0, e36, e40, e44, e48, e56, Res.ofOption, h11, h21, Res.bind_ok, b1, b2,
      Res.pure_eq, copyInto_prefix _ pad _ (hpad.trans z3.symm), copyInto_prefix _ name _ (hname.trans z32.symm),
      u8_n8 t ht, u32_n32 w hw, u32_n32 me hme, u32_n32 ac hac, u64_n64 lc hlc, u64_n64 mc hmc, tableStatsV]

def portStatsV (p : Nat) (pad : Bytes) (cs : List Nat) : V := .obj "PortStats" (.num p :: .bytes pad :: cs.map V.num)

/-- PortStats record (104 bytes: port, 6 pad bytes, twelve 64-bit counters; decoded into NewPortStats(): 6 pad bytes) -/
theorem recordRT_port (p : Nat) (pad : Bytes) (c1 c2 c3 c4 c5 c6 c7 c8 c9 c10 c11 c12 : Nat) (hp : p < 65536) (hpad : pad.length = 6)
    (hcs : ∀ c ∈ [c1, c2, c3, c4, c5, c6, c7, c8, c9, c10, c11, c12], c < 18446744073709551616) :
    RecordRT Gen.openflow13.MultipartType_Port (portStatsV p pad [c1, c2, c3, c4, c5, c6, c7, c8, c9, c10, c11, c12])
      (be16 (n16 p) ++ pad ++ (be64 (n64 c1) ++ be64 (n64 c2) ++ be64 (n64 c3) ++ be64 (n64 c4) ++ be64 (n64 c5) ++ be64 (n64 c6) ++ be64 (n64 c7) ++ be64 (n64 c8) ++ be64 (n64 c9) ++ be64 (n64 c10) ++ be64 (n64 c11) ++ be64 (n64 c12))) := by
  have hl : (be16 (n16 p) ++ pad ++ (be64 (n64 c1) ++ be64 (n64 c2) ++ be64 (n64 c3) ++ be64 (n64 c4) ++ be64 (n64 c5) ++ be64 (n64 c6) ++ be64 (n64 c7) ++ be64 (n64 c8) ++ be64 (n64 c9) ++ be64 (n64 c10) ++ be64 (n64 c11) ++ be64 (n64 c12))).length = 104 := by
    simp only [List.length_append, hpad, be16_length, be64_length]
  refine ⟨?_, by rw [portStatsV, anyLen_port, hl]; rfl, by omega, by omega, ?_⟩
  · rw [portStatsV, anyMarshal_port]
    simp only [PortStats.marshalM, List.map_cons, List.map_nil, List.length_cons, List.length_nil, V.asNat]
    rw [if_neg (by decide)]
    rw [fill_eq 104 _ (by intro x hx; simp at hx; rcases hx with rfl | rfl | rfl | rfl | rfl | rfl | rfl | rfl | rfl | rfl | rfl | rfl | rfl | rfl <;> trivial)
      (by simp [piecesLen, pCopy, pU16, pU64, Piece.adv, hpad])]
    simp [piecesBytes, pCopy, pU16, pU64, Piece.bytes, same]
  · intro data tail hdw hbb
    have hlen := Slice.len_ge_of_bytes data _ _ hbb
    rw [hl] at hlen
    have hP : (be16 (n16 p) ++ pad).length = 8 := by simp [hpad]
    have hbP : data.bytes = (be16 (n16 p) ++ pad) ++ (be64 (n64 c1) ++ (be64 (n64 c2) ++ (be64 (n64 c3) ++ (be64 (n64 c4) ++ (be64 (n64 c5) ++ (be64 (n64 c6) ++ (be64 (n64 c7) ++ (be64 (n64 c8) ++ (be64 (n64 c9) ++ (be64 (n64 c10) ++ (be64 (n64 c11) ++ (be64 (n64 c12) ++ tail)))))))))))) := by
      rw [hbb]; simp only [List.append_assoc]
    have hd8 : ∀ k, data.bytes.drop (8 + k) = (be64 (n64 c1) ++ (be64 (n64 c2) ++ (be64 (n64 c3) ++ (be64 (n64 c4) ++ (be64 (n64 c5) ++ (be64 (n64 c6) ++ (be64 (n64 c7) ++ (be64 (n64 c8) ++ (be64 (n64 c9) ++ (be64 (n64 c10) ++ (be64 (n64 c11) ++ (be64 (n64 c12) ++ tail)))))))))))).drop k := by
      intro k; rw [hbP, ← hP, ← List.drop_drop]; congr 1; exact List.drop_left' rfl
    have e0 : rd16 (data.bytes.drop 0) = some (n16 p) := by rw [hbP, List.append_assoc]; exact rd16_be16 _ _
    have e8 : rd64 (data.bytes.drop 8) = some (n64 c1) := by rw [hd8 0]; exact rd64_be64 _ _
    have e16 : rd64 (data.bytes.drop 16) = some (n64 c2) := by rw [hd8 8]; exact rd64_be64 _ _
    have e24 : rd64 (data.bytes.drop 24) = some (n64 c3) := by rw [hd8 16]; exact rd64_be64 _ _
    have e32 : rd64 (data.bytes.drop 32) = some (n64 c4) := by rw [hd8 24]; exact rd64_be64 _ _
    have e40 : rd64 (data.bytes.drop 40) = some (n64 c5) := by rw [hd8 32]; exact rd64_be64 _ _
    have e48 : rd64 (data.bytes.drop 48) = some (n64 c6) := by rw [hd8 40]; exact rd64_be64 _ _
    have e56 : rd64 (data.bytes.drop 56) = some (n64 c7) := by rw [hd8 48]; exact rd64_be64 _ _
    have e64 : rd64 (data.bytes.drop 64) = some (n64 c8) := by rw [hd8 56]; exact rd64_be64 _ _
    have e72 : rd64 (data.bytes.drop 72) = some (n64 c9) := by rw [hd8 64]; exact rd64_be64 _ _
    have e80 : rd64 (data.bytes.drop 80) = some (n64 c10) := by rw [hd8 72]; exact rd64_be64 _ _
    have e88 : rd64 (data.bytes.drop 88) = some (n64 c11) := by rw [hd8 80]; exact rd64_be64 _ _
    have e96 : rd64 (data.bytes.drop 96) = some (n64 c12) := by rw [hd8 88]; exact rd64_be64 _ _
    obtain ⟨s1, h11, h12, _⟩ := Slice.fromR_bytes data 2 (by omega)
    have b1 : s1.bytes = pad ++ (be64 (n64 c1) ++ (be64 (n64 c2) ++ (be64 (n64 c3) ++ (be64 (n64 c4) ++ (be64 (n64 c5) ++ (be64 (n64 c6) ++ (be64 (n64 c7) ++ (be64 (n64 c8) ++ (be64 (n64 c9) ++ (be64 (n64 c10) ++ (be64 (n64 c11) ++ (be64 (n64 c12) ++ tail)))))))))))) := by rw [h12, hbP, List.append_assoc]; rfl
    have z6 : (zeros 6).length = 6 := rfl
    have hc : ∀ c ∈ [c1, c2, c3, c4, c5, c6, c7, c8, c9, c10, c11, c12], V.u64 (n64 c) = .num c := fun c hc => u64_n64 c (hcs c hc)
    simp only [List.mem_cons, List.not_mem_nil, or_false, forall_eq_or_imp, forall_eq] at hc
    obtain ⟨k1, k2, k3, k4, k5, k6, k7, k8, k9, k10, k11, k12⟩ := hc
    simp only [MultipartReply.decodeRecord, Gen.openflow13.MultipartType_Desc, Gen.openflow13.MultipartType_Aggregate,
      Gen.openflow13.MultipartType_Flow, Gen.openflow13.MultipartType_Port,
      Nat.reduceEqDiff, if_false, if_true, msgTryU, PortStats.unmarshal, PortStats.new, List.cons_append, List.nil_append, z6,
      PortStats.readCounters, Nat.reduceAdd, Slice.u16From_eq, Slice.u64From_eq, e0, e8, e16, e24, e32, e40, e48, e56, e64, e72, e80, e88, e96,
      Res.ofOption, h11, Res.bind_ok, b1, Res.pure_eq, copyInto_prefix _ pad _ (hpad.trans z6.symm), u16_n16 p hp,
      k1, k2, k3, k4, k5, k6, k7, k8, k9, k10, k11, k12, portStatsV, List.map_cons, List.map_nil]

end OFV.RT3
