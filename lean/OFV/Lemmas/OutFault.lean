/-
  OFV.Lemmas.OutFault — helper lemmas about the outbound transition system with a failing connection
  (Model/Stream/OutFault): the abstraction maps to OutSys and the step-wise simulation, the small safety invariants
  (a dead writer holds nothing; producer tags are in range), "a dead writer stays dead", the canonical completion of a
  state to an interleaving of all submissions, and the projection / lifting lemmas of the product of connections.
  The property statements are in Props/C11b.
-/
import OFV.Model.Stream.OutSys
import OFV.Model.Stream.OutFault
namespace OFV.OutF
open OFV OFV.Model OFV.Model.OutFault

/-! ## abstraction to OutSys -/

/-- forget the failure; the lost message counts as still held by a writer that will never write it -/
def absF (s : St) : OutSys.St := ⟨s.pending, s.chan, s.writer.or (s.failed.map (·.1)), s.wire⟩
/-- the plain projection (used for failure-free states, where it coincides with `absF`) -/
def abs (s : St) : OutSys.St := ⟨s.pending, s.chan, s.writer, s.wire⟩
/-- an OutSys state as an OutFault state with a living writer -/
def emb (t : OutSys.St) : St := ⟨t.pending, t.chan, t.writer, t.wire, none⟩

theorem absF_eq_abs (s : St) (h : s.failed = none) : absF s = abs s := by
  simp [absF, abs, h]

theorem abs_emb (t : OutSys.St) : abs (emb t) = t := rfl

/-- every OutFault step is an OutSys step of the abstraction, or (the two failure steps) leaves it unchanged -/
theorem step_sim (cap : Nat) (s s' : St) (h : Step cap s s') :
    absF s' = absF s ∨ OutSys.Step cap (absF s) (absF s') := by
  cases h with
  | submit p m r hp hpm hc => exact Or.inr (OutSys.Step.submit (absF s) p m r hp hpm hc)
  | recv x r hf hc hw =>
    have hw' : (absF s).writer = none := by simp [absF, hw, hf]
    exact Or.inr (OutSys.Step.recv (absF s) x r hc hw')
  | write x hf hw =>
    have hw' : (absF s).writer = some x := by simp [absF, hw]
    have := OutSys.Step.write (cap := cap) (absF s) x hw'
    have e : absF { s with writer := none, wire := s.wire ++ [x] } =
        { absF s with writer := none, wire := (absF s).wire ++ [x] } := by simp [absF, hf]
    rw [e]; exact Or.inr this
  | writeFail x k hf hw hk => left; simp [absF, hw]
  | deadline x hf hw => left; simp [absF, hw]

theorem sim (cap : Nat) (s0 s : St) (h : Reach cap s0 s) : OutSys.Reach cap (absF s0) (absF s) := by
  induction h with
  | refl => exact .refl
  | step s s' _ hs ih =>
    rcases step_sim cap s s' hs with e | h1
    · rw [e]; exact ih
    · exact .step _ _ ih h1

/-- the failure flag is never reset -/
theorem step_failed_mono (cap : Nat) (s s' : St) (h : Step cap s s') (hf : s'.failed = none) : s.failed = none := by
  cases h <;> simp_all

/-- a step into a failure-free state is one of the three OutSys steps -/
theorem step_ok_sim (cap : Nat) (s s' : St) (h : Step cap s s') (hf : s'.failed = none) :
    OutSys.Step cap (abs s) (abs s') := by
  cases h with
  | submit p m r hp hpm hc => exact OutSys.Step.submit (abs s) p m r hp hpm hc
  | recv x r hf hc hw => exact OutSys.Step.recv (abs s) x r hc hw
  | write x hf hw => exact OutSys.Step.write (abs s) x hw
  | writeFail x k hf hw hk => simp at hf
  | deadline x hf hw => simp at hf

theorem embed_step (cap : Nat) (t t' : OutSys.St) (h : OutSys.Step cap t t') : Step cap (emb t) (emb t') := by
  cases h with
  | submit p m r hp hpm hc => exact Step.submit (emb t) p m r hp hpm hc
  | recv x r hc hw => exact Step.recv (emb t) x r rfl hc hw
  | write x hw => exact Step.write (emb t) x rfl hw

/-! ## safety invariants -/

/-- a dead writer holds no message, and the failed Write let through no more bytes than the message has -/
def Safe (s : St) : Prop := ∀ x k, s.failed = some (x, k) → s.writer = none ∧ k ≤ x.2.length

theorem step_safe (cap : Nat) (s s' : St) (h : Step cap s s') (hs : Safe s) : Safe s' := by
  cases h with
  | submit p m r hp hpm hc => exact hs
  | recv x r hf hc hw => intro y k hy; simp [hf] at hy
  | write x hf hw => intro y k hy; simp [hf] at hy
  | writeFail x k hf hw hk =>
    intro y j hy
    simp only [Option.some.injEq, Prod.mk.injEq] at hy
    obtain ⟨rfl, rfl⟩ := hy
    exact ⟨rfl, hk⟩
  | deadline x hf hw =>
    intro y j hy
    simp only [Option.some.injEq, Prod.mk.injEq] at hy
    obtain ⟨rfl, rfl⟩ := hy
    exact ⟨rfl, Nat.zero_le _⟩

theorem reach_safe (cap : Nat) (s0 s : St) (h : Reach cap s0 s) (h0 : Safe s0) : Safe s := by
  induction h with
  | refl => exact h0
  | step s s' _ hs ih => exact step_safe cap s s' hs ih

theorem init_safe (subm : List (List Bytes)) : Safe (initSt subm) := by
  intro x k h; simp [initSt] at h

/-- everything that left a producer, wherever it is now -/
def St.left (s : St) : List (Prod × Bytes) := s.wire ++ s.lost ++ s.writer.toList ++ s.chan

/-- producer tags are in range -/
def Tagged (n : Nat) (s : St) : Prop := s.pending.length = n ∧ ∀ x ∈ St.left s, x.1 < n

theorem step_tagged (cap n : Nat) (s s' : St) (h : Step cap s s') (hs : Tagged n s) : Tagged n s' := by
  obtain ⟨hl, ht⟩ := hs
  cases h with
  | submit p m r hp hpm hc =>
    refine ⟨by simp [hl], ?_⟩
    intro x hx
    simp only [St.left, St.lost, List.mem_append, List.mem_singleton] at hx ht
    rcases hx with ((hx | hx) | hx) | hx | hx
    · exact ht x (Or.inl (Or.inl (Or.inl hx)))
    · exact ht x (Or.inl (Or.inl (Or.inr hx)))
    · exact ht x (Or.inl (Or.inr hx))
    · exact ht x (Or.inr hx)
    · subst hx; simpa [hl] using hp
  | recv y r hf hc hw =>
    refine ⟨hl, fun x hx => ht x ?_⟩
    simp [St.left, St.lost, hf, hc, hw] at hx ⊢
    grind
  | write y hf hw =>
    refine ⟨hl, fun x hx => ht x ?_⟩
    simp [St.left, St.lost, hf, hw] at hx ⊢
    grind
  | writeFail y k hf hw hk =>
    refine ⟨hl, fun x hx => ht x ?_⟩
    simp [St.left, St.lost, hf, hw] at hx ⊢
    grind
  | deadline y hf hw =>
    refine ⟨hl, fun x hx => ht x ?_⟩
    simp [St.left, St.lost, hf, hw] at hx ⊢
    grind

theorem reach_tagged (cap : Nat) (subm : List (List Bytes)) (s : St) (h : Reach cap (initSt subm) s) :
    Tagged subm.length s := by
  induction h with
  | refl => exact ⟨rfl, by simp [St.left, St.lost, initSt]⟩
  | step s s' _ hs ih => exact step_tagged cap _ s s' hs ih

/-! ## a dead writer stays dead -/

theorem step_frozen (cap : Nat) (s s' : St) (h : Step cap s s') (f : (Prod × Bytes) × Nat) (hf : s.failed = some f) :
    s'.failed = some f ∧ s'.wire = s.wire ∧ s'.writer = s.writer := by
  cases h with
  | submit p m r hp hpm hc => exact ⟨hf, rfl, rfl⟩
  | recv x r hf' hc hw => rw [hf] at hf'; exact absurd hf' (by simp)
  | write x hf' hw => rw [hf] at hf'; exact absurd hf' (by simp)
  | writeFail x k hf' hw hk => rw [hf] at hf'; exact absurd hf' (by simp)
  | deadline x hf' hw => rw [hf] at hf'; exact absurd hf' (by simp)

theorem reach_frozen (cap : Nat) (s s' : St) (h : Reach cap s s') (f : (Prod × Bytes) × Nat)
    (hf : s.failed = some f) : s'.failed = some f ∧ s'.wire = s.wire ∧ s'.writer = s.writer := by
  induction h with
  | refl => exact ⟨hf, rfl, rfl⟩
  | step t t' _ hs ih =>
    have := step_frozen cap t t' hs f ih.1
    exact ⟨this.1, this.2.1.trans ih.2.1, this.2.2.trans ih.2.2⟩

/-- the successful Writes only ever grow at the end -/
theorem step_wire_prefix (cap : Nat) (s s' : St) (h : Step cap s s') : s.wire <+: s'.wire := by
  cases h <;> first | exact List.prefix_refl _ | exact List.prefix_append _ _

theorem reach_wire_prefix (cap : Nat) (s s' : St) (h : Reach cap s s') : s.wire <+: s'.wire := by
  induction h with
  | refl => exact List.prefix_refl _
  | step t t' _ hs ih => exact ih.trans (step_wire_prefix cap t t' hs)

/-! ## sent = the OutSys notion under the abstraction -/

theorem absF_sent (s : St) (h : Safe s) (p : Prod) : (absF s).sent p = s.sent p := by
  have e : (s.writer.or (s.failed.map (·.1))).toList = s.lost ++ s.writer.toList := by
    cases hf : s.failed with
    | none => simp [St.lost, hf]
    | some f =>
      obtain ⟨x, k⟩ := f
      simp [St.lost, hf, (h x k hf).1]
  simp only [OutSys.St.sent, St.sent, absF, e, List.append_assoc]

/-! ## completing a state to an interleaving of all submissions -/

/-- the not yet submitted messages, tagged with their producers (producer `off`, then `off+1`, …) -/
def tagAll : Nat → List (List Bytes) → List (Prod × Bytes)
  | _, [] => []
  | off, l :: L => l.map (fun m => (off, m)) ++ tagAll (off + 1) L

theorem filter_tag_self (p : Nat) (l : List Bytes) :
    ((l.map (fun m => ((p, m) : Prod × Bytes))).filter (fun x => x.1 = p)).map (·.2) = l := by
  induction l with
  | nil => rfl
  | cons a l ih => simp [ih]

theorem filter_tag_other (q p : Nat) (h : q ≠ p) (l : List Bytes) :
    ((l.map (fun m => ((q, m) : Prod × Bytes))).filter (fun x => x.1 = p)).map (·.2) = [] := by
  induction l with
  | nil => rfl
  | cons a l ih => simp [h]

theorem tagAll_filter (L : List (List Bytes)) : ∀ (off p : Nat),
    ((tagAll off L).filter (fun x => x.1 = p)).map (·.2) = if off ≤ p then L[p - off]?.getD [] else [] := by
  induction L with
  | nil => intro off p; simp [tagAll]
  | cons l L ih =>
    intro off p
    simp only [tagAll, List.filter_append, List.map_append, ih]
    by_cases h1 : off = p
    · subst h1
      rw [filter_tag_self]
      simp
      intro h; omega
    · rw [filter_tag_other off p h1]
      by_cases h2 : off ≤ p
      · have h3 : off + 1 ≤ p := by omega
        have h4 : p - off = (p - (off + 1)) + 1 := by omega
        simp only [h2, h3, if_true, List.nil_append]
        rw [h4]; simp
      · have h3 : ¬ off + 1 ≤ p := by omega
        simp [h2, h3]

theorem tagAll_tags (L : List (List Bytes)) : ∀ (off : Nat), ∀ x ∈ tagAll off L, x.1 < off + L.length := by
  induction L with
  | nil => intro off x hx; simp [tagAll] at hx
  | cons l L ih =>
    intro off x hx
    simp only [tagAll, List.mem_append, List.mem_map] at hx
    rcases hx with ⟨m, _, rfl⟩ | hx
    · simp
    · have := ih (off + 1) x hx
      exact Nat.lt_of_lt_of_le this (by simp only [List.length_cons]; omega)

/-! ## product of connections -/

/-- projection: component i of a product run is a run of the single system -/
theorem preach_proj (cap : Nat → Nat) (S0 S : List St) (h : PReach cap S0 S) :
    S.length = S0.length ∧ ∀ i s0, S0[i]? = some s0 → ∃ s, S[i]? = some s ∧ Reach (cap i) s0 s := by
  induction h with
  | refl => exact ⟨rfl, fun i s0 h0 => ⟨s0, h0, .refl⟩⟩
  | step S S' _ hs ih =>
    obtain ⟨hl, hc⟩ := ih
    cases hs with
    | «at» j s' hj hst =>
      refine ⟨by simp [hl], ?_⟩
      intro i s0 h0
      obtain ⟨s, hs1, hs2⟩ := hc i s0 h0
      by_cases hij : j = i
      · subst hij
        have e : S[j] = s := by
          have := List.getElem?_eq_getElem hj
          rw [this] at hs1; exact Option.some.inj hs1
        refine ⟨s', by simp [hj], ?_⟩
        exact .step _ _ hs2 (e ▸ hst)
      · exact ⟨s, by simp [hij, hs1], hs2⟩

theorem preach_trans (cap : Nat → Nat) (A B C : List St) (h1 : PReach cap A B) (h2 : PReach cap B C) :
    PReach cap A C := by
  induction h2 with
  | refl => exact h1
  | step S S' _ hs ih => exact .step _ _ ih hs

/-- lifting: a run of the single system is a run of the product in which only connection i moves -/
theorem preach_lift (cap : Nat → Nat) (S : List St) (i : Nat) (hi : i < S.length) (s : St)
    (h : Reach (cap i) S[i] s) : PReach cap S (S.set i s) := by
  induction h with
  | refl => rw [List.set_getElem_self]; exact .refl
  | step t t' _ hs ih =>
    have hi' : i < (S.set i t).length := by simpa using hi
    have e : (S.set i t)[i] = t := by simp
    have hs' : Step (cap i) (S.set i t)[i] t' := by rw [e]; exact hs
    have := PStep.at (cap := cap) (S.set i t) i t' hi' hs'
    rw [List.set_set] at this
    exact .step _ _ ih this

theorem preach_cons (cap : Nat → Nat) (a : St) (R0 R : List St) (h : PReach (fun i => cap (i + 1)) R0 R) :
    PReach cap (a :: R0) (a :: R) := by
  induction h with
  | refl => exact .refl
  | step S S' _ hs ih =>
    cases hs with
    | «at» j s' hj hst =>
      exact .step _ _ ih (PStep.at (a :: S) (j + 1) s' (by simpa using hj) hst)

/-- completeness of the product: any tuple of individually reachable states is reachable together -/
theorem preach_all (S0 : List St) : ∀ (cap : Nat → Nat) (S : List St), S.length = S0.length →
    (∀ i (h0 : i < S0.length) (h : i < S.length), Reach (cap i) S0[i] S[i]) → PReach cap S0 S := by
  induction S0 with
  | nil =>
    intro cap S hl _
    have : S = [] := List.eq_nil_of_length_eq_zero (by simpa using hl)
    subst this; exact .refl
  | cons a R0 ih =>
    intro cap S hl hc
    cases S with
    | nil => simp at hl
    | cons b R =>
      have hl' : R.length = R0.length := by simpa using hl
      have h1 : PReach (fun i => cap (i + 1)) R0 R :=
        ih (fun i => cap (i + 1)) R hl' (fun i h0 h => hc (i + 1) (by simpa using h0) (by simpa using h))
      have h2 := preach_cons cap a R0 R h1
      have h3 := preach_lift cap (a :: R) 0 (by simp) b (hc 0 (by simp) (by simp))
      exact preach_trans cap _ _ _ h2 h3

/-! ## the product in which a failure ends the process -/

theorem xreach_preach (cap : Nat → Nat) (S0 S : List St) (h : XReach cap S0 S) : PReach cap S0 S := by
  induction h with
  | refl => exact .refl
  | step S S' _ hs ih =>
    cases hs with
    | «at» i s' hi _ hst => exact .step _ _ ih (PStep.at S i s' hi hst)

/-- at most one connection ever fails -/
theorem xreach_one_failure (cap : Nat → Nat) (S0 S : List St) (h : XReach cap S0 S)
    (h0 : ∀ t ∈ S0, t.failed = none) :
    ∀ (i j : Nat) (si sj : St), S[i]? = some si → S[j]? = some sj → si.failed ≠ none → sj.failed ≠ none → i = j := by
  induction h with
  | refl =>
    intro i j si sj hi _ hfi _
    exact absurd (h0 si (List.mem_of_getElem? hi)) hfi
  | step S S' _ hs _ =>
    cases hs with
    | «at» k s' hk hall hst =>
      intro i j si sj hi hj hfi hfj
      have key : ∀ n t, (S.set k s')[n]? = some t → t.failed ≠ none → n = k := by
        intro n t hn hf
        apply Classical.byContradiction
        intro hne
        rw [List.getElem?_set_ne (fun e => hne e.symm)] at hn
        exact hf (hall t (List.mem_of_getElem? hn))
      rw [key i si hi hfi, key j sj hj hfj]

/-- after a failure nothing moves -/
theorem xstep_dead (cap : Nat → Nat) (S S' : List St) (t : St) (ht : t ∈ S) (hf : t.failed ≠ none) :
    ¬ XStep cap S S' := by
  intro h
  cases h with
  | «at» i s' hi hall hst => exact hf (hall t ht)

end OFV.OutF
