/-
  OFV.Lemmas.RTAction — round trip of the fixed-size standard actions and of ActionSetField through DecodeAction.
  Used by OFV/Props/C05.lean.
-/
import OFV.Model.All
import OFV.Lemmas.Size
import OFV.Lemmas.RTBasic
import OFV.Lemmas.RTPayload
import OFV.Lemmas.RTMatch
namespace OFV.RT
set_option linter.unusedSimpArgs false
open OFV OFV.Go OFV.Model

/-- ActionHeader.UnmarshalBinary on the header bytes followed by anything -/
theorem actionHeader_unmarshal (recv : V) (data : Slice) (hd : data.WF) (ty ln : Nat) (hty : ty < 65536)
    (hln : ln < 65536) (rest : Bytes) (hb : data.bytes = be16 (n16 ty) ++ be16 (n16 ln) ++ rest) :
    ActionHeader.unmarshal recv data = .ok (ActionHeader.mk ty ln) := by
  have hlen := Slice.len_ge_of_bytes data _ _ hb
  simp only [List.length_append, be16_length] at hlen
  unfold ActionHeader.unmarshal
  rw [if_neg (by omega)]
  have e0 : rd16 ((data.bytes.drop 0).take (2 - 0)) = some (n16 ty) := by
    rw [hb]; simp only [List.append_assoc]; exact rd16_be16' _
  have e2 : rd16 ((data.bytes.drop 2).take (4 - 2)) = some (n16 ln) := by
    rw [hb]; simp only [List.append_assoc]
    have : (List.drop 2 (be16 (n16 ty) ++ (be16 (n16 ln) ++ rest))).take (4 - 2) = be16 (n16 ln) := rfl
    rw [this]; exact rd16_be16' _
  simp only [Slice.u16In_eq data hd 0 2 (by omega) (by omega), Slice.u16In_eq data hd 2 4 (by omega) (by omega),
    e0, e2, Res.ofOption, Res.bind_ok, Res.pure_eq, n16_toNat ty hty, n16_toNat ln hln]

/-- `a.ActionHeader.UnmarshalBinary(data[:4])` -/
theorem actionHeader_upto4 (recv : V) (data : Slice) (hd : data.WF) (ty ln : Nat) (hty : ty < 65536)
    (hln : ln < 65536) (rest : Bytes) (hb : data.bytes = be16 (n16 ty) ++ be16 (n16 ln) ++ rest) :
    ∃ d4, data.uptoR 4 = .ok d4 ∧ ActionHeader.unmarshal recv d4 = .ok (ActionHeader.mk ty ln) := by
  have hlen := Slice.len_ge_of_bytes data _ _ hb
  simp only [List.length_append, be16_length] at hlen
  obtain ⟨t, ht1, ht2, _⟩ := Slice.uptoR_bytes data hd 4 (by omega)
  have htwf : t.WF := (Slice.sliceR_wf data 0 4 t ht1).1
  refine ⟨t, ht1, actionHeader_unmarshal recv t htwf ty ln hty hln [] ?_⟩
  rw [ht2, hb]; rfl

/-- the `switch` of DecodeAction for the standard (non-experimenter) types other than conntrack -/
theorem decodeAction_of (data : Slice) (hd : data.WF) (ty : Nat) (hty : ty < 65536) (rest : Bytes)
    (hb : data.bytes = be16 (n16 ty) ++ rest) (z : V) (hlook : actionTypeTable.lookup ty = some z)
    (hk : z.kind ≠ "NXActionConnTrack") (k : Nat) :
    DecodeAction (k + 1) data = Action.unmarshalLeaf z data := by
  have hlen := Slice.len_ge_of_bytes data _ _ hb
  simp only [be16_length] at hlen
  have e0 : rd16 ((data.bytes.drop 0).take (2 - 0)) = some (n16 ty) := by
    rw [hb]; exact rd16_be16' _
  unfold DecodeAction newActionFor
  simp only [Slice.u16In_eq data hd 0 2 (by omega) (by omega), e0, Res.ofOption, Res.bind_ok, n16_toNat ty hty,
    hlook, Res.pure_eq]
  rw [if_neg hk]


theorem action_marshal_leaf (v : V) (hk : v.kind ≠ "NXActionConnTrack") : Action.marshalM v = Action.marshalLeaf v := by
  unfold Action.marshalM Action.marshalD Action.encDepth
  rw [if_neg hk]

theorem action_len_leaf (v : V) (hk : v.kind ≠ "NXActionConnTrack") : Action.lenM v = Action.lenLeaf v := by
  unfold Action.lenM Action.lenD Action.encDepth
  rw [if_neg hk]

/-- ActionGroup -/
theorem actionGroup_rt (ln g : Nat) (hln : ln < 65536) (hg : g < 4294967296) :
    let v := V.obj "ActionGroup" [ActionHeader.mk Gen.openflow13.ActionType_Group ln, .num g]
    let bs := be16 (n16 Gen.openflow13.ActionType_Group) ++ be16 (n16 ln) ++ be32 (n32 g)
    Action.marshalM v = .ok (bs, v) ∧ Action.lenM v = .ok (8, v) ∧
    ∀ (data : Slice) (tail : Bytes) (k : Nat), data.WF → data.bytes = bs ++ tail → DecodeAction (k + 1) data = .ok v := by
  intro v bs
  refine ⟨?_, rfl, ?_⟩
  · rw [action_marshal_leaf v (by simp [v, V.kind])]
    simp only [v, Action.marshalLeaf, V.kind, ActionGroup.marshalM, ActionHeader.mk, ActionHeader.bytes, Res.bind_ok]
    have hp : (8 : Nat) = piecesLen [pCopy (be16 (n16 Gen.openflow13.ActionType_Group) ++ be16 (n16 ln)), pU32 g] := rfl
    rw [hp, fill_exact' _ (by intro p hp; simp at hp; rcases hp with rfl | rfl <;> trivial)]
    rfl
  · intro data tail k hd hb
    have hlen := Slice.len_ge_of_bytes data _ _ hb
    have hlen8 : 8 ≤ data.len := by
      have : bs.length = 8 := rfl
      omega
    rw [decodeAction_of data hd Gen.openflow13.ActionType_Group (by decide) (be16 (n16 ln) ++ (be32 (n32 g) ++ tail)) (by rw [hb]; simp only [bs, List.append_assoc]) ActionGroup.zero rfl (by decide)]
    simp only [Action.unmarshalLeaf, ActionGroup.zero, V.kind, ActionGroup.unmarshal]
    rw [if_neg (by omega)]
    obtain ⟨d0, h01, h02, _⟩ := Slice.fromR_bytes data 0 (by omega)
    have hd0 : d0.WF := (Slice.fromR_wf data hd 0 d0 h01).1
    have e4 : rd32 (data.bytes.drop 4) = some (n32 g) := by
      rw [hb]
      have : List.drop 4 (bs ++ tail) = be32 (n32 g) ++ tail := rfl
      rw [this]; exact rd32_be32 _ _
    simp only [h01, Res.bind_ok,
      actionHeader_unmarshal _ d0 hd0 Gen.openflow13.ActionType_Group ln (by decide) hln (be32 (n32 g) ++ tail)
        (by rw [h02, hb]; simp only [bs, List.drop_zero, List.append_assoc]),
      Slice.u32From_eq, e4, Res.ofOption, Res.pure_eq, u32_n32 g hg]
    rfl


/-- ActionSetqueue -/
theorem actionSetqueue_rt (ln q : Nat) (hln : ln < 65536) (hq : q < 4294967296) :
    let v := V.obj "ActionSetqueue" [ActionHeader.mk Gen.openflow13.ActionType_SetQueue ln, .num q]
    let bs := be16 (n16 Gen.openflow13.ActionType_SetQueue) ++ be16 (n16 ln) ++ be32 (n32 q)
    Action.marshalM v = .ok (bs, v) ∧ Action.lenM v = .ok (8, v) ∧
    ∀ (data : Slice) (tail : Bytes) (k : Nat), data.WF → data.bytes = bs ++ tail → DecodeAction (k + 1) data = .ok v := by
  intro v bs
  refine ⟨?_, rfl, ?_⟩
  · rw [action_marshal_leaf v (by simp [v, V.kind])]
    rfl
  · intro data tail k hd hb
    have hlen := Slice.len_ge_of_bytes data _ _ hb
    have hlen8 : 8 ≤ data.len := by
      have : bs.length = 8 := rfl
      omega
    rw [decodeAction_of data hd Gen.openflow13.ActionType_SetQueue (by decide) (be16 (n16 ln) ++ (be32 (n32 q) ++ tail))
      (by rw [hb]; simp only [bs, List.append_assoc]) ActionSetqueue.zero rfl (by decide)]
    simp only [Action.unmarshalLeaf, ActionSetqueue.zero, V.kind, ActionSetqueue.unmarshal]
    rw [if_neg (by omega)]
    obtain ⟨d4, h41, h42⟩ := actionHeader_upto4 ActionHeader.zero data hd Gen.openflow13.ActionType_SetQueue ln
      (by decide) hln (be32 (n32 q) ++ tail) (by rw [hb]; simp only [bs, List.append_assoc])
    have e4 : rd32 ((data.bytes.drop 4).take (8 - 4)) = some (n32 q) := by
      rw [hb]
      have : (List.drop 4 (bs ++ tail)).take (8 - 4) = be32 (n32 q) := rfl
      rw [this]; exact rd32_be32' _
    simp only [h41, Res.bind_ok, h42, tryE, Slice.u32In_eq data hd 4 8 (by omega) (by omega), e4, Res.ofOption,
      Res.pure_eq, u32_n32 q hq]
    rfl

theorem zeros_append (a b : Nat) : zeros a ++ zeros b = zeros (a + b) := by
  simp [zeros, List.replicate_append_replicate]

/-- ActionOutput: the unexported pad (nil or zero bytes) comes back nil -/
theorem actionOutput_rt (ln port ml kp : Nat) (hln : ln < 65536) (hport : port < 4294967296) (hml : ml < 65536)
    (hkp : kp ≤ 6) :
    let v := V.obj "ActionOutput" [ActionHeader.mk Gen.openflow13.ActionType_Output ln, .num port, .num ml, .bytes (zeros kp)]
    let v' := V.obj "ActionOutput" [ActionHeader.mk Gen.openflow13.ActionType_Output ln, .num port, .num ml, .bytes []]
    let bs := be16 (n16 Gen.openflow13.ActionType_Output) ++ be16 (n16 ln) ++ be32 (n32 port) ++ be16 (n16 ml) ++ zeros 6
    Action.marshalM v = .ok (bs, v) ∧ Action.lenM v = .ok (16, v) ∧
    ∀ (data : Slice) (tail : Bytes) (k : Nat), data.WF → data.bytes = bs ++ tail → DecodeAction (k + 1) data = .ok v' := by
  intro v v' bs
  refine ⟨?_, rfl, ?_⟩
  · rw [action_marshal_leaf v (by simp [v, V.kind])]
    simp only [v, Action.marshalLeaf, V.kind, ActionOutput.marshalM, ActionHeader.mk, ActionHeader.bytes, Res.bind_ok]
    have hp : piecesLen [pCopy (be16 (n16 Gen.openflow13.ActionType_Output) ++ be16 (n16 ln)), pU32 port, pU16 ml,
        pCopy (zeros kp)] = 10 + kp := by
      simp [piecesLen, pCopy, pU32, pU16, Piece.adv]; omega
    rw [fill_exact 16 _ (by intro p hp; simp at hp; rcases hp with rfl | rfl | rfl | rfl <;> trivial) (by rw [hp]; omega), hp]
    simp only [piecesBytes, pCopy, pU32, pU16, Piece.bytes, List.map_cons, List.map_nil, List.flatten_cons,
      List.flatten_nil, List.append_nil, List.append_assoc, same, zeros_append]
    have : kp + (16 - (10 + kp)) = 6 := by omega
    rw [this]
    simp only [Res.bind_ok, bs, List.append_assoc]
  · intro data tail k hd hb
    have hlen := Slice.len_ge_of_bytes data _ _ hb
    have hlen16 : 16 ≤ data.len := by
      have : bs.length = 16 := rfl
      omega
    rw [decodeAction_of data hd Gen.openflow13.ActionType_Output (by decide)
      (be16 (n16 ln) ++ (be32 (n32 port) ++ (be16 (n16 ml) ++ (zeros 6 ++ tail))))
      (by rw [hb]; simp only [bs, List.append_assoc]) ActionOutput.zero rfl (by decide)]
    simp only [Action.unmarshalLeaf, ActionOutput.zero, V.kind, ActionOutput.unmarshal]
    rw [if_neg (by omega)]
    obtain ⟨d0, h01, h02, _⟩ := Slice.fromR_bytes data 0 (by omega)
    have hd0 : d0.WF := (Slice.fromR_wf data hd 0 d0 h01).1
    have e4 : rd32 (data.bytes.drop 4) = some (n32 port) := by
      rw [hb]
      have : List.drop 4 (bs ++ tail) = be32 (n32 port) ++ (be16 (n16 ml) ++ zeros 6 ++ tail) := rfl
      rw [this]; exact rd32_be32 _ _
    have e8 : rd16 (data.bytes.drop 8) = some (n16 ml) := by
      rw [hb]
      have : List.drop 8 (bs ++ tail) = be16 (n16 ml) ++ (zeros 6 ++ tail) := rfl
      rw [this]; exact rd16_be16 _ _
    obtain ⟨s, hs1, _, _⟩ := Slice.sliceR_bytes data hd 10 16 (by omega) (by omega)
    simp only [h01, Res.bind_ok,
      actionHeader_unmarshal _ d0 hd0 Gen.openflow13.ActionType_Output ln (by decide) hln
        (be32 (n32 port) ++ (be16 (n16 ml) ++ (zeros 6 ++ tail)))
        (by rw [h02, hb]; simp only [bs, List.drop_zero, List.append_assoc]),
      Slice.u32From_eq, Slice.u16From_eq, e4, e8, hs1, Res.ofOption, Res.pure_eq, u32_n32 port hport, u16_n16 ml hml]
    simp [copyInto, v']


/-- ActionPush (push-vlan / push-mpls / push-pbb): the unexported pad comes back nil -/
theorem actionPush_rt (ty ln et : Nat) (p : V) (hty : ty < 65536) (hlook : actionTypeTable.lookup ty = some ActionPush.zero)
    (hln : ln < 65536) (het : et < 65536) :
    let v := V.obj "ActionPush" [ActionHeader.mk ty ln, .num et, p]
    let v' := V.obj "ActionPush" [ActionHeader.mk ty ln, .num et, .bytes []]
    let bs := be16 (n16 ty) ++ be16 (n16 ln) ++ be16 (n16 et) ++ zeros 2
    Action.marshalM v = .ok (bs, v) ∧ Action.lenM v = .ok (8, v) ∧
    ∀ (data : Slice) (tail : Bytes) (k : Nat), data.WF → data.bytes = bs ++ tail → DecodeAction (k + 1) data = .ok v' := by
  intro v v' bs
  refine ⟨?_, rfl, ?_⟩
  · rw [action_marshal_leaf v (by simp [v, V.kind])]
    rfl
  · intro data tail k hd hb
    rw [decodeAction_of data hd ty hty (be16 (n16 ln) ++ (be16 (n16 et) ++ (zeros 2 ++ tail)))
      (by rw [hb]; simp only [bs, List.append_assoc]) ActionPush.zero hlook (by decide)]
    simp only [Action.unmarshalLeaf, ActionPush.zero, V.kind, ActionPush.unmarshal]
    obtain ⟨d4, h41, h42⟩ := actionHeader_upto4 ActionHeader.zero data hd ty ln
      hty hln (be16 (n16 et) ++ (zeros 2 ++ tail)) (by rw [hb]; simp only [bs, List.append_assoc])
    have e4 : rd16 (data.bytes.drop 4) = some (n16 et) := by
      rw [hb]
      have : List.drop 4 (bs ++ tail) = be16 (n16 et) ++ (zeros 2 ++ tail) := rfl
      rw [this]; exact rd16_be16 _ _
    simp only [h41, Res.bind_ok, h42, tryE, Slice.u16From_eq, e4, Res.ofOption, Res.pure_eq, u16_n16 et het]
    rfl

/-- ActionPopMpls -/
theorem actionPopMpls_rt (ln et : Nat) (p : V) (hln : ln < 65536) (het : et < 65536) :
    let v := V.obj "ActionPopMpls" [ActionHeader.mk Gen.openflow13.ActionType_PopMpls ln, .num et, p]
    let v' := V.obj "ActionPopMpls" [ActionHeader.mk Gen.openflow13.ActionType_PopMpls ln, .num et, .bytes []]
    let bs := be16 (n16 Gen.openflow13.ActionType_PopMpls) ++ be16 (n16 ln) ++ be16 (n16 et) ++ zeros 2
    Action.marshalM v = .ok (bs, v) ∧ Action.lenM v = .ok (8, v) ∧
    ∀ (data : Slice) (tail : Bytes) (k : Nat), data.WF → data.bytes = bs ++ tail → DecodeAction (k + 1) data = .ok v' := by
  intro v v' bs
  refine ⟨?_, rfl, ?_⟩
  · rw [action_marshal_leaf v (by simp [v, V.kind])]
    rfl
  · intro data tail k hd hb
    rw [decodeAction_of data hd Gen.openflow13.ActionType_PopMpls (by decide) (be16 (n16 ln) ++ (be16 (n16 et) ++ (zeros 2 ++ tail)))
      (by rw [hb]; simp only [bs, List.append_assoc]) ActionPopMpls.zero rfl (by decide)]
    simp only [Action.unmarshalLeaf, ActionPopMpls.zero, V.kind, ActionPopMpls.unmarshal]
    obtain ⟨d4, h41, h42⟩ := actionHeader_upto4 ActionHeader.zero data hd Gen.openflow13.ActionType_PopMpls ln
      (by decide) hln (be16 (n16 et) ++ (zeros 2 ++ tail)) (by rw [hb]; simp only [bs, List.append_assoc])
    have e4 : rd16 (data.bytes.drop 4) = some (n16 et) := by
      rw [hb]
      have : List.drop 4 (bs ++ tail) = be16 (n16 et) ++ (zeros 2 ++ tail) := rfl
      rw [this]; exact rd16_be16 _ _
    simp only [h41, Res.bind_ok, h42, tryE, Slice.u16From_eq, e4, Res.ofOption, Res.pure_eq, u16_n16 et het]
    rfl

/-- ActionPopVlan -/
theorem actionPopVlan_rt (ln : Nat) (p : V) (hln : ln < 65536) :
    let v := V.obj "ActionPopVlan" [ActionHeader.mk Gen.openflow13.ActionType_PopVlan ln, p]
    let v' := V.obj "ActionPopVlan" [ActionHeader.mk Gen.openflow13.ActionType_PopVlan ln, .bytes []]
    let bs := be16 (n16 Gen.openflow13.ActionType_PopVlan) ++ be16 (n16 ln) ++ zeros 4
    Action.marshalM v = .ok (bs, v) ∧ Action.lenM v = .ok (8, v) ∧
    ∀ (data : Slice) (tail : Bytes) (k : Nat), data.WF → data.bytes = bs ++ tail → DecodeAction (k + 1) data = .ok v' := by
  intro v v' bs
  refine ⟨?_, rfl, ?_⟩
  · rw [action_marshal_leaf v (by simp [v, V.kind])]
    rfl
  · intro data tail k hd hb
    rw [decodeAction_of data hd Gen.openflow13.ActionType_PopVlan (by decide) (be16 (n16 ln) ++ (zeros 4 ++ tail))
      (by rw [hb]; simp only [bs, List.append_assoc]) ActionPopVlan.zero rfl (by decide)]
    simp only [Action.unmarshalLeaf, ActionPopVlan.zero, V.kind, ActionPopVlan.unmarshal]
    obtain ⟨d4, h41, h42⟩ := actionHeader_upto4 ActionHeader.zero data hd Gen.openflow13.ActionType_PopVlan ln
      (by decide) hln (zeros 4 ++ tail) (by rw [hb]; simp only [bs, List.append_assoc])
    simp only [h41, Res.bind_ok, h42, tryE, Res.pure_eq]
    rfl

/-- the 8-byte header-plus-padding actions, decoded into `new(ActionDecNwTtl)`: dec-nw-ttl 24 and the header-only actions
    copy-ttl-out 11, copy-ttl-in 12, dec-mpls-ttl 16, pop-pbb 27 -/
theorem actionHdrPad_rt (ty ln : Nat) (p : V) (hty : ty < 65536)
    (hlook : actionTypeTable.lookup ty = some ActionDecNwTtl.zero) (hln : ln < 65536) :
    let v := V.obj "ActionDecNwTtl" [ActionHeader.mk ty ln, p]
    let v' := V.obj "ActionDecNwTtl" [ActionHeader.mk ty ln, .bytes []]
    let bs := be16 (n16 ty) ++ be16 (n16 ln) ++ zeros 4
    Action.marshalM v = .ok (bs, v) ∧ Action.lenM v = .ok (8, v) ∧
    ∀ (data : Slice) (tail : Bytes) (k : Nat), data.WF → data.bytes = bs ++ tail → DecodeAction (k + 1) data = .ok v' := by
  intro v v' bs
  refine ⟨?_, rfl, ?_⟩
  · rw [action_marshal_leaf v (by simp [v, V.kind])]
    rfl
  · intro data tail k hd hb
    rw [decodeAction_of data hd ty hty (be16 (n16 ln) ++ (zeros 4 ++ tail))
      (by rw [hb]; simp only [bs, List.append_assoc]) ActionDecNwTtl.zero hlook (by decide)]
    simp only [Action.unmarshalLeaf, ActionDecNwTtl.zero, V.kind, ActionDecNwTtl.unmarshal]
    obtain ⟨d4, h41, h42⟩ := actionHeader_upto4 ActionHeader.zero data hd ty ln
      hty hln (zeros 4 ++ tail) (by rw [hb]; simp only [bs, List.append_assoc])
    simp only [h41, Res.bind_ok, h42, Res.pure_eq]
    rfl

/-- ActionDecNwTtl -/
theorem actionDecNwTtl_rt (ln : Nat) (p : V) (hln : ln < 65536) :
    let v := V.obj "ActionDecNwTtl" [ActionHeader.mk Gen.openflow13.ActionType_DecNwTtl ln, p]
    let v' := V.obj "ActionDecNwTtl" [ActionHeader.mk Gen.openflow13.ActionType_DecNwTtl ln, .bytes []]
    let bs := be16 (n16 Gen.openflow13.ActionType_DecNwTtl) ++ be16 (n16 ln) ++ zeros 4
    Action.marshalM v = .ok (bs, v) ∧ Action.lenM v = .ok (8, v) ∧
    ∀ (data : Slice) (tail : Bytes) (k : Nat), data.WF → data.bytes = bs ++ tail → DecodeAction (k + 1) data = .ok v' :=
  actionHdrPad_rt Gen.openflow13.ActionType_DecNwTtl ln p (by decide) rfl hln

/-- the four header-only action types are decoded into `new(ActionDecNwTtl)` (8 bytes) -/
theorem headerOnly_lookup (ty : Nat)
    (hty : ty = Gen.openflow13.ActionType_CopyTtlOut ∨ ty = Gen.openflow13.ActionType_CopyTtlIn ∨
      ty = Gen.openflow13.ActionType_DecMplsTtl ∨ ty = Gen.openflow13.ActionType_PopPbb) :
    ty < 65536 ∧ actionTypeTable.lookup ty = some ActionDecNwTtl.zero := by
  rcases hty with h | h | h | h <;> (rw [h]; exact ⟨by decide, rfl⟩)

/-- ActionMplsTtl (set-mpls-ttl): header, the ttl byte, 3 bytes of padding; the unexported pad comes back nil -/
theorem actionMplsTtl_rt (ln ttl : Nat) (p : V) (hln : ln < 65536) (httl : ttl < 256) :
    let v := V.obj "ActionMplsTtl" [ActionHeader.mk Gen.openflow13.ActionType_SetMplsTtl ln, .num ttl, p]
    let v' := V.obj "ActionMplsTtl" [ActionHeader.mk Gen.openflow13.ActionType_SetMplsTtl ln, .num ttl, .bytes []]
    let bs := be16 (n16 Gen.openflow13.ActionType_SetMplsTtl) ++ be16 (n16 ln) ++ [n8 ttl, 0, 0, 0]
    Action.marshalM v = .ok (bs, v) ∧ Action.lenM v = .ok (8, v) ∧
    ∀ (data : Slice) (tail : Bytes) (k : Nat), data.WF → data.bytes = bs ++ tail → DecodeAction (k + 1) data = .ok v' := by
  intro v v' bs
  refine ⟨?_, rfl, ?_⟩
  · rw [action_marshal_leaf v (by simp [v, V.kind])]
    rfl
  · intro data tail k hd hb
    have hlen := Slice.len_ge_of_bytes data _ _ hb
    have hlen8 : 8 ≤ data.len := by
      have : bs.length = 8 := rfl
      omega
    rw [decodeAction_of data hd Gen.openflow13.ActionType_SetMplsTtl (by decide) (be16 (n16 ln) ++ ([n8 ttl, 0, 0, 0] ++ tail))
      (by rw [hb]; simp only [bs, List.append_assoc]) ActionMplsTtl.zero rfl (by decide)]
    simp only [Action.unmarshalLeaf, ActionMplsTtl.zero, V.kind, ActionMplsTtl.unmarshal]
    rw [if_neg (by omega)]
    obtain ⟨d4, h41, h42⟩ := actionHeader_upto4 ActionHeader.zero data hd Gen.openflow13.ActionType_SetMplsTtl ln
      (by decide) hln ([n8 ttl, 0, 0, 0] ++ tail) (by rw [hb]; simp only [bs, List.append_assoc])
    have e4 : data.bytes[4]? = some (n8 ttl) := by rw [hb]; rfl
    simp only [h41, Res.bind_ok, h42, Slice.byteAt_eq, e4, Res.ofOption, Res.pure_eq, u8_n8 ttl httl]
    rfl

/-- ActionNwTtl (set-nw-ttl): header, the ttl byte, 3 bytes of padding; the unexported pad comes back nil -/
theorem actionNwTtl_rt (ln ttl : Nat) (p : V) (hln : ln < 65536) (httl : ttl < 256) :
    let v := V.obj "ActionNwTtl" [ActionHeader.mk Gen.openflow13.ActionType_SetNwTtl ln, .num ttl, p]
    let v' := V.obj "ActionNwTtl" [ActionHeader.mk Gen.openflow13.ActionType_SetNwTtl ln, .num ttl, .bytes []]
    let bs := be16 (n16 Gen.openflow13.ActionType_SetNwTtl) ++ be16 (n16 ln) ++ [n8 ttl, 0, 0, 0]
    Action.marshalM v = .ok (bs, v) ∧ Action.lenM v = .ok (8, v) ∧
    ∀ (data : Slice) (tail : Bytes) (k : Nat), data.WF → data.bytes = bs ++ tail → DecodeAction (k + 1) data = .ok v' := by
  intro v v' bs
  refine ⟨?_, rfl, ?_⟩
  · rw [action_marshal_leaf v (by simp [v, V.kind])]
    rfl
  · intro data tail k hd hb
    have hlen := Slice.len_ge_of_bytes data _ _ hb
    have hlen8 : 8 ≤ data.len := by
      have : bs.length = 8 := rfl
      omega
    rw [decodeAction_of data hd Gen.openflow13.ActionType_SetNwTtl (by decide) (be16 (n16 ln) ++ ([n8 ttl, 0, 0, 0] ++ tail))
      (by rw [hb]; simp only [bs, List.append_assoc]) ActionNwTtl.zero rfl (by decide)]
    simp only [Action.unmarshalLeaf, ActionNwTtl.zero, V.kind, ActionNwTtl.unmarshal]
    rw [if_neg (by omega)]
    obtain ⟨d4, h41, h42⟩ := actionHeader_upto4 ActionHeader.zero data hd Gen.openflow13.ActionType_SetNwTtl ln
      (by decide) hln ([n8 ttl, 0, 0, 0] ++ tail) (by rw [hb]; simp only [bs, List.append_assoc])
    have e4 : data.bytes[4]? = some (n8 ttl) := by rw [hb]; rfl
    simp only [h41, Res.bind_ok, h42, Slice.byteAt_eq, e4, Res.ofOption, Res.pure_eq, u8_n8 ttl httl]
    rfl


/-- ActionSetField carrying a well-formed match field: header, the field, zero padding to a multiple of 8 -/
theorem actionSetField_rt (ln : Nat) (f : V) (hln : ln < 65536) (hf : MatchFieldWF f) :
    let v := V.obj "ActionSetField" [ActionHeader.mk Gen.openflow13.ActionType_SetField ln, f]
    ∃ fb bs, MatchField.marshalM f = .ok (fb, f) ∧
      bs = be16 (n16 Gen.openflow13.ActionType_SetField) ++ be16 (n16 ln) ++ fb ++ zeros ((4 + fb.length + 7) / 8 * 8 - (4 + fb.length)) ∧
      Action.marshalM v = .ok (bs, v) ∧ Action.lenM v = .ok (UInt16.ofNat bs.length, v) ∧
      ∀ (data : Slice) (tail : Bytes) (k : Nat), data.WF → data.bytes = bs ++ tail → DecodeAction (k + 1) data = .ok v := by
  intro v
  obtain ⟨fb, hm, hl, h4, h514, hdec⟩ := matchField_roundtrip f hf
  refine ⟨fb, _, hm, rfl, ?_⟩
  have hto : (UInt16.ofNat fb.length).toNat = fb.length := by
    simp [UInt16.toNat_ofNat']; omega
  have h4l : ((4 : UInt16) + UInt16.ofNat fb.length).toNat = 4 + fb.length := by
    rw [UInt16.toNat_add, hto]
    have : (4 : UInt16).toNat = 4 := rfl
    rw [this]; omega
  have hr8 := round8_toNat ((4 : UInt16) + UInt16.ofNat fb.length) (by omega)
  rw [h4l] at hr8
  have hlenM : ActionSetField.lenM v = .ok (round8 (4 + UInt16.ofNat fb.length), v) := by
    simp only [v, ActionSetField.lenM, hl, Res.bind_ok]
  have hpl : piecesLen [pCopyAdv (be16 (n16 Gen.openflow13.ActionType_SetField) ++ be16 (n16 ln)) 4, pCopy fb]
      = 4 + fb.length := by
    simp [piecesLen, pCopyAdv, pCopy, Piece.adv]
  have hbl : (be16 (n16 Gen.openflow13.ActionType_SetField) ++ be16 (n16 ln) ++ fb ++
      zeros ((4 + fb.length + 7) / 8 * 8 - (4 + fb.length))).length = (4 + fb.length + 7) / 8 * 8 := by
    simp only [List.length_append, be16_length, zeros_length]; omega
  refine ⟨?_, ?_, ?_⟩
  · rw [action_marshal_leaf v (by simp [v, V.kind])]
    simp only [v, Action.marshalLeaf, V.kind]
    unfold ActionSetField.marshalM
    rw [hlenM]
    simp only [Res.bind_ok, v, ActionHeader.mk, ActionHeader.bytes, hm, hr8]
    rw [fill_exact _ _ (by intro p hp; simp at hp; rcases hp with rfl | rfl <;> simp [pCopyAdv, pCopy, Piece.Tight])
      (by rw [hpl]; omega), hpl]
    simp [piecesBytes, pCopyAdv, pCopy, Piece.bytes, zeros]
    rfl
  · rw [action_len_leaf v (by simp [v, V.kind])]
    simp only [Action.lenLeaf, v, V.kind]
    rw [hlenM, hbl]
    congr 2
    apply UInt16.toNat_inj.mp
    rw [hr8]; simp [UInt16.toNat_ofNat']; omega
  · intro data tail k hd hb
    have hlen := Slice.len_ge_of_bytes data _ _ hb
    rw [hbl] at hlen
    rw [decodeAction_of data hd Gen.openflow13.ActionType_SetField (by decide)
      (be16 (n16 ln) ++ (fb ++ (zeros ((4 + fb.length + 7) / 8 * 8 - (4 + fb.length)) ++ tail)))
      (by rw [hb]; simp only [List.append_assoc]) ActionSetField.zero rfl (by decide)]
    simp only [Action.unmarshalLeaf, ActionSetField.zero, V.kind, ActionSetField.unmarshal]
    obtain ⟨d0, h01, h02, _⟩ := Slice.fromR_bytes data 0 (by omega)
    have hd0 : d0.WF := (Slice.fromR_wf data hd 0 d0 h01).1
    obtain ⟨d4, h41, h42, _⟩ := Slice.fromR_bytes data 4 (by omega)
    have hd4 : d4.WF := (Slice.fromR_wf data hd 4 d4 h41).1
    have hd4b : d4.bytes = fb ++ (zeros ((4 + fb.length + 7) / 8 * 8 - (4 + fb.length)) ++ tail) := by
      rw [h42, hb]; simp only [List.append_assoc]; rfl
    have hz : mfZero = MatchField.zero := rfl
    simp only [h01, h41, Res.bind_ok,
      actionHeader_unmarshal _ d0 hd0 Gen.openflow13.ActionType_SetField ln (by decide) hln
        (fb ++ (zeros ((4 + fb.length + 7) / 8 * 8 - (4 + fb.length)) ++ tail))
        (by rw [h02, hb]; simp only [List.drop_zero, List.append_assoc]),
      tryE, hz, hdec d4 _ hd4 hd4b, hl, Res.pure_eq]
    rfl

end OFV.RT
