/-
  OFV.Lemmas.RT2Vendor — experimenter (vendor) messages through Parse: VendorHeader around any round-tripping payload, and the
  payload kinds ControllerID, BundleControl, TLVTableMod / TLVTableReply (any list of mappings).  Used by OFV/Props/C05b.lean.
-/
import OFV.Model.All
import OFV.Lemmas.Size
import OFV.Lemmas.RTBasic
import OFV.Lemmas.RTMatch
import OFV.Lemmas.RTMsg
import OFV.Lemmas.RTMsgMore
import OFV.Lemmas.RT2Nx
namespace OFV.RT2
set_option linter.unusedSimpArgs false
open OFV OFV.Go OFV.Model OFV.RT

/-- vendor payload `d` of experimenter type `ty` with encoding `e`: encodes unchanged through the `util.Message` interface,
    Len() = |e|, and `decodeVendorData(ty, …)` run on a slice holding exactly `e` (Parse nesting budget `k` above its
    capacity) returns it -/
def VendorDataRT (ty : Nat) (d : V) (e : Bytes) : Prop :=
  anyMarshalM d = .ok (e, d) ∧ anyLenM d = .ok (n16 e.length, d) ∧ (∃ kd fs, d = .obj kd fs) ∧ 0 < e.length ∧
  ∀ (k : Nat) (s : Slice), s.WF → s.bytes = e → s.cap < k → decodeVendorDataWith (parseD k) anyLenM ty s = .ok d

/-- a VendorHeader value (header type = experimenter) -/
def vendorV (ver ln xid vn ty : Nat) (d : V) : V :=
  .obj "VendorHeader" [.obj "Header" [.num ver, .num Gen.openflow13.Type_Experimenter, .num ln, .num xid], .num vn, .num ty, d]

theorem slice_cap_le (s t : Slice) (a b : Nat) (h : s.sliceR a b = .ok t) : t.cap ≤ s.cap - a := by
  unfold Slice.sliceR Slice.slice Res.ofOption at h
  split at h
  · rename_i x hx
    cases h
    split at hx
    · cases hx; simp [Slice.cap]
    · cases hx
  · cases h


/-- VendorHeader (experimenter message) around any round-tripping vendor payload, through Parse: header with the computed Length,
    vendor id, experimenter type, payload -/
theorem vendor_rt (ver xid vn ty : Nat) (d : V) (e : Bytes) (hver : ver < 256) (hxid : xid < 4294967296) (hvn : vn < 4294967296)
    (hty : ty < 4294967296) (hd : VendorDataRT ty d e) (hS : 16 + e.length < 65536) :
    let L := 16 + e.length
    let bs := [n8 ver, n8 Gen.openflow13.Type_Experimenter] ++ be16 (n16 L) ++ be32 (n32 xid) ++ be32 (n32 vn) ++ be32 (n32 ty) ++ e
    (∀ ln0, VendorHeader.marshalM (vendorV ver ln0 xid vn ty d) = .ok (bs, vendorV ver L xid vn ty d)) ∧ bs.length = L ∧
    ∀ (depth : Nat) (data : Slice) (tail : Bytes), data.WF → data.bytes = bs ++ tail →
      parse depth data = .ok (vendorV ver L xid vn ty d) := by
  intro L bs
  obtain ⟨hm, hl, ⟨kd, fs, rfl⟩, h0, hdec⟩ := hd
  have hL : L < 65536 := hS
  have hbl : bs.length = L := by
    simp only [bs, List.length_append, be16_length, be32_length, List.length_cons, List.length_nil, L]
  refine ⟨fun ln0 => ?_, hbl, ?_⟩
  · unfold VendorHeader.marshalM VendorHeader.marshalWith
    have hlen : ∀ ln1, VendorHeader.lenWith anyLenM (vendorV ver ln1 xid vn ty (.obj kd fs)) = .ok (n16 L, vendorV ver ln1 xid vn ty (.obj kd fs)) := by
      intro ln1
      simp only [vendorV, VendorHeader.lenWith, hl, Res.bind_ok, Res.pure_eq]
      have : (16 : UInt16) + n16 e.length = n16 L := by
        have : (16 : UInt16) = n16 16 := rfl
        rw [this, n16_add]
      rw [this]
    rw [hlen ln0]
    simp only [Res.bind_ok]
    rw [hlen ln0]
    simp only [vendorV, Res.bind_ok, Header.setLength, Header.bytes, u16_n16 L hL, n16_toNat L hL, hm]
    have hp1 : piecesLen [pCopy ([n8 ver, n8 Gen.openflow13.Type_Experimenter] ++ be16 (n16 L) ++ be32 (n32 xid)), pU32 vn, pU32 ty] = 16 := rfl
    rw [fill_exact L _ (by intro p hp; simp at hp; rcases hp with rfl | rfl | rfl <;> trivial) (by rw [hp1]; simp only [L]; omega)]
    simp only [Res.bind_ok]
    have hp2 : piecesLen ([pCopy ([n8 ver, n8 Gen.openflow13.Type_Experimenter] ++ be16 (n16 L) ++ be32 (n32 xid)), pU32 vn, pU32 ty] ++ [pCopy e]) = L := by
      rw [piecesLen_app, hp1]; simp [piecesLen, pCopy, Piece.adv, L]
    rw [fill_eq L _ (by intro p hp; simp at hp; rcases hp with rfl | rfl | rfl | rfl <;> trivial) hp2]
    simp [piecesBytes, pCopy, pU32, Piece.bytes, bs]
  · intro depth data tail hdw hb
    have hlen := Slice.len_ge_of_bytes data _ _ hb
    rw [hbl] at hlen
    have hb' : data.bytes = ([n8 ver, n8 Gen.openflow13.Type_Experimenter] ++ be16 (n16 L) ++ be32 (n32 xid)) ++ (be32 (n32 vn) ++ (be32 (n32 ty)
        ++ (e ++ tail))) := by
      rw [hb]; simp only [bs, List.append_assoc]
    unfold parse
    obtain ⟨k, hk⟩ : ∃ k, max depth (data.cap + 1) = k + 1 := ⟨max depth (data.cap + 1) - 1, by omega⟩
    have hkc : data.cap ≤ k := by omega
    rw [hk]
    unfold parseD parseStep
    have e1 : data.bytes[1]? = some (n8 Gen.openflow13.Type_Experimenter) := by rw [hb']; rfl
    have ht4 : (n8 Gen.openflow13.Type_Experimenter).toNat = 4 := by decide
    have ht4' : (n8 4).toNat = 4 := by decide
    simp only [Slice.byteAt_eq, e1, Res.ofOption, Res.bind_ok, ht4, ht4',
      Gen.openflow13.Type_EchoRequest, Gen.openflow13.Type_EchoReply, Gen.openflow13.Type_GetConfigRequest,
      Gen.openflow13.Type_BarrierRequest, Gen.openflow13.Type_BarrierReply, Gen.openflow13.Type_FeaturesRequest,
      Gen.openflow13.Type_Hello, Gen.openflow13.Type_Error, Gen.openflow13.Type_Experimenter,
      Nat.reduceEqDiff, reduceIte, if_false, if_true, or_true, true_or, or_false, false_or, or_self]
    obtain ⟨_, _, hhdr⟩ := header_roundtrip ver Gen.openflow13.Type_Experimenter L xid hver (by decide) hL hxid
    have hh := hhdr Header.zero data _ hdw hb'
    have e8 : rd32 (data.bytes.drop 8) = some (n32 vn) := by rw [hb']; exact rd32_be32 _ _
    have e12 : rd32 (data.bytes.drop 12) = some (n32 ty) := by rw [hb']; exact rd32_be32 _ _
    obtain ⟨s, hs1, hs2, hs3⟩ := Slice.sliceR_bytes data hdw 16 L (by omega) (by omega)
    have hswf : s.WF := (Slice.sliceR_wf data 16 L s hs1).1
    have hsb : s.bytes = e := by
      rw [hs2, hb']
      have : List.drop 16 ([n8 ver, n8 Gen.openflow13.Type_Experimenter] ++ be16 (n16 L) ++ be32 (n32 xid) ++ (be32 (n32 vn) ++ (be32 (n32 ty)
        ++ (e ++ tail)))) = e ++ tail := rfl
      rw [this]; simp [L]
    have hscap : s.cap < k := by
      have := slice_cap_le data s 16 L hs1
      have h16 : 16 ≤ data.cap := by unfold Slice.WF at hdw; unfold Slice.cap; omega
      omega
    simp only [VendorHeader.unmarshalWith, VendorHeader.zero]
    rw [if_neg (by omega)]
    simp only [msgTryU, hh, Res.bind_ok, Slice.u32From_eq, e8, e12, Res.ofOption, Header.length]
    rw [if_pos (by simp only [L]; omega)]
    simp only [hs1, Res.bind_ok, n32_toNat ty hty, hdec k s hswf hsb hscap, Res.pure_eq, recoverR, u32_n32 vn hvn, u32_n32 ty hty, vendorV]


theorem anyLen_cid (fs : List V) : anyLenM (.obj "ControllerID" fs) = ControllerID.lenM (.obj "ControllerID" fs) := rfl
theorem anyMarshal_cid (fs : List V) : anyMarshalM (.obj "ControllerID" fs) = ControllerID.marshalM (.obj "ControllerID" fs) := rfl
theorem anyLen_bctl (fs : List V) : anyLenM (.obj "BundleControl" fs) = BundleControl.lenM (.obj "BundleControl" fs) := rfl
theorem anyMarshal_bctl (fs : List V) : anyMarshalM (.obj "BundleControl" fs) = BundleControl.marshalM (.obj "BundleControl" fs) := rfl
theorem anyLen_tmod (fs : List V) : anyLenM (.obj "TLVTableMod" fs) = TLVTableMod.lenM (.obj "TLVTableMod" fs) := rfl
theorem anyMarshal_tmod (fs : List V) : anyMarshalM (.obj "TLVTableMod" fs) = TLVTableMod.marshalM (.obj "TLVTableMod" fs) := rfl
theorem anyLen_trep (fs : List V) : anyLenM (.obj "TLVTableReply" fs) = TLVTableReply.lenM (.obj "TLVTableReply" fs) := rfl
theorem anyMarshal_trep (fs : List V) : anyMarshalM (.obj "TLVTableReply" fs) = TLVTableReply.marshalM (.obj "TLVTableReply" fs) := rfl

/-- ControllerID (NXT_SET_CONTROLLER_ID): 6 pad bytes, the id -/
theorem vendorData_controllerID (id : Nat) (hid : id < 65536) :
    VendorDataRT Gen.openflow13.Type_SetControllerId (.obj "ControllerID" [.bytes (zeros 6), .num id]) (zeros 6 ++ be16 (n16 id)) := by
  refine ⟨rfl, rfl, ⟨_, _, rfl⟩, by simp, ?_⟩
  intro k s hs hb _
  have hlen : 8 ≤ s.len := by
    have := Slice.bytes_length_le s; rw [hb] at this; simpa using this
  have e6 : rd16 (s.bytes.drop 6) = some (n16 id) := by rw [hb]; exact rd16_be16' _
  simp only [decodeVendorDataWith, if_true, ControllerID.unmarshal, ControllerID.zero]
  rw [if_neg (by omega)]
  simp only [Slice.u16From_eq, e6, Res.ofOption, Res.bind_ok, Res.pure_eq, u16_n16 id hid]

/-- BundleControl (ONF bundle control): bundle id, type, flags -/
theorem vendorData_bundleControl (i t f : Nat) (hi : i < 4294967296) (ht : t < 65536) (hf : f < 65536) :
    VendorDataRT Gen.openflow13.Type_BundleCtrl (.obj "BundleControl" [.num i, .num t, .num f])
      (be32 (n32 i) ++ be16 (n16 t) ++ be16 (n16 f)) := by
  refine ⟨?_, rfl, ⟨_, _, rfl⟩, by simp, ?_⟩
  · rw [anyMarshal_bctl]
    simp only [BundleControl.marshalM]
    rw [fill_eq 8 _ (by intro p hp; simp at hp; rcases hp with rfl | rfl | rfl <;> trivial) rfl]
    rfl
  · intro k s hs hb _
    have hlen : 8 ≤ s.len := by
      have := Slice.bytes_length_le s; rw [hb] at this; simpa using this
    have hb' : s.bytes = be32 (n32 i) ++ (be16 (n16 t) ++ (be16 (n16 f) ++ [])) := by rw [hb]; simp
    have e0 : rd32 (s.bytes.drop 0) = some (n32 i) := by rw [hb']; exact rd32_be32 _ _
    have e4 : rd16 (s.bytes.drop 4) = some (n16 t) := by rw [hb']; exact rd16_be16 _ _
    have e6 : rd16 (s.bytes.drop 6) = some (n16 f) := by rw [hb']; exact rd16_be16 _ _
    simp only [decodeVendorDataWith, Gen.openflow13.Type_BundleCtrl, Gen.openflow13.Type_SetControllerId, Gen.openflow13.Type_TlvTableMod,
      Gen.openflow13.Type_TlvTableReply, Nat.reduceEqDiff, if_false, if_true, BundleControl.unmarshal]
    rw [if_neg (by omega)]
    simp only [Slice.u32From_eq, Slice.u16From_eq, e0, e4, e6, Res.ofOption, Res.bind_ok, Res.pure_eq, u32_n32 i hi, u16_n16 t ht,
      u16_n16 f hf]

/-- a TLV table mapping: option class, type, length, tun_metadata index -/
structure TlvMap where
  c : Nat
  t : Nat
  l : Nat
  i : Nat

def TlvMap.ok (m : TlvMap) : Prop := m.c < 65536 ∧ m.t < 256 ∧ m.l < 256 ∧ m.i < 65536
def TlvMap.v (m : TlvMap) : V := .obj "TLVTableMap" [.num m.c, .num m.t, .num m.l, .num m.i, .bytes (zeros 2)]
def TlvMap.wire (m : TlvMap) : Bytes := be16 (n16 m.c) ++ [n8 m.t, n8 m.l] ++ be16 (n16 m.i) ++ zeros 2
def tlvWire (ms : List TlvMap) : Bytes := (ms.map TlvMap.wire).flatten

theorem tlvWire_length (ms : List TlvMap) : (tlvWire ms).length = 8 * ms.length := by
  induction ms with
  | nil => rfl
  | cons m ms ih =>
    simp only [tlvWire, List.map_cons, List.flatten_cons, List.length_append, List.length_cons] at ih ⊢
    have : m.wire.length = 8 := rfl
    omega

theorem tlv_marshal (ms : List TlvMap) :
    mapM2 TLVTableMap.marshalM (ms.map TlvMap.v) = .ok (ms.map TlvMap.wire, ms.map TlvMap.v) ∧
    mapM2 TLVTableMap.lenM (ms.map TlvMap.v) = .ok (ms.map (fun _ => (8 : UInt16)), ms.map TlvMap.v) := by
  induction ms with
  | nil => exact ⟨rfl, rfl⟩
  | cons m ms ih =>
    have hm : TLVTableMap.marshalM m.v = .ok (m.wire, m.v) := by
      simp only [TlvMap.v, TLVTableMap.marshalM]
      have hpl : piecesLen [pU16 m.c, pU8 m.t, pU8 m.l, pU16 m.i] = 6 := rfl
      rw [fill_exact 8 _ (by intro p hp; simp at hp; rcases hp with rfl | rfl | rfl | rfl <;> trivial) (by rw [hpl]; decide), hpl]
      rfl
    constructor
    · simp [mapM2, hm, ih.1]
    · simp [mapM2, TLVTableMap.lenM, same, ih.2]

theorem sum16_eights (n : Nat) (ms : List TlvMap) (h : ms.length = n) (hn : 8 * n < 65536) :
    sum16 (ms.map (fun _ => (8 : UInt16))) = n16 (8 * n) := by
  induction ms generalizing n with
  | nil => subst h; rfl
  | cons m ms ih =>
    subst h
    simp only [List.map_cons, sum16_cons, List.length_cons]
    rw [ih ms.length rfl (by simp at hn; omega)]
    have : (8 : UInt16) = n16 8 := rfl
    rw [this, n16_add]; congr 1; omega

/-- the map loop shared by TLVTableMod and TLVTableReply: runs to the end of the slice -/
theorem tlv_loop (s : Slice) (hs : s.WF) (ms : List TlvMap) (hms : ∀ m ∈ ms, m.ok) :
    ∀ (pre : Bytes) (acc : List V) (fuel : Nat), s.bytes = pre ++ tlvWire ms → ms.length < fuel →
      goLoop (σ := TLVTableMap.St) fuel (fun st => decide (st.n < s.len)) (·.n)
        (fun st => do
          let d ← s.fromR st.n
          let m ← TLVTableMap.unmarshal TLVTableMap.zero d
          pure { n := st.n + 8, maps := st.maps ++ [m] })
        { n := pre.length, maps := acc }
      = .ok { n := s.len, maps := acc ++ ms.map TlvMap.v } := by
  induction ms with
  | nil =>
    intro pre acc fuel hb hfuel
    have hl : s.len = pre.length := by
      have := Slice.bytes_length s hs; rw [hb] at this; simpa [tlvWire] using this.symm
    cases fuel with
    | zero => simp at hfuel
    | succ j => simp [goLoop, hl]
  | cons m ms ih =>
    intro pre acc fuel hb hfuel
    obtain ⟨hc, ht, hl, hi⟩ := hms m (by simp)
    cases fuel with
    | zero => simp at hfuel
    | succ j =>
      have hlen : s.len = pre.length + (8 + 8 * ms.length) := by
        have := Slice.bytes_length s hs; rw [hb] at this
        simp only [List.length_append, tlvWire_length, List.length_cons] at this; omega
      obtain ⟨t, ht1, ht2, ht3, _⟩ := Slice.fromR_bytes s pre.length (by omega)
      have htb : t.bytes = be16 (n16 m.c) ++ ([n8 m.t, n8 m.l] ++ (be16 (n16 m.i) ++ (zeros 2 ++ tlvWire ms))) := by
        rw [ht2, hb]; simp only [tlvWire, List.map_cons, List.flatten_cons, TlvMap.wire, List.append_assoc]; exact List.drop_left' rfl
      have e0 : rd16 (t.bytes.drop 0) = some (n16 m.c) := by rw [htb]; exact rd16_be16 _ _
      have e2 : t.bytes[2]? = some (n8 m.t) := by rw [htb]; rfl
      have e3 : t.bytes[3]? = some (n8 m.l) := by rw [htb]; rfl
      have e4 : rd16 (t.bytes.drop 4) = some (n16 m.i) := by rw [htb]; exact rd16_be16 _ _
      have hdec : TLVTableMap.unmarshal TLVTableMap.zero t = .ok m.v := by
        simp only [TLVTableMap.unmarshal, TLVTableMap.zero]
        rw [if_neg (by omega)]
        simp only [Slice.u16From_eq, Slice.byteAt_eq, e0, e2, e3, e4, Res.ofOption, Res.bind_ok, Res.pure_eq, u16_n16 m.c hc,
          u8_n8 m.t ht, u8_n8 m.l hl, u16_n16 m.i hi, TlvMap.v]
      unfold goLoop
      have hcond : decide (pre.length < s.len) = true := by simp only [decide_eq_true_eq]; omega
      simp only [hcond, if_true, ht1, Res.bind_ok, hdec, Res.pure_eq]
      have hcur : ¬ (pre.length + 8 ≤ pre.length) := by omega
      simp only [if_false, hcur]
      have := ih (fun x hx => hms x (by simp [hx])) (pre ++ m.wire) (acc ++ [m.v]) j
        (by rw [hb]; simp [tlvWire]) (by simp only [List.length_cons] at hfuel; omega)
      have hw : m.wire.length = 8 := rfl
      simp only [List.length_append, hw, List.append_assoc, List.cons_append, List.nil_append, Res.pure_eq] at this
      rw [this]
      simp only [List.map_cons]


theorem tlv_pieces (ms : List TlvMap) :
    piecesLen ((ms.map TlvMap.wire).map pCopy) = 8 * ms.length ∧ piecesBytes ((ms.map TlvMap.wire).map pCopy) = tlvWire ms ∧
    ∀ p ∈ (ms.map TlvMap.wire).map pCopy, p.Tight := by
  obtain ⟨h1, h2, h3⟩ := pieces_copy (ms.map TlvMap.wire)
  exact ⟨by rw [h1]; exact tlvWire_length ms, h2, h3⟩

/-- TLVTableMod (NXT_TLV_TABLE_MOD): command, 6 pad bytes, any list of mappings -/
theorem vendorData_tlvTableMod (c : Nat) (ms : List TlvMap) (hc : c < 65536) (hms : ∀ m ∈ ms, m.ok) (hn : 8 + 8 * ms.length < 65536) :
    VendorDataRT Gen.openflow13.Type_TlvTableMod (.obj "TLVTableMod" [.num c, .bytes (zeros 6), .list (ms.map TlvMap.v)])
      (be16 (n16 c) ++ zeros 6 ++ tlvWire ms) := by
  obtain ⟨hmm, hml⟩ := tlv_marshal ms
  obtain ⟨p1, p2, p3⟩ := tlv_pieces ms
  have hel : (be16 (n16 c) ++ zeros 6 ++ tlvWire ms).length = 8 + 8 * ms.length := by
    simp only [List.length_append, be16_length, zeros_length, tlvWire_length]
  have hlenM : TLVTableMod.lenM (.obj "TLVTableMod" [.num c, .bytes (zeros 6), .list (ms.map TlvMap.v)])
      = .ok (n16 (8 + 8 * ms.length), .obj "TLVTableMod" [.num c, .bytes (zeros 6), .list (ms.map TlvMap.v)]) := by
    simp only [TLVTableMod.lenM, hml, Res.bind_ok, Res.pure_eq, sum16_eights ms.length ms rfl (by omega)]
    have : (8 : UInt16) = n16 8 := rfl
    rw [this, n16_add]
  refine ⟨?_, by rw [anyLen_tmod, hlenM, hel], ⟨_, _, rfl⟩, by rw [hel]; omega, ?_⟩
  · rw [anyMarshal_tmod]
    unfold TLVTableMod.marshalM
    rw [hlenM]
    simp only [Res.bind_ok, hmm, n16_toNat _ hn]
    rw [fill_eq _ _ (by
        intro p hp
        simp only [List.mem_cons] at hp
        rcases hp with rfl | rfl | hp
        · trivial
        · trivial
        · exact p3 p hp) (by
        show piecesLen ([pU16 c, pSkip 6] ++ (ms.map TlvMap.wire).map pCopy) = _
        rw [piecesLen_app, p1]; rfl)]
    simp only [Res.bind_ok]
    show Res.ok (piecesBytes ([pU16 c, pSkip 6] ++ (ms.map TlvMap.wire).map pCopy), _) = _
    rw [piecesBytes_app, p2]
    rfl
  · intro k s hs hb _
    have hlen : s.len = 8 + 8 * ms.length := by
      have := Slice.bytes_length s hs; rw [hb, hel] at this; exact this.symm
    have hb' : s.bytes = be16 (n16 c) ++ (zeros 6 ++ tlvWire ms) := by rw [hb]; simp only [List.append_assoc]
    have e0 : rd16 (s.bytes.drop 0) = some (n16 c) := by rw [hb']; exact rd16_be16 _ _
    have hloop := tlv_loop s hs ms hms (be16 (n16 c) ++ zeros 6) [] (s.len + 1) hb (by omega)
    simp only [List.length_append, be16_length, zeros_length, List.nil_append, Nat.reduceAdd] at hloop
    simp only [decodeVendorDataWith, Gen.openflow13.Type_SetControllerId, Gen.openflow13.Type_TlvTableMod, Nat.reduceEqDiff, if_false,
      if_true, TLVTableMod.unmarshal, TLVTableMod.zero]
    rw [if_neg (by omega)]
    simp only [Slice.u16From_eq, e0, Res.ofOption, Res.bind_ok, TLVTableMap.decodeList]
    erw [hloop]
    simp only [Res.bind_ok, Res.pure_eq, u16_n16 c hc]

/-- TLVTableReply (NXT_TLV_TABLE_REPLY): max option space, max fields, 10 reserved bytes, any list of mappings -/
theorem vendorData_tlvTableReply (a b : Nat) (ms : List TlvMap) (ha : a < 4294967296) (hb16 : b < 65536) (hms : ∀ m ∈ ms, m.ok)
    (hn : 16 + 8 * ms.length < 65536) :
    VendorDataRT Gen.openflow13.Type_TlvTableReply (.obj "TLVTableReply" [.num a, .num b, .bytes (zeros 10), .list (ms.map TlvMap.v)])
      (be32 (n32 a) ++ be16 (n16 b) ++ zeros 10 ++ tlvWire ms) := by
  obtain ⟨hmm, hml⟩ := tlv_marshal ms
  obtain ⟨p1, p2, p3⟩ := tlv_pieces ms
  have hel : (be32 (n32 a) ++ be16 (n16 b) ++ zeros 10 ++ tlvWire ms).length = 16 + 8 * ms.length := by
    simp only [List.length_append, be16_length, be32_length, zeros_length, tlvWire_length]
  have hlenM : TLVTableReply.lenM (.obj "TLVTableReply" [.num a, .num b, .bytes (zeros 10), .list (ms.map TlvMap.v)])
      = .ok (n16 (16 + 8 * ms.length), .obj "TLVTableReply" [.num a, .num b, .bytes (zeros 10), .list (ms.map TlvMap.v)]) := by
    simp only [TLVTableReply.lenM, hml, Res.bind_ok, Res.pure_eq, sum16_eights ms.length ms rfl (by omega)]
    have : (16 : UInt16) = n16 16 := rfl
    rw [this, n16_add]
  refine ⟨?_, by rw [anyLen_trep, hlenM, hel], ⟨_, _, rfl⟩, by rw [hel]; omega, ?_⟩
  · rw [anyMarshal_trep]
    unfold TLVTableReply.marshalM
    rw [hlenM]
    simp only [Res.bind_ok, hmm, n16_toNat _ hn]
    rw [fill_eq _ _ (by
        intro p hp
        simp only [List.mem_cons] at hp
        rcases hp with rfl | rfl | rfl | hp
        · trivial
        · trivial
        · trivial
        · exact p3 p hp) (by
        show piecesLen ([pU32 a, pU16 b, pSkip 10] ++ (ms.map TlvMap.wire).map pCopy) = _
        rw [piecesLen_app, p1]; rfl)]
    simp only [Res.bind_ok]
    show Res.ok (piecesBytes ([pU32 a, pU16 b, pSkip 10] ++ (ms.map TlvMap.wire).map pCopy), _) = _
    rw [piecesBytes_app, p2]
    rfl
  · intro k s hs hb _
    have hlen : s.len = 16 + 8 * ms.length := by
      have := Slice.bytes_length s hs; rw [hb, hel] at this; exact this.symm
    have hb' : s.bytes = be32 (n32 a) ++ (be16 (n16 b) ++ (zeros 10 ++ tlvWire ms)) := by rw [hb]; simp only [List.append_assoc]
    have e0 : rd32 (s.bytes.drop 0) = some (n32 a) := by rw [hb']; exact rd32_be32 _ _
    have e4 : rd16 (s.bytes.drop 4) = some (n16 b) := by rw [hb']; exact rd16_be16 _ _
    obtain ⟨r, hr1, hr2, _⟩ := Slice.sliceR_bytes s hs 6 16 (by omega) (by omega)
    have hrb : r.bytes = zeros 10 := by rw [hr2, hb']; rfl
    have hloop := tlv_loop s hs ms hms (be32 (n32 a) ++ be16 (n16 b) ++ zeros 10) [] (s.len + 1) hb (by omega)
    simp only [List.length_append, be16_length, be32_length, zeros_length, List.nil_append, Nat.reduceAdd] at hloop
    simp only [decodeVendorDataWith, Gen.openflow13.Type_SetControllerId, Gen.openflow13.Type_TlvTableMod,
      Gen.openflow13.Type_TlvTableReply, Nat.reduceEqDiff, if_false, if_true, TLVTableReply.unmarshal, TLVTableReply.zero]
    simp only [Slice.u32From_eq, Slice.u16From_eq, e0, e4, Res.ofOption, Res.bind_ok, hr1, hrb, TLVTableMap.decodeList]
    erw [hloop]
    simp only [Res.bind_ok, Res.pure_eq, u32_n32 a ha, u16_n16 b hb16, makeCopy_self 10 (zeros 10) rfl]

end OFV.RT2
