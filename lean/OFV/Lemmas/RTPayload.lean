/-
  OFV.Lemmas.RTPayload — round trip of the 30 match payload kinds (used by OFV/Props/C05.lean):
  well-formedness predicate `PayloadWF`, receiver condition `RecvOK`, and for well-formed values
  encode succeeds / Len = encoded length / decoding `encoding ++ tail` gives the value back.
-/
import OFV.Model.All
import OFV.Lemmas.Size
import OFV.Lemmas.RTBasic
namespace OFV.RT
set_option linter.unusedSimpArgs false
open OFV OFV.Go OFV.Model

/-- the 16-byte IPv4-in-IPv6 form, as produced by net.IPv4 / net.ParseIP -/
def isV4in6 (ip : Bytes) : Prop := ip.length = 16 ∧ ip.take 12 = zeros 10 ++ [255, 255]

theorem isV4in6_iff (ip : Bytes) (h : isV4in6 ip) : ∃ a b c d, ip = ipv4 a b c d := by
  obtain ⟨hl, ht⟩ := h
  have hs : ip = ip.take 12 ++ ip.drop 12 := (List.take_append_drop 12 ip).symm
  have hd : (ip.drop 12).length = 4 := by simp [hl]
  match hq : ip.drop 12, hd with
  | [a, b, c, d], _ =>
    refine ⟨a, b, c, d, ?_⟩
    rw [hs, ht, hq]
    simp [ipv4]

theorem ipTo4_ipv4 (a b c d : UInt8) : ipTo4 (ipv4 a b c d) = [a, b, c, d] := by
  simp [ipTo4, ipv4, zeros]

theorem readIPv4_eq (data : Slice) (a b c d : UInt8) (tail : Bytes) (h : data.bytes = [a, b, c, d] ++ tail) :
    readIPv4 data = .ok (ipv4 a b c d) := by
  simp [readIPv4, Slice.byteAt_eq, h, Res.ofOption]


/-- `K(x)` with `x` below the bound -/
def IsNum (k : String) (bound : Nat) (v : V) : Prop := ∃ x, v = .obj k [.num x] ∧ x < bound
/-- `K(b)` with a byte string of exactly n bytes -/
def IsBytes (k : String) (n : Nat) (v : V) : Prop := ∃ b, v = .obj k [.bytes b] ∧ b.length = n
/-- `K(ip)` with a net.IP in the 16-byte form of an IPv4 address -/
def IsIPv4 (k : String) (v : V) : Prop := ∃ ip, v = .obj k [.bytes ip] ∧ isV4in6 ip

/-- well-formed match payload values -/
def PayloadWF (v : V) : Prop :=
  match v.kind with
  | "InPortField" => IsNum "InPortField" 4294967296 v
  | "EthDstField" => IsBytes "EthDstField" 6 v
  | "EthSrcField" => IsBytes "EthSrcField" 6 v
  | "EthTypeField" => IsNum "EthTypeField" 65536 v
  | "VlanIdField" => IsNum "VlanIdField" 65536 v
  | "MplsLabelField" => IsNum "MplsLabelField" 4294967296 v
  | "MplsBosField" => IsNum "MplsBosField" 256 v
  | "Ipv4SrcField" => IsIPv4 "Ipv4SrcField" v
  | "Ipv4DstField" => IsIPv4 "Ipv4DstField" v
  | "Ipv6SrcField" => IsBytes "Ipv6SrcField" 16 v
  | "Ipv6DstField" => IsBytes "Ipv6DstField" 16 v
  | "IPv6FlowLabelField" => IsNum "IPv6FlowLabelField" 4294967296 v
  | "IpProtoField" => IsNum "IpProtoField" 256 v
  | "IpDscpField" => IsNum "IpDscpField" 256 v
  | "TunnelIdField" => IsNum "TunnelIdField" 18446744073709551616 v
  | "MetadataField" => IsNum "MetadataField" 18446744073709551616 v
  | "PortField" => IsNum "PortField" 65536 v
  | "TcpFlagsField" => IsNum "TcpFlagsField" 65536 v
  | "ArpOperField" => IsNum "ArpOperField" 65536 v
  | "TunnelIpv4SrcField" => IsIPv4 "TunnelIpv4SrcField" v
  | "TunnelIpv4DstField" => IsIPv4 "TunnelIpv4DstField" v
  | "ArpXHaField" => IsBytes "ArpXHaField" 6 v
  | "ArpXPaField" => IsIPv4 "ArpXPaField" v
  | "ActsetOutputField" => IsNum "ActsetOutputField" 4294967296 v
  | "IcmpTypeField" => IsNum "IcmpTypeField" 256 v
  | "IcmpCodeField" => IsNum "IcmpCodeField" 256 v
  | "Uint16Message" => IsNum "Uint16Message" 65536 v
  | "Uint32Message" => IsNum "Uint32Message" 4294967296 v
  | "ByteArrayField" => ∃ d l, v = .obj "ByteArrayField" [.bytes d, .num l] ∧ l < 256 ∧ d.length = l
  | "CTLabel" => IsBytes "CTLabel" 16 v
  | _ => False

/-- the receiver the decoder is called on: of the same kind; a ByteArrayField receiver carries the expected Length
    (the decoder reads it), an ArpXHaField receiver is any allocated one -/
def RecvOK (v recv : V) : Prop :=
  recv.kind = v.kind ∧
  (v.kind = "ByteArrayField" → ∃ d d' l, v = .obj "ByteArrayField" [d, l] ∧ recv = .obj "ByteArrayField" [d', l]) ∧
  (v.kind = "ArpXHaField" → ∃ b, recv = .obj "ArpXHaField" [.bytes b])

open Lean.Parser.Tactic in
/-- unfold the Len / MarshalBinary / UnmarshalBinary of the 30 payload kinds -/
macro "payload_defs" loc:(location)? : tactic =>
  `(tactic| simp only [InPortField.lenM, InPortField.marshalM, InPortField.unmarshal, EthDstField.lenM, EthDstField.marshalM, EthDstField.unmarshal, EthSrcField.lenM, EthSrcField.marshalM, EthSrcField.unmarshal, EthTypeField.lenM, EthTypeField.marshalM, EthTypeField.unmarshal, VlanIdField.lenM, VlanIdField.marshalM, VlanIdField.unmarshal, MplsLabelField.lenM, MplsLabelField.marshalM, MplsLabelField.unmarshal, MplsBosField.lenM, MplsBosField.marshalM, MplsBosField.unmarshal, Ipv4SrcField.lenM, Ipv4SrcField.marshalM, Ipv4SrcField.unmarshal, Ipv4DstField.lenM, Ipv4DstField.marshalM, Ipv4DstField.unmarshal, Ipv6SrcField.lenM, Ipv6SrcField.marshalM, Ipv6SrcField.unmarshal, Ipv6DstField.lenM, Ipv6DstField.marshalM, Ipv6DstField.unmarshal, IPv6FlowLabelField.lenM, IPv6FlowLabelField.marshalM, IPv6FlowLabelField.unmarshal, IpProtoField.lenM, IpProtoField.marshalM, IpProtoField.unmarshal, IpDscpField.lenM, IpDscpField.marshalM, IpDscpField.unmarshal, TunnelIdField.lenM, TunnelIdField.marshalM, TunnelIdField.unmarshal, MetadataField.lenM, MetadataField.marshalM, MetadataField.unmarshal, PortField.lenM, PortField.marshalM, PortField.unmarshal, TcpFlagsField.lenM, TcpFlagsField.marshalM, TcpFlagsField.unmarshal, ArpOperField.lenM, ArpOperField.marshalM, ArpOperField.unmarshal, TunnelIpv4SrcField.lenM, TunnelIpv4SrcField.marshalM, TunnelIpv4SrcField.unmarshal, TunnelIpv4DstField.lenM, TunnelIpv4DstField.marshalM, TunnelIpv4DstField.unmarshal, ArpXHaField.lenM, ArpXHaField.marshalM, ArpXHaField.unmarshal, ArpXPaField.lenM, ArpXPaField.marshalM, ArpXPaField.unmarshal, ActsetOutputField.lenM, ActsetOutputField.marshalM, ActsetOutputField.unmarshal, IcmpTypeField.lenM, IcmpTypeField.marshalM, IcmpTypeField.unmarshal, IcmpCodeField.lenM, IcmpCodeField.marshalM, IcmpCodeField.unmarshal, Uint16Message.lenM, Uint16Message.marshalM, Uint16Message.unmarshal, Uint32Message.lenM, Uint32Message.marshalM, Uint32Message.unmarshal, ByteArrayField.lenM, ByteArrayField.marshalM, ByteArrayField.unmarshal, CTLabel.lenM, CTLabel.marshalM, CTLabel.unmarshal, same] $[$loc]?)

theorem payload_encode (v : V) (hwf : PayloadWF v) : ∃ bs, MatchPayload.marshalM v = .ok (bs, v) := by
  unfold PayloadWF at hwf
  unfold MatchPayload.marshalM
  split at hwf <;> rename_i hk <;> simp only [hk]
  all_goals first
    | exact absurd hwf id
    | (try simp only [IsNum, IsBytes, IsIPv4] at hwf
       first
         | (obtain ⟨x, rfl, hx⟩ := hwf
            payload_defs
            exact ⟨_, rfl⟩)
         | (obtain ⟨d, l, rfl, hx⟩ := hwf
            payload_defs
            exact ⟨_, rfl⟩))

/-- Len() of a well-formed payload: unchanged value, the size of the encoding, at most 255 -/
theorem payload_len (v : V) (hwf : PayloadWF v) (bs : Bytes) (v2 : V)
    (henc : MatchPayload.marshalM v = .ok (bs, v2)) :
    ∃ l, MatchPayload.lenM v = .ok (l, v) ∧ l.toNat = bs.length ∧ bs.length ≤ 255 := by
  unfold PayloadWF at hwf
  unfold MatchPayload.marshalM at henc
  unfold MatchPayload.lenM
  split at hwf <;> rename_i hk <;> simp only [hk] at henc <;> simp only [hk]
  all_goals first
    | exact absurd hwf id
    | (try simp only [IsNum, IsBytes, IsIPv4] at hwf
       first
         | (obtain ⟨x, rfl, hx⟩ := hwf
            payload_defs at henc
            cases henc
            payload_defs
            exact ⟨_, rfl, by simp [makeCopy_length], by simp [makeCopy_length]⟩)
         | (obtain ⟨d, l, rfl, hx⟩ := hwf
            payload_defs at henc
            cases henc
            payload_defs
            refine ⟨_, rfl, by simp [makeCopy_length], ?_⟩
            have := (n8 l).toNat_lt
            simp [makeCopy_length]; omega))

theorem payload_decode (v recv : V) (hwf : PayloadWF v) (hr : RecvOK v recv) (bs : Bytes) (v2 : V)
    (henc : MatchPayload.marshalM v = .ok (bs, v2)) (data : Slice) (hd : data.WF) (tail : Bytes)
    (hb : data.bytes = bs ++ tail) : MatchPayload.unmarshal recv data = .ok v := by
  unfold PayloadWF at hwf
  unfold MatchPayload.marshalM at henc
  unfold MatchPayload.unmarshal
  obtain ⟨hr1, hr2, hr3⟩ := hr
  have hlen := Slice.len_ge_of_bytes data _ _ hb
  split at hwf <;> rename_i hk <;> simp only [hk] at henc hr1 hr2 hr3 <;> simp only [hr1]
  all_goals first
    | exact absurd hwf id
    | (try simp only [IsNum, IsBytes, IsIPv4] at hwf
       first
         | (obtain ⟨x, rfl, hx⟩ := hwf
            payload_defs at henc
            cases henc
            simp only [be16_length, be32_length, be64_length, List.length_cons, List.length_nil, makeCopy_length] at hlen
            payload_defs
            first
              | -- numeric kinds
                (try (rw [if_neg (by omega)])
                 simp (discharger := omega) only [Slice.u16From_eq, Slice.u32From_eq, Slice.u64From_eq, Slice.byteAt_eq,
                   Slice.u16In_eq _ hd, Slice.u32In_eq _ hd, hb, List.drop_zero, Nat.sub_zero, take_be16, take_be32,
                   rd16_be16, rd32_be32, rd64_be64, rd16_be16', rd32_be32', List.cons_append, List.nil_append,
                   List.getElem?_cons_zero, Res.ofOption, Res.bind_ok, Res.pure_eq]
                 first | rw [u8_n8 x hx] | rw [u16_n16 x hx] | rw [u32_n32 x hx] | rw [u64_n64 x hx])
              | -- byte strings of fixed length, copied
                (rw [makeCopy_self _ x hx] at hb
                 rw [hb, makeCopy_exact _ x tail hx])
              | -- IPv4 addresses
                (obtain ⟨a, b, c, d, rfl⟩ := isV4in6_iff x hx
                 rw [ipTo4_ipv4, makeCopy_self 4 _ rfl] at hb
                 try (rw [if_neg (by omega)])
                 rw [readIPv4_eq data a b c d tail hb]
                 rfl)
              | -- ArpXHaField
                (obtain ⟨b, rfl⟩ := hr3 trivial
                 simp only
                 rw [if_neg (by omega)]
                 obtain ⟨t, ht1, ht2, _⟩ := Slice.uptoR_bytes data hd 6 (by omega)
                 rw [makeCopy_self _ x hx] at hb
                 rw [ht1]
                 simp only [Res.bind_ok, Res.pure_eq, ht2, hb, List.take_left' hx, makeCopy_self _ x hx]))
         | (obtain ⟨d, l, rfl, hx⟩ := hwf
            payload_defs at henc
            cases henc
            obtain ⟨d1, d', l1, he, rfl⟩ := hr2 trivial
            cases he
            obtain ⟨hl, hdl⟩ := hx
            have hl8 : (n8 l).toNat = l := by simp [n8, UInt8.toNat_ofNat', Nat.mod_eq_of_lt hl]
            simp only [ByteArrayField.unmarshal]
            rw [hl8] at hb hlen ⊢
            rw [makeCopy_length] at hlen
            rw [makeCopy_self _ d hdl] at hb
            rw [if_neg (by omega)]
            obtain ⟨t, ht1, ht2, _⟩ := Slice.uptoR_bytes data hd l (by omega)
            rw [ht1]
            simp only [Res.bind_ok, Res.pure_eq, ht2, hb, List.take_left' hdl, makeCopy_self _ d hdl]))

end OFV.RT
