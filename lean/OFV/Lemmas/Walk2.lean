/-
  OFV.Lemmas.Walk2 — helpers for Props/C02c: the list walkers of the independent grammar walker (OFV.Spec.Walk) run over a
  concatenation of elements that each satisfy the walker's per-element conditions: they accept, consume every byte and
  return one subtree per element.  Pure list reasoning about the walker; nothing about the model here.
-/
import OFV.Go.Bytes
import OFV.Lemmas.BeAt
import OFV.Spec.Walk
namespace OFV.Walk2
open OFV OFV.Spec

/-! ### reads of the walker on a prefix -/

theorem u8At_append_left (a b : Bytes) (i : Nat) (h : i < a.length) : u8At (a ++ b) i = u8At a i := by
  unfold u8At; rw [List.getElem?_append_left h]

theorem u16At_append_left (a b : Bytes) (i : Nat) (h : i + 2 ≤ a.length) : u16At (a ++ b) i = u16At a i := by
  unfold u16At; rw [u8At_append_left a b i (by omega), u8At_append_left a b (i + 1) (by omega)]

theorem u32At_append_left (a b : Bytes) (i : Nat) (h : i + 4 ≤ a.length) : u32At (a ++ b) i = u32At a i := by
  unfold u32At; rw [u16At_append_left a b i (by omega), u16At_append_left a b (i + 2) (by omega)]

/-- the walker's 16-bit read is the layout read `beAt … 2` whenever both bytes are present -/
theorem u16At_eq_beAt (bs : Bytes) (i : Nat) (h : i + 2 ≤ bs.length) : u16At bs i = beAt bs i 2 := by
  have h1 : i < bs.length := by omega
  have h2 : i + 1 < bs.length := by omega
  have e : bs.drop i = bs[i] :: bs[i + 1] :: bs.drop (i + 2) := by
    rw [List.drop_eq_getElem_cons h1, List.drop_eq_getElem_cons h2]
  unfold u16At u8At beAt
  rw [e]
  simp only [List.take_succ_cons, List.take_zero, List.foldl_cons, List.foldl_nil, List.getElem?_eq_getElem h1,
    List.getElem?_eq_getElem h2, Option.getD_some]
  omega

theorem u8At_eq_beAt (bs : Bytes) (i : Nat) (h : i + 1 ≤ bs.length) : u8At bs i = beAt bs i 1 := by
  have h1 : i < bs.length := by omega
  have e : bs.drop i = bs[i] :: bs.drop (i + 1) := List.drop_eq_getElem_cons h1
  unfold u8At beAt
  rw [e]
  simp only [List.take_succ_cons, List.take_zero, List.foldl_cons, List.foldl_nil, List.getElem?_eq_getElem h1,
    Option.getD_some]
  omega

theorem slice_append_left (a b : Bytes) (o n : Nat) (h : o + n ≤ a.length) : slice (a ++ b) o n = slice a o n := by
  unfold slice
  rw [List.drop_append_of_le_length (by omega), List.take_append_of_le_length (by simp; omega)]

/-- the bytes of an element behind offset `o`, seen inside a longer string -/
theorem slice_append_tail (a b : Bytes) (o : Nat) (h : o ≤ a.length) : slice (a ++ b) o (a.length - o) = a.drop o := by
  unfold slice
  rw [List.drop_append_of_le_length h, List.take_append_of_le_length (by simp)]
  exact List.take_of_length_le (by simp)

theorem zerosAt_ok (bs : Bytes) (a n : Nat) (w : String) (h : allZero (slice bs a n) = true) : zerosAt bs a n w = .ok () := by
  unfold zerosAt; rw [if_pos h]; rfl

theorem allZero_iff (bs : Bytes) : allZero bs = true ↔ ∀ b ∈ bs, b = 0 := by
  unfold allZero; simp [List.all_eq_true]

theorem isEmpty_append_false (c r : Bytes) (h : 0 < c.length) : (c ++ r).isEmpty = false := by
  cases c with
  | nil => simp at h
  | cons x xs => rfl

/-! ### TLV table maps -/

/-- what the walker demands of one TLV map: 8 bytes, the last two zero -/
def TlvOK (b : Bytes) : Prop := b.length = 8 ∧ allZero (slice b 6 2) = true

theorem walkTlvMaps_flatten (bss : List Bytes) (h : ∀ b ∈ bss, TlvOK b) : ∀ fuel, bss.length < fuel →
    walkTlvMaps fuel bss.flatten = .ok (bss.map (fun b => Tree.node "tlvmap" b [])) := by
  induction bss with
  | nil => intro fuel hf; cases fuel with
    | zero => omega
    | succ f => simp [walkTlvMaps]; rfl
  | cons c cs ih =>
    intro fuel hf
    cases fuel with
    | zero => omega
    | succ f =>
      obtain ⟨h8, hz⟩ := h c (by simp)
      have hne := isEmpty_append_false c cs.flatten (by omega)
      have hz' : zerosAt (c ++ cs.flatten) 6 2 "tlv map" = .ok () :=
        zerosAt_ok _ _ _ _ (by rw [slice_append_left _ _ _ _ (by omega)]; exact hz)
      have hd : (c ++ cs.flatten).drop 8 = cs.flatten := by rw [← h8]; exact List.drop_left
      have ht : (c ++ cs.flatten).take 8 = c := by rw [← h8]; exact List.take_left
      have hl : ¬ (c ++ cs.flatten).length < 8 := by simp; omega
      simp only [walkTlvMaps, List.flatten_cons, hne, Bool.false_eq_true, if_false, hl, hz', hd, ht,
        ih (fun x hx => h x (by simp [hx])) f (by simp at hf; omega), List.map_cons]
      rfl

/-! ### hello elements -/

/-- what the walker demands of one hello element: declared length at least 4, the element occupies the declared length
    rounded up to 8, a version bitmap holds whole 32-bit words, the padding is zero -/
def HelloOK (b : Bytes) : Prop :=
  4 ≤ u16At b 2 ∧ b.length = round8 (u16At b 2) ∧ (u16At b 0 = 1 → (u16At b 2 - 4) % 4 = 0) ∧
  allZero (b.drop (u16At b 2)) = true

theorem walkHelloElems_flatten (bss : List Bytes) (h : ∀ b ∈ bss, HelloOK b) : ∀ fuel, bss.length < fuel →
    walkHelloElems fuel bss.flatten = .ok (bss.map (fun b => Tree.node s!"helloelem {u16At b 0}" b [])) := by
  induction bss with
  | nil => intro fuel hf; cases fuel with
    | zero => omega
    | succ f => simp [walkHelloElems]; rfl
  | cons c cs ih =>
    intro fuel hf
    cases fuel with
    | zero => omega
    | succ f =>
      obtain ⟨h4, hlen, hbm, hz⟩ := h c (by simp)
      have hr : u16At c 2 ≤ c.length ∧ 8 ≤ c.length := by rw [hlen]; unfold round8; omega
      have hne := isEmpty_append_false c cs.flatten (by omega)
      have e0 : u16At (c ++ cs.flatten) 0 = u16At c 0 := u16At_append_left _ _ _ (by omega)
      have e2 : u16At (c ++ cs.flatten) 2 = u16At c 2 := u16At_append_left _ _ _ (by omega)
      have hz' : zerosAt (c ++ cs.flatten) (u16At c 2) (round8 (u16At c 2) - u16At c 2) "hello element" = .ok () :=
        zerosAt_ok _ _ _ _ (by rw [← hlen, slice_append_tail _ _ _ hr.1]; exact hz)
      have hd : (c ++ cs.flatten).drop (round8 (u16At c 2)) = cs.flatten := by rw [← hlen]; exact List.drop_left
      have ht : (c ++ cs.flatten).take (round8 (u16At c 2)) = c := by rw [← hlen]; exact List.take_left
      have hl : ¬ (c ++ cs.flatten).length < 4 := by simp; omega
      have hl2 : ¬ (c ++ cs.flatten).length < round8 (u16At c 2) := by rw [← hlen]; simp
      have hl3 : ¬ u16At c 2 < 4 := by omega
      have hl4 : ¬ (u16At c 0 = 1 ∧ (u16At c 2 - 4) % 4 ≠ 0) := by
        intro ⟨a, b⟩; exact b (hbm a)
      simp only [walkHelloElems, List.flatten_cons, hne, Bool.false_eq_true, if_false, hl, e0, e2, hl2, hl3, hl4, hz', hd, ht,
        ih (fun x hx => h x (by simp [hx])) f (by simp at hf; omega), List.map_cons]
      rfl

/-! ### bundle properties -/

/-- what the walker demands of one bundle property -/
def PropOK (b : Bytes) : Prop :=
  4 ≤ u16At b 2 ∧ b.length = round8 (u16At b 2) ∧ (u16At b 0 = 0xffff → 12 ≤ u16At b 2) ∧
  allZero (b.drop (u16At b 2)) = true

theorem walkProps_flatten (bss : List Bytes) (h : ∀ b ∈ bss, PropOK b) : ∀ fuel, bss.length < fuel →
    walkProps fuel bss.flatten = .ok (bss.map (fun b => Tree.node s!"prop {u16At b 0}" b [])) := by
  induction bss with
  | nil => intro fuel hf; cases fuel with
    | zero => omega
    | succ f => simp [walkProps]; rfl
  | cons c cs ih =>
    intro fuel hf
    cases fuel with
    | zero => omega
    | succ f =>
      obtain ⟨h4, hlen, hbm, hz⟩ := h c (by simp)
      have hr : u16At c 2 ≤ c.length ∧ 8 ≤ c.length := by rw [hlen]; unfold round8; omega
      have hne := isEmpty_append_false c cs.flatten (by omega)
      have e0 : u16At (c ++ cs.flatten) 0 = u16At c 0 := u16At_append_left _ _ _ (by omega)
      have e2 : u16At (c ++ cs.flatten) 2 = u16At c 2 := u16At_append_left _ _ _ (by omega)
      have hz' : zerosAt (c ++ cs.flatten) (u16At c 2) (round8 (u16At c 2) - u16At c 2) "bundle property" = .ok () :=
        zerosAt_ok _ _ _ _ (by rw [← hlen, slice_append_tail _ _ _ hr.1]; exact hz)
      have hd : (c ++ cs.flatten).drop (round8 (u16At c 2)) = cs.flatten := by rw [← hlen]; exact List.drop_left
      have ht : (c ++ cs.flatten).take (round8 (u16At c 2)) = c := by rw [← hlen]; exact List.take_left
      have hl : ¬ (c ++ cs.flatten).length < 4 := by simp; omega
      have hl2 : ¬ (c ++ cs.flatten).length < round8 (u16At c 2) := by rw [← hlen]; simp
      have hl3 : ¬ u16At c 2 < 4 := by omega
      have hl4 : ¬ (u16At c 0 = 0xffff ∧ u16At c 2 < 12) := by
        intro ⟨a, b⟩; have := hbm a; omega
      simp only [walkProps, List.flatten_cons, hne, Bool.false_eq_true, if_false, hl, e0, e2, hl2, hl3, hl4, hz', hd, ht,
        ih (fun x hx => h x (by simp [hx])) f (by simp at hf; omega), List.map_cons]
      rfl

end OFV.Walk2
