/-
  OFV.Lemmas.Read — when the decoder idioms on a well-formed slice (len ≤ cap) succeed.
  Each lemma is the Go bounds rule of the idiom: it succeeds exactly when the index / slice expression is in range.
-/
import OFV.Go.Read
namespace OFV.Go
open OFV

namespace Slice

theorem rd16_isSome (bs : Bytes) (h : 2 ≤ bs.length) : ∃ x, rd16 bs = some x := by
  match bs, h with
  | a :: b :: _, _ => exact ⟨_, rfl⟩
theorem rd32_isSome (bs : Bytes) (h : 4 ≤ bs.length) : ∃ x, rd32 bs = some x := by
  match bs, h with
  | a :: b :: c :: d :: _, _ => exact ⟨_, rfl⟩
theorem rd64_isSome (bs : Bytes) (h : 8 ≤ bs.length) : ∃ x, rd64 bs = some x := by
  match bs, h with
  | a :: b :: c :: d :: e :: f :: g :: k :: _, _ => exact ⟨_, rfl⟩

theorem bytes_length (s : Slice) (h : s.WF) : s.bytes.length = s.len := by
  unfold bytes WF at *; simp; omega

theorem byteAt_ok (s : Slice) (h : s.WF) (n : Nat) (hn : n < s.len) : ∃ x, s.byteAt n = .ok x := by
  unfold byteAt index Res.ofOption
  unfold WF at h
  have : n < s.buf.length := by omega
  simp [hn, this]

theorem fromR_ok (s : Slice) (a : Nat) (ha : a ≤ s.len) : s.fromR a = .ok ⟨s.buf.drop a, s.len - a⟩ := by
  unfold fromR from_ Res.ofOption; simp [ha]

theorem fromR_wf (s : Slice) (h : s.WF) (a : Nat) (t : Slice) (ht : s.fromR a = .ok t) : t.WF ∧ t.len = s.len - a := by
  unfold fromR from_ Res.ofOption at ht
  split at ht
  · rename_i x hx
    split at hx
    · cases hx; cases ht
      unfold WF at *; simp; omega
    · cases hx
  · cases ht

theorem sliceR_ok (s : Slice) (a b : Nat) (hab : a ≤ b) (hb : b ≤ s.buf.length) :
    s.sliceR a b = .ok ⟨s.buf.drop a, b - a⟩ := by
  unfold sliceR slice Res.ofOption; simp [hab, hb]

theorem sliceR_wf (s : Slice) (a b : Nat) (t : Slice) (ht : s.sliceR a b = .ok t) : t.WF ∧ t.len = b - a := by
  unfold sliceR slice Res.ofOption at ht
  split at ht
  · rename_i x hx
    split at hx
    · cases hx; cases ht
      rename_i hc
      unfold WF; simp; omega
    · cases hx
  · cases ht

theorem u16Here_ok (s : Slice) (h : s.WF) (hn : 2 ≤ s.len) : ∃ x, s.u16Here = .ok x := by
  obtain ⟨x, hx⟩ := rd16_isSome s.bytes (by rw [bytes_length s h]; exact hn)
  exact ⟨x, by unfold u16Here Res.ofOption; rw [hx]⟩
theorem u32Here_ok (s : Slice) (h : s.WF) (hn : 4 ≤ s.len) : ∃ x, s.u32Here = .ok x := by
  obtain ⟨x, hx⟩ := rd32_isSome s.bytes (by rw [bytes_length s h]; exact hn)
  exact ⟨x, by unfold u32Here Res.ofOption; rw [hx]⟩
theorem u64Here_ok (s : Slice) (h : s.WF) (hn : 8 ≤ s.len) : ∃ x, s.u64Here = .ok x := by
  obtain ⟨x, hx⟩ := rd64_isSome s.bytes (by rw [bytes_length s h]; exact hn)
  exact ⟨x, by unfold u64Here Res.ofOption; rw [hx]⟩

theorem u16From_ok (s : Slice) (h : s.WF) (n : Nat) (hn : n + 2 ≤ s.len) : ∃ x, s.u16From n = .ok x := by
  unfold u16From
  rw [fromR_ok s n (by omega)]
  exact u16Here_ok _ (by unfold WF at *; simp; omega) (by simp; omega)
theorem u32From_ok (s : Slice) (h : s.WF) (n : Nat) (hn : n + 4 ≤ s.len) : ∃ x, s.u32From n = .ok x := by
  unfold u32From
  rw [fromR_ok s n (by omega)]
  exact u32Here_ok _ (by unfold WF at *; simp; omega) (by simp; omega)
theorem u64From_ok (s : Slice) (h : s.WF) (n : Nat) (hn : n + 8 ≤ s.len) : ∃ x, s.u64From n = .ok x := by
  unfold u64From
  rw [fromR_ok s n (by omega)]
  exact u64Here_ok _ (by unfold WF at *; simp; omega) (by simp; omega)

theorem u16In_ok (s : Slice) (a b : Nat) (hab : a + 2 ≤ b) (hb : b ≤ s.buf.length) : ∃ x, s.u16In a b = .ok x := by
  unfold u16In
  rw [sliceR_ok s a b (by omega) hb]
  exact u16Here_ok _ (by unfold WF; simp; omega) (by simp; omega)
theorem u32In_ok (s : Slice) (a b : Nat) (hab : a + 4 ≤ b) (hb : b ≤ s.buf.length) : ∃ x, s.u32In a b = .ok x := by
  unfold u32In
  rw [sliceR_ok s a b (by omega) hb]
  exact u32Here_ok _ (by unfold WF; simp; omega) (by simp; omega)

end Slice
end OFV.Go
