/-
  OFV.Lemmas.ParseLenAction — `Len()` of a decoded leaf action (every kind except conntrack): stable under a second
  call, and at most 48 bytes more than the capacity of the slice it was decoded from (`ActQ`).
-/
import OFV.Lemmas.ParseLen
set_option linter.unusedSimpArgs false
namespace OFV.Model
open OFV OFV.Go InstrAux

/-- actions with a constant `Len()` -/
theorem constlen_post (d : Slice) (v : V) (c : UInt16) (hv : Action.lenM v = .ok (c, v)) (hc : c.toNat ≤ 48) : ActQ d v := by
  unfold ActQ
  rw [hv]
  exact post_ok ⟨hv, by simp only []; omega⟩

/-- the leaf kinds whose `Len()` is a constant or the stored (checked) header length -/
theorem Action_unmarshalLeaf_simple (k : String) (a : V) (d : Slice) (hwf : d.WF)
    (hk : k ∈ ["ActionOutput", "ActionSetqueue", "ActionGroup", "ActionMplsTtl", "ActionNwTtl", "ActionDecNwTtl",
      "ActionPush", "ActionPopVlan", "ActionPopMpls", "NXActionConjunction", "NXActionRegLoad", "NXActionRegMove",
      "NXActionResubmit", "NXActionResubmitTable", "NXActionOutputReg", "NXActionCTClear", "NXActionDecTTL",
      "NXActionDecTTLCntIDs", "NXActionController", "ActionHeader", "NXActionHeader"])
    (hak : a.kind = k) : Post (Action.unmarshalLeaf a d) (ActQ d) := by
  unfold Slice.WF at hwf
  unfold Action.unmarshalLeaf
  simp only [List.mem_cons, List.mem_nil_iff, or_false] at hk
  rcases hk with rfl | rfl | rfl | rfl | rfl | rfl | rfl | rfl | rfl | rfl | rfl | rfl | rfl | rfl | rfl | rfl | rfl | rfl | rfl | rfl | rfl <;>
  simp only [hak] <;>
  (first
    | unfold ActionOutput.unmarshal | unfold ActionSetqueue.unmarshal | unfold ActionGroup.unmarshal
    | unfold ActionMplsTtl.unmarshal | unfold ActionNwTtl.unmarshal | unfold ActionDecNwTtl.unmarshal
    | unfold ActionPush.unmarshal | unfold ActionPopVlan.unmarshal | unfold ActionPopMpls.unmarshal
    | unfold NXActionConjunction.unmarshal | unfold NXActionRegLoad.unmarshal | unfold NXActionRegMove.unmarshal
    | unfold NXActionResubmit.unmarshal | unfold NXActionResubmitTable.unmarshal
    | unfold NXActionOutputReg.unmarshal | unfold NXActionCTClear.unmarshal | unfold NXActionDecTTL.unmarshal
    | unfold NXActionDecTTLCntIDs.unmarshal | unfold NXActionController.unmarshal
    | unfold ActionHeader.unmarshal | unfold NXActionHeader.unmarshal) <;>
  post_auto [tryE_ns, ActionHeader_unmarshal_ns, NXActionHeader_unmarshal_ns, NXActionHeader_length_ns, nxPrefix_ns,
    MatchField_unmarshalHeader_ns, readIDs_ns] <;>
  first
    | exact post_ok (constlen_post _ _ _ rfl (by decide))
    | (obtain ⟨l, hl, hle⟩ := nxPrefix_inv _ _ ‹nxPrefix _ = Res.ok _›
       exact post_ok (hdrlen_post _ _ _ rfl l hl (by omega)))


theorem Action_lenM_SetField (fs : List V) :
    Action.lenM (.obj "ActionSetField" fs) = ActionSetField.lenM (.obj "ActionSetField" fs) := rfl
theorem Action_lenM_RegLoad2 (fs : List V) :
    Action.lenM (.obj "NXActionRegLoad2" fs) = NXActionRegLoad2.lenM (.obj "NXActionRegLoad2" fs) := rfl
theorem Action_lenM_Note (fs : List V) :
    Action.lenM (.obj "NXActionNote" fs) = NXActionNote.lenM (.obj "NXActionNote" fs) := rfl
theorem Action_lenM_CTNAT (fs : List V) :
    Action.lenM (.obj "NXActionCTNAT" fs) = NXActionCTNAT.lenM (.obj "NXActionCTNAT" fs) := rfl
theorem Action_lenM_Learn (fs : List V) :
    Action.lenM (.obj "NXActionLearn" fs) = NXActionLearn.lenM (.obj "NXActionLearn" fs) := rfl
theorem Action_lenM_ConnTrack (fs : List V) :
    Action.lenM (.obj "NXActionConnTrack" fs) = NXActionConnTrack.lenM (.obj "NXActionConnTrack" fs) := rfl

theorem ActionSetField_dec (a : V) (d : Slice) (hwf : d.WF) : Post (ActionSetField.unmarshal a d) (ActQ d) := by
  unfold Slice.WF at hwf
  have h4 : (4 : UInt16).toNat = 4 := rfl
  unfold ActionSetField.unmarshal
  split
  · apply post_bind_ns (ns_fromR _ _); intro d0 _
    apply post_bind_ns (tryE_ns _ _ (ActionHeader_unmarshal_ns _ _)); intro p _
    obtain ⟨h', e⟩ := p
    simp only []
    apply post_bind (P := fun d4 => 4 ≤ d.len ∧ d4.len = d.len - 4) ?_ ?_
    · exact ⟨(ns_fromR _ _).1, fun t ht => fromR_inv _ _ _ ht⟩
    intro d4 _ hd4
    split
    · rename_i f' hf'
      have hb := (MatchField_dec_bound _ _).2 _ hf'
      apply post_bind (post_and hb (MatchField_lenM_post f')); intro q hq ⟨⟨hq2, hq1⟩, _, hq518⟩
      obtain ⟨fl, f''⟩ := q
      simp only [] at hq2 hq1 hq518 ⊢
      subst hq2
      apply post_ok
      have hlen : Action.lenM (.obj "ActionSetField" [h', f'']) = .ok (round8 (4 + fl), .obj "ActionSetField" [h', f'']) := by
        rw [Action_lenM_SetField]
        simp only [ActionSetField.lenM, hq, Res.bind_ok]
      unfold ActQ
      rw [hlen]
      refine post_ok ⟨hlen, ?_⟩
      have := round8_le (4 + fl)
      simp only [UInt16.toNat_add, h4] at this ⊢
      omega
    · exact post_panic
    · exact post_panic
    · exact absurd ‹_› (MatchField_unmarshal_ns _ _).1
  · exact post_panic

theorem NXActionRegLoad2_dec (a : V) (d : Slice) (hwf : d.WF) : Post (NXActionRegLoad2.unmarshal a d) (ActQ d) := by
  unfold Slice.WF at hwf
  have h10 : (10 : UInt16).toNat = 10 := rfl
  unfold NXActionRegLoad2.unmarshal
  split
  · rename_i pad
    apply post_bind_ns (nxPrefix_ns _); intro h _
    apply post_bind (P := fun d10 => 10 ≤ d.len ∧ d10.len = d.len - 10) ?_ ?_
    · exact ⟨(ns_fromR _ _).1, fun t ht => fromR_inv _ _ _ ht⟩
    intro d10 _ hd10
    apply post_bind (post_and (MatchField_dec_bound _ _) (MatchField_unmarshal_ns mfZero d10)); intro f hf ⟨hb, _⟩
    apply post_ok
    unfold ActQ
    rw [Action_lenM_RegLoad2]
    unfold NXActionRegLoad2.lenM
    simp only []
    split
    · exact post_panic
    · apply post_bind (post_and hb (MatchField_lenM_post f)); intro q hq ⟨⟨hq2, hq1⟩, _, hq518⟩
      obtain ⟨fl, f'⟩ := q
      simp only [] at hq2 hq1 hq518 ⊢
      subst hq2
      have hlen : Action.lenM (.obj "NXActionRegLoad2" [h, f', pad]) = .ok (round8 (10 + fl), .obj "NXActionRegLoad2" [h, f', pad]) := by
        rw [Action_lenM_RegLoad2]
        unfold NXActionRegLoad2.lenM
        simp only []
        first
          | (simp only [hq, Res.bind_ok]; done)
          | (split
             · rename_i hnil; exact absurd hnil ‹_›
             · simp only [hq, Res.bind_ok])
      refine post_ok ⟨hlen, ?_⟩
      have := round8_le (10 + fl)
      simp only [UInt16.toNat_add, h10] at this ⊢
      omega
  · exact post_panic


theorem sliceR_inv2 (s : Slice) (a b : Nat) (t : Slice) (h : s.sliceR a b = .ok t) : a ≤ b ∧ b ≤ s.buf.length := by
  unfold Slice.sliceR Slice.slice Res.ofOption at h
  split at h
  · rename_i x hx
    split at hx
    · assumption
    · cases hx
  · cases h

theorem NXActionNote_dec (a : V) (d : Slice) (hwf : d.WF) : Post (NXActionNote.unmarshal a d) (ActQ d) := by
  unfold Slice.WF at hwf
  have h10 : (10 : UInt16).toNat = 10 := rfl
  unfold NXActionNote.unmarshal
  apply post_bind_ns (NXActionHeader_unmarshal_ns _ _); intro h _
  apply post_bind_ns (NXActionHeader_length_ns _); intro l _
  split
  · exact post_err
  · rename_i hlen
    apply post_bind (P := fun _ => 10 ≤ l.toNat) ?_ ?_
    · exact ⟨(ns_sliceR _ _ _).1, fun t ht => (sliceR_inv2 _ _ _ _ ht).1⟩
    intro s _ h10l
    apply post_ok
    have hl : Action.lenM (.obj "NXActionNote" [h, .bytes (makeCopy (l - 10).toNat s.bytes)])
        = .ok (round8 l, .obj "NXActionNote" [h, .bytes (makeCopy (l - 10).toNat s.bytes)]) := by
      rw [Action_lenM_Note]
      simp only [NXActionNote.lenM, same, makeCopy_length']
      have : 10 + n16 (l - 10).toNat = l := by
        apply UInt16.toNat_inj.mp
        have := l.toNat_lt
        simp only [UInt16.toNat_add, n16, UInt16.toNat_ofNat', h10, UInt16.toNat_sub]
        omega
      rw [this]
    unfold ActQ
    rw [hl]
    refine post_ok ⟨hl, ?_⟩
    have := round8_le l
    simp only []
    omega

theorem NXActionCTNAT_dec (a : V) (d : Slice) (hwf : d.WF) : Post (NXActionCTNAT.unmarshal a d) (ActQ d) := by
  unfold Slice.WF at hwf
  unfold NXActionCTNAT.unmarshal
  split
  · apply post_bind_ns (NXActionHeader_fresh_ns _); intro p _
    obtain ⟨h0, e⟩ := p
    simp only []
    apply post_bind_ns (NXActionHeader_length_ns _); intro l _
    apply post_bind_ns (NXActionHeader_setLength_ns _ _); intro h hset
    obtain ⟨hl1, hs1⟩ := NXActionHeader_setLength_inv _ _ _ hset
    split
    · exact post_err
    · rename_i hlen
      post_auto [rdIPv4_ns, rdIPv6_ns, rdPort_ns]
      apply post_ok
      unfold ActQ
      rw [Action_lenM_CTNAT]
      simp only [NXActionCTNAT.lenM, hl1, Res.bind_ok, round8_idem, hs1]
      refine post_ok ⟨?_, ?_⟩
      · simp only []
        rw [Action_lenM_CTNAT]
        simp only [NXActionCTNAT.lenM, hl1, Res.bind_ok, round8_idem, hs1]
      · simp only []
        omega
  · exact post_panic


theorem u16Here_inv (s : Slice) (x : UInt16) (h : s.u16Here = .ok x) : 2 ≤ s.bytes.length := by
  unfold Slice.u16Here Res.ofOption at h
  split at h
  · rename_i y hy
    unfold rd16 at hy
    split at hy
    · rename_i heq; rw [heq]; simp
    · cases hy
  · cases h

theorem u16From_inv (s : Slice) (hwf : s.WF) (n : Nat) (x : UInt16) (h : s.u16From n = .ok x) : n + 2 ≤ s.len := by
  unfold Slice.u16From at h
  obtain ⟨t, ht, hx⟩ := bind_ok_inv _ _ _ h
  have h1 := fromR_inv _ _ _ ht
  have h2 := Slice.fromR_wf s hwf n t ht
  have h3 := u16Here_inv _ _ hx
  rw [Slice.bytes_length t h2.1] at h3
  omega

theorem NXLearnSpecField_unmarshal_post (recv : V) (d : Slice) :
    Post (NXLearnSpecField.unmarshal recv d) (fun _ => 6 ≤ d.len) := by
  unfold NXLearnSpecField.unmarshal
  split
  · exact post_err
  · post_auto [MatchField_unmarshalHeader_ns]
    apply post_ok; omega

theorem srcLen_le (x : Nat) : (NXLearnSpec.srcLen x).toNat ≤ 8190 := by
  have h2 : (2 : UInt16).toNat = 2 := rfl
  have h15 : (15 : UInt16).toNat = 15 := rfl
  have h16 : (16 : UInt16).toNat = 16 := rfl
  have := (n16 x).toNat_lt
  simp only [NXLearnSpec.srcLen, UInt16.toNat_mul, UInt16.toNat_div, UInt16.toNat_add, h2, h15, h16]
  omega

/-- a decoded learn spec lies within the capacity of the slice it was decoded from -/
theorem NXLearnSpec_dec (recv : V) (ds : Slice) (hwf : ds.WF) :
    Post (NXLearnSpec.unmarshal recv ds)
      (fun spec => ∃ l : UInt16, NXLearnSpec.len spec = .ok l ∧ 0 < l.toNat ∧ l.toNat ≤ ds.buf.length) := by
  unfold Slice.WF at hwf
  have h2 : (2 : UInt16).toNat = 2 := rfl
  have h6 : (6 : UInt16).toNat = 6 := rfl
  have h8 : (8 : UInt16).toNat = 8 := rfl
  unfold NXLearnSpec.unmarshal
  split
  · apply post_bind (NXLearnSpecHeader_unmarshal_post _ _); intro hdr _ ⟨a, b, c, nb, hh⟩
    subst hh
    simp only [V.u16]
    have hk := srcLen_le nb.toNat
    apply post_bind (P := fun p =>
        (a ≠ 0 → p.2.2 = 2 + NXLearnSpec.srcLen nb.toNat ∧ 2 + (NXLearnSpec.srcLen nb.toNat).toNat ≤ ds.buf.length) ∧
        (¬ a ≠ 0 → p.2.2 = 8 ∧ 8 ≤ ds.len)) ?_ ?_
    · refine post_ite (fun ha => ?_) (fun ha => ?_)
      · -- source is a value
        apply post_bind (P := fun _ => 2 + (NXLearnSpec.srcLen nb.toNat).toNat ≤ ds.buf.length) ?_ ?_
        · exact ⟨(ns_sliceR _ _ _).1, fun t ht => (sliceR_inv2 _ _ _ _ ht).2⟩
        intro s _ hs
        exact post_ok ⟨fun _ => ⟨rfl, hs⟩, fun h => absurd ha h⟩
      · -- source is a field
        apply post_bind (P := fun d => 2 ≤ ds.len ∧ d.len = ds.len - 2) ?_ ?_
        · exact ⟨(ns_fromR _ _).1, fun t ht => fromR_inv _ _ _ ht⟩
        intro d _ hd
        apply post_bind (NXLearnSpecField_unmarshal_post _ _); intro f _ hf
        exact post_ok ⟨fun h => absurd h ha, fun _ => ⟨rfl, by omega⟩⟩
    · intro p _ ⟨hp1, hp2⟩
      obtain ⟨sf, sv, n⟩ := p
      simp only [] at hp1 hp2 ⊢
      refine post_ite (fun hc => ?_) (fun hc => ?_)
      · apply post_bind (P := fun d => n.toNat ≤ ds.len ∧ d.len = ds.len - n.toNat) ?_ ?_
        · exact ⟨(ns_fromR _ _).1, fun t ht => fromR_inv _ _ _ ht⟩
        intro d _ hd
        apply post_bind (NXLearnSpecField_unmarshal_post _ _); intro df _ hdf
        apply post_ok
        refine ⟨_, rfl, ?_⟩
        rw [if_pos hc]
        by_cases ha : a ≠ 0
        · obtain ⟨hn, hcap⟩ := hp1 ha
          subst hn
          rw [if_pos ha]
          simp only [n16, UInt16.toNat_add, UInt16.toNat_ofNat', h2, h6] at hd ⊢
          omega
        · obtain ⟨hn, hl8⟩ := hp2 ha
          subst hn
          rw [if_neg ha]
          simp only [n16, UInt16.toNat_add, UInt16.toNat_ofNat', h2, h6, h8] at hd ⊢
          omega
      · apply post_ok
        refine ⟨_, rfl, ?_⟩
        rw [if_neg hc]
        by_cases ha : a ≠ 0
        · obtain ⟨hn, hcap⟩ := hp1 ha
          rw [if_pos ha]
          simp only [n16, UInt16.toNat_add, UInt16.toNat_ofNat', h2, h6]
          omega
        · obtain ⟨hn, hl8⟩ := hp2 ha
          rw [if_neg ha]
          simp only [n16, UInt16.toNat_add, UInt16.toNat_ofNat', h2, h6]
          omega
  · exact post_panic


theorem specsLen_append (xs : List V) (x : V) (t sl : UInt16) (h1 : NXActionLearn.specsLen xs = .ok t)
    (h2 : NXLearnSpec.len x = .ok sl) : NXActionLearn.specsLen (xs ++ [x]) = .ok (t + sl) := by
  induction xs generalizing t with
  | nil =>
    simp only [NXActionLearn.specsLen] at h1
    cases h1
    simp [NXActionLearn.specsLen, h2]
  | cons y ys ih =>
    simp only [NXActionLearn.specsLen] at h1
    obtain ⟨ly, hly, h1⟩ := bind_ok_inv _ _ _ h1
    obtain ⟨ty, hty, h1⟩ := bind_ok_inv _ _ _ h1
    cases h1
    simp only [List.cons_append, NXActionLearn.specsLen, hly, Res.bind_ok, ih ty hty, Res.pure_eq]
    rw [UInt16.add_assoc]

theorem Learn_ActQ (d : Slice) (a0 a1 a2 a3 a4 a5 a6 a7 a8 a9 p2 : V) (specs : List V) (t : UInt16)
    (ht : NXActionLearn.specsLen specs = .ok t) (hb : 32 + t.toNat ≤ d.buf.length) :
    ActQ d (.obj "NXActionLearn" [a0, a1, a2, a3, a4, a5, a6, a7, a8, a9, .list specs, p2]) := by
  have h32 : (10 + 22 : UInt16).toNat = 32 := rfl
  have hlen : Action.lenM (.obj "NXActionLearn" [a0, a1, a2, a3, a4, a5, a6, a7, a8, a9, .list specs, p2])
      = .ok (round8 (10 + 22 + t), .obj "NXActionLearn" [a0, a1, a2, a3, a4, a5, a6, a7, a8, a9, .list specs, p2]) := by
    rw [Action_lenM_Learn]
    simp only [NXActionLearn.lenM, NXActionLearn.len, ht, Res.bind_ok, Res.pure_eq, same]
  unfold ActQ
  rw [hlen]
  refine post_ok ⟨hlen, ?_⟩
  have := round8_le (10 + 22 + t)
  simp only [UInt16.toNat_add, h32] at this ⊢
  omega

/-- a decoded learn action reports at most 7 bytes more than the capacity of its slice -/
theorem NXActionLearn_dec (d : Slice) (hwf : d.WF) : Post (NXActionLearn.unmarshal NXActionLearn.zero d) (ActQ d) := by
  have hwf' := hwf
  unfold Slice.WF at hwf'
  have h32 : (10 + 22 : UInt16).toNat = 32 := rfl
  simp only [NXActionLearn.unmarshal, NXActionLearn.zero]
  apply post_bind_ns (NXActionHeader_unmarshal_ns _ _); intro h _
  apply post_bind_ns (NXActionHeader_length_ns _); intro l _
  split
  · exact post_err
  · apply post_bind_ns (ns_u16From _ _); intro _ _
    apply post_bind_ns (ns_u16From _ _); intro _ _
    apply post_bind_ns (ns_u16From _ _); intro _ _
    apply post_bind_ns (ns_u64From _ _); intro _ _
    apply post_bind_ns (ns_u16From _ _); intro _ _
    apply post_bind_ns (ns_byteAt _ _); intro _ _
    apply post_bind_ns (ns_u16From _ _); intro _ _
    apply post_bind_ns (ns_u16From _ _); intro fh hfh
    have h32le := u16From_inv _ hwf _ _ hfh
    apply post_bind (goLoop_post _ _ _
      (fun s => ∃ t : UInt16, NXActionLearn.specsLen s.specs = .ok t ∧ 32 + t.toNat ≤ s.n ∧ s.n ≤ d.buf.length)
      l.toNat ?_ _ _ ⟨0, rfl, by simp, by simp; omega⟩ ?_)
    · intro st _ ⟨⟨t, ht, htn, hcap⟩, _⟩
      apply post_ok
      exact Learn_ActQ d _ _ _ _ _ _ _ _ _ _ _ _ t ht (by omega)
    · intro s ⟨t, ht, htn, hcap⟩ hc
      simp only [Bool.and_eq_true, decide_eq_true_eq] at hc
      apply post_bind (P := fun ds => ds.WF ∧ ds.buf.length = d.buf.length - s.n) ?_ ?_
      · exact ⟨(ns_fromR _ _).1, fun ds hds => ⟨(Slice.fromR_wf d hwf _ _ hds).1, fromR_cap _ _ _ hds⟩⟩
      intro ds _ hds
      apply post_bind (NXLearnSpec_dec _ _ hds.1); intro spec _ ⟨sl, hsl, hpos, hle⟩
      rw [hsl]
      apply post_ok
      refine ⟨⟨t + sl, specsLen_append _ _ _ _ ht hsl, ?_, ?_⟩, ?_, ?_⟩
      · simp only [UInt16.toNat_add]; omega
      · simp only []; omega
      · simp only []; omega
      · omega
    · have := l.toNat_lt
      simp only []
      omega


/-- every leaf action decoder (the learn action decoded into `new(NXActionLearn)`, as DecodeAction does) -/
theorem Action_unmarshalLeaf_dec (a : V) (d : Slice) (hwf : d.WF)
    (hlearn : a.kind = "NXActionLearn" → a = NXActionLearn.zero) : Post (Action.unmarshalLeaf a d) (ActQ d) := by
  by_cases h1 : a.kind = "ActionSetField"
  · unfold Action.unmarshalLeaf; simp only [h1]; exact ActionSetField_dec _ _ hwf
  by_cases h2 : a.kind = "NXActionRegLoad2"
  · unfold Action.unmarshalLeaf; simp only [h2]; exact NXActionRegLoad2_dec _ _ hwf
  by_cases h3 : a.kind = "NXActionNote"
  · unfold Action.unmarshalLeaf; simp only [h3]; exact NXActionNote_dec _ _ hwf
  by_cases h4 : a.kind = "NXActionCTNAT"
  · unfold Action.unmarshalLeaf; simp only [h4]; exact NXActionCTNAT_dec _ _ hwf
  by_cases h5 : a.kind = "NXActionLearn"
  · unfold Action.unmarshalLeaf; simp only [h5]; rw [hlearn h5]; exact NXActionLearn_dec _ hwf
  by_cases h6 : a.kind ∈ ["ActionOutput", "ActionSetqueue", "ActionGroup", "ActionMplsTtl", "ActionNwTtl", "ActionDecNwTtl",
      "ActionPush", "ActionPopVlan", "ActionPopMpls", "NXActionConjunction", "NXActionRegLoad", "NXActionRegMove",
      "NXActionResubmit", "NXActionResubmitTable", "NXActionOutputReg", "NXActionCTClear", "NXActionDecTTL",
      "NXActionDecTTLCntIDs", "NXActionController", "ActionHeader", "NXActionHeader"]
  · exact Action_unmarshalLeaf_simple _ a d hwf h6 rfl
  · unfold Action.unmarshalLeaf
    simp only [List.mem_cons, List.mem_nil_iff, or_false, not_or] at h6
    split <;> first | exact post_panic | (exfalso; simp_all)


theorem lookup_mem {β} : ∀ (l : List (Nat × β)) (k : Nat) (z : β), l.lookup k = some z → z ∈ l.map (·.2) := by
  intro l
  induction l with
  | nil => intro k z h; simp [List.lookup] at h
  | cons x xs ih =>
    intro k z h
    obtain ⟨k1, v1⟩ := x
    simp only [List.lookup] at h
    split at h
    · cases h; simp
    · simp only [List.map_cons, List.mem_cons]; exact Or.inr (ih k z h)

/-- the receivers DecodeAction allocates for the two kinds whose decoders append to a list of the receiver -/
def FreshRecv (a : V) : Prop :=
  (a.kind = "NXActionLearn" → a = NXActionLearn.zero) ∧ (a.kind = "NXActionConnTrack" → a = NXActionConnTrack.zero)

theorem actionTypeTable_learn (z : V) (h : z ∈ actionTypeTable.map (·.2)) : FreshRecv z := by
  simp only [actionTypeTable, List.map_cons, List.map_nil, List.mem_cons, List.mem_nil_iff, or_false] at h
  rcases h with rfl | rfl | rfl | rfl | rfl | rfl | rfl | rfl | rfl | rfl | rfl | rfl | rfl | rfl | rfl | rfl <;>
    exact ⟨fun hk => absurd hk (by decide), fun hk => absurd hk (by decide)⟩

theorem nxSubtypeTable_learn (z : V) (h : z ∈ nxSubtypeTable.map (·.2)) : FreshRecv z := by
  simp only [nxSubtypeTable, List.map_cons, List.map_nil, List.mem_cons, List.mem_nil_iff, or_false] at h
  rcases h with rfl | rfl | rfl | rfl | rfl | rfl | rfl | rfl | rfl | rfl | rfl | rfl | rfl | rfl | rfl | rfl | rfl <;>
    first
      | exact ⟨fun _ => rfl, fun hk => absurd hk (by decide)⟩
      | exact ⟨fun hk => absurd hk (by decide), fun _ => rfl⟩
      | exact ⟨fun hk => absurd hk (by decide), fun hk => absurd hk (by decide)⟩

/-- DecodeAction decodes a learn action into `new(NXActionLearn)` -/
theorem newActionFor_post (d : Slice) : Post (newActionFor d) FreshRecv := by
  unfold newActionFor
  apply post_bind_ns (ns_u16In _ _ _); intro t _
  split
  · rename_i z hz
    exact post_ok (actionTypeTable_learn z (lookup_mem _ _ _ hz))
  · split
    · split
      · exact post_err
      · apply post_bind_ns (ns_u32In _ _ _); intro v _
        split
        · unfold DecodeNxAction
          apply post_bind_ns (ns_u16From _ _); intro st _
          apply post_ok
          cases hl : nxSubtypeTable.lookup st.toNat with
          | none => exact ⟨fun hk => absurd hk (by decide), fun hk => absurd hk (by decide)⟩
          | some z => exact nxSubtypeTable_learn z (lookup_mem _ _ _ hl)
        · exact post_ok ⟨fun hk => absurd hk (by decide), fun hk => absurd hk (by decide)⟩
    · exact post_ok ⟨fun hk => absurd hk (by decide), fun hk => absurd hk (by decide)⟩


end OFV.Model
