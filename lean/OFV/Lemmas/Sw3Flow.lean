/-
  OFV.Lemmas.Sw3Flow — a multipart flow-stats reply in which, after ANY list of decodable records, comes a record whose
  MATCH decoder panics (a TLV of a class `DecodeMatchField` does not know): the record decoder panics, the record loop
  panics, Parse recovers and rejects the reply.  Used by OFV/Props/C04c.lean.
-/
import OFV.Model.All
import OFV.Lemmas.SwBasic
import OFV.Lemmas.SwMatch
import OFV.Lemmas.Size
import OFV.Lemmas.Sw2Match
import OFV.Lemmas.Sw2Instr
import OFV.Lemmas.SwStats
import OFV.Lemmas.Sw2Flow
import OFV.Lemmas.Sw3Match
namespace OFV.Sw3
open OFV OFV.Go OFV.Model OFV.Sw2

/-- the fixed fields of a record are read from their places; when the match decoder panics on the bytes at offset 48 the
    record decoder panics (`r.mv`, `r.iv` are not used) -/
theorem flowStats_record_matchPanic (r : FsRec)
    (hm : ∀ (a b : V) (dm : Slice), dm.WF → ∀ rest, dm.bytes = r.mb ++ rest →
      Match.unmarshalP (.obj "Match" [a, b, .list []]) dm = .panic)
    (hsize : r.size < 65536) (d : Slice) (hdwf : d.WF) (rest : Bytes) (hb : d.bytes = r.bytes ++ rest) :
    FlowStats.unmarshalP FlowStats.new d = .panic := by
  have hl : d.len = r.size + rest.length := by
    rw [← Sw.bytes_length d hdwf, hb, List.length_append, FsRec.bytes_length]
  have hsz : r.size = 48 + r.mb.length + r.ib.length := rfl
  have hd' : d.bytes = be16 (UInt16.ofNat r.size) ++ ([r.tableId, 0] ++ (be32 r.durationSec ++ (be32 r.durationNsec ++
      (be16 r.priority ++ (be16 r.idleTimeout ++ (be16 r.hardTimeout ++ (be16 r.flags ++ (zeros 4 ++ (be64 r.cookie ++
      (be64 r.packetCount ++ (be64 r.byteCount ++ (r.mb ++ (r.ib ++ rest))))))))))))) := by
    rw [hb]; simp only [FsRec.bytes, List.append_assoc]
  obtain ⟨p, e1, _, _, hp⟩ := Sw.sliceR_at d hdwf 20 24 (by omega) (by omega)
  obtain ⟨dm, e2, hdmwf, _, hdm⟩ := Sw.fromR_at d hdwf 48 (by omega)
  unfold FlowStats.unmarshalP FlowStats.new
  simp only [Sw.u16From_at d 0 _ _ hd',
    Sw.byteAt_at d 2 r.tableId _ (by rw [hd']; rfl),
    Sw.byteAt_at d 3 0 _ (by rw [hd']; rfl),
    Sw.u32From_at d 4 r.durationSec _ (by rw [hd']; rfl),
    Sw.u32From_at d 8 r.durationNsec _ (by rw [hd']; rfl),
    Sw.u16From_at d 12 r.priority _ (by rw [hd']; rfl),
    Sw.u16From_at d 14 r.idleTimeout _ (by rw [hd']; rfl),
    Sw.u16From_at d 16 r.hardTimeout _ (by rw [hd']; rfl),
    Sw.u16From_at d 18 r.flags _ (by rw [hd']; rfl), e1,
    Sw.u64From_at d 24 r.cookie _ (by rw [hd']; rfl),
    Sw.u64From_at d 32 r.packetCount _ (by rw [hd']; rfl),
    Sw.u64From_at d 40 r.byteCount _ (by rw [hd']; rfl), e2, Res.bind_ok, Match.new,
    hm _ _ dm hdmwf (r.ib ++ rest) (by rw [hdm, hd']; rfl)]
  rfl

/-- a multipart flow-stats reply in which — after ANY list of decodable records — comes a record whose match decoder
    panics: Parse rejects the reply, whatever follows the record (`tail`) -/
theorem flowStats_reply_matchPanic (xid : UInt32) (mpFlags len : UInt16) (rs : List FsRec) (h : ∀ r ∈ rs, r.OK) (r1 : FsRec)
    (hm1 : ∀ (a b : V) (dm : Slice), dm.WF → ∀ rest, dm.bytes = r1.mb ++ rest →
      Match.unmarshalP (.obj "Match" [a, b, .list []]) dm = .panic)
    (hsize1 : r1.size < 65536) (tail : Bytes)
    (hlen : 16 + (recsBytes rs).length < len.toNat) (depth : Nat) (s : Slice) (hwf : s.WF)
    (hb : s.bytes = [4, 19] ++ (be16 len ++ (be32 xid ++ (be16 1 ++ (be16 mpFlags ++
      (zeros 4 ++ (recsBytes rs ++ (r1.bytes ++ tail)))))))) :
    parse depth s = .err := by
  obtain ⟨k, hk⟩ := Sw.parse_step depth s
  have hge := recsBytes_len_ge rs
  have hlt := len.toNat_lt
  have hs1 : r1.size = 48 + r1.mb.length + r1.ib.length := rfl
  have hl : s.len = 16 + ((recsBytes rs).length + (r1.size + tail.length)) := by
    rw [← Sw.bytes_length s hwf, hb]; simp [FsRec.bytes_length]; omega
  have hdrop : s.bytes.drop 16 = recsBytes rs ++ (r1.bytes ++ tail) := by rw [hb]; rfl
  obtain ⟨d1, g1, hd1wf, _, hd1⟩ := Sw.fromR_at s hwf (16 + (recsBytes rs).length) (by omega)
  have hd1' : d1.bytes = r1.bytes ++ tail := by
    rw [hd1, ← List.drop_drop, hdrop]; simp
  have hrec1 : FlowStats.unmarshalP FlowStats.new d1 = .panic :=
    flowStats_record_matchPanic r1 hm1 hsize1 d1 hd1wf tail hd1'
  have hty : ∀ d, MultipartReply.decodeRecord (1 : UInt16).toNat d = FlowStats.unmarshalP FlowStats.new d := fun _ => rfl
  have hfuel : (65537 : Nat) = rs.length + ((65536 - rs.length) + 1) := by omega
  rw [hk, Sw.step_multipartReply _ s (Sw.byteAt_at s 1 19 _ (by rw [hb]; rfl))]
  unfold MultipartReply.unmarshalWith MultipartReply.zero msgTryU
  simp only [Sw.header_at _ s hwf 4 19 len xid _ hb, Res.bind_ok,
    Sw.u16From_at s 8 1 _ (by rw [hb]; rfl),
    Sw.u16From_at s 10 mpFlags _ (by rw [hb]; rfl), Header.length]
  rw [hfuel, records_prefix s hwf _
    (by
      intro st d r r' l h1 h2 h3 h4
      simp only [h1, Res.bind_ok, hty, h2, h3, if_neg h4]
      rfl)
    rs h 16 [] _ _ (r1.bytes ++ tail) hdrop (by simpa using hlen),
    Sw.msgLoopW_panic _ _ _ _ _ (by simpa using hlen) (by simp only [g1, Res.bind_ok, hty, hrec1]; rfl)]
  rfl

end OFV.Sw3
