/-
  OFV.Lemmas.ParseMatch — openflow13/match.go decoders never spin: the 30 OXM payload kinds are straight-line code,
  a MatchField always reports 4 … 518 bytes, so the field loop of Match.UnmarshalBinary advances on every iteration.
-/
import OFV.Lemmas.ParseHeader
set_option linter.unusedSimpArgs false
namespace OFV.Model
open OFV OFV.Go

theorem mapM2_ns {α} (f : V → R (α × V)) (hf : ∀ x, NS (f x)) : ∀ xs, NS (mapM2 f xs) := by
  intro xs
  induction xs with
  | nil => exact ns_ok _
  | cons x xs ih =>
    unfold mapM2
    post_auto [hf, ih]

theorem readIPv4_ns (d : Slice) : NS (readIPv4 d) := by
  unfold readIPv4
  post_auto

/-- every OXM payload decoder is straight-line code -/
theorem MatchPayload_unmarshal_ns (recv : V) (d : Slice) : NS (MatchPayload.unmarshal recv d) := by
  unfold MatchPayload.unmarshal
  split <;> first
    | exact post_panic
    | (simp only [InPortField.unmarshal, EthDstField.unmarshal, EthSrcField.unmarshal, EthTypeField.unmarshal,
        VlanIdField.unmarshal, MplsLabelField.unmarshal, MplsBosField.unmarshal, Ipv4SrcField.unmarshal,
        Ipv4DstField.unmarshal, Ipv6SrcField.unmarshal, Ipv6DstField.unmarshal, IPv6FlowLabelField.unmarshal,
        IpProtoField.unmarshal, IpDscpField.unmarshal, TunnelIdField.unmarshal, MetadataField.unmarshal,
        PortField.unmarshal, TcpFlagsField.unmarshal, ArpOperField.unmarshal, TunnelIpv4SrcField.unmarshal,
        TunnelIpv4DstField.unmarshal, ArpXHaField.unmarshal, ArpXPaField.unmarshal, ActsetOutputField.unmarshal,
        IcmpTypeField.unmarshal, IcmpCodeField.unmarshal, Uint16Message.unmarshal, Uint32Message.unmarshal,
        ByteArrayField.unmarshal, CTLabel.unmarshal]
       post_auto [readIPv4_ns])

/-- an OXM payload reports at most 255 bytes -/
theorem MatchPayload_lenM_post (v : V) : Post (MatchPayload.lenM v) (fun p => p.1.toNat ≤ 255) := by
  unfold MatchPayload.lenM
  split <;> first
    | exact post_panic
    | (simp only [InPortField.lenM, EthDstField.lenM, EthSrcField.lenM, EthTypeField.lenM,
        VlanIdField.lenM, MplsLabelField.lenM, MplsBosField.lenM, Ipv4SrcField.lenM,
        Ipv4DstField.lenM, Ipv6SrcField.lenM, Ipv6DstField.lenM, IPv6FlowLabelField.lenM,
        IpProtoField.lenM, IpDscpField.lenM, TunnelIdField.lenM, MetadataField.lenM,
        PortField.lenM, TcpFlagsField.lenM, ArpOperField.lenM, TunnelIpv4SrcField.lenM,
        TunnelIpv4DstField.lenM, ArpXHaField.lenM, ArpXPaField.lenM, ActsetOutputField.lenM,
        IcmpTypeField.lenM, IcmpCodeField.lenM, Uint16Message.lenM, Uint32Message.lenM,
        CTLabel.lenM, same]
       apply post_ok; simp only []; decide)
    | (unfold ByteArrayField.lenM
       split
       · apply post_ok
         simp only [UInt8.toNat_toUInt16]
         have := (n8 ‹Nat›).toNat_lt
         omega
       · exact post_panic)

theorem DecodeMatchField_ns (cls field length : Nat) (hasMask : Bool) (d : Slice) :
    NS (DecodeMatchField cls field length hasMask d) := by
  unfold DecodeMatchField
  post_auto [MatchPayload_unmarshal_ns]


/-- a match field reports between 4 and 518 bytes: no uint16 wrap-around, never 0 -/
theorem MatchField_lenM_post (v : V) : Post (MatchField.lenM v) (fun p => 4 ≤ p.1.toNat ∧ p.1.toNat ≤ 518) := by
  have h4 : (4 : UInt16).toNat = 4 := rfl
  have h8 : (8 : UInt16).toNat = 8 := rfl
  unfold MatchField.lenM
  split
  · rename_i c f hm l eid val mask
    apply post_bind (MatchPayload_lenM_post val); intro p1 _ h1
    obtain ⟨lv, val'⟩ := p1
    simp only [] at h1 ⊢
    split
    · apply post_ok
      simp only []
      split <;> simp only [UInt16.toNat_add, h4, h8] <;> omega
    · apply post_bind (MatchPayload_lenM_post mask); intro p2 _ h2
      obtain ⟨lm, mask'⟩ := p2
      simp only [] at h2 ⊢
      apply post_ok
      simp only []
      split <;> simp only [UInt16.toNat_add, h4, h8] <;> omega
  · exact post_panic

theorem MatchField_unmarshal_ns (recv : V) (d : Slice) : NS (MatchField.unmarshal recv d) := by
  unfold MatchField.unmarshal
  post_auto [DecodeMatchField_ns, (MatchPayload_lenM_post _).ns]

theorem MatchField_unmarshalHeader_ns (recv : V) (d : Slice) : NS (MatchField.unmarshalHeader recv d) := by
  unfold MatchField.unmarshalHeader
  post_auto

theorem Match_lenM_ns (v : V) : NS (Match.lenM v) := by
  unfold Match.lenM
  post_auto [mapM2_ns, (MatchField_lenM_post _).ns]

/-- the match-field loop terminates: every decoded field reports at least 4 bytes -/
theorem Match_unmarshalP_ns (recv : V) (data : Slice) : NS (Match.unmarshalP recv data) := by
  unfold Match.unmarshalP
  split
  · apply post_bind_ns (ns_u16From _ _); intro ty _
    apply post_bind_ns (ns_u16From _ _); intro ln _
    apply post_bind_ns
    · refine (goLoop_post _ _ _ (fun _ => True) (data.len + 1) ?_ _ _ trivial ?_).ns
      · intro s _ hc
        simp only [Bool.and_eq_true, Bool.not_eq_true', decide_eq_true_eq] at hc
        apply post_bind (P := fun _ => s.n ≤ data.len) ?_ ?_
        · exact ⟨(ns_fromR _ _).1, fun d hd => (fromR_inv _ _ _ hd).1⟩
        intro d _ hn
        split
        · rename_i f _
          apply post_bind (MatchField_lenM_post f); intro p _ hp
          obtain ⟨l, f'⟩ := p
          simp only [] at hp ⊢
          apply post_ok
          simp [hc.1]
          omega
        · apply post_ok; simp [hc.1]; omega
        · exact post_panic
        · exact absurd ‹_› (MatchField_unmarshal_ns _ _).1
      · simp; omega
    · intro st _; post_auto
  · exact post_panic

theorem Match_unmarshal_ns (recv : V) (data : Slice) : NS (Match.unmarshal recv data) := by
  unfold Match.unmarshal
  split <;> first | post_leaf | exact absurd ‹_› (Match_unmarshalP_ns _ _).1

end OFV.Model
