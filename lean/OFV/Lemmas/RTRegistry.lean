/-
  OFV.Lemmas.RTRegistry — every (class, field) for which DecodeMatchField allocates a receiver (classes OPENFLOW_BASIC,
  NXM_1 and EXPERIMENTER) has a well-formed value: the MatchField round trip of OFV/Props/C05.lean covers the whole registry.
-/
import OFV.Model.All
import OFV.Lemmas.RTBasic
import OFV.Lemmas.RTPayload
import OFV.Lemmas.RTMatch
namespace OFV.RT
set_option linter.unusedSimpArgs false
open OFV OFV.Go OFV.Model

/-- a receiver of DecodeMatchField for which a well-formed value exists (so MatchFieldWF is satisfiable for its field) -/
def Supported (r : V) : Prop := ∃ val, PayloadWF val ∧ RecvOK val r

theorem lookup_mem {β : Type} (f : Nat) (tab : List (Nat × β)) (y : β) (h : tab.lookup f = some y) : (f, y) ∈ tab := by
  induction tab with
  | nil => simp [List.lookup] at h
  | cons x t ih =>
    obtain ⟨a, b⟩ := x
    simp only [List.lookup] at h
    split at h
    · rename_i heq
      have : f = a := by simpa using heq
      cases h; subst this; simp
    · exact List.mem_cons_of_mem _ (ih h)

theorem sup_InPortField : Supported InPortField.zero :=
  ⟨InPortField.zero, ⟨0, rfl, by decide⟩, rfl, by simp [V.kind, InPortField.zero], by simp [V.kind, InPortField.zero]⟩
theorem sup_MplsLabelField : Supported MplsLabelField.zero :=
  ⟨MplsLabelField.zero, ⟨0, rfl, by decide⟩, rfl, by simp [V.kind, MplsLabelField.zero], by simp [V.kind, MplsLabelField.zero]⟩
theorem sup_IPv6FlowLabelField : Supported IPv6FlowLabelField.zero :=
  ⟨IPv6FlowLabelField.zero, ⟨0, rfl, by decide⟩, rfl, by simp [V.kind, IPv6FlowLabelField.zero], by simp [V.kind, IPv6FlowLabelField.zero]⟩
theorem sup_ActsetOutputField : Supported ActsetOutputField.zero :=
  ⟨ActsetOutputField.zero, ⟨0, rfl, by decide⟩, rfl, by simp [V.kind, ActsetOutputField.zero], by simp [V.kind, ActsetOutputField.zero]⟩
theorem sup_Uint32Message : Supported Uint32Message.zero :=
  ⟨Uint32Message.zero, ⟨0, rfl, by decide⟩, rfl, by simp [V.kind, Uint32Message.zero], by simp [V.kind, Uint32Message.zero]⟩
theorem sup_EthTypeField : Supported EthTypeField.zero :=
  ⟨EthTypeField.zero, ⟨0, rfl, by decide⟩, rfl, by simp [V.kind, EthTypeField.zero], by simp [V.kind, EthTypeField.zero]⟩
theorem sup_VlanIdField : Supported VlanIdField.zero :=
  ⟨VlanIdField.zero, ⟨0, rfl, by decide⟩, rfl, by simp [V.kind, VlanIdField.zero], by simp [V.kind, VlanIdField.zero]⟩
theorem sup_PortField : Supported PortField.zero :=
  ⟨PortField.zero, ⟨0, rfl, by decide⟩, rfl, by simp [V.kind, PortField.zero], by simp [V.kind, PortField.zero]⟩
theorem sup_TcpFlagsField : Supported TcpFlagsField.zero :=
  ⟨TcpFlagsField.zero, ⟨0, rfl, by decide⟩, rfl, by simp [V.kind, TcpFlagsField.zero], by simp [V.kind, TcpFlagsField.zero]⟩
theorem sup_ArpOperField : Supported ArpOperField.zero :=
  ⟨ArpOperField.zero, ⟨0, rfl, by decide⟩, rfl, by simp [V.kind, ArpOperField.zero], by simp [V.kind, ArpOperField.zero]⟩
theorem sup_Uint16Message : Supported Uint16Message.zero :=
  ⟨Uint16Message.zero, ⟨0, rfl, by decide⟩, rfl, by simp [V.kind, Uint16Message.zero], by simp [V.kind, Uint16Message.zero]⟩
theorem sup_MplsBosField : Supported MplsBosField.zero :=
  ⟨MplsBosField.zero, ⟨0, rfl, by decide⟩, rfl, by simp [V.kind, MplsBosField.zero], by simp [V.kind, MplsBosField.zero]⟩
theorem sup_IpProtoField : Supported IpProtoField.zero :=
  ⟨IpProtoField.zero, ⟨0, rfl, by decide⟩, rfl, by simp [V.kind, IpProtoField.zero], by simp [V.kind, IpProtoField.zero]⟩
theorem sup_IpDscpField : Supported IpDscpField.zero :=
  ⟨IpDscpField.zero, ⟨0, rfl, by decide⟩, rfl, by simp [V.kind, IpDscpField.zero], by simp [V.kind, IpDscpField.zero]⟩
theorem sup_IcmpTypeField : Supported IcmpTypeField.zero :=
  ⟨IcmpTypeField.zero, ⟨0, rfl, by decide⟩, rfl, by simp [V.kind, IcmpTypeField.zero], by simp [V.kind, IcmpTypeField.zero]⟩
theorem sup_IcmpCodeField : Supported IcmpCodeField.zero :=
  ⟨IcmpCodeField.zero, ⟨0, rfl, by decide⟩, rfl, by simp [V.kind, IcmpCodeField.zero], by simp [V.kind, IcmpCodeField.zero]⟩
theorem sup_TunnelIdField : Supported TunnelIdField.zero :=
  ⟨TunnelIdField.zero, ⟨0, rfl, by decide⟩, rfl, by simp [V.kind, TunnelIdField.zero], by simp [V.kind, TunnelIdField.zero]⟩
theorem sup_MetadataField : Supported MetadataField.zero :=
  ⟨MetadataField.zero, ⟨0, rfl, by decide⟩, rfl, by simp [V.kind, MetadataField.zero], by simp [V.kind, MetadataField.zero]⟩
theorem sup_EthDstField : Supported EthDstField.zero :=
  ⟨.obj "EthDstField" [.bytes (zeros 6)], ⟨_, rfl, rfl⟩, rfl, by simp [V.kind], by simp [V.kind]⟩
theorem sup_EthSrcField : Supported EthSrcField.zero :=
  ⟨.obj "EthSrcField" [.bytes (zeros 6)], ⟨_, rfl, rfl⟩, rfl, by simp [V.kind], by simp [V.kind]⟩
theorem sup_ArpXHaField : Supported ArpXHaField.zero :=
  ⟨.obj "ArpXHaField" [.bytes (zeros 6)], ⟨_, rfl, rfl⟩, rfl, by simp [V.kind], fun _ => ⟨[], rfl⟩⟩
theorem sup_Ipv6SrcField : Supported Ipv6SrcField.zero :=
  ⟨.obj "Ipv6SrcField" [.bytes (zeros 16)], ⟨_, rfl, rfl⟩, rfl, by simp [V.kind], by simp [V.kind]⟩
theorem sup_Ipv6DstField : Supported Ipv6DstField.zero :=
  ⟨.obj "Ipv6DstField" [.bytes (zeros 16)], ⟨_, rfl, rfl⟩, rfl, by simp [V.kind], by simp [V.kind]⟩
theorem sup_CTLabel : Supported CTLabel.zero :=
  ⟨.obj "CTLabel" [.bytes (zeros 16)], ⟨_, rfl, rfl⟩, rfl, by simp [V.kind], by simp [V.kind]⟩
theorem sup_Ipv4SrcField : Supported Ipv4SrcField.zero :=
  ⟨.obj "Ipv4SrcField" [.bytes (ipv4 0 0 0 0)], ⟨_, rfl, rfl, rfl⟩, rfl, by simp [V.kind], by simp [V.kind]⟩
theorem sup_Ipv4DstField : Supported Ipv4DstField.zero :=
  ⟨.obj "Ipv4DstField" [.bytes (ipv4 0 0 0 0)], ⟨_, rfl, rfl, rfl⟩, rfl, by simp [V.kind], by simp [V.kind]⟩
theorem sup_TunnelIpv4SrcField : Supported TunnelIpv4SrcField.zero :=
  ⟨.obj "TunnelIpv4SrcField" [.bytes (ipv4 0 0 0 0)], ⟨_, rfl, rfl, rfl⟩, rfl, by simp [V.kind], by simp [V.kind]⟩
theorem sup_TunnelIpv4DstField : Supported TunnelIpv4DstField.zero :=
  ⟨.obj "TunnelIpv4DstField" [.bytes (ipv4 0 0 0 0)], ⟨_, rfl, rfl, rfl⟩, rfl, by simp [V.kind], by simp [V.kind]⟩
theorem sup_ArpXPaField : Supported ArpXPaField.zero :=
  ⟨.obj "ArpXPaField" [.bytes (ipv4 0 0 0 0)], ⟨_, rfl, rfl, rfl⟩, rfl, by simp [V.kind], by simp [V.kind]⟩
theorem sup_byteArray (ln : Nat) (hm : Bool) : Supported (byteArrayRecv ln hm) := by
  show Supported (.obj "ByteArrayField" [.bytes [], V.u8 (if hm = true then n8 ln / 2 else n8 ln)])
  generalize (if hm = true then n8 ln / 2 else n8 ln) = x
  refine ⟨.obj "ByteArrayField" [.bytes (zeros x.toNat), V.u8 x], ⟨_, _, rfl, x.toNat_lt, by simp⟩, rfl,
    fun _ => ⟨_, _, _, rfl, rfl⟩, by simp [V.kind]⟩

/-- every receiver in the OPENFLOW_BASIC table is supported -/
theorem basic_supported (x : Nat × Option V) (hx : x ∈ basicFieldTable) (r : V) (hr : x.2 = some r) : Supported r := by
  simp only [basicFieldTable, List.mem_cons, List.not_mem_nil, or_false] at hx
  rcases hx with rfl | rfl | rfl | rfl | rfl | rfl | rfl | rfl | rfl | rfl | rfl | rfl | rfl | rfl | rfl | rfl | rfl | rfl | rfl | rfl | rfl | rfl | rfl | rfl | rfl | rfl | rfl | rfl | rfl | rfl | rfl | rfl | rfl | rfl | rfl | rfl | rfl | rfl | rfl | rfl | rfl | rfl
  all_goals first
    | (cases hr; done)
    | (cases hr
       first | exact sup_InPortField | exact sup_MplsLabelField | exact sup_IPv6FlowLabelField | exact sup_ActsetOutputField | exact sup_Uint32Message | exact sup_EthTypeField | exact sup_VlanIdField | exact sup_PortField | exact sup_TcpFlagsField | exact sup_ArpOperField | exact sup_Uint16Message | exact sup_MplsBosField | exact sup_IpProtoField | exact sup_IpDscpField | exact sup_IcmpTypeField | exact sup_IcmpCodeField | exact sup_TunnelIdField | exact sup_MetadataField | exact sup_EthDstField | exact sup_EthSrcField | exact sup_ArpXHaField | exact sup_Ipv6SrcField | exact sup_Ipv6DstField | exact sup_CTLabel | exact sup_Ipv4SrcField | exact sup_Ipv4DstField | exact sup_TunnelIpv4SrcField | exact sup_TunnelIpv4DstField | exact sup_ArpXPaField | exact sup_byteArray _ _)

/-- every receiver in the NXM_1 table is supported -/
theorem nxm1_supported (ln : Nat) (hm : Bool) (x : Nat × Option V) (hx : x ∈ nxm1FieldTable ln hm) (r : V)
    (hr : x.2 = some r) : Supported r := by
  simp only [nxm1FieldTable, List.mem_cons, List.not_mem_nil, or_false] at hx
  rcases hx with rfl | rfl | rfl | rfl | rfl | rfl | rfl | rfl | rfl | rfl | rfl | rfl | rfl | rfl | rfl | rfl | rfl | rfl | rfl | rfl | rfl | rfl | rfl | rfl | rfl | rfl | rfl | rfl | rfl | rfl | rfl | rfl | rfl | rfl | rfl | rfl | rfl | rfl | rfl | rfl | rfl | rfl | rfl | rfl | rfl | rfl | rfl | rfl | rfl | rfl | rfl | rfl | rfl | rfl | rfl | rfl | rfl | rfl | rfl | rfl | rfl | rfl | rfl | rfl | rfl | rfl | rfl
  all_goals first
    | (cases hr; done)
    | (cases hr
       first | exact sup_InPortField | exact sup_MplsLabelField | exact sup_IPv6FlowLabelField | exact sup_ActsetOutputField | exact sup_Uint32Message | exact sup_EthTypeField | exact sup_VlanIdField | exact sup_PortField | exact sup_TcpFlagsField | exact sup_ArpOperField | exact sup_Uint16Message | exact sup_MplsBosField | exact sup_IpProtoField | exact sup_IpDscpField | exact sup_IcmpTypeField | exact sup_IcmpCodeField | exact sup_TunnelIdField | exact sup_MetadataField | exact sup_EthDstField | exact sup_EthSrcField | exact sup_ArpXHaField | exact sup_Ipv6SrcField | exact sup_Ipv6DstField | exact sup_CTLabel | exact sup_Ipv4SrcField | exact sup_Ipv4DstField | exact sup_TunnelIpv4SrcField | exact sup_TunnelIpv4DstField | exact sup_ArpXPaField | exact sup_byteArray _ _)

/-- every receiver in the EXPERIMENTER table is supported -/
theorem experimenter_supported (x : Nat × Option V) (hx : x ∈ experimenterFieldTable) (r : V) (hr : x.2 = some r) :
    Supported r := by
  simp only [experimenterFieldTable, List.mem_cons, List.not_mem_nil, or_false] at hx
  rcases hx with rfl | rfl
  · cases hr; exact sup_TcpFlagsField
  · cases hr; exact sup_ActsetOutputField

theorem decTarget_val (tab : List (Nat × Option V)) (f : Nat) (r : V)
    (h : (match decTarget tab f with | .val r => some r | _ => none) = some r) : (f, some r) ∈ tab := by
  unfold decTarget at h
  split at h
  · rename_i r' heq
    cases h
    split at heq
    · rename_i r'' hl
      cases heq
      exact lookup_mem f _ _ hl
    · cases heq
    · cases heq
  · cases h

/-- whenever DecodeMatchField allocates a receiver for (class, field) in the three classes, a well-formed value of its
    kind exists: `MatchFieldWF` is satisfiable for every such field of the registry -/
theorem fieldRecv_supported (c f ln : Nat) (hm : Bool) (r : V) (h : fieldRecv c f ln hm = some r) : Supported r := by
  unfold fieldRecv at h
  split at h
  · exact basic_supported _ (decTarget_val _ f r h) r rfl
  · split at h
    · exact nxm1_supported ln hm _ (decTarget_val _ f r h) r rfl
    · split at h
      · exact experimenter_supported _ (decTarget_val _ f r h) r rfl
      · cases h

end OFV.RT
