/-
  OFV.Lemmas.ElemFill — prefixes of `fill L pieces` encoders, big-endian reads from known prefixes, and the generic
  "a concatenation of self-delimiting elements is walked back into exactly those elements" lemma (for C02b).
  Everything lives in namespace OFV.Elem so that it cannot clash with other lemma libraries.
-/
import OFV.Go.Fill
import OFV.Lemmas.Fill
import OFV.Lemmas.BeAt
import OFV.Lemmas.Size
namespace OFV.Elem
open OFV OFV.Go OFV.Spec OFV.Model

/-! ### the running offset only grows: what lies below it is final -/

theorem overwrite_take (buf : Bytes) (n : Nat) (bs : Bytes) (hn : n ≤ buf.length) :
    (overwrite buf n bs).take n = buf.take n := by
  unfold overwrite
  rw [List.append_assoc, List.take_append_of_le_length (by simp; omega)]
  rw [List.take_take]
  congr 1; omega

theorem overwrite_take_le (buf : Bytes) (n m : Nat) (bs : Bytes) (hm : m ≤ n) (hn : n ≤ buf.length) :
    (overwrite buf n bs).take m = buf.take m := by
  have h := overwrite_take buf n bs hn
  have : ((overwrite buf n bs).take n).take m = (buf.take n).take m := by rw [h]
  simpa [List.take_take, Nat.min_eq_left hm] using this

/-- a successful run never touches the bytes below the starting offset -/
theorem fillFrom_take (ps : List Piece) : ∀ (buf : Bytes) (n : Nat) (out : Bytes),
    fillFrom buf n ps = .ok out → ∀ m, m ≤ n → out.take m = buf.take m := by
  induction ps with
  | nil => intro buf n out h m _; simp [fillFrom] at h; rw [h]
  | cons p ps ih =>
    intro buf n out h m hm
    cases p with
    | put bs =>
      simp only [fillFrom] at h
      split at h
      · rw [ih _ _ _ h m (by omega), overwrite_take_le _ _ _ _ hm (by omega)]
      · exact absurd h (by simp)
    | copy bs =>
      simp only [fillFrom] at h
      split at h
      · rw [ih _ _ _ h m (by omega), overwrite_take_le _ _ _ _ hm (by omega)]
      · exact absurd h (by simp)
    | copyAdv bs a =>
      simp only [fillFrom] at h
      split at h
      · rw [ih _ _ _ h m (by omega), overwrite_take_le _ _ _ _ hm (by omega)]
      · exact absurd h (by simp)
    | skip k =>
      simp only [fillFrom] at h
      exact ih _ _ _ h m (by omega)

theorem fillFrom_append (ps qs : List Piece) : ∀ (buf : Bytes) (n : Nat),
    fillFrom buf n (ps ++ qs) = (fillFrom buf n ps >>= fun b => fillFrom b (n + piecesLen ps) qs) := by
  induction ps with
  | nil => intro buf n; simp [fillFrom, piecesLen]
  | cons p ps ih =>
    intro buf n
    have hpl : piecesLen (p :: ps) = p.adv + piecesLen ps := by simp [piecesLen]
    cases p with
    | put bs =>
      simp only [List.cons_append, fillFrom, hpl, Piece.adv]
      split
      · rw [ih]; simp only [Nat.add_assoc]
      · rfl
    | copy bs =>
      simp only [List.cons_append, fillFrom, hpl, Piece.adv]
      split
      · rw [ih]; simp only [Nat.add_assoc]
      · rfl
    | copyAdv bs a =>
      simp only [List.cons_append, fillFrom, hpl, Piece.adv]
      split
      · rw [ih]; simp only [Nat.add_assoc]
      · rfl
    | skip k =>
      simp only [List.cons_append, fillFrom, hpl, Piece.adv]
      rw [ih]; simp only [Nat.add_assoc]

/-- PREFIX: if the first pieces `ps` fit, the result starts with exactly their bytes — whatever follows
    (later pieces may be truncated or not; they cannot reach below the offset) -/
theorem fill_prefix (L : Nat) (ps qs : List Piece) (out : Bytes) (ht : ∀ p ∈ ps, p.Tight) (hfit : piecesLen ps ≤ L)
    (h : fill L (ps ++ qs) = .ok out) : out.take (piecesLen ps) = piecesBytes ps := by
  unfold fill at h
  rw [fillFrom_append] at h
  have hx := fillFrom_exact [] ps L ht hfit
  simp only [List.nil_append, List.length_nil] at hx
  rw [hx] at h
  simp only [Res.bind_ok, Nat.zero_add] at h
  have ht2 := fillFrom_take qs _ _ _ h (piecesLen ps) (Nat.le_refl _)
  rw [ht2]
  have hlen : (piecesBytes ps).length = piecesLen ps := by
    clear hx h ht2 hfit
    induction ps with
    | nil => rfl
    | cons p ps ih =>
      have htp := ht p (by simp)
      have := ih (fun q hq => ht q (by simp [hq]))
      cases p with
      | put bs => simp [piecesBytes, piecesLen, Piece.bytes, Piece.adv] at this ⊢; omega
      | copy bs => simp [piecesBytes, piecesLen, Piece.bytes, Piece.adv] at this ⊢; omega
      | copyAdv bs a =>
        simp only [Piece.Tight] at htp
        simp [piecesBytes, piecesLen, Piece.bytes, Piece.adv] at this ⊢; omega
      | skip k => simp [piecesBytes, piecesLen, Piece.bytes, Piece.adv] at this ⊢; omega
  rw [List.take_append_of_le_length (by omega), List.take_of_length_le (by omega)]

/-- … in the form `out = prefix ++ rest` -/
theorem fill_prefix' (L : Nat) (ps qs : List Piece) (out : Bytes) (ht : ∀ p ∈ ps, p.Tight) (hfit : piecesLen ps ≤ L)
    (h : fill L (ps ++ qs) = .ok out) : out = piecesBytes ps ++ out.drop (piecesLen ps) := by
  have := fill_prefix L ps qs out ht hfit h
  conv => lhs; rw [← List.take_append_drop (piecesLen ps) out, this]

/-- first piece is a copy of a header `hb` that fits: the result starts with `hb` -/
theorem fill_head (L : Nat) (hb : Bytes) (qs : List Piece) (out : Bytes) (hfit : hb.length ≤ L)
    (h : fill L (pCopy hb :: qs) = .ok out) : out = hb ++ out.drop hb.length := by
  have := fill_prefix' L [pCopy hb] qs out (by intro p hp; simp [pCopy] at hp; subst hp; trivial)
    (by simpa [piecesLen, pCopy, Piece.adv] using hfit) h
  simpa [piecesBytes, piecesLen, pCopy, Piece.bytes, Piece.adv] using this

/-- same with a `copy(data, hb); n += k` first piece -/
theorem fill_headAdv (L : Nat) (hb : Bytes) (k : Nat) (qs : List Piece) (out : Bytes) (hk : hb.length = k) (hfit : k ≤ L)
    (h : fill L (pCopyAdv hb k :: qs) = .ok out) : out = hb ++ out.drop hb.length := by
  have := fill_prefix' L [pCopyAdv hb k] qs out
    (by intro p hp; simp [pCopyAdv] at hp; subst hp; simp only [Piece.Tight]; omega)
    (by simpa [piecesLen, pCopyAdv, Piece.adv] using hfit) h
  subst hk
  simpa [piecesBytes, piecesLen, pCopyAdv, Piece.bytes, Piece.adv, zeros] using this

/-- when ALL pieces fit: their bytes, then zeros up to the allocated size -/
theorem fill_all (L : Nat) (ps : List Piece) (out : Bytes) (ht : ∀ p ∈ ps, p.Tight) (hfit : piecesLen ps ≤ L)
    (h : fill L ps = .ok out) : out = piecesBytes ps ++ zeros (L - piecesLen ps) := by
  rw [fill_exact L ps ht hfit] at h
  cases h; rfl

/-! ### big-endian reads from a known prefix -/

theorem beAt_0_2 (a b : UInt8) (rest : Bytes) : beAt (a :: b :: rest) 0 2 = a.toNat * 256 + b.toNat := by
  simp [beAt]

theorem beAt_2_2 (x y a b : UInt8) (rest : Bytes) : beAt (x :: y :: a :: b :: rest) 2 2 = a.toNat * 256 + b.toNat := by
  simp [beAt]

/-- type(2) length(2) header: the two words read back -/
theorem beAt_tl_type (t l : UInt16) (rest : Bytes) : beAt (be16 t ++ be16 l ++ rest) 0 2 = t.toNat := by
  rw [List.append_assoc]; exact beAt_be16 t _

theorem beAt_tl_len (t l : UInt16) (rest : Bytes) : beAt (be16 t ++ be16 l ++ rest) 2 2 = l.toNat := by
  rw [List.append_assoc]
  have := beAt_append_right (be16 t) (be16 l ++ rest) 0 2
  simp only [be16_length, Nat.add_zero] at this
  rw [this]; exact beAt_be16 l _

/-- Nicira action header: type(2) length(2) vendor(4) subtype(2) -/
theorem beAt_nx_type (t l : UInt16) (v : UInt32) (s : UInt16) (rest : Bytes) :
    beAt (be16 t ++ be16 l ++ be32 v ++ be16 s ++ rest) 0 2 = t.toNat := by
  simp only [List.append_assoc]; exact beAt_be16 t _

theorem beAt_nx_len (t l : UInt16) (v : UInt32) (s : UInt16) (rest : Bytes) :
    beAt (be16 t ++ be16 l ++ be32 v ++ be16 s ++ rest) 2 2 = l.toNat := by
  simp only [List.append_assoc]
  have := beAt_append_right (be16 t) (be16 l ++ (be32 v ++ (be16 s ++ rest))) 0 2
  simp only [be16_length, Nat.add_zero] at this
  rw [this]; exact beAt_be16 l _

theorem beAt_nx_vendor (t l : UInt16) (v : UInt32) (s : UInt16) (rest : Bytes) :
    beAt (be16 t ++ be16 l ++ be32 v ++ be16 s ++ rest) 4 4 = v.toNat := by
  have e : be16 t ++ be16 l ++ be32 v ++ be16 s ++ rest = (be16 t ++ be16 l) ++ (be32 v ++ (be16 s ++ rest)) := by
    simp only [List.append_assoc]
  rw [e]
  have := beAt_append_right (be16 t ++ be16 l) (be32 v ++ (be16 s ++ rest)) 0 4
  simp only [List.length_append, be16_length, Nat.add_zero] at this
  rw [this]; exact beAt_be32 v _

theorem beAt_nx_sub (t l : UInt16) (v : UInt32) (s : UInt16) (rest : Bytes) :
    beAt (be16 t ++ be16 l ++ be32 v ++ be16 s ++ rest) 8 2 = s.toNat := by
  have e : be16 t ++ be16 l ++ be32 v ++ be16 s ++ rest = (be16 t ++ be16 l ++ be32 v) ++ (be16 s ++ rest) := by
    simp only [List.append_assoc]
  rw [e]
  have := beAt_append_right (be16 t ++ be16 l ++ be32 v) (be16 s ++ rest) 0 2
  simp only [List.length_append, be16_length, be32_length, Nat.add_zero] at this
  rw [this]; exact beAt_be16 s _

theorem beAt_append_left (a b : Bytes) (off w : Nat) (h : off + w ≤ a.length) : beAt (a ++ b) off w = beAt a off w := by
  unfold beAt
  rw [List.drop_append_of_le_length (by omega), List.take_append_of_le_length (by simp; omega)]

theorem beAt_take (bs : Bytes) (m off w : Nat) (h : off + w ≤ m) : beAt (bs.take m) off w = beAt bs off w := by
  unfold beAt
  rw [List.drop_take, List.take_take, Nat.min_eq_left (by omega)]

/-- the middle part of `a ++ m ++ z` -/
theorem mid_of_append (a m z : Bytes) (k : Nat) (hk : a.length = k) : ((a ++ m ++ z).drop k).take m.length = m := by
  subst hk
  rw [List.append_assoc, List.drop_left]; simp

/-- the tail of `a ++ m ++ z` -/
theorem tail_of_append (a m z : Bytes) (k : Nat) (hk : a.length + m.length = k) : (a ++ m ++ z).drop k = z := by
  subst hk
  have : a.length + m.length = (a ++ m).length := by simp
  rw [this, List.drop_left]

theorem n16_toNat' (n : Nat) : (n16 n).toNat = n % 65536 := by simp [n16, UInt16.toNat_ofNat']
theorem n32_toNat' (n : Nat) : (n32 n).toNat = n % 4294967296 := by simp [n32, UInt32.toNat_ofNat']
theorem n16_of_toNat (x : UInt16) : n16 x.toNat = x := by
  apply UInt16.toNat_inj.mp; simp [n16]

/-! ### walking a concatenation of self-delimiting elements -/

/-- a receiver that knows only how to read the declared length at the start of what remains:
    cut off that many bytes, continue with the rest, stop at the end.  `none`: a declared length of 0 (no progress) or
    beyond the remaining bytes. -/
def walkBy (declared : Bytes → Nat) : Nat → Bytes → Option (List Bytes)
  | 0, _ => none
  | fuel + 1, bs =>
    if bs.isEmpty then some []
    else
      let n := declared bs
      if n = 0 ∨ bs.length < n then none
      else (walkBy declared fuel (bs.drop n)).map (fun r => bs.take n :: r)

/-- the element declares its own size, whatever follows it -/
def SelfDelim (declared : Bytes → Nat) (c : Bytes) : Prop :=
  0 < c.length ∧ ∀ tail, declared (c ++ tail) = c.length

/-- WALK: a concatenation of self-delimiting elements, walked by declared lengths only, yields exactly those elements
    in order and ends exactly at the end (`some`); one step of fuel per element plus one. -/
theorem walkBy_flatten (declared : Bytes → Nat) (cs : List Bytes) (hc : ∀ c ∈ cs, SelfDelim declared c) :
    ∀ fuel, cs.length < fuel → walkBy declared fuel cs.flatten = some cs := by
  induction cs with
  | nil => intro fuel hf; cases fuel with
    | zero => omega
    | succ f => simp [walkBy]
  | cons c cs ih =>
    intro fuel hf
    cases fuel with
    | zero => omega
    | succ f =>
      obtain ⟨hpos, hd⟩ := hc c (by simp)
      have hne : (c ++ cs.flatten).isEmpty = false := by
        cases c with
        | nil => simp at hpos
        | cons x xs => rfl
      simp only [walkBy, List.flatten_cons, hne, hd cs.flatten]
      have h1 : ¬(c.length = 0 ∨ (c ++ cs.flatten).length < c.length) := by
        simp only [List.length_append]; omega
      rw [if_neg h1]
      simp only [Bool.false_eq_true, if_false, List.drop_left, List.take_left]
      rw [ih (fun x hx => hc x (by simp [hx])) f (by simp at hf; omega)]
      rfl

/-- the walk consumes every byte: the visited elements add up to the whole -/
theorem walkBy_total (declared : Bytes → Nat) : ∀ (fuel : Nat) (bs : Bytes) (cs : List Bytes),
    walkBy declared fuel bs = some cs → cs.flatten = bs := by
  intro fuel
  induction fuel with
  | zero => intro bs cs h; simp [walkBy] at h
  | succ f ih =>
    intro bs cs h
    simp only [walkBy] at h
    split at h
    · rename_i he
      cases h
      simp at he; simp [he]
    · split at h
      · exact absurd h (by simp)
      · cases hw : walkBy declared f (bs.drop (declared bs)) with
        | none => rw [hw] at h; simp at h
        | some r =>
          rw [hw] at h
          simp only [Option.map_some, Option.some.injEq] at h
          subst h
          simp only [List.flatten_cons, ih _ _ hw, List.take_append_drop]

end OFV.Elem
