/-
  OFV.Lemmas.BufFill — the regenerated encoders' buffer statements (OFV.Go.Buf) are the steps of `fillFrom`
  (OFV.Go.Fill), the vocabulary of the hand model: used by Props/C03d to compare the two without evaluating the buffer.
-/
import OFV.Go.Buf
namespace OFV.Go
open OFV

theorem fillFrom_put (buf : Bytes) (n : Nat) (bs : Bytes) (ps : List Piece) :
    fillFrom buf n (.put bs :: ps) = Buf.put buf n bs >>= fun b => fillFrom b (n + bs.length) ps := by
  simp only [fillFrom, Buf.put]; split <;> rfl

theorem fillFrom_copy (buf : Bytes) (n : Nat) (bs : Bytes) (ps : List Piece) :
    fillFrom buf n (.copy bs :: ps) = Buf.copy buf n bs >>= fun b => fillFrom b (n + bs.length) ps := by
  simp only [fillFrom, Buf.copy]; split <;> rfl

theorem fillFrom_copyAdv (buf : Bytes) (n : Nat) (bs : Bytes) (a : Nat) (ps : List Piece) :
    fillFrom buf n (.copyAdv bs a :: ps) = Buf.copy buf n bs >>= fun b => fillFrom b (n + a) ps := by
  simp only [fillFrom, Buf.copy]; split <;> rfl

theorem fillFrom_skip (buf : Bytes) (n k : Nat) (ps : List Piece) :
    fillFrom buf n (.skip k :: ps) = fillFrom buf (n + k) ps := rfl

theorem fillFrom_nil (buf : Bytes) (n : Nat) : fillFrom buf n [] = .ok buf := rfl

end OFV.Go
