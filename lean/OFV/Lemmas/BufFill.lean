/-
  OFV.Lemmas.BufFill — the regenerated encoders' buffer statements (OFV.Go.Buf) are the steps of `fillFrom`
  (OFV.Go.Fill), the vocabulary of the hand model: used by Props/C03d to compare the two without evaluating the buffer.
-/
import OFV.Go.Buf
namespace OFV.Go
open OFV

theorem fillFrom_put (buf : Bytes) (n : Nat) (bs : Bytes) (ps : List Piece) :
    fillFrom buf n (.put bs :: ps) = Buf.put buf n bs >>= fun b => fillFrom b (n + bs.length) ps := by
  simp only [fillFrom, Buf.put]; split <;> rfl

theorem fillFrom_copy (buf : Bytes) (n : Nat) (bs : Bytes) (ps : List Piece) :
    fillFrom buf n (.copy bs :: ps) = Buf.copy buf n bs >>= fun b => fillFrom b (n + bs.length) ps := by
  simp only [fillFrom, Buf.copy]; split <;> rfl

theorem fillFrom_copyAdv (buf : Bytes) (n : Nat) (bs : Bytes) (a : Nat) (ps : List Piece) :
    fillFrom buf n (.copyAdv bs a :: ps) = Buf.copy buf n bs >>= fun b => fillFrom b (n + a) ps := by
  simp only [fillFrom, Buf.copy]; split <;> rfl

theorem fillFrom_skip (buf : Bytes) (n k : Nat) (ps : List Piece) :
    fillFrom buf n (.skip k :: ps) = fillFrom buf (n + k) ps := rfl

theorem fillFrom_nil (buf : Bytes) (n : Nat) : fillFrom buf n [] = .ok buf := rfl

end OFV.Go

namespace OFV.Go
open OFV

theorem Res.bind_ok_right {α} (x : Res α) : (x >>= fun b => Res.ok b) = x := by
  cases x <;> rfl

theorem Res.bind_assoc' {α β γ} (x : Res α) (f : α → Res β) (g : β → Res γ) :
    ((x >>= f) >>= g) = x >>= fun a => f a >>= g := by
  cases x <;> rfl

theorem be16_len (x : UInt16) : (be16 x).length = 2 := rfl
theorem be32_len (x : UInt32) : (be32 x).length = 4 := rfl
theorem be64_len (x : UInt64) : (be64 x).length = 8 := rfl

/-- `b := make([]byte, n); copy(b, src)` -/
theorem Buf.copy_zeros_zero (n : Nat) (b : Bytes) : Buf.copy (zeros n) 0 b = .ok (overwrite (zeros n) 0 b) := by
  simp [Buf.copy]

end OFV.Go
