/-
  OFV.Lemmas.RT3Ct — NXActionConnTrack nested inside NXActionConnTrack to any depth: a round-trip predicate indexed by the nesting
  level (`ActionRTn n a e`: encoders with nesting budget > n, DecodeAction with nesting budget > n), the conntrack step
  (nested list at level n ⇒ the conntrack action at level n + 1), and the bridge to `ActionRTd` (OFV/Lemmas/RT2Deep.lean) so that
  nested conntrack actions can be elements of InstrActions / Bucket / FlowMod.  Used by OFV/Props/C05c.lean.
-/
import OFV.Model.All
import OFV.Lemmas.Size
import OFV.Lemmas.RTBasic
import OFV.Lemmas.RTMatch
import OFV.Lemmas.RTAction
import OFV.Lemmas.RTList
import OFV.Lemmas.RTNx
import OFV.Lemmas.RT2Nx
import OFV.Lemmas.RT2Ct
import OFV.Lemmas.RT2Deep
import OFV.Lemmas.RT2Actions
namespace OFV.RT3
set_option linter.unusedSimpArgs false
open OFV OFV.Go OFV.Model OFV.RT OFV.RT2

/-- round trip of the action `a` with encoding `e` at conntrack nesting level (at most) `n`: the depth-indexed encoders
    `Action.marshalD` / `Action.lenD` with any budget above `n` return `e` / |e| and leave `a` unchanged, and `DecodeAction`
    with any nesting budget above `n` returns `a` from `e` followed by anything. -/
def ActionRTn (n : Nat) (a : V) (e : Bytes) : Prop :=
  (∀ d, n ≤ d → Action.marshalD (d + 1) a = .ok (e, a) ∧ Action.lenD (d + 1) a = .ok (UInt16.ofNat e.length, a)) ∧
  0 < e.length ∧ e.length < 65536 ∧
  ∀ (data : Slice) (tail : Bytes) (k : Nat), data.WF → data.bytes = e ++ tail → n ≤ k → DecodeAction (k + 1) data = .ok a

inductive ActionsRTn (n : Nat) : List V → List Bytes → Prop
  | nil : ActionsRTn n [] []
  | cons {a : V} {e : Bytes} {as : List V} {es : List Bytes} : ActionRTn n a e → ActionsRTn n as es → ActionsRTn n (a :: as) (e :: es)

theorem ActionRTn.mono {n m : Nat} {a : V} {e : Bytes} (h : ActionRTn n a e) (hnm : n ≤ m) : ActionRTn m a e :=
  ⟨fun d hd => h.1 d (by omega), h.2.1, h.2.2.1, fun data tail k hd hb hk => h.2.2.2 data tail k hd hb (by omega)⟩

theorem ActionsRTn.mono {n m : Nat} {as : List V} {es : List Bytes} (h : ActionsRTn n as es) (hnm : n ≤ m) : ActionsRTn m as es := by
  induction h with
  | nil => exact .nil
  | cons h1 _ ih => exact .cons (h1.mono hnm) ih

/-- level 0: every `ActionRT` fact about a non-conntrack action -/
theorem ActionRTn.of {a : V} {e : Bytes} (h : ActionRT a e) (hk : a.kind ≠ "NXActionConnTrack") : ActionRTn 0 a e :=
  ⟨fun d _ => ⟨by rw [marshalD_leaf d a hk]; exact h.1, by rw [lenD_leaf d a hk]; exact h.2.1⟩, h.2.2.1, h.2.2.2.1,
    fun data tail k hd hb _ => h.2.2.2.2 data tail k hd hb⟩

theorem ActionsRTn.of {as : List V} {es : List Bytes} (h : ActionsRT as es) (hl : Leafs as) : ActionsRTn 0 as es := by
  induction h with
  | nil => exact .nil
  | @cons a e as es h1 _ ih => exact .cons (.of h1 (hl a (by simp))) (ih (fun x hx => hl x (by simp [hx])))

/-- a level-`n` fact is an `ActionRTd` fact (element of InstrActions / Bucket lists) when `n` is within the encoder's bound and does
    not exceed the size of the encoding (every conntrack level occupies at least 24 bytes, so this holds for the exact level) -/
theorem ActionRTn.toRTd {n : Nat} {a : V} {e : Bytes} (h : ActionRTn n a e) (hn : n ≤ Action.encDepth) (hne : n ≤ e.length) :
    ActionRTd a e :=
  ⟨(h.1 Action.encDepth hn).1, (h.1 Action.encDepth hn).2, h.2.1, h.2.2.1,
    fun data tail k hd hb hk => h.2.2.2 data tail k hd hb (by omega)⟩

theorem actionsn_len (n : Nat) (as : List V) (encs : List Bytes) (h : ActionsRTn n as encs) :
    encs.length ≤ encs.flatten.length ∧
    ((encs.map (fun e => UInt16.ofNat e.length)).map UInt16.toNat).sum = encs.flatten.length := by
  induction h with
  | nil => simp
  | @cons a e as es h1 _ ih =>
    obtain ⟨_, h0, h64, _⟩ := h1
    have hto : (UInt16.ofNat e.length).toNat = e.length := by
      simp [UInt16.toNat_ofNat']; omega
    constructor
    · simp only [List.length_cons, List.flatten_cons, List.length_append]; omega
    · simp only [List.map_cons, List.sum_cons, List.flatten_cons, List.length_append, ih.2, hto]

theorem ctn_lens (n d : Nat) (hd : n ≤ d) (as : List V) (encs : List Bytes) (h : ActionsRTn n as encs) :
    mapM2 (Action.lenD (d + 1)) as = .ok (encs.map (fun e => UInt16.ofNat e.length), as) := by
  induction h with
  | nil => rfl
  | @cons a e as es h1 _ ih =>
    have hlen := (h1.1 d hd).2
    simp [mapM2, hlen, ih]

theorem ctn_marshalActs (n d : Nat) (hd : n ≤ d) (as : List V) (encs : List Bytes) (h : ActionsRTn n as encs) :
    ∀ (pre : Bytes) (K : Nat), encs.flatten.length ≤ K →
      NXActionConnTrack.marshalActs (Action.marshalD (d + 1)) as (pre ++ zeros K) pre.length
        = .ok (pre ++ encs.flatten ++ zeros (K - encs.flatten.length), as) := by
  induction h with
  | nil => intro pre K _; simp [NXActionConnTrack.marshalActs]
  | @cons a e as es h1 _ ih =>
    intro pre K hK
    have hm := (h1.1 d hd).1
    simp only [List.flatten_cons, List.length_append] at hK
    have hf := fillFrom_exact pre [pCopy e] K (by intro p hp; simp at hp; subst hp; trivial)
      (by simp [piecesLen, pCopy, Piece.adv]; omega)
    have hpb : piecesBytes [pCopy e] = e := by simp [piecesBytes, pCopy, Piece.bytes]
    have hpl : piecesLen [pCopy e] = e.length := by simp [piecesLen, pCopy, Piece.adv]
    rw [hpb, hpl] at hf
    have := ih (pre ++ e) (K - e.length) (by omega)
    simp only [List.length_append] at this
    simp only [NXActionConnTrack.marshalActs, hm, Res.bind_ok, hf, this, Res.pure_eq]
    simp only [List.flatten_cons, List.append_assoc, List.length_append, Nat.sub_sub]

/-- the nested-action loop of NXActionConnTrack.UnmarshalBinary over a level-`n` list, nested decoder budget `k + 1 > n` -/
theorem ctn_loop (data : Slice) (hd : data.WF) (n k : Nat) (hk : n ≤ k) (hn : n ≤ Action.encDepth) (as : List V) (encs : List Bytes)
    (h : ActionsRTn n as encs) :
    ∀ (pre rest : Bytes) (acc : List V) (fuel : Nat),
      data.bytes = pre ++ encs.flatten ++ rest → encs.length < fuel →
      goLoop (σ := NXActionConnTrack.St) fuel (fun s => decide (s.n < pre.length + encs.flatten.length)) (·.n)
        (fun s => do
          let d ← data.fromR s.n
          let act ← DecodeAction (k + 1) d
          let (al, act') ← Action.lenM act
          if al = 0 then .err else
          pure { n := s.n + al.toNat, acts := s.acts ++ [act'] })
        { n := pre.length, acts := acc }
      = .ok { n := pre.length + encs.flatten.length, acts := acc ++ as } := by
  induction h with
  | nil =>
    intro pre rest acc fuel hb hfuel
    cases fuel with
    | zero => simp at hfuel
    | succ j => simp [goLoop]
  | @cons a e as es h1 _ ih =>
    intro pre rest acc fuel hb hfuel
    obtain ⟨hml, h0, h64, hdec⟩ := h1
    have hl : Action.lenM a = .ok (UInt16.ofNat e.length, a) := (hml Action.encDepth hn).2
    cases fuel with
    | zero => simp at hfuel
    | succ j =>
      have hlen := Slice.bytes_length_le data
      rw [hb] at hlen
      simp only [List.flatten_cons, List.length_append] at hlen
      obtain ⟨t, ht1, ht2, _, _⟩ := Slice.fromR_bytes data pre.length (by omega)
      have htb : t.bytes = e ++ (es.flatten ++ rest) := by
        rw [ht2, hb]; simp only [List.flatten_cons, List.append_assoc]; exact List.drop_left' rfl
      have htwf : t.WF := (Slice.fromR_wf data hd _ t ht1).1
      have hto : (UInt16.ofNat e.length).toNat = e.length := by
        simp [UInt16.toNat_ofNat']; omega
      have hne : ¬ (UInt16.ofNat e.length = 0) := by
        intro h0'
        have := congrArg UInt16.toNat h0'
        rw [hto] at this
        have h00 : (0 : UInt16).toNat = 0 := rfl
        rw [h00] at this; omega
      unfold goLoop
      have hcond : decide (pre.length < pre.length + (e :: es).flatten.length) = true := by
        simp only [List.flatten_cons, List.length_append, decide_eq_true_eq]; omega
      simp only [hcond, if_true, ht1, Res.bind_ok, hdec t _ k htwf htb hk, hl, Res.pure_eq, hto, hne, if_false]
      have hcur : ¬ (pre.length + e.length ≤ pre.length) := by omega
      simp only [if_false, hcur]
      have := ih (pre ++ e) rest (acc ++ [a]) j (by rw [hb]; simp) (by simp only [List.length_cons] at hfuel; omega)
      simp only [List.length_append, List.append_assoc, List.cons_append, List.nil_append, Res.pure_eq] at this
      simp only [List.flatten_cons, List.length_append, ← Nat.add_assoc]
      rw [this]

/-- THE STEP.  NXActionConnTrack holding any list of actions that round-trip at nesting level `n` (conntrack actions among them)
    round-trips at level `n + 1`.  Second part: the encoder with any stored Length `ln0` and a pad of up to 3 zero bytes. -/
theorem nxConnTrack_step (n fl zs zo rt alg : Nat) (as : List V) (encs : List Bytes)
    (hfl : fl < 65536) (hzs : zs < 4294967296) (hzo : zo < 65536) (hrt : rt < 256) (halg : alg < 65536)
    (has : ActionsRTn n as encs) (hn : n ≤ Action.encDepth) (hS : 24 + encs.flatten.length < 65536) :
    let L := 24 + encs.flatten.length
    let bs := nxHdrBytes L Gen.openflow13.NXAST_CT ++ ctFixed fl zs zo rt alg ++ encs.flatten
    ActionRTn (n + 1) (ctV L fl zs zo rt [] alg as) bs ∧ bs.length = L ∧
    ∀ (d ln0 kp : Nat), n + 1 ≤ d → kp ≤ 3 →
      Action.marshalD (d + 1) (ctV ln0 fl zs zo rt (zeros kp) alg as) = .ok (bs, ctV L fl zs zo rt (zeros kp) alg as) := by
  intro L bs
  obtain ⟨hcnt, hsum⟩ := actionsn_len n as encs has
  have hs16 := sum16_lens encs hsum (by omega)
  have hL : L < 65536 := hS
  have hfx : (ctFixed fl zs zo rt alg).length = 14 := rfl
  have h10 : (nxHdrBytes L Gen.openflow13.NXAST_CT).length = 10 := rfl
  have hbl : bs.length = L := by simp only [bs, List.length_append, hfx, h10, L]
  have hlenW : ∀ (dd ln0 : Nat) (pad : Bytes), n ≤ dd →
      NXActionConnTrack.lenWith (Action.lenD (dd + 1)) (ctV ln0 fl zs zo rt pad alg as)
      = .ok (n16 L, ctV L fl zs zo rt pad alg as) := by
    intro dd ln0 pad hdd
    have hlens := ctn_lens n dd hdd as encs has
    have hl : n16 Gen.openflow13.NxActionHeaderLength + 14 + n16 encs.flatten.length = n16 L := by
      have : (14 : UInt16) = n16 14 := rfl
      rw [this, n16_add, n16_add]; rfl
    simp only [ctV, NXActionConnTrack.lenWith, NXActionHeader.lenM, same, Res.bind_ok, hlens, hs16, hl, nxHdr_setLength ln0 _ L hL]
  have hk : ∀ ln0 pad, (ctV ln0 fl zs zo rt pad alg as).kind = "NXActionConnTrack" := fun _ _ => rfl
  have hmar : ∀ (d ln0 kp : Nat), n + 1 ≤ d → kp ≤ 3 →
      Action.marshalD (d + 1) (ctV ln0 fl zs zo rt (zeros kp) alg as) = .ok (bs, ctV L fl zs zo rt (zeros kp) alg as) := by
    intro d ln0 kp hd hkp
    obtain ⟨dd, rfl⟩ : ∃ dd, d = dd + 1 := ⟨d - 1, by omega⟩
    have hdd : n ≤ dd := by omega
    rw [Action.marshalD, if_pos (hk ln0 _)]
    unfold NXActionConnTrack.marshalWith
    rw [hlenW dd ln0 (zeros kp) hdd]
    simp only [ctV, Res.bind_ok, nxHdr_bytes, n16_toNat L hL]
    have hpl : piecesLen [pCopy (nxHdrBytes L Gen.openflow13.NXAST_CT), pU16 fl, pU32 zs, pU16 zo, pU8 rt, pCopyAdv (zeros kp) 3, pU16 alg] = 24 := rfl
    rw [fill_exact L _ (by intro p hp; simp at hp; rcases hp with rfl | rfl | rfl | rfl | rfl | rfl | rfl <;>
        first | trivial | (simp [Piece.Tight, pCopyAdv]; exact hkp)) (by rw [hpl]; simp only [L]; omega), hpl]
    have hpre : piecesBytes [pCopy (nxHdrBytes L Gen.openflow13.NXAST_CT), pU16 fl, pU32 zs, pU16 zo, pU8 rt, pCopyAdv (zeros kp) 3, pU16 alg]
        = nxHdrBytes L Gen.openflow13.NXAST_CT ++ ctFixed fl zs zo rt alg := by
      simp [piecesBytes, pCopy, pU16, pU32, pU8, pCopyAdv, Piece.bytes, ctFixed, zeros, List.take_replicate, Nat.min_eq_right hkp]
      have : kp + (3 - kp) = 3 := by omega
      rw [this]; rfl
    rw [hpre]
    have hm := ctn_marshalActs n dd hdd as encs has (nxHdrBytes L Gen.openflow13.NXAST_CT ++ ctFixed fl zs zo rt alg) (L - 24)
      (by simp only [L]; omega)
    simp only [List.length_append, hfx, h10] at hm
    simp only [Res.bind_ok, hm]
    have hz : L - 24 - encs.flatten.length = 0 := by simp only [L]; omega
    simp only [hz, zeros, List.replicate_zero, List.append_nil, bs]
  refine ⟨⟨fun d hd => ⟨hmar d L 0 hd (by omega), ?_⟩, by rw [hbl]; omega, by rw [hbl]; exact hL, ?_⟩, hbl, hmar⟩
  · obtain ⟨dd, rfl⟩ : ∃ dd, d = dd + 1 := ⟨d - 1, by omega⟩
    rw [Action.lenD, if_pos (hk L _), hbl]
    exact hlenW dd L [] (by omega)
  · intro data tail k hd hb hnk
    obtain ⟨k', rfl⟩ : ∃ k', k = k' + 1 := ⟨k - 1, by omega⟩
    have hnk' : n ≤ k' := by omega
    have hlen := Slice.len_ge_of_bytes data _ _ hb
    rw [hbl] at hlen
    have hb' : data.bytes = nxHdrBytes L Gen.openflow13.NXAST_CT ++ (ctFixed fl zs zo rt alg ++ (encs.flatten ++ tail)) := by
      rw [hb]; simp only [bs, List.append_assoc]
    unfold DecodeAction
    rw [newActionFor_nx data hd L Gen.openflow13.NXAST_CT (by decide) _ hb' NXActionConnTrack.zero rfl]
    simp only [Res.bind_ok]
    rw [if_pos (by rfl)]
    simp only [NXActionConnTrack.zero, NXActionConnTrack.unmarshalWith]
    rw [nxPrefix_ok data hd L Gen.openflow13.NXAST_CT hL (by decide) _ hb' (by omega)]
    have hb2 : data.bytes = nxHdrBytes L Gen.openflow13.NXAST_CT ++ (be16 (n16 fl) ++ (be32 (n32 zs) ++ (be16 (n16 zo) ++ ([n8 rt] ++
        (zeros 3 ++ (be16 (n16 alg) ++ (encs.flatten ++ tail))))))) := by
      rw [hb']; simp only [ctFixed, List.append_assoc]
    have e10 : rd16 (data.bytes.drop 10) = some (n16 fl) := by rw [hb2]; exact rd16_be16 _ _
    have e12 : rd32 (data.bytes.drop 12) = some (n32 zs) := by rw [hb2]; exact rd32_be32 _ _
    have e16 : rd16 (data.bytes.drop 16) = some (n16 zo) := by rw [hb2]; exact rd16_be16 _ _
    have e18 : data.bytes[18]? = some (n8 rt) := by rw [hb2]; rfl
    have e22 : rd16 (data.bytes.drop 22) = some (n16 alg) := by rw [hb2]; exact rd16_be16 _ _
    obtain ⟨s, hs1, _, _⟩ := Slice.sliceR_bytes data hd 19 22 (by omega) (by omega)
    have hloop := ctn_loop data hd n k' hnk' hn as encs has (nxHdrBytes L Gen.openflow13.NXAST_CT ++ ctFixed fl zs zo rt alg) tail [] 65536
      (by rw [hb']; simp only [List.append_assoc]) (by omega)
    simp only [List.length_append, hfx, h10, List.nil_append, Nat.reduceAdd] at hloop
    simp only [Res.bind_ok, nxHdr_length, n16_toNat L hL, Slice.u16From_eq, Slice.u32From_eq, Slice.byteAt_eq, e10, e12, e16, e18, e22,
      hs1, Res.ofOption]
    erw [hloop]
    simp only [Res.bind_ok, nxHdr_setLength L _ (24 + encs.flatten.length) hS, Res.pure_eq, u16_n16 fl hfl, u32_n32 zs hzs,
      u16_n16 zo hzo, u8_n8 rt hrt, u16_n16 alg halg, copyInto, List.length_nil, List.take_zero, List.drop_nil, List.append_nil]
    rfl

/-- the conntrack action of the step as an `ActionRTd` fact (element of InstrActions / Bucket lists): nested list at level `n`,
    `n` below the encoder's bound -/
theorem actionRTd_connTrack_n (n fl zs zo rt alg : Nat) (as : List V) (encs : List Bytes)
    (hfl : fl < 65536) (hzs : zs < 4294967296) (hzo : zo < 65536) (hrt : rt < 256) (halg : alg < 65536)
    (has : ActionsRTn n as encs) (hn : n < Action.encDepth) (hnl : n < 24 + encs.flatten.length)
    (hS : 24 + encs.flatten.length < 65536) :
    ActionRTd (ctV (24 + encs.flatten.length) fl zs zo rt [] alg as)
      (nxHdrBytes (24 + encs.flatten.length) Gen.openflow13.NXAST_CT ++ ctFixed fl zs zo rt alg ++ encs.flatten) := by
  obtain ⟨h1, h2, _⟩ := nxConnTrack_step n fl zs zo rt alg as encs hfl hzs hzo hrt halg has (by omega) hS
  exact h1.toRTd hn (by rw [h2]; omega)

/-- `ct(table=255, exec(ct(table=255, exec(… ct_clear …))))`: `n` conntrack actions inside each other around a ct_clear, and its
    encoding (16 + 24·n bytes) -/
def ctTower : Nat → V × Bytes
  | 0 => (.obj "NXActionCTClear" [nxHdr 16 Gen.openflow13.NXAST_CT_CLEAR, .bytes (zeros 4)],
      nxHdrBytes 16 Gen.openflow13.NXAST_CT_CLEAR ++ zeros 6)
  | n + 1 =>
    (ctV (24 + (ctTower n).2.length) 0 0 0 255 [] 0 [(ctTower n).1],
      nxHdrBytes (24 + (ctTower n).2.length) Gen.openflow13.NXAST_CT ++ ctFixed 0 0 0 255 0 ++ (ctTower n).2)

theorem ctTower_length (n : Nat) : (ctTower n).2.length = 16 + 24 * n := by
  induction n with
  | zero => rfl
  | succ n ih =>
    have h10 : ∀ L, (nxHdrBytes L Gen.openflow13.NXAST_CT).length = 10 := fun _ => rfl
    have hfx : (ctFixed 0 0 0 255 0).length = 14 := rfl
    simp only [ctTower, List.length_append, h10, hfx, ih]; omega

/-- the tower of ANY height within the encoder's bound and the 64 KiB limit round-trips at its level -/
theorem ctTower_rt (n : Nat) (hn : n ≤ Action.encDepth) (hS : 16 + 24 * n < 65536) : ActionRTn n (ctTower n).1 (ctTower n).2 := by
  induction n with
  | zero => exact ActionRTn.of actionRT_ctClear (by decide)
  | succ n ih =>
    have ih' := ih (by omega) (by omega)
    have hl := ctTower_length n
    obtain ⟨h1, _, _⟩ := nxConnTrack_step n 0 0 0 255 0 [(ctTower n).1] [(ctTower n).2] (by decide) (by decide) (by decide) (by decide)
      (by decide) (.cons ih' .nil) (by omega)
      (by simp only [List.flatten_cons, List.flatten_nil, List.append_nil, hl]; omega)
    simp only [List.flatten_cons, List.flatten_nil, List.append_nil] at h1
    exact h1

end OFV.RT3
