/-
  OFV.Lemmas.SizeInstr — instructions and buckets: no encoder error, Len() idempotence, alignment of sums.
-/
import OFV.Model.All
import OFV.Lemmas.Size
import OFV.Lemmas.SizeTac
import OFV.Lemmas.SizeNoErr
import OFV.Lemmas.SizeList
import OFV.Lemmas.SizeIdem
namespace OFV.Model
open OFV OFV.Go InstrAux

/-- `NoErr.bind` with the successful result of the first call available for the rest -/
theorem NoErr.bind' {α β} {r : R α} {f : α → R β} (h1 : NoErr r) (h2 : ∀ x, r = .ok x → NoErr (f x)) : NoErr (r >>= f) := by
  cases r with
  | ok x => exact h2 x rfl
  | err => exact absurd rfl h1.ne
  | panic => exact noErr_panic
  | spin => exact noErr_spin

theorem marshalList_noErr (f : V → R (Bytes × V)) (hf : ∀ x, NoErr (f x)) : ∀ xs e, NoErr (marshalList f xs e) := by
  intro xs
  induction xs with
  | nil => intro e; exact noErr_ok _
  | cons x xs ih =>
    intro e
    simp only [marshalList]
    have hx := hf x
    split
    · have := ih false
      split <;> first | exact noErr_ok _ | exact noErr_panic | exact noErr_spin | (rename_i h; exact absurd h this.ne)
    · rename_i h; exact absurd h hx.ne
    · exact noErr_panic
    · exact noErr_spin

/-- a sum of multiples of 8 is a multiple of 8, also when it wraps -/
theorem sum16_aligned (ls : List UInt16) (h : ∀ l ∈ ls, l.toNat % 8 = 0) : (sum16 ls).toNat % 8 = 0 := by
  induction ls with
  | nil => rfl
  | cons x xs ih =>
    rw [sum16_cons, UInt16.toNat_add]
    have h1 := h x (by simp)
    have h2 := ih (fun l hl => h l (by simp [hl]))
    have : (2:Nat) ^ 16 = 65536 := rfl
    rw [this]; omega

theorem mapM2_forall {α} (f : V → R (α × V)) (P : α → Prop) : ∀ (xs : List V) (as : List α) (ys : List V),
    mapM2 f xs = .ok (as, ys) → (∀ x ∈ xs, ∀ a x', f x = .ok (a, x') → P a) → ∀ a ∈ as, P a := by
  intro xs
  induction xs with
  | nil => intro as ys h _; simp [mapM2] at h; obtain ⟨rfl, _⟩ := h; simp
  | cons x xs ih =>
    intro as ys h hp
    obtain ⟨a, x', as', xs', h1, h2, rfl, rfl⟩ := mapM2_cons_ok _ _ _ _ _ h
    intro b hb
    simp only [List.mem_cons] at hb
    rcases hb with rfl | hb
    · exact hp x (by simp) _ _ h1
    · exact ih as' xs' h2 (fun y hy => hp y (by simp [hy])) b hb

/-! ### instructions -/

theorem InstrHeader.bytes_noErr (h : V) : NoErr (InstrHeader.bytes h) := by
  unfold InstrHeader.bytes; noerr
macro_rules | `(tactic| noerr_lemma) => `(tactic| exact InstrHeader.bytes_noErr _)

theorem InstrGotoTable.marshalM_noErr (v : V) : NoErr (InstrGotoTable.marshalM v) := by
  unfold InstrGotoTable.marshalM; noerr
theorem InstrWriteMetadata.marshalM_noErr (v : V) : NoErr (InstrWriteMetadata.marshalM v) := by
  unfold InstrWriteMetadata.marshalM; noerr
theorem InstrMeter.marshalM_noErr (v : V) : NoErr (InstrMeter.marshalM v) := by
  unfold InstrMeter.marshalM; noerr

theorem InstrActions.lenM_noErr (v : V) : NoErr (InstrActions.lenM v) := by
  unfold InstrActions.lenM
  split
  · apply NoErr.bind (mapM2_noErr _ Action.lenM_noErr _); intro _; exact noErr_ok _
  · exact noErr_panic

/-- InstrActions.MarshalBinary returns the LAST action's error; no action has one -/
theorem InstrActions.marshalM_noErr (v : V) : NoErr (InstrActions.marshalM v) := by
  unfold InstrActions.marshalM
  apply NoErr.bind (InstrActions.lenM_noErr _); intro ⟨l, v'⟩
  simp only
  split
  · apply NoErr.bind (InstrHeader.bytes_noErr _); intro _
    apply NoErr.bind' (marshalList_noErr _ Action.marshalM_noErr _ _)
    intro ⟨bs, as', e⟩ hm
    have := marshalList_flag _ _ _ _ _ _ (fun x _ => Action.marshalM_noErr x) hm
    simp only
    have he : e = false := by rw [this]; split <;> rfl
    subst he
    exact noErr_ok _
  · exact noErr_panic

theorem Instruction.marshalM_noErr (v : V) : NoErr (Instruction.marshalM v) := by
  unfold Instruction.marshalM
  split
  · exact InstrGotoTable.marshalM_noErr _
  · exact InstrWriteMetadata.marshalM_noErr _
  · exact InstrActions.marshalM_noErr _
  · exact InstrMeter.marshalM_noErr _
  · exact noErr_panic

theorem InstrActions.lenM_idem (v : V) : LenIdem InstrActions.lenM v := by
  intro l v1 h
  unfold InstrActions.lenM at h
  split at h
  · obtain ⟨⟨ls, as'⟩, hm, h2⟩ := bind_ok_inv _ _ _ h
    cases h2
    have := mapM2_idem Action.lenM _ _ _ (fun x _ a x' hx => Action.lenM_idem x a x' hx) hm
    simp only [InstrActions.lenM, this, Res.bind_ok]
  · exact absurd h (by simp)

theorem InstrActions.lenM_kind (v : V) (l : UInt16) (v1 : V) (h : InstrActions.lenM v = .ok (l, v1)) :
    v1.kind = "InstrActions" := by
  unfold InstrActions.lenM at h
  split at h
  · obtain ⟨⟨ls, as'⟩, hm, h2⟩ := bind_ok_inv _ _ _ h
    cases h2; rfl
  · exact absurd h (by simp)

/-- Instruction.Len() through the interface: the second call gives the same size and changes nothing more -/
theorem Instruction.lenM_idem (v : V) : LenIdem Instruction.lenM v := by
  intro l v1 h
  unfold Instruction.lenM at h
  split at h
  · obtain ⟨_, e⟩ := same_ok _ _ _ _ h; subst e; rename_i hk; unfold Instruction.lenM; simp only [hk]; exact h
  · obtain ⟨_, e⟩ := same_ok _ _ _ _ h; subst e; rename_i hk; unfold Instruction.lenM; simp only [hk]; exact h
  · have hk1 := InstrActions.lenM_kind v l v1 h
    unfold Instruction.lenM; simp only [hk1]
    exact InstrActions.lenM_idem v l v1 h
  · obtain ⟨_, e⟩ := same_ok _ _ _ _ h; subst e; rename_i hk; unfold Instruction.lenM; simp only [hk]; exact h
  · exact absurd h (by simp)

/-! ### buckets -/

theorem Bucket.lenM_idem (v : V) : LenIdem Bucket.lenM v := by
  intro l v1 h
  unfold Bucket.lenM at h
  split at h
  · obtain ⟨⟨ls, as'⟩, hm, h2⟩ := bind_ok_inv _ _ _ h
    cases h2
    have := mapM2_idem Action.lenM _ _ _ (fun x _ a x' hx => Action.lenM_idem x a x' hx) hm
    simp only [Bucket.lenM, this, Res.bind_ok]
  · exact absurd h (by simp)

theorem Bucket.lenM_noErr (v : V) : NoErr (Bucket.lenM v) := by
  unfold Bucket.lenM
  split
  · apply NoErr.bind (mapM2_noErr _ Action.lenM_noErr _); intro _; exact noErr_ok _
  · exact noErr_panic

theorem Bucket.marshalM_noErr (v : V) : NoErr (Bucket.marshalM v) := by
  unfold Bucket.marshalM
  apply NoErr.bind (Bucket.lenM_noErr _); intro ⟨l, v'⟩
  simp only
  split
  · apply NoErr.bind' (marshalList_noErr _ Action.marshalM_noErr _ _)
    intro ⟨bs, as', e⟩ hm
    have := marshalList_flag _ _ _ _ _ _ (fun x _ => Action.marshalM_noErr x) hm
    simp only
    have he : e = false := by rw [this]; split <;> rfl
    subst he
    exact noErr_ok _
  · exact noErr_panic

theorem Bucket.marshalCopyM_noErr (v : V) : NoErr (Bucket.marshalCopyM v) := by
  unfold Bucket.marshalCopyM
  apply NoErr.bind (Bucket.marshalM_noErr _); intro _; exact noErr_ok _

/-- the bucket's encoding (after Len(), as GroupMod encodes it) does not exceed 65528 bytes, the largest size a
    bucket can report: no uint16 wrap-around in Bucket.Len() -/
def BucketFits (b : V) : Prop :=
  ∀ l b1 bytes b2, Bucket.lenM b = .ok (l, b1) → Bucket.marshalM b1 = .ok (bytes, b2) → bytes.length ≤ 65528

theorem catchErr_noErr {α} (r : R α) (d x : α) (e : Bool) (hn : NoErr r) (h : InstrAux.catchErr r d = .ok (x, e)) :
    r = .ok x ∧ e = false := by
  unfold InstrAux.catchErr at h
  split at h
  · cases h; exact ⟨rfl, rfl⟩
  · exact absurd rfl hn.ne
  · exact absurd h (by simp)
  · exact absurd h (by simp)

end OFV.Model
