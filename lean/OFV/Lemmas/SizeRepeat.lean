/-
  OFV.Lemmas.SizeRepeat — repeatability (C13) machinery: `Repeatable`, MarshalBinary purity of the kinds that store
  nothing, the hello element (which stores its Length), idempotence of the length setters, and lifting of repeatability
  through lists of children
  (`mapM2`, `InstrAux.marshalList`).
-/
import OFV.Model.All
import OFV.Lemmas.Size
import OFV.Lemmas.SizeTac
import OFV.Lemmas.SizeNoErr
import OFV.Lemmas.SizeList
import OFV.Lemmas.SizeIdem
import OFV.Lemmas.SizeInstr
import OFV.Lemmas.SizeMsg
namespace OFV.Model
open OFV OFV.Go InstrAux

/-- Sizing and encoding are repeatable on v, in any order:
    * a second Len() on what the first left behind gives the same answer and changes nothing further;
    * a second MarshalBinary() on what the first left behind gives the same bytes and changes nothing further;
    * Len() after MarshalBinary() gives the answer Len() gave before, and changes nothing further;
    * MarshalBinary() after Len() gives the same bytes and leaves the same value as MarshalBinary() alone. -/
structure Repeatable (lenM : V → R (UInt16 × V)) (marshalM : V → R (Bytes × V)) (v : V) : Prop where
  lenIdem : ∀ l v1, lenM v = .ok (l, v1) → lenM v1 = .ok (l, v1)
  marIdem : ∀ bs v2, marshalM v = .ok (bs, v2) → marshalM v2 = .ok (bs, v2)
  lenAfterMar : ∀ l v1 bs v2, lenM v = .ok (l, v1) → marshalM v = .ok (bs, v2) → lenM v2 = .ok (l, v2)
  marAfterLen : ∀ l v1 bs v2, lenM v = .ok (l, v1) → marshalM v = .ok (bs, v2) → marshalM v1 = .ok (bs, v2)

/-- a kind whose Len() and MarshalBinary() leave the value untouched is trivially repeatable -/
theorem Pure2.repeatable {lenM marshalM v} (h : Pure2 lenM marshalM v) : Repeatable lenM marshalM v := by
  refine ⟨?_, ?_, ?_, ?_⟩
  · intro l v1 h1; have := h.1 l v1 h1; subst this; exact h1
  · intro bs v2 h2; have := h.2 bs v2 h2; subst this; exact h2
  · intro l v1 bs v2 h1 h2; have e1 := h.1 l v1 h1; have e2 := h.2 bs v2 h2; subst e1; subst e2; exact h1
  · intro l v1 bs v2 h1 h2; have e1 := h.1 l v1 h1; have e2 := h.2 bs v2 h2; subst e1; subst e2; exact h2

theorem pure2_of (lenM marshalM v) (h1 : LenPure lenM v) (h2 : MarPure marshalM v) : Pure2 lenM marshalM v := ⟨h1, h2⟩

/-! ### MarshalBinary() of the kinds that store nothing -/

/-- encoders whose last step is `same bs v` / `.ok (bs, <the value as matched>)` and that only call helpers returning
    plain bytes: proves `MarPure m v` -/
macro "mar_pure" m:ident : tactic => `(tactic| (
  intro bs v2 h
  unfold $m at h
  (try split at h)
  all_goals (revert h; (repeat peel1); intro h; first | exact (same_ok _ _ _ _ h).2 | (cases h <;> rfl))))

theorem ActionHeader.marshalM_pure (v : V) : MarPure ActionHeader.marshalM v := by mar_pure ActionHeader.marshalM
theorem ActionOutput.marshalM_pure (v : V) : MarPure ActionOutput.marshalM v := by mar_pure ActionOutput.marshalM
theorem ActionSetqueue.marshalM_pure (v : V) : MarPure ActionSetqueue.marshalM v := by mar_pure ActionSetqueue.marshalM
theorem ActionGroup.marshalM_pure (v : V) : MarPure ActionGroup.marshalM v := by mar_pure ActionGroup.marshalM
theorem ActionMplsTtl.marshalM_pure (v : V) : MarPure ActionMplsTtl.marshalM v := by mar_pure ActionMplsTtl.marshalM
theorem ActionNwTtl.marshalM_pure (v : V) : MarPure ActionNwTtl.marshalM v := by mar_pure ActionNwTtl.marshalM
theorem ActionDecNwTtl.marshalM_pure (v : V) : MarPure ActionDecNwTtl.marshalM v := by mar_pure ActionDecNwTtl.marshalM
theorem ActionPush.marshalM_pure (v : V) : MarPure ActionPush.marshalM v := by mar_pure ActionPush.marshalM
theorem ActionPopVlan.marshalM_pure (v : V) : MarPure ActionPopVlan.marshalM v := by mar_pure ActionPopVlan.marshalM
theorem ActionPopMpls.marshalM_pure (v : V) : MarPure ActionPopMpls.marshalM v := by mar_pure ActionPopMpls.marshalM
theorem NXActionHeader.marshalM_pure (v : V) : MarPure NXActionHeader.marshalM v := by mar_pure NXActionHeader.marshalM
theorem NXActionConjunction.marshalM_pure (v : V) : MarPure NXActionConjunction.marshalM v := by mar_pure NXActionConjunction.marshalM
theorem NXActionRegLoad.marshalM_pure (v : V) : MarPure NXActionRegLoad.marshalM v := by mar_pure NXActionRegLoad.marshalM
theorem NXActionRegMove.marshalM_pure (v : V) : MarPure NXActionRegMove.marshalM v := by mar_pure NXActionRegMove.marshalM
theorem NXActionResubmitTable.marshalM_pure (v : V) : MarPure NXActionResubmitTable.marshalM v := by mar_pure NXActionResubmitTable.marshalM
theorem NXActionOutputReg.marshalM_pure (v : V) : MarPure NXActionOutputReg.marshalM v := by mar_pure NXActionOutputReg.marshalM
theorem NXActionCTClear.marshalM_pure (v : V) : MarPure NXActionCTClear.marshalM v := by mar_pure NXActionCTClear.marshalM
theorem NXActionDecTTL.marshalM_pure (v : V) : MarPure NXActionDecTTL.marshalM v := by mar_pure NXActionDecTTL.marshalM
theorem NXActionDecTTLCntIDs.marshalM_pure (v : V) : MarPure NXActionDecTTLCntIDs.marshalM v := by mar_pure NXActionDecTTLCntIDs.marshalM
theorem NXLearnSpecHeader.marshalM_pure (v : V) : MarPure NXLearnSpecHeader.marshalM v := by mar_pure NXLearnSpecHeader.marshalM
theorem NXLearnSpecField.marshalM_pure (v : V) : MarPure NXLearnSpecField.marshalM v := by mar_pure NXLearnSpecField.marshalM
theorem Header.marshalM_pure (v : V) : MarPure Header.marshalM v := by mar_pure Header.marshalM
theorem HelloElemHeader.marshalM_pure (v : V) : MarPure HelloElemHeader.marshalM v := by mar_pure HelloElemHeader.marshalM
theorem InstrHeader.marshalM_pure (v : V) : MarPure InstrHeader.marshalM v := by mar_pure InstrHeader.marshalM
theorem InstrGotoTable.marshalM_pure (v : V) : MarPure InstrGotoTable.marshalM v := by mar_pure InstrGotoTable.marshalM
theorem InstrWriteMetadata.marshalM_pure (v : V) : MarPure InstrWriteMetadata.marshalM v := by mar_pure InstrWriteMetadata.marshalM
theorem InstrMeter.marshalM_pure (v : V) : MarPure InstrMeter.marshalM v := by mar_pure InstrMeter.marshalM
theorem PhyPort.marshalM_pure (v : V) : MarPure PhyPort.marshalM v := by mar_pure PhyPort.marshalM
theorem DescStats.marshalM_pure (v : V) : MarPure DescStats.marshalM v := by mar_pure DescStats.marshalM
theorem AggregateStats.marshalM_pure (v : V) : MarPure AggregateStats.marshalM v := by mar_pure AggregateStats.marshalM
theorem TableStats.marshalM_pure (v : V) : MarPure TableStats.marshalM v := by mar_pure TableStats.marshalM
theorem PortStatsRequest.marshalM_pure (v : V) : MarPure PortStatsRequest.marshalM v := by mar_pure PortStatsRequest.marshalM
theorem QueueStatsRequest.marshalM_pure (v : V) : MarPure QueueStatsRequest.marshalM v := by mar_pure QueueStatsRequest.marshalM
theorem QueueStats.marshalM_pure (v : V) : MarPure QueueStats.marshalM v := by mar_pure QueueStats.marshalM
theorem ControllerID.marshalM_pure (v : V) : MarPure ControllerID.marshalM v := by mar_pure ControllerID.marshalM
theorem TLVTableMap.marshalM_pure (v : V) : MarPure TLVTableMap.marshalM v := by mar_pure TLVTableMap.marshalM
theorem BundleControl.marshalM_pure (v : V) : MarPure BundleControl.marshalM v := by mar_pure BundleControl.marshalM
theorem UBuffer.marshalM_pure (v : V) : MarPure UBuffer.marshalM v := by mar_pure UBuffer.marshalM



/-! ### HelloElemVersionBitmap: MarshalBinary() stores `Length = 4 + 4·|bitmaps|` in the element header -/

theorem HelloElemVersionBitmap.lenM_pure (v : V) : LenPure HelloElemVersionBitmap.lenM v := by
  intro l v1 h
  unfold HelloElemVersionBitmap.lenM at h
  obtain ⟨_, _, h'⟩ := bind_ok_inv _ _ _ h
  exact (same_ok _ _ _ _ h').2

/-- what a successful MarshalBinary() leaves behind: the same element with the stored Length replaced -/
theorem HelloElemVersionBitmap.marshalM_shape (v : V) (bs : Bytes) (v2 : V)
    (h : HelloElemVersionBitmap.marshalM v = .ok (bs, v2)) :
    ∃ ty l0 bms, v = .obj "HelloElemVersionBitmap" [.obj "HelloElemHeader" [ty, l0], .list bms] ∧
      v2 = .obj "HelloElemVersionBitmap" [.obj "HelloElemHeader" [ty, V.u16 (4 + n16 (bms.length * 4))], .list bms] := by
  unfold HelloElemVersionBitmap.marshalM at h
  split at h
  · rename_i ty l0 bms
    revert h; (repeat peel1); intro h; cases h
    exact ⟨ty, l0, bms, rfl, rfl⟩
  · exact absurd h (by simp)

/-- MarshalBinary() does not look at the stored Length -/
theorem HelloElemVersionBitmap.marshalM_hdr (ty l0 l1 : V) (bms : List V) :
    HelloElemVersionBitmap.marshalM (.obj "HelloElemVersionBitmap" [.obj "HelloElemHeader" [ty, l0], .list bms]) =
    HelloElemVersionBitmap.marshalM (.obj "HelloElemVersionBitmap" [.obj "HelloElemHeader" [ty, l1], .list bms]) := rfl

/-- Len() does not look at the element header -/
theorem HelloElemVersionBitmap.lenM_hdr (h0 h1 : V) (bms : List V) (l : UInt16) (v1 : V)
    (h : HelloElemVersionBitmap.lenM (.obj "HelloElemVersionBitmap" [h0, .list bms]) = .ok (l, v1)) :
    HelloElemVersionBitmap.lenM (.obj "HelloElemVersionBitmap" [h1, .list bms]) =
      .ok (l, .obj "HelloElemVersionBitmap" [h1, .list bms]) := by
  simp only [HelloElemVersionBitmap.lenM, HelloElemVersionBitmap.len, Res.bind_ok] at h ⊢
  obtain ⟨e, _⟩ := same_ok _ _ _ _ h
  subst e; rfl

/-- HelloElemVersionBitmap: not pure any more (the Length is stored), but repeatable in any order -/
theorem HelloElemVersionBitmap.repeatable (v : V) :
    Repeatable HelloElemVersionBitmap.lenM HelloElemVersionBitmap.marshalM v := by
  refine ⟨fun l v1 h => ?_, ?_, ?_, ?_⟩
  · have e := HelloElemVersionBitmap.lenM_pure v l v1 h
    subst e; exact h
  · intro bs v2 h2
    obtain ⟨ty, l0, bms, rfl, rfl⟩ := HelloElemVersionBitmap.marshalM_shape v bs v2 h2
    exact (HelloElemVersionBitmap.marshalM_hdr ty _ l0 bms).trans h2
  · intro l v1 bs v2 h1 h2
    obtain ⟨ty, l0, bms, rfl, rfl⟩ := HelloElemVersionBitmap.marshalM_shape v bs v2 h2
    exact HelloElemVersionBitmap.lenM_hdr _ _ bms l v1 h1
  · intro l v1 bs v2 h1 h2
    have e := HelloElemVersionBitmap.lenM_pure v l v1 h1
    subst e; exact h2

/-! ### more MarshalBinary() purity / kind preservation -/

theorem ActionSetField.marshalM_pure (v : V) : MarPure ActionSetField.marshalM v := by
  intro bs v2 h
  unfold ActionSetField.marshalM at h
  obtain ⟨⟨l, v'⟩, hl, h2⟩ := bind_ok_inv _ _ _ h
  have e := ActionSetField.lenM_pure _ _ _ hl
  subst e
  simp only at h2
  split at h2
  · obtain ⟨hb, _, h3⟩ := bind_ok_inv _ _ _ h2
    obtain ⟨⟨fb, f'⟩, hf, h4⟩ := bind_ok_inv _ _ _ h3
    obtain ⟨b, _, h5⟩ := bind_ok_inv _ _ _ h4
    have e2 := MatchField.marshalM_pure _ _ _ hf
    subst e2
    cases h5; rfl
  · exact absurd h2 (by simp)

theorem NXLearnSpec.marshalM_pure (v : V) : MarPure NXLearnSpec.marshalM v := by
  intro bs v2 h
  unfold NXLearnSpec.marshalM at h
  obtain ⟨l, hl, h2⟩ := bind_ok_inv _ _ _ h
  split at h2
  · obtain ⟨hb, _, h3⟩ := bind_ok_inv _ _ _ h2
    obtain ⟨⟨sd, k⟩, _, h4⟩ := bind_ok_inv _ _ _ h3
    simp only at h4
    split at h4
    · obtain ⟨_, _, h5⟩ := bind_ok_inv _ _ _ h4
      obtain ⟨_, _, h6⟩ := bind_ok_inv _ _ _ h5
      exact (same_ok _ _ _ _ h6).2
    · obtain ⟨_, _, h5⟩ := bind_ok_inv _ _ _ h4
      exact (same_ok _ _ _ _ h5).2
  · exact absurd h2 (by simp)

/-- encoders that rebuild the value: the result has the kind of the receiver -/
macro "mar_kind" m:ident : tactic => `(tactic| (
  intro bs v2 h
  unfold $m at h
  (try split at h)
  all_goals (revert h; (repeat peel1); intro h; first | (cases h <;> rfl) | (obtain ⟨_, e⟩ := same_ok _ _ _ _ h; subst e; rfl))))

theorem NXActionResubmit.marshalM_kind (v : V) : ∀ bs v2, NXActionResubmit.marshalM v = .ok (bs, v2) → v2.kind = v.kind := by
  mar_kind NXActionResubmit.marshalM
theorem NXActionController.marshalM_kind (v : V) : ∀ bs v2, NXActionController.marshalM v = .ok (bs, v2) → v2.kind = v.kind := by
  mar_kind NXActionController.marshalM
theorem NXActionNote.marshalM_kind (v : V) : ∀ bs v2, NXActionNote.marshalM v = .ok (bs, v2) → v2.kind = v.kind := by
  mar_kind NXActionNote.marshalM
theorem NXActionLearn.marshalM_kind (v : V) : ∀ bs v2, NXActionLearn.marshalM v = .ok (bs, v2) → v2.kind = v.kind := by
  mar_kind NXActionLearn.marshalM
theorem NXActionRegLoad2.marshalM_kind (v : V) : ∀ bs v2, NXActionRegLoad2.marshalM v = .ok (bs, v2) → v2.kind = v.kind := by
  intro bs v2 h
  unfold NXActionRegLoad2.marshalM at h
  obtain ⟨⟨l0, va⟩, hl0, h3⟩ := bind_ok_inv _ _ _ h
  have ea := NXActionRegLoad2.lenM_pure _ _ _ hl0
  subst ea
  obtain ⟨⟨l1, vb⟩, hl1, h4⟩ := bind_ok_inv _ _ _ h3
  have eb := NXActionRegLoad2.lenM_pure _ _ _ hl1
  subst eb
  simp only at h4
  split at h4
  · revert h4; (repeat peel1); intro h4; cases h4; rfl
  · exact absurd h4 (by simp)
theorem NXActionCTNAT.marshalM_kind (v : V) : ∀ bs v2, NXActionCTNAT.marshalM v = .ok (bs, v2) → v2.kind = "NXActionCTNAT" := by
  intro bs v2 h
  unfold NXActionCTNAT.marshalM at h
  obtain ⟨⟨l, v'⟩, hl, h3⟩ := bind_ok_inv _ _ _ h
  simp only at h3
  split at h3
  · revert h3; (repeat peel1); intro h3; cases h3; rfl
  · exact absurd h3 (by simp)
theorem NXActionConnTrack.marshalWith_kind (subLen : V → R (UInt16 × V)) (sub : V → R (Bytes × V)) (v : V) :
    ∀ bs v2, NXActionConnTrack.marshalWith subLen sub v = .ok (bs, v2) → v2.kind = v.kind := by
  intro bs v2 h
  unfold NXActionConnTrack.marshalWith at h
  obtain ⟨⟨l, v'⟩, hl, h3⟩ := bind_ok_inv _ _ _ h
  have hk := NXActionConnTrack.lenWith_kind _ _ _ _ hl
  rw [← hk]
  simp only at h3
  split at h3
  · revert h3; (repeat peel1); intro h3; cases h3; rfl
  · exact absurd h3 (by simp)

/-- the nested-action loop of NXActionConnTrack, second run over the children the first run left behind -/
theorem NXActionConnTrack.marshalActs_idem (sub : V → R (Bytes × V)) :
    ∀ (acts : List V) (buf : Bytes) (n : Nat) (buf' : Bytes) (acts' : List V),
      (∀ a ∈ acts, ∀ b a', sub a = .ok (b, a') → sub a' = .ok (b, a')) →
      NXActionConnTrack.marshalActs sub acts buf n = .ok (buf', acts') →
      NXActionConnTrack.marshalActs sub acts' buf n = .ok (buf', acts') := by
  intro acts
  induction acts with
  | nil =>
    intro buf n buf' acts' _ h
    simp only [NXActionConnTrack.marshalActs] at h
    cases h; rfl
  | cons a as ih =>
    intro buf n buf' acts' hp h
    simp only [NXActionConnTrack.marshalActs] at h
    obtain ⟨⟨ab, a'⟩, ha, h2⟩ := bind_ok_inv _ _ _ h
    obtain ⟨b1, hb1, h3⟩ := bind_ok_inv _ _ _ h2
    obtain ⟨⟨b2, as'⟩, hb2, h4⟩ := bind_ok_inv _ _ _ h3
    cases h4
    have ha' := hp a (by simp) ab a' ha
    have ih' := ih _ _ _ _ (fun x hx => hp x (by simp [hx])) hb2
    simp only [NXActionConnTrack.marshalActs, ha', hb1, ih', Res.bind_ok, Res.pure_eq]


/-! ### the nested-action loop of NXActionConnTrack as `mapM2` + writing the encodings one after the other -/

/-- `copy(data[n:], b); n += len(b)` for each b in turn (proof device: the buffer part of `marshalActs`) -/
def writeAll : Bytes → Nat → List Bytes → R Bytes
  | buf, _, [] => .ok buf
  | buf, n, b :: bs => do
    let buf' ← fillFrom buf n [pCopy b]
    writeAll buf' (n + b.length) bs

theorem NXActionConnTrack.marshalActs_split (sub : V → R (Bytes × V)) :
    ∀ (acts : List V) (buf : Bytes) (n : Nat) (buf' : Bytes) (acts' : List V),
      NXActionConnTrack.marshalActs sub acts buf n = .ok (buf', acts') →
      ∃ bss, mapM2 sub acts = .ok (bss, acts') ∧ writeAll buf n bss = .ok buf' := by
  intro acts
  induction acts with
  | nil =>
    intro buf n buf' acts' h
    simp only [NXActionConnTrack.marshalActs] at h
    cases h
    exact ⟨[], rfl, rfl⟩
  | cons a as ih =>
    intro buf n buf' acts' h
    simp only [NXActionConnTrack.marshalActs] at h
    obtain ⟨⟨ab, a'⟩, ha, h2⟩ := bind_ok_inv _ _ _ h
    obtain ⟨b1, hb1, h3⟩ := bind_ok_inv _ _ _ h2
    obtain ⟨⟨b2, as'⟩, hb2, h4⟩ := bind_ok_inv _ _ _ h3
    cases h4
    obtain ⟨bss, hm, hw⟩ := ih _ _ _ _ hb2
    refine ⟨ab :: bss, mapM2_cons_of_ok _ _ _ _ _ _ _ ha hm, ?_⟩
    simp only [writeAll, hb1, Res.bind_ok, hw]

theorem NXActionConnTrack.marshalActs_join (sub : V → R (Bytes × V)) :
    ∀ (acts : List V) (buf : Bytes) (n : Nat) (buf' : Bytes) (acts' : List V) (bss : List Bytes),
      mapM2 sub acts = .ok (bss, acts') → writeAll buf n bss = .ok buf' →
      NXActionConnTrack.marshalActs sub acts buf n = .ok (buf', acts') := by
  intro acts
  induction acts with
  | nil =>
    intro buf n buf' acts' bss hm hw
    simp [mapM2] at hm
    obtain ⟨rfl, rfl⟩ := hm
    simp only [writeAll] at hw
    cases hw
    rfl
  | cons a as ih =>
    intro buf n buf' acts' bss hm hw
    obtain ⟨b, a', bss', as', e1, e2, rfl, rfl⟩ := mapM2_cons_ok _ _ _ _ _ hm
    simp only [writeAll] at hw
    obtain ⟨b1, hb1, hw'⟩ := bind_ok_inv _ _ _ hw
    have := ih _ _ _ _ _ e2 hw'
    simp only [NXActionConnTrack.marshalActs, e1, hb1, this, Res.bind_ok, Res.pure_eq]


/-- The common shape "MarshalBinary() = Len() first (result stored / used), then encode what Len() left behind":
    if Len() is idempotent and the encoding step `E`, run on a value Len() has settled, leaves a value on which Len()
    gives the same answer and `E` the same result, then the kind is repeatable. -/
theorem repeatable_of_lenThen (lenM : V → R (UInt16 × V)) (E : UInt16 → V → R (Bytes × V)) (marshalM : V → R (Bytes × V))
    (hdef : ∀ v, marshalM v = (lenM v >>= fun lv => E lv.1 lv.2))
    (hidem : ∀ v, LenIdem lenM v)
    (hE : ∀ l v1 bs v2, lenM v1 = .ok (l, v1) → E l v1 = .ok (bs, v2) → lenM v2 = .ok (l, v2) ∧ E l v2 = .ok (bs, v2)) :
    ∀ v, Repeatable lenM marshalM v := by
  intro v
  refine ⟨hidem v, ?_, ?_, ?_⟩
  · intro bs v2 h2
    rw [hdef] at h2
    obtain ⟨⟨l, v1⟩, hl, h3⟩ := bind_ok_inv _ _ _ h2
    obtain ⟨e1, e2⟩ := hE l v1 bs v2 (hidem v l v1 hl) h3
    rw [hdef, e1]; exact e2
  · intro l v1 bs v2 h1 h2
    rw [hdef, h1] at h2
    exact (hE l v1 bs v2 (hidem v l v1 h1) h2).1
  · intro l v1 bs v2 h1 h2
    rw [hdef, h1] at h2
    rw [hdef, hidem v l v1 h1]; exact h2

/-! ### length setters -/

theorem NXActionHeader.setLength_idem (l : UInt16) (h h' : V) (hs : NXActionHeader.setLength l h = .ok h') :
    NXActionHeader.setLength l h' = .ok h' := by
  rw [(NXActionHeader.length_setLength l h h' hs).2 l, hs]

theorem Header.setLength_idem' (l : UInt16) (h h' : V) (hs : Header.setLength l h = h') : Header.setLength l h' = h' := by
  unfold Header.setLength at hs
  split at hs
  · subst hs; rfl
  · rename_i hne
    subst hs
    unfold Header.setLength
    split
    · rename_i a b c d
      exact absurd rfl (hne a b c d)
    · rfl

theorem Header.setLength_idem (l : UInt16) (h : V) : Header.setLength l (Header.setLength l h) = Header.setLength l h :=
  Header.setLength_idem' l h _ rfl

/-! ### lists of children -/

/-- MarshalBinary() loop, second run over the children the first run left behind -/
theorem marshalList_idem (f : V → R (Bytes × V)) : ∀ (xs : List V) (e : Bool) (bs : Bytes) (zs : List V) (e' : Bool),
    (∀ x ∈ xs, NoErr (f x)) → (∀ x ∈ xs, ∀ b z, f x = .ok (b, z) → f z = .ok (b, z)) →
    marshalList f xs e = .ok (bs, zs, e') → marshalList f zs e = .ok (bs, zs, e') := by
  intro xs
  induction xs with
  | nil => intro e bs zs e' _ _ h; simp [marshalList] at h; obtain ⟨rfl, rfl, rfl⟩ := h; rfl
  | cons x xs ih =>
    intro e bs zs e' hne hp h
    obtain ⟨b, x', bs', zs', h1, h2, rfl, rfl⟩ := marshalList_ok_cons f x xs e bs zs e' (hne x (by simp)) h
    have h1' := hp x (by simp) b x' h1
    have h2' := ih false bs' zs' e' (fun y hy => hne y (by simp [hy])) (fun y hy => hp y (by simp [hy])) h2
    simp only [marshalList, h1', h2']

/-- Len() loop over the children an encoder loop (`mapM2 f`) left behind -/
theorem mapM2_len_after_mar (g : V → R (UInt16 × V)) (f : V → R (Bytes × V)) :
    ∀ (xs : List V) (ls : List UInt16) (ys : List V) (bss : List Bytes) (zs : List V),
    mapM2 g xs = .ok (ls, ys) → mapM2 f xs = .ok (bss, zs) →
    (∀ x ∈ xs, ∀ l y b z, g x = .ok (l, y) → f x = .ok (b, z) → g z = .ok (l, z)) →
    mapM2 g zs = .ok (ls, zs) := by
  intro xs
  induction xs with
  | nil =>
    intro ls ys bss zs h1 h2 _
    simp [mapM2] at h1; obtain ⟨rfl, rfl⟩ := h1
    simp [mapM2] at h2; obtain ⟨rfl, rfl⟩ := h2
    rfl
  | cons x xs ih =>
    intro ls ys bss zs h1 h2 hp
    obtain ⟨l, y, ls', ys', e1, e2, rfl, rfl⟩ := mapM2_cons_ok _ _ _ _ _ h1
    obtain ⟨b, z, bss', zs', e3, e4, rfl, rfl⟩ := mapM2_cons_ok _ _ _ _ _ h2
    exact mapM2_cons_of_ok _ _ _ _ _ _ _ (hp x (by simp) l y b z e1 e3)
      (ih ls' ys' bss' zs' e2 e4 (fun w hw => hp w (by simp [hw])))

/-- encoder loop over the children a Len() loop left behind gives what the encoder loop alone gives -/
theorem mapM2_mar_after_len (g : V → R (UInt16 × V)) (f : V → R (Bytes × V)) :
    ∀ (xs : List V) (ls : List UInt16) (ys : List V) (bss : List Bytes) (zs : List V),
    mapM2 g xs = .ok (ls, ys) → mapM2 f xs = .ok (bss, zs) →
    (∀ x ∈ xs, ∀ l y b z, g x = .ok (l, y) → f x = .ok (b, z) → f y = .ok (b, z)) →
    mapM2 f ys = .ok (bss, zs) := by
  intro xs
  induction xs with
  | nil =>
    intro ls ys bss zs h1 h2 _
    simp [mapM2] at h1; obtain ⟨rfl, rfl⟩ := h1
    simp [mapM2] at h2; obtain ⟨rfl, rfl⟩ := h2
    rfl
  | cons x xs ih =>
    intro ls ys bss zs h1 h2 hp
    obtain ⟨l, y, ls', ys', e1, e2, rfl, rfl⟩ := mapM2_cons_ok _ _ _ _ _ h1
    obtain ⟨b, z, bss', zs', e3, e4, rfl, rfl⟩ := mapM2_cons_ok _ _ _ _ _ h2
    exact mapM2_cons_of_ok _ _ _ _ _ _ _ (hp x (by simp) l y b z e1 e3)
      (ih ls' ys' bss' zs' e2 e4 (fun w hw => hp w (by simp [hw])))

/-- the `append` loop is `mapM2` + concatenation, both ways, for children that return no error -/
theorem marshalList_of_mapM2 (f : V → R (Bytes × V)) : ∀ (xs : List V) (e : Bool) (bss : List Bytes) (zs : List V),
    mapM2 f xs = .ok (bss, zs) → marshalList f xs e = .ok (bss.flatten, zs, if xs = [] then e else false) := by
  intro xs
  induction xs with
  | nil => intro e bss zs h; simp [mapM2] at h; obtain ⟨rfl, rfl⟩ := h; rfl
  | cons x xs ih =>
    intro e bss zs h
    obtain ⟨b, z, bss', zs', e3, e4, rfl, rfl⟩ := mapM2_cons_ok _ _ _ _ _ h
    have := ih false bss' zs' e4
    simp only [marshalList, e3, this, List.flatten_cons]
    simp

end OFV.Model
