/-
  OFV.Lemmas.Walk5 — walker-only: acceptance of a set-field action (type 25) by `Spec.walkAction`, given that its OXM TLV
  is accepted by `Spec.walkOxm`.
-/
import OFV.Lemmas.Walk4
namespace OFV.Walk5
open OFV OFV.Spec OFV.Walk2 OFV.Walk3 OFV.Walk4

/-- set-field: type 25, the length word declares the action's own bytes = 4 + the field's bytes rounded up to 8, the
    field `fb` (accepted as an OXM TLV with subtree `t`) follows the 4 header bytes, the rest is zero -/
theorem accept_setField (b fb : Bytes) (t : Tree) (h8 : 8 ≤ b.length) (hal : b.length % 8 = 0) (h0 : beAt b 0 2 = 25)
    (h2 : beAt b 2 2 = b.length) (hox : OxmAccept fb t) (hr : round8 (4 + fb.length) = b.length)
    (hb : b.drop 4 = fb ++ List.replicate (b.length - (4 + fb.length)) 0) : ActAccept b (.node "act 25" b [t]) := by
  intro fuel tail
  rw [walkAction_tail b tail fuel h8 hal h2]
  have e0 : u16At b 0 = 25 := by rw [u16At_eq_beAt _ _ (by omega), h0]
  have e2 : u16At b 2 = b.length := by rw [u16At_eq_beAt _ _ (by omega), h2]
  have t2 : b.take b.length = b := List.take_length
  have l1 : ¬ b.length < 4 := by omega
  have l2 : ¬ (b.length < 8 ∨ b.length % 8 ≠ 0) := by omega
  have l3 : ¬ b.length < b.length := by omega
  have hw : walkOxm (b.drop 4) = .ok (t, fb.length) := by rw [hb]; exact hox.2 _
  have hle : 4 + fb.length ≤ b.length := by rw [← hr]; unfold round8; omega
  have hz : zerosAt b (4 + fb.length) (b.length - 4 - fb.length) "set-field" = .ok () := by
    apply zerosAt_ok
    apply zeros_slice
    have : b.drop (4 + fb.length) = (b.drop 4).drop fb.length := by rw [List.drop_drop]
    rw [this, hb, List.drop_left]
    congr 1; omega
  have hr' : ¬ round8 (4 + fb.length) ≠ b.length := by rw [hr]; simp
  simp only [walkAction, e0, e2, t2, l1, l2, l3, hw, if_false]
  show (do if round8 (4 + fb.length) ≠ b.length then fail s!"set-field: oxm of {fb.length} bytes in an action of {b.length}"
           zerosAt b (4 + fb.length) (b.length - 4 - fb.length) "set-field"
           pure (Tree.node "act 25" b [t], b.length) : W (Tree × Nat)) = _
  rw [if_neg hr', hz]
  rfl

end OFV.Walk5
