/-
  OFV.Lemmas.Local7 — frame locality, round 4:
    * decoders whose OUTCOME depends on the capacity alone (same visible bytes, different cap ⇒ panic versus value):
      machine-checked list of sites (`…_capacity_dependent_counterexample`);
    * `GoodFrame2`: good frames widened to multipart replies of every type but flow, and to flow-mods for which the
      flow-mod decoder itself is local (hypothesis discharged below for in-frame instructions);
    * flow-mod / instructions / actions: locality under explicit in-frame conditions.
-/
import OFV.Lemmas.Local6
namespace OFV.Model
open OFV OFV.Go OFV.Go.Slice

/-! ### capacity-dependent sites -/

/-- `InstrGotoTable.UnmarshalBinary`: `data[5:8]` is not checked against `len`: 5 visible bytes decode with 3 spare bytes of
    capacity and panic without -/
theorem InstrGotoTable_capacity_dependent_counterexample :
    (Slice.mk [0, 1, 0, 8, 7] 5).WF ∧ (Slice.mk [0, 1, 0, 8, 7, 0, 0, 0] 5).WF ∧
    (Slice.mk [0, 1, 0, 8, 7] 5).Agree (Slice.mk [0, 1, 0, 8, 7, 0, 0, 0] 5) ∧
    InstrGotoTable.unmarshal InstrGotoTable.zero (Slice.mk [0, 1, 0, 8, 7] 5) = .panic ∧
    InstrGotoTable.unmarshal InstrGotoTable.zero (Slice.mk [0, 1, 0, 8, 7, 0, 0, 0] 5) =
      .ok (.obj "InstrGotoTable" [.obj "InstrHeader" [.num 1, .num 8], .num 7, .bytes []]) :=
  ⟨by unfold WF; decide, by unfold WF; decide, by unfold Agree; decide, rfl, rfl⟩

/-- `InstrWriteMetadata.UnmarshalBinary`: `data[4:8]`, `data[8:16]`, `data[16:24]` are not checked against `len`: 8 visible
    bytes panic without spare capacity … -/
theorem InstrWriteMetadata_capacity_dependent_counterexample :
    (Slice.mk [0, 2, 0, 24, 0, 0, 0, 0] 8).WF ∧ (Slice.mk ([0, 2, 0, 24, 0, 0, 0, 0] ++ zeros 16) 8).WF ∧
    (Slice.mk [0, 2, 0, 24, 0, 0, 0, 0] 8).Agree (Slice.mk ([0, 2, 0, 24, 0, 0, 0, 0] ++ zeros 16) 8) ∧
    InstrWriteMetadata.unmarshal InstrWriteMetadata.zero (Slice.mk [0, 2, 0, 24, 0, 0, 0, 0] 8) = .panic ∧
    InstrWriteMetadata.unmarshal InstrWriteMetadata.zero (Slice.mk ([0, 2, 0, 24, 0, 0, 0, 0] ++ zeros 16) 8) =
      .ok (.obj "InstrWriteMetadata" [.obj "InstrHeader" [.num 2, .num 24], .bytes [], .num 0, .num 0]) :=
  ⟨by unfold WF; decide, by unfold WF; decide, by unfold Agree; decide, rfl, rfl⟩

/-- … and with spare capacity metadata and mask ARE the 16 bytes behind the slice (content over-read) -/
theorem InstrWriteMetadata_not_local_counterexample :
    (Slice.mk ([0, 2, 0, 24, 0, 0, 0, 0] ++ [0,0,0,0,0,0,0,1] ++ zeros 8) 8).Agree (Slice.mk ([0, 2, 0, 24, 0, 0, 0, 0] ++ [0,0,0,0,0,0,0,2] ++ zeros 8) 8) ∧
    InstrWriteMetadata.unmarshal InstrWriteMetadata.zero (Slice.mk ([0, 2, 0, 24, 0, 0, 0, 0] ++ [0,0,0,0,0,0,0,1] ++ zeros 8) 8) =
      .ok (.obj "InstrWriteMetadata" [.obj "InstrHeader" [.num 2, .num 24], .bytes [], .num 1, .num 0]) ∧
    InstrWriteMetadata.unmarshal InstrWriteMetadata.zero (Slice.mk ([0, 2, 0, 24, 0, 0, 0, 0] ++ [0,0,0,0,0,0,0,2] ++ zeros 8) 8) =
      .ok (.obj "InstrWriteMetadata" [.obj "InstrHeader" [.num 2, .num 24], .bytes [], .num 2, .num 0]) :=
  ⟨by unfold Agree; decide, rfl, rfl⟩

/-- a flow-mod of 61 bytes (Length field 61) ending in the 5-byte fragment `00 01 00 08 07` of a goto-table instruction -/
def fmGoto (tail : Bytes) : Slice :=
  ⟨[4, 14, 0, 61, 0, 0, 0, 7] ++ zeros 40 ++ [0, 1, 0, 4, 0, 0, 0, 0] ++ [0, 1, 0, 8, 7] ++ tail, 61⟩

/-- through Parse, frame length = Length field: the SAME frame is rejected when the buffer ends with it and accepted (with a
    goto-table instruction) when 3 more bytes of capacity follow -/
theorem parse_flowmod_capacity_dependent_counterexample :
    (fmGoto []).WF ∧ (fmGoto [0, 0, 0]).WF ∧ (fmGoto []).Agree (fmGoto [0, 0, 0]) ∧
    parse 62 (fmGoto []) = .err ∧ (parse 62 (fmGoto [0, 0, 0])).isOk = true :=
  ⟨by unfold WF; decide, by unfold WF; decide, by unfold Agree; decide, rfl, rfl⟩

/-! ### good frames, widened -/

/-- `parseStep` with the experimenter, flow-mod and multipart-reply branches left as hypotheses -/
theorem parseStep_loc4 (self self' : Slice → R V) {s t : Slice} (haw : AW s t) (h8 : 8 ≤ t.len)
    (hk : ∀ tb, t.byteAt 1 = .ok tb →
      (tb.toNat = Gen.openflow13.Type_Experimenter →
        VendorHeader.unmarshalWith (decodeVendorDataWith self anyLenM) VendorHeader.zero s =
          VendorHeader.unmarshalWith (decodeVendorDataWith self' anyLenM) VendorHeader.zero t) ∧
      (tb.toNat = Gen.openflow13.Type_FlowMod → FlowMod.unmarshal flowModRecv s = FlowMod.unmarshal flowModRecv t) ∧
      (tb.toNat = Gen.openflow13.Type_MultiPartReply →
        MultipartReply.unmarshalWith anyLenM MultipartReply.zero s = MultipartReply.unmarshalWith anyLenM MultipartReply.zero t)) :
    parseStep self s = parseStep self' t := by
  unfold parseStep
  loc_norm haw
  apply bind_congr_ok; intro tb htb
  obtain ⟨kv, kf, km⟩ := hk tb htb
  rw [Hello_loc _ haw h8, ErrorMsg_loc _ haw h8, VendorError_loc _ haw h8, Header_loc_partial _ haw (Or.inr h8),
    Header_loc_partial _ haw (Or.inr h8), SwitchConfig_loc _ haw h8, SwitchConfig_loc _ haw h8,
    SwitchFeatures_loc _ haw h8, PacketIn_loc _ haw h8, FlowRemoved_loc _ haw h8, PortStatus_loc _ haw h8,
    MultipartRequest_loc _ haw h8]
  apply ite_congr rfl (fun _ => rfl); intro _
  apply ite_congr rfl (fun _ => rfl); intro _
  apply ite_congr rfl (fun _ => rfl); intro _
  apply ite_congr rfl kv; intro _
  apply ite_congr rfl (fun _ => rfl); intro _
  apply ite_congr rfl (fun _ => rfl); intro _
  apply ite_congr rfl (fun _ => rfl); intro _
  apply ite_congr rfl (fun _ => rfl); intro _
  apply ite_congr rfl (fun _ => rfl); intro _
  apply ite_congr rfl (fun _ => rfl); intro _
  apply ite_congr rfl (fun _ => rfl); intro _
  apply ite_congr rfl kf; intro _
  apply ite_congr rfl (fun _ => rfl); intro _
  apply ite_congr rfl (fun _ => rfl); intro _
  apply ite_congr rfl km; intro _
  rfl

/-- good frames, second version.  `FM t` is the condition under which the flow-mod decoder is local on `t` (see
    `FlowMod_loc_inframe`); a multipart reply must not be of type flow. -/
def GoodFrame2 (FM : Slice → Prop) : Nat → Slice → Prop
  | 0, _ => False
  | n + 1, t =>
    8 ≤ t.len ∧
    ∀ tb, t.byteAt 1 = .ok tb →
      (tb.toNat = Gen.openflow13.Type_FlowMod → FM t) ∧
      (tb.toNat = Gen.openflow13.Type_MultiPartReply → ∀ mt, t.u16From 8 = .ok mt → mt.toNat ≠ Gen.openflow13.MultipartType_Flow) ∧
      (tb.toNat = Gen.openflow13.Type_Experimenter →
        (∀ w, t.u16In 2 4 = .ok w → w.toNat ≤ t.len) ∧
        (∀ ty, t.u32From 12 = .ok ty →
          (ty.toNat = Gen.openflow13.Type_TlvTableReply → ∀ w, t.u16In 2 4 = .ok w → 32 ≤ w.toNat) ∧
          (ty.toNat = Gen.openflow13.Type_BundleAdd → ∀ w body ml inner, t.u16In 2 4 = .ok w →
            t.sliceR 16 w.toNat = .ok body → body.u16From 10 = .ok ml → body.sliceR 8 (8 + ml.toNat) = .ok inner →
            GoodFrame2 FM n inner)))

theorem parseD_good2_loc (FM : Slice → Prop)
    (hFM : ∀ s t, AW s t → FM t → FlowMod.unmarshal flowModRecv s = FlowMod.unmarshal flowModRecv t) :
    ∀ (n : Nat) (s t : Slice), AW s t → GoodFrame2 FM n t → ∀ d d', t.len ≤ d → t.len ≤ d' →
    parseD (d + 1) s = parseD (d' + 1) t := by
  intro n
  induction n with
  | zero => intro s t _ hg; exact absurd hg (by unfold GoodFrame2; exact fun h => h)
  | succ n ih =>
    intro s t haw hg d d' hd hd'
    unfold GoodFrame2 at hg
    obtain ⟨h8, hk⟩ := hg
    unfold parseD
    rw [parseStep_loc4 (parseD d) (parseD d') haw h8]
    intro tb htb
    obtain ⟨hfm, hmp, hexp⟩ := hk tb htb
    refine ⟨fun he => ?_, fun hf => hFM s t haw (hfm hf),
      fun hm => MultipartReply_unmarshalWith_loc_partial _ _ haw h8 (hmp hm)⟩
    obtain ⟨hL, hty⟩ := hexp he
    apply VendorHeader_unmarshalWith_loc_partial3 _ _ _ haw hL
    intro w ty x y hw hty' hy hxy
    obtain ⟨htlv, hba⟩ := hty ty hty'
    have hylen := (Slice.sliceR_wf t 16 _ y hy).2
    have hwle := hL w hw
    apply decodeVendorDataWith_loc_partial2 _ _ _ _ _ hxy
    · intro h26; have := htlv h26 w hw; omega
    · intro h2301 ml u v hml hv huv hv8 hvl
      have hgi := hba h2301 w y ml v hw hy hml hv
      have e1 : d = (d - 1) + 1 := by omega
      have e2 : d' = (d' - 1) + 1 := by omega
      rw [e1, e2]
      exact ih u v huv hgi _ _ (by omega) (by omega)

theorem parse_good2_loc (FM : Slice → Prop)
    (hFM : ∀ s t, AW s t → FM t → FlowMod.unmarshal flowModRecv s = FlowMod.unmarshal flowModRecv t)
    (n : Nat) {s t : Slice} (haw : AW s t) (hg : GoodFrame2 FM n t) (d d' : Nat) : parse d s = parse d' t := by
  unfold parse
  have hs := haw.1
  have ht := haw.2.1
  have hl := haw.len_eq
  unfold Slice.WF at hs ht
  unfold Slice.cap
  have e1 : max d (s.buf.length + 1) = (max d (s.buf.length + 1) - 1) + 1 := by omega
  have e2 : max d' (t.buf.length + 1) = (max d' (t.buf.length + 1) - 1) + 1 := by omega
  rw [e1, e2]
  exact parseD_good2_loc FM hFM n s t haw hg _ _ (by omega) (by omega)

/-! ### actions and action lists inside the frame -/

/-- two loops whose bodies coincide on the states reachable under an invariant compute the same -/
theorem goLoop_congr_inv {σ} (cond : σ → Bool) (cursor : σ → Nat) (body body' : σ → R σ) (P : σ → Prop)
    (h : ∀ st, P st → cond st = true → body st = body' st)
    (hP : ∀ st st', P st → cond st = true → body' st = .ok st' → P st') :
    ∀ fuel st, P st → goLoop fuel cond cursor body st = goLoop fuel cond cursor body' st := by
  intro fuel
  induction fuel with
  | zero => intro st _; rfl
  | succ f ih =>
    intro st hst
    unfold goLoop
    by_cases hc : cond st = true
    · simp only [hc, if_true]
      rw [h st hst hc]
      cases hb : body' st with
      | ok s' => simp only []; split
                 · rfl
                 · exact ih _ (hP st s' hst hc hb)
      | err => rfl
      | panic => rfl
      | spin => rfl
    · simp only [hc]; rfl

/-- `ActionDecNwTtl` re-slices `data[:4]` unchecked: local once the slice holds 4 bytes -/
theorem ActionDecNwTtl_loc_partial (recv : V) {s t : Slice} (haw : AW s t) (h4 : 4 ≤ t.len) :
    ActionDecNwTtl.unmarshal recv s = ActionDecNwTtl.unmarshal recv t := by
  unfold ActionDecNwTtl.unmarshal
  split
  · (loc_norm haw) <;> (repeat' first | loc_step haw | simp only [ActionHeader_loc _ ‹AW _ _›])
  · rfl

/-- `ActionPush` re-slices `data[:4]` unchecked: local once the slice holds 4 bytes -/
theorem ActionPush_loc_partial (recv : V) {s t : Slice} (haw : AW s t) (h4 : 4 ≤ t.len) :
    ActionPush.unmarshal recv s = ActionPush.unmarshal recv t := by
  unfold ActionPush.unmarshal
  split
  · (loc_norm haw) <;> (repeat' first | loc_step haw | simp only [ActionHeader_loc _ ‹AW _ _›])
  · rfl

/-- `ActionPopVlan` re-slices `data[:4]` unchecked: local once the slice holds 4 bytes -/
theorem ActionPopVlan_loc_partial (recv : V) {s t : Slice} (haw : AW s t) (h4 : 4 ≤ t.len) :
    ActionPopVlan.unmarshal recv s = ActionPopVlan.unmarshal recv t := by
  unfold ActionPopVlan.unmarshal
  split
  · (loc_norm haw) <;> (repeat' first | loc_step haw | simp only [ActionHeader_loc _ ‹AW _ _›])
  · rfl

/-- `ActionPopMpls` re-slices `data[:4]` unchecked: local once the slice holds 4 bytes -/
theorem ActionPopMpls_loc_partial (recv : V) {s t : Slice} (haw : AW s t) (h4 : 4 ≤ t.len) :
    ActionPopMpls.unmarshal recv s = ActionPopMpls.unmarshal recv t := by
  unfold ActionPopMpls.unmarshal
  split
  · (loc_norm haw) <;> (repeat' first | loc_step haw | simp only [ActionHeader_loc _ ‹AW _ _›])
  · rfl

/-- the `switch` of DecodeAction reads the type from `data[:2]` unchecked: local once the slice holds 2 bytes -/
theorem newActionFor_loc_partial {s t : Slice} (haw : AW s t) (h2 : 2 ≤ t.len) : newActionFor s = newActionFor t := by
  unfold newActionFor DecodeNxAction
  have hc : Gen.openflow13.NxActionHeaderLength = 10 := rfl
  rw [hc]
  loc_norm haw
  repeat' first
    | loc_step haw
    | split

/-- the action kinds covered: the kinds whose decoders are proved local on slices of at least 4 bytes, and the nil
    receiver (unknown type / foreign vendor / unknown subtype: the method call on the nil interface panics on both sides) -/
def ActionKindCovered (k : String) : Prop :=
  k = "ActionHeader" ∨ k = "ActionOutput" ∨ k = "ActionSetqueue" ∨ k = "ActionGroup" ∨ k = "ActionMplsTtl" ∨ k = "ActionNwTtl" ∨
  k = "ActionDecNwTtl" ∨ k = "ActionPush" ∨ k = "ActionPopVlan" ∨ k = "ActionPopMpls" ∨ k = "NXActionHeader" ∨ k = ""

theorem Action_unmarshalLeaf_loc_covered (a : V) {s t : Slice} (haw : AW s t) (h4 : 4 ≤ t.len) (hk : ActionKindCovered a.kind) :
    Action.unmarshalLeaf a s = Action.unmarshalLeaf a t := by
  unfold ActionKindCovered at hk
  unfold Action.unmarshalLeaf
  split
  all_goals first
    | exact ActionHeader_loc a haw
    | exact ActionOutput_loc a haw
    | exact ActionSetqueue_loc a haw
    | exact ActionGroup_loc a haw
    | exact ActionMplsTtl_loc a haw
    | exact ActionNwTtl_loc a haw
    | exact ActionDecNwTtl_loc_partial a haw h4
    | exact ActionPush_loc_partial a haw h4
    | exact ActionPopVlan_loc_partial a haw h4
    | exact ActionPopMpls_loc_partial a haw h4
    | exact NXActionHeader_loc a haw
    | rfl
    | (exfalso; rename_i heq; rw [heq] at hk; simp at hk)

/-- DecodeAction on a slice of at least 4 bytes whose action is of a covered kind -/
theorem DecodeAction_loc_covered {s t : Slice} (haw : AW s t) (h4 : 4 ≤ t.len)
    (hk : ∀ a, newActionFor t = .ok a → ActionKindCovered a.kind) (d d' : Nat) :
    DecodeAction (d + 1) s = DecodeAction (d' + 1) t := by
  unfold DecodeAction
  rw [newActionFor_loc_partial haw (by omega)]
  apply bind_congr_ok; intro a ha
  have hc := hk a ha
  have hne : a.kind ≠ "NXActionConnTrack" := by
    unfold ActionKindCovered at hc
    intro heq; rw [heq] at hc; simp at hc
  rw [if_neg hne, if_neg hne]
  exact Action_unmarshalLeaf_loc_covered a haw h4 hc

/-- the action loop `for n < limit { DecodeAction(data[n:]) … }`: local when every offset the loop reaches (invariant `I`,
    closed under "advance by the decoded action's length") leaves at least 4 bytes inside the frame and starts an action of
    a covered kind -/
theorem decodeActions_loc_inv {s t : Slice} (haw : AW s t) (limit n0 : Nat) (xs0 : List V) (I : Nat → Prop) (h0 : I n0)
    (hstep : ∀ n, I n → n < limit →
      n + 4 ≤ t.len ∧ (∀ d a, t.fromR n = .ok d → newActionFor d = .ok a → ActionKindCovered a.kind) ∧
      (∀ d act l act', t.fromR n = .ok d → DecodeAction (d.len + 1) d = .ok act → Action.lenM act = .ok (l, act') → l ≠ 0 →
        I (n + l.toNat))) :
    InstrAux.decodeActions s limit n0 xs0 = InstrAux.decodeActions t limit n0 xs0 := by
  unfold InstrAux.decodeActions
  rw [haw.len_eq]
  apply goLoop_congr_inv _ _ _ _ (fun st => st.err = false → I st.n)
  · intro st hst hc
    simp only [Bool.and_eq_true, Bool.not_eq_true', decide_eq_true_eq] at hc
    obtain ⟨herr, hlt⟩ := hc
    obtain ⟨h4, hk, _⟩ := hstep st.n (hst herr) hlt
    rcases Slice.fromR_loc haw st.n with ⟨h1, h2⟩ | ⟨x, y, h1, h2, hxy⟩
    · rw [h1, h2]
    · rw [h1, h2]
      simp only [Res.bind_ok]
      have hyl := (Slice.fromR_wf t haw.2.1 st.n y h2).2
      rw [hxy.len_eq, DecodeAction_loc_covered hxy (by omega) (fun a ha => hk y a h2 ha) y.len y.len]
  · intro st st' hst hc hb
    simp only [Bool.and_eq_true, Bool.not_eq_true', decide_eq_true_eq] at hc
    obtain ⟨herr, hlt⟩ := hc
    obtain ⟨_, _, hnext⟩ := hstep st.n (hst herr) hlt
    simp only [] at hb
    cases hd : t.fromR st.n with
    | ok y =>
      rw [hd] at hb; simp only [Res.bind_ok] at hb
      cases hda : DecodeAction (y.len + 1) y with
      | ok act =>
        rw [hda] at hb; simp only [] at hb
        cases hl : Action.lenM act with
        | ok p =>
          obtain ⟨l, act'⟩ := p
          rw [hl] at hb; simp only [Res.bind_ok] at hb
          by_cases hz : l = 0
          · simp only [hz, if_true, Res.pure_eq] at hb; cases hb; intro h; cases h
          · rw [if_neg hz] at hb; cases hb; intro _; exact hnext y act l act' hd hda hl hz
        | err => rw [hl] at hb; cases hb
        | panic => rw [hl] at hb; cases hb
        | spin => rw [hl] at hb; cases hb
      | err => rw [hda] at hb; cases hb; intro h; cases h
      | panic => rw [hda] at hb; cases hb
      | spin => rw [hda] at hb; cases hb
    | err => rw [hd] at hb; cases hb
    | panic => rw [hd] at hb; cases hb
    | spin => rw [hd] at hb; cases hb
  · intro _; exact h0

/-! ### instructions inside the frame -/

theorem InstrHeader_loc (recv : V) {s t : Slice} (haw : AW s t) : InstrHeader.unmarshal recv s = InstrHeader.unmarshal recv t := by
  unfold InstrHeader.unmarshal
  (loc_norm haw) <;> (repeat' first | loc_step haw | split)

/-- `instr.InstrHeader.UnmarshalBinary(data[:4])` is unchecked: local once the slice holds 4 bytes -/
theorem InstrHeader_unmarshal4_loc_partial (recv : V) {s t : Slice} (haw : AW s t) (h4 : 4 ≤ t.len) :
    InstrHeader.unmarshal4 recv s = InstrHeader.unmarshal4 recv t := by
  unfold InstrHeader.unmarshal4
  repeat' first
    | loc_step haw
    | simp only [InstrHeader_loc _ ‹AW _ _›]

/-- goto-table: `data[5:8]` unchecked (`InstrGotoTable_capacity_dependent_counterexample`); local on 8 bytes -/
theorem InstrGotoTable_loc_partial (recv : V) {s t : Slice} (haw : AW s t) (h8 : 8 ≤ t.len) :
    InstrGotoTable.unmarshal recv s = InstrGotoTable.unmarshal recv t := by
  unfold InstrGotoTable.unmarshal
  loc_norm haw
  simp only [InstrHeader_unmarshal4_loc_partial _ haw (by omega)]
  split
  · repeat' loc_step haw
  · rfl

/-- write-metadata: `data[4:8]`, `data[8:16]`, `data[16:24]` unchecked; local on 24 bytes -/
theorem InstrWriteMetadata_loc_partial (recv : V) {s t : Slice} (haw : AW s t) (h24 : 24 ≤ t.len) :
    InstrWriteMetadata.unmarshal recv s = InstrWriteMetadata.unmarshal recv t := by
  unfold InstrWriteMetadata.unmarshal
  loc_norm haw
  simp only [InstrHeader_unmarshal4_loc_partial _ haw (by omega)]
  split
  · repeat' loc_step haw
  · rfl

/-- meter checks `len(data) < 8` first: local -/
theorem InstrMeter_loc (recv : V) {s t : Slice} (haw : AW s t) : InstrMeter.unmarshal recv s = InstrMeter.unmarshal recv t := by
  unfold InstrMeter.unmarshal
  loc_norm haw
  split
  · apply ite_congr rfl (fun _ => rfl); intro h8
    rw [InstrHeader_unmarshal4_loc_partial _ haw (by omega)]
  · rfl

/-- an actions instruction (write / apply / clear actions) on at least 4 bytes whose action loop — up to the Length the
    instruction declares — stays inside the frame on covered kinds (see `decodeActions_loc_inv`) -/
theorem InstrActions_unmarshalP_loc_inv (recv : V) {s t : Slice} (haw : AW s t) (h4 : 4 ≤ t.len) (I : Nat → Prop) (h0 : I 8)
    (hstep : ∀ h0' h, InstrHeader.unmarshal4 h0' t = .ok h → ∀ n, I n → n < InstrHeader.length h →
      n + 4 ≤ t.len ∧ (∀ d a, t.fromR n = .ok d → newActionFor d = .ok a → ActionKindCovered a.kind) ∧
      (∀ d act l act', t.fromR n = .ok d → DecodeAction (d.len + 1) d = .ok act → Action.lenM act = .ok (l, act') → l ≠ 0 →
        I (n + l.toNat))) :
    InstrActions.unmarshalP recv s = InstrActions.unmarshalP recv t := by
  unfold InstrActions.unmarshalP
  split
  · rename_i h0' _ _
    rw [InstrHeader_unmarshal4_loc_partial _ haw h4]
    apply bind_congr_ok; intro h hh
    rw [decodeActions_loc_inv haw _ _ _ I h0 (hstep h0' h hh)]
  · rfl

end OFV.Model
