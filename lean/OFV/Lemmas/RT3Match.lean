/-
  OFV.Lemmas.RT3Match — the eleven NXM_1 match fields decoded as ByteArrayField since the last repair (tun_id, ip_frag, ip_ecn,
  ip_ttl, mpls_ttl, tcp_flags, dp_hash, recirc_id, tun_gbp_id, tun_gbp_flags, tun_flags): their values are `MatchFieldWF`
  (masked and unmasked), so the MatchField round trip of OFV/Lemmas/RTMatch.lean applies.  Used by OFV/Props/C05c.lean.
-/
import OFV.Model.All
import OFV.Lemmas.RTBasic
import OFV.Lemmas.RTPayload
import OFV.Lemmas.RTMatch
namespace OFV.RT3
set_option linter.unusedSimpArgs false
open OFV OFV.Go OFV.Model OFV.RT

/-- the eleven NXM_1 fields decoded as ByteArrayField since the last repair -/
def newNxm1Fields : List Nat := [Gen.openflow13.NXM_NX_TUN_ID, Gen.openflow13.NXM_NX_IP_FRAG, Gen.openflow13.NXM_NX_IP_ECN,
  Gen.openflow13.NXM_NX_IP_TTL, Gen.openflow13.NXM_NX_MPLS_TTL, Gen.openflow13.NXM_NX_TCP_FLAGS, Gen.openflow13.NXM_NX_DP_HASH,
  Gen.openflow13.NXM_NX_RECIRC_ID, Gen.openflow13.NXM_NX_TUN_GBP_ID, Gen.openflow13.NXM_NX_TUN_GBP_FLAGS,
  Gen.openflow13.NXM_NX_TUN_FLAGS]

theorem newNxm1Fields_eq : newNxm1Fields = [16, 26, 28, 29, 30, 34, 35, 36, 38, 39, 104] := rfl

theorem newNxm1_recv (f ln : Nat) (hm : Bool) (hf : f ∈ newNxm1Fields) :
    fieldRecv Gen.openflow13.OXM_CLASS_NXM_1 f ln hm = some (byteArrayRecv ln hm) := by
  simp only [newNxm1Fields, List.mem_cons, List.not_mem_nil, or_false] at hf
  rcases hf with rfl | rfl | rfl | rfl | rfl | rfl | rfl | rfl | rfl | rfl | rfl <;> rfl

theorem newNxm1_lt (f : Nat) (hf : f ∈ newNxm1Fields) : f < 128 := by
  simp only [newNxm1Fields, List.mem_cons, List.not_mem_nil, or_false] at hf
  rcases hf with rfl | rfl | rfl | rfl | rfl | rfl | rfl | rfl | rfl | rfl | rfl <;> decide

/-- a ByteArrayField value holding the bytes `b` -/
def baV (b : Bytes) : V := .obj "ByteArrayField" [.bytes b, .num b.length]

theorem bytearray_marshal (b : Bytes) (hb : b.length < 256) : MatchPayload.marshalM (baV b) = .ok (b, baV b) := by
  show ByteArrayField.marshalM (baV b) = _
  simp only [baV, ByteArrayField.marshalM, n8_toNat _ hb, makeCopy_self _ b rfl, same]

theorem baV_wf (b : Bytes) (hb : b.length < 256) : PayloadWF (baV b) := ⟨_, _, rfl, hb, rfl⟩

theorem recv_unmasked (n : Nat) (hn : n < 256) : byteArrayRecv n false = .obj "ByteArrayField" [.bytes [], .num n] := by
  simp [byteArrayRecv, u8_n8 n hn]

theorem recv_masked (n : Nat) (hn : 2 * n < 256) : byteArrayRecv (2 * n) true = .obj "ByteArrayField" [.bytes [], .num n] := by
  have : n8 (2 * n) / 2 = n8 n := by
    apply UInt8.toNat_inj.mp
    rw [UInt8.toNat_div, n8_toNat _ hn, n8_toNat _ (by omega)]
    have : (2 : UInt8).toNat = 2 := rfl
    rw [this]; omega
  simp [byteArrayRecv, this, u8_n8 n (by omega)]

/-- the unmasked MatchField of NXM_1 field `f` with value bytes `b` -/
def nxmField (f : Nat) (b : Bytes) : V :=
  .obj "MatchField" [.num Gen.openflow13.OXM_CLASS_NXM_1, .num f, .num 0, .num b.length, .num 0, baV b, .nil]
/-- the masked one: Length = |value| + |mask| -/
def nxmFieldMasked (f : Nat) (b m : Bytes) : V :=
  .obj "MatchField" [.num Gen.openflow13.OXM_CLASS_NXM_1, .num f, .num 1, .num (2 * b.length), .num 0, baV b, baV m]

theorem nxmField_wf (f : Nat) (b : Bytes) (hf : f ∈ newNxm1Fields) (hb : b.length < 256) : MatchFieldWF (nxmField f b) :=
  ⟨by decide, newNxm1_lt f hf, hb, rfl, baV_wf b hb, _, newNxm1_recv f _ _ hf,
    ⟨rfl, fun _ => ⟨_, _, _, rfl, recv_unmasked _ hb⟩, by simp [V.kind, baV]⟩, Or.inl ⟨rfl, rfl⟩⟩

theorem nxmFieldMasked_wf (f : Nat) (b m : Bytes) (hf : f ∈ newNxm1Fields) (hb : 2 * b.length < 256) (hm : m.length = b.length) :
    MatchFieldWF (nxmFieldMasked f b m) :=
  ⟨by decide, newNxm1_lt f hf, hb, rfl, baV_wf b (by omega), _, newNxm1_recv f _ _ hf,
    ⟨rfl, fun _ => ⟨_, _, _, rfl, recv_masked _ hb⟩, by simp [V.kind, baV]⟩,
    Or.inr ⟨rfl, baV_wf m (by omega), rfl, fun _ => ⟨_, _, _, by rw [baV, hm], recv_masked _ hb⟩, by simp [V.kind, baV]⟩⟩

/-- the wire bytes: OXM header (class 1, field·2 | mask bit, payload length), value, mask -/
theorem nxmField_rt (f : Nat) (b : Bytes) (hf : f ∈ newNxm1Fields) (hb : b.length < 256) :
    let bs := be16 (n16 Gen.openflow13.OXM_CLASS_NXM_1) ++ [shl8 (n8 f) 1, n8 b.length] ++ b
    MatchField.marshalM (nxmField f b) = .ok (bs, nxmField f b) ∧
    ∀ (data : Slice) (tail : Bytes), data.WF → data.bytes = bs ++ tail →
      MatchField.unmarshal MatchField.zero data = .ok (nxmField f b) := by
  intro bs
  obtain ⟨bs', h1, _, _, _, h5⟩ := matchField_roundtrip _ (nxmField_wf f b hf hb)
  have h := (matchField_encode_nomask Gen.openflow13.OXM_CLASS_NXM_1 f b.length (baV b) .nil (baV_wf b hb) b _
    (bytearray_marshal b hb)).1
  have he : eidBytes Gen.openflow13.OXM_CLASS_NXM_1 = [] := rfl
  have ho : eidOf Gen.openflow13.OXM_CLASS_NXM_1 = 0 := rfl
  rw [he, ho, List.append_nil] at h
  have hh : MatchField.marshalM (nxmField f b) = .ok (bs, nxmField f b) := h
  rw [hh] at h1
  cases h1
  exact ⟨hh, h5⟩

theorem nxmFieldMasked_rt (f : Nat) (b m : Bytes) (hf : f ∈ newNxm1Fields) (hb : 2 * b.length < 256) (hm : m.length = b.length) :
    let bs := be16 (n16 Gen.openflow13.OXM_CLASS_NXM_1) ++ [shl8 (n8 f) 1 ||| 1, n8 (2 * b.length)] ++ b ++ m
    MatchField.marshalM (nxmFieldMasked f b m) = .ok (bs, nxmFieldMasked f b m) ∧
    ∀ (data : Slice) (tail : Bytes), data.WF → data.bytes = bs ++ tail →
      MatchField.unmarshal MatchField.zero data = .ok (nxmFieldMasked f b m) := by
  intro bs
  obtain ⟨bs', h1, _, _, _, h5⟩ := matchField_roundtrip _ (nxmFieldMasked_wf f b m hf hb hm)
  have h := (matchField_encode_mask Gen.openflow13.OXM_CLASS_NXM_1 f (2 * b.length) (baV b) (baV m) (baV_wf b (by omega))
    (baV_wf m (by omega)) b m _ _ (bytearray_marshal b (by omega)) (bytearray_marshal m (by omega))).1
  have he : eidBytes Gen.openflow13.OXM_CLASS_NXM_1 = [] := rfl
  have ho : eidOf Gen.openflow13.OXM_CLASS_NXM_1 = 0 := rfl
  rw [he, ho, List.append_nil] at h
  have hh : MatchField.marshalM (nxmFieldMasked f b m) = .ok (bs, nxmFieldMasked f b m) := h
  rw [hh] at h1
  cases h1
  exact ⟨hh, h5⟩

end OFV.RT3
