/-
  OFV.Lemmas.Sw3Match — OXM TLVs of the Nicira class NXM_1 (class 1):
    * `nxmKind`        : field number ↦ (Go payload type, shape of the payload) for every field of the class that
                         `DecodeMatchField` has a `case` for (the 16 registers included): all 66 have a decoder
    * `Nxm`, `nxm_fieldDec` : every such TLV, with or without mask, is read back as its field, value and mask
    * `NxmRaw`, `nxmKind_raw` : the eleven fields without a Go type of their own (tun_id, ip_frag, ip_ecn, ip_ttl,
                         mpls_ttl, tcp_flags, dp_hash, recirc_id, tun_gbp_id, tun_gbp_flags, tun_flags): their payload is
                         kept in a `ByteArrayField` whose length comes from the TLV header, like tun_metadata / xxreg
                         (before the repair of `DecodeMatchField` their `case` had no body and the decoder panicked)
    * `NxmUnknown`, `field_nxmUnknown_err` : the field numbers of the class without a `case`: an error
    * `field_otherClass_panic` : a TLV of a class other than 0x8000 / 1 / 0xffff: `log.Panicf` — a PANIC
    * `match_fieldErr`, `match_fieldPanic` : a match in which such a TLV follows any list of decodable TLVs
  Used by OFV/Props/C04c.lean.
-/
import OFV.Model.All
import OFV.Lemmas.SwBasic
import OFV.Lemmas.SwMatch
import OFV.Lemmas.Size
import OFV.Lemmas.RTBasic
import OFV.Lemmas.Sw2Eth
import OFV.Lemmas.Sw2Match
import OFV.Lemmas.Sw2Instr
namespace OFV.Sw3
open OFV OFV.Go OFV.Model OFV.Sw2

/-! ### payload decoders that only the Nicira class uses -/

/-- `Uint16Message` (ct_zone): a 16-bit number -/
theorem payDec_u16msg (x : UInt16) : PayDec Uint16Message.zero (be16 x) (.obj "Uint16Message" [.num x.toNat]) := by
  refine ⟨?_, rfl, by simp⟩
  intro d hwf rest hb
  have hl : d.len = 2 + rest.length := by rw [← Sw.bytes_length d hwf, hb]; simp <;> omega
  show (if d.len < 2 then _ else d.u16In 0 2 >>= fun x => _) = _
  rw [if_neg (by omega), Sw.u16In_at d hwf 0 2 x rest (by omega) (by omega) (by rw [hb]; rfl)]
  rfl

/-- `CTLabel` (ct_label): 16 bytes -/
theorem payDec_label (b : Bytes) (hlen : b.length = 16) : PayDec CTLabel.zero b (.obj "CTLabel" [.bytes b]) := by
  refine ⟨?_, ?_, by omega⟩
  · intro d hwf rest hb
    show Res.ok (V.obj "CTLabel" [.bytes (makeCopy 16 d.bytes)]) = _
    rw [hb, RT.makeCopy_exact 16 b rest hlen]
  · rw [hlen]; rfl

/-- `TunnelIpv4SrcField` / `TunnelIpv4DstField`: an IPv4 address, which comes back in the 16-byte `net.IP` form -/
theorem payDec_tun4 (k : String) (hk : k = "TunnelIpv4SrcField" ∨ k = "TunnelIpv4DstField") (a b c e : UInt8) :
    PayDec (.obj k [.bytes []]) [a, b, c, e] (.obj k [.bytes (ipv4 a b c e)]) := by
  refine ⟨?_, ?_, by simp⟩
  · intro d hwf rest hb
    have hx := readIPv4_at d a b c e rest hb
    rcases hk with rfl | rfl
    · show (readIPv4 d >>= fun ip => _) = _; rw [hx]; rfl
    · show (readIPv4 d >>= fun ip => _) = _; rw [hx]; rfl
  · rcases hk with rfl | rfl <;> rfl

/-- `ByteArrayField` (tun_metadata, xxreg) whose expected length is the length of the payload: every byte is kept -/
theorem payDec_arr (b : Bytes) (hlen : b.length < 256) :
    PayDec (.obj "ByteArrayField" [.bytes [], .num b.length]) b (.obj "ByteArrayField" [.bytes b, .num b.length]) := by
  have hn : (n8 b.length).toNat = b.length := ofNat8_toNat _ hlen
  refine ⟨?_, ?_, hlen⟩
  · intro d hwf rest hb
    have hl : d.len = b.length + rest.length := by rw [← Sw.bytes_length d hwf, hb]; simp
    obtain ⟨t, e1, _, _, ht⟩ := Sw.uptoR_at d hwf b.length (by omega)
    show (if d.len < (n8 b.length).toNat then _ else d.uptoR (n8 b.length).toNat >>= fun s => _) = _
    rw [hn, if_neg (by omega), e1]
    simp only [Res.bind_ok, ht, hb, Sw.take_pre b rest _ rfl, RT.makeCopy_self _ b rfl]
    rfl
  · show same (n8 b.length).toUInt16 _ = _
    have : (n8 b.length).toUInt16 = UInt16.ofNat b.length := by
      apply UInt16.toNat_inj.mp
      rw [UInt8.toNat_toUInt16, hn, Sw.ofNat16_toNat _ (by omega)]
    rw [this]; rfl

/-! ### the fields of class NXM_1, by table -/

/-- shapes of Nicira payloads: those shared with the basic class, and the Nicira-only Go types -/
inductive NShape
  | std (s : Shape)
  | m16 | m32 | label | tun4 | arr
deriving DecidableEq

/-- a Nicira payload (value or mask) as Open vSwitch writes it -/
inductive NxmVal
  /-- a payload of one of the basic-class widths -/
  | std (v : OxmVal)
  /-- 16-bit number held in a `Uint16Message` (ct_zone) -/
  | m16 (x : UInt16)
  /-- 32-bit number held in a `Uint32Message` (registers, pkt_mark, conj_id, ct_state, ct_mark) -/
  | m32 (x : UInt32)
  /-- 128-bit connection-tracking label -/
  | label (b : Bytes)
  /-- tunnel endpoint IPv4 address -/
  | tun4 (a b c d : UInt8)
  /-- byte string whose length is taken from the TLV header (tun_metadata: up to 124 bytes; xxreg: 16 bytes; tun_id: 8;
      recirc_id, dp_hash: 4; tcp_flags, tun_gbp_id, tun_flags: 2; ip_frag, ip_ecn, ip_ttl, mpls_ttl, tun_gbp_flags: 1) -/
  | arr (b : Bytes)

namespace NxmVal
def shape : NxmVal → NShape
  | std v => .std v.shape | m16 _ => .m16 | m32 _ => .m32 | label _ => .label | tun4 .. => .tun4 | arr _ => .arr
/-- the bytes on the wire -/
def bytes : NxmVal → Bytes
  | std v => v.bytes | m16 x => be16 x | m32 x => be32 x | label b => b | tun4 a b c d => [a, b, c, d] | arr b => b
/-- lengths as specified; a byte array is short enough for value and mask to fit the 8-bit TLV length -/
def OK : NxmVal → Prop
  | std v => v.OK
  | label b => b.length = 16
  | arr b => b.length < 128
  | _ => True
/-- the decoded payload of Go type `k` -/
def toV (k : String) : NxmVal → V
  | std v => v.toV k
  | m16 x => .obj k [.num x.toNat]
  | m32 x => .obj k [.num x.toNat]
  | label b => .obj k [.bytes b]
  | tun4 a b c d => .obj k [.bytes (ipv4 a b c d)]
  | arr b => .obj k [.bytes b, .num b.length]
theorem bytes_length_lt (v : NxmVal) (h : v.OK) : v.bytes.length < 128 := by
  cases v with
  | std v => have := OxmVal.bytes_length_le v h; simp only [bytes]; omega
  | m16 x => simp [bytes]
  | m32 x => simp [bytes]
  | label b => simp only [bytes, OK] at *; omega
  | tun4 a b c d => simp [bytes]
  | arr b => exact h
end NxmVal

/-- Nicira extension `nxm_header` fields of class 1 (nicira-ext.h / meta-flow.h numbering): field number ↦ (Go type that
    holds the value, shape), for the 66 fields `DecodeMatchField` has a `case` for — each of them allocates a decoder.
    (The eleven fields held in a `ByteArrayField` for want of a Go type of their own: `NxmRaw`; no `case`: `NxmUnknown`.) -/
def nxmKind : Nat → Option (String × NShape)
  | 0 | 1 | 2 | 3 | 4 | 5 | 6 | 7 | 8 | 9 | 10 | 11 | 12 | 13 | 14 | 15 => some ("Uint32Message", .m32)   -- NXM_NX_REG0..15
  | 16 => some ("ByteArrayField", .arr)            -- NXM_NX_TUN_ID
  | 17 => some ("ArpXHaField", .std .mac)          -- NXM_NX_ARP_SHA
  | 18 => some ("ArpXHaField", .std .mac)          -- NXM_NX_ARP_THA
  | 19 => some ("Ipv6SrcField", .std .ip6)         -- NXM_NX_IPV6_SRC
  | 20 => some ("Ipv6DstField", .std .ip6)         -- NXM_NX_IPV6_DST
  | 21 => some ("IcmpTypeField", .std .u8)         -- NXM_NX_ICMPV6_TYPE
  | 22 => some ("IcmpCodeField", .std .u8)         -- NXM_NX_ICMPV6_CODE
  | 23 => some ("Ipv6DstField", .std .ip6)         -- NXM_NX_ND_TARGET
  | 24 => some ("EthDstField", .std .mac)          -- NXM_NX_ND_SLL (sic: the library stores it in an EthDstField)
  | 25 => some ("EthSrcField", .std .mac)          -- NXM_NX_ND_TLL (sic)
  | 26 => some ("ByteArrayField", .arr)            -- NXM_NX_IP_FRAG
  | 27 => some ("IPv6FlowLabelField", .std .u32)   -- NXM_NX_IPV6_LABEL
  | 28 | 29 | 30 => some ("ByteArrayField", .arr)  -- NXM_NX_IP_ECN, NXM_NX_IP_TTL, NXM_NX_MPLS_TTL
  | 31 => some ("TunnelIpv4SrcField", .tun4)       -- NXM_NX_TUN_IPV4_SRC
  | 32 => some ("TunnelIpv4DstField", .tun4)       -- NXM_NX_TUN_IPV4_DST
  | 33 => some ("Uint32Message", .m32)             -- NXM_NX_PKT_MARK
  | 34 | 35 | 36 => some ("ByteArrayField", .arr)  -- NXM_NX_TCP_FLAGS, NXM_NX_DP_HASH, NXM_NX_RECIRC_ID
  | 37 => some ("Uint32Message", .m32)             -- NXM_NX_CONJ_ID
  | 38 | 39 => some ("ByteArrayField", .arr)       -- NXM_NX_TUN_GBP_ID, NXM_NX_TUN_GBP_FLAGS
  | 40 | 41 | 42 | 43 | 44 | 45 | 46 | 47 => some ("ByteArrayField", .arr)    -- NXM_NX_TUN_METADATA0..7
  | 104 => some ("ByteArrayField", .arr)           -- NXM_NX_TUN_FLAGS
  | 105 => some ("Uint32Message", .m32)            -- NXM_NX_CT_STATE
  | 106 => some ("Uint16Message", .m16)            -- NXM_NX_CT_ZONE
  | 107 => some ("Uint32Message", .m32)            -- NXM_NX_CT_MARK
  | 108 => some ("CTLabel", .label)                -- NXM_NX_CT_LABEL
  | 109 => some ("Ipv6SrcField", .std .ip6)        -- NXM_NX_TUN_IPV6_SRC
  | 110 => some ("Ipv6DstField", .std .ip6)        -- NXM_NX_TUN_IPV6_DST
  | 111 | 112 | 113 | 114 => some ("ByteArrayField", .arr)                    -- NXM_NX_XXREG0..3
  | 119 => some ("IpProtoField", .std .u8)         -- NXM_NX_CT_NW_PROTO
  | 120 => some ("Ipv4SrcField", .std .ip4)        -- NXM_NX_CT_NW_SRC
  | 121 => some ("Ipv4DstField", .std .ip4)        -- NXM_NX_CT_NW_DST
  | 122 => some ("Ipv6SrcField", .std .ip6)        -- NXM_NX_CT_IPV6_SRC
  | 123 => some ("Ipv6DstField", .std .ip6)        -- NXM_NX_CT_IPV6_DST
  | 124 => some ("PortField", .std .u16)           -- NXM_NX_CT_TP_SRC
  | 125 => some ("PortField", .std .u16)           -- NXM_NX_CT_TP_DST
  | _ => none

/-- `new(T)` for the Go type `k`; for a byte array the expected length `n` is set from the TLV header -/
def nrecvOf (k : String) (n : Nat) : NShape → V
  | .std s => recvOf k s
  | .m16 => .obj k [.num 0]
  | .m32 => .obj k [.num 0]
  | .label => .obj k [.bytes (zeros 16)]
  | .tun4 => .obj k [.bytes []]
  | .arr => .obj k [.bytes [], .num n]

/-- the Go types that hold a payload of the given shape -/
def nkindOK (k : String) : NShape → Prop
  | .std s => kindOK k s
  | .m16 => k = "Uint16Message"
  | .m32 => k = "Uint32Message"
  | .label => k = "CTLabel"
  | .tun4 => k = "TunnelIpv4SrcField" ∨ k = "TunnelIpv4DstField"
  | .arr => k = "ByteArrayField"

theorem payDec_nval (k : String) (v : NxmVal) (hk : nkindOK k v.shape) (hok : v.OK) :
    PayDec (nrecvOf k v.bytes.length v.shape) v.bytes (v.toV k) := by
  cases v with
  | std v => exact payDec_val k v hk hok
  | m16 x => cases hk; exact payDec_u16msg x
  | m32 x => cases hk; exact payDec_u32msg x
  | label b => cases hk; exact payDec_label b hok
  | tun4 a b c d => exact payDec_tun4 k hk a b c d
  | arr b => cases hk; exact payDec_arr b (by simp only [NxmVal.OK] at hok; omega)

/-- the receiver `DecodeMatchField` prepares for a field of shape `sh` when the TLV header says `ln` payload bytes:
    a byte array expects `ln` bytes without mask and `ln / 2` (in uint8) with mask -/
def nrecvAt (k : String) (sh : NShape) (ln : Nat) (hm : Bool) : V :=
  nrecvOf k (if hm then (n8 ln / 2).toNat else (n8 ln).toNat) sh

/-- for every field of the table, `DecodeMatchField` runs the decoder of the Go type the table names -/
theorem nxm_recv (f : Nat) (k : String) (sh : NShape) (h : nxmKind f = some (k, sh)) :
    (∀ ln hm d, DecodeMatchField 1 f ln hm d = MatchPayload.unmarshal (nrecvAt k sh ln hm) d) ∧ f < 128 ∧ nkindOK k sh := by
  unfold nxmKind at h
  split at h <;> first
    | (cases h; exact ⟨fun _ hm _ => by cases hm <;> rfl, by decide, by simp [nkindOK, kindOK]⟩)
    | cases h

/-- one OXM TLV of class NXM_1: field number, value, optional mask -/
structure Nxm where
  field : Nat
  value : NxmVal
  mask : Option NxmVal

namespace Nxm
/-- the field is in the table, the value has the field's shape, a mask has the value's shape and length -/
def WF (o : Nxm) : Prop :=
  ∃ k, nxmKind o.field = some (k, o.value.shape) ∧ o.value.OK ∧
    ∀ m, o.mask = some m → m.shape = o.value.shape ∧ m.OK ∧ m.bytes.length = o.value.bytes.length
/-- the Go type of the payload -/
def kind (o : Nxm) : String :=
  match nxmKind o.field with
  | some (k, _) => k
  | none => ""
/-- the TLV on the wire: class 1, field(7 bits) hasmask(1), length = payload bytes, value, mask -/
def bytes (o : Nxm) : Bytes :=
  match o.mask with
  | none => be16 1 ++ ([UInt8.ofNat (2 * o.field), UInt8.ofNat o.value.bytes.length] ++ o.value.bytes)
  | some m => be16 1 ++ ([UInt8.ofNat (2 * o.field + 1), UInt8.ofNat (o.value.bytes.length + m.bytes.length)]
      ++ (o.value.bytes ++ m.bytes))
/-- the decoded `MatchField(Class,Field,HasMask,Length,ExperimenterID,Value,Mask)` -/
def toV (o : Nxm) : V :=
  match o.mask with
  | none => .obj "MatchField" [.num 1, .num o.field, .num 0, .num o.value.bytes.length, .num 0, o.value.toV o.kind, .nil]
  | some m => .obj "MatchField" [.num 1, .num o.field, .num 1, .num (o.value.bytes.length + m.bytes.length), .num 0,
      o.value.toV o.kind, m.toV o.kind]
end Nxm

/-- every well-formed class-1 TLV of a field with a decoder is read back as its field number, mask flag, length, value
    and mask -/
theorem nxm_fieldDec (o : Nxm) (h : o.WF) : FieldDec o.bytes o.toV := by
  obtain ⟨k, hk, hok, hm⟩ := h
  obtain ⟨hrecv, hf, hkind⟩ := nxm_recv o.field k o.value.shape hk
  have hkk : o.kind = k := by unfold Nxm.kind; rw [hk]
  have hvl := NxmVal.bytes_length_lt o.value hok
  cases hmask : o.mask with
  | none =>
    have hn : (n8 (UInt8.ofNat o.value.bytes.length).toNat).toNat = o.value.bytes.length := by
      rw [ofNat8_toNat _ (by omega)]; exact ofNat8_toNat _ (by omega)
    have := field_nomask 1 o.field hf (UInt8.ofNat o.value.bytes.length) (nrecvOf k o.value.bytes.length o.value.shape)
      o.value.bytes (o.value.toV k) (by decide)
      (fun d => by rw [show (1 : UInt16).toNat = 1 from rfl, hrecv]; unfold nrecvAt; rw [if_neg (by decide), hn])
      (payDec_nval k o.value hkind hok)
    rw [ofNat8_toNat _ (by omega)] at this
    unfold Nxm.bytes Nxm.toV
    rw [hmask, hkk]
    exact this
  | some m =>
    obtain ⟨hms, hmok, hml⟩ := hm m hmask
    have hn : (n8 (UInt8.ofNat (o.value.bytes.length + m.bytes.length)).toNat / 2).toNat = o.value.bytes.length := by
      rw [ofNat8_toNat _ (by omega), UInt8.toNat_div]
      have h2 : (n8 (o.value.bytes.length + m.bytes.length)).toNat = o.value.bytes.length + m.bytes.length :=
        ofNat8_toNat _ (by omega)
      show (n8 (o.value.bytes.length + m.bytes.length)).toNat / 2 = _
      rw [h2]; omega
    have := field_mask 1 o.field hf (UInt8.ofNat (o.value.bytes.length + m.bytes.length))
      (nrecvOf k o.value.bytes.length o.value.shape) o.value.bytes m.bytes (o.value.toV k) (m.toV k) (by decide)
      (fun d => by rw [show (1 : UInt16).toNat = 1 from rfl, hrecv]; unfold nrecvAt; rw [if_pos rfl, hn])
      (payDec_nval k o.value hkind hok)
      (by rw [← hms, ← hml]; exact payDec_nval k m (by rw [hms]; exact hkind) hmok)
    rw [ofNat8_toNat _ (by omega)] at this
    unfold Nxm.bytes Nxm.toV
    rw [hmask, hkk]
    exact this

/-! ### the eleven class-1 fields held in a byte array; class-1 field numbers without a `case`; other classes -/

/-- the eleven fields of class NXM_1 the library has no Go type for: tun_id 16, ip_frag 26, ip_ecn 28, ip_ttl 29,
    mpls_ttl 30, tcp_flags 34, dp_hash 35, recirc_id 36, tun_gbp_id 38, tun_gbp_flags 39, tun_flags 104.
    `DecodeMatchField` decodes their payload into a `ByteArrayField` of the length the TLV header gives (half of it
    with a mask).  (Before the repair their `case` had no body: `val` stayed a nil interface and the decoder panicked.) -/
def NxmRaw (f : Nat) : Prop :=
  f = 16 ∨ f = 26 ∨ f = 28 ∨ f = 29 ∨ f = 30 ∨ f = 34 ∨ f = 35 ∨ f = 36 ∨ f = 38 ∨ f = 39 ∨ f = 104

instance (f : Nat) : Decidable (NxmRaw f) := by unfold NxmRaw; infer_instance

/-- each of the eleven fields is in the table, with the byte-array kind -/
theorem nxmKind_raw (f : Nat) (hf : NxmRaw f) : nxmKind f = some ("ByteArrayField", .arr) := by
  rcases hf with h | h | h | h | h | h | h | h | h | h | h <;> subst h <;> rfl

/-- the class-1 TLV of one of these fields (or of tun_metadata / xxreg) holding the bytes `data`, with an optional mask -/
def rawNxm (f : Nat) (data : Bytes) (mask : Option Bytes) : Nxm := ⟨f, .arr data, mask.map .arr⟩

theorem rawNxm_wf (f : Nat) (hf : nxmKind f = some ("ByteArrayField", .arr)) (data : Bytes) (hl : data.length < 128)
    (mask : Option Bytes) (hm : ∀ m, mask = some m → m.length = data.length) : (rawNxm f data mask).WF := by
  refine ⟨"ByteArrayField", hf, hl, ?_⟩
  intro m hmm
  cases mask with
  | none => cases hmm
  | some mb =>
    cases hmm
    have := hm mb rfl
    exact ⟨rfl, by show mb.length < 128; omega, this⟩

/-- all field numbers of class NXM_1 that `DecodeMatchField` has a `case` for -/
def nxmCases : List Nat :=
  [0, 1, 2, 3, 4, 5, 6, 7, 8, 9, 10, 11, 12, 13, 14, 15, 16, 17, 18, 19, 20, 21, 22, 23, 24, 25, 26, 27, 28, 29, 30, 31, 32, 33,
   34, 35, 36, 37, 38, 39, 40, 41, 42, 43, 44, 45, 46, 47, 104, 105, 106, 107, 108, 109, 110, 119, 120, 121, 122, 123, 125,
   124, 111, 112, 113, 114]

/-- a 7-bit field number of class NXM_1 without a `case` (48..103, 115..118, 126, 127) -/
def NxmUnknown (f : Nat) : Prop := f < 128 ∧ f ∉ nxmCases

instance (f : Nat) : Decidable (NxmUnknown f) := by unfold NxmUnknown; infer_instance

theorem fld_any (f : Nat) (hf : f < 128) (m : Nat) (hm : m < 2) : ((UInt8.ofNat (2 * f + m)) >>> 1).toNat = f := by
  rw [UInt8.toNat_shiftRight, UInt8.toNat_ofNat']
  show ((2 * f + m) % 256) >>> 1 = f
  rw [Nat.shiftRight_eq_div_pow]; omega

theorem lookup_none {β} (l : List (Nat × β)) (f : Nat) (h : f ∉ l.map Prod.fst) : l.lookup f = none := by
  induction l with
  | nil => rfl
  | cons p l ih =>
    obtain ⟨a, b⟩ := p
    simp only [List.map_cons, List.mem_cons, not_or] at h
    have hne : (f == a) = false := by simpa using h.1
    simp only [List.lookup, hne]
    exact ih h.2

/-- a class-1 TLV of a field number without a `case`: the field decoder returns an error -/
theorem field_nxmUnknown_err (f : Nat) (hf : NxmUnknown f) (m : Nat) (hm : m < 2) (ln : UInt8) (d : Slice) (hwf : d.WF)
    (rest : Bytes) (hb : d.bytes = be16 1 ++ ([UInt8.ofNat (2 * f + m), ln] ++ rest)) :
    MatchField.unmarshal MatchField.zero d = .err := by
  have hl : d.len = 4 + rest.length := by rw [← Sw.bytes_length d hwf, hb]; simp; omega
  obtain ⟨d4, e1, _, _, _⟩ := Sw.fromR_at d hwf 4 (by omega)
  have hfld := fld_any f hf.1 m hm
  have hdecode : ∀ hmask, DecodeMatchField 1 f ln.toNat hmask d4 = .err := by
    intro hmask
    have hk : (nxm1FieldTable ln.toNat hmask).map Prod.fst = nxmCases := rfl
    have hlk : (nxm1FieldTable ln.toNat hmask).lookup f = none := lookup_none _ f (by rw [hk]; exact hf.2)
    unfold DecodeMatchField decTarget
    rw [if_neg (by decide), if_pos (show 1 = Gen.openflow13.OXM_CLASS_NXM_1 from rfl), hlk]
  unfold MatchField.unmarshal MatchField.zero
  simp only [Sw.u16From_at d 0 1 _ hb, Sw.byteAt_at d 2 (UInt8.ofNat (2 * f + m)) _ (by rw [hb]; rfl),
    Sw.byteAt_at d 3 ln _ (by rw [hb]; rfl), Res.bind_ok, hfld]
  rw [if_neg (by decide)]
  show (d.fromR 4 >>= fun d2 => DecodeMatchField 1 f ln.toNat _ d2 >>= _) = _
  rw [e1]
  simp only [Res.bind_ok, hdecode]
  rfl

/-- a TLV of a class `DecodeMatchField` does not know — any class but OPENFLOW_BASIC 0x8000, NXM_1 1, EXPERIMENTER 0xffff
    (NXM_0 0, the reserved classes …): `log.Panicf("Unsupported match field …")` — the field decoder PANICS, whatever the
    field byte, the length byte and the payload -/
theorem field_otherClass_panic (cls : UInt16) (h0 : cls.toNat ≠ 0x8000) (h1 : cls.toNat ≠ 1) (h2 : cls.toNat ≠ 0xffff)
    (fld ln : UInt8) (d : Slice) (hwf : d.WF) (rest : Bytes) (hb : d.bytes = be16 cls ++ ([fld, ln] ++ rest)) :
    MatchField.unmarshal MatchField.zero d = .panic := by
  have hl : d.len = 4 + rest.length := by rw [← Sw.bytes_length d hwf, hb]; simp; omega
  obtain ⟨d4, e1, _, _, _⟩ := Sw.fromR_at d hwf 4 (by omega)
  have hdecode : ∀ f l hmask, DecodeMatchField cls.toNat f l hmask d4 = .panic := by
    intro f l hmask
    unfold DecodeMatchField
    rw [if_neg (show ¬ cls.toNat = Gen.openflow13.OXM_CLASS_OPENFLOW_BASIC from h0),
      if_neg (show ¬ cls.toNat = Gen.openflow13.OXM_CLASS_NXM_1 from h1),
      if_neg (show ¬ cls.toNat = Gen.openflow13.OXM_CLASS_EXPERIMENTER from h2)]
  unfold MatchField.unmarshal MatchField.zero
  simp only [Sw.u16From_at d 0 cls _ hb, Sw.byteAt_at d 2 fld _ (by rw [hb]; rfl),
    Sw.byteAt_at d 3 ln _ (by rw [hb]; rfl), Res.bind_ok]
  rw [if_neg (show ¬ cls.toNat = Gen.openflow13.OXM_CLASS_EXPERIMENTER from h2)]
  show (d.fromR 4 >>= fun d2 => DecodeMatchField cls.toNat _ ln.toNat _ d2 >>= _) = _
  rw [e1]
  simp only [Res.bind_ok, hdecode]
  rfl

/-! ### a match in which a TLV the field decoder fails on follows decodable TLVs -/

/-- the field decoder returns an error on the TLV header `bad`, whatever follows -/
def FieldErr (bad : Bytes) : Prop :=
  ∀ d : Slice, d.WF → ∀ rest, d.bytes = bad ++ rest → MatchField.unmarshal MatchField.zero d = .err

/-- the field decoder panics on the TLV header `bad`, whatever follows -/
def FieldPanic (bad : Bytes) : Prop :=
  ∀ d : Slice, d.WF → ∀ rest, d.bytes = bad ++ rest → MatchField.unmarshal MatchField.zero d = .panic

theorem fieldErr_basic (f : Nat) (hf : Unsupported f) (m : Nat) (hm : m < 2) (ln : UInt8) :
    FieldErr (be16 0x8000 ++ [UInt8.ofNat (2 * f + m), ln]) :=
  fun d hwf rest hb => field_unsupported f hf m hm ln d hwf rest (by rw [hb]; simp only [List.append_assoc])

theorem fieldErr_nxmUnknown (f : Nat) (hf : NxmUnknown f) (m : Nat) (hm : m < 2) (ln : UInt8) :
    FieldErr (be16 1 ++ [UInt8.ofNat (2 * f + m), ln]) :=
  fun d hwf rest hb => field_nxmUnknown_err f hf m hm ln d hwf rest (by rw [hb]; simp only [List.append_assoc])

theorem fieldPanic_otherClass (cls : UInt16) (h0 : cls.toNat ≠ 0x8000) (h1 : cls.toNat ≠ 1) (h2 : cls.toNat ≠ 0xffff)
    (fld ln : UInt8) : FieldPanic (be16 cls ++ [fld, ln]) :=
  fun d hwf rest hb => field_otherClass_panic cls h0 h1 h2 fld ln d hwf rest (by rw [hb]; simp only [List.append_assoc])

/-- a match whose TLVs are a decodable prefix followed by a TLV the field decoder returns an error on: the decoder stops
    there, keeps the fields read so far, and reports an error -/
theorem match_fieldErrP (a b : V) (fs : List (Bytes × V)) (h : ∀ p ∈ fs, FieldDec p.1 p.2) (bad : Bytes)
    (hbad : FieldErr bad) (mlen : UInt16) (tail : Bytes) (dm : Slice) (hwf : dm.WF)
    (hlen : 4 + (tlvCat fs).length < mlen.toNat)
    (hb : dm.bytes = be16 1 ++ (be16 mlen ++ (tlvCat fs ++ (bad ++ tail)))) :
    Match.unmarshalP (.obj "Match" [a, b, .list []]) dm
      = .ok (.obj "Match" [.num 1, .num mlen.toNat, .list (fs.map Prod.snd)], true) := by
  have hl : dm.len = 4 + (tlvCat fs).length + (bad.length + tail.length) := by
    rw [← Sw.bytes_length dm hwf, hb]; simp; omega
  have hge := tlvCat_len_ge fs h
  obtain ⟨d, e1, hdwf, _, hd⟩ := Sw.fromR_at dm hwf (4 + (tlvCat fs).length) (by omega)
  have hd' : d.bytes = bad ++ tail := by
    rw [hd, hb, ← List.drop_drop]
    show List.drop (tlvCat fs).length (tlvCat fs ++ _) = _
    simp
  have hbad' := hbad d hdwf tail hd'
  have hfuel : dm.len + 2 = fs.length + ((dm.len - fs.length) + 1 + 1) := by omega
  unfold Match.unmarshalP
  simp only [Sw.u16From_at dm 0 1 _ hb, Sw.u16From_at dm 2 mlen _ (by rw [hb]; rfl), Res.bind_ok]
  rw [hfuel, fields_prefix dm hwf mlen _ _
    (by
      intro s d f f' l h1 h2 h3
      simp only [h1, Res.bind_ok, h2, h3]
      rfl)
    fs h 4 [] _ (by rw [hb]; rfl) (by omega)]
  rw [Sw.goLoop_step _ _ _ _ _ ⟨4 + (tlvCat fs).length, [] ++ fs.map Prod.snd, true⟩
      (by simp; omega)
      (by simp only [e1, Res.bind_ok, hbad']; rfl)
      (by show 4 + (tlvCat fs).length + 0 < 4 + (tlvCat fs).length + 1; omega),
    Sw.goLoop_stop _ _ _ _ _ (by rfl)]
  rfl

/-- … so `Match.UnmarshalBinary` returns an error -/
theorem match_fieldErr (a b : V) (fs : List (Bytes × V)) (h : ∀ p ∈ fs, FieldDec p.1 p.2) (bad : Bytes)
    (hbad : FieldErr bad) (mlen : UInt16) (tail : Bytes) (dm : Slice) (hwf : dm.WF)
    (hlen : 4 + (tlvCat fs).length < mlen.toNat)
    (hb : dm.bytes = be16 1 ++ (be16 mlen ++ (tlvCat fs ++ (bad ++ tail)))) :
    Match.unmarshal (.obj "Match" [a, b, .list []]) dm = .err := by
  unfold Match.unmarshal
  rw [match_fieldErrP a b fs h bad hbad mlen tail dm hwf hlen hb]

/-- a match whose TLVs are a decodable prefix followed by a TLV the field decoder PANICS on: the match decoder panics -/
theorem match_fieldPanicP (a b : V) (fs : List (Bytes × V)) (h : ∀ p ∈ fs, FieldDec p.1 p.2) (bad : Bytes)
    (hbad : FieldPanic bad) (mlen : UInt16) (tail : Bytes) (dm : Slice) (hwf : dm.WF)
    (hlen : 4 + (tlvCat fs).length < mlen.toNat)
    (hb : dm.bytes = be16 1 ++ (be16 mlen ++ (tlvCat fs ++ (bad ++ tail)))) :
    Match.unmarshalP (.obj "Match" [a, b, .list []]) dm = .panic := by
  have hl : dm.len = 4 + (tlvCat fs).length + (bad.length + tail.length) := by
    rw [← Sw.bytes_length dm hwf, hb]; simp; omega
  have hge := tlvCat_len_ge fs h
  obtain ⟨d, e1, hdwf, _, hd⟩ := Sw.fromR_at dm hwf (4 + (tlvCat fs).length) (by omega)
  have hd' : d.bytes = bad ++ tail := by
    rw [hd, hb, ← List.drop_drop]
    show List.drop (tlvCat fs).length (tlvCat fs ++ _) = _
    simp
  have hbad' := hbad d hdwf tail hd'
  have hfuel : dm.len + 2 = fs.length + ((dm.len - fs.length) + 1 + 1) := by omega
  unfold Match.unmarshalP
  simp only [Sw.u16From_at dm 0 1 _ hb, Sw.u16From_at dm 2 mlen _ (by rw [hb]; rfl), Res.bind_ok]
  rw [hfuel, fields_prefix dm hwf mlen _ _
    (by
      intro s d f f' l h1 h2 h3
      simp only [h1, Res.bind_ok, h2, h3]
      rfl)
    fs h 4 [] _ (by rw [hb]; rfl) (by omega)]
  rw [goLoop_panic _ _ _ _ _ (by simp; omega) (by simp only [e1, Res.bind_ok, hbad'])]
  rfl

theorem match_fieldPanic (a b : V) (fs : List (Bytes × V)) (h : ∀ p ∈ fs, FieldDec p.1 p.2) (bad : Bytes)
    (hbad : FieldPanic bad) (mlen : UInt16) (tail : Bytes) (dm : Slice) (hwf : dm.WF)
    (hlen : 4 + (tlvCat fs).length < mlen.toNat)
    (hb : dm.bytes = be16 1 ++ (be16 mlen ++ (tlvCat fs ++ (bad ++ tail)))) :
    Match.unmarshal (.obj "Match" [a, b, .list []]) dm = .panic := by
  unfold Match.unmarshal
  rw [match_fieldPanicP a b fs h bad hbad mlen tail dm hwf hlen hb]

end OFV.Sw3
