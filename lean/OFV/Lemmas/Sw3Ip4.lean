/-
  OFV.Lemmas.Sw3Ip4 — decoding the specification's byte layout of an IPv4 packet whose header carries OPTIONS
  (RFC 791: IHL 5..15, header of IHL·4 bytes): the option bytes are kept as the opaque options buffer, the payload
  starts right behind them.  Generic in the payload (`Sw2.Dec (Sw2.ip4Data proto) …`).  Used by OFV/Props/C04c.lean.
-/
import OFV.Model.All
import OFV.Lemmas.SwBasic
import OFV.Lemmas.SwMatch
import OFV.Lemmas.RTBasic
import OFV.Lemmas.Sw2Eth
namespace OFV.Sw3
open OFV OFV.Go OFV.Model OFV.Sw2

/-- IPv4 header with any header length the IHL nibble can express (5..15 words): version/IHL(1), DSCP/ECN(1), total
    length(2), identification(2), flags/fragment offset(2), TTL(1), protocol(1), header checksum(2), source(4),
    destination(4), options (4·(IHL − 5) bytes), payload -/
theorem ipv4_opts_dec (b0 b1 : UInt8) (totalLen ident flagsFrag : UInt16) (ttl proto : UInt8) (cs : UInt16)
    (src dst opts : Bytes) (pb : Bytes) (pv : V) (ihl : Nat) (hihl : b0.toNat % 16 = ihl) (h5 : 5 ≤ ihl)
    (hsrc : src.length = 4) (hdst : dst.length = 4) (hopts : opts.length = 4 * (ihl - 5))
    (hp : Dec (ip4Data proto) pb pv) :
    Dec (PIPv4.unmarshal PIPv4.zero)
      ([b0, b1] ++ (be16 totalLen ++ (be16 ident ++ (be16 flagsFrag ++ ([ttl, proto] ++ (be16 cs ++ (src ++ (dst ++ (opts ++ pb)))))))))
      (.obj "p.IPv4" [.num (b0.toNat / 16), .num ihl, .num (b1.toNat / 4), .num (b1.toNat % 4), .num totalLen.toNat,
        .num ident.toNat, .num (flagsFrag.toNat / 8192), .num (flagsFrag.toNat % 8192), .num ttl.toNat, .num proto.toNat,
        .num cs.toNat, .bytes src, .bytes dst, .obj "u.Buffer" [.bytes opts], pv]) := by
  intro r hwf hb
  obtain ⟨s0, s1, s2, s3, rfl⟩ := Sw.len4 src hsrc
  obtain ⟨d0, d1, d2, d3, rfl⟩ := Sw.len4 dst hdst
  have h15 : ihl < 16 := by omega
  have hl : r.len = 20 + opts.length + pb.length := by rw [← Sw.bytes_length r hwf, hb]; simp; omega
  obtain ⟨x, hx⟩ : ∃ x, PIPv4.unpackIHL b0 = x := ⟨_, rfl⟩
  have hxn : x.toNat = ihl := by rw [← hx, v4_ihl, hihl]
  have hx4 : (x * 4).toNat = ihl * 4 := by
    rw [UInt8.toNat_mul, hxn]; show ihl * 4 % 256 = _; omega
  have hge : ¬ x < 5 := by
    rw [UInt8.lt_iff_toNat_lt, hxn]; show ¬ ihl < 5; omega
  obtain ⟨t1, e1, _, _, ht1⟩ := Sw.sliceR_at r hwf 12 16 (by omega) (by omega)
  obtain ⟨t2, e2, _, _, ht2⟩ := Sw.sliceR_at r hwf 16 20 (by omega) (by omega)
  obtain ⟨t3, e3, _, _, ht3⟩ := Sw.sliceR_at r hwf 20 (ihl * 4) (by omega) (by omega)
  obtain ⟨rest, e4, hrwf, _, hrest⟩ := Sw.fromR_at r hwf (ihl * 4) (by omega)
  rw [hb] at ht1 ht2 ht3 hrest
  have ht3' : t3.bytes = opts := by
    rw [ht3]
    show List.take (ihl * 4 - 20) (opts ++ pb) = opts
    exact Sw.take_pre _ _ _ (by omega)
  have hrest' : rest.bytes = pb := by
    rw [hrest, show ihl * 4 = 20 + opts.length by omega, ← List.drop_drop]
    show List.drop opts.length (opts ++ pb) = pb
    simp
  have hpay := hp rest hrwf hrest'
  unfold ip4Data at hpay
  unfold PIPv4.unmarshal
  rw [if_neg (by omega)]
  simp only [Sw.byteAt_at r 0 b0 _ (by rw [hb]; rfl), Sw.byteAt_at r 1 b1 _ (by rw [hb]; rfl),
    Sw.u16From_at r 2 totalLen _ (by rw [hb]; rfl), Sw.u16From_at r 4 ident _ (by rw [hb]; rfl),
    Sw.u16From_at r 6 flagsFrag _ (by rw [hb]; rfl), Sw.byteAt_at r 8 ttl _ (by rw [hb]; rfl),
    Sw.byteAt_at r 9 proto _ (by rw [hb]; rfl), Sw.u16From_at r 10 cs _ (by rw [hb]; rfl), e1, e2, Res.bind_ok, hx]
  rw [if_neg (by simp only [Bool.or_eq_true, decide_eq_true_eq, not_or]; exact ⟨hge, by rw [hxn, hl]; omega⟩)]
  simp only [hx4, e3, Res.bind_ok, UBuffer.unmarshal, UBuffer.mk, e4, Res.pure_eq, V.u8, V.u16, v4_ver, v4_dscp, v4_ecn,
    v4_flags, v4_frag, ht1, ht2, ht3', hxn]
  by_cases c1 : proto.toNat = Gen.protocol.Type_ICMP
  · rw [if_pos c1] at hpay ⊢; rw [hpay]; rfl
  · rw [if_neg c1] at hpay ⊢
    by_cases c2 : proto.toNat = Gen.protocol.Type_UDP
    · rw [if_pos c2] at hpay ⊢; rw [hpay]; rfl
    · rw [if_neg c2] at hpay ⊢
      unfold UBuffer.unmarshal UBuffer.mk at hpay
      cases hpay; rfl

end OFV.Sw3
