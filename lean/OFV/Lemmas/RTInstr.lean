/-
  OFV.Lemmas.RTInstr — round trip of InstrGotoTable / InstrWriteMetadata / InstrMeter through DecodeInstr.  Used by OFV/Props/C05.lean.
-/
import OFV.Model.All
import OFV.Lemmas.Size
import OFV.Lemmas.RTBasic
import OFV.Lemmas.RTPayload
import OFV.Lemmas.RTMatch
import OFV.Lemmas.RTAction
namespace OFV.RT
set_option linter.unusedSimpArgs false
open OFV OFV.Go OFV.Model OFV.Model.InstrAux

theorem makeCopy_zeros (n k : Nat) : makeCopy n (zeros k) = zeros n := by
  simp only [makeCopy, copyInto, zeros, List.take_replicate, List.drop_replicate, List.length_replicate,
    List.replicate_append_replicate]
  congr 1
  omega

/-- `instr.InstrHeader.UnmarshalBinary(data[:4])` -/
theorem instrHeader_unmarshal4 (recv : V) (data : Slice) (hd : data.WF) (ty ln : Nat) (hty : ty < 65536)
    (hln : ln < 65536) (rest : Bytes) (hb : data.bytes = be16 (n16 ty) ++ be16 (n16 ln) ++ rest) :
    InstrHeader.unmarshal4 recv data = .ok (.obj "InstrHeader" [.num ty, .num ln]) := by
  have hlen := Slice.len_ge_of_bytes data _ _ hb
  simp only [List.length_append, be16_length] at hlen
  obtain ⟨t, ht1, ht2, ht3⟩ := Slice.uptoR_bytes data hd 4 (by omega)
  have htwf : t.WF := (Slice.sliceR_wf data 0 4 t ht1).1
  have htb : t.bytes = be16 (n16 ty) ++ be16 (n16 ln) := by rw [ht2, hb]; rfl
  unfold InstrHeader.unmarshal4
  rw [ht1]
  simp only [Res.bind_ok, InstrHeader.unmarshal, ht3]
  have e0 : rd16 ((t.bytes.drop 0).take (2 - 0)) = some (n16 ty) := by
    rw [htb]; exact rd16_be16' _
  have e2 : rd16 ((t.bytes.drop 2).take (4 - 2)) = some (n16 ln) := by
    rw [htb]
    have : (List.drop 2 (be16 (n16 ty) ++ be16 (n16 ln))).take (4 - 2) = be16 (n16 ln) := rfl
    rw [this]; exact rd16_be16' _
  simp only [ne_eq, not_true_eq_false, if_false, Slice.u16In_eq t htwf 0 2 (by omega) (by omega),
    Slice.u16In_eq t htwf 2 4 (by omega) (by omega), e0, e2, Res.ofOption, Res.bind_ok, Res.pure_eq, catchErr,
    u16_n16 ty hty, u16_n16 ln hln]

theorem instr_type (data : Slice) (hd : data.WF) (ty : Nat) (rest : Bytes) (hb : data.bytes = be16 (n16 ty) ++ rest) :
    data.u16In 0 2 = .ok (n16 ty) := by
  have hlen := Slice.len_ge_of_bytes data _ _ hb
  simp only [be16_length] at hlen
  have e0 : rd16 ((data.bytes.drop 0).take (2 - 0)) = some (n16 ty) := by
    rw [hb]; exact rd16_be16' _
  simp only [Slice.u16In_eq data hd 0 2 (by omega) (by omega), e0, Res.ofOption]

/-- InstrGotoTable: the unexported pad (nil or zero bytes) comes back nil -/
theorem instrGotoTable_rt (ln tid kp : Nat) (hln : ln < 65536) (htid : tid < 256) :
    let v := V.obj "InstrGotoTable" [.obj "InstrHeader" [.num Gen.openflow13.InstrType_GOTO_TABLE, .num ln], .num tid, .bytes (zeros kp)]
    let v' := V.obj "InstrGotoTable" [.obj "InstrHeader" [.num Gen.openflow13.InstrType_GOTO_TABLE, .num ln], .num tid, .bytes []]
    let bs := be16 (n16 Gen.openflow13.InstrType_GOTO_TABLE) ++ be16 (n16 ln) ++ [n8 tid, 0, 0, 0]
    Instruction.marshalM v = .ok (bs, v) ∧ Instruction.lenM v = .ok (8, v) ∧
    ∀ (data : Slice) (tail : Bytes), data.WF → data.bytes = bs ++ tail → DecodeInstr data = .ok v' := by
  intro v v' bs
  refine ⟨?_, rfl, ?_⟩
  · simp only [v, Instruction.marshalM, V.kind, InstrGotoTable.marshalM, InstrHeader.bytes, Res.bind_ok, makeCopy_zeros, same, bs]
    simp [zeros]
  · intro data tail hd hb
    have hlen := Slice.len_ge_of_bytes data _ _ hb
    have hlen8 : 8 ≤ data.len := by
      have : bs.length = 8 := rfl
      omega
    unfold DecodeInstr
    rw [instr_type data hd Gen.openflow13.InstrType_GOTO_TABLE (be16 (n16 ln) ++ ([n8 tid, 0, 0, 0] ++ tail))
      (by rw [hb]; simp only [bs, List.append_assoc])]
    have ht : (n16 Gen.openflow13.InstrType_GOTO_TABLE).toNat = Gen.openflow13.InstrType_GOTO_TABLE := by decide
    simp only [Res.bind_ok, ht, if_true, InstrGotoTable.unmarshal, InstrGotoTable.zero, InstrHeader.zero]
    rw [instrHeader_unmarshal4 _ data hd Gen.openflow13.InstrType_GOTO_TABLE ln (by decide) hln ([n8 tid, 0, 0, 0] ++ tail)
      (by rw [hb]; simp only [bs, List.append_assoc])]
    have e4 : data.bytes[4]? = some (n8 tid) := by rw [hb]; rfl
    obtain ⟨s, hs1, _, _⟩ := Slice.sliceR_bytes data hd 5 8 (by omega) (by omega)
    simp only [Res.bind_ok, Slice.byteAt_eq, e4, Res.ofOption, hs1, Res.pure_eq, catchErr, u8_n8 tid htid]
    simp [copyInto, v']

/-- InstrWriteMetadata: the unexported pad (nil or zero bytes) comes back nil -/
theorem instrWriteMetadata_rt (ln md mk kp : Nat) (hln : ln < 65536) (hmd : md < 18446744073709551616)
    (hmk : mk < 18446744073709551616) :
    let v := V.obj "InstrWriteMetadata" [.obj "InstrHeader" [.num Gen.openflow13.InstrType_WRITE_METADATA, .num ln],
      .bytes (zeros kp), .num md, .num mk]
    let v' := V.obj "InstrWriteMetadata" [.obj "InstrHeader" [.num Gen.openflow13.InstrType_WRITE_METADATA, .num ln],
      .bytes [], .num md, .num mk]
    let bs := be16 (n16 Gen.openflow13.InstrType_WRITE_METADATA) ++ be16 (n16 ln) ++ zeros 4 ++ be64 (n64 md) ++ be64 (n64 mk)
    Instruction.marshalM v = .ok (bs, v) ∧ Instruction.lenM v = .ok (24, v) ∧
    ∀ (data : Slice) (tail : Bytes), data.WF → data.bytes = bs ++ tail → DecodeInstr data = .ok v' := by
  intro v v' bs
  refine ⟨?_, rfl, ?_⟩
  · simp only [v, Instruction.marshalM, V.kind, InstrWriteMetadata.marshalM, InstrHeader.bytes, Res.bind_ok, makeCopy_zeros, same, bs]
  · intro data tail hd hb
    have hlen := Slice.len_ge_of_bytes data _ _ hb
    have hlen24 : 24 ≤ data.len := by
      have : bs.length = 24 := rfl
      omega
    unfold DecodeInstr
    rw [instr_type data hd Gen.openflow13.InstrType_WRITE_METADATA (be16 (n16 ln) ++ (zeros 4 ++ (be64 (n64 md) ++ (be64 (n64 mk) ++ tail))))
      (by rw [hb]; simp only [bs, List.append_assoc])]
    have ht : (n16 Gen.openflow13.InstrType_WRITE_METADATA).toNat = Gen.openflow13.InstrType_WRITE_METADATA := by decide
    have hne : ¬ Gen.openflow13.InstrType_WRITE_METADATA = Gen.openflow13.InstrType_GOTO_TABLE := by decide
    simp only [Res.bind_ok, ht, hne, if_false, if_true, InstrWriteMetadata.unmarshal, InstrWriteMetadata.zero, InstrHeader.zero]
    rw [instrHeader_unmarshal4 _ data hd Gen.openflow13.InstrType_WRITE_METADATA ln (by decide) hln
      (zeros 4 ++ (be64 (n64 md) ++ (be64 (n64 mk) ++ tail))) (by rw [hb]; simp only [bs, List.append_assoc])]
    obtain ⟨s, hs1, _, _⟩ := Slice.sliceR_bytes data hd 4 8 (by omega) (by omega)
    have e8 : rd64 ((data.bytes.drop 8).take (16 - 8)) = some (n64 md) := by
      rw [hb]
      have : (List.drop 8 (bs ++ tail)).take (16 - 8) = be64 (n64 md) := rfl
      rw [this]; exact rd64_be64' _
    have e16 : rd64 ((data.bytes.drop 16).take (24 - 16)) = some (n64 mk) := by
      rw [hb]
      have : (List.drop 16 (bs ++ tail)).take (24 - 16) = be64 (n64 mk) := rfl
      rw [this]; exact rd64_be64' _
    simp only [Res.bind_ok, hs1, Slice.u64In_eq data hd 8 16 (by omega) (by omega),
      Slice.u64In_eq data hd 16 24 (by omega) (by omega), e8, e16, Res.ofOption, Res.pure_eq, catchErr,
      u64_n64 md hmd, u64_n64 mk hmk]
    simp [copyInto, v']


/-- InstrMeter: header and the 32-bit meter id, 8 bytes -/
theorem instrMeter_rt (ln mid : Nat) (hln : ln < 65536) (hmid : mid < 4294967296) :
    let v := V.obj "InstrMeter" [.obj "InstrHeader" [.num Gen.openflow13.InstrType_METER, .num ln], .num mid]
    let bs := be16 (n16 Gen.openflow13.InstrType_METER) ++ be16 (n16 ln) ++ be32 (n32 mid)
    Instruction.marshalM v = .ok (bs, v) ∧ Instruction.lenM v = .ok (8, v) ∧
    ∀ (data : Slice) (tail : Bytes), data.WF → data.bytes = bs ++ tail → DecodeInstr data = .ok v := by
  intro v bs
  refine ⟨rfl, rfl, ?_⟩
  intro data tail hd hb
  have hlen := Slice.len_ge_of_bytes data _ _ hb
  have hlen8 : 8 ≤ data.len := by
    have : bs.length = 8 := rfl
    omega
  have ht : (n16 Gen.openflow13.InstrType_METER).toNat = Gen.openflow13.InstrType_METER := by decide
  unfold DecodeInstr
  rw [instr_type data hd Gen.openflow13.InstrType_METER (be16 (n16 ln) ++ (be32 (n32 mid) ++ tail))
    (by rw [hb]; simp only [bs, List.append_assoc])]
  simp only [Res.bind_ok, ht]
  rw [if_neg (by decide), if_neg (by decide), if_neg (by decide), if_pos trivial]
  simp only [InstrMeter.unmarshal, InstrMeter.zero, InstrHeader.zero]
  rw [if_neg (by omega)]
  rw [instrHeader_unmarshal4 _ data hd Gen.openflow13.InstrType_METER ln (by decide) hln (be32 (n32 mid) ++ tail)
    (by rw [hb]; simp only [bs, List.append_assoc])]
  have e4 : rd32 (data.bytes.drop 4) = some (n32 mid) := by
    rw [hb]
    have : List.drop 4 (bs ++ tail) = be32 (n32 mid) ++ tail := rfl
    rw [this]; exact rd32_be32 _ _
  simp only [Res.bind_ok, Slice.u32From_eq, e4, Res.ofOption, Res.pure_eq, catchErr, u32_n32 mid hmid]
  rfl

end OFV.RT
