/-
  OFV.Lemmas.RT4c — the message types Parse answers with `break` (nil, nil), and what that means for a BundleAdd that carries one.
  Used by OFV/Props/C05d.lean.
-/
import OFV.Model.All
import OFV.Lemmas.Size
namespace OFV.RT4
open OFV OFV.Go OFV.Model

/-- the message types `Parse` answers with `break` -/
def unhandledTypes : List Nat := [Gen.openflow13.Type_PacketOut, Gen.openflow13.Type_GroupMod, Gen.openflow13.Type_PortMod,
  Gen.openflow13.Type_TableMod, Gen.openflow13.Type_QueueGetConfigRequest, Gen.openflow13.Type_QueueGetConfigReply]

/-- Parse of ANY buffer whose type byte is one of them: (nil, nil) -/
theorem parse_unhandled (depth : Nat) (data : Slice) (tb : UInt8) (h1 : data.byteAt 1 = .ok tb) (ht : tb.toNat ∈ unhandledTypes) :
    parse depth data = .ok .nil := by
  unfold parse
  obtain ⟨k, hk⟩ : ∃ k, max depth (data.cap + 1) = k + 1 := ⟨max depth (data.cap + 1) - 1, by omega⟩
  rw [hk, parseD, parseStep, h1]
  simp only [Res.bind_ok]
  simp only [unhandledTypes, List.mem_cons, List.not_mem_nil, or_false] at ht
  rcases ht with h | h | h | h | h | h <;> (rw [h]; rfl)

/-- BundleAdd.UnmarshalBinary never returns a value when the embedded message's type byte (offset 9) is one of them: the nil
    message is an error -/
theorem bundleAdd_unhandled_inner (recv : V) (data : Slice) (tb : UInt8) (h9 : data.byteAt 9 = .ok tb)
    (ht : tb.toNat ∈ unhandledTypes) (v : V) : BundleAdd.unmarshal recv data ≠ .ok v := by
  intro h
  unfold BundleAdd.unmarshal BundleAdd.unmarshalWith at h
  split at h
  · split at h
    · cases h
    · rename_i hlen
      obtain ⟨i, _, h⟩ := bind_ok_inv _ _ _ h
      obtain ⟨f, _, h⟩ := bind_ok_inv _ _ _ h
      obtain ⟨ml, _, h⟩ := bind_ok_inv _ _ _ h
      dsimp only at h
      split at h
      · cases h
      · rename_i hml
        obtain ⟨d, hd, h⟩ := bind_ok_inv _ _ _ h
        have hd1 : d.byteAt 1 = .ok tb := by
          unfold Slice.sliceR Slice.slice Res.ofOption at hd
          split at hd
          · rename_i o heq
            split at heq
            · cases heq; cases hd
              simp only [Bool.or_eq_true, decide_eq_true_eq, not_or, Nat.not_lt] at hml
              unfold Slice.byteAt Slice.index Res.ofOption at h9 ⊢
              simp only
              split at h9
              · rename_i x hx
                split at hx
                · rw [if_pos (by omega)]
                  simp only [List.getElem?_drop]
                  rw [hx]; exact h9
                · cases hx
              · cases h9
            · cases heq
          · cases hd
        rw [parse_unhandled _ d tb hd1 ht] at h
        simp only [Res.bind_ok, V.isNil] at h
        cases h
  · cases h

end OFV.RT4
