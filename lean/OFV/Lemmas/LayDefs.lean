/-
  OFV.Lemmas.LayDefs — vocabulary of the layout theorems (Props/C03b).

  * `layoutOf K`      : the rows of `Spec.layouts` for kind K (THE specification side: name, offset, width, kind).
  * `fieldOf v name`  : the value the API user supplied for Go field `name` of the struct value `v`, looked up BY NAME
                        through the regenerated struct table `Gen.structFields` (declaration order = position in `V.obj`).
  * `FieldAt v bs fl` : "row `fl` holds for value `v` and encoding `bs`":
        num      the big-endian number of `fl.width` bytes at `fl.off` is the supplied value (reduced modulo
                 2^(8·width): a Go field of type uintN cannot hold more; for an in-range value this is the value itself,
                 `FieldAt_num_inRange`)
        raw      the `fl.width` bytes at `fl.off` are the supplied bytes (when that many were supplied)
        hdrWord  the 32-bit word at `fl.off` is the OXM header  class<<16 | field<<9 | hasmask<<8 | length  of the
                 referenced MatchField (field numbers are 7 bits wide)
-/
import OFV.Model.All
import OFV.Spec.Layout
import OFV.Gen.Structs
import OFV.Lemmas.Size
import OFV.Lemmas.SizeTac
import OFV.Lemmas.BeAt
import OFV.Lemmas.LayFill
namespace OFV.Model
open OFV OFV.Go OFV.Spec

def layoutOf (k : String) : List FL := (Spec.layouts.lookup k).getD []

def fieldOf (v : V) (name : String) : Option V :=
  match v with
  | .obj k fs => (((Gen.structFields.lookup k).getD []).zip fs).lookup name
  | _ => none

/-- the OXM header word of a match field, arithmetically: class·2^16 + field·2^9 + hasmask·2^8 + length -/
def oxmWord (c f hm l : Nat) : Nat := c % 65536 * 65536 + f % 256 * 512 + (if hm = 0 then 0 else 256) + l % 256

def FieldAt (v : V) (bs : Bytes) (fl : FL) : Prop :=
  match fl.kind, fieldOf v fl.name with
  | .num, some (.num x) => beAt bs fl.off fl.width = x % 2 ^ (8 * fl.width)
  | .raw, some (.bytes b) => fl.width ≤ b.length → (bs.drop fl.off).take fl.width = b.take fl.width
  | .hdrWord, some f => ∀ c fld hm l eid val mask,
      f = .obj "MatchField" [.num c, .num fld, .num hm, .num l, .num eid, val, mask] → fld % 256 < 128 →
      beAt bs fl.off fl.width = oxmWord c fld hm l
  | _, _ => False

/-- the whole layout table of kind `k` holds for the value `v` and its encoding `bs` -/
def LayoutHolds (k : String) (v : V) (bs : Bytes) : Prop := ∀ fl ∈ layoutOf k, FieldAt v bs fl

theorem lay_n8_toNat (x : Nat) : (n8 x).toNat = x % 2 ^ (8 * 1) := by simp [n8, UInt8.toNat_ofNat']
theorem lay_n16_toNat (x : Nat) : (n16 x).toNat = x % 2 ^ (8 * 2) := by simp [n16, UInt16.toNat_ofNat']
theorem lay_n32_toNat (x : Nat) : (n32 x).toNat = x % 2 ^ (8 * 4) := by simp [n32, UInt32.toNat_ofNat']
theorem lay_n64_toNat (x : Nat) : (n64 x).toNat = x % 2 ^ (8 * 8) := by simp [n64, UInt64.toNat_ofNat']

/-- arithmetic form of the packed OXM header word (proof as in Props/C15 `marshalHeader_toNat`) -/
theorem marshalHeader_toNat' (c : UInt16) (f : UInt8) (m : Bool) (l : UInt8) (e : UInt32) (hf : f.toNat < 128) :
    (Gen.openflow13.MatchField.MarshalHeader { Class := c, Field := f, HasMask := m, Length := l, ExperimenterID := e }).toNat =
      c.toNat * 65536 + f.toNat * 512 + (if m then 256 else 0) + l.toNat := by
  have hc := c.toNat_lt
  have hl := l.toNat_lt
  unfold Gen.openflow13.MatchField.MarshalHeader Go.shl32
  simp only [show (16 : Nat) < 32 by omega, show (9 : Nat) < 32 by omega, if_true]
  have e16 : (UInt32.ofNat 16) = 16 := rfl
  have e9 : (UInt32.ofNat 9) = 9 := rfl
  have hcs : ((c.toUInt64.toUInt32) <<< (16 : UInt32)).toNat = c.toNat <<< 16 := by
    simp [UInt32.toNat_shiftLeft, Nat.shiftLeft_eq]; omega
  have hfs : ((f.toUInt64.toUInt32) <<< (9 : UInt32)).toNat = f.toNat <<< 9 := by
    simp [UInt32.toNat_shiftLeft, Nat.shiftLeft_eq]; omega
  have hl32 : (l.toUInt64.toUInt32).toNat = l.toNat := by simp
  rw [e16, e9]
  cases m
  · simp only [Bool.false_eq_true, if_false]
    rw [UInt32.toNat_or, UInt32.toNat_or, UInt32.toNat_or, hcs, hfs, hl32]
    have h1 : c.toNat <<< 16 ||| f.toNat <<< 9 = (c.toNat * 128 + f.toNat) <<< 9 := by
      rw [← Nat.shiftLeft_add_eq_or_of_lt (by simp [Nat.shiftLeft_eq]; omega)]
      simp [Nat.shiftLeft_eq]; omega
    rw [h1]
    have h0 : (0 : UInt32).toNat = 0 := rfl
    rw [h0, Nat.or_zero, ← Nat.shiftLeft_add_eq_or_of_lt (by omega)]
    simp [Nat.shiftLeft_eq]; omega
  · simp only [if_true]
    rw [UInt32.toNat_or, UInt32.toNat_or, UInt32.toNat_or, hcs, hfs, hl32]
    have h1 : c.toNat <<< 16 ||| f.toNat <<< 9 = (c.toNat * 128 + f.toNat) <<< 9 := by
      rw [← Nat.shiftLeft_add_eq_or_of_lt (by simp [Nat.shiftLeft_eq]; omega)]
      simp [Nat.shiftLeft_eq]; omega
    rw [h1]
    have h256 : (256 : UInt32).toNat = 256 := rfl
    rw [h256, ← Nat.shiftLeft_add_eq_or_of_lt (by omega)]
    have h2 : (c.toNat * 128 + f.toNat) <<< 9 + 256 = (c.toNat * 256 + f.toNat * 2 + 1) <<< 8 := by
      simp [Nat.shiftLeft_eq]; omega
    rw [h2, ← Nat.shiftLeft_add_eq_or_of_lt (by omega)]
    simp [Nat.shiftLeft_eq]; omega

/-- `f.MarshalHeader()` of a (non-nil) match field with a 7-bit field number is the OXM header word -/
theorem headerWord_oxm (c fld hm l eid : Nat) (val mask : V) (hf : fld % 256 < 128) :
    (MatchField.headerWord (.obj "MatchField" [.num c, .num fld, .num hm, .num l, .num eid, val, mask])).toNat =
      oxmWord c fld hm l := by
  unfold MatchField.headerWord oxmWord
  have h8 : (n8 fld).toNat = fld % 256 := by simp [n8, UInt8.toNat_ofNat']
  show (Gen.openflow13.MatchField.MarshalHeader { Class := n16 c, Field := n8 fld, HasMask := decide (hm ≠ 0), Length := n8 l, ExperimenterID := n32 eid }).toNat = _
  rw [marshalHeader_toNat' _ _ _ _ _ (by rw [h8]; exact hf)]
  have h16 : (n16 c).toNat = c % 65536 := by simp [n16, UInt16.toNat_ofNat']
  have hl8 : (n8 l).toNat = l % 256 := by simp [n8, UInt8.toNat_ofNat']
  rw [h8, h16, hl8]
  by_cases h : hm = 0 <;> simp [h]

/-- what `mfHeader` hands to the encoder for a well-shaped match field -/
theorem mfHeader_oxm (f : V) (hw : Nat) (h : mfHeader f = .ok hw) (c fld hm l eid : Nat) (val mask : V)
    (hf : f = .obj "MatchField" [.num c, .num fld, .num hm, .num l, .num eid, val, mask]) (h7 : fld % 256 < 128) :
    (n32 hw).toNat = oxmWord c fld hm l := by
  subst hf
  simp only [mfHeader, Res.ok.injEq] at h
  subst h
  have : n32 (MatchField.headerWord (.obj "MatchField" [.num c, .num fld, .num hm, .num l, .num eid, val, mask])).toNat =
      MatchField.headerWord (.obj "MatchField" [.num c, .num fld, .num hm, .num l, .num eid, val, mask]) := by
    simp [n32]
  rw [this]
  exact headerWord_oxm c fld hm l eid val mask h7

/-- a value in range for its width is found unreduced -/
theorem mod_inRange (x w : Nat) (h : x < 2 ^ (8 * w)) : x % 2 ^ (8 * w) = x := Nat.mod_eq_of_lt h

/-! ### reading chunks of an `append`-built encoding -/

theorem chunk_be16 (cs : List Bytes) (tail : Bytes) (k : Nat) (x : UInt16) (hk : cs[k]? = some (be16 x)) (off : Nat)
    (hoff : ((cs.take k).map List.length).sum = off) : beAt (cs.flatten ++ tail) off 2 = x.toNat := by
  rw [beAt_nth cs tail k _ hk off hoff]; exact beAt_be16 _ _

theorem chunk_be32 (cs : List Bytes) (tail : Bytes) (k : Nat) (x : UInt32) (hk : cs[k]? = some (be32 x)) (off : Nat)
    (hoff : ((cs.take k).map List.length).sum = off) : beAt (cs.flatten ++ tail) off 4 = x.toNat := by
  rw [beAt_nth cs tail k _ hk off hoff]; exact beAt_be32 _ _

theorem chunk_be64 (cs : List Bytes) (tail : Bytes) (k : Nat) (x : UInt64) (hk : cs[k]? = some (be64 x)) (off : Nat)
    (hoff : ((cs.take k).map List.length).sum = off) : beAt (cs.flatten ++ tail) off 8 = x.toNat := by
  rw [beAt_nth cs tail k _ hk off hoff]; exact beAt_be64 _ _

theorem chunk_u8 (cs : List Bytes) (tail : Bytes) (k : Nat) (x : UInt8) (hk : cs[k]? = some [x]) (off : Nat)
    (hoff : ((cs.take k).map List.length).sum = off) : beAt (cs.flatten ++ tail) off 1 = x.toNat := by
  rw [beAt_nth cs tail k _ hk off hoff]; simp [beAt]

/-- "the elements appear in list order": every element of `bss` is found intact in `bs`, the k-th one starting at
    `start` + the total length of the elements before it -/
def InOrderAt (bs : Bytes) (start : Nat) (bss : List Bytes) : Prop :=
  ∀ k (hk : k < bss.length), (bs.drop (start + ((bss.take k).map List.length).sum)).take bss[k].length = bss[k]

theorem inOrderAt_of_eq (bs pre : Bytes) (bss : List Bytes) (tail : Bytes) (start : Nat) (h : bs = pre ++ bss.flatten ++ tail)
    (hs : pre.length = start) : InOrderAt bs start bss := by
  intro k hk
  rw [h, ← hs]
  exact flatten_nth_window pre bss tail k hk

/-- the second byte-pair of an OXM header: field number shifted left by one, has-mask bit -/
theorem fldByte_toNat : ∀ n < 128, (shl8 (UInt8.ofNat n) 1).toNat = n * 2 ∧ (shl8 (UInt8.ofNat n) 1 ||| 1).toNat = n * 2 + 1 := by
  decide

/-- discharges `piecesLen (List.take k [pieces…]) = off` (header lengths are taken from the context) -/
macro "lay_off" : tactic =>
  `(tactic| (simp [piecesLen, pCopy, pU8, pU16, pU32, pU64, pSkip, pCopyAdv, Piece.adv] <;> omega))

/-- discharges `((List.take k [chunks…]).map List.length).sum = off` -/
macro "lay_sum" : tactic => `(tactic| (simp <;> omega))

/-- turns `fl ∈ layoutOf "K"` into the disjunction of the table rows -/
macro "lay_rows" h:ident : tactic => `(tactic| simp [layoutOf, Spec.layouts, List.lookup] at $h:ident)

/-- goal `FieldAt v out ⟨name, off, w, .num⟩` where `hf : fill L pieces = .ok out`: find the piece that is the field -/
macro "lay_num" hf:ident : tactic => `(tactic| (
  show beAt _ _ _ = _ % 2 ^ (8 * _)
  first
  | (rw [← lay_n8_toNat]; first
    | exact fill_u8_at _ _ _ $hf 0 _ rfl _ (by lay_off)
    | exact fill_u8_at _ _ _ $hf 1 _ rfl _ (by lay_off)
    | exact fill_u8_at _ _ _ $hf 2 _ rfl _ (by lay_off)
    | exact fill_u8_at _ _ _ $hf 3 _ rfl _ (by lay_off)
    | exact fill_u8_at _ _ _ $hf 4 _ rfl _ (by lay_off)
    | exact fill_u8_at _ _ _ $hf 5 _ rfl _ (by lay_off)
    | exact fill_u8_at _ _ _ $hf 6 _ rfl _ (by lay_off)
    | exact fill_u8_at _ _ _ $hf 7 _ rfl _ (by lay_off)
    | exact fill_u8_at _ _ _ $hf 8 _ rfl _ (by lay_off)
    | exact fill_u8_at _ _ _ $hf 9 _ rfl _ (by lay_off)
    | exact fill_u8_at _ _ _ $hf 10 _ rfl _ (by lay_off)
    | exact fill_u8_at _ _ _ $hf 11 _ rfl _ (by lay_off))
  | (rw [← lay_n16_toNat]; first
    | exact fill_be16_at _ _ _ $hf 0 _ rfl _ (by lay_off)
    | exact fill_be16_at _ _ _ $hf 1 _ rfl _ (by lay_off)
    | exact fill_be16_at _ _ _ $hf 2 _ rfl _ (by lay_off)
    | exact fill_be16_at _ _ _ $hf 3 _ rfl _ (by lay_off)
    | exact fill_be16_at _ _ _ $hf 4 _ rfl _ (by lay_off)
    | exact fill_be16_at _ _ _ $hf 5 _ rfl _ (by lay_off)
    | exact fill_be16_at _ _ _ $hf 6 _ rfl _ (by lay_off)
    | exact fill_be16_at _ _ _ $hf 7 _ rfl _ (by lay_off)
    | exact fill_be16_at _ _ _ $hf 8 _ rfl _ (by lay_off)
    | exact fill_be16_at _ _ _ $hf 9 _ rfl _ (by lay_off)
    | exact fill_be16_at _ _ _ $hf 10 _ rfl _ (by lay_off)
    | exact fill_be16_at _ _ _ $hf 11 _ rfl _ (by lay_off))
  | (rw [← lay_n32_toNat]; first
    | exact fill_be32_at _ _ _ $hf 0 _ rfl _ (by lay_off)
    | exact fill_be32_at _ _ _ $hf 1 _ rfl _ (by lay_off)
    | exact fill_be32_at _ _ _ $hf 2 _ rfl _ (by lay_off)
    | exact fill_be32_at _ _ _ $hf 3 _ rfl _ (by lay_off)
    | exact fill_be32_at _ _ _ $hf 4 _ rfl _ (by lay_off)
    | exact fill_be32_at _ _ _ $hf 5 _ rfl _ (by lay_off)
    | exact fill_be32_at _ _ _ $hf 6 _ rfl _ (by lay_off)
    | exact fill_be32_at _ _ _ $hf 7 _ rfl _ (by lay_off)
    | exact fill_be32_at _ _ _ $hf 8 _ rfl _ (by lay_off)
    | exact fill_be32_at _ _ _ $hf 9 _ rfl _ (by lay_off)
    | exact fill_be32_at _ _ _ $hf 10 _ rfl _ (by lay_off)
    | exact fill_be32_at _ _ _ $hf 11 _ rfl _ (by lay_off))
  | (rw [← lay_n64_toNat]; first
    | exact fill_be64_at _ _ _ $hf 0 _ rfl _ (by lay_off)
    | exact fill_be64_at _ _ _ $hf 1 _ rfl _ (by lay_off)
    | exact fill_be64_at _ _ _ $hf 2 _ rfl _ (by lay_off)
    | exact fill_be64_at _ _ _ $hf 3 _ rfl _ (by lay_off)
    | exact fill_be64_at _ _ _ $hf 4 _ rfl _ (by lay_off)
    | exact fill_be64_at _ _ _ $hf 5 _ rfl _ (by lay_off)
    | exact fill_be64_at _ _ _ $hf 6 _ rfl _ (by lay_off)
    | exact fill_be64_at _ _ _ $hf 7 _ rfl _ (by lay_off)
    | exact fill_be64_at _ _ _ $hf 8 _ rfl _ (by lay_off)
    | exact fill_be64_at _ _ _ $hf 9 _ rfl _ (by lay_off)
    | exact fill_be64_at _ _ _ $hf 10 _ rfl _ (by lay_off)
    | exact fill_be64_at _ _ _ $hf 11 _ rfl _ (by lay_off))))

/-- goal `FieldAt v out ⟨name, off, 4, .hdrWord⟩` where `hw : mfHeader f = .ok w` and `hf : fill L pieces = .ok out` -/
macro "lay_hdr" hw:ident hf:ident : tactic => `(tactic| (
  intro c fld hm' l' eid val mask hsf h7
  rw [← mfHeader_oxm _ _ $hw c fld hm' l' eid val mask hsf h7]
  first
  | exact fill_be32_at _ _ _ $hf 0 _ rfl _ (by lay_off)
  | exact fill_be32_at _ _ _ $hf 1 _ rfl _ (by lay_off)
  | exact fill_be32_at _ _ _ $hf 2 _ rfl _ (by lay_off)
  | exact fill_be32_at _ _ _ $hf 3 _ rfl _ (by lay_off)
  | exact fill_be32_at _ _ _ $hf 4 _ rfl _ (by lay_off)
  | exact fill_be32_at _ _ _ $hf 5 _ rfl _ (by lay_off)
  | exact fill_be32_at _ _ _ $hf 6 _ rfl _ (by lay_off)
  | exact fill_be32_at _ _ _ $hf 7 _ rfl _ (by lay_off)
  | exact fill_be32_at _ _ _ $hf 8 _ rfl _ (by lay_off)
  | exact fill_be32_at _ _ _ $hf 9 _ rfl _ (by lay_off)
  | exact fill_be32_at _ _ _ $hf 10 _ rfl _ (by lay_off)
  | exact fill_be32_at _ _ _ $hf 11 _ rfl _ (by lay_off)))

/-- goal `FieldAt v (chunks.flatten ++ tail) ⟨name, off, w, .num⟩` for an `append`-built encoding -/
macro "lay_chunk" : tactic => `(tactic| (
  show beAt _ _ _ = _ % 2 ^ (8 * _)
  first
  | (rw [← lay_n8_toNat]; first
    | exact chunk_u8 _ _ 0 _ rfl _ (by lay_sum)
    | exact chunk_u8 _ _ 1 _ rfl _ (by lay_sum)
    | exact chunk_u8 _ _ 2 _ rfl _ (by lay_sum)
    | exact chunk_u8 _ _ 3 _ rfl _ (by lay_sum)
    | exact chunk_u8 _ _ 4 _ rfl _ (by lay_sum)
    | exact chunk_u8 _ _ 5 _ rfl _ (by lay_sum)
    | exact chunk_u8 _ _ 6 _ rfl _ (by lay_sum)
    | exact chunk_u8 _ _ 7 _ rfl _ (by lay_sum)
    | exact chunk_u8 _ _ 8 _ rfl _ (by lay_sum)
    | exact chunk_u8 _ _ 9 _ rfl _ (by lay_sum)
    | exact chunk_u8 _ _ 10 _ rfl _ (by lay_sum)
    | exact chunk_u8 _ _ 11 _ rfl _ (by lay_sum)
    | exact chunk_u8 _ _ 12 _ rfl _ (by lay_sum)
    | exact chunk_u8 _ _ 13 _ rfl _ (by lay_sum))
  | (rw [← lay_n16_toNat]; first
    | exact chunk_be16 _ _ 0 _ rfl _ (by lay_sum)
    | exact chunk_be16 _ _ 1 _ rfl _ (by lay_sum)
    | exact chunk_be16 _ _ 2 _ rfl _ (by lay_sum)
    | exact chunk_be16 _ _ 3 _ rfl _ (by lay_sum)
    | exact chunk_be16 _ _ 4 _ rfl _ (by lay_sum)
    | exact chunk_be16 _ _ 5 _ rfl _ (by lay_sum)
    | exact chunk_be16 _ _ 6 _ rfl _ (by lay_sum)
    | exact chunk_be16 _ _ 7 _ rfl _ (by lay_sum)
    | exact chunk_be16 _ _ 8 _ rfl _ (by lay_sum)
    | exact chunk_be16 _ _ 9 _ rfl _ (by lay_sum)
    | exact chunk_be16 _ _ 10 _ rfl _ (by lay_sum)
    | exact chunk_be16 _ _ 11 _ rfl _ (by lay_sum)
    | exact chunk_be16 _ _ 12 _ rfl _ (by lay_sum)
    | exact chunk_be16 _ _ 13 _ rfl _ (by lay_sum))
  | (rw [← lay_n32_toNat]; first
    | exact chunk_be32 _ _ 0 _ rfl _ (by lay_sum)
    | exact chunk_be32 _ _ 1 _ rfl _ (by lay_sum)
    | exact chunk_be32 _ _ 2 _ rfl _ (by lay_sum)
    | exact chunk_be32 _ _ 3 _ rfl _ (by lay_sum)
    | exact chunk_be32 _ _ 4 _ rfl _ (by lay_sum)
    | exact chunk_be32 _ _ 5 _ rfl _ (by lay_sum)
    | exact chunk_be32 _ _ 6 _ rfl _ (by lay_sum)
    | exact chunk_be32 _ _ 7 _ rfl _ (by lay_sum)
    | exact chunk_be32 _ _ 8 _ rfl _ (by lay_sum)
    | exact chunk_be32 _ _ 9 _ rfl _ (by lay_sum)
    | exact chunk_be32 _ _ 10 _ rfl _ (by lay_sum)
    | exact chunk_be32 _ _ 11 _ rfl _ (by lay_sum)
    | exact chunk_be32 _ _ 12 _ rfl _ (by lay_sum)
    | exact chunk_be32 _ _ 13 _ rfl _ (by lay_sum))
  | (rw [← lay_n64_toNat]; first
    | exact chunk_be64 _ _ 0 _ rfl _ (by lay_sum)
    | exact chunk_be64 _ _ 1 _ rfl _ (by lay_sum)
    | exact chunk_be64 _ _ 2 _ rfl _ (by lay_sum)
    | exact chunk_be64 _ _ 3 _ rfl _ (by lay_sum)
    | exact chunk_be64 _ _ 4 _ rfl _ (by lay_sum)
    | exact chunk_be64 _ _ 5 _ rfl _ (by lay_sum)
    | exact chunk_be64 _ _ 6 _ rfl _ (by lay_sum)
    | exact chunk_be64 _ _ 7 _ rfl _ (by lay_sum)
    | exact chunk_be64 _ _ 8 _ rfl _ (by lay_sum)
    | exact chunk_be64 _ _ 9 _ rfl _ (by lay_sum)
    | exact chunk_be64 _ _ 10 _ rfl _ (by lay_sum)
    | exact chunk_be64 _ _ 11 _ rfl _ (by lay_sum)
    | exact chunk_be64 _ _ 12 _ rfl _ (by lay_sum)
    | exact chunk_be64 _ _ 13 _ rfl _ (by lay_sum))))

end OFV.Model
