/-
  OFV.Lemmas.RepAny — repeatability (C13) through the `util.Message` interface:
    * every entry of the six kind tables is repeatable on every value and keeps the dynamic type (`KindOK`,
      `msgLeafKinds_ok` — 118 kinds);
    * `msgAny_childOK`: `msgAnyLenD d / msgAnyMarshalD d` (hence `anyLenM / anyMarshalM`) are repeatable on EVERY value, by
      induction on the nesting depth, using the `repeatableWith` theorems of OFV.Lemmas.RepMsg for the five containers;
    * the containers with the knot tied, and the complete kind table `kinds` (123 kinds).
-/
import OFV.Lemmas.RepCore
import OFV.Lemmas.RepProto
import OFV.Lemmas.RepMsg
namespace OFV.Rep
open OFV OFV.Go OFV.Model OFV.Model.InstrAux OFV.Props.C13

/-! ### the match payload kinds, one by one (they store nothing) -/

theorem InPortField.pure2 (v : V) : Pure2 InPortField.lenM InPortField.marshalM v := ⟨by mar_pure InPortField.lenM, by mar_pure InPortField.marshalM⟩
theorem EthDstField.pure2 (v : V) : Pure2 EthDstField.lenM EthDstField.marshalM v := ⟨by mar_pure EthDstField.lenM, by mar_pure EthDstField.marshalM⟩
theorem EthSrcField.pure2 (v : V) : Pure2 EthSrcField.lenM EthSrcField.marshalM v := ⟨by mar_pure EthSrcField.lenM, by mar_pure EthSrcField.marshalM⟩
theorem EthTypeField.pure2 (v : V) : Pure2 EthTypeField.lenM EthTypeField.marshalM v := ⟨by mar_pure EthTypeField.lenM, by mar_pure EthTypeField.marshalM⟩
theorem VlanIdField.pure2 (v : V) : Pure2 VlanIdField.lenM VlanIdField.marshalM v := ⟨by mar_pure VlanIdField.lenM, by mar_pure VlanIdField.marshalM⟩
theorem MplsLabelField.pure2 (v : V) : Pure2 MplsLabelField.lenM MplsLabelField.marshalM v := ⟨by mar_pure MplsLabelField.lenM, by mar_pure MplsLabelField.marshalM⟩
theorem MplsBosField.pure2 (v : V) : Pure2 MplsBosField.lenM MplsBosField.marshalM v := ⟨by mar_pure MplsBosField.lenM, by mar_pure MplsBosField.marshalM⟩
theorem Ipv4SrcField.pure2 (v : V) : Pure2 Ipv4SrcField.lenM Ipv4SrcField.marshalM v := ⟨by mar_pure Ipv4SrcField.lenM, by mar_pure Ipv4SrcField.marshalM⟩
theorem Ipv4DstField.pure2 (v : V) : Pure2 Ipv4DstField.lenM Ipv4DstField.marshalM v := ⟨by mar_pure Ipv4DstField.lenM, by mar_pure Ipv4DstField.marshalM⟩
theorem Ipv6SrcField.pure2 (v : V) : Pure2 Ipv6SrcField.lenM Ipv6SrcField.marshalM v := ⟨by mar_pure Ipv6SrcField.lenM, by mar_pure Ipv6SrcField.marshalM⟩
theorem Ipv6DstField.pure2 (v : V) : Pure2 Ipv6DstField.lenM Ipv6DstField.marshalM v := ⟨by mar_pure Ipv6DstField.lenM, by mar_pure Ipv6DstField.marshalM⟩
theorem IPv6FlowLabelField.pure2 (v : V) : Pure2 IPv6FlowLabelField.lenM IPv6FlowLabelField.marshalM v := ⟨by mar_pure IPv6FlowLabelField.lenM, by mar_pure IPv6FlowLabelField.marshalM⟩
theorem IpProtoField.pure2 (v : V) : Pure2 IpProtoField.lenM IpProtoField.marshalM v := ⟨by mar_pure IpProtoField.lenM, by mar_pure IpProtoField.marshalM⟩
theorem IpDscpField.pure2 (v : V) : Pure2 IpDscpField.lenM IpDscpField.marshalM v := ⟨by mar_pure IpDscpField.lenM, by mar_pure IpDscpField.marshalM⟩
theorem TunnelIdField.pure2 (v : V) : Pure2 TunnelIdField.lenM TunnelIdField.marshalM v := ⟨by mar_pure TunnelIdField.lenM, by mar_pure TunnelIdField.marshalM⟩
theorem MetadataField.pure2 (v : V) : Pure2 MetadataField.lenM MetadataField.marshalM v := ⟨by mar_pure MetadataField.lenM, by mar_pure MetadataField.marshalM⟩
theorem PortField.pure2 (v : V) : Pure2 PortField.lenM PortField.marshalM v := ⟨by mar_pure PortField.lenM, by mar_pure PortField.marshalM⟩
theorem TcpFlagsField.pure2 (v : V) : Pure2 TcpFlagsField.lenM TcpFlagsField.marshalM v := ⟨by mar_pure TcpFlagsField.lenM, by mar_pure TcpFlagsField.marshalM⟩
theorem ArpOperField.pure2 (v : V) : Pure2 ArpOperField.lenM ArpOperField.marshalM v := ⟨by mar_pure ArpOperField.lenM, by mar_pure ArpOperField.marshalM⟩
theorem TunnelIpv4SrcField.pure2 (v : V) : Pure2 TunnelIpv4SrcField.lenM TunnelIpv4SrcField.marshalM v := ⟨by mar_pure TunnelIpv4SrcField.lenM, by mar_pure TunnelIpv4SrcField.marshalM⟩
theorem TunnelIpv4DstField.pure2 (v : V) : Pure2 TunnelIpv4DstField.lenM TunnelIpv4DstField.marshalM v := ⟨by mar_pure TunnelIpv4DstField.lenM, by mar_pure TunnelIpv4DstField.marshalM⟩
theorem ArpXHaField.pure2 (v : V) : Pure2 ArpXHaField.lenM ArpXHaField.marshalM v := ⟨by mar_pure ArpXHaField.lenM, by mar_pure ArpXHaField.marshalM⟩
theorem ArpXPaField.pure2 (v : V) : Pure2 ArpXPaField.lenM ArpXPaField.marshalM v := ⟨by mar_pure ArpXPaField.lenM, by mar_pure ArpXPaField.marshalM⟩
theorem ActsetOutputField.pure2 (v : V) : Pure2 ActsetOutputField.lenM ActsetOutputField.marshalM v := ⟨by mar_pure ActsetOutputField.lenM, by mar_pure ActsetOutputField.marshalM⟩
theorem IcmpTypeField.pure2 (v : V) : Pure2 IcmpTypeField.lenM IcmpTypeField.marshalM v := ⟨by mar_pure IcmpTypeField.lenM, by mar_pure IcmpTypeField.marshalM⟩
theorem IcmpCodeField.pure2 (v : V) : Pure2 IcmpCodeField.lenM IcmpCodeField.marshalM v := ⟨by mar_pure IcmpCodeField.lenM, by mar_pure IcmpCodeField.marshalM⟩
theorem Uint16Message.pure2 (v : V) : Pure2 Uint16Message.lenM Uint16Message.marshalM v := ⟨by mar_pure Uint16Message.lenM, by mar_pure Uint16Message.marshalM⟩
theorem Uint32Message.pure2 (v : V) : Pure2 Uint32Message.lenM Uint32Message.marshalM v := ⟨by mar_pure Uint32Message.lenM, by mar_pure Uint32Message.marshalM⟩
theorem ByteArrayField.pure2 (v : V) : Pure2 ByteArrayField.lenM ByteArrayField.marshalM v := ⟨by mar_pure ByteArrayField.lenM, by mar_pure ByteArrayField.marshalM⟩
theorem CTLabel.pure2 (v : V) : Pure2 CTLabel.lenM CTLabel.marshalM v := ⟨by mar_pure CTLabel.lenM, by mar_pure CTLabel.marshalM⟩

/-! ### dynamic types of the kinds that store something -/

theorem LenKind.of_rel {k lenM} (h : ∀ v l v1, lenM v = .ok (l, v1) → v1.kind = v.kind) : LenKind k lenM :=
  fun v l v1 hk h1 => (h v l v1 h1).trans hk
theorem MarKind.of_rel {k marshalM} (h : ∀ v bs v2, marshalM v = .ok (bs, v2) → v2.kind = v.kind) : MarKind k marshalM :=
  fun v bs v2 hk h2 => (h v bs v2 h2).trans hk
theorem LenKind.of_same {k} (l : UInt16) : LenKind k (fun v => same l v) :=
  fun v l' v1 hk h => by rw [(same_ok _ _ _ _ h).2]; exact hk

theorem HelloElemVersionBitmap.marshalM_kind : MarKind "HelloElemVersionBitmap" HelloElemVersionBitmap.marshalM :=
  MarKind.of_rel fun v bs v2 h => by
    obtain ⟨_, _, _, e1, e2⟩ := HelloElemVersionBitmap.marshalM_shape v bs v2 h
    subst e1; subst e2; rfl
theorem Hello.lenM_kind : LenKind "Hello" Hello.lenM := by kind_tac Hello.lenM
theorem Hello.marshalM_kind : MarKind "Hello" Hello.marshalM := by kind_tac Hello.marshalM
theorem Bucket.lenM_kind : LenKind "Bucket" Bucket.lenM := by kind_tac Bucket.lenM
theorem Bucket.marshalM_kind : MarKind "Bucket" Bucket.marshalM := by kind_tac Bucket.marshalM
theorem GroupMod.lenM_kind : LenKind "GroupMod" GroupMod.lenM := by kind_tac GroupMod.lenM
theorem GroupMod.marshalM_kind : MarKind "GroupMod" GroupMod.marshalM := by kind_tac GroupMod.marshalM
theorem FlowMod.lenM_kind : LenKind "FlowMod" FlowMod.lenM := by kind_tac FlowMod.lenM
theorem FlowMod.marshalM_kind : MarKind "FlowMod" FlowMod.marshalM := by kind_tac FlowMod.marshalM
theorem FlowRemoved.lenM_kind : LenKind "FlowRemoved" FlowRemoved.lenM := by kind_tac FlowRemoved.lenM
theorem FlowRemoved.marshalM_kind : MarKind "FlowRemoved" FlowRemoved.marshalM := by kind_tac FlowRemoved.marshalM
theorem PortMod.lenM_kind : LenKind "PortMod" PortMod.lenM := by kind_tac PortMod.lenM
theorem PortMod.marshalM_kind : MarKind "PortMod" PortMod.marshalM := by kind_tac PortMod.marshalM
theorem SwitchConfig.lenM_kind : LenKind "SwitchConfig" SwitchConfig.lenM := by kind_tac SwitchConfig.lenM
theorem SwitchConfig.marshalM_kind : MarKind "SwitchConfig" SwitchConfig.marshalM := by kind_tac SwitchConfig.marshalM
theorem ErrorMsg.lenM_kind : LenKind "ErrorMsg" ErrorMsg.lenM := by kind_tac ErrorMsg.lenM
theorem ErrorMsg.marshalM_kind : MarKind "ErrorMsg" ErrorMsg.marshalM := by kind_tac ErrorMsg.marshalM
theorem VendorError.lenM_kind : LenKind "VendorError" VendorError.lenM := by kind_tac VendorError.lenM
theorem VendorError.marshalM_kind : MarKind "VendorError" VendorError.marshalM := by kind_tac VendorError.marshalM
theorem SwitchFeatures.lenM_kind : LenKind "SwitchFeatures" SwitchFeatures.lenM := by kind_tac SwitchFeatures.lenM
theorem SwitchFeatures.marshalM_kind : MarKind "SwitchFeatures" SwitchFeatures.marshalM := by kind_tac SwitchFeatures.marshalM
theorem PortStatus.lenM_kind : LenKind "PortStatus" PortStatus.lenM := by kind_tac PortStatus.lenM
theorem PortStatus.marshalM_kind : MarKind "PortStatus" PortStatus.marshalM := by kind_tac PortStatus.marshalM
theorem BundlePropertyExperimenter.lenM_kind : LenKind "BundlePropertyExperimenter" BundlePropertyExperimenter.lenM := by kind_tac BundlePropertyExperimenter.lenM
theorem BundlePropertyExperimenter.marshalM_kind : MarKind "BundlePropertyExperimenter" BundlePropertyExperimenter.marshalM := by kind_tac BundlePropertyExperimenter.marshalM

/-! ### the leaf table -/

/-- what the interface dispatch needs from a table entry: repeatable on every value, and Len() / MarshalBinary()
    return a value of the same dynamic type -/
structure KindOK (k : String) (ops : KindOps) : Prop where
  rep : ∀ v, Repeatable ops.lenM ops.marshalM v
  lenKind : LenKind k ops.lenM
  marKind : MarKind k ops.marshalM

theorem KindOK.of_pure {k : String} {ops : KindOps} (h : ∀ v, Pure2 ops.lenM ops.marshalM v) : KindOK k ops :=
  ⟨fun v => (h v).repeatable, LenKind.of_pure fun v => (h v).1, MarKind.of_pure fun v => (h v).2⟩

theorem lookup_forall {β} (P : String → β → Prop) : ∀ (tab : List (String × β)), (∀ p ∈ tab, P p.1 p.2) →
    ∀ k b, tab.lookup k = some b → P k b := by
  intro tab
  induction tab with
  | nil => intro _ k b h; simp [List.lookup] at h
  | cons e es ih =>
    intro hp k b h
    obtain ⟨a, x⟩ := e
    simp only [List.lookup] at h
    split at h
    · rename_i heq
      cases h
      have : k = a := by simpa using heq
      subst this
      exact hp (k, b) (by simp)
    · exact ih (fun p hp' => hp p (by simp [hp'])) k b h

theorem msgAnyLenD_leaf (d : Nat) (k : String) (fs : List V) (h1 : k ≠ "PacketOut") (h2 : k ≠ "VendorHeader")
    (h3 : k ≠ "BundleAdd") (h4 : k ≠ "MultipartRequest") (h5 : k ≠ "MultipartReply") :
    msgAnyLenD (d + 1) (.obj k fs) =
      (match msgLeafKinds.lookup k with
        | some ops => ops.lenM (.obj k fs)
        | none => .panic) := by
  unfold msgAnyLenD
  split
  · rename_i heq; cases heq; exact absurd rfl h1
  · rename_i heq; cases heq; exact absurd rfl h2
  · rename_i heq; cases heq; exact absurd rfl h3
  · rename_i heq; cases heq; exact absurd rfl h4
  · rename_i heq; cases heq; exact absurd rfl h5
  · rename_i heq; cases heq; rfl
  · rename_i hne; exact absurd rfl (hne k fs)

theorem msgAnyMarshalD_leaf (d : Nat) (k : String) (fs : List V) (h1 : k ≠ "PacketOut") (h2 : k ≠ "VendorHeader")
    (h3 : k ≠ "BundleAdd") (h4 : k ≠ "MultipartRequest") (h5 : k ≠ "MultipartReply") :
    msgAnyMarshalD (d + 1) (.obj k fs) =
      (match msgLeafKinds.lookup k with
        | some ops => ops.marshalM (.obj k fs)
        | none => .panic) := by
  unfold msgAnyMarshalD
  split
  · rename_i heq; cases heq; exact absurd rfl h1
  · rename_i heq; cases heq; exact absurd rfl h2
  · rename_i heq; cases heq; exact absurd rfl h3
  · rename_i heq; cases heq; exact absurd rfl h4
  · rename_i heq; cases heq; exact absurd rfl h5
  · rename_i heq; cases heq; rfl
  · rename_i hne; exact absurd rfl (hne k fs)

/-! ### every entry of the six kind tables -/

theorem kindsHeader_ok : ∀ p ∈ kindsHeader, KindOK p.1 p.2 := by
  intro p hp
  simp only [kindsHeader, List.mem_cons, List.not_mem_nil, or_false] at hp
  rcases hp with rfl | rfl | rfl | rfl
  · exact KindOK.of_pure header_pure
  · exact KindOK.of_pure helloElemHeader_pure
  · exact ⟨helloElemVersionBitmap_repeatable, LenKind.of_pure helloElemVersionBitmap_len_pure,
      HelloElemVersionBitmap.marshalM_kind⟩
  · exact ⟨hello_repeatable, Hello.lenM_kind, Hello.marshalM_kind⟩

theorem kindsMatch_ok : ∀ p ∈ kindsMatch, KindOK p.1 p.2 := by
  intro p hp
  simp only [kindsMatch, List.mem_cons, List.not_mem_nil, or_false] at hp
  rcases hp with rfl | rfl | rfl | rfl | rfl | rfl | rfl | rfl | rfl | rfl | rfl | rfl | rfl | rfl | rfl | rfl | rfl | rfl | rfl | rfl | rfl | rfl | rfl | rfl | rfl | rfl | rfl | rfl | rfl | rfl | rfl | rfl
  · exact KindOK.of_pure match_pure
  · exact KindOK.of_pure matchField_pure
  · exact KindOK.of_pure InPortField.pure2
  · exact KindOK.of_pure EthDstField.pure2
  · exact KindOK.of_pure EthSrcField.pure2
  · exact KindOK.of_pure EthTypeField.pure2
  · exact KindOK.of_pure VlanIdField.pure2
  · exact KindOK.of_pure MplsLabelField.pure2
  · exact KindOK.of_pure MplsBosField.pure2
  · exact KindOK.of_pure Ipv4SrcField.pure2
  · exact KindOK.of_pure Ipv4DstField.pure2
  · exact KindOK.of_pure Ipv6SrcField.pure2
  · exact KindOK.of_pure Ipv6DstField.pure2
  · exact KindOK.of_pure IPv6FlowLabelField.pure2
  · exact KindOK.of_pure IpProtoField.pure2
  · exact KindOK.of_pure IpDscpField.pure2
  · exact KindOK.of_pure TunnelIdField.pure2
  · exact KindOK.of_pure MetadataField.pure2
  · exact KindOK.of_pure PortField.pure2
  · exact KindOK.of_pure TcpFlagsField.pure2
  · exact KindOK.of_pure ArpOperField.pure2
  · exact KindOK.of_pure TunnelIpv4SrcField.pure2
  · exact KindOK.of_pure TunnelIpv4DstField.pure2
  · exact KindOK.of_pure ArpXHaField.pure2
  · exact KindOK.of_pure ArpXPaField.pure2
  · exact KindOK.of_pure ActsetOutputField.pure2
  · exact KindOK.of_pure IcmpTypeField.pure2
  · exact KindOK.of_pure IcmpCodeField.pure2
  · exact KindOK.of_pure Uint16Message.pure2
  · exact KindOK.of_pure Uint32Message.pure2
  · exact KindOK.of_pure ByteArrayField.pure2
  · exact KindOK.of_pure CTLabel.pure2

theorem kindsAction_ok : ∀ p ∈ kindsAction, KindOK p.1 p.2 := by
  intro p hp
  simp only [kindsAction, List.mem_cons, List.not_mem_nil, or_false] at hp
  rcases hp with rfl | rfl | rfl | rfl | rfl | rfl | rfl | rfl | rfl | rfl | rfl | rfl | rfl | rfl | rfl | rfl | rfl | rfl | rfl | rfl | rfl | rfl | rfl | rfl | rfl | rfl | rfl | rfl | rfl | rfl
  · exact KindOK.of_pure actionHeader_pure
  · exact KindOK.of_pure actionOutput_pure
  · exact KindOK.of_pure actionSetqueue_pure
  · exact KindOK.of_pure actionGroup_pure
  · exact KindOK.of_pure actionMplsTtl_pure
  · exact KindOK.of_pure actionNwTtl_pure
  · exact KindOK.of_pure actionDecNwTtl_pure
  · exact KindOK.of_pure actionPush_pure
  · exact KindOK.of_pure actionPopVlan_pure
  · exact KindOK.of_pure actionPopMpls_pure
  · exact KindOK.of_pure actionSetField_pure
  · exact KindOK.of_pure nxHeader_pure
  · exact KindOK.of_pure nxConjunction_pure
  · exact ⟨nxConnTrack_repeatable', (LenKind.of_rel (NXActionConnTrack.lenWith_kind _)), (MarKind.of_rel (NXActionConnTrack.marshalWith_kind _ _))⟩
  · exact KindOK.of_pure nxRegLoad_pure
  · exact KindOK.of_pure nxRegMove_pure
  · exact ⟨nxResubmit_repeatable, (LenKind.of_pure NXActionResubmit.lenM_pure), (MarKind.of_rel NXActionResubmit.marshalM_kind)⟩
  · exact KindOK.of_pure nxResubmitTable_pure
  · exact ⟨nxCTNAT_repeatable, (fun v l v1 _ h => NXActionCTNAT.lenM_kind v l v1 h), (fun v bs v2 _ h => NXActionCTNAT.marshalM_kind v bs v2 h)⟩
  · exact KindOK.of_pure nxOutputReg_pure
  · exact KindOK.of_pure nxCTClear_pure
  · exact KindOK.of_pure nxDecTTL_pure
  · exact KindOK.of_pure nxDecTTLCntIDs_pure
  · exact KindOK.of_pure nxLearnSpecHeader_pure
  · exact KindOK.of_pure nxLearnSpecField_pure
  · exact KindOK.of_pure nxLearnSpec_pure
  · exact ⟨nxLearn_repeatable, (LenKind.of_pure NXActionLearn.lenM_pure), (MarKind.of_rel NXActionLearn.marshalM_kind)⟩
  · exact ⟨nxNote_repeatable, (LenKind.of_pure NXActionNote.lenM_pure), (MarKind.of_rel NXActionNote.marshalM_kind)⟩
  · exact ⟨nxRegLoad2_repeatable, (LenKind.of_pure NXActionRegLoad2.lenM_pure), (MarKind.of_rel NXActionRegLoad2.marshalM_kind)⟩
  · exact ⟨nxController_repeatable, (LenKind.of_pure NXActionController.lenM_pure), (MarKind.of_rel NXActionController.marshalM_kind)⟩

theorem kindsInstr_ok : ∀ p ∈ kindsInstr, KindOK p.1 p.2 := by
  intro p hp
  simp only [kindsInstr, List.mem_cons, List.not_mem_nil, or_false] at hp
  rcases hp with rfl | rfl | rfl | rfl | rfl | rfl | rfl | rfl | rfl
  · exact KindOK.of_pure instrHeader_pure
  · exact KindOK.of_pure instrGotoTable_pure
  · exact KindOK.of_pure instrWriteMetadata_pure
  · exact ⟨instrActions_repeatable, (fun v l v1 _ h => InstrActions.lenM_kind v l v1 h), (fun v bs v2 _ h => instrActions_marshal_kind v bs v2 h)⟩
  · exact KindOK.of_pure instrMeter_pure
  · exact ⟨bucket_repeatable, Bucket.lenM_kind, Bucket.marshalM_kind⟩
  · exact ⟨groupMod_repeatable, GroupMod.lenM_kind, GroupMod.marshalM_kind⟩
  · exact ⟨flowMod_repeatable, FlowMod.lenM_kind, FlowMod.marshalM_kind⟩
  · exact ⟨flowRemoved_repeatable, FlowRemoved.lenM_kind, FlowRemoved.marshalM_kind⟩

theorem kindsProto_ok : ∀ p ∈ kindsProto, KindOK p.1 p.2 := by
  intro p hp
  simp only [kindsProto, List.mem_cons, List.not_mem_nil, or_false] at hp
  rcases hp with rfl | rfl | rfl | rfl | rfl | rfl | rfl | rfl | rfl | rfl | rfl | rfl | rfl | rfl | rfl | rfl | rfl | rfl | rfl
  · exact KindOK.of_pure uBuffer_pure
  · exact KindOK.of_pure PVLAN.pure2
  · exact ⟨PEthernet.repeatable, PEthernet.lenM_kind, PEthernet.marshalM_kind⟩
  · exact KindOK.of_pure PARP.pure2
  · exact ⟨PIPv4.repeatable, PIPv4.lenM_kind, PIPv4.marshalM_kind⟩
  · exact ⟨PIPv6.repeatable, PIPv6.lenM_kind, PIPv6.marshalM_kind⟩
  · exact KindOK.of_pure POption.pure2
  · exact KindOK.of_pure PHopByHop.pure2
  · exact KindOK.of_pure PRouting.pure2
  · exact KindOK.of_pure PFragment.pure2
  · exact KindOK.of_pure PICMP.pure2
  · exact KindOK.of_pure PTCP.pure2
  · exact KindOK.of_pure PUDP.pure2
  · exact KindOK.of_pure PIGMPv1or2.pure2
  · exact KindOK.of_pure PIGMPv3Query.pure2
  · exact KindOK.of_pure PIGMPv3GroupRecord.pure2
  · exact KindOK.of_pure PIGMPv3MembershipReport.pure2
  · exact KindOK.of_pure PDHCP.pure2
  · exact KindOK.of_pure PLLDP.pure2

theorem kindsMsgLeaf_ok : ∀ p ∈ kindsMsgLeaf, KindOK p.1 p.2 := by
  intro p hp
  simp only [kindsMsgLeaf, List.mem_cons, List.not_mem_nil, or_false] at hp
  rcases hp with rfl | rfl | rfl | rfl | rfl | rfl | rfl | rfl | rfl | rfl | rfl | rfl | rfl | rfl | rfl | rfl | rfl | rfl | rfl | rfl | rfl | rfl | rfl | rfl
  · exact KindOK.of_pure phyPort_pure
  · exact ⟨portMod_repeatable, PortMod.lenM_kind, PortMod.marshalM_kind⟩
  · exact ⟨switchConfig_repeatable, SwitchConfig.lenM_kind, SwitchConfig.marshalM_kind⟩
  · exact ⟨errorMsg_repeatable, ErrorMsg.lenM_kind, ErrorMsg.marshalM_kind⟩
  · exact ⟨vendorError_repeatable, VendorError.lenM_kind, VendorError.marshalM_kind⟩
  · exact ⟨switchFeatures_repeatable, SwitchFeatures.lenM_kind, SwitchFeatures.marshalM_kind⟩
  · exact ⟨PacketIn.repeatable, PacketIn.lenM_kind, PacketIn.marshalM_kind⟩
  · exact KindOK.of_pure descStats_pure
  · exact KindOK.of_pure (statsReq_pure "FlowStatsRequest")
  · exact KindOK.of_pure (statsReq_pure "AggregateStatsRequest")
  · exact ⟨FlowStats.repeatable, FlowStats.lenM_kind, FlowStats.marshalM_kind⟩
  · exact KindOK.of_pure aggregateStats_pure
  · exact KindOK.of_pure tableStats_pure
  · exact KindOK.of_pure portStatsRequest_pure
  · exact KindOK.of_pure portStats_pure
  · exact KindOK.of_pure queueStatsRequest_pure
  · exact KindOK.of_pure queueStats_pure
  · exact ⟨portStatus_repeatable, PortStatus.lenM_kind, PortStatus.marshalM_kind⟩
  · exact KindOK.of_pure controllerID_pure
  · exact KindOK.of_pure tlvTableMap_pure
  · exact KindOK.of_pure tlvTableMod_pure
  · exact KindOK.of_pure tlvTableReply_pure
  · exact KindOK.of_pure bundleControl_pure
  · exact ⟨bundleProperty_repeatable, BundlePropertyExperimenter.lenM_kind, BundlePropertyExperimenter.marshalM_kind⟩

/-- every kind the `util.Message` dispatch can reach through its table (118 kinds) -/
theorem msgLeafKinds_ok (k : String) (ops : KindOps) (h : msgLeafKinds.lookup k = some ops) : KindOK k ops := by
  apply lookup_forall KindOK msgLeafKinds _ k ops h
  intro p hp
  simp only [msgLeafKinds, List.mem_append] at hp
  rcases hp with ((((hp | hp) | hp) | hp) | hp) | hp
  · exact kindsHeader_ok p hp
  · exact kindsMatch_ok p hp
  · exact kindsAction_ok p hp
  · exact kindsInstr_ok p hp
  · exact kindsProto_ok p hp
  · exact kindsMsgLeaf_ok p hp

/-! ### the `util.Message` dispatch of package openflow13 -/

theorem msgAnyLenD_nil (d : Nat) (r : UInt16 × V) : msgAnyLenD d .nil ≠ .ok r := by
  cases d <;> simp [msgAnyLenD]
theorem msgAnyMarshalD_nil (d : Nat) (r : Bytes × V) : msgAnyMarshalD d .nil ≠ .ok r := by
  cases d <;> simp [msgAnyMarshalD]

/-- one container arm of the dispatch -/
theorem msg_arm (d : Nat) (k : String) (L' : V → R (UInt16 × V)) (M' : V → R (Bytes × V)) (fs : List V)
    (hL : ∀ fs', msgAnyLenD (d + 1) (.obj k fs') = L' (.obj k fs'))
    (hM : ∀ fs', msgAnyMarshalD (d + 1) (.obj k fs') = M' (.obj k fs'))
    (hkl : LenKind k L') (hkm : MarKind k M') (hk : k ≠ "") (hr : Repeatable L' M' (.obj k fs)) :
    Repeatable (msgAnyLenD (d + 1)) (msgAnyMarshalD (d + 1)) (.obj k fs) := by
  have obj_of : ∀ w : V, w.kind = k → ∃ fs', w = .obj k fs' := by
    intro w hw
    cases w with
    | obj k' fs' => exact ⟨fs', by simp only [V.kind] at hw; rw [hw]⟩
    | _ => exact absurd hw.symm hk
  refine Repeatable.of_dispatch (fun w => w.kind = k) rfl ?_ ?_ (fun l w1 h => hkl _ l w1 rfl h) (fun bs w2 h => hkm _ bs w2 rfl h) hr
  · intro w hw
    obtain ⟨fs', rfl⟩ := obj_of w hw
    exact hL fs'
  · intro w hw
    obtain ⟨fs', rfl⟩ := obj_of w hw
    exact hM fs'

/-- **the interface theorem**: Len() / MarshalBinary() through the `util.Message` interface are repeatable, in any
    order, for EVERY value and at every nesting depth: any of the 118 leaf kinds, PacketOut / VendorHeader / BundleAdd /
    MultipartRequest / MultipartReply around any such value, these containers inside each other… -/
theorem msgAny_childOK : ∀ d, ChildOK (msgAnyLenD d) (msgAnyMarshalD d) := by
  intro d
  induction d with
  | zero =>
    exact ⟨fun a => Repeatable.of_fail (fun r => by simp [msgAnyLenD]) (fun r => by simp [msgAnyMarshalD]),
      msgAnyLenD_nil 0, msgAnyMarshalD_nil 0⟩
  | succ d ih =>
    refine ⟨?_, msgAnyLenD_nil _, msgAnyMarshalD_nil _⟩
    intro v
    cases v with
    | obj k fs =>
      by_cases h1 : k = "PacketOut"
      · subst h1
        exact msg_arm d _ (PacketOut.lenWith (msgAnyLenD d)) (PacketOut.marshalWith (msgAnyLenD d) (msgAnyMarshalD d)) fs
          (fun _ => rfl) (fun _ => rfl) (PacketOut.lenWith_kind _) (PacketOut.marshalWith_kind _ _)
          (by decide) (PacketOut.repeatableWith _ _ ih.rep _)
      by_cases h2 : k = "VendorHeader"
      · subst h2
        exact msg_arm d _ (VendorHeader.lenWith (msgAnyLenD d)) (VendorHeader.marshalWith (msgAnyLenD d) (msgAnyMarshalD d)) fs
          (fun _ => rfl) (fun _ => rfl) (VendorHeader.lenWith_kind _) (VendorHeader.marshalWith_kind _ _)
          (by decide) (VendorHeader.repeatableWith _ _ ih _)
      by_cases h3 : k = "BundleAdd"
      · subst h3
        exact msg_arm d _ (BundleAdd.lenWith (msgAnyLenD d)) (BundleAdd.marshalWith (msgAnyLenD d) (msgAnyMarshalD d)) fs
          (fun _ => rfl) (fun _ => rfl) (BundleAdd.lenWith_kind _) (BundleAdd.marshalWith_kind _ _)
          (by decide) (BundleAdd.repeatableWith _ _ ih.rep _)
      by_cases h4 : k = "MultipartRequest"
      · subst h4
        exact msg_arm d _ (MultipartRequest.lenWith (msgAnyLenD d)) (MultipartRequest.marshalWith (msgAnyLenD d) (msgAnyMarshalD d)) fs
          (fun _ => rfl) (fun _ => rfl) (MultipartRequest.lenWith_kind _)
          (MultipartRequest.marshalWith_kind _ _) (by decide) (MultipartRequest.repeatableWith _ _ ih.rep _)
      by_cases h5 : k = "MultipartReply"
      · subst h5
        exact msg_arm d _ (MultipartReply.lenWith (msgAnyLenD d)) (MultipartReply.marshalWith (msgAnyLenD d) (msgAnyMarshalD d)) fs
          (fun _ => rfl) (fun _ => rfl) (MultipartReply.lenWith_kind _)
          (MultipartReply.marshalWith_kind _ _) (by decide) (MultipartReply.repeatableWith _ _ ih.rep _)
      cases hlk : msgLeafKinds.lookup k with
      | none =>
        apply Repeatable.of_fail
        · intro r; rw [msgAnyLenD_leaf d k fs h1 h2 h3 h4 h5, hlk]; simp
        · intro r; rw [msgAnyMarshalD_leaf d k fs h1 h2 h3 h4 h5, hlk]; simp
      | some ops =>
        have hok := msgLeafKinds_ok k ops hlk
        have hk : k ≠ "" := by
          intro e
          subst e
          have hnone : msgLeafKinds.lookup "" = none := by rfl
          rw [hnone] at hlk
          cases hlk
        exact msg_arm d k ops.lenM ops.marshalM fs
          (fun fs' => by rw [msgAnyLenD_leaf d k fs' h1 h2 h3 h4 h5, hlk])
          (fun fs' => by rw [msgAnyMarshalD_leaf d k fs' h1 h2 h3 h4 h5, hlk])
          hok.lenKind hok.marKind hk (hok.rep _)
    | _ =>
      apply Repeatable.of_fail
      · intro r; simp [msgAnyLenD]
      · intro r; simp [msgAnyMarshalD]

/-! ### the knot tied -/

/-- what every container calls on its `util.Message` children -/
theorem any_childOK : ChildOK anyLenM anyMarshalM := msgAny_childOK 8

/-- Len() / MarshalBinary() through the `util.Message` interface: repeatable for EVERY value -/
theorem any_repeatable (v : V) : Repeatable anyLenM anyMarshalM v := any_childOK.rep v

theorem PacketOut.repeatable (v : V) : Repeatable PacketOut.lenM PacketOut.marshalM v :=
  PacketOut.repeatableWith _ _ any_childOK.rep v
theorem VendorHeader.repeatable (v : V) : Repeatable VendorHeader.lenM VendorHeader.marshalM v :=
  VendorHeader.repeatableWith _ _ any_childOK v
theorem BundleAdd.repeatable (v : V) : Repeatable BundleAdd.lenM BundleAdd.marshalM v :=
  BundleAdd.repeatableWith _ _ any_childOK.rep v
theorem MultipartRequest.repeatable (v : V) : Repeatable MultipartRequest.lenM MultipartRequest.marshalM v :=
  MultipartRequest.repeatableWith _ _ any_childOK.rep v
theorem MultipartReply.repeatable (v : V) : Repeatable MultipartReply.lenM MultipartReply.marshalM v :=
  MultipartReply.repeatableWith _ _ any_childOK.rep v

theorem kindsMsg_ok : ∀ p ∈ kindsMsg, KindOK p.1 p.2 := by
  intro p hp
  simp only [kindsMsg, List.mem_append, List.mem_cons, List.not_mem_nil, or_false] at hp
  rcases hp with hp | rfl | rfl | rfl | rfl | rfl
  · exact kindsMsgLeaf_ok p hp
  · exact ⟨PacketOut.repeatable, PacketOut.lenWith_kind _, PacketOut.marshalWith_kind _ _⟩
  · exact ⟨VendorHeader.repeatable, VendorHeader.lenWith_kind _, VendorHeader.marshalWith_kind _ _⟩
  · exact ⟨BundleAdd.repeatable, BundleAdd.lenWith_kind _, BundleAdd.marshalWith_kind _ _⟩
  · exact ⟨MultipartRequest.repeatable, MultipartRequest.lenWith_kind _, MultipartRequest.marshalWith_kind _ _⟩
  · exact ⟨MultipartReply.repeatable, MultipartReply.lenWith_kind _, MultipartReply.marshalWith_kind _ _⟩

/-- EVERY kind of the model's kind table (all 123 Go types with Len / MarshalBinary) -/
theorem kinds_ok : ∀ p ∈ kinds, KindOK p.1 p.2 := by
  intro p hp
  simp only [kinds, List.mem_append] at hp
  rcases hp with ((((hp | hp) | hp) | hp) | hp) | hp
  · exact kindsHeader_ok p hp
  · exact kindsMatch_ok p hp
  · exact kindsAction_ok p hp
  · exact kindsInstr_ok p hp
  · exact kindsProto_ok p hp
  · exact kindsMsg_ok p hp

theorem kinds_lookup_ok (k : String) (ops : KindOps) (h : kinds.lookup k = some ops) : KindOK k ops :=
  lookup_forall KindOK kinds kinds_ok k ops h

end OFV.Rep
