/-
  OFV.Lemmas.Sw2Match — decoding an `ofp_match` that holds ANY list of OXM TLVs:
    * `FieldDec tlv fv`  : the wire form `tlv` of one OXM TLV is read back as the MatchField value `fv` (whatever follows)
    * `match_fields`     : a match made of such TLVs decodes to the list of their values (loop of Match.UnmarshalBinary)
    * `match_len`        : and its `Len()` is the padded size
    * `Oxm` / `oxm_fieldDec` : every OXM field of class OFPXMC_OPENFLOW_BASIC that the library has a decoder for
                           (31 of the 40 fields of OpenFlow 1.3.5), with or without mask, is such a TLV
    * `onf_fieldDec`     : ONF experimenter fields (class 0xffff, experimenter 0x4f4e4600): tcp_flags (42), actset_output (43)
  Used by OFV/Props/C04b.lean.
-/
import OFV.Model.All
import OFV.Lemmas.SwBasic
import OFV.Lemmas.SwMatch
import OFV.Lemmas.Size
import OFV.Lemmas.RTBasic
import OFV.Lemmas.Sw2Eth
namespace OFV.Sw2
open OFV OFV.Go OFV.Model

/-! ### one TLV, a list of TLVs -/

/-- the wire form `tlv` of one OXM TLV is read back as `fv`, whatever follows it, and `fv.Len()` is the TLV's size -/
def FieldDec (tlv : Bytes) (fv : V) : Prop :=
  (∀ d : Slice, d.WF → ∀ rest, d.bytes = tlv ++ rest → MatchField.unmarshal MatchField.zero d = .ok fv) ∧
  MatchField.lenM fv = .ok (UInt16.ofNat tlv.length, fv) ∧ 4 ≤ tlv.length ∧ tlv.length < 65536

/-- the concatenated TLVs -/
def tlvCat (fs : List (Bytes × V)) : Bytes := (fs.map Prod.fst).flatten

theorem tlvCat_cons (p : Bytes × V) (fs : List (Bytes × V)) : tlvCat (p :: fs) = p.1 ++ tlvCat fs := by
  simp [tlvCat]

theorem tlvCat_len_ge (fs : List (Bytes × V)) (h : ∀ p ∈ fs, FieldDec p.1 p.2) : 4 * fs.length ≤ (tlvCat fs).length := by
  induction fs with
  | nil => simp [tlvCat]
  | cons p fs ih =>
    rw [tlvCat_cons, List.length_append, List.length_cons]
    have := (h p (by simp)).2.2.1
    have := ih (fun q hq => h q (by simp [hq]))
    omega

/-- the field loop of Match.UnmarshalBinary over a list of decodable TLVs (`body`: one iteration, which appends the
    decoded field and advances by its `Len()`) -/
theorem fields_loop (dm : Slice) (hwf : dm.WF) (ln : UInt16) (rest : Bytes) (body : Match.St → R Match.St)
    (hbody : ∀ (s : Match.St) (d : Slice) (f f' : V) (l : UInt16), dm.fromR s.n = .ok d →
      MatchField.unmarshal MatchField.zero d = .ok f → MatchField.lenM f = .ok (l, f') →
      body s = .ok { n := s.n + l.toNat, fields := s.fields ++ [f'], err := false })
    (fs : List (Bytes × V))
    (h : ∀ p ∈ fs, FieldDec p.1 p.2) (n : Nat) (acc : List V) (fuel : Nat) (hfuel : fs.length < fuel)
    (hb : dm.bytes.drop n = tlvCat fs ++ rest) (hln : ln.toNat = n + (tlvCat fs).length) :
    goLoop (σ := Match.St) fuel (fun s => !s.err && s.n < ln.toNat) (fun s => s.n + (if s.err then 1 else 0)) body
      { n := n, fields := acc, err := false }
    = .ok { n := ln.toNat, fields := acc ++ fs.map Prod.snd, err := false } := by
  induction fs generalizing n acc fuel with
  | nil =>
    obtain ⟨f, rfl⟩ : ∃ f, fuel = f + 1 := ⟨fuel - 1, by simp at hfuel; omega⟩
    rw [Sw.goLoop_stop _ _ _ _ _ (by simp [tlvCat] at hln; simp [hln])]
    simp [tlvCat] at hln
    simp [hln]
  | cons p fs ih =>
    obtain ⟨f, rfl⟩ : ∃ f, fuel = f + 1 := ⟨fuel - 1, by simp at hfuel; omega⟩
    obtain ⟨hdec, hlen, h4, h64⟩ := h p (by simp)
    rw [tlvCat_cons] at hb hln
    rw [List.length_append] at hln
    have hnl : n + (p.1 ++ tlvCat fs ++ rest).length = dm.len := by
      have := congrArg List.length hb
      rw [List.length_drop, Sw.bytes_length dm hwf] at this
      simp at this ⊢
      omega
    obtain ⟨d, e1, hdwf, _, hd⟩ := Sw.fromR_at dm hwf n (by simp at hnl; omega)
    rw [hb, List.append_assoc] at hd
    have hl16 : (UInt16.ofNat p.1.length).toNat = p.1.length := Sw.ofNat16_toNat _ h64
    rw [Sw.goLoop_step _ _ _ _ _ ⟨n + p.1.length, acc ++ [p.2], false⟩
        (by simp; omega)
        (by rw [hbody ⟨n, acc, false⟩ d p.2 p.2 _ e1 (hdec d hdwf _ hd) hlen, hl16])
        (by show n + 0 < n + p.1.length + 0; omega)]
    rw [ih (fun q hq => h q (by simp [hq])) (n + p.1.length) (acc ++ [p.2]) f (by simp at hfuel; omega)
      (by
        rw [← List.drop_drop, hb, List.append_assoc]
        simp)
      (by omega)]
    simp

/-- `mapM2 MatchField.lenM` over the decoded values -/
theorem fields_lens (fs : List (Bytes × V)) (h : ∀ p ∈ fs, FieldDec p.1 p.2) :
    mapM2 MatchField.lenM (fs.map Prod.snd) = .ok (fs.map (fun p => UInt16.ofNat p.1.length), fs.map Prod.snd) := by
  induction fs with
  | nil => rfl
  | cons p fs ih =>
    have := (h p (by simp)).2.1
    simp only [List.map_cons, mapM2, this, Res.bind_ok, ih (fun q hq => h q (by simp [hq]))]
    rfl

theorem fields_sum (fs : List (Bytes × V)) (h : ∀ p ∈ fs, FieldDec p.1 p.2) (hlen : (tlvCat fs).length < 65536) :
    (sum16 (fs.map (fun p => UInt16.ofNat p.1.length))).toNat = (tlvCat fs).length := by
  have hs : ((fs.map (fun p => UInt16.ofNat p.1.length)).map UInt16.toNat).sum = (tlvCat fs).length := by
    clear hlen
    induction fs with
    | nil => simp [tlvCat]
    | cons p fs ih =>
      rw [tlvCat_cons, List.length_append]
      simp only [List.map_cons, List.sum_cons]
      rw [ih (fun q hq => h q (by simp [hq])), Sw.ofNat16_toNat _ (h p (by simp)).2.2.2]
  rw [sum16_toNat _ (by rw [hs]; exact hlen), hs]

/-- the decoded match -/
def matchV (fs : List (Bytes × V)) : V :=
  .obj "Match" [.num 1, .num (4 + (tlvCat fs).length), .list (fs.map Prod.snd)]

/-- `ofp_match` (type 1 = OXM, length = 4 + size of the TLVs, the TLVs; padding or anything else may follow) decodes to
    the values of its TLVs, in order -/
theorem match_fields (a b : V) (fs : List (Bytes × V)) (h : ∀ p ∈ fs, FieldDec p.1 p.2) (dm : Slice) (hwf : dm.WF)
    (rest : Bytes) (hlen : 4 + (tlvCat fs).length < 65536)
    (hb : dm.bytes = be16 1 ++ (be16 (UInt16.ofNat (4 + (tlvCat fs).length)) ++ (tlvCat fs ++ rest))) :
    Match.unmarshalP (.obj "Match" [a, b, .list []]) dm = .ok (matchV fs, false) := by
  have hl : dm.len = 4 + (tlvCat fs).length + rest.length := by
    rw [← Sw.bytes_length dm hwf, hb]; simp; omega
  have hge := tlvCat_len_ge fs h
  unfold Match.unmarshalP
  simp only [Sw.u16From_at dm 0 1 _ hb, Sw.u16From_at dm 2 _ _ (by rw [hb]; rfl), Res.bind_ok]
  rw [fields_loop dm hwf _ rest _
    (by
      intro s d f f' l h1 h2 h3
      simp only [h1, Res.bind_ok, h2, h3]
      rfl)
    fs h 4 [] _ (by omega) (by rw [hb]; rfl) (Sw.ofNat16_toNat _ hlen)]
  simp only [Res.bind_ok, Res.pure_eq, V.u16, Sw.ofNat16_toNat _ hlen, List.nil_append]
  rfl

/-- `Len()` of the decoded match: header and TLVs rounded up to a multiple of 8 -/
theorem match_len (fs : List (Bytes × V)) (h : ∀ p ∈ fs, FieldDec p.1 p.2) (hlen : 4 + (tlvCat fs).length + 7 < 65536) :
    ∃ ml, Match.lenM (matchV fs) = .ok (ml, matchV fs) ∧ ml.toNat = (4 + (tlvCat fs).length + 7) / 8 * 8 := by
  refine ⟨round8 (4 + sum16 (fs.map (fun p => UInt16.ofNat p.1.length))), ?_, ?_⟩
  · unfold matchV Match.lenM
    simp only [fields_lens fs h, Res.bind_ok]
    rfl
  · have hs := fields_sum fs h (by omega)
    have h4 : ((4 : UInt16) + sum16 (fs.map (fun p => UInt16.ofNat p.1.length))).toNat = 4 + (tlvCat fs).length := by
      rw [UInt16.toNat_add, hs]
      show (4 + (tlvCat fs).length) % 65536 = _
      omega
    unfold round8
    rw [UInt16.toNat_mul, UInt16.toNat_div, UInt16.toNat_add, h4]
    show ((4 + (tlvCat fs).length + 7) % 65536 / 8) * 8 % 65536 = _
    omega

/-- the same for a match value with any type and length field (`Len()` looks at the fields only) -/
theorem match_len_any (a b : V) (fs : List (Bytes × V)) (h : ∀ p ∈ fs, FieldDec p.1 p.2)
    (hlen : 4 + (tlvCat fs).length + 7 < 65536) :
    ∃ ml, Match.lenM (.obj "Match" [a, b, .list (fs.map Prod.snd)]) = .ok (ml, .obj "Match" [a, b, .list (fs.map Prod.snd)])
      ∧ ml.toNat = (4 + (tlvCat fs).length + 7) / 8 * 8 := by
  refine ⟨round8 (4 + sum16 (fs.map (fun p => UInt16.ofNat p.1.length))), ?_, ?_⟩
  · unfold Match.lenM
    simp only [fields_lens fs h, Res.bind_ok]
    rfl
  · have hs := fields_sum fs h (by omega)
    have h4 : ((4 : UInt16) + sum16 (fs.map (fun p => UInt16.ofNat p.1.length))).toNat = 4 + (tlvCat fs).length := by
      rw [UInt16.toNat_add, hs]
      show (4 + (tlvCat fs).length) % 65536 = _
      omega
    unfold round8
    rw [UInt16.toNat_mul, UInt16.toNat_div, UInt16.toNat_add, h4]
    show ((4 + (tlvCat fs).length + 7) % 65536 / 8) * 8 % 65536 = _
    omega

/-- the bytes of a padded `ofp_match` holding the given TLVs -/
def matchBytes (fs : List (Bytes × V)) : Bytes :=
  be16 1 ++ (be16 (UInt16.ofNat (4 + (tlvCat fs).length)) ++ (tlvCat fs ++ zeros ((8 - (4 + (tlvCat fs).length) % 8) % 8)))

theorem matchBytes_length (fs : List (Bytes × V)) : (matchBytes fs).length = (4 + (tlvCat fs).length + 7) / 8 * 8 := by
  simp [matchBytes]; omega

/-! ### payload values -/

/-- the payload bytes `value` are read back by the decoder of `recv` as `pv` (whatever follows), and `pv.Len()` is
    their number -/
def PayDec (recv : V) (value : Bytes) (pv : V) : Prop :=
  (∀ d : Slice, d.WF → ∀ rest, d.bytes = value ++ rest → MatchPayload.unmarshal recv d = .ok pv) ∧
  MatchPayload.lenM pv = .ok (UInt16.ofNat value.length, pv) ∧ value.length < 256

theorem payDec_u8 (k : String) (hk : k = "MplsBosField" ∨ k = "IpProtoField" ∨ k = "IpDscpField" ∨ k = "IcmpTypeField"
    ∨ k = "IcmpCodeField") (x : UInt8) : PayDec (.obj k [.num 0]) [x] (.obj k [.num x.toNat]) := by
  refine ⟨?_, ?_, by simp⟩
  · intro d hwf rest hb
    have hl : d.len = 1 + rest.length := by rw [← Sw.bytes_length d hwf, hb]; simp; omega
    have hx := Sw.byteAt_at d 0 x rest (by rw [hb]; rfl)
    rcases hk with rfl | rfl | rfl | rfl | rfl
    · show (d.byteAt 0 >>= fun x => _) = _; rw [hx]; rfl
    · show (d.byteAt 0 >>= fun x => _) = _; rw [hx]; rfl
    · show (d.byteAt 0 >>= fun x => _) = _; rw [hx]; rfl
    · show (if d.len < 1 then _ else d.byteAt 0 >>= fun x => _) = _; rw [if_neg (by omega), hx]; rfl
    · show (if d.len < 1 then _ else d.byteAt 0 >>= fun x => _) = _; rw [if_neg (by omega), hx]; rfl
  · rcases hk with rfl | rfl | rfl | rfl | rfl <;> rfl

theorem payDec_u16 (k : String) (hk : k = "EthTypeField" ∨ k = "VlanIdField" ∨ k = "PortField" ∨ k = "TcpFlagsField"
    ∨ k = "ArpOperField") (x : UInt16) : PayDec (.obj k [.num 0]) (be16 x) (.obj k [.num x.toNat]) := by
  refine ⟨?_, ?_, by simp⟩
  · intro d hwf rest hb
    have hx := Sw.u16From_at d 0 x rest hb
    rcases hk with rfl | rfl | rfl | rfl | rfl <;> (show (d.u16From 0 >>= fun x => _) = _; rw [hx]; rfl)
  · rcases hk with rfl | rfl | rfl | rfl | rfl <;> rfl

theorem payDec_u32 (k : String) (hk : k = "InPortField" ∨ k = "MplsLabelField" ∨ k = "IPv6FlowLabelField"
    ∨ k = "ActsetOutputField") (x : UInt32) : PayDec (.obj k [.num 0]) (be32 x) (.obj k [.num x.toNat]) := by
  refine ⟨?_, ?_, by simp⟩
  · intro d hwf rest hb
    have hx := Sw.u32From_at d 0 x rest hb
    rcases hk with rfl | rfl | rfl | rfl <;> (show (d.u32From 0 >>= fun x => _) = _; rw [hx]; rfl)
  · rcases hk with rfl | rfl | rfl | rfl <;> rfl

theorem payDec_u64 (k : String) (hk : k = "TunnelIdField" ∨ k = "MetadataField") (x : UInt64) :
    PayDec (.obj k [.num 0]) (be64 x) (.obj k [.num x.toNat]) := by
  refine ⟨?_, ?_, by simp⟩
  · intro d hwf rest hb
    have hx := Sw.u64From_at d 0 x rest hb
    rcases hk with rfl | rfl <;> (show (d.u64From 0 >>= fun x => _) = _; rw [hx]; rfl)
  · rcases hk with rfl | rfl <;> rfl

theorem payDec_mac (k : String) (hk : k = "EthDstField" ∨ k = "EthSrcField" ∨ k = "ArpXHaField") (b : Bytes)
    (hlen : b.length = 6) : PayDec (.obj k [.bytes []]) b (.obj k [.bytes b]) := by
  refine ⟨?_, ?_, by omega⟩
  · intro d hwf rest hb
    have hl : d.len = 6 + rest.length := by rw [← Sw.bytes_length d hwf, hb]; simp; omega
    rcases hk with rfl | rfl | rfl
    · show Res.ok (V.obj _ [.bytes (makeCopy 6 d.bytes)]) = _
      rw [hb, RT.makeCopy_exact 6 b rest hlen]
    · show Res.ok (V.obj _ [.bytes (makeCopy 6 d.bytes)]) = _
      rw [hb, RT.makeCopy_exact 6 b rest hlen]
    · obtain ⟨t, e1, _, _, ht⟩ := Sw.uptoR_at d hwf 6 (by omega)
      show (if d.len < 6 then _ else d.uptoR 6 >>= fun s => _) = _
      rw [if_neg (by omega), e1]
      simp only [Res.bind_ok, ht, hb, Sw.take_pre b rest 6 hlen, RT.makeCopy_self 6 b hlen]
      rfl
  · rw [hlen]; rcases hk with rfl | rfl | rfl <;> rfl

theorem payDec_ip6 (k : String) (hk : k = "Ipv6SrcField" ∨ k = "Ipv6DstField") (b : Bytes) (hlen : b.length = 16) :
    PayDec (.obj k [.bytes []]) b (.obj k [.bytes b]) := by
  refine ⟨?_, ?_, by omega⟩
  · intro d hwf rest hb
    rcases hk with rfl | rfl <;>
      (show Res.ok (V.obj _ [.bytes (makeCopy 16 d.bytes)]) = _
       rw [hb, RT.makeCopy_exact 16 b rest hlen])
  · rw [hlen]; rcases hk with rfl | rfl <;> rfl

theorem readIPv4_at (d : Slice) (a b c e : UInt8) (rest : Bytes) (hb : d.bytes = [a, b, c, e] ++ rest) :
    readIPv4 d = .ok (ipv4 a b c e) := by
  unfold readIPv4
  rw [Sw.byteAt_at d 0 a _ (by rw [hb]; rfl), Sw.byteAt_at d 1 b _ (by rw [hb]; rfl),
    Sw.byteAt_at d 2 c _ (by rw [hb]; rfl), Sw.byteAt_at d 3 e _ (by rw [hb]; rfl)]
  rfl

/-- IPv4 addresses come back as the 16-byte `net.IP` form of the address (`net.IPv4(a,b,c,d)`) -/
theorem payDec_ip4 (k : String) (hk : k = "Ipv4SrcField" ∨ k = "Ipv4DstField" ∨ k = "ArpXPaField") (a b c e : UInt8) :
    PayDec (.obj k [.bytes []]) [a, b, c, e] (.obj k [.bytes (ipv4 a b c e)]) := by
  refine ⟨?_, ?_, by simp⟩
  · intro d hwf rest hb
    have hl : d.len = 4 + rest.length := by rw [← Sw.bytes_length d hwf, hb]; simp; omega
    have hx := readIPv4_at d a b c e rest hb
    rcases hk with rfl | rfl | rfl
    · show (readIPv4 d >>= fun ip => _) = _; rw [hx]; rfl
    · show (readIPv4 d >>= fun ip => _) = _; rw [hx]; rfl
    · show (if d.len < 4 then _ else readIPv4 d >>= fun ip => _) = _; rw [if_neg (by omega), hx]; rfl
  · rcases hk with rfl | rfl | rfl <;> rfl

/-! ### the OXM header and the TLV of one field -/

theorem fld_even (f : Nat) (hf : f < 128) :
    ((UInt8.ofNat (2 * f)) >>> 1).toNat = f ∧ ((UInt8.ofNat (2 * f) &&& 1) == 1) = false := by
  constructor
  · rw [UInt8.toNat_shiftRight, UInt8.toNat_ofNat']
    show (2 * f % 256) >>> 1 = f
    rw [Nat.shiftRight_eq_div_pow]; omega
  · have : (UInt8.ofNat (2 * f) &&& 1).toNat = 0 := by
      rw [UInt8.toNat_and, UInt8.toNat_ofNat']
      show (2 * f % 256) &&& 1 = 0
      rw [and_mask _ 1 1 rfl]; omega
    have h0 : UInt8.ofNat (2 * f) &&& 1 = 0 := UInt8.toNat_inj.mp this
    rw [h0]; rfl

theorem fld_odd (f : Nat) (hf : f < 128) :
    ((UInt8.ofNat (2 * f + 1)) >>> 1).toNat = f ∧ ((UInt8.ofNat (2 * f + 1) &&& 1) == 1) = true := by
  constructor
  · rw [UInt8.toNat_shiftRight, UInt8.toNat_ofNat']
    show ((2 * f + 1) % 256) >>> 1 = f
    rw [Nat.shiftRight_eq_div_pow]; omega
  · have : (UInt8.ofNat (2 * f + 1) &&& 1).toNat = 1 := by
      rw [UInt8.toNat_and, UInt8.toNat_ofNat']
      show ((2 * f + 1) % 256) &&& 1 = 1
      rw [and_mask _ 1 1 rfl]; omega
    have h0 : UInt8.ofNat (2 * f + 1) &&& 1 = 1 := UInt8.toNat_inj.mp this
    rw [h0]; rfl

theorem ofNat16_add (a b : Nat) : UInt16.ofNat a + UInt16.ofNat b = UInt16.ofNat (a + b) := by
  apply UInt16.toNat_inj.mp
  rw [UInt16.toNat_add, UInt16.toNat_ofNat', UInt16.toNat_ofNat', UInt16.toNat_ofNat']
  omega

/-- an OXM TLV without mask of a class other than experimenter: class(2), field<<1(1), payload length(1), value.
    `hrecv`: the decoder `DecodeMatchField` picks for (class, field) is the decoder of `recv` -/
theorem field_nomask (cls : UInt16) (f : Nat) (hf : f < 128) (ln : UInt8) (recv : V) (value : Bytes) (pv : V)
    (hcls : cls.toNat ≠ 65535)
    (hrecv : ∀ d, DecodeMatchField cls.toNat f ln.toNat false d = MatchPayload.unmarshal recv d)
    (hp : PayDec recv value pv) :
    FieldDec (be16 cls ++ ([UInt8.ofNat (2 * f), ln] ++ value))
      (.obj "MatchField" [.num cls.toNat, .num f, .num 0, .num ln.toNat, .num 0, pv, .nil]) := by
  obtain ⟨hdec, hlen, h256⟩ := hp
  obtain ⟨hf1, hf2⟩ := fld_even f hf
  refine ⟨?_, ?_, by simp; omega, by simp; omega⟩
  · intro d hwf rest hb
    have hl : d.len = 4 + value.length + rest.length := by rw [← Sw.bytes_length d hwf, hb]; simp; omega
    obtain ⟨d4, e1, hd4wf, _, hd4⟩ := Sw.fromR_at d hwf 4 (by omega)
    rw [hb] at hd4
    have hd4' : d4.bytes = value ++ rest := hd4
    unfold MatchField.unmarshal MatchField.zero
    simp only [Sw.u16From_at d 0 cls (([UInt8.ofNat (2 * f), ln] ++ value) ++ rest) (by rw [hb, List.append_assoc]; rfl), Sw.byteAt_at d 2 (UInt8.ofNat (2 * f)) _ (by rw [hb]; rfl),
      Sw.byteAt_at d 3 ln _ (by rw [hb]; rfl), Res.bind_ok, hf1, hf2]
    rw [if_neg (show ¬ cls.toNat = Gen.openflow13.OXM_CLASS_EXPERIMENTER from hcls)]
    show (d.fromR 4 >>= fun d2 => DecodeMatchField cls.toNat f ln.toNat false d2 >>= _) = _
    rw [e1]
    simp only [Res.bind_ok, hrecv, hdec d4 hd4wf rest hd4', hlen, Bool.false_eq_true, if_false, Res.pure_eq, V.u8, V.u16,
      V.bool, hf1]
  · have hlt : (be16 cls ++ ([UInt8.ofNat (2 * f), ln] ++ value)).length = 4 + value.length := by simp; omega
    unfold MatchField.lenM
    simp only [hlen, Res.bind_ok, if_true]
    rw [hlt, ← ofNat16_add]
    rfl

/-- an OXM TLV with mask of a class other than experimenter: class(2), field<<1|1 (1), payload length(1), value, mask -/
theorem field_mask (cls : UInt16) (f : Nat) (hf : f < 128) (ln : UInt8) (recv : V) (value mask : Bytes) (pv pm : V)
    (hcls : cls.toNat ≠ 65535)
    (hrecv : ∀ d, DecodeMatchField cls.toNat f ln.toNat true d = MatchPayload.unmarshal recv d)
    (hp : PayDec recv value pv) (hpm : PayDec recv mask pm) :
    FieldDec (be16 cls ++ ([UInt8.ofNat (2 * f + 1), ln] ++ (value ++ mask)))
      (.obj "MatchField" [.num cls.toNat, .num f, .num 1, .num ln.toNat, .num 0, pv, pm]) := by
  obtain ⟨hdec, hlen, h256⟩ := hp
  obtain ⟨hdecm, hlenm, h256m⟩ := hpm
  obtain ⟨hf1, hf2⟩ := fld_odd f hf
  refine ⟨?_, ?_, by simp; omega, by simp; omega⟩
  · intro d hwf rest hb
    have hl : d.len = 4 + value.length + mask.length + rest.length := by
      rw [← Sw.bytes_length d hwf, hb]; simp; omega
    obtain ⟨d4, e1, hd4wf, _, hd4⟩ := Sw.fromR_at d hwf 4 (by omega)
    obtain ⟨d5, e2, hd5wf, _, hd5⟩ := Sw.fromR_at d hwf (4 + value.length) (by omega)
    rw [hb] at hd4 hd5
    have hd4' : d4.bytes = value ++ (mask ++ rest) := by rw [hd4]; show value ++ mask ++ rest = _; rw [List.append_assoc]
    have hd5' : d5.bytes = mask ++ rest := by
      rw [hd5, ← List.drop_drop]
      show List.drop value.length (value ++ mask ++ rest) = _
      rw [List.append_assoc]; simp
    have hn : ((4 : UInt16) + UInt16.ofNat value.length).toNat = 4 + value.length := by
      rw [show (4 : UInt16) = UInt16.ofNat 4 from rfl, ofNat16_add, Sw.ofNat16_toNat _ (by omega)]
    unfold MatchField.unmarshal MatchField.zero
    simp only [Sw.u16From_at d 0 cls (([UInt8.ofNat (2 * f + 1), ln] ++ (value ++ mask)) ++ rest) (by rw [hb, List.append_assoc]; rfl),
      Sw.byteAt_at d 2 (UInt8.ofNat (2 * f + 1)) _ (by rw [hb]; rfl),
      Sw.byteAt_at d 3 ln _ (by rw [hb]; rfl), Res.bind_ok, hf1, hf2]
    rw [if_neg (show ¬ cls.toNat = Gen.openflow13.OXM_CLASS_EXPERIMENTER from hcls)]
    show (d.fromR 4 >>= fun d2 => DecodeMatchField cls.toNat f ln.toNat true d2 >>= _) = _
    rw [e1]
    simp only [Res.bind_ok, hrecv, hdec d4 hd4wf _ hd4', hlen, if_true, hn, e2, hdecm d5 hd5wf rest hd5', hlenm, Res.pure_eq,
      V.u8, V.u16, V.bool, hf1]
  · have hlt : (be16 cls ++ ([UInt8.ofNat (2 * f + 1), ln] ++ (value ++ mask))).length = 4 + value.length + mask.length := by
      simp; omega
    unfold MatchField.lenM
    simp only [hlen, hlenm, Res.bind_ok]
    rw [if_neg (by decide)]
    simp only [if_true]
    rw [hlt, ← ofNat16_add, ← ofNat16_add]
    rfl

/-- an ONF experimenter OXM TLV without mask: class 0xffff, field<<1, length, experimenter id 0x4f4e4600, value -/
theorem onf_field_nomask (f : Nat) (hf : f < 128) (ln : UInt8) (recv : V) (value : Bytes) (pv : V)
    (hrecv : ∀ d, DecodeMatchField 65535 f ln.toNat false d = MatchPayload.unmarshal recv d)
    (hp : PayDec recv value pv) :
    FieldDec (be16 0xffff ++ ([UInt8.ofNat (2 * f), ln] ++ (be32 0x4f4e4600 ++ value)))
      (.obj "MatchField" [.num 65535, .num f, .num 0, .num ln.toNat, .num 0x4f4e4600, pv, .nil]) := by
  obtain ⟨hdec, hlen, h256⟩ := hp
  obtain ⟨hf1, hf2⟩ := fld_even f hf
  refine ⟨?_, ?_, by simp; omega, by simp; omega⟩
  · intro d hwf rest hb
    have hl : d.len = 8 + value.length + rest.length := by rw [← Sw.bytes_length d hwf, hb]; simp; omega
    obtain ⟨d8, e1, hd8wf, _, hd8⟩ := Sw.fromR_at d hwf 8 (by omega)
    rw [hb] at hd8
    have hd8' : d8.bytes = value ++ rest := hd8
    unfold MatchField.unmarshal MatchField.zero
    simp only [Sw.u16From_at d 0 0xffff (([UInt8.ofNat (2 * f), ln] ++ (be32 0x4f4e4600 ++ value)) ++ rest)
        (by rw [hb, List.append_assoc]; rfl),
      Sw.byteAt_at d 2 (UInt8.ofNat (2 * f)) _ (by rw [hb]; rfl),
      Sw.byteAt_at d 3 ln _ (by rw [hb]; rfl), Res.bind_ok, hf1, hf2]
    rw [if_pos (by decide)]
    simp only [Sw.u32From_at d 4 0x4f4e4600 (value ++ rest) (by rw [hb]; exact List.append_assoc (be32 0x4f4e4600) value rest),
      Res.bind_ok]
    rw [if_pos (by decide)]
    show (d.fromR 8 >>= fun d2 => DecodeMatchField 65535 f ln.toNat false d2 >>= _) = _
    rw [e1]
    simp only [Res.bind_ok, hrecv, hdec d8 hd8wf rest hd8', hlen, Bool.false_eq_true, if_false, Res.pure_eq, V.u8, V.u16,
      V.u32, V.bool, hf1]
    rfl
  · have hlt : (be16 0xffff ++ ([UInt8.ofNat (2 * f), ln] ++ (be32 0x4f4e4600 ++ value))).length = 8 + value.length := by
      simp; omega
    unfold MatchField.lenM
    simp only [hlen, Res.bind_ok, if_true]
    rw [if_neg (by decide), hlt, ← ofNat16_add]
    rfl

/-- an ONF experimenter OXM TLV with mask -/
theorem onf_field_mask (f : Nat) (hf : f < 128) (ln : UInt8) (recv : V) (value mask : Bytes) (pv pm : V)
    (hrecv : ∀ d, DecodeMatchField 65535 f ln.toNat true d = MatchPayload.unmarshal recv d)
    (hp : PayDec recv value pv) (hpm : PayDec recv mask pm) :
    FieldDec (be16 0xffff ++ ([UInt8.ofNat (2 * f + 1), ln] ++ (be32 0x4f4e4600 ++ (value ++ mask))))
      (.obj "MatchField" [.num 65535, .num f, .num 1, .num ln.toNat, .num 0x4f4e4600, pv, pm]) := by
  obtain ⟨hdec, hlen, h256⟩ := hp
  obtain ⟨hdecm, hlenm, h256m⟩ := hpm
  obtain ⟨hf1, hf2⟩ := fld_odd f hf
  refine ⟨?_, ?_, by simp; omega, by simp; omega⟩
  · intro d hwf rest hb
    have hl : d.len = 8 + value.length + mask.length + rest.length := by
      rw [← Sw.bytes_length d hwf, hb]; simp; omega
    obtain ⟨d8, e1, hd8wf, _, hd8⟩ := Sw.fromR_at d hwf 8 (by omega)
    obtain ⟨d9, e2, hd9wf, _, hd9⟩ := Sw.fromR_at d hwf (8 + value.length) (by omega)
    rw [hb] at hd8 hd9
    have hd8' : d8.bytes = value ++ (mask ++ rest) := by rw [hd8]; show value ++ mask ++ rest = _; rw [List.append_assoc]
    have hd9' : d9.bytes = mask ++ rest := by
      rw [hd9, ← List.drop_drop]
      show List.drop value.length (value ++ mask ++ rest) = _
      rw [List.append_assoc]; simp
    have hn : ((8 : UInt16) + UInt16.ofNat value.length).toNat = 8 + value.length := by
      rw [show (8 : UInt16) = UInt16.ofNat 8 from rfl, ofNat16_add, Sw.ofNat16_toNat _ (by omega)]
    unfold MatchField.unmarshal MatchField.zero
    simp only [Sw.u16From_at d 0 0xffff (([UInt8.ofNat (2 * f + 1), ln] ++ (be32 0x4f4e4600 ++ (value ++ mask))) ++ rest)
        (by rw [hb, List.append_assoc]; rfl),
      Sw.byteAt_at d 2 (UInt8.ofNat (2 * f + 1)) _ (by rw [hb]; rfl),
      Sw.byteAt_at d 3 ln _ (by rw [hb]; rfl), Res.bind_ok, hf1, hf2]
    rw [if_pos (by decide)]
    simp only [Sw.u32From_at d 4 0x4f4e4600 ((value ++ mask) ++ rest) (by rw [hb]; exact List.append_assoc (be32 0x4f4e4600) (value ++ mask) rest),
      Res.bind_ok]
    rw [if_pos (by decide)]
    show (d.fromR 8 >>= fun d2 => DecodeMatchField 65535 f ln.toNat true d2 >>= _) = _
    rw [e1]
    have h65 : (65535 : UInt16).toNat = 65535 := rfl
    simp only [h65, Res.bind_ok, hrecv, hdec d8 hd8wf _ hd8', hlen, if_true, hn, e2, hdecm d9 hd9wf rest hd9', hlenm,
      Res.pure_eq, V.u8, V.u16, V.u32, V.bool, hf1]
    rfl
  · have hlt : (be16 0xffff ++ ([UInt8.ofNat (2 * f + 1), ln] ++ (be32 0x4f4e4600 ++ (value ++ mask)))).length
        = 8 + value.length + mask.length := by simp; omega
    unfold MatchField.lenM
    simp only [hlen, hlenm, Res.bind_ok]
    rw [if_neg (by decide), if_neg (by decide)]
    rw [hlt, ← ofNat16_add, ← ofNat16_add]
    rfl

/-! ### the fields of class OFPXMC_OPENFLOW_BASIC, by table -/

/-- widths of OXM payloads -/
inductive Shape
  | u8 | u16 | u32 | u64 | mac | ip4 | ip6
deriving DecidableEq, Repr

/-- an OXM payload (value or mask) as the specification writes it: an unsigned number of 1, 2, 4, 8 bytes, a MAC address,
    an IPv4 address, an IPv6 address -/
inductive OxmVal
  | u8 (x : UInt8)
  | u16 (x : UInt16)
  | u32 (x : UInt32)
  | u64 (x : UInt64)
  | mac (b : Bytes)
  | ip4 (a b c d : UInt8)
  | ip6 (b : Bytes)

namespace OxmVal
def shape : OxmVal → Shape
  | u8 _ => .u8 | u16 _ => .u16 | u32 _ => .u32 | u64 _ => .u64 | mac _ => .mac | ip4 .. => .ip4 | ip6 _ => .ip6
/-- the bytes on the wire (big-endian numbers) -/
def bytes : OxmVal → Bytes
  | u8 x => [x] | u16 x => be16 x | u32 x => be32 x | u64 x => be64 x | mac b => b | ip4 a b c d => [a, b, c, d] | ip6 b => b
/-- addresses have their specified length -/
def OK : OxmVal → Prop
  | mac b => b.length = 6
  | ip6 b => b.length = 16
  | _ => True
/-- the decoded payload of Go type `k`: numbers as numbers, MAC / IPv6 addresses as their bytes, IPv4 addresses in the
    16-byte `net.IP` form -/
def toV (k : String) : OxmVal → V
  | u8 x => .obj k [.num x.toNat]
  | u16 x => .obj k [.num x.toNat]
  | u32 x => .obj k [.num x.toNat]
  | u64 x => .obj k [.num x.toNat]
  | mac b => .obj k [.bytes b]
  | ip4 a b c d => .obj k [.bytes (ipv4 a b c d)]
  | ip6 b => .obj k [.bytes b]
theorem bytes_length_le (v : OxmVal) (h : v.OK) : v.bytes.length ≤ 16 := by
  cases v <;> simp [bytes, OK] at * <;> omega
end OxmVal

/-- OpenFlow 1.3.5 `oxm_ofb_match_fields`: field number ↦ (Go type that holds the value, width), for the 31 fields the
    library has a decoder for.  (No entry: in_phy_port 1, vlan_pcp 7, ip_ecn 9, mpls_tc 35, pbb_isid 37, ipv6_exthdr 39.) -/
def basicKind : Nat → Option (String × Shape)
  | 0 => some ("InPortField", .u32)
  | 2 => some ("MetadataField", .u64)
  | 3 => some ("EthDstField", .mac)
  | 4 => some ("EthSrcField", .mac)
  | 5 => some ("EthTypeField", .u16)
  | 6 => some ("VlanIdField", .u16)
  | 8 => some ("IpDscpField", .u8)
  | 10 => some ("IpProtoField", .u8)
  | 11 => some ("Ipv4SrcField", .ip4)
  | 12 => some ("Ipv4DstField", .ip4)
  | 13 => some ("PortField", .u16)
  | 14 => some ("PortField", .u16)
  | 15 => some ("PortField", .u16)
  | 16 => some ("PortField", .u16)
  | 17 => some ("PortField", .u16)
  | 18 => some ("PortField", .u16)
  | 19 => some ("IcmpTypeField", .u8)
  | 20 => some ("IcmpCodeField", .u8)
  | 21 => some ("ArpOperField", .u16)
  | 22 => some ("ArpXPaField", .ip4)
  | 23 => some ("ArpXPaField", .ip4)
  | 24 => some ("ArpXHaField", .mac)
  | 25 => some ("ArpXHaField", .mac)
  | 26 => some ("Ipv6SrcField", .ip6)
  | 27 => some ("Ipv6DstField", .ip6)
  | 28 => some ("IPv6FlowLabelField", .u32)
  | 29 => some ("IcmpTypeField", .u8)
  | 30 => some ("IcmpCodeField", .u8)
  | 31 => some ("Ipv6DstField", .ip6)
  | 32 => some ("EthSrcField", .mac)
  | 33 => some ("EthDstField", .mac)
  | 34 => some ("MplsLabelField", .u32)
  | 36 => some ("MplsBosField", .u8)
  | 38 => some ("TunnelIdField", .u64)
  | _ => none

/-- `new(T)` for the Go type `k` -/
def recvOf (k : String) : Shape → V
  | .u8 | .u16 | .u32 | .u64 => .obj k [.num 0]
  | _ => .obj k [.bytes []]

/-- the Go types that hold a payload of the given width -/
def kindOK (k : String) : Shape → Prop
  | .u8 => k = "MplsBosField" ∨ k = "IpProtoField" ∨ k = "IpDscpField" ∨ k = "IcmpTypeField" ∨ k = "IcmpCodeField"
  | .u16 => k = "EthTypeField" ∨ k = "VlanIdField" ∨ k = "PortField" ∨ k = "TcpFlagsField" ∨ k = "ArpOperField"
  | .u32 => k = "InPortField" ∨ k = "MplsLabelField" ∨ k = "IPv6FlowLabelField" ∨ k = "ActsetOutputField"
  | .u64 => k = "TunnelIdField" ∨ k = "MetadataField"
  | .mac => k = "EthDstField" ∨ k = "EthSrcField" ∨ k = "ArpXHaField"
  | .ip4 => k = "Ipv4SrcField" ∨ k = "Ipv4DstField" ∨ k = "ArpXPaField"
  | .ip6 => k = "Ipv6SrcField" ∨ k = "Ipv6DstField"

theorem payDec_val (k : String) (v : OxmVal) (hk : kindOK k v.shape) (hok : v.OK) :
    PayDec (recvOf k v.shape) v.bytes (v.toV k) := by
  cases v with
  | u8 x => exact payDec_u8 k hk x
  | u16 x => exact payDec_u16 k hk x
  | u32 x => exact payDec_u32 k hk x
  | u64 x => exact payDec_u64 k hk x
  | mac b => exact payDec_mac k hk b hok
  | ip4 a b c d => exact payDec_ip4 k hk a b c d
  | ip6 b => exact payDec_ip6 k hk b hok

/-- for every field of the table, `DecodeMatchField` runs the decoder of the Go type the table names -/
theorem basic_recv (f : Nat) (k : String) (sh : Shape) (h : basicKind f = some (k, sh)) :
    (∀ ln hm d, DecodeMatchField 32768 f ln hm d = MatchPayload.unmarshal (recvOf k sh) d) ∧ f < 128 ∧ kindOK k sh := by
  unfold basicKind at h
  split at h <;> first
    | (cases h; exact ⟨fun _ _ _ => rfl, by decide, by simp [kindOK]⟩)
    | cases h

/-- one OXM TLV of class OFPXMC_OPENFLOW_BASIC: field number, value, optional mask -/
structure Oxm where
  field : Nat
  value : OxmVal
  mask : Option OxmVal

namespace Oxm
/-- the field is in the table, value and mask have the field's width -/
def WF (o : Oxm) : Prop :=
  ∃ k, basicKind o.field = some (k, o.value.shape) ∧ o.value.OK ∧ ∀ m, o.mask = some m → m.shape = o.value.shape ∧ m.OK
/-- the Go type of the payload -/
def kind (o : Oxm) : String :=
  match basicKind o.field with
  | some (k, _) => k
  | none => ""
/-- the TLV on the wire: oxm_class 0x8000, oxm_field(7 bits) oxm_hasmask(1), oxm_length = payload bytes, value, mask -/
def bytes (o : Oxm) : Bytes :=
  match o.mask with
  | none => be16 0x8000 ++ ([UInt8.ofNat (2 * o.field), UInt8.ofNat o.value.bytes.length] ++ o.value.bytes)
  | some m => be16 0x8000 ++ ([UInt8.ofNat (2 * o.field + 1), UInt8.ofNat (o.value.bytes.length + m.bytes.length)]
      ++ (o.value.bytes ++ m.bytes))
/-- the decoded `MatchField(Class,Field,HasMask,Length,ExperimenterID,Value,Mask)` -/
def toV (o : Oxm) : V :=
  match o.mask with
  | none => .obj "MatchField" [.num 0x8000, .num o.field, .num 0, .num o.value.bytes.length, .num 0, o.value.toV o.kind, .nil]
  | some m => .obj "MatchField" [.num 0x8000, .num o.field, .num 1, .num (o.value.bytes.length + m.bytes.length), .num 0,
      o.value.toV o.kind, m.toV o.kind]
end Oxm

theorem ofNat8_toNat (n : Nat) (h : n < 256) : (UInt8.ofNat n).toNat = n := by
  simp [UInt8.toNat_ofNat', Nat.mod_eq_of_lt h]

/-- every well-formed basic-class TLV is read back as its field number, mask flag, length, value and mask -/
theorem oxm_fieldDec (o : Oxm) (h : o.WF) : FieldDec o.bytes o.toV := by
  obtain ⟨k, hk, hok, hm⟩ := h
  obtain ⟨hrecv, hf, hkind⟩ := basic_recv o.field k o.value.shape hk
  have hkk : o.kind = k := by unfold Oxm.kind; rw [hk]
  have hvl := OxmVal.bytes_length_le o.value hok
  cases hmask : o.mask with
  | none =>
    have := field_nomask 0x8000 o.field hf (UInt8.ofNat o.value.bytes.length) (recvOf k o.value.shape) o.value.bytes
      (o.value.toV k) (by decide) (fun d => hrecv _ _ d) (payDec_val k o.value hkind hok)
    rw [ofNat8_toNat _ (by omega)] at this
    unfold Oxm.bytes Oxm.toV
    rw [hmask, hkk]
    exact this
  | some m =>
    obtain ⟨hms, hmok⟩ := hm m hmask
    have hml := OxmVal.bytes_length_le m hmok
    have := field_mask 0x8000 o.field hf (UInt8.ofNat (o.value.bytes.length + m.bytes.length)) (recvOf k o.value.shape)
      o.value.bytes m.bytes (o.value.toV k) (m.toV k) (by decide) (fun d => hrecv _ _ d) (payDec_val k o.value hkind hok)
      (by rw [← hms]; exact payDec_val k m (by rw [hms]; exact hkind) hmok)
    rw [ofNat8_toNat _ (by omega)] at this
    unfold Oxm.bytes Oxm.toV
    rw [hmask, hkk]
    exact this

/-- ONF experimenter field tcp_flags (42): a 16-bit value, optionally masked -/
theorem onf_tcpFlags (x : UInt16) :
    FieldDec (be16 0xffff ++ ([84, 6] ++ (be32 0x4f4e4600 ++ be16 x)))
      (.obj "MatchField" [.num 65535, .num 42, .num 0, .num 6, .num 0x4f4e4600, .obj "TcpFlagsField" [.num x.toNat], .nil]) :=
  onf_field_nomask 42 (by decide) 6 (.obj "TcpFlagsField" [.num 0]) (be16 x) _ (fun _ => rfl)
    (payDec_u16 "TcpFlagsField" (by simp) x)

theorem onf_tcpFlags_masked (x m : UInt16) :
    FieldDec (be16 0xffff ++ ([85, 8] ++ (be32 0x4f4e4600 ++ (be16 x ++ be16 m))))
      (.obj "MatchField" [.num 65535, .num 42, .num 1, .num 8, .num 0x4f4e4600, .obj "TcpFlagsField" [.num x.toNat],
        .obj "TcpFlagsField" [.num m.toNat]]) :=
  onf_field_mask 42 (by decide) 8 (.obj "TcpFlagsField" [.num 0]) (be16 x) (be16 m) _ _ (fun _ => rfl)
    (payDec_u16 "TcpFlagsField" (by simp) x) (payDec_u16 "TcpFlagsField" (by simp) m)

/-- ONF experimenter field actset_output (43): a 32-bit port number -/
theorem onf_actsetOutput (x : UInt32) :
    FieldDec (be16 0xffff ++ ([86, 8] ++ (be32 0x4f4e4600 ++ be32 x)))
      (.obj "MatchField" [.num 65535, .num 43, .num 0, .num 8, .num 0x4f4e4600, .obj "ActsetOutputField" [.num x.toNat],
        .nil]) :=
  onf_field_nomask 43 (by decide) 8 (.obj "ActsetOutputField" [.num 0]) (be32 x) _ (fun _ => rfl)
    (payDec_u32 "ActsetOutputField" (by simp) x)

/-! ### basic-class fields the library has no decoder for -/

/-- the six fields of OpenFlow 1.3.5 for which `DecodeMatchField` allocates nothing:
    in_phy_port, vlan_pcp, ip_ecn, mpls_tc, pbb_isid, ipv6_exthdr -/
def Unsupported (f : Nat) : Prop := f = 1 ∨ f = 7 ∨ f = 9 ∨ f = 35 ∨ f = 37 ∨ f = 39

instance (f : Nat) : Decidable (Unsupported f) := by unfold Unsupported; infer_instance

/-- a TLV of one of these fields (with or without mask bit, any length byte, any payload) makes the field decoder
    return an error -/
theorem field_unsupported (f : Nat) (hf : Unsupported f) (m : Nat) (hm : m < 2) (ln : UInt8) (d : Slice) (hwf : d.WF)
    (rest : Bytes) (hb : d.bytes = be16 0x8000 ++ ([UInt8.ofNat (2 * f + m), ln] ++ rest)) :
    MatchField.unmarshal MatchField.zero d = .err := by
  have hl : d.len = 4 + rest.length := by rw [← Sw.bytes_length d hwf, hb]; simp; omega
  obtain ⟨d4, e1, _, _, _⟩ := Sw.fromR_at d hwf 4 (by omega)
  have hfld : ((UInt8.ofNat (2 * f + m)) >>> 1).toNat = f := by
    have hf128 : f < 128 := by rcases hf with h | h | h | h | h | h <;> omega
    rw [UInt8.toNat_shiftRight, UInt8.toNat_ofNat']
    show ((2 * f + m) % 256) >>> 1 = f
    rw [Nat.shiftRight_eq_div_pow]; omega
  have hdecode : ∀ hmask, DecodeMatchField 32768 f ln.toNat hmask d4 = .err := by
    intro hmask
    rcases hf with h | h | h | h | h | h <;> subst h <;> rfl
  unfold MatchField.unmarshal MatchField.zero
  simp only [Sw.u16From_at d 0 0x8000 _ hb, Sw.byteAt_at d 2 (UInt8.ofNat (2 * f + m)) _ (by rw [hb]; rfl),
    Sw.byteAt_at d 3 ln _ (by rw [hb]; rfl), Res.bind_ok, hfld]
  rw [if_neg (by decide)]
  show (d.fromR 4 >>= fun d2 => DecodeMatchField 32768 f ln.toNat _ d2 >>= _) = _
  rw [e1]
  simp only [Res.bind_ok, hdecode]
  rfl

/-- the field loop walks a prefix of decodable TLVs -/
theorem fields_prefix (dm : Slice) (hwf : dm.WF) (ln : UInt16) (rest : Bytes) (body : Match.St → R Match.St)
    (hbody : ∀ (s : Match.St) (d : Slice) (f f' : V) (l : UInt16), dm.fromR s.n = .ok d →
      MatchField.unmarshal MatchField.zero d = .ok f → MatchField.lenM f = .ok (l, f') →
      body s = .ok { n := s.n + l.toNat, fields := s.fields ++ [f'], err := false })
    (fs : List (Bytes × V))
    (h : ∀ p ∈ fs, FieldDec p.1 p.2) (n : Nat) (acc : List V) (fuel : Nat)
    (hb : dm.bytes.drop n = tlvCat fs ++ rest) (hln : n + (tlvCat fs).length ≤ ln.toNat) :
    goLoop (σ := Match.St) (fs.length + fuel) (fun s => !s.err && s.n < ln.toNat) (fun s => s.n + (if s.err then 1 else 0)) body
      { n := n, fields := acc, err := false }
    = goLoop (σ := Match.St) fuel (fun s => !s.err && s.n < ln.toNat) (fun s => s.n + (if s.err then 1 else 0)) body
      { n := n + (tlvCat fs).length, fields := acc ++ fs.map Prod.snd, err := false } := by
  induction fs generalizing n acc with
  | nil => simp [tlvCat]
  | cons p fs ih =>
    obtain ⟨hdec, hlen, h4, h64⟩ := h p (by simp)
    rw [tlvCat_cons] at hb hln
    rw [List.length_append] at hln
    have hnl : n + (p.1 ++ tlvCat fs ++ rest).length = dm.len := by
      have := congrArg List.length hb
      rw [List.length_drop, Sw.bytes_length dm hwf] at this
      simp at this ⊢
      omega
    obtain ⟨d, e1, hdwf, _, hd⟩ := Sw.fromR_at dm hwf n (by simp at hnl; omega)
    rw [hb, List.append_assoc] at hd
    have hl16 : (UInt16.ofNat p.1.length).toNat = p.1.length := Sw.ofNat16_toNat _ h64
    rw [show (p :: fs).length + fuel = (fs.length + fuel) + 1 by simp; omega]
    rw [Sw.goLoop_step _ _ _ _ _ ⟨n + p.1.length, acc ++ [p.2], false⟩
        (by simp; omega)
        (by rw [hbody ⟨n, acc, false⟩ d p.2 p.2 _ e1 (hdec d hdwf _ hd) hlen, hl16])
        (by show n + 0 < n + p.1.length + 0; omega)]
    rw [ih (fun q hq => h q (by simp [hq])) (n + p.1.length) (acc ++ [p.2])
      (by
        rw [← List.drop_drop, hb, List.append_assoc]
        simp)
      (by omega)]
    rw [tlvCat_cons, List.length_append]
    simp [Nat.add_assoc]

/-- a match whose TLVs are a decodable prefix followed by a TLV of an unsupported basic-class field: the decoder stops
    there, keeps the fields read so far, and reports an error -/
theorem match_unsupportedP (a b : V) (fs : List (Bytes × V)) (h : ∀ p ∈ fs, FieldDec p.1 p.2) (f : Nat) (hf : Unsupported f)
    (m : Nat) (hm : m < 2) (fln : UInt8) (mlen : UInt16) (tail : Bytes) (dm : Slice) (hwf : dm.WF)
    (hlen : 4 + (tlvCat fs).length < mlen.toNat)
    (hb : dm.bytes = be16 1 ++ (be16 mlen ++ (tlvCat fs ++ (be16 0x8000 ++ ([UInt8.ofNat (2 * f + m), fln] ++ tail))))) :
    Match.unmarshalP (.obj "Match" [a, b, .list []]) dm
      = .ok (.obj "Match" [.num 1, .num mlen.toNat, .list (fs.map Prod.snd)], true) := by
  have hl : dm.len = 4 + (tlvCat fs).length + (4 + tail.length) := by
    rw [← Sw.bytes_length dm hwf, hb]; simp; omega
  have hge := tlvCat_len_ge fs h
  obtain ⟨d, e1, hdwf, _, hd⟩ := Sw.fromR_at dm hwf (4 + (tlvCat fs).length) (by omega)
  have hd' : d.bytes = be16 0x8000 ++ ([UInt8.ofNat (2 * f + m), fln] ++ tail) := by
    rw [hd, hb, ← List.drop_drop]
    show List.drop (tlvCat fs).length (tlvCat fs ++ _) = _
    simp
  have hbad := field_unsupported f hf m hm fln d hdwf tail hd'
  have hfuel : dm.len + 2 = fs.length + ((dm.len - fs.length) + 1 + 1) := by omega
  unfold Match.unmarshalP
  simp only [Sw.u16From_at dm 0 1 _ hb, Sw.u16From_at dm 2 mlen _ (by rw [hb]; rfl), Res.bind_ok]
  rw [hfuel, fields_prefix dm hwf mlen _ _
    (by
      intro s d f f' l h1 h2 h3
      simp only [h1, Res.bind_ok, h2, h3]
      rfl)
    fs h 4 [] _ (by rw [hb]; rfl) (by omega)]
  rw [Sw.goLoop_step _ _ _ _ _ ⟨4 + (tlvCat fs).length, [] ++ fs.map Prod.snd, true⟩
      (by simp; omega)
      (by simp only [e1, Res.bind_ok, hbad]; rfl)
      (by show 4 + (tlvCat fs).length + 0 < 4 + (tlvCat fs).length + 1; omega),
    Sw.goLoop_stop _ _ _ _ _ (by rfl)]
  rfl

/-- … so `Match.UnmarshalBinary` returns an error -/
theorem match_unsupported (a b : V) (fs : List (Bytes × V)) (h : ∀ p ∈ fs, FieldDec p.1 p.2) (f : Nat) (hf : Unsupported f)
    (m : Nat) (hm : m < 2) (fln : UInt8) (mlen : UInt16) (tail : Bytes) (dm : Slice) (hwf : dm.WF)
    (hlen : 4 + (tlvCat fs).length < mlen.toNat)
    (hb : dm.bytes = be16 1 ++ (be16 mlen ++ (tlvCat fs ++ (be16 0x8000 ++ ([UInt8.ofNat (2 * f + m), fln] ++ tail))))) :
    Match.unmarshal (.obj "Match" [a, b, .list []]) dm = .err := by
  unfold Match.unmarshal
  rw [match_unsupportedP a b fs h f hf m hm fln mlen tail dm hwf hlen hb]

/-! ### Nicira registers (class NXM_1, fields 0..15) -/

theorem payDec_u32msg (x : UInt32) : PayDec Uint32Message.zero (be32 x) (.obj "Uint32Message" [.num x.toNat]) := by
  refine ⟨?_, rfl, by simp⟩
  intro d hwf rest hb
  have hl : d.len = 4 + rest.length := by rw [← Sw.bytes_length d hwf, hb]; simp <;> omega
  show (if d.len < 4 then _ else d.u32In 0 4 >>= fun x => _) = _
  rw [if_neg (by omega), Sw.u32In_at d hwf 0 4 x rest (by omega) (by omega) (by rw [hb]; rfl)]
  rfl

theorem nxm_reg_recv (n : Nat) (hn : n < 16) (hm : Bool) (d : Slice) :
    DecodeMatchField 1 n (if hm then 8 else 4) hm d = MatchPayload.unmarshal Uint32Message.zero d := by
  have : n = 0 ∨ n = 1 ∨ n = 2 ∨ n = 3 ∨ n = 4 ∨ n = 5 ∨ n = 6 ∨ n = 7 ∨ n = 8 ∨ n = 9 ∨ n = 10 ∨ n = 11 ∨ n = 12 ∨ n = 13
      ∨ n = 14 ∨ n = 15 := by omega
  rcases this with h | h | h | h | h | h | h | h | h | h | h | h | h | h | h | h <;> subst h <;> cases hm <;> first | rfl | done

/-- NXM_NX_REGn: class 1, field n<<1, length 4, the 32-bit register value -/
theorem nxm_reg (n : Nat) (hn : n < 16) (x : UInt32) :
    FieldDec (be16 1 ++ ([UInt8.ofNat (2 * n), 4] ++ be32 x))
      (.obj "MatchField" [.num 1, .num n, .num 0, .num 4, .num 0, .obj "Uint32Message" [.num x.toNat], .nil]) :=
  field_nomask 1 n (by omega) 4 Uint32Message.zero (be32 x) _ (by decide) (fun d => nxm_reg_recv n hn false d) (payDec_u32msg x)

/-- NXM_NX_REGn with a mask: field n<<1|1, length 8, value(4), mask(4) -/
theorem nxm_reg_masked (n : Nat) (hn : n < 16) (x m : UInt32) :
    FieldDec (be16 1 ++ ([UInt8.ofNat (2 * n + 1), 8] ++ (be32 x ++ be32 m)))
      (.obj "MatchField" [.num 1, .num n, .num 1, .num 8, .num 0, .obj "Uint32Message" [.num x.toNat],
        .obj "Uint32Message" [.num m.toNat]]) :=
  field_mask 1 n (by omega) 8 Uint32Message.zero (be32 x) (be32 m) _ _ (by decide) (fun d => nxm_reg_recv n hn true d)
    (payDec_u32msg x) (payDec_u32msg m)

end OFV.Sw2
