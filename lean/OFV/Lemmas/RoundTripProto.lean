/-
  OFV.Lemmas.RoundTripProto — helper lemmas about the `protocol` model used by the round-trip and demux theorems of C09
  that are not property statements themselves:
  * the `Len()` arithmetic of the fixed-format headers does not wrap for in-range fields;
  * lists of 4-byte addresses / 32-bit words: what the encoder's pieces are and that the decoder's loops
    (`pReadIPs`, `pReadU32s`) read the concatenation back;
  * the decoders of the leaf payload kinds return a value of their own kind.
-/
import OFV.Model.Proto
import OFV.Lemmas.Size
import OFV.Lemmas.RoundTripCore
namespace OFV.Lemmas.RT
open OFV OFV.Go OFV.Model

theorem arp_len (ht pt op : Nat) : (Gen.protocol.ARP.Len
      { HWType := n16 ht, ProtoType := n16 pt, HWLength := n8 6, ProtoLength := n8 4, Operation := n16 op }) = 28 := by
  simp only [Gen.protocol.ARP.Len]; rfl

/-- an in-range option type is the zero byte only when it is 0 -/
theorem n8_eq_zero (ty : Nat) (h : ty < 256) : n8 ty = 0 ↔ ty = 0 := by
  rw [← UInt8.toNat_inj, n8_toNat ty h]; rfl

/-- an option that is not Pad1 reports `Length + 2` bytes -/
theorem option_len (ty ln : Nat) (ht : ty < 256) (h0 : ty ≠ 0) (h : ln < 256) :
    (Gen.protocol.Option.Len { Type_ := n8 ty, Length := n8 ln }).toNat = ln + 2 := by
  have hne : ¬ n8 ty = 0 := fun e => h0 ((n8_eq_zero ty ht).mp e)
  simp only [Gen.protocol.Option.Len, if_neg hne, UInt16.toNat_add, UInt64.toNat_toUInt16, UInt8.toNat_toUInt64,
    n8_toNat _ h]
  have : (2 : UInt16).toNat = 2 := rfl
  rw [this]; omega

/-- a Pad1 option (type 0) reports one byte, whatever its `Length` field holds -/
theorem option_len_pad1 (ln : Nat) :
    (Gen.protocol.Option.Len { Type_ := n8 0, Length := n8 ln }).toNat = 1 := by
  have h0 : n8 0 = 0 := rfl
  simp only [Gen.protocol.Option.Len, h0, if_true]
  rfl

/-- `8 * (uint16(HEL) + 1)` does not wrap -/
theorem ext_len (hel : Nat) (h : hel < 256) :
    ((8 : UInt16) * (((n8 hel).toUInt64).toUInt16 + (1 : UInt16))).toNat = 8 * (hel + 1) := by
  simp only [UInt16.toNat_mul, UInt16.toNat_add, UInt64.toNat_toUInt16, UInt8.toNat_toUInt64, n8_toNat _ h]
  have h1 : (1 : UInt16).toNat = 1 := rfl
  have h8 : (8 : UInt16).toNat = 8 := rfl
  rw [h1, h8]; omega

/-- a 4-byte address value -/
def isIP4 : V → Prop
  | .bytes b => b.length = 4
  | _ => False
instance : DecidablePred isIP4 := fun v => by unfold isIP4; split <;> infer_instance

theorem ip4_list (srcs : List V) (h : ∀ x ∈ srcs, isIP4 x) :
    ∃ ips : List Bytes, srcs = ips.map V.bytes ∧ (∀ b ∈ ips, b.length = 4) ∧ pIpList srcs = .ok ips := by
  induction srcs with
  | nil => exact ⟨[], rfl, by simp, rfl⟩
  | cons x xs ih =>
    obtain ⟨ips, h1, h2, h3⟩ := ih (fun y hy => h y (by simp [hy]))
    have hx := h x (by simp)
    unfold isIP4 at hx
    split at hx
    · rename_i b
      refine ⟨b :: ips, by simp [h1], ?_, ?_⟩
      · intro c hc
        simp at hc
        rcases hc with rfl | hc
        · exact hx
        · exact h2 c hc
      · simp [pIpList, pBytesOf, h3]
    · exact hx.elim

theorem ip4_flatten_length (ips : List Bytes) (h : ∀ b ∈ ips, b.length = 4) : ips.flatten.length = 4 * ips.length := by
  induction ips with
  | nil => rfl
  | cons b bs ih =>
    have := h b (by simp)
    have := ih (fun c hc => h c (by simp [hc]))
    simp at *
    omega

/-- the encoder's pieces for a list of 4-byte addresses are their concatenation -/
theorem ip4_pieces (ips : List Bytes) (h : ∀ b ∈ ips, b.length = 4) :
    piecesBytes (ips.map (fun ip => pCopyIn 4 (pIpTo4 ip))) = ips.flatten ∧
    piecesLen (ips.map (fun ip => pCopyIn 4 (pIpTo4 ip))) = 4 * ips.length ∧
    ∀ p ∈ ips.map (fun ip => pCopyIn 4 (pIpTo4 ip)), p.Tight := by
  induction ips with
  | nil => exact ⟨rfl, rfl, by simp⟩
  | cons b bs ih =>
    have hb := h b (by simp)
    obtain ⟨i1, i2, i3⟩ := ih (fun c hc => h c (by simp [hc]))
    refine ⟨?_, ?_, ?_⟩
    · simp [piecesBytes, Piece.bytes, pCopyIn, pIpTo4_four _ hb, pFitTo_self _ _ hb] at i1 ⊢
      exact i1
    · simp [piecesLen, Piece.adv, pCopyIn, pIpTo4_four _ hb, pFitTo_self _ _ hb] at i2 ⊢
      omega
    · intro p hp
      simp at hp
      rcases hp with rfl | hp
      · simp [Piece.Tight, pCopyIn]
      · exact i3 p (by simp; exact hp)

/-- the decoder's address loop reads back the concatenated addresses -/
theorem readIPs_flatten (ips : List Bytes) (h : ∀ b ∈ ips, b.length = 4) :
    ∀ (pre tail : Bytes) (len : Nat),
      pReadIPs ⟨pre ++ ips.flatten ++ tail, len⟩ pre.length ips.length = .ok (ips.map V.bytes) := by
  induction ips with
  | nil => intro pre tail len; rfl
  | cons b bs ih =>
    intro pre tail len
    have hb := h b (by simp)
    have := ih (fun c hc => h c (by simp [hc])) (pre ++ b) tail len
    simp only [List.length_cons, pReadIPs, List.flatten_cons]
    rw [Slice.sliceR_ok _ _ _ (by omega) (by simp; omega)]
    simp only [Res.bind_ok, List.length_append, hb, List.append_assoc] at this ⊢
    rw [this]
    simp [Slice.bytes, take_prefix 4 b _ hb]

theorem igmpv3q_len (ns : Nat) (h : 12 + 4 * ns < 65536) : ((12 : UInt16) + n16 ns * (4 : UInt16)).toNat = 12 + 4 * ns := by
  simp only [UInt16.toNat_add, UInt16.toNat_mul, n16_toNat ns (by omega)]
  have h1 : (12 : UInt16).toNat = 12 := rfl
  have h4 : (4 : UInt16).toNat = 4 := rfl
  rw [h1, h4]; omega

/-- a 32-bit number value -/
def isU32 : V → Prop
  | .num w => w < 4294967296
  | _ => False
instance : DecidablePred isU32 := fun v => by unfold isU32; split <;> infer_instance

theorem u32_list (xs : List V) (h : ∀ x ∈ xs, isU32 x) :
    ∃ ws : List UInt32, xs = ws.map V.u32 ∧ xs.map (fun d => pU32 d.asNat) = ws.map (fun w => Piece.put (be32 w)) := by
  induction xs with
  | nil => exact ⟨[], rfl, rfl⟩
  | cons x xs ih =>
    obtain ⟨ws, h1, h2⟩ := ih (fun y hy => h y (by simp [hy]))
    have hx := h x (by simp)
    unfold isU32 at hx
    split at hx
    · rename_i w
      refine ⟨n32 w :: ws, ?_, ?_⟩
      · simp [h1, u32_n32 w hx]
      · simp only [List.map_cons, h2]; rfl
    · exact hx.elim

theorem u32_pieces (ws : List UInt32) :
    piecesBytes (ws.map (fun w => Piece.put (be32 w))) = (ws.map be32).flatten ∧
    piecesLen (ws.map (fun w => Piece.put (be32 w))) = 4 * ws.length ∧
    (∀ p ∈ ws.map (fun w => Piece.put (be32 w)), p.Tight) ∧ (ws.map be32).flatten.length = 4 * ws.length := by
  induction ws with
  | nil => exact ⟨rfl, rfl, by simp, rfl⟩
  | cons w ws ih =>
    obtain ⟨i1, i2, i3, i4⟩ := ih
    refine ⟨?_, ?_, ?_, ?_⟩
    · simp [piecesBytes, Piece.bytes] at i1 ⊢
      exact i1
    · simp [piecesLen, Piece.adv] at i2 ⊢
      omega
    · intro p hp
      simp at hp
      rcases hp with rfl | ⟨a, _, rfl⟩ <;> simp [Piece.Tight]
    · simp only [List.map_cons, List.flatten_cons, List.length_append, be32_length, i4, List.length_cons]; omega

/-- the decoder's word loop reads back the concatenated big-endian words (they must lie inside `len`) -/
theorem readU32s_flatten (ws : List UInt32) :
    ∀ (pre tail : Bytes) (len : Nat), pre.length + 4 * ws.length ≤ len →
      len ≤ (pre ++ (ws.map be32).flatten ++ tail).length →
      pReadU32s ⟨pre ++ (ws.map be32).flatten ++ tail, len⟩ pre.length ws.length = .ok (ws.map V.u32) := by
  induction ws with
  | nil => intro pre tail len _ _; rfl
  | cons w ws ih =>
    intro pre tail len h1 h2
    simp only [List.length_cons] at h1
    have := ih (pre ++ be32 w) tail len (by simp; omega) (by simpa using h2)
    simp only [List.length_cons, pReadU32s, List.map_cons, List.flatten_cons]
    unfold Slice.u32From
    rw [Slice.fromR_ok _ _ (by simp; omega)]
    simp only [Res.bind_ok, List.length_append, be32_length, List.append_assoc] at this ⊢
    rw [this]
    have : (⟨List.drop pre.length (pre ++ (be32 w ++ ((ws.map be32).flatten ++ tail))), len - pre.length⟩ : Slice).u32Here = .ok w := by
      simp only [List.drop_left, Slice.u32Here, Slice.bytes, be32_cells, List.cons_append, List.nil_append]
      rw [rd32_take _ _ _ _ _ _ (by omega)]
      simp [Res.ofOption]
    rw [this]
    rfl

theorem grouprec_len (aux ns : Nat) (ha : aux < 256) (h : 8 + 4 * aux + 4 * ns < 65536) :
    (((8 : UInt16) + ((n8 aux).toUInt64).toUInt16 * (4 : UInt16)) + n16 ns * (4 : UInt16)).toNat = 8 + 4 * aux + 4 * ns := by
  simp only [UInt16.toNat_add, UInt16.toNat_mul, UInt64.toNat_toUInt16, UInt8.toNat_toUInt64, n8_toNat _ ha,
    n16_toNat ns (by omega)]
  have h1 : (8 : UInt16).toNat = 8 := rfl
  have h4 : (4 : UInt16).toNat = 4 := rfl
  rw [h1, h4]; omega

theorem ipv4_hdrlen (ihl : Nat) (h5 : 5 ≤ ihl) (h : ihl < 16) :
    PIPv4.fixIHL (n8 ihl) = n8 ihl ∧ (PIPv4.hdrLen (n8 ihl)).toNat = 4 * ihl ∧ ((n8 ihl) * 4).toNat = 4 * ihl := by
  have hn := n8_toNat ihl (by omega)
  have h4 : (4 : UInt8).toNat = 4 := rfl
  have hm : ((n8 ihl) * 4).toNat = 4 * ihl := by rw [UInt8.toNat_mul, hn, h4]; omega
  refine ⟨?_, ?_, hm⟩
  · unfold PIPv4.fixIHL
    rw [if_neg]
    rw [UInt8.lt_iff_toNat_lt, hn]
    have : (5 : UInt8).toNat = 5 := rfl
    omega
  · unfold PIPv4.hdrLen
    rw [UInt8.toNat_toUInt16, hm]

theorem ubuffer_kind (r : V) (d : Slice) (v : V) (h : UBuffer.unmarshal r d = .ok v) : v.kind = "u.Buffer" := by
  unfold UBuffer.unmarshal at h; cases h; rfl

theorem icmp_kind (r : V) (d : Slice) (v : V) (h : PICMP.unmarshal r d = .ok v) : v.kind = "p.ICMP" := by
  unfold PICMP.unmarshal at h
  split at h
  · cases h
  · obtain ⟨_, _, h⟩ := bind_ok_inv _ _ _ h
    obtain ⟨_, _, h⟩ := bind_ok_inv _ _ _ h
    obtain ⟨_, _, h⟩ := bind_ok_inv _ _ _ h
    obtain ⟨_, _, h⟩ := bind_ok_inv _ _ _ h
    cases h; rfl

theorem udp_kind (r : V) (d : Slice) (v : V) (h : PUDP.unmarshal r d = .ok v) : v.kind = "p.UDP" := by
  unfold PUDP.unmarshal at h
  split at h
  · cases h
  · obtain ⟨_, _, h⟩ := bind_ok_inv _ _ _ h
    obtain ⟨_, _, h⟩ := bind_ok_inv _ _ _ h
    obtain ⟨_, _, h⟩ := bind_ok_inv _ _ _ h
    obtain ⟨_, _, h⟩ := bind_ok_inv _ _ _ h
    obtain ⟨_, _, h⟩ := bind_ok_inv _ _ _ h
    cases h; rfl

theorem arp_kind (r : V) (d : Slice) (v : V) (h : PARP.unmarshal r d = .ok v) : v.kind = "p.ARP" := by
  unfold PARP.unmarshal at h
  split at h
  · cases h
  · obtain ⟨_, _, h⟩ := bind_ok_inv _ _ _ h
    obtain ⟨_, _, h⟩ := bind_ok_inv _ _ _ h
    obtain ⟨_, _, h⟩ := bind_ok_inv _ _ _ h
    obtain ⟨_, _, h⟩ := bind_ok_inv _ _ _ h
    obtain ⟨_, _, h⟩ := bind_ok_inv _ _ _ h
    simp only at h
    split at h
    · cases h
    · obtain ⟨_, _, h⟩ := bind_ok_inv _ _ _ h
      obtain ⟨_, _, h⟩ := bind_ok_inv _ _ _ h
      obtain ⟨_, _, h⟩ := bind_ok_inv _ _ _ h
      obtain ⟨_, _, h⟩ := bind_ok_inv _ _ _ h
      cases h; rfl

end OFV.Lemmas.RT
