/-
  OFV.Lemmas.RTFlowMod — instructions inside a list (`InstrRT`, the FlowMod instruction loop) and FlowMod through Parse:
  header with the computed Length, 40 fixed bytes, the Match, the instructions.  Used by OFV/Props/C05.lean.
-/
import OFV.Model.All
import OFV.Lemmas.Size
import OFV.Lemmas.RTBasic
import OFV.Lemmas.RTPayload
import OFV.Lemmas.RTMatch
import OFV.Lemmas.RTAction
import OFV.Lemmas.RTInstr
import OFV.Lemmas.RTList
import OFV.Lemmas.RTMsg
namespace OFV.RT
set_option linter.unusedSimpArgs false
open OFV OFV.Go OFV.Model OFV.Model.InstrAux

/-- one instruction `i` (decoded form) with encoding `e` round-trips through DecodeInstr -/
def InstrRT (i : V) (e : Bytes) : Prop :=
  Instruction.marshalM i = .ok (e, i) ∧ Instruction.lenM i = .ok (UInt16.ofNat e.length, i) ∧
  0 < e.length ∧ e.length < 65536 ∧
  ∀ (data : Slice) (tail : Bytes), data.WF → data.bytes = e ++ tail → DecodeInstr data = .ok i

inductive InstrsRT : List V → List Bytes → Prop
  | nil : InstrsRT [] []
  | cons {i : V} {e : Bytes} {is : List V} {es : List Bytes} : InstrRT i e → InstrsRT is es → InstrsRT (i :: is) (e :: es)

theorem instrs_marshalList (is : List V) (encs : List Bytes) (h : InstrsRT is encs) :
    marshalList Instruction.marshalM is false = .ok (encs.flatten, is, false) ∧
    mapM2 Instruction.lenM is = .ok (encs.map (fun e => UInt16.ofNat e.length), is) := by
  induction h with
  | nil => exact ⟨rfl, rfl⟩
  | cons h1 _ ih =>
    obtain ⟨hm, hl, _⟩ := h1
    constructor
    · simp [marshalList, hm, ih.1]
    · simp [mapM2, hl, ih.2]

theorem instrs_len (is : List V) (encs : List Bytes) (h : InstrsRT is encs) :
    encs.length ≤ encs.flatten.length ∧
    ((encs.map (fun e => UInt16.ofNat e.length)).map UInt16.toNat).sum = encs.flatten.length := by
  induction h with
  | nil => simp
  | @cons a e as es h1 _ ih =>
    obtain ⟨_, _, h0, h64, _⟩ := h1
    have hto : (UInt16.ofNat e.length).toNat = e.length := by
      simp [UInt16.toNat_ofNat']; omega
    constructor
    · simp only [List.length_cons, List.flatten_cons, List.length_append]; omega
    · simp only [List.map_cons, List.sum_cons, List.flatten_cons, List.length_append, ih.2, hto]

/-- the instruction loop of FlowMod.UnmarshalBinary -/
theorem flowMod_loop (data : Slice) (hd : data.WF) (limit : Nat) (is : List V) (encs : List Bytes)
    (h : InstrsRT is encs) :
    ∀ (pre rest : Bytes) (acc : List V) (fuel : Nat),
      data.bytes = pre ++ encs.flatten ++ rest → limit = pre.length + encs.flatten.length → encs.length < fuel →
      goLoop (σ := St) fuel (fun s => s.n < limit) (·.n)
        (fun s => do
          let d ← data.fromR s.n
          let i ← DecodeInstr d
          let (l, i') ← Instruction.lenM i
          if l = 0 then .err else
          pure { n := s.n + l.toNat, xs := s.xs ++ [i'], err := false })
        { n := pre.length, xs := acc, err := false }
      = .ok { n := limit, xs := acc ++ is, err := false } := by
  induction h with
  | nil =>
    intro pre rest acc fuel hb hln hfuel
    simp at hln
    subst hln
    cases fuel with
    | zero => simp at hfuel
    | succ k => simp [goLoop]
  | @cons a e as es h1 _ ih =>
    intro pre rest acc fuel hb hln hfuel
    obtain ⟨hm, hl, h0, h64, hdec⟩ := h1
    cases fuel with
    | zero => simp at hfuel
    | succ k =>
      simp only [List.flatten_cons, List.length_append] at hln
      have hlen := Slice.bytes_length_le data
      rw [hb] at hlen
      simp only [List.flatten_cons, List.length_append] at hlen
      obtain ⟨t, ht1, ht2, _, _⟩ := Slice.fromR_bytes data pre.length (by omega)
      have htb : t.bytes = e ++ (es.flatten ++ rest) := by
        rw [ht2, hb]; simp only [List.flatten_cons, List.append_assoc]; exact List.drop_left' rfl
      have htwf : t.WF := (Slice.fromR_wf data hd _ t ht1).1
      have hto : (UInt16.ofNat e.length).toNat = e.length := by
        simp [UInt16.toNat_ofNat']; omega
      have hne : ¬ (UInt16.ofNat e.length = 0) := by
        intro h0'
        have := congrArg UInt16.toNat h0'
        rw [hto] at this
        have h00 : (0 : UInt16).toNat = 0 := rfl
        rw [h00] at this; omega
      unfold goLoop
      have hcond : decide (pre.length < limit) = true := by simp; omega
      simp only [hcond, if_true, ht1, Res.bind_ok, hdec t _ htwf htb, hl, Res.pure_eq, hto, hne, if_false]
      have hcur : ¬ (pre.length + e.length ≤ pre.length) := by omega
      simp only [if_false, hcur]
      have := ih (pre ++ e) rest (acc ++ [a]) k (by rw [hb]; simp) (by simp only [List.length_append]; omega)
        (by simp only [List.length_cons] at hfuel; omega)
      simp only [List.length_append, List.append_assoc, List.cons_append, List.nil_append] at this
      exact this


/-- a FlowMod value (header type = flow-mod) -/
def flowModV (ver ln xid ck cm tid cmd it ht pr bid op og fl : Nat) (pad m : V) (is : List V) : V :=
  .obj "FlowMod" [.obj "Header" [.num ver, .num Gen.openflow13.Type_FlowMod, .num ln, .num xid], .num ck, .num cm,
    .num tid, .num cmd, .num it, .num ht, .num pr, .num bid, .num op, .num og, .num fl, pad, m, .list is]

/-- the 40 fixed bytes after the header -/
def flowModFixed (ck cm tid cmd it ht pr bid op og fl : Nat) : Bytes :=
  be64 (n64 ck) ++ be64 (n64 cm) ++ [n8 tid, n8 cmd] ++ be16 (n16 it) ++ be16 (n16 ht)
    ++ be16 (n16 pr) ++ be32 (n32 bid) ++ be32 (n32 op) ++ be32 (n32 og) ++ be16 (n16 fl) ++ zeros 2

theorem flowModFixed_length (ck cm tid cmd it ht pr bid op og fl : Nat) :
    (flowModFixed ck cm tid cmd it ht pr bid op og fl).length = 40 := rfl

theorem instrsRT_nil (encs : List Bytes) (h : InstrsRT [] encs) : encs = [] := by
  cases h; rfl

theorem flowMod_encode (ver ln0 xid ck cm tid cmd it ht pr bid op og fl : Nat) (pad m : V) (is : List V)
    (encs : List Bytes) (mbs : Bytes)
    (hm : Match.marshalM m = .ok (mbs, m)) (hml : Match.lenM m = .ok (UInt16.ofNat mbs.length, m))
    (his : InstrsRT is encs) (hdel : (cmd = Gen.openflow13.FC_DELETE ∨ cmd = Gen.openflow13.FC_DELETE_STRICT) → is = [])
    (hL : 48 + mbs.length + encs.flatten.length < 65536) :
    FlowMod.marshalM (flowModV ver ln0 xid ck cm tid cmd it ht pr bid op og fl pad m is) =
      .ok ([n8 ver, n8 Gen.openflow13.Type_FlowMod] ++ be16 (n16 (48 + mbs.length + encs.flatten.length)) ++ be32 (n32 xid)
          ++ flowModFixed ck cm tid cmd it ht pr bid op og fl ++ mbs ++ encs.flatten,
        flowModV ver (48 + mbs.length + encs.flatten.length) xid ck cm tid cmd it ht pr bid op og fl pad m is) := by
  obtain ⟨hml2, hll⟩ := instrs_marshalList is encs his
  obtain ⟨_, hsum⟩ := instrs_len is encs his
  have hto : (UInt16.ofNat mbs.length).toNat = mbs.length := by
    simp [UInt16.toNat_ofNat']; omega
  have h48 : ((8 : UInt16) + 40 + UInt16.ofNat mbs.length).toNat = 48 + mbs.length := by
    rw [UInt16.toNat_add, hto]
    have : ((8 : UInt16) + 40).toNat = 48 := rfl
    rw [this]; omega
  have hlen : FlowMod.lenM (flowModV ver ln0 xid ck cm tid cmd it ht pr bid op og fl pad m is) =
      .ok (UInt16.ofNat (48 + mbs.length + encs.flatten.length),
        flowModV ver ln0 xid ck cm tid cmd it ht pr bid op og fl pad m is) := by
    simp only [flowModV, FlowMod.lenM, hml, Res.bind_ok]
    by_cases hd : cmd = Gen.openflow13.FC_DELETE ∨ cmd = Gen.openflow13.FC_DELETE_STRICT
    · have := hdel hd
      subst this
      have := instrsRT_nil encs his
      subst this
      rw [if_pos hd]
      congr 2
      apply ofNat_lit
      rw [h48]; simp
    · rw [if_neg hd]
      simp only [hll, Res.bind_ok]
      congr 2
      apply ofNat_lit
      rw [UInt16.toNat_add, h48, sum16_toNat _ (by rw [hsum]; omega), hsum]
      omega
  unfold FlowMod.marshalM
  rw [hlen]
  simp only [Res.bind_ok, flowModV, Header.setLength, Header.bytes, hm, catchErr]
  have hib : (if cmd = Gen.openflow13.FC_DELETE ∨ cmd = Gen.openflow13.FC_DELETE_STRICT
      then (.ok ([], is, false) : R (Bytes × List V × Bool)) else marshalList Instruction.marshalM is false)
      = .ok (encs.flatten, is, false) := by
    by_cases hd : cmd = Gen.openflow13.FC_DELETE ∨ cmd = Gen.openflow13.FC_DELETE_STRICT
    · have := hdel hd
      subst this
      have := instrsRT_nil encs his
      subst this
      rw [if_pos hd]; rfl
    · rw [if_neg hd, hml2]
  rw [hib]
  simp only [Res.bind_ok, Bool.false_eq_true, if_false, V.u16, n16,
    UInt16.toNat_ofNat', Nat.mod_eq_of_lt hL, flowModFixed, List.append_assoc]


theorem flowMod_decode (ver xid ck cm tid cmd it ht pr bid op og fl : Nat) (m : V) (is : List V)
    (encs : List Bytes) (mbs : Bytes)
    (hver : ver < 256) (hxid : xid < 4294967296) (hck : ck < 18446744073709551616) (hcm : cm < 18446744073709551616)
    (htid : tid < 256) (hcmd : cmd < 256) (hit : it < 65536) (hht : ht < 65536) (hpr : pr < 65536)
    (hbid : bid < 4294967296) (hop : op < 4294967296) (hog : og < 4294967296) (hfl : fl < 65536)
    (hml : Match.lenM m = .ok (UInt16.ofNat mbs.length, m))
    (hmdec : ∀ (data : Slice) (tail : Bytes), data.WF → data.bytes = mbs ++ tail → Match.unmarshal Match.zero data = .ok m)
    (his : InstrsRT is encs)
    (hL : 48 + mbs.length + encs.flatten.length < 65536)
    (depth : Nat) (data : Slice) (tail : Bytes) (hd : data.WF)
    (hb : data.bytes = ([n8 ver, n8 Gen.openflow13.Type_FlowMod] ++ be16 (n16 (48 + mbs.length + encs.flatten.length)) ++ be32 (n32 xid)
          ++ flowModFixed ck cm tid cmd it ht pr bid op og fl ++ mbs ++ encs.flatten) ++ tail) :
    parse depth data =
      .ok (flowModV ver (48 + mbs.length + encs.flatten.length) xid ck cm tid cmd it ht pr bid op og fl (.bytes []) m is) := by
  obtain ⟨hcnt, _⟩ := instrs_len is encs his
  have hlen := Slice.len_ge_of_bytes data _ _ hb
  simp only [List.length_append, flowModFixed_length, be16_length, be32_length, List.length_cons, List.length_nil] at hlen
  -- normal form of the buffer
  have hb' : data.bytes = [n8 ver, n8 Gen.openflow13.Type_FlowMod] ++ (be16 (n16 (48 + mbs.length + encs.flatten.length)) ++ (be32 (n32 xid) ++
      (be64 (n64 ck) ++ (be64 (n64 cm) ++ ([n8 tid, n8 cmd] ++ (be16 (n16 it) ++ (be16 (n16 ht) ++ (be16 (n16 pr) ++
      (be32 (n32 bid) ++ (be32 (n32 op) ++ (be32 (n32 og) ++ (be16 (n16 fl) ++ (zeros 2 ++
      (mbs ++ (encs.flatten ++ tail))))))))))))))) := by
    rw [hb]; simp only [flowModFixed, List.append_assoc]
  -- Parse dispatch
  unfold parse
  obtain ⟨k, hk⟩ : ∃ k, max depth (data.cap + 1) = k + 1 := ⟨max depth (data.cap + 1) - 1, by omega⟩
  rw [hk]
  unfold parseD parseStep
  have e1 : data.bytes[1]? = some (n8 Gen.openflow13.Type_FlowMod) := by rw [hb']; rfl
  have ht14 : (n8 Gen.openflow13.Type_FlowMod).toNat = 14 := by decide
  have ht14' : (n8 14).toNat = 14 := by decide
  simp only [Slice.byteAt_eq, e1, Res.ofOption, Res.bind_ok, ht14, ht14',
    Gen.openflow13.Type_EchoRequest, Gen.openflow13.Type_EchoReply, Gen.openflow13.Type_GetConfigRequest,
    Gen.openflow13.Type_BarrierRequest, Gen.openflow13.Type_BarrierReply, Gen.openflow13.Type_FeaturesRequest,
    Gen.openflow13.Type_Hello, Gen.openflow13.Type_Error, Gen.openflow13.Type_Experimenter,
    Gen.openflow13.Type_FeaturesReply, Gen.openflow13.Type_GetConfigReply, Gen.openflow13.Type_SetConfig,
    Gen.openflow13.Type_PacketIn, Gen.openflow13.Type_FlowRemoved, Gen.openflow13.Type_PortStatus,
    Gen.openflow13.Type_FlowMod,
    Nat.reduceEqDiff, reduceIte, if_false, if_true, or_true, true_or, or_false, false_or, or_self]
  -- the decoder
  unfold FlowMod.unmarshal flowModRecv
  obtain ⟨d0, h01, h02, _⟩ := Slice.fromR_bytes data 0 (by omega)
  have hd0 : d0.WF := (Slice.fromR_wf data hd 0 d0 h01).1
  obtain ⟨_, _, hhdr⟩ := header_roundtrip ver Gen.openflow13.Type_FlowMod (48 + mbs.length + encs.flatten.length) xid
    hver (by decide) hL hxid
  have hh := hhdr (msgOfpHeader Gen.openflow13.Type_FlowMod) d0
    (flowModFixed ck cm tid cmd it ht pr bid op og fl ++ mbs ++ encs.flatten ++ tail) hd0
    (by rw [h02, hb]; simp only [List.drop_zero, List.append_assoc])
  have e8 : rd64 (data.bytes.drop 8) = some (n64 ck) := by rw [hb']; exact rd64_be64 _ _
  have e16 : rd64 (data.bytes.drop 16) = some (n64 cm) := by rw [hb']; exact rd64_be64 _ _
  have e24 : data.bytes[24]? = some (n8 tid) := by rw [hb']; rfl
  have e25 : data.bytes[25]? = some (n8 cmd) := by rw [hb']; rfl
  have e26 : rd16 (data.bytes.drop 26) = some (n16 it) := by rw [hb']; exact rd16_be16 _ _
  have e28 : rd16 (data.bytes.drop 28) = some (n16 ht) := by rw [hb']; exact rd16_be16 _ _
  have e30 : rd16 (data.bytes.drop 30) = some (n16 pr) := by rw [hb']; exact rd16_be16 _ _
  have e32 : rd32 (data.bytes.drop 32) = some (n32 bid) := by rw [hb']; exact rd32_be32 _ _
  have e36 : rd32 (data.bytes.drop 36) = some (n32 op) := by rw [hb']; exact rd32_be32 _ _
  have e40 : rd32 (data.bytes.drop 40) = some (n32 og) := by rw [hb']; exact rd32_be32 _ _
  have e44 : rd16 (data.bytes.drop 44) = some (n16 fl) := by rw [hb']; exact rd16_be16 _ _
  obtain ⟨dm, hm1, hm2, _, _⟩ := Slice.fromR_bytes data 48 (by omega)
  have hdm : dm.WF := (Slice.fromR_wf data hd 48 dm hm1).1
  have hdmb : dm.bytes = mbs ++ (encs.flatten ++ tail) := by rw [hm2, hb']; rfl
  have hmP : matchUnmarshalP Match.new dm = .ok (m, false) := by
    unfold matchUnmarshalP
    rw [unmarshalP_new]
    exact unmarshalP_of_unmarshal _ _ _ (hmdec dm _ hdm hdmb)
  have hto : (UInt16.ofNat mbs.length).toNat = mbs.length := by
    simp [UInt16.toNat_ofNat']; omega
  simp only [h01, Res.bind_ok, hh, catchErr, Slice.u64From_eq, Slice.u32From_eq, Slice.u16From_eq, Slice.byteAt_eq,
    e8, e16, e24, e25, e26, e28, e30, e32, e36, e40, e44, Res.ofOption, hm1, hmP, hml, Header.length, hto]
  have hloop := flowMod_loop data hd (48 + mbs.length + encs.flatten.length) is encs his
    ([n8 ver, n8 Gen.openflow13.Type_FlowMod] ++ be16 (n16 (48 + mbs.length + encs.flatten.length)) ++ be32 (n32 xid)
          ++ flowModFixed ck cm tid cmd it ht pr bid op og fl ++ mbs) tail [] (data.len + 2)
    (by rw [hb]) (by simp only [List.length_append, flowModFixed_length, be16_length, be32_length, List.length_cons,
      List.length_nil]) (by omega)
  simp only [List.length_append, flowModFixed_length, be16_length, be32_length, List.length_cons, List.length_nil,
    List.nil_append, Nat.reduceAdd] at hloop
  erw [hloop]
  simp only [Res.bind_ok, Res.pure_eq, recoverR, flowModV, u64_n64 ck hck, u64_n64 cm hcm, u8_n8 tid htid, u8_n8 cmd hcmd,
    u16_n16 it hit, u16_n16 ht hht, u16_n16 pr hpr, u32_n32 bid hbid, u32_n32 op hop, u32_n32 og hog, u16_n16 fl hfl]


/-! instruction kinds as `InstrRT` facts (decoded form) -/

theorem instrRT_gotoTable (ln tid : Nat) (hln : ln < 65536) (htid : tid < 256) :
    InstrRT (.obj "InstrGotoTable" [.obj "InstrHeader" [.num Gen.openflow13.InstrType_GOTO_TABLE, .num ln], .num tid, .bytes []])
      (be16 (n16 Gen.openflow13.InstrType_GOTO_TABLE) ++ be16 (n16 ln) ++ [n8 tid, 0, 0, 0]) := by
  obtain ⟨h1, h2, h3⟩ := instrGotoTable_rt ln tid 0 hln htid
  exact ⟨h1, h2, by simp, by simp, h3⟩

theorem instrRT_writeMetadata (ln md mk : Nat) (hln : ln < 65536) (hmd : md < 18446744073709551616)
    (hmk : mk < 18446744073709551616) :
    InstrRT (.obj "InstrWriteMetadata" [.obj "InstrHeader" [.num Gen.openflow13.InstrType_WRITE_METADATA, .num ln],
        .bytes [], .num md, .num mk])
      (be16 (n16 Gen.openflow13.InstrType_WRITE_METADATA) ++ be16 (n16 ln) ++ zeros 4 ++ be64 (n64 md) ++ be64 (n64 mk)) := by
  obtain ⟨h1, h2, h3⟩ := instrWriteMetadata_rt ln md mk 0 hln hmd hmk
  exact ⟨h1, h2, by simp, by simp, h3⟩

theorem instrRT_meter (ln mid : Nat) (hln : ln < 65536) (hmid : mid < 4294967296) :
    InstrRT (.obj "InstrMeter" [.obj "InstrHeader" [.num Gen.openflow13.InstrType_METER, .num ln], .num mid])
      (be16 (n16 Gen.openflow13.InstrType_METER) ++ be16 (n16 ln) ++ be32 (n32 mid)) := by
  obtain ⟨h1, h2, h3⟩ := instrMeter_rt ln mid hln hmid
  exact ⟨h1, h2, by simp, by simp, h3⟩

theorem instrRT_actions (ty ln : Nat) (as : List V) (encs : List Bytes)
    (hty : ty = Gen.openflow13.InstrType_WRITE_ACTIONS ∨ ty = Gen.openflow13.InstrType_APPLY_ACTIONS ∨
      ty = Gen.openflow13.InstrType_CLEAR_ACTIONS)
    (has : ActionsRT as encs) (hln : ln = 8 + encs.flatten.length) (hlt : ln < 65536) :
    InstrRT (.obj "InstrActions" [.obj "InstrHeader" [.num ty, .num ln], .bytes [], .list as])
      (be16 (n16 ty) ++ be16 (n16 ln) ++ zeros 4 ++ encs.flatten) := by
  obtain ⟨h1, h2, h3⟩ := instrActions_rt ty ln 0 as encs hty has hln hlt
  refine ⟨h1, h2, ?_, ?_, h3⟩
  · simp only [List.length_append, be16_length, zeros_length]; omega
  · simp only [List.length_append, be16_length, zeros_length]; omega

/-- FlowMod through Parse -/
theorem flowMod_rt (ver xid ck cm tid cmd it ht pr bid op og fl : Nat) (m : V) (is : List V) (encs : List Bytes)
    (hver : ver < 256) (hxid : xid < 4294967296) (hck : ck < 18446744073709551616) (hcm : cm < 18446744073709551616)
    (htid : tid < 256) (hcmd : cmd < 256) (hit : it < 65536) (hht : ht < 65536) (hpr : pr < 65536)
    (hbid : bid < 4294967296) (hop : op < 4294967296) (hog : og < 4294967296) (hfl : fl < 65536)
    (hm : MatchWF m) (his : InstrsRT is encs)
    (hdel : (cmd = Gen.openflow13.FC_DELETE ∨ cmd = Gen.openflow13.FC_DELETE_STRICT) → is = []) :
    ∃ mbs, Match.marshalM m = .ok (mbs, m) ∧
      (48 + mbs.length + encs.flatten.length < 65536 →
        ∃ bs, bs.length = 48 + mbs.length + encs.flatten.length ∧
          (∀ (ln0 : Nat) (pad : V),
            FlowMod.marshalM (flowModV ver ln0 xid ck cm tid cmd it ht pr bid op og fl pad m is) =
              .ok (bs, flowModV ver bs.length xid ck cm tid cmd it ht pr bid op og fl pad m is)) ∧
          ∀ (depth : Nat) (data : Slice) (tail : Bytes), data.WF → data.bytes = bs ++ tail →
            parse depth data = .ok (flowModV ver bs.length xid ck cm tid cmd it ht pr bid op og fl (.bytes []) m is)) := by
  obtain ⟨mbs, hmm, hml, _, hmdec, _, _⟩ := match_roundtrip m hm
  refine ⟨mbs, hmm, fun hL => ?_⟩
  have hbl : ([n8 ver, n8 Gen.openflow13.Type_FlowMod] ++ be16 (n16 (48 + mbs.length + encs.flatten.length)) ++ be32 (n32 xid)
          ++ flowModFixed ck cm tid cmd it ht pr bid op og fl ++ mbs ++ encs.flatten).length
      = 48 + mbs.length + encs.flatten.length := by
    simp only [List.length_append, flowModFixed_length, be16_length, be32_length, List.length_cons, List.length_nil]
  refine ⟨_, hbl, ?_, ?_⟩
  · intro ln0 pad
    rw [hbl]
    exact flowMod_encode ver ln0 xid ck cm tid cmd it ht pr bid op og fl pad m is encs mbs hmm hml his hdel hL
  · intro depth data tail hd hb
    rw [hbl]
    exact flowMod_decode ver xid ck cm tid cmd it ht pr bid op og fl m is encs mbs hver hxid hck hcm htid hcmd hit hht hpr
      hbid hop hog hfl hml hmdec his hL depth data tail hd hb

end OFV.RT
