/-
  OFV.Lemmas.Hist — API HISTORIES: vocabulary and helper lemmas for Props/C03c.

  * `runOps apply v ops`  : run a list of builder calls (any order, any repetition) on a receiver; stops at the first
                            call that does not return normally.
  * `lastSome f ops`      : the value supplied by the LAST call in `ops` for which `f` gives a value ("last call wins");
                            `lastSome_spec` says exactly that: ops = pre ++ op :: post, f op = the value, no later call.
  * conntrack builder     : `CtOp`, `ctApply` (Commit / Force / Table / ZoneImm / ZoneRange / AddAction), what a history
                            supplies (`ctFlags`, `ctZone`, `ctTable`, `ctAdded`) and the invariant `ct_from_any`.
  * NAT builder           : `NatOp`, `natApply` (five flag setters, six range setters, Len()), `nat_from_any`,
                            `nat_present_from_any`; the stored Length: `nat_len_from_any`, `unpaddedLen_round`,
                            `natOptBits_length`, `natMarshal_length`.
  * adders                : `foldAdd`, one `…_fold` lemma per container.
-/
import OFV.Model.All
import OFV.Lemmas.Size
import OFV.Lemmas.SizeList
import OFV.Lemmas.LayNat
namespace OFV.Model.Hist
open OFV OFV.Go OFV.Model

/-! ### generic -/

/-- run a history of calls; the first call that errs / panics ends the run with that outcome -/
def runOps {Op} (apply : V → Op → R V) : V → List Op → R V
  | v, [] => .ok v
  | v, op :: ops => apply v op >>= fun v' => runOps apply v' ops

theorem runOps_cons_inv {Op} (apply : V → Op → R V) (v : V) (op : Op) (ops : List Op) (w : V)
    (h : runOps apply v (op :: ops) = .ok w) : ∃ v', apply v op = .ok v' ∧ runOps apply v' ops = .ok w :=
  bind_ok_inv _ _ _ h

/-- the value of the last call that supplies one -/
def lastSome {Op α} (f : Op → Option α) (ops : List Op) : Option α := (ops.filterMap f).getLast?

/-- "last call wins", as a fold: start from `a0`, every call that supplies a value overwrites -/
theorem foldl_lastSome {Op α} (f : Op → Option α) (ops : List Op) (a0 : α) :
    ops.foldl (fun a op => (f op).getD a) a0 = (lastSome f ops).getD a0 := by
  induction ops generalizing a0 with
  | nil => rfl
  | cons op ops ih =>
    rw [List.foldl_cons, ih]
    unfold lastSome
    cases hf : f op with
    | none => simp [hf]
    | some a =>
      simp only [List.filterMap_cons, hf, Option.getD_some]
      cases hl : (List.filterMap f ops).getLast? with
      | none =>
        have : List.filterMap f ops = [] := List.getLast?_eq_none_iff.mp hl
        simp [this]
      | some b => rw [List.getLast?_cons, hl]; rfl

/-- what `lastSome` means: there is a call supplying `a` and no later call supplies anything -/
theorem lastSome_spec {Op α} (f : Op → Option α) (ops : List Op) (a : α) :
    lastSome f ops = some a ↔ ∃ pre op post, ops = pre ++ op :: post ∧ f op = some a ∧ ∀ o ∈ post, f o = none := by
  induction ops with
  | nil => simp [lastSome]
  | cons o ops ih =>
    unfold lastSome at ih ⊢
    cases hl : (List.filterMap f ops).getLast? with
    | some b =>
      have e : (List.filterMap f (o :: ops)).getLast? = some b := by
        cases hf : f o with
        | none => simp [hf, hl]
        | some c => simp only [List.filterMap_cons, hf]; rw [List.getLast?_cons, hl]; rfl
      rw [e]
      rw [hl] at ih
      constructor
      · intro hb
        obtain ⟨pre, op, post, rfl, h1, h2⟩ := ih.mp hb
        exact ⟨o :: pre, op, post, rfl, h1, h2⟩
      · rintro ⟨pre, op, post, heq, h1, h2⟩
        cases pre with
        | nil =>
          simp only [List.nil_append, List.cons.injEq] at heq
          obtain ⟨rfl, rfl⟩ := heq
          have : List.filterMap f ops = [] := by
            rw [List.filterMap_eq_nil_iff]; exact h2
          rw [this] at hl; simp at hl
        | cons p pre =>
          simp only [List.cons_append, List.cons.injEq] at heq
          obtain ⟨rfl, rfl⟩ := heq
          exact ih.mpr ⟨pre, op, post, rfl, h1, h2⟩
    | none =>
      have hnil : List.filterMap f ops = [] := List.getLast?_eq_none_iff.mp hl
      have hall : ∀ x ∈ ops, f x = none := List.filterMap_eq_nil_iff.mp hnil
      rw [hl] at ih
      cases hf : f o with
      | none =>
        have e : (List.filterMap f (o :: ops)).getLast? = none := by simp [hf, hnil]
        rw [e]
        constructor
        · intro h; cases h
        · rintro ⟨pre, op, post, heq, h1, h2⟩
          have : op ∈ o :: ops := by rw [heq]; simp
          rcases List.mem_cons.mp this with rfl | hm
          · rw [hf] at h1; cases h1
          · rw [hall _ hm] at h1; cases h1
      | some c =>
        have e : (List.filterMap f (o :: ops)).getLast? = some c := by simp [hf, hnil]
        rw [e]
        constructor
        · intro h; cases h
          exact ⟨[], o, ops, rfl, hf, hall⟩
        · rintro ⟨pre, op, post, heq, h1, h2⟩
          cases pre with
          | nil =>
            simp only [List.nil_append, List.cons.injEq] at heq
            obtain ⟨rfl, rfl⟩ := heq
            rw [hf] at h1; exact h1
          | cons p pre =>
            simp only [List.cons_append, List.cons.injEq] at heq
            obtain ⟨rfl, rfl⟩ := heq
            have : op ∈ pre ++ op :: post := by simp
            rw [hall _ this] at h1; cases h1

/-- no call supplies a value ⇔ `lastSome` is none -/
theorem lastSome_none {Op α} (f : Op → Option α) (ops : List Op) : lastSome f ops = none ↔ ∀ o ∈ ops, f o = none := by
  unfold lastSome
  rw [List.getLast?_eq_none_iff, List.filterMap_eq_nil_iff]

theorem mapM2_append {α} (f : V → R (α × V)) : ∀ (xs ys : List V) (as bs : List α) (xs' ys' : List V),
    mapM2 f xs = .ok (as, xs') → mapM2 f ys = .ok (bs, ys') → mapM2 f (xs ++ ys) = .ok (as ++ bs, xs' ++ ys') := by
  intro xs
  induction xs with
  | nil => intro ys as bs xs' ys' h1 h2; simp only [mapM2] at h1; cases h1; simpa using h2
  | cons x xs ih =>
    intro ys as bs xs' ys' h1 h2
    simp only [mapM2] at h1
    obtain ⟨⟨a, x'⟩, hx, h1⟩ := bind_ok_inv _ _ _ h1
    obtain ⟨⟨as1, xs1⟩, hxs, h1⟩ := bind_ok_inv _ _ _ h1
    cases h1
    have := ih ys as1 bs xs1 ys' hxs h2
    simp [mapM2, hx, this]

/-! ### the conntrack builder -/

/-- the builder methods of *NXActionConnTrack -/
inductive CtOp
  | commit | force
  | table (t : Nat)
  | zoneImm (z : Nat)
  | zoneRange (field rng : V)
  | addAction (acts : List V)

/-- one call (the chaining methods return the receiver; only the receiver after the call matters) -/
def ctApply (v : V) : CtOp → R V
  | .commit => NXActionConnTrack.commit v >>= fun r => .ok r.1
  | .force => NXActionConnTrack.force v >>= fun r => .ok r.1
  | .table t => NXActionConnTrack.table t v >>= fun r => .ok r.1
  | .zoneImm z => NXActionConnTrack.zoneImm z v >>= fun r => .ok r.1
  | .zoneRange f r => NXActionConnTrack.zoneRange f r v >>= fun r => .ok r.1
  | .addAction as => NXActionConnTrack.addActions v as

/-- Flags: Commit() ORs in NX_CT_F_COMMIT, Force() ORs in NX_CT_F_FORCE; nothing ever clears a bit -/
def ctFlagStep (fl : Nat) : CtOp → Nat
  | .commit => fl ||| Gen.openflow13.NX_CT_F_COMMIT
  | .force => fl ||| Gen.openflow13.NX_CT_F_FORCE
  | _ => fl
def ctFlagsFrom (fl : Nat) (ops : List CtOp) : Nat := ops.foldl ctFlagStep fl

/-- (ZoneSrc, ZoneOfsNbits) a call supplies: ZoneImm(z) ↦ (0, z); ZoneRange(f, r) ↦ (f.MarshalHeader(), r.ToOfsBits()) -/
def ctZoneVal : CtOp → Option (Nat × Nat)
  | .zoneImm z => some (0, (n16 z).toNat)
  | .zoneRange f r =>
    match mfHeader f, NXActionConnTrack.rangeOfsBits r with
    | .ok hw, .ok ob => some (hw, ob.toNat)
    | _, _ => none
  | _ => none
/-- RecircTable a call supplies -/
def ctTableVal : CtOp → Option Nat
  | .table t => some (n8 t).toNat
  | _ => none
/-- the arguments of all AddAction calls, in call order -/
def ctAdded : List CtOp → List V
  | [] => []
  | .addAction as :: ops => as ++ ctAdded ops
  | _ :: ops => ctAdded ops

def ctZone (ops : List CtOp) : Option (Nat × Nat) := lastSome ctZoneVal ops
def ctTable (ops : List CtOp) : Option Nat := lastSome ctTableVal ops

def CtOp.isCommit : CtOp → Bool
  | .commit => true
  | _ => false
def CtOp.isForce : CtOp → Bool
  | .force => true
  | _ => false

/-- every zone pair a call can supply fits the two wire fields (32 and 16 bits) -/
theorem ctZoneVal_range (op : CtOp) (a b : Nat) (h : ctZoneVal op = some (a, b)) : a < 2 ^ 32 ∧ b < 2 ^ 16 := by
  cases op with
  | zoneImm z =>
    simp only [ctZoneVal, Option.some.injEq, Prod.mk.injEq] at h
    obtain ⟨rfl, rfl⟩ := h
    exact ⟨by decide, (n16 z).toNat_lt⟩
  | zoneRange f r =>
    simp only [ctZoneVal] at h
    split at h
    · rename_i hw ob h1 h2
      simp only [Option.some.injEq, Prod.mk.injEq] at h
      obtain ⟨rfl, rfl⟩ := h
      refine ⟨?_, ob.toNat_lt⟩
      unfold mfHeader at h1
      split at h1
      · cases h1
      · cases h1; exact UInt32.toNat_lt _
    · cases h
  | _ => simp [ctZoneVal] at h

theorem ctTableVal_range (op : CtOp) (t : Nat) (h : ctTableVal op = some t) : t < 2 ^ 8 := by
  cases op with
  | table x => simp only [ctTableVal, Option.some.injEq] at h; subst h; exact (n8 x).toNat_lt
  | _ => simp [ctTableVal] at h

/-- a property of every supplied value holds of the last one -/
theorem lastSome_forall {Op α} (f : Op → Option α) (P : α → Prop) (hP : ∀ op a, f op = some a → P a) (ops : List Op) (a : α)
    (h : lastSome f ops = some a) : P a := by
  obtain ⟨_, op, _, _, h1, _⟩ := (lastSome_spec f ops a).mp h
  exact hP op a h1

theorem ctFlagsFrom_eq (ops : List CtOp) (fl : Nat) :
    ctFlagsFrom fl ops = fl ||| ((if ops.any CtOp.isCommit then 1 else 0) ||| (if ops.any CtOp.isForce then 2 else 0)) := by
  unfold ctFlagsFrom
  induction ops generalizing fl with
  | nil => simp
  | cons op ops ih =>
    rw [List.foldl_cons, ih]
    apply Nat.eq_of_testBit_eq
    intro i
    cases op <;>
      simp only [ctFlagStep, Gen.openflow13.NX_CT_F_COMMIT, Gen.openflow13.NX_CT_F_FORCE, List.any_cons, Nat.testBit_or,
        CtOp.isCommit, CtOp.isForce,
        Bool.true_or, Bool.false_or, if_true] <;>
      split <;> split <;> simp [Bool.or_assoc, Bool.or_comm, Bool.or_left_comm]

/-- AddAction(acts...): the actions — each as its own Len() leaves it — are appended in argument order; no other field
    but the header's Length changes -/
theorem addActions_spec : ∀ (as : List V) (h a b c d e f : V) (acts : List V) (w : V),
    NXActionConnTrack.addActions (.obj "NXActionConnTrack" [h, a, b, c, d, e, f, .list acts]) as = .ok w →
    ∃ h' ls as', mapM2 Action.lenM as = .ok (ls, as') ∧
      w = .obj "NXActionConnTrack" [h', a, b, c, d, e, f, .list (acts ++ as')] := by
  intro as
  induction as with
  | nil =>
    intro h a b c d e f acts w hw
    simp only [NXActionConnTrack.addActions] at hw
    cases hw
    exact ⟨h, [], [], rfl, by simp⟩
  | cons x xs ih =>
    intro h a b c d e f acts w hw
    simp only [NXActionConnTrack.addActions] at hw
    obtain ⟨l, _, hw⟩ := bind_ok_inv _ _ _ hw
    obtain ⟨⟨al, x'⟩, hx, hw⟩ := bind_ok_inv _ _ _ hw
    obtain ⟨h1, _, hw⟩ := bind_ok_inv _ _ _ hw
    obtain ⟨h', ls, as', hm, rfl⟩ := ih _ _ _ _ _ _ _ _ _ hw
    refine ⟨h', al :: ls, x' :: as', by simp [mapM2, hx, hm], by simp⟩

/-- THE INVARIANT, from ANY conntrack value: after a history that ran to the end, flags are the OR-accumulation, the zone
    pair / the table are those of the last call that supplies one (else unchanged), pad and alg are untouched, the nested
    actions are the old ones followed by all AddAction arguments in call order -/
theorem ct_from_any : ∀ (ops : List CtOp) (h : V) (fl zs zo rt : Nat) (pad alg : V) (acts : List V) (w : V),
    runOps ctApply (.obj "NXActionConnTrack" [h, .num fl, .num zs, .num zo, .num rt, pad, alg, .list acts]) ops = .ok w →
    ∃ h' ls as', mapM2 Action.lenM (ctAdded ops) = .ok (ls, as') ∧
      w = .obj "NXActionConnTrack" [h', .num (ctFlagsFrom fl ops), .num ((ctZone ops).getD (zs, zo)).1,
        .num ((ctZone ops).getD (zs, zo)).2, .num ((ctTable ops).getD rt), pad, alg, .list (acts ++ as')] := by
  intro ops
  unfold ctZone ctTable
  simp only [← foldl_lastSome]
  induction ops with
  | nil =>
    intro h fl zs zo rt pad alg acts w hw
    simp only [runOps] at hw
    cases hw
    exact ⟨h, [], [], rfl, by simp [ctFlagsFrom]⟩
  | cons op ops ih =>
    intro h fl zs zo rt pad alg acts w hw
    obtain ⟨v1, h1, h2⟩ := runOps_cons_inv _ _ _ _ _ hw
    cases op with
    | commit =>
      simp only [ctApply, NXActionConnTrack.commit, NXActionConnTrack.chain, Res.bind_ok, Res.ok.injEq] at h1
      subst h1
      obtain ⟨h', ls, as', hm, rfl⟩ := ih _ _ _ _ _ _ _ _ _ h2
      exact ⟨h', ls, as', hm, rfl⟩
    | force =>
      simp only [ctApply, NXActionConnTrack.force, NXActionConnTrack.chain, Res.bind_ok, Res.ok.injEq] at h1
      subst h1
      obtain ⟨h', ls, as', hm, rfl⟩ := ih _ _ _ _ _ _ _ _ _ h2
      exact ⟨h', ls, as', hm, rfl⟩
    | table t =>
      simp only [ctApply, NXActionConnTrack.table, NXActionConnTrack.chain, Res.bind_ok, Res.ok.injEq, V.u8] at h1
      subst h1
      obtain ⟨h', ls, as', hm, rfl⟩ := ih _ _ _ _ _ _ _ _ _ h2
      exact ⟨h', ls, as', hm, rfl⟩
    | zoneImm z =>
      simp only [ctApply, NXActionConnTrack.zoneImm, NXActionConnTrack.chain, Res.bind_ok, Res.ok.injEq, V.u16] at h1
      subst h1
      obtain ⟨h', ls, as', hm, rfl⟩ := ih _ _ _ _ _ _ _ _ _ h2
      exact ⟨h', ls, as', hm, rfl⟩
    | zoneRange f r =>
      simp only [ctApply] at h1
      obtain ⟨r1, hr1, h1'⟩ := bind_ok_inv _ _ _ h1
      simp only [NXActionConnTrack.zoneRange] at hr1
      obtain ⟨hw', hhw, hr2⟩ := bind_ok_inv _ _ _ hr1
      obtain ⟨ob, hob, hr3⟩ := bind_ok_inv _ _ _ hr2
      simp only [NXActionConnTrack.chain, Res.ok.injEq, V.u16] at hr3
      subst hr3
      simp only [Res.ok.injEq] at h1'
      subst h1'
      obtain ⟨h', ls, as', hm, rfl⟩ := ih _ _ _ _ _ _ _ _ _ h2
      refine ⟨h', ls, as', hm, ?_⟩
      simp only [List.foldl_cons, ctZoneVal, hhw, hob, Option.getD_some, ctTableVal, Option.getD_none]
      rfl
    | addAction as =>
      simp only [ctApply] at h1
      obtain ⟨h1', ls1, as1, hm1, rfl⟩ := addActions_spec _ _ _ _ _ _ _ _ _ _ h1
      obtain ⟨h', ls, as', hm, rfl⟩ := ih _ _ _ _ _ _ _ _ _ h2
      refine ⟨h', ls1 ++ ls, as1 ++ as', mapM2_append _ _ _ _ _ _ _ hm1 hm, ?_⟩
      simp only [List.append_assoc]
      rfl

/-! ### the NAT builder -/

/-- the builder methods of *NXActionCTNAT; `range i x`, i = 0..5, is SetRangeIPv4Min / IPv4Max / IPv6Min / IPv6Max /
    ProtoMin / ProtoMax called with x; `len` is a call of Len() (it STORES the rounded length), which may be interleaved
    anywhere (every MarshalBinary of an enclosing message calls it) -/
inductive NatOp
  | snat | dnat | protoHash | random | persistent
  | range (i : Fin 6) (x : V)
  | len

instance : Inhabited NatOp := ⟨.persistent⟩

/-- (bit that makes the setter refuse, bit it sets) of the five flag setters -/
def natFlagArgs : NatOp → Option (Nat × Nat)
  | .snat => some (Gen.openflow13.NX_NAT_F_DST, Gen.openflow13.NX_NAT_F_SRC)
  | .dnat => some (Gen.openflow13.NX_NAT_F_SRC, Gen.openflow13.NX_NAT_F_DST)
  | .protoHash => some (Gen.openflow13.NX_NAT_F_PROTO_RANDOM, Gen.openflow13.NX_NAT_F_PROTO_HASH)
  | .random => some (Gen.openflow13.NX_NAT_F_PROTO_HASH, Gen.openflow13.NX_NAT_F_PROTO_RANDOM)
  | .persistent => some (0, Gen.openflow13.NX_NAT_F_PERSISTENT)
  | .range _ _ => none
  | .len => none

/-- presence bit of the i-th range setter (the API constants) and what it adds to Length -/
def natBit (i : Fin 6) : Nat :=
  [Gen.openflow13.NX_NAT_RANGE_IPV4_MIN, Gen.openflow13.NX_NAT_RANGE_IPV4_MAX, Gen.openflow13.NX_NAT_RANGE_IPV6_MIN,
   Gen.openflow13.NX_NAT_RANGE_IPV6_MAX, Gen.openflow13.NX_NAT_RANGE_PROTO_MIN, Gen.openflow13.NX_NAT_RANGE_PROTO_MAX][i.val]!
def natAdd (i : Fin 6) : UInt16 := [4, 4, 16, 16, 2, 2][i.val]!

theorem natBit_pow (i : Fin 6) : natBit i = 2 ^ i.val := by revert i; decide

/-- one call.  A flag setter that REFUSES (returns an error because the exclusive flag is set) leaves the receiver as it
    is and the history goes on — as a Go program that ignores or logs the error does. -/
def natApply (v : V) : NatOp → R V
  | .range i x => NXActionCTNAT.setRange i.val (natBit i) (natAdd i) x v
  | .len => NXActionCTNAT.lenM v >>= fun r => .ok r.2
  | op =>
    match natFlagArgs op with
    | some (excl, bit) =>
      (match NXActionCTNAT.setFlag excl bit v with
       | .err => .ok v
       | r => r)
    | none => .panic

def natFlagStep (fl : Nat) (op : NatOp) : Nat :=
  match natFlagArgs op with
  | some (excl, bit) => if fl &&& excl ≠ 0 then fl else fl ||| bit
  | none => fl
def natFlagsFrom (fl : Nat) (ops : List NatOp) : Nat := ops.foldl natFlagStep fl

def natRpStep (rp : Nat) : NatOp → Nat
  | .range i _ => rp ||| natBit i
  | _ => rp
def natRpFrom (rp : Nat) (ops : List NatOp) : Nat := ops.foldl natRpStep rp

def natFieldStep (fs : List V) : NatOp → List V
  | .range i x => fs.set i.val x
  | _ => fs
def natFieldsFrom (fs : List V) (ops : List NatOp) : List V := ops.foldl natFieldStep fs

/-- the value a call supplies for range `i` -/
def natRangeVal (i : Fin 6) : NatOp → Option V
  | .range j x => if j = i then some x else none
  | _ => none

theorem natFieldsFrom_length (ops : List NatOp) (fs : List V) : (natFieldsFrom fs ops).length = fs.length := by
  unfold natFieldsFrom
  induction ops generalizing fs with
  | nil => rfl
  | cons op ops ih => rw [List.foldl_cons, ih]; cases op <;> simp [natFieldStep]

/-- range field i after a history: the argument of the last call of its setter, else what it was -/
theorem natFieldsFrom_get (ops : List NatOp) (fs : List V) (i : Fin 6) (hl : fs.length = 6) :
    (natFieldsFrom fs ops)[i.val]? = some ((lastSome (natRangeVal i) ops).getD (fs[i.val]?.getD .nil)) := by
  rw [← foldl_lastSome]
  unfold natFieldsFrom
  induction ops generalizing fs with
  | nil =>
    have : i.val < fs.length := by rw [hl]; exact i.isLt
    simp [List.getElem?_eq_getElem this]
  | cons op ops ih =>
    rw [List.foldl_cons, List.foldl_cons]
    cases op with
    | range j x =>
      have hl' : (fs.set j.val x).length = 6 := by simpa using hl
      simp only [natFieldStep]
      rw [ih _ hl']
      by_cases hji : j = i
      · subst hji
        have : j.val < fs.length := by rw [hl]; exact j.isLt
        simp [natRangeVal, this]
      · have : ¬ j.val = i.val := fun h => hji (Fin.ext h)
        simp [natRangeVal, hji, this]
    | _ => simp only [natFieldStep]; rw [ih _ hl]; rfl

/-- presence bit j after a history: set before, or its setter was called at least once -/
theorem natRpFrom_testBit (ops : List NatOp) (rp : Nat) (j : Fin 6) :
    (natRpFrom rp ops).testBit j.val = (rp.testBit j.val || (lastSome (natRangeVal j) ops).isSome) := by
  unfold natRpFrom
  induction ops generalizing rp with
  | nil => simp [lastSome]
  | cons op ops ih =>
    rw [List.foldl_cons, ih]
    have hls : ∀ o : NatOp, (lastSome (natRangeVal j) (o :: ops)).isSome =
        ((natRangeVal j o).isSome || (lastSome (natRangeVal j) ops).isSome) := by
      intro o
      unfold lastSome
      cases hf : natRangeVal j o with
      | none => simp [hf]
      | some c =>
        simp only [List.filterMap_cons, hf, Option.isSome_some, Bool.true_or]
        cases hl : (List.filterMap (natRangeVal j) ops).getLast? with
        | none => rw [List.getLast?_eq_none_iff.mp hl]; rfl
        | some b => rw [List.getLast?_cons, hl]; rfl
    rw [hls]
    cases op with
    | range i x =>
      simp only [natRpStep, natBit_pow, testBit_set, natRangeVal]
      by_cases hij : i = j
      · subst hij; simp
      · have : ¬ i.val = j.val := fun h => hij (Fin.ext h)
        simp [hij, this]
    | _ => simp [natRpStep, natRangeVal]

theorem set6 (a b c d e f x : V) (i : Fin 6) :
    ∃ a' b' c' d' e' f', [a, b, c, d, e, f].set i.val x = [a', b', c', d', e', f'] := by
  match i with
  | 0 => exact ⟨_, _, _, _, _, _, rfl⟩
  | 1 => exact ⟨_, _, _, _, _, _, rfl⟩
  | 2 => exact ⟨_, _, _, _, _, _, rfl⟩
  | 3 => exact ⟨_, _, _, _, _, _, rfl⟩
  | 4 => exact ⟨_, _, _, _, _, _, rfl⟩
  | 5 => exact ⟨_, _, _, _, _, _, rfl⟩

/-- Len() only touches the header -/
theorem natLen_step (h : V) (r : List V) (v1 : V)
    (h1 : (NXActionCTNAT.lenM (.obj "NXActionCTNAT" (h :: r)) >>= fun q => Res.ok q.2) = .ok v1) :
    ∃ h', v1 = .obj "NXActionCTNAT" (h' :: r) := by
  obtain ⟨⟨l, v⟩, hl, h2⟩ := bind_ok_inv _ _ _ h1
  simp only [NXActionCTNAT.lenM] at hl
  obtain ⟨l0, _, hl⟩ := bind_ok_inv _ _ _ hl
  obtain ⟨h', _, hl⟩ := bind_ok_inv _ _ _ hl
  simp only [Res.ok.injEq, Prod.mk.injEq] at hl h2
  obtain ⟨_, rfl⟩ := hl
  exact ⟨h', h2.symm⟩

/-- THE INVARIANT, from ANY NAT value -/
theorem nat_from_any : ∀ (ops : List NatOp) (h pad : V) (fl rp : Nat) (a b c d e f : V) (w : V),
    runOps natApply (.obj "NXActionCTNAT" [h, pad, .num fl, .num rp, a, b, c, d, e, f]) ops = .ok w →
    ∃ h', w = .obj "NXActionCTNAT" ([h', pad, .num (natFlagsFrom fl ops), .num (natRpFrom rp ops)] ++
      natFieldsFrom [a, b, c, d, e, f] ops) := by
  intro ops
  unfold natFlagsFrom natRpFrom natFieldsFrom
  induction ops with
  | nil =>
    intro h pad fl rp a b c d e f w hw
    simp only [runOps] at hw
    cases hw
    exact ⟨h, rfl⟩
  | cons op ops ih =>
    intro h pad fl rp a b c d e f w hw
    obtain ⟨v1, h1, h2⟩ := runOps_cons_inv _ _ _ _ _ hw
    have flagCase : ∀ (o : NatOp) excl bit, natFlagArgs o = some (excl, bit) →
        (match NXActionCTNAT.setFlag excl bit (.obj "NXActionCTNAT" [h, pad, .num fl, .num rp, a, b, c, d, e, f]) with
         | .err => Res.ok (.obj "NXActionCTNAT" [h, pad, .num fl, .num rp, a, b, c, d, e, f])
         | r => r) = Res.ok v1 →
        v1 = .obj "NXActionCTNAT" [h, pad, .num (natFlagStep fl o), .num rp, a, b, c, d, e, f] := by
      intro o excl bit ho hv
      simp only [NXActionCTNAT.setFlag] at hv
      by_cases hx : fl &&& excl ≠ 0
      · simp only [if_pos hx, Res.ok.injEq] at hv
        simp only [natFlagStep, ho, if_pos hx]; exact hv.symm
      · simp only [if_neg hx, Res.ok.injEq] at hv
        simp only [natFlagStep, ho, if_neg hx]; exact hv.symm
    cases op with
    | range i x =>
      simp only [natApply, NXActionCTNAT.setRange] at h1
      obtain ⟨l, _, h1⟩ := bind_ok_inv _ _ _ h1
      obtain ⟨hh, _, h1⟩ := bind_ok_inv _ _ _ h1
      simp only [Res.pure_eq, Res.ok.injEq] at h1
      subst h1
      have hfs := set6 a b c d e f x i
      obtain ⟨a', b', c', d', e', f', hfs⟩ := hfs
      simp only [List.cons_append, List.nil_append, hfs] at h2
      obtain ⟨h', rfl⟩ := ih _ _ _ _ _ _ _ _ _ _ _ h2
      refine ⟨h', ?_⟩
      simp only [List.foldl_cons, natFlagStep, natFlagArgs, natRpStep, natFieldStep, hfs]
    | snat =>
      have := flagCase .snat _ _ rfl h1
      subst this
      obtain ⟨h', rfl⟩ := ih _ _ _ _ _ _ _ _ _ _ _ h2
      exact ⟨h', rfl⟩
    | dnat =>
      have := flagCase .dnat _ _ rfl h1
      subst this
      obtain ⟨h', rfl⟩ := ih _ _ _ _ _ _ _ _ _ _ _ h2
      exact ⟨h', rfl⟩
    | protoHash =>
      have := flagCase .protoHash _ _ rfl h1
      subst this
      obtain ⟨h', rfl⟩ := ih _ _ _ _ _ _ _ _ _ _ _ h2
      exact ⟨h', rfl⟩
    | random =>
      have := flagCase .random _ _ rfl h1
      subst this
      obtain ⟨h', rfl⟩ := ih _ _ _ _ _ _ _ _ _ _ _ h2
      exact ⟨h', rfl⟩
    | persistent =>
      have := flagCase .persistent _ _ rfl h1
      subst this
      obtain ⟨h', rfl⟩ := ih _ _ _ _ _ _ _ _ _ _ _ h2
      exact ⟨h', rfl⟩
    | len =>
      obtain ⟨hh, rfl⟩ := natLen_step _ _ _ h1
      obtain ⟨h', rfl⟩ := ih _ _ _ _ _ _ _ _ _ _ _ h2
      exact ⟨h', rfl⟩

/-- a range setter called with a proper argument: a non-empty address for the four address setters, a non-nil port for
    the two port setters (a nil argument is the boundary finding `C03b.nxCTNAT_presence_counterexample`) -/
def NatArgOK : NatOp → Prop
  | .range i x => if i.val < 4 then ∃ b, x = .bytes b ∧ b ≠ [] else ∃ n, x = .num n
  | _ => True

theorem natFlag_step (h pad : V) (fl : Nat) (rp a b c d e f : V) (o : NatOp) (excl bit : Nat) (v1 : V)
    (ho : natFlagArgs o = some (excl, bit))
    (hv : (match NXActionCTNAT.setFlag excl bit (.obj "NXActionCTNAT" [h, pad, .num fl, rp, a, b, c, d, e, f]) with
         | .err => Res.ok (.obj "NXActionCTNAT" [h, pad, .num fl, rp, a, b, c, d, e, f])
         | r => r) = Res.ok v1) :
    v1 = .obj "NXActionCTNAT" [h, pad, .num (natFlagStep fl o), rp, a, b, c, d, e, f] := by
  simp only [NXActionCTNAT.setFlag] at hv
  by_cases hx : fl &&& excl ≠ 0
  · simp only [if_pos hx, Res.ok.injEq] at hv
    simp only [natFlagStep, ho, if_pos hx]; exact hv.symm
  · simp only [if_neg hx, Res.ok.injEq] at hv
    simp only [natFlagStep, ho, if_neg hx]; exact hv.symm

/-- presence bits and range fields stay in agreement along every history of proper calls -/
theorem nat_present_from_any : ∀ (ops : List NatOp) (h pad : V) (fl rp : Nat) (a b c d : Bytes) (e f : V) (w : V),
    runOps natApply (.obj "NXActionCTNAT" [h, pad, .num fl, .num rp, .bytes a, .bytes b, .bytes c, .bytes d, e, f]) ops = .ok w →
    (∀ op ∈ ops, NatArgOK op) → NatPresent rp a b c d e f →
    ∃ h' fl' rp' a' b' c' d' e' f', w = .obj "NXActionCTNAT" [h', pad, .num fl', .num rp', .bytes a', .bytes b', .bytes c',
      .bytes d', e', f'] ∧ NatPresent rp' a' b' c' d' e' f' := by
  intro ops
  induction ops with
  | nil =>
    intro h pad fl rp a b c d e f w hw _ hp
    simp only [runOps] at hw
    cases hw
    exact ⟨_, _, _, _, _, _, _, _, _, rfl, hp⟩
  | cons op ops ih =>
    intro h pad fl rp a b c d e f w hw hok hp
    obtain ⟨v1, h1, h2⟩ := runOps_cons_inv _ _ _ _ _ hw
    have hok' : ∀ op ∈ ops, NatArgOK op := fun o ho => hok o (List.mem_cons_of_mem _ ho)
    have hop := hok op (List.mem_cons_self ..)
    cases op with
    | range i x =>
      simp only [natApply, natBit_pow] at h1
      simp only [NatArgOK] at hop
      by_cases hi : i.val < 4
      · rw [if_pos hi] at hop
        obtain ⟨bb, rfl, hbb⟩ := hop
        obtain ⟨h', a', b', c', d', rfl, _, hp'⟩ := setRange_addr_present i.val hi _ bb hbb _ _ _ _ _ _ _ _ _ _ _ h1 hp
        exact ih _ _ _ _ _ _ _ _ _ _ _ h2 hok' hp'
      · rw [if_neg hi] at hop
        obtain ⟨n, rfl⟩ := hop
        have hi' : i.val = 4 ∨ i.val = 5 := by have := i.isLt; omega
        obtain ⟨h', e', f', rfl, _, hp'⟩ := setRange_port_present i.val hi' _ n _ _ _ _ _ _ _ _ _ _ _ h1 hp
        exact ih _ _ _ _ _ _ _ _ _ _ _ h2 hok' hp'
    | snat => have := natFlag_step _ _ _ _ _ _ _ _ _ _ .snat _ _ _ rfl h1; subst this; exact ih _ _ _ _ _ _ _ _ _ _ _ h2 hok' hp
    | dnat => have := natFlag_step _ _ _ _ _ _ _ _ _ _ .dnat _ _ _ rfl h1; subst this; exact ih _ _ _ _ _ _ _ _ _ _ _ h2 hok' hp
    | protoHash => have := natFlag_step _ _ _ _ _ _ _ _ _ _ .protoHash _ _ _ rfl h1; subst this; exact ih _ _ _ _ _ _ _ _ _ _ _ h2 hok' hp
    | random => have := natFlag_step _ _ _ _ _ _ _ _ _ _ .random _ _ _ rfl h1; subst this; exact ih _ _ _ _ _ _ _ _ _ _ _ h2 hok' hp
    | persistent => have := natFlag_step _ _ _ _ _ _ _ _ _ _ .persistent _ _ _ rfl h1; subst this; exact ih _ _ _ _ _ _ _ _ _ _ _ h2 hok' hp
    | len => obtain ⟨hh, rfl⟩ := natLen_step _ _ _ h1; exact ih _ _ _ _ _ _ _ _ _ _ _ h2 hok' hp

/-- the NAT flag word along a history: bits above the five flags are never set; SRC and DST are never both set, nor
    PROTO_HASH and PROTO_RANDOM (the second of an exclusive pair is refused) -/
def NatFlagsSane (fl : Nat) : Prop :=
  fl < 32 ∧ ¬(fl.testBit 0 = true ∧ fl.testBit 1 = true) ∧ ¬(fl.testBit 3 = true ∧ fl.testBit 4 = true)

instance (fl : Nat) : Decidable (NatFlagsSane fl) := by unfold NatFlagsSane; infer_instance

theorem natFlagStep_sane : ∀ fl, fl < 32 → ∀ op, NatFlagsSane fl → NatFlagsSane (natFlagStep fl op) := by
  intro fl hfl op
  have key : ∀ fl' : Fin 32, ∀ k : Fin 6, NatFlagsSane fl'.val →
      NatFlagsSane (natFlagStep fl'.val ([NatOp.snat, .dnat, .protoHash, .random, .persistent, .range 0 .nil][k.val]!)) := by
    decide
  intro hs
  cases op with
  | snat => exact key ⟨fl, hfl⟩ 0 hs
  | dnat => exact key ⟨fl, hfl⟩ 1 hs
  | protoHash => exact key ⟨fl, hfl⟩ 2 hs
  | random => exact key ⟨fl, hfl⟩ 3 hs
  | persistent => exact key ⟨fl, hfl⟩ 4 hs
  | range i x => simpa [natFlagStep, natFlagArgs] using hs
  | len => simpa [natFlagStep, natFlagArgs] using hs

theorem natFlagsFrom_sane (ops : List NatOp) (fl : Nat) (h : NatFlagsSane fl) : NatFlagsSane (natFlagsFrom fl ops) := by
  unfold natFlagsFrom
  induction ops generalizing fl with
  | nil => exact h
  | cons op ops ih => exact ih _ (natFlagStep_sane fl h.1 op h)

/-! ### the stored Length of a NAT action along a history -/

theorem n16_toNat_id (x : UInt16) : n16 x.toNat = x := by simp [n16]

theorem and_two_pow_ne_zero (rp i : Nat) : (rp &&& 2 ^ i ≠ 0) ↔ rp.testBit i = true := by
  constructor
  · intro h
    by_cases hb : rp.testBit i = true
    · exact hb
    · exfalso; apply h
      apply Nat.eq_of_testBit_eq; intro j
      rw [Nat.testBit_and, Nat.testBit_two_pow, Nat.zero_testBit]
      by_cases hij : i = j
      · subst hij; simp [hb]
      · simp [hij]
  · intro hb h0
    have : (rp &&& 2 ^ i).testBit i = true := by rw [Nat.testBit_and, Nat.testBit_two_pow]; simp [hb]
    rw [h0, Nat.zero_testBit] at this; cases this

/-- `unpaddedLen` as a function of the six presence bits -/
def upl (b0 b1 b2 b3 b4 b5 : Bool) : UInt16 :=
  16 + (if b0 then 4 else 0) + (if b1 then 4 else 0) + (if b2 then 16 else 0) + (if b3 then 16 else 0) +
    (if b4 then 2 else 0) + (if b5 then 2 else 0)

theorem unpaddedLen_eq (rp : Nat) : NXActionCTNAT.unpaddedLen rp =
    upl (rp.testBit 0) (rp.testBit 1) (rp.testBit 2) (rp.testBit 3) (rp.testBit 4) (rp.testBit 5) := by
  have h0 : (rp &&& 1 ≠ 0) ↔ rp.testBit 0 = true := and_two_pow_ne_zero rp 0
  have h1 : (rp &&& 2 ≠ 0) ↔ rp.testBit 1 = true := and_two_pow_ne_zero rp 1
  have h2 : (rp &&& 4 ≠ 0) ↔ rp.testBit 2 = true := and_two_pow_ne_zero rp 2
  have h3 : (rp &&& 8 ≠ 0) ↔ rp.testBit 3 = true := and_two_pow_ne_zero rp 3
  have h4 : (rp &&& 16 ≠ 0) ↔ rp.testBit 4 = true := and_two_pow_ne_zero rp 4
  have h5 : (rp &&& 32 ≠ 0) ↔ rp.testBit 5 = true := and_two_pow_ne_zero rp 5
  unfold NXActionCTNAT.unpaddedLen upl
  simp only [h0, h1, h2, h3, h4, h5]

theorem upl_facts : ∀ b0 b1 b2 b3 b4 b5 : Bool,
    round8 (round8 (upl b0 b1 b2 b3 b4 b5)) = round8 (upl b0 b1 b2 b3 b4 b5) ∧
    (upl b0 b1 b2 b3 b4 b5).toNat ≤ (round8 (upl b0 b1 b2 b3 b4 b5)).toNat ∧
    (round8 (upl b0 b1 b2 b3 b4 b5)).toNat < (upl b0 b1 b2 b3 b4 b5).toNat + 8 ∧
    (upl b0 b1 b2 b3 b4 b5).toNat = 16 + (if b0 then 4 else 0) + (if b1 then 4 else 0) + (if b2 then 16 else 0) +
      (if b3 then 16 else 0) + (if b4 then 2 else 0) + (if b5 then 2 else 0) := by decide

/-- Len() is idempotent on every length the setters can store, it never cuts, and it pads by fewer than 8 bytes -/
theorem unpaddedLen_round (rp : Nat) :
    round8 (round8 (NXActionCTNAT.unpaddedLen rp)) = round8 (NXActionCTNAT.unpaddedLen rp) ∧
    (NXActionCTNAT.unpaddedLen rp).toNat ≤ (round8 (NXActionCTNAT.unpaddedLen rp)).toNat ∧
    (round8 (NXActionCTNAT.unpaddedLen rp)).toNat < (NXActionCTNAT.unpaddedLen rp).toNat + 8 := by
  rw [unpaddedLen_eq]
  have := upl_facts (rp.testBit 0) (rp.testBit 1) (rp.testBit 2) (rp.testBit 3) (rp.testBit 4) (rp.testBit 5)
  exact ⟨this.1, this.2.1, this.2.2.1⟩

/-- for an action whose presence bits agree with its fields, `unpaddedLen` is exactly the fixed part plus the optional
    part the encoder emits -/
theorem natOptBits_length (rp : Nat) (a b c d : Bytes) (e f : V) (hp : NatPresent rp a b c d e f) :
    16 + (natOptBits rp a b c d e f).length = (NXActionCTNAT.unpaddedLen rp).toNat := by
  obtain ⟨_, _, _, _, h4, h5⟩ := hp
  rw [unpaddedLen_eq, (upl_facts _ _ _ _ _ _).2.2.2]
  have l4 : ∀ (t : Bool) (x : Bytes), (if t then natIP4 x else []).length = if t then 4 else 0 := by
    intro t x; cases t <;> simp [natIP4_length]
  have l6 : ∀ (t : Bool) (x : Bytes), (if t then natIP6 x else []).length = if t then 16 else 0 := by
    intro t x; cases t <;> simp [natIP6_length]
  have lp : ∀ (t : Bool) (p : V), (t = true ↔ ∃ x, p = .num x) → (if t then natPort p else []).length = if t then 2 else 0 := by
    intro t p hi
    cases t with
    | false => simp
    | true => obtain ⟨x, rfl⟩ := hi.mp rfl; simp [natPort]
  unfold natOptBits
  simp only [List.length_append, l4, l6, lp _ _ h4, lp _ _ h5]
  omega

/-- the shape with the header spelled out -/
def natObj (t : V) (ln : Nat) (vd sb pad : V) (fl rp : Nat) (a b c d e f : V) : V :=
  .obj "NXActionCTNAT" [.obj "NXActionHeader" [.obj "ActionHeader" [t, .num ln], vd, sb], pad, .num fl, .num rp, a, b, c, d, e, f]

/-- what a call does to the stored Length: a range setter stores `unpaddedLen` of the presence bits after the call,
    Len() stores the rounded length, flag setters leave it -/
def natLenStep (ln rp : Nat) : NatOp → Nat
  | .range i _ => (NXActionCTNAT.unpaddedLen (rp ||| natBit i)).toNat
  | .len => (round8 (n16 ln)).toNat
  | _ => ln

def NatOp.isLen : NatOp → Bool
  | .len => true
  | _ => false

theorem natApply_shape (t : V) (ln : Nat) (vd sb pad : V) (fl rp : Nat) (a b c d e f : V) (op : NatOp) (v1 : V)
    (h1 : natApply (natObj t ln vd sb pad fl rp a b c d e f) op = .ok v1) :
    ∃ fl' a' b' c' d' e' f', v1 = natObj t (natLenStep ln rp op) vd sb pad fl' (natRpStep rp op) a' b' c' d' e' f' := by
  unfold natObj at h1 ⊢
  cases op with
  | range i x =>
    simp only [natApply, NXActionCTNAT.setRange, NXActionHeader.length, ActionHeader.length, NXActionHeader.setLength,
      ActionHeader.setLength, Res.bind_ok, Res.pure_eq, Res.ok.injEq, V.u16] at h1
    subst h1
    obtain ⟨a', b', c', d', e', f', hfs⟩ := set6 a b c d e f x i
    simp only [hfs, List.cons_append, List.nil_append]
    exact ⟨_, _, _, _, _, _, _, rfl⟩
  | len =>
    simp only [natApply, NXActionCTNAT.lenM, NXActionHeader.length, ActionHeader.length, NXActionHeader.setLength,
      ActionHeader.setLength, Res.bind_ok, Res.pure_eq, Res.ok.injEq, V.u16] at h1
    subst h1
    exact ⟨_, _, _, _, _, _, _, rfl⟩
  | snat => have := natFlag_step _ _ _ _ _ _ _ _ _ _ .snat _ _ _ rfl h1; subst this; exact ⟨_, _, _, _, _, _, _, rfl⟩
  | dnat => have := natFlag_step _ _ _ _ _ _ _ _ _ _ .dnat _ _ _ rfl h1; subst this; exact ⟨_, _, _, _, _, _, _, rfl⟩
  | protoHash => have := natFlag_step _ _ _ _ _ _ _ _ _ _ .protoHash _ _ _ rfl h1; subst this; exact ⟨_, _, _, _, _, _, _, rfl⟩
  | random => have := natFlag_step _ _ _ _ _ _ _ _ _ _ .random _ _ _ rfl h1; subst this; exact ⟨_, _, _, _, _, _, _, rfl⟩
  | persistent => have := natFlag_step _ _ _ _ _ _ _ _ _ _ .persistent _ _ _ rfl h1; subst this; exact ⟨_, _, _, _, _, _, _, rfl⟩

/-- the stored Length is `unpaddedLen` of the presence bits, or that rounded up to 8 (when a Len() came last) -/
def NatLenInv (ln rp : Nat) : Prop :=
  ln = (NXActionCTNAT.unpaddedLen rp).toNat ∨ ln = (round8 (NXActionCTNAT.unpaddedLen rp)).toNat

theorem natLenInv_step (ln rp : Nat) (op : NatOp) (h : NatLenInv ln rp) : NatLenInv (natLenStep ln rp op) (natRpStep rp op) := by
  cases op with
  | range i x => exact Or.inl rfl
  | len =>
    simp only [natLenStep, natRpStep]
    rcases h with h | h
    · right; rw [h, n16_toNat_id]
    · right; rw [h, n16_toNat_id, (unpaddedLen_round rp).1]
  | _ => exact h

/-- LENGTH INVARIANT, from any NAT value with a proper header: type, vendor, subtype and pad are never touched; the
    presence word is `natRpFrom`; the length invariant is preserved; and without interleaved Len() calls the stored
    Length is exactly `unpaddedLen` of the presence bits -/
theorem nat_len_from_any : ∀ (ops : List NatOp) (t : V) (ln : Nat) (vd sb pad : V) (fl rp : Nat) (a b c d e f : V) (w : V),
    runOps natApply (natObj t ln vd sb pad fl rp a b c d e f) ops = .ok w →
    ∃ ln' fl' a' b' c' d' e' f', w = natObj t ln' vd sb pad fl' (natRpFrom rp ops) a' b' c' d' e' f' ∧
      (NatLenInv ln rp → NatLenInv ln' (natRpFrom rp ops)) ∧
      (ops.all (fun o => !o.isLen) = true → ln = (NXActionCTNAT.unpaddedLen rp).toNat →
        ln' = (NXActionCTNAT.unpaddedLen (natRpFrom rp ops)).toNat) := by
  intro ops
  unfold natRpFrom
  induction ops with
  | nil =>
    intro t ln vd sb pad fl rp a b c d e f w hw
    simp only [runOps] at hw
    cases hw
    exact ⟨_, _, _, _, _, _, _, _, rfl, id, fun _ h => h⟩
  | cons op ops ih =>
    intro t ln vd sb pad fl rp a b c d e f w hw
    obtain ⟨v1, h1, h2⟩ := runOps_cons_inv _ _ _ _ _ hw
    obtain ⟨fl1, a1, b1, c1, d1, e1, f1, rfl⟩ := natApply_shape _ _ _ _ _ _ _ _ _ _ _ _ _ _ _ h1
    obtain ⟨ln', fl', a', b', c', d', e', f', rfl, hinv, hex⟩ := ih _ _ _ _ _ _ _ _ _ _ _ _ _ _ h2
    refine ⟨ln', fl', a', b', c', d', e', f', rfl, fun hi => hinv (natLenInv_step _ _ _ hi), ?_⟩
    intro hall hl
    simp only [List.all_cons, Bool.and_eq_true] at hall
    apply hex hall.2
    cases op with
    | range i x => rfl
    | len => simp [NatOp.isLen] at hall
    | _ => exact hl

/-- MarshalBinary(): the encoding is as long as the stored Length rounded up to 8 -/
theorem natMarshal_length (t : V) (ln : Nat) (vd sb : V) (r : List V) (bs : Bytes) (w' : V)
    (hm : NXActionCTNAT.marshalM (.obj "NXActionCTNAT" (.obj "NXActionHeader" [.obj "ActionHeader" [t, .num ln], vd, sb] :: r)) = .ok (bs, w')) :
    bs.length = (round8 (n16 ln)).toNat := by
  unfold NXActionCTNAT.marshalM at hm
  obtain ⟨⟨l, v1⟩, hlen, h1⟩ := bind_ok_inv _ _ _ hm
  simp only [NXActionCTNAT.lenM, NXActionHeader.length, ActionHeader.length, NXActionHeader.setLength,
    ActionHeader.setLength, Res.bind_ok, Res.pure_eq, Res.ok.injEq, Prod.mk.injEq] at hlen
  obtain ⟨rfl, rfl⟩ := hlen
  simp only at h1
  split at h1
  · obtain ⟨hb, _, h2⟩ := bind_ok_inv _ _ _ h1
    obtain ⟨pm, _, h3⟩ := bind_ok_inv _ _ _ h2
    obtain ⟨out, hf, h4⟩ := bind_ok_inv _ _ _ h3
    simp only [Res.ok.injEq, Prod.mk.injEq] at h4
    rw [← h4.1]
    exact fill_length _ _ _ hf
  · exact absurd h1 (by simp)

/-! ### adders -/

/-- fold an adder over the children, in order; stops at the first call that does not return normally -/
def foldAdd (add : V → V → R V) : V → List V → R V := runOps add

theorem bucket_fold : ∀ (xs : List V) (l w wp wg p : V) (as : List V),
    foldAdd Bucket.addAction (.obj "Bucket" [l, w, wp, wg, p, .list as]) xs =
      .ok (.obj "Bucket" [l, w, wp, wg, p, .list (as ++ xs)]) := by
  intro xs
  induction xs with
  | nil => intro l w wp wg p as; simp [foldAdd, runOps]
  | cons x xs ih =>
    intro l w wp wg p as
    have := ih l w wp wg p (as ++ [x])
    simp only [foldAdd] at this
    simp [foldAdd, runOps, Bucket.addAction, this]

theorem groupMod_fold : ∀ (xs : List V) (h c t p g : V) (bs : List V),
    foldAdd GroupMod.addBucket (.obj "GroupMod" [h, c, t, p, g, .list bs]) xs =
      .ok (.obj "GroupMod" [h, c, t, p, g, .list (bs ++ xs)]) := by
  intro xs
  induction xs with
  | nil => intro h c t p g bs; simp [foldAdd, runOps]
  | cons x xs ih =>
    intro h c t p g bs
    have := ih h c t p g (bs ++ [x])
    simp only [foldAdd] at this
    simp [foldAdd, runOps, GroupMod.addBucket, this]

theorem flowMod_fold : ∀ (xs : List V) (h ck cm tid cmd it ht pr bid op og fl pad m : V) (is : List V),
    foldAdd FlowMod.addInstruction (.obj "FlowMod" [h, ck, cm, tid, cmd, it, ht, pr, bid, op, og, fl, pad, m, .list is]) xs =
      .ok (.obj "FlowMod" [h, ck, cm, tid, cmd, it, ht, pr, bid, op, og, fl, pad, m, .list (is ++ xs)]) := by
  intro xs
  induction xs with
  | nil => intro h ck cm tid cmd it ht pr bid op og fl pad m is; simp [foldAdd, runOps]
  | cons x xs ih =>
    intro h ck cm tid cmd it ht pr bid op og fl pad m is
    have := ih h ck cm tid cmd it ht pr bid op og fl pad m (is ++ [x])
    simp only [foldAdd] at this
    simp [foldAdd, runOps, FlowMod.addInstruction, this]

/-- PacketOut.AddAction: each action as its Len() leaves it is appended; ActionsLen accumulates (uint16) -/
theorem packetOut_fold : ∀ (xs : List V) (h b ip : V) (al : Nat) (pad : V) (as : List V) (d w : V), al < 65536 →
    foldAdd PacketOut.addAction (.obj "PacketOut" [h, b, ip, .num al, pad, .list as, d]) xs = .ok w →
    ∃ ls xs', mapM2 Action.lenM xs = .ok (ls, xs') ∧
      w = .obj "PacketOut" [h, b, ip, .num (n16 al + sum16 ls).toNat, pad, .list (as ++ xs'), d] := by
  intro xs
  induction xs with
  | nil =>
    intro h b ip al pad as d w hal hw
    simp only [foldAdd, runOps, Res.ok.injEq] at hw
    subst hw
    refine ⟨[], [], rfl, ?_⟩
    have : (n16 al + sum16 []).toNat = al := by
      simp [n16, sum16, UInt16.toNat_ofNat']; omega
    rw [this]; simp
  | cons x xs ih =>
    intro h b ip al pad as d w hal hw
    obtain ⟨v1, h1, h2⟩ := runOps_cons_inv _ _ _ _ _ hw
    simp only [PacketOut.addAction] at h1
    obtain ⟨⟨l, x'⟩, hx, h1⟩ := bind_ok_inv _ _ _ h1
    simp only [Res.pure_eq, Res.ok.injEq, V.u16] at h1
    subst h1
    obtain ⟨ls, xs', hm, rfl⟩ := ih _ _ _ _ _ _ _ _ (n16 al + l).toNat_lt h2
    refine ⟨l :: ls, x' :: xs', by simp [mapM2, hx, hm], ?_⟩
    rw [n16_toNat_id, sum16_cons, UInt16.add_assoc]
    simp

/-- Match.AddField: each field as its Len() leaves it is appended; Length accumulates (uint16) -/
theorem match_fold : ∀ (xs : List V) (ty : V) (ln : Nat) (fs : List V) (w : V), ln < 65536 →
    foldAdd Match.addField (.obj "Match" [ty, .num ln, .list fs]) xs = .ok w →
    ∃ ls xs', mapM2 MatchField.lenM xs = .ok (ls, xs') ∧
      w = .obj "Match" [ty, .num (n16 ln + sum16 ls).toNat, .list (fs ++ xs')] := by
  intro xs
  induction xs with
  | nil =>
    intro ty ln fs w hal hw
    simp only [foldAdd, runOps, Res.ok.injEq] at hw
    subst hw
    refine ⟨[], [], rfl, ?_⟩
    have : (n16 ln + sum16 []).toNat = ln := by
      simp [n16, sum16, UInt16.toNat_ofNat']; omega
    rw [this]; simp
  | cons x xs ih =>
    intro ty ln fs w hal hw
    obtain ⟨v1, h1, h2⟩ := runOps_cons_inv _ _ _ _ _ hw
    simp only [Match.addField] at h1
    obtain ⟨⟨l, x'⟩, hx, h1⟩ := bind_ok_inv _ _ _ h1
    simp only [Res.pure_eq, Res.ok.injEq, V.u16] at h1
    subst h1
    obtain ⟨ls, xs', hm, rfl⟩ := ih _ _ _ _ (n16 ln + l).toNat_lt h2
    refine ⟨l :: ls, x' :: xs', by simp [mapM2, hx, hm], ?_⟩
    rw [n16_toNat_id, sum16_cons, UInt16.add_assoc]
    simp

end OFV.Model.Hist
