/-
  OFV.Lemmas.PoolSim — forgetting the contents of the buffers maps every run of PoolSys (the library, `reset = true`)
  to a run of StreamSys.  Helper lemmas for Props/C10b.
-/
import OFV.Lemmas.PoolInv
namespace OFV.Pool
open OFV OFV.Model OFV.Model.PoolSys
open OFV.Model.Deframer (WFFrame)

theorem abs_init (nBuf nPar : Nat) (script : List Frame) (chunks : List Bytes) :
    (initSt nBuf nPar chunks).abs script = StreamSys.initSt nBuf nPar script := by
  unfold initSt StreamSys.initSt St.abs
  by_cases h : nBuf = 0 <;> simp [h, RSt.abs, PSt.abs, Function.comp_def]

/-- a transition of PoolSys is a transition of StreamSys between the abstracted states, or invisible there
    (`read`, and the bytes that do not complete a frame) -/
theorem sim_step (script : List Frame) (tail : Bytes) (hwf : ∀ f ∈ script, WFFrame f) (cap n : Nat) (s s' : St)
    (h : Step true cap n s s') (inv : Inv script tail s) :
    s'.abs script = s.abs script ∨ StreamSys.Step cap n (s.abs script) (s'.abs script) := by
  cases h with
  | read b p c cs hr hc hn => exact Or.inl rfl
  | rdByte b p c rest hr hc hd =>
    left; simp only [St.abs, hr, RSt.abs]
  | rdLast b p c rest hr hc hd =>
    right
    obtain ⟨f, t, q, h1, hf, h2, hwff, hmid, hlast⟩ := next_byte script tail hwf s inv b p c rest hr hc
    have hq : q = [] := by
      apply Classical.byContradiction
      intro e; have := (hmid e).2.1; rw [hd] at this; exact absurd this (by simp)
    obtain ⟨e1, _, _⟩ := hlast hq
    have hr' : (s.abs script).rdr = .cur b := by simp only [St.abs, hr, RSt.abs]
    have ht : (s.abs script).todo = f :: t := by
      show script.drop s.handed.length = f :: t
      rw [h1]; simp
    have hfl : (s.abs script).failed = false := by
      show s.failed = false
      rw [inv.failed, hr]; rfl
    have := StreamSys.Step.complete (capFull := cap) (nPar := n) (s.abs script) b f t hr' ht hfl
    have e : script.drop (s.handed.length + 1) = t := by
      rw [h1]; simp
    simpa [St.abs, RSt.abs, e1, e] using this
  | sendFull b p hr hl =>
    right
    have hr' : (s.abs script).rdr = .have_ b p := by simp only [St.abs, hr, RSt.abs]
    exact StreamSys.Step.sendFull (s.abs script) b p hr' hl
  | takeBuf b p e hr he =>
    right
    have hr' : (s.abs script).rdr = .needBuf := by simp only [St.abs, hr, RSt.abs]
    have he' : (s.abs script).empty = b :: e.map (·.1) := by simp [St.abs, he]
    exact StreamSys.Step.takeBuf (s.abs script) b (e.map (·.1)) hr' he'
  | readError b p hr hc he =>
    right
    have hr' : (s.abs script).rdr = .cur b := by simp only [St.abs, hr, RSt.abs]
    exact StreamSys.Step.readError (s.abs script) b hr' he
  | parTake i b c r hi hp hf =>
    right
    have hi' : i < (s.abs script).pars.length := by simpa [St.abs] using hi
    have hp' : (s.abs script).pars[i] = .idle := by simp [St.abs, hp, PSt.abs]
    have := StreamSys.Step.parTake (capFull := cap) (nPar := n) (s.abs script) i b c r hi' hp' hf
    simpa [St.abs, List.map_set, PSt.abs] using this
  | parSend i b c hi hp hn =>
    right
    have hi' : i < (s.abs script).pars.length := by simpa [St.abs] using hi
    have hp' : (s.abs script).pars[i] = .holding b c := by simp [St.abs, hp, PSt.abs]
    have := StreamSys.Step.parSend (capFull := cap) (nPar := n) (s.abs script) i b c hi' hp' hn
    simpa [St.abs, List.map_set, PSt.abs] using this
  | parRelease i b c hi hp =>
    right
    have hi' : i < (s.abs script).pars.length := by simpa [St.abs] using hi
    have hp' : (s.abs script).pars[i] = .delivered b := by simp [St.abs, hp, PSt.abs]
    have := StreamSys.Step.parRelease (capFull := cap) (nPar := n) (s.abs script) i b hi' hp'
    simpa [St.abs, List.map_set, PSt.abs] using this
  | parShutdown i k hi hp hk =>
    right
    have hi' : i < (s.abs script).pars.length := by simpa [St.abs] using hi
    have hp' : (s.abs script).pars[i] = .idle := by simp [St.abs, hp, PSt.abs]
    have := StreamSys.Step.parShutdown (capFull := cap) (nPar := n) (s.abs script) i k hi' hp' hk
    simpa [St.abs, List.map_set, PSt.abs] using this
  | consume f hn =>
    right
    exact StreamSys.Step.consume (s.abs script) f hn

/-- runs go to runs -/
theorem sim_reach (script : List Frame) (tail : Bytes) (hwf : ∀ f ∈ script, WFFrame f) (cap n : Nat) (s0 s : St)
    (h : Reach true cap n s0 s) (inv : Inv script tail s0) :
    StreamSys.Reach cap n (s0.abs script) (s.abs script) := by
  induction h with
  | refl => exact StreamSys.Reach.refl
  | step a b ha hs ih =>
    rcases sim_step script tail hwf cap n a b hs (reach_inv script tail hwf cap n s0 a ha inv) with e | st
    · rw [e]; exact ih
    · exact StreamSys.Reach.step _ _ ih st

/-- both at once, from the initial state: the invariant, and the run of StreamSys -/
theorem reach_both (script : List Frame) (tail : Bytes) (hwf : ∀ f ∈ script, WFFrame f) (cap nPar nBuf : Nat)
    (chunks : List Bytes) (hch : chunks.flatten ++ tail = script.flatten) (s : St)
    (h : Reach true cap nPar (initSt nBuf nPar chunks) s) :
    Inv script tail s ∧ StreamSys.Reach cap nPar (StreamSys.initSt nBuf nPar script) (s.abs script) := by
  have i0 := init_inv nBuf nPar script chunks tail hwf hch
  refine ⟨reach_inv script tail hwf cap nPar _ s h i0, ?_⟩
  have := sim_reach script tail hwf cap nPar _ s h i0
  rwa [abs_init] at this

/-! ## what the abstraction keeps -/

theorem abs_bufs (script : List Frame) (s : St) : (s.abs script).bufs = s.bufs.map (·.1) := by
  have hr : StreamSys.RSt.bufs s.rdr.abs = s.rdr.bufs.map (·.1) := by cases s.rdr <;> rfl
  have hp : ∀ ps : List PSt, ((ps.map PSt.abs).map StreamSys.PSt.bufs).flatten
      = ((ps.map PSt.bufs).flatten).map (·.1) := by
    intro ps
    induction ps with
    | nil => rfl
    | cons x xs ih =>
      have hx : StreamSys.PSt.bufs x.abs = x.bufs.map (·.1) := by cases x <;> rfl
      simp only [List.map_cons, List.flatten_cons, List.map_append, ih, hx]
  simp only [StreamSys.St.bufs, St.bufs, St.abs, List.map_append, hr, hp]

theorem abs_frames (script : List Frame) (s : St) :
    (s.abs script).frames = s.out ++ s.inFlight ++ script.drop s.handed.length := by
  have hr : StreamSys.RSt.frames s.rdr.abs = s.rdr.frames := by cases s.rdr <;> rfl
  have hp : ∀ ps : List PSt, ((ps.map PSt.abs).map StreamSys.PSt.frames).flatten
      = (ps.map PSt.frames).flatten := by
    intro ps
    induction ps with
    | nil => rfl
    | cons x xs ih =>
      have hx : StreamSys.PSt.frames x.abs = x.frames := by cases x <;> rfl
      simp only [List.map_cons, List.flatten_cons, ih, hx]
  simp only [StreamSys.St.frames, St.inFlight, St.abs, hr, hp, List.append_assoc]

end OFV.Pool
