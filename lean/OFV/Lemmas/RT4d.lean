/-
  OFV.Lemmas.RT4d — VendorHeader through Parse without payload (any experimenter type), and with a payload of an experimenter type
  `decodeVendorData` does not know (Parse fails).  Used by OFV/Props/C05d.lean.
-/
import OFV.Model.All
import OFV.Lemmas.Size
import OFV.Lemmas.RTBasic
import OFV.Lemmas.RTMsg
import OFV.Lemmas.RT2Nx
import OFV.Lemmas.RT2Vendor
namespace OFV.RT4
set_option linter.unusedSimpArgs false
open OFV OFV.Go OFV.Model OFV.RT OFV.RT2

/-- VendorHeader with a nil VendorData: the 16 fixed bytes -/
theorem vendorNoData_rt (ver xid vn ty : Nat) (hver : ver < 256) (hxid : xid < 4294967296) (hvn : vn < 4294967296)
    (hty : ty < 4294967296) :
    let bs := [n8 ver, n8 Gen.openflow13.Type_Experimenter] ++ be16 (n16 16) ++ be32 (n32 xid) ++ be32 (n32 vn) ++ be32 (n32 ty)
    (∀ ln0, VendorHeader.marshalM (vendorV ver ln0 xid vn ty .nil) = .ok (bs, vendorV ver 16 xid vn ty .nil)) ∧
    ∀ (depth : Nat) (data : Slice) (tail : Bytes), data.WF → data.bytes = bs ++ tail →
      parse depth data = .ok (vendorV ver 16 xid vn ty .nil) := by
  intro bs
  refine ⟨fun ln0 => ?_, ?_⟩
  · unfold VendorHeader.marshalM VendorHeader.marshalWith
    simp only [vendorV, VendorHeader.lenWith, Res.bind_ok, Header.setLength, Header.bytes]
    have h16 : V.u16 (16 : UInt16) = .num 16 := rfl
    have h16' : (16 : UInt16).toNat = 16 := rfl
    simp only [h16, h16', Res.bind_ok]
    have hp1 : piecesLen [pCopy ([n8 ver, n8 Gen.openflow13.Type_Experimenter] ++ be16 (n16 16) ++ be32 (n32 xid)), pU32 vn, pU32 ty] = 16 := rfl
    rw [fill_eq 16 _ (by intro p hp; simp at hp; rcases hp with rfl | rfl | rfl <;> trivial) hp1]
    simp [piecesBytes, pCopy, pU32, Piece.bytes, bs]
  · intro depth data tail hdw hb
    have hlen := Slice.len_ge_of_bytes data _ _ hb
    simp only [bs, List.length_append, be16_length, be32_length, List.length_cons, List.length_nil] at hlen
    have hb' : data.bytes = ([n8 ver, n8 Gen.openflow13.Type_Experimenter] ++ be16 (n16 16) ++ be32 (n32 xid)) ++ (be32 (n32 vn) ++ (be32 (n32 ty)
        ++ tail)) := by
      rw [hb]; simp only [bs, List.append_assoc]
    unfold parse
    obtain ⟨k, hk⟩ : ∃ k, max depth (data.cap + 1) = k + 1 := ⟨max depth (data.cap + 1) - 1, by omega⟩
    rw [hk]
    unfold parseD parseStep
    have e1 : data.bytes[1]? = some (n8 Gen.openflow13.Type_Experimenter) := by rw [hb']; rfl
    have ht4 : (n8 Gen.openflow13.Type_Experimenter).toNat = 4 := by decide
    have ht4' : (n8 4).toNat = 4 := by decide
    simp only [Slice.byteAt_eq, e1, Res.ofOption, Res.bind_ok, ht4, ht4',
      Gen.openflow13.Type_EchoRequest, Gen.openflow13.Type_EchoReply, Gen.openflow13.Type_GetConfigRequest,
      Gen.openflow13.Type_BarrierRequest, Gen.openflow13.Type_BarrierReply, Gen.openflow13.Type_FeaturesRequest,
      Gen.openflow13.Type_Hello, Gen.openflow13.Type_Error, Gen.openflow13.Type_Experimenter,
      Nat.reduceEqDiff, reduceIte, if_false, if_true, or_true, true_or, or_false, false_or, or_self]
    obtain ⟨_, _, hhdr⟩ := header_roundtrip ver Gen.openflow13.Type_Experimenter 16 xid hver (by decide) (by decide) hxid
    have hh := hhdr Header.zero data _ hdw hb'
    have e8 : rd32 (data.bytes.drop 8) = some (n32 vn) := by rw [hb']; exact rd32_be32 _ _
    have e12 : rd32 (data.bytes.drop 12) = some (n32 ty) := by rw [hb']; exact rd32_be32 _ _
    simp only [VendorHeader.unmarshalWith, VendorHeader.zero]
    rw [if_neg (by omega)]
    simp only [msgTryU, hh, Res.bind_ok, Slice.u32From_eq, e8, e12, Res.ofOption, Header.length]
    rw [if_neg (by omega)]
    simp only [Res.pure_eq, recoverR, u32_n32 vn hvn, u32_n32 ty hty, vendorV]

/-- the experimenter types `decodeVendorData` knows -/
def knownVendorTypes : List Nat := [Gen.openflow13.Type_SetControllerId, Gen.openflow13.Type_TlvTableMod, Gen.openflow13.Type_TlvTableReply,
  Gen.openflow13.Type_BundleCtrl, Gen.openflow13.Type_BundleAdd]

/-- a vendor message WITH payload bytes whose experimenter type is not one of them: `msg` stays nil, `msg.UnmarshalBinary` panics,
    Parse recovers and returns an error -/
theorem vendor_unknownType_err (ver xid vn ty : Nat) (e : Bytes) (hver : ver < 256) (hxid : xid < 4294967296)
    (hty : ty < 4294967296) (hk : ty ∉ knownVendorTypes) (he : 0 < e.length) (hS : 16 + e.length < 65536)
    (depth : Nat) (data : Slice) (tail : Bytes) (hdw : data.WF)
    (hb : data.bytes = [n8 ver, n8 Gen.openflow13.Type_Experimenter] ++ be16 (n16 (16 + e.length)) ++ be32 (n32 xid) ++ be32 (n32 vn)
      ++ be32 (n32 ty) ++ e ++ tail) :
    parse depth data = .err := by
  have hlen := Slice.len_ge_of_bytes data _ _ hb
  simp only [List.length_append, be16_length, be32_length, List.length_cons, List.length_nil] at hlen
  have hb' : data.bytes = ([n8 ver, n8 Gen.openflow13.Type_Experimenter] ++ be16 (n16 (16 + e.length)) ++ be32 (n32 xid)) ++ (be32 (n32 vn) ++ (be32 (n32 ty)
      ++ (e ++ tail))) := by
    rw [hb]; simp only [List.append_assoc]
  unfold parse
  obtain ⟨k, hk'⟩ : ∃ k, max depth (data.cap + 1) = k + 1 := ⟨max depth (data.cap + 1) - 1, by omega⟩
  rw [hk']
  unfold parseD parseStep
  have e1 : data.bytes[1]? = some (n8 Gen.openflow13.Type_Experimenter) := by rw [hb']; rfl
  have ht4 : (n8 Gen.openflow13.Type_Experimenter).toNat = 4 := by decide
  have ht4' : (n8 4).toNat = 4 := by decide
  simp only [Slice.byteAt_eq, e1, Res.ofOption, Res.bind_ok, ht4, ht4',
    Gen.openflow13.Type_EchoRequest, Gen.openflow13.Type_EchoReply, Gen.openflow13.Type_GetConfigRequest,
    Gen.openflow13.Type_BarrierRequest, Gen.openflow13.Type_BarrierReply, Gen.openflow13.Type_FeaturesRequest,
    Gen.openflow13.Type_Hello, Gen.openflow13.Type_Error, Gen.openflow13.Type_Experimenter,
    Nat.reduceEqDiff, reduceIte, if_false, if_true, or_true, true_or, or_false, false_or, or_self]
  obtain ⟨_, _, hhdr⟩ := header_roundtrip ver Gen.openflow13.Type_Experimenter (16 + e.length) xid hver (by decide) hS hxid
  have hh := hhdr Header.zero data _ hdw hb'
  have e8 : rd32 (data.bytes.drop 8) = some (n32 vn) := by rw [hb']; exact rd32_be32 _ _
  have e12 : rd32 (data.bytes.drop 12) = some (n32 ty) := by rw [hb']; exact rd32_be32 _ _
  obtain ⟨s, hs1, _, _⟩ := Slice.sliceR_bytes data hdw 16 (16 + e.length) (by omega) (by omega)
  simp only [knownVendorTypes, List.mem_cons, List.not_mem_nil, or_false, not_or] at hk
  obtain ⟨k1, k2, k3, k4, k5⟩ := hk
  simp only [VendorHeader.unmarshalWith, VendorHeader.zero]
  rw [if_neg (by omega)]
  simp only [msgTryU, hh, Res.bind_ok, Slice.u32From_eq, e8, e12, Res.ofOption, Header.length]
  rw [if_pos (by omega)]
  simp only [hs1, Res.bind_ok, n32_toNat ty hty, decodeVendorDataWith, k1, k2, k3, k4, k5, if_false]
  rfl

end OFV.RT4
