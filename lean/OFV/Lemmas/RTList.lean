/-
  OFV.Lemmas.RTList — elements inside lists: the action loop (`decodeActions`) over round-tripping actions, the
  per-kind action theorems as `ActionRT` facts, and InstrActions through DecodeInstr.  Used by OFV/Props/C05.lean.
-/
import OFV.Model.All
import OFV.Lemmas.Size
import OFV.Lemmas.RTBasic
import OFV.Lemmas.RTPayload
import OFV.Lemmas.RTMatch
import OFV.Lemmas.RTAction
import OFV.Lemmas.RTInstr
namespace OFV.RT
set_option linter.unusedSimpArgs false
open OFV OFV.Go OFV.Model OFV.Model.InstrAux

/-- what the per-kind theorems give for one action `a` (in decoded form: unexported pads nil) with encoding `e` -/
def ActionRT (a : V) (e : Bytes) : Prop :=
  Action.marshalM a = .ok (e, a) ∧ Action.lenM a = .ok (UInt16.ofNat e.length, a) ∧
  0 < e.length ∧ e.length < 65536 ∧
  ∀ (data : Slice) (tail : Bytes) (k : Nat), data.WF → data.bytes = e ++ tail → DecodeAction (k + 1) data = .ok a

/-- actions paired with their encodings -/
inductive ActionsRT : List V → List Bytes → Prop
  | nil : ActionsRT [] []
  | cons {a : V} {e : Bytes} {as : List V} {es : List Bytes} : ActionRT a e → ActionsRT as es → ActionsRT (a :: as) (e :: es)

theorem actions_marshalList (as : List V) (encs : List Bytes) (h : ActionsRT as encs) :
    marshalList Action.marshalM as false = .ok (encs.flatten, as, false) ∧
    mapM2 Action.lenM as = .ok (encs.map (fun e => UInt16.ofNat e.length), as) := by
  induction h with
  | nil => exact ⟨rfl, rfl⟩
  | cons h1 _ ih =>
    obtain ⟨hm, hl, _⟩ := h1
    constructor
    · simp [marshalList, hm, ih.1]
    · simp [mapM2, hl, ih.2]

theorem actions_len (as : List V) (encs : List Bytes) (h : ActionsRT as encs) :
    encs.length ≤ encs.flatten.length ∧
    ((encs.map (fun e => UInt16.ofNat e.length)).map UInt16.toNat).sum = encs.flatten.length := by
  induction h with
  | nil => simp
  | @cons a e as es h1 _ ih =>
    obtain ⟨_, _, h0, h64, _⟩ := h1
    have hto : (UInt16.ofNat e.length).toNat = e.length := by
      simp [UInt16.toNat_ofNat']; omega
    constructor
    · simp only [List.length_cons, List.flatten_cons, List.length_append]; omega
    · simp only [List.map_cons, List.sum_cons, List.flatten_cons, List.length_append, ih.2, hto]

/-- the action loop shared by InstrActions, Bucket, PacketOut … over the encodings of round-tripping actions -/
theorem decodeActions_loop (data : Slice) (hd : data.WF) (limit : Nat) (as : List V) (encs : List Bytes)
    (h : ActionsRT as encs) :
    ∀ (pre rest : Bytes) (acc : List V) (fuel : Nat),
      data.bytes = pre ++ encs.flatten ++ rest → limit = pre.length + encs.flatten.length → encs.length < fuel →
      goLoop (σ := St) fuel (fun s => !s.err && s.n < limit) St.cursor
        (fun s => do
          let d ← data.fromR s.n
          match DecodeAction (d.len + 1) d with
          | .ok act => do
            let (l, act') ← Action.lenM act
            if l = 0 then pure { s with err := true }
            else pure { n := s.n + l.toNat, xs := s.xs ++ [act'], err := false }
          | .err => .ok { s with err := true }
          | .panic => .panic
          | .spin => .spin)
        { n := pre.length, xs := acc, err := false }
      = .ok { n := limit, xs := acc ++ as, err := false } := by
  induction h with
  | nil =>
    intro pre rest acc fuel hb hln hfuel
    simp at hln
    subst hln
    cases fuel with
    | zero => simp at hfuel
    | succ k => simp [goLoop]
  | @cons a e as es h1 _ ih =>
    intro pre rest acc fuel hb hln hfuel
    obtain ⟨hm, hl, h0, h64, hdec⟩ := h1
    cases fuel with
    | zero => simp at hfuel
    | succ k =>
      simp only [List.flatten_cons, List.length_append] at hln
      have hlen := Slice.bytes_length_le data
      rw [hb] at hlen
      simp only [List.flatten_cons, List.length_append] at hlen
      obtain ⟨t, ht1, ht2, _, _⟩ := Slice.fromR_bytes data pre.length (by omega)
      have htb : t.bytes = e ++ (es.flatten ++ rest) := by
        rw [ht2, hb]; simp only [List.flatten_cons, List.append_assoc]; exact List.drop_left' rfl
      have htwf : t.WF := (Slice.fromR_wf data hd _ t ht1).1
      have hto : (UInt16.ofNat e.length).toNat = e.length := by
        simp [UInt16.toNat_ofNat']; omega
      have hne : ¬ (UInt16.ofNat e.length = 0) := by
        intro h0'
        have := congrArg UInt16.toNat h0'
        rw [hto] at this
        have h00 : (0 : UInt16).toNat = 0 := rfl
        rw [h00] at this; omega
      unfold goLoop
      have hcond : (!false && decide (pre.length < limit)) = true := by simp; omega
      simp only [hcond, if_true, ht1, Res.bind_ok, hdec t _ t.len htwf htb, hl, Res.pure_eq, hto, hne, if_false,
        St.cursor]
      have hcur : ¬ (pre.length + e.length + 0 ≤ pre.length + 0) := by omega
      simp only [Bool.false_eq_true, if_false, hcur]
      have := ih (pre ++ e) rest (acc ++ [a]) k (by rw [hb]; simp) (by simp only [List.length_append]; omega)
        (by simp only [List.length_cons] at hfuel; omega)
      simp only [List.length_append, List.append_assoc, List.cons_append, List.nil_append] at this
      exact this


theorem ofNat_lit (n : Nat) (x : UInt16) (h : x.toNat = n) : x = UInt16.ofNat n := by
  apply UInt16.toNat_inj.mp
  rw [h]
  have := x.toNat_lt
  simp [UInt16.toNat_ofNat']; omega

/-! the per-kind theorems as `ActionRT` facts (decoded form) -/

theorem actionRT_output (ln port ml : Nat) (hln : ln < 65536) (hport : port < 4294967296) (hml : ml < 65536) :
    ActionRT (.obj "ActionOutput" [ActionHeader.mk Gen.openflow13.ActionType_Output ln, .num port, .num ml, .bytes []])
      (be16 (n16 Gen.openflow13.ActionType_Output) ++ be16 (n16 ln) ++ be32 (n32 port) ++ be16 (n16 ml) ++ zeros 6) := by
  obtain ⟨h1, h2, h3⟩ := actionOutput_rt ln port ml 0 hln hport hml (by omega)
  exact ⟨h1, h2, by simp, by simp, h3⟩

theorem actionRT_group (ln g : Nat) (hln : ln < 65536) (hg : g < 4294967296) :
    ActionRT (.obj "ActionGroup" [ActionHeader.mk Gen.openflow13.ActionType_Group ln, .num g])
      (be16 (n16 Gen.openflow13.ActionType_Group) ++ be16 (n16 ln) ++ be32 (n32 g)) := by
  obtain ⟨h1, h2, h3⟩ := actionGroup_rt ln g hln hg
  exact ⟨h1, h2, by simp, by simp, h3⟩

theorem actionRT_setqueue (ln q : Nat) (hln : ln < 65536) (hq : q < 4294967296) :
    ActionRT (.obj "ActionSetqueue" [ActionHeader.mk Gen.openflow13.ActionType_SetQueue ln, .num q])
      (be16 (n16 Gen.openflow13.ActionType_SetQueue) ++ be16 (n16 ln) ++ be32 (n32 q)) := by
  obtain ⟨h1, h2, h3⟩ := actionSetqueue_rt ln q hln hq
  exact ⟨h1, h2, by simp, by simp, h3⟩

theorem actionRT_push (ty ln et : Nat) (hty : ty < 65536) (hlook : actionTypeTable.lookup ty = some ActionPush.zero)
    (hln : ln < 65536) (het : et < 65536) :
    ActionRT (.obj "ActionPush" [ActionHeader.mk ty ln, .num et, .bytes []])
      (be16 (n16 ty) ++ be16 (n16 ln) ++ be16 (n16 et) ++ zeros 2) := by
  obtain ⟨h1, h2, h3⟩ := actionPush_rt ty ln et (.bytes []) hty hlook hln het
  exact ⟨h1, h2, by simp, by simp, h3⟩

theorem actionRT_popMpls (ln et : Nat) (hln : ln < 65536) (het : et < 65536) :
    ActionRT (.obj "ActionPopMpls" [ActionHeader.mk Gen.openflow13.ActionType_PopMpls ln, .num et, .bytes []])
      (be16 (n16 Gen.openflow13.ActionType_PopMpls) ++ be16 (n16 ln) ++ be16 (n16 et) ++ zeros 2) := by
  obtain ⟨h1, h2, h3⟩ := actionPopMpls_rt ln et (.bytes []) hln het
  exact ⟨h1, h2, by simp, by simp, h3⟩

theorem actionRT_popVlan (ln : Nat) (hln : ln < 65536) :
    ActionRT (.obj "ActionPopVlan" [ActionHeader.mk Gen.openflow13.ActionType_PopVlan ln, .bytes []])
      (be16 (n16 Gen.openflow13.ActionType_PopVlan) ++ be16 (n16 ln) ++ zeros 4) := by
  obtain ⟨h1, h2, h3⟩ := actionPopVlan_rt ln (.bytes []) hln
  exact ⟨h1, h2, by simp, by simp, h3⟩

theorem actionRT_decNwTtl (ln : Nat) (hln : ln < 65536) :
    ActionRT (.obj "ActionDecNwTtl" [ActionHeader.mk Gen.openflow13.ActionType_DecNwTtl ln, .bytes []])
      (be16 (n16 Gen.openflow13.ActionType_DecNwTtl) ++ be16 (n16 ln) ++ zeros 4) := by
  obtain ⟨h1, h2, h3⟩ := actionDecNwTtl_rt ln (.bytes []) hln
  exact ⟨h1, h2, by simp, by simp, h3⟩

/-- the header-only actions (copy-ttl-out 11, copy-ttl-in 12, dec-mpls-ttl 16, pop-pbb 27) and dec-nw-ttl 24: every type
    DecodeAction maps to `new(ActionDecNwTtl)`, 8 bytes -/
theorem actionRT_hdrPad (ty ln : Nat) (hty : ty < 65536) (hlook : actionTypeTable.lookup ty = some ActionDecNwTtl.zero)
    (hln : ln < 65536) :
    ActionRT (.obj "ActionDecNwTtl" [ActionHeader.mk ty ln, .bytes []]) (be16 (n16 ty) ++ be16 (n16 ln) ++ zeros 4) := by
  obtain ⟨h1, h2, h3⟩ := actionHdrPad_rt ty ln (.bytes []) hty hlook hln
  exact ⟨h1, h2, by simp, by simp, h3⟩

theorem actionRT_mplsTtl (ln ttl : Nat) (hln : ln < 65536) (httl : ttl < 256) :
    ActionRT (.obj "ActionMplsTtl" [ActionHeader.mk Gen.openflow13.ActionType_SetMplsTtl ln, .num ttl, .bytes []])
      (be16 (n16 Gen.openflow13.ActionType_SetMplsTtl) ++ be16 (n16 ln) ++ [n8 ttl, 0, 0, 0]) := by
  obtain ⟨h1, h2, h3⟩ := actionMplsTtl_rt ln ttl (.bytes []) hln httl
  exact ⟨h1, h2, by simp, by simp, h3⟩

theorem actionRT_nwTtl (ln ttl : Nat) (hln : ln < 65536) (httl : ttl < 256) :
    ActionRT (.obj "ActionNwTtl" [ActionHeader.mk Gen.openflow13.ActionType_SetNwTtl ln, .num ttl, .bytes []])
      (be16 (n16 Gen.openflow13.ActionType_SetNwTtl) ++ be16 (n16 ln) ++ [n8 ttl, 0, 0, 0]) := by
  obtain ⟨h1, h2, h3⟩ := actionNwTtl_rt ln ttl (.bytes []) hln httl
  exact ⟨h1, h2, by simp, by simp, h3⟩

theorem actionRT_setField (ln : Nat) (f : V) (hln : ln < 65536) (hf : MatchFieldWF f) :
    ∃ e, ActionRT (.obj "ActionSetField" [ActionHeader.mk Gen.openflow13.ActionType_SetField ln, f]) e := by
  obtain ⟨fb, bs, hm, hbs, h1, h2, h3⟩ := actionSetField_rt ln f hln hf
  obtain ⟨_, _, _, h4, h514, _⟩ := matchField_roundtrip f hf
  refine ⟨bs, h1, h2, ?_, ?_, h3⟩
  · rw [hbs]; simp only [List.length_append, be16_length]; omega
  · obtain ⟨fb', hm', _, _, h514', _⟩ := matchField_roundtrip f hf
    rw [hm'] at hm; cases hm
    rw [hbs]; simp only [List.length_append, be16_length, zeros_length]; omega

/-- InstrActions (write-actions / apply-actions / clear-actions): header, 4 pad bytes, then the actions one after the other.
    Every action of the list is decoded back from its position inside the list. -/
theorem instrActions_rt (ty ln kp : Nat) (as : List V) (encs : List Bytes)
    (hty : ty = Gen.openflow13.InstrType_WRITE_ACTIONS ∨ ty = Gen.openflow13.InstrType_APPLY_ACTIONS ∨
      ty = Gen.openflow13.InstrType_CLEAR_ACTIONS)
    (has : ActionsRT as encs) (hln : ln = 8 + encs.flatten.length) (hlt : ln < 65536) :
    let v := V.obj "InstrActions" [.obj "InstrHeader" [.num ty, .num ln], .bytes (zeros kp), .list as]
    let v' := V.obj "InstrActions" [.obj "InstrHeader" [.num ty, .num ln], .bytes [], .list as]
    let bs := be16 (n16 ty) ++ be16 (n16 ln) ++ zeros 4 ++ encs.flatten
    Instruction.marshalM v = .ok (bs, v) ∧ Instruction.lenM v = .ok (UInt16.ofNat bs.length, v) ∧
    ∀ (data : Slice) (tail : Bytes), data.WF → data.bytes = bs ++ tail → DecodeInstr data = .ok v' := by
  intro v v' bs
  obtain ⟨hml, hll⟩ := actions_marshalList as encs has
  obtain ⟨hcnt, hsum⟩ := actions_len as encs has
  have hty16 : ty < 65536 := by rcases hty with h | h | h <;> (rw [h]; decide)
  have hbl : bs.length = ln := by
    simp only [bs, List.length_append, be16_length, zeros_length]; omega
  have hlenM : InstrActions.lenM v = .ok (UInt16.ofNat ln, v) := by
    simp only [v, InstrActions.lenM, hll, Res.bind_ok]
    congr 2
    apply ofNat_lit
    rw [UInt16.toNat_add, sum16_toNat _ (by rw [hsum]; omega), hsum]
    have : (8 : UInt16).toNat = 8 := rfl
    rw [this]; omega
  refine ⟨?_, ?_, ?_⟩
  · -- (the encoder first stores Len() in the header's Length: the same number here)
    have hu : V.u16 (UInt16.ofNat ln) = .num ln := u16_n16 ln hlt
    simp only [v, Instruction.marshalM, V.kind]
    unfold InstrActions.marshalM
    rw [hlenM]
    simp only [v, Res.bind_ok, hu, InstrHeader.bytes, hml, makeCopy_zeros, bs, List.append_assoc, Bool.false_eq_true,
      if_false]
  · simp only [v, Instruction.lenM, V.kind]
    rw [hlenM, hbl]
  · intro data tail hd hb
    have hlen := Slice.len_ge_of_bytes data _ _ hb
    rw [hbl] at hlen
    unfold DecodeInstr
    rw [instr_type data hd ty (be16 (n16 ln) ++ (zeros 4 ++ (encs.flatten ++ tail)))
      (by rw [hb]; simp only [bs, List.append_assoc])]
    simp only [Res.bind_ok, n16_toNat ty hty16]
    have hdisp : ¬ ty = Gen.openflow13.InstrType_GOTO_TABLE ∧ ¬ ty = Gen.openflow13.InstrType_WRITE_METADATA := by
      rcases hty with h | h | h <;> (rw [h]; decide)
    rw [if_neg hdisp.1, if_neg hdisp.2, if_pos hty]
    simp only [InstrActions.unmarshalP, InstrActions.zero, InstrHeader.zero]
    rw [instrHeader_unmarshal4 _ data hd ty ln hty16 hlt (zeros 4 ++ (encs.flatten ++ tail))
      (by rw [hb]; simp only [bs, List.append_assoc])]
    simp only [Res.bind_ok, InstrHeader.length, decodeActions]
    have hloop := decodeActions_loop data hd ln as encs has (be16 (n16 ty) ++ be16 (n16 ln) ++ zeros 4) tail []
      (data.len + 2) (by rw [hb]) (by simp only [List.length_append, be16_length, zeros_length]; omega) (by omega)
    simp only [List.length_append, be16_length, zeros_length, List.nil_append, Nat.reduceAdd] at hloop
    erw [hloop]
    rfl

end OFV.RT
