/-
  OFV.Lemmas.Fill — consequences of the `make(Len()) + copy` idiom used by most encoders.
-/
import OFV.Go.Fill
import OFV.Go.Read
namespace OFV.Go
open OFV

theorem overwrite_length' (buf : Bytes) (n : Nat) (bs : Bytes) (h : n ≤ buf.length) :
    (overwrite buf n bs).length = buf.length := by
  simp [overwrite]; omega

/-- whatever the pieces are, an encoder of this shape returns exactly as many bytes as it allocated -/
theorem fillFrom_length (ps : List Piece) : ∀ (buf : Bytes) (n : Nat) (out : Bytes),
    fillFrom buf n ps = .ok out → out.length = buf.length := by
  induction ps with
  | nil => intro buf n out h; simp [fillFrom] at h; rw [← h]
  | cons p ps ih =>
    intro buf n out h
    cases p with
    | put bs =>
      simp only [fillFrom] at h
      split at h
      · rw [ih _ _ _ h, overwrite_length' _ _ _ (by omega)]
      · exact absurd h (by simp)
    | copy bs =>
      simp only [fillFrom] at h
      split at h
      · rw [ih _ _ _ h, overwrite_length' _ _ _ (by omega)]
      · exact absurd h (by simp)
    | copyAdv bs a =>
      simp only [fillFrom] at h
      split at h
      · rw [ih _ _ _ h, overwrite_length' _ _ _ (by omega)]
      · exact absurd h (by simp)
    | skip k =>
      simp only [fillFrom] at h
      exact ih _ _ _ h

theorem fill_length (L : Nat) (ps : List Piece) (out : Bytes) (h : fill L ps = .ok out) : out.length = L := by
  have := fillFrom_length ps (zeros L) 0 out h
  simpa using this

theorem makeCopy_length (n : Nat) (src : Bytes) : (makeCopy n src).length = n := by
  simp [makeCopy, copyInto_length]

end OFV.Go
