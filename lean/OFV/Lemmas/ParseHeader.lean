/-
  OFV.Lemmas.ParseHeader — common/header.go decoders never spin on frames of at most 65535 bytes
  (Header, HelloElemHeader, HelloElemVersionBitmap, Hello), and the concrete 65544-byte Hello frame on which
  `Parse` loops for ever (`Hello_spin`).
-/
import OFV.Lemmas.ParsePost
namespace OFV.Model
open OFV OFV.Go

theorem Header_unmarshal_ns (recv : V) (d : Slice) : NS (Header.unmarshal recv d) := by
  unfold Header.unmarshal
  post_auto

theorem HelloElemHeader_unmarshal_post (recv : V) (d : Slice) :
    Post (HelloElemHeader.unmarshal recv d) (fun v => ∃ t l : UInt16, v = .obj "HelloElemHeader" [V.u16 t, V.u16 l]) := by
  unfold HelloElemHeader.unmarshal
  post_auto
  exact post_ok ⟨_, _, rfl⟩

/-- the version-bitmap element decoder terminates; it reads one bitmap per 4 bytes after the element header -/
theorem HelloElemVersionBitmap_unmarshal_post (recv : V) (d : Slice) :
    Post (HelloElemVersionBitmap.unmarshal recv d)
      (fun v => ∃ hdr bms, v = .obj "HelloElemVersionBitmap" [hdr, .list bms] ∧ 4 * bms.length ≤ d.len + 3) := by
  unfold HelloElemVersionBitmap.unmarshal
  apply post_bind_ns (ns_uptoR _ _); intro d4 _
  apply post_bind_ns (HelloElemHeader_unmarshal_post _ _).ns; intro hdr _
  apply post_bind (goLoop_post _ _ _ (fun s => s.read = 4 + 4 * s.bms.length ∧ 4 * s.bms.length ≤ d.len + 3) d.len ?_ _ _ ?_ ?_)
  · intro st _ hst
    exact post_ok ⟨_, _, rfl, hst.1.2⟩
  · intro s hI hc
    apply post_bind_ns (ns_u32In _ _ _); intro w _
    apply post_ok
    simp at hc ⊢
    omega
  · simp
  · simp; omega


theorem HelloElemVersionBitmap_len (hdr : V) (bms : List V) (h : 4 * bms.length ≤ 65530) :
    ∃ l : UInt16, HelloElemVersionBitmap.len (.obj "HelloElemVersionBitmap" [hdr, .list bms]) = .ok l ∧ 4 ≤ l.toNat := by
  refine ⟨_, rfl, ?_⟩
  simp only [n16, UInt16.toNat_add, UInt16.toNat_ofNat']
  have : bms.length * 4 < 65536 := by omega
  have h4 : (4 : UInt16).toNat = 4 := rfl
  omega

/-- Hello: the element loop terminates on every frame of at most 65535 bytes -/
theorem Hello_unmarshal_ns (recv : V) (data : Slice) (hlen : data.len ≤ 65535) : NS (Hello.unmarshal recv data) := by
  unfold Hello.unmarshal
  apply post_bind_ns (ns_fromR _ _); intro d0 _
  cases h1 : Header.unmarshal _ d0 <;> simp only [Res.bind_ok, Res.bind_panic, Res.bind_spin]
  case panic => exact post_panic
  case spin => exact absurd h1 (Header_unmarshal_ns _ _).1
  all_goals
    apply post_bind (goLoop_post _ _ _ (fun s => 8 ≤ s.next) data.len ?_ _ _ (Nat.le_refl 8) ?_)
    · intro st _ _; post_auto
    · intro s hI hc
      simp only [decide_eq_true_eq] at hc
      apply post_bind (P := fun d => d.len ≤ 65527) ?_ ?_
      · refine ⟨(ns_fromR _ _).1, fun d hd => ?_⟩
        have := fromR_inv _ _ _ hd
        omega
      intro d _ hd
      have hvb : Post (match HelloElemVersionBitmap.unmarshal HelloElemVersionBitmap.new d with
          | Res.ok v => do
            let l ← HelloElemVersionBitmap.len v
            pure ({ next := s.next + l.toNat, elems := s.elems ++ [v], err := false } : Hello.St)
          | Res.err => Res.ok { next := s.next + 8, elems := s.elems ++ [HelloElemVersionBitmap.new], err := true }
          | Res.panic => Res.panic
          | Res.spin => Res.spin) (fun s' => 8 ≤ s'.next ∧ s.next < s'.next ∧ s.next < data.len) := by
        split
        · rename_i v heq
          obtain ⟨hdr, bms, rfl, hb⟩ := (HelloElemVersionBitmap_unmarshal_post _ _).2 _ heq
          obtain ⟨l, hl, hl4⟩ := HelloElemVersionBitmap_len hdr bms (by omega)
          rw [hl]
          apply post_ok
          simp only []
          omega
        · apply post_ok; simp only []; omega
        · exact post_panic
        · exact absurd ‹_› (HelloElemVersionBitmap_unmarshal_post _ _).1
      cases h2 : HelloElemHeader.unmarshal HelloElemHeader.new d <;> simp only []
      case panic => exact post_panic
      case spin => exact absurd h2 (HelloElemHeader_unmarshal_post _ _).1
      case err => exact hvb
      case ok e =>
        obtain ⟨t, l, rfl⟩ := (HelloElemHeader_unmarshal_post _ _).2 _ h2
        split
        · exact hvb
        · split
          · exact post_err
          · apply post_ok; simp only []; omega
        · exact post_panic
    · omega

/-- a loop whose every iteration succeeds, keeps `I` and advances a bounded cursor returns a final state -/
theorem goLoop_ok {σ} (cond : σ → Bool) (cursor : σ → Nat) (body : σ → R σ) (I : σ → Prop) (bound : Nat)
    (hstep : ∀ s, I s → cond s = true → ∃ s', body s = .ok s' ∧ I s' ∧ cursor s < cursor s' ∧ cursor s < bound) :
    ∀ fuel s, I s → bound - cursor s < fuel → ∃ t, goLoop fuel cond cursor body s = .ok t ∧ I t ∧ cond t = false := by
  intro fuel
  induction fuel with
  | zero => intro s _ h; omega
  | succ f ih =>
    intro s hI h
    unfold goLoop
    by_cases hc : cond s = true
    · simp only [hc, if_true]
      obtain ⟨s', hb, hI', hadv, hlt⟩ := hstep s hI hc
      rw [hb]
      simp only
      rw [if_neg (by omega)]
      exact ih s' hI' (by omega)
    · simp only [hc]
      exact ⟨s, rfl, hI, by simpa using hc⟩

/-- a version-bitmap element decoded from 65536 bytes holds 16383 bitmaps -/
theorem HelloElemVersionBitmap_big (recv : V) (d : Slice) (hwf : d.WF) (hlen : d.len = 65536) :
    ∃ hdr bms, HelloElemVersionBitmap.unmarshal recv d = .ok (.obj "HelloElemVersionBitmap" [hdr, .list bms])
      ∧ bms.length = 16383 := by
  unfold Slice.WF at hwf
  unfold HelloElemVersionBitmap.unmarshal
  have h4 : d.uptoR 4 = .ok ⟨d.buf.drop 0, 4⟩ := by
    unfold Slice.uptoR Slice.upto
    exact Slice.sliceR_ok d 0 4 (by omega) (by omega)
  rw [h4]
  simp only [Res.bind_ok]
  unfold HelloElemHeader.unmarshal
  simp only [Nat.lt_irrefl, if_false]
  obtain ⟨t, ht⟩ := Slice.u16In_ok ⟨d.buf.drop 0, 4⟩ 0 2 (by omega) (by simp; omega)
  obtain ⟨l, hl⟩ := Slice.u16In_ok ⟨d.buf.drop 0, 4⟩ 2 4 (by omega) (by simp; omega)
  rw [ht, hl]
  simp only [Res.bind_ok]
  obtain ⟨st, hst, hI, hc⟩ := goLoop_ok (σ := HelloElemVersionBitmap.St) (fun s => decide (s.read < d.len)) (·.read)
    (fun s => do
      let w ← d.u32In s.read (s.read + 4)
      pure { read := s.read + 4, bms := s.bms ++ [V.u32 w] })
    (fun s => s.read = 4 + 4 * s.bms.length ∧ s.read ≤ 65536) d.len
    (by
      intro s hI hc
      simp only [decide_eq_true_eq] at hc
      obtain ⟨w, hw⟩ := Slice.u32In_ok d s.read (s.read + 4) (by omega) (by omega)
      refine ⟨_, by rw [hw]; rfl, ?_⟩
      simp
      omega)
    (d.len + 1) { read := 4, bms := [] } (by simp) (by simp; omega)
  rw [hst]
  simp only [Res.bind_ok]
  refine ⟨_, _, rfl, ?_⟩
  simp only [decide_eq_false_iff_not] at hc
  omega


/-- COUNTEREXAMPLE.  A Hello frame of 65544 bytes whose first element is a version bitmap makes Parse loop for ever:
    the element decoder reads 16383 bitmaps, `HelloElemVersionBitmap.Len()` = 4 + 4·16383 = 65536 wraps to 0 in uint16,
    and `next += int(v.Len())` in `Hello.UnmarshalBinary` no longer advances (while `h.Elements` keeps growing). -/
theorem Hello_spin (ver l1 l2 x1 x2 x3 x4 e1 e2 : UInt8) (payload : Bytes) (hp : payload.length = 65532) (depth : Nat) :
    parse depth (Slice.exact ([ver, 0, l1, l2, x1, x2, x3, x4, 0, 1, e1, e2] ++ payload)) = .spin := by
  have hmax : ∀ c, ∃ d, max depth (c + 1) = d + 1 := fun c => ⟨max depth (c + 1) - 1, by omega⟩
  obtain ⟨d, hd⟩ := hmax (Slice.exact ([ver, 0, l1, l2, x1, x2, x3, x4, 0, 1, e1, e2] ++ payload)).cap
  unfold parse
  rw [hd]
  generalize hb : Slice.exact ([ver, 0, l1, l2, x1, x2, x3, x4, 0, 1, e1, e2] ++ payload) = b
  have hbuf : b.buf = [ver, 0, l1, l2, x1, x2, x3, x4, 0, 1, e1, e2] ++ payload := by rw [← hb]; rfl
  have hlen : b.len = 65544 := by rw [← hb]; simp [Slice.exact, hp]
  have hcap : b.buf.length = 65544 := by rw [hbuf]; simp [hp]
  have hwf : b.WF := by unfold Slice.WF; omega
  unfold parseD parseStep
  have h1 : b.byteAt 1 = .ok 0 := by
    unfold Slice.byteAt Slice.index Res.ofOption
    simp [hlen, hbuf]
  rw [h1]
  simp only [Res.bind_ok]
  have ht : (0 : UInt8).toNat = Gen.openflow13.Type_Hello := rfl
  rw [if_pos ht]
  -- Hello.UnmarshalBinary
  suffices h : Hello.unmarshal (.obj "Hello" [Header.zero, .list []]) b = .spin by rw [h]; rfl
  unfold Hello.unmarshal
  rw [Slice.fromR_ok b 0 (by omega)]
  simp only [Res.bind_ok]
  have hH : ∃ h, Header.unmarshal Header.zero ⟨b.buf.drop 0, b.len - 0⟩ = .ok h := by
    unfold Header.unmarshal
    have hwf0 : Slice.WF ⟨b.buf.drop 0, b.len - 0⟩ := by unfold Slice.WF; simp; omega
    obtain ⟨a0, h0⟩ := Slice.byteAt_ok ⟨b.buf.drop 0, b.len - 0⟩ hwf0 0 (by simp; omega)
    obtain ⟨a1, h1⟩ := Slice.byteAt_ok ⟨b.buf.drop 0, b.len - 0⟩ hwf0 1 (by simp; omega)
    obtain ⟨a2, h2⟩ := Slice.u16In_ok ⟨b.buf.drop 0, b.len - 0⟩ 2 4 (by omega) (by simp; omega)
    obtain ⟨a3, h3⟩ := Slice.u32In_ok ⟨b.buf.drop 0, b.len - 0⟩ 4 8 (by omega) (by simp; omega)
    rw [if_neg (by simp; omega), h0, h1, h2, h3]
    exact ⟨_, rfl⟩
  obtain ⟨h, hh⟩ := hH
  rw [hh]
  simp only [Res.bind_ok]
  -- first iteration of the element loop
  have hfuel : b.len + 1 = 65544 + 1 := by omega
  rw [hfuel]
  unfold goLoop
  rw [if_pos (by simp [hlen])]
  have hd8 : b.fromR 8 = .ok ⟨b.buf.drop 8, b.len - 8⟩ := Slice.fromR_ok b 8 (by omega)
  simp only [hd8, Res.bind_ok]
  have hdrop : b.buf.drop 8 = 0 :: 1 :: e1 :: e2 :: payload := by rw [hbuf]; rfl
  have hwf8 : Slice.WF ⟨b.buf.drop 8, b.len - 8⟩ := by unfold Slice.WF; simp; omega
  have hE : HelloElemHeader.unmarshal HelloElemHeader.new ⟨b.buf.drop 8, b.len - 8⟩
      = .ok (.obj "HelloElemHeader" [.num 1, V.u16 (UInt16.ofNat (e1.toNat * 256 + e2.toNat))]) := by
    unfold HelloElemHeader.unmarshal
    rw [if_neg (by simp; omega)]
    have a : Slice.u16In ⟨b.buf.drop 8, b.len - 8⟩ 0 2 = .ok 1 := by
      unfold Slice.u16In
      rw [Slice.sliceR_ok _ 0 2 (by omega) (by simp; omega)]
      simp only [Res.bind_ok, hdrop]
      rfl
    have c : Slice.u16In ⟨b.buf.drop 8, b.len - 8⟩ 2 4 = .ok (UInt16.ofNat (e1.toNat * 256 + e2.toNat)) := by
      unfold Slice.u16In
      rw [Slice.sliceR_ok _ 2 4 (by omega) (by simp; omega)]
      simp only [Res.bind_ok, hdrop]
      rfl
    rw [a, c]
    rfl
  obtain ⟨hdr, bms, hvb, hbl⟩ := HelloElemVersionBitmap_big HelloElemVersionBitmap.new ⟨b.buf.drop 8, b.len - 8⟩ hwf8
    (by simp; omega)
  simp only [hE, hvb, Res.bind_ok]
  have hl : HelloElemVersionBitmap.len (.obj "HelloElemVersionBitmap" [hdr, .list bms]) = .ok 0 := by
    simp only [HelloElemVersionBitmap.len, hbl]
    rfl
  simp only [hl, Res.bind_ok]
  rfl

example : parse 0 (Slice.exact ([4, 0, 0, 8, 0, 0, 0, 0, 0, 1, 0, 8] ++ List.replicate 65532 0)) = .spin :=
  Hello_spin 4 0 8 0 0 0 0 0 8 _ List.length_replicate 0

end OFV.Model
