/-
  OFV.Lemmas.ParseHeader — common/header.go decoders never spin (Header, HelloElemHeader, HelloElemVersionBitmap, Hello):
  the bitmap loop advances by 4 bytes, the element loop by the element's declared length (at least 4) rounded up to 8.
-/
import OFV.Lemmas.ParsePost
set_option linter.unusedSimpArgs false
namespace OFV.Model
open OFV OFV.Go

theorem Header_unmarshal_ns (recv : V) (d : Slice) : NS (Header.unmarshal recv d) := by
  unfold Header.unmarshal
  post_auto

theorem HelloElemHeader_unmarshal_ns (recv : V) (d : Slice) : NS (HelloElemHeader.unmarshal recv d) := by
  unfold HelloElemHeader.unmarshal
  post_auto

/-- the version-bitmap element decoder terminates: one bitmap per 4 bytes up to the element's declared length -/
theorem HelloElemVersionBitmap_unmarshal_ns (recv : V) (d : Slice) : NS (HelloElemVersionBitmap.unmarshal recv d) := by
  unfold HelloElemVersionBitmap.unmarshal
  apply post_bind_ns (ns_uptoR _ _); intro d4 _
  apply post_bind_ns (HelloElemHeader_unmarshal_ns _ _); intro hdr _
  extract_lets length
  split
  · exact post_err
  · rename_i hlen
    apply post_bind_ns
    · refine (goLoop_post _ _ _ (fun _ => True) d.len ?_ _ _ trivial ?_).ns
      · intro s _ hc
        simp only [decide_eq_true_eq] at hc
        apply post_bind_ns (ns_u32In _ _ _); intro w _
        apply post_ok
        simp only [true_and]
        omega
      · simp only []; omega
    · intro st _; post_auto

/-- Hello: the element loop terminates on every input — an element advances the cursor by its declared length (at
    least 4) rounded up to a multiple of 8 -/
theorem Hello_unmarshal_ns (recv : V) (data : Slice) : NS (Hello.unmarshal recv data) := by
  unfold Hello.unmarshal
  apply post_bind_ns (ns_fromR _ _); intro d0 _
  cases h1 : Header.unmarshal _ d0 <;> simp only [Res.bind_ok, Res.bind_panic, Res.bind_spin]
  case panic => exact post_panic
  case spin => exact absurd h1 (Header_unmarshal_ns _ _).1
  all_goals
    apply post_bind_ns
    · refine (goLoop_post _ _ _ (fun _ => True) data.len ?_ _ _ trivial ?_).ns
      · intro s _ hc
        simp only [decide_eq_true_eq] at hc
        apply post_bind_ns (ns_fromR _ _); intro d _
        apply post_bind_ns (HelloElemHeader_unmarshal_ns _ _); intro e _
        split
        · split
          · exact post_err
          · split
            · apply post_bind_ns (HelloElemVersionBitmap_unmarshal_ns _ _); intro v _
              apply post_ok; simp only [true_and]; omega
            · apply post_ok; simp only [true_and]; omega
        · exact post_panic
      · simp only []; omega
    · intro st _; post_auto

end OFV.Model
