/-
  OFV.Lemmas.RT4g — Parse of an ErrorMsg encoding with type ET_EXPERIMENTER and fewer than four data bytes: the VendorError decoder
  panics, Parse recovers and returns an error.  Used by OFV/Props/C05d.lean.
-/
import OFV.Model.All
import OFV.Lemmas.Size
import OFV.Lemmas.RTBasic
import OFV.Lemmas.RTMsg
import OFV.Lemmas.RTMsgMore
namespace OFV.RT4
set_option linter.unusedSimpArgs false
open OFV OFV.Go OFV.Model OFV.RT

theorem rd32_short (d : Bytes) (h : d.length < 4) : rd32 d = none := by
  match d, h with
  | [], _ => rfl
  | [_], _ => rfl
  | [_, _], _ => rfl
  | [_, _, _], _ => rfl

theorem errorMsg_experimenter_short_err (ver xid c : Nat) (d : Bytes) (hver : ver < 256) (hxid : xid < 4294967296)
    (hd : d.length < 4) (depth : Nat) (data : Slice) (hdw : data.WF)
    (hb : data.bytes = [n8 ver, n8 Gen.openflow13.Type_Error] ++ be16 (n16 (12 + d.length)) ++ be32 (n32 xid)
      ++ be16 (n16 Gen.openflow13.ET_EXPERIMENTER) ++ be16 (n16 c) ++ d) :
    parse depth data = .err := by
  have hlenD := Slice.len_ge_of_bytes data _ [] (by rw [hb, List.append_nil])
  simp only [List.length_append, be16_length, be32_length, List.length_cons, List.length_nil] at hlenD
  have hb' : data.bytes = ([n8 ver, n8 Gen.openflow13.Type_Error] ++ be16 (n16 (12 + d.length)) ++ be32 (n32 xid)) ++
      (be16 (n16 Gen.openflow13.ET_EXPERIMENTER) ++ (be16 (n16 c) ++ (d ++ []))) := by
    rw [hb]; simp only [List.append_assoc, List.append_nil]
  obtain ⟨_, _, hdec⟩ := header_roundtrip ver Gen.openflow13.Type_Error (12 + d.length) xid hver (by decide) (by omega) hxid
  unfold parse
  obtain ⟨k, hk⟩ : ∃ k, max depth (data.cap + 1) = k + 1 := ⟨max depth (data.cap + 1) - 1, by omega⟩
  rw [hk]
  unfold parseD parseStep
  have e1 : data.bytes[1]? = some (n8 Gen.openflow13.Type_Error) := by rw [hb']; rfl
  have ht1 : (n8 Gen.openflow13.Type_Error).toNat = 1 := by decide
  have ht1' : (n8 1).toNat = 1 := by decide
  simp only [Slice.byteAt_eq, e1, Res.ofOption, Res.bind_ok, ht1, ht1', Gen.openflow13.Type_Hello, Gen.openflow13.Type_Error,
    Nat.reduceEqDiff, reduceIte, if_false, if_true]
  have e8 : rd16 (data.bytes.drop 8) = some (n16 Gen.openflow13.ET_EXPERIMENTER) := by
    rw [hb']
    have : List.drop 8 (([n8 ver, n8 Gen.openflow13.Type_Error] ++ be16 (n16 (12 + d.length)) ++ be32 (n32 xid)) ++
      (be16 (n16 Gen.openflow13.ET_EXPERIMENTER) ++ (be16 (n16 c) ++ (d ++ [])))) = be16 (n16 Gen.openflow13.ET_EXPERIMENTER) ++ (be16 (n16 c) ++ (d ++ [])) := rfl
    rw [this]; exact rd16_be16 _ _
  have e10 : rd16 (data.bytes.drop 10) = some (n16 c) := by
    rw [hb']
    have : List.drop 10 (([n8 ver, n8 Gen.openflow13.Type_Error] ++ be16 (n16 (12 + d.length)) ++ be32 (n32 xid)) ++
      (be16 (n16 Gen.openflow13.ET_EXPERIMENTER) ++ (be16 (n16 c) ++ (d ++ [])))) = be16 (n16 c) ++ (d ++ []) := rfl
    rw [this]; exact rd16_be16 _ _
  have e12 : rd32 (data.bytes.drop 12) = none := by
    rw [hb']
    have : List.drop 12 (([n8 ver, n8 Gen.openflow13.Type_Error] ++ be16 (n16 (12 + d.length)) ++ be32 (n32 xid)) ++
      (be16 (n16 Gen.openflow13.ET_EXPERIMENTER) ++ (be16 (n16 c) ++ (d ++ [])))) = d ++ [] := rfl
    rw [this, List.append_nil]; exact rd32_short d hd
  obtain ⟨s, hs1, hs2, _, _⟩ := Slice.fromR_bytes data 12 (by omega)
  have htt : (n16 Gen.openflow13.ET_EXPERIMENTER).toNat = Gen.openflow13.ET_EXPERIMENTER := by decide
  simp only [ErrorMsg.unmarshal, ErrorMsg.zero, msgTryU, hdec _ data _ hdw hb', Res.bind_ok, Slice.u16From_eq, Slice.u32From_eq, e8, e10, e12,
    Res.ofOption, hs1, UBuffer.unmarshal, Res.pure_eq, ErrorMsg.errType, V.u16, htt, if_true,
    VendorError.unmarshal, VendorError.zero]
  rfl

end OFV.RT4
