/-
  OFV.Lemmas.Sw3Ip6 — the IPv6 routing header (RFC 8200 §4.4: next header, hdr ext len, routing type, segments left,
  type-specific data filling 8·(hdr ext len + 1) bytes), and the decoder's walk along a next-header chain made of ANY
  sequence of hop-by-hop, routing and fragment headers in ANY order (`Ext`, `Linked`, `chain_exts`).
  Used by OFV/Props/C04c.lean.
-/
import OFV.Model.All
import OFV.Lemmas.SwBasic
import OFV.Lemmas.SwMatch
import OFV.Lemmas.RTBasic
import OFV.Lemmas.Sw2Eth
import OFV.Lemmas.Sw2Ip6
namespace OFV.Sw3
open OFV OFV.Go OFV.Model OFV.Sw2

/-! ### the routing header -/

/-- `Len()` of a routing header: `8 * (HEL + 1)` -/
theorem rt_len (nh hel ty sl : UInt8) :
    (Gen.protocol.RoutingHeader.Len { NextHeader := nh, HEL := hel, RoutingType := ty, SegmentsLeft := sl }).toNat
      = 8 * (hel.toNat + 1) := by
  have := hel.toNat_lt
  simp only [Gen.protocol.RoutingHeader.Len, UInt16.toNat_mul, UInt16.toNat_add, UInt64.toNat_toUInt16, UInt8.toNat_toUInt64]
  have h1 : (1 : UInt16).toNat = 1 := rfl
  have h8 : (8 : UInt16).toNat = 8 := rfl
  rw [h1, h8]; omega

/-- `p.RoutingHeader(NextHeader,HEL,RoutingType,SegmentsLeft,Data)` -/
def rtV (nh hel ty sl : UInt8) (data : Bytes) : V :=
  .obj "p.RoutingHeader" [.num nh.toNat, .num hel.toNat, .num ty.toNat, .num sl.toNat, .obj "u.Buffer" [.bytes data]]

/-- routing header: next header(1), hdr ext len(1), routing type(1), segments left(1), then the type-specific data that
    fills the `8 * (hdr ext len + 1)` bytes — every byte of it is kept, whatever follows the header -/
theorem rt_dec (d : Slice) (hwf : d.WF) (nh hel ty sl : UInt8) (data more : Bytes)
    (hdl : 4 + data.length = 8 * (hel.toNat + 1)) (hb : d.bytes = [nh, hel, ty, sl] ++ (data ++ more)) :
    PRouting.unmarshal PRouting.zero d = .ok (rtV nh hel ty sl data) := by
  have hl : d.len = 8 * (hel.toNat + 1) + more.length := by rw [← Sw.bytes_length d hwf, hb]; simp; omega
  obtain ⟨t, e1, _, _, ht⟩ := Sw.sliceR_at d hwf 4 (8 * (hel.toNat + 1)) (by omega) (by omega)
  have ht' : t.bytes = data := by
    rw [ht, hb]
    show List.take (8 * (hel.toNat + 1) - 4) (data ++ more) = data
    exact Sw.take_pre _ _ _ (by omega)
  unfold PRouting.unmarshal
  rw [if_neg (by omega)]
  simp only [Sw.byteAt_at d 0 nh _ (by rw [hb]; rfl), Sw.byteAt_at d 1 hel _ (by rw [hb]; rfl), Res.bind_ok]
  rw [if_neg (by omega)]
  simp only [Sw.byteAt_at d 2 ty _ (by rw [hb]; rfl), Sw.byteAt_at d 3 sl _ (by rw [hb]; rfl), Res.bind_ok, rt_len, e1,
    UBuffer.unmarshal, UBuffer.mk, ht', Res.pure_eq, V.u8]
  rfl

/-- one pass of the walk over a routing header -/
theorem xloop_rt (r : Slice) (hwf : r.WF) (f : Nat) (s : PIPv6.XSt) (hn : s.nxt.toNat = 43) (nh hel ty sl : UInt8)
    (data more : Bytes) (hdl : 4 + data.length = 8 * (hel.toNat + 1))
    (hb : r.bytes.drop s.n = [nh, hel, ty, sl] ++ (data ++ more)) :
    PIPv6.xloop r (f + 1) s
      = PIPv6.xloop r f { s with n := s.n + 8 * (hel.toNat + 1), nxt := nh, rt := rtV nh hel ty sl data } := by
  have hl : r.len = s.n + ([nh, hel, ty, sl] ++ (data ++ more)).length := by
    rcases drop_len r hwf s.n _ hb with h | ⟨h, _⟩
    · exact h
    · cases h
  obtain ⟨d, e1, hdwf, _, hd⟩ := Sw.fromR_at r hwf s.n (by omega)
  rw [hb] at hd
  have hstep : PIPv6.xstep r s
      = .ok (some { s with n := s.n + 8 * (hel.toNat + 1), nxt := nh, rt := rtV nh hel ty sl data }) := by
    unfold PIPv6.xstep
    rw [if_neg (show ¬ s.nxt.toNat = Gen.protocol.Type_HBH by rw [hn]; decide),
      if_pos (show s.nxt.toNat = Gen.protocol.Type_Routing from hn)]
    simp only [e1, Res.bind_ok, rt_dec d hdwf nh hel ty sl data more hdl hd]
    unfold rtV PRouting.nextHeader PRouting.len
    simp only [Res.bind_ok, Res.pure_eq]
    have e2 : n8 nh.toNat = nh := UInt8.ofNat_toNat
    have e3 : n8 hel.toNat = hel := UInt8.ofNat_toNat
    rw [e2, e3, rt_len]
  conv => lhs; unfold PIPv6.xloop
  simp only [hstep]
  rw [if_neg (by intro h; have := h.1; simp at this)]

/-! ### any sequence of extension headers -/

/-- one IPv6 extension header the decoder walks over, as the specification writes it -/
inductive Ext where
  /-- hop-by-hop options header (announced by next header 0): next header, hdr ext len, options -/
  | hbh (nh hel : UInt8) (os : List Opt)
  /-- routing header (announced by 43): next header, hdr ext len, routing type, segments left, type-specific data -/
  | rt (nh hel ty sl : UInt8) (data : Bytes)
  /-- fragment header (announced by 44): next header, fragment offset (13 bits), M flag, identification -/
  | frag (nh : UInt8) (offset : Nat) (more : Bool) (ident : UInt32)

namespace Ext
/-- the next-header value that announces this header -/
def kind : Ext → UInt8
  | hbh .. => 0
  | rt .. => 43
  | frag .. => 44
/-- the header's own next-header field -/
def next : Ext → UInt8
  | hbh nh _ _ => nh
  | rt nh _ _ _ _ => nh
  | frag nh _ _ _ => nh
/-- the bytes on the wire (fragment header: reserved byte 0, offset(13 bits) res(2 bits, zero) M(1 bit)) -/
def bytes : Ext → Bytes
  | hbh nh hel os => [nh, hel] ++ optsBytes os
  | rt nh hel ty sl data => [nh, hel, ty, sl] ++ data
  | frag nh offset more ident => [nh, 0] ++ be16 (UInt16.ofNat (offset * 8 + (if more then 1 else 0))) ++ be32 ident
/-- options well-formed and filling the header; routing data filling the header; offset within 13 bits -/
def OK : Ext → Prop
  | hbh _ hel os => (∀ o ∈ os, o.OK) ∧ 2 + (optsBytes os).length = 8 * (hel.toNat + 1)
  | rt _ hel _ _ data => 4 + data.length = 8 * (hel.toNat + 1)
  | frag _ offset _ _ => offset < 8192
instance : (e : Ext) → Decidable e.OK
  | hbh _ hel os => inferInstanceAs (Decidable ((∀ o ∈ os, o.OK) ∧ 2 + (optsBytes os).length = 8 * (hel.toNat + 1)))
  | rt _ hel _ _ data => inferInstanceAs (Decidable (4 + data.length = 8 * (hel.toNat + 1)))
  | frag _ offset _ _ => inferInstanceAs (Decidable (offset < 8192))
/-- the decoded header -/
def val : Ext → V
  | hbh nh hel os => hbhOptsV nh hel os
  | rt nh hel ty sl data => rtV nh hel ty sl data
  | frag nh offset more ident =>
    .obj "p.FragmentHeader" [.num nh.toNat, .num 0, .num offset, .num (if more then 1 else 0), .num ident.toNat]
/-- the decoder keeps ONE header of each kind (`IPv6.HbhHeader`, `.RoutingHeader`, `.FragmentHeader`): a header
    replaces the one of its kind stored before -/
def store (e : Ext) (h : V × V × V) : V × V × V :=
  match e with
  | hbh .. => (e.val, h.2.1, h.2.2)
  | rt .. => (h.1, e.val, h.2.2)
  | frag .. => (h.1, h.2.1, e.val)
theorem bytes_length (e : Ext) (h : e.OK) : 8 ≤ e.bytes.length := by
  cases e with
  | hbh nh hel os => simp only [bytes, List.length_append, List.length_cons, List.length_nil]; have := h.2; omega
  | rt nh hel ty sl data => simp only [bytes, List.length_append, List.length_cons, List.length_nil]; simp only [OK] at h; omega
  | frag nh offset more ident => simp [bytes]
end Ext

/-- the headers one after the other -/
def extsBytes (es : List Ext) : Bytes := (es.map Ext.bytes).flatten

theorem extsBytes_cons (e : Ext) (es : List Ext) : extsBytes (e :: es) = e.bytes ++ extsBytes es := by
  simp [extsBytes]

/-- the three stored headers after walking over `es`, starting from `h` -/
def stored (es : List Ext) (h : V × V × V) : V × V × V := es.foldl (fun h e => e.store h) h

/-- the chain is linked: `nh` announces the first header, every header announces its successor, the last one announces
    `nxt` -/
def Linked : UInt8 → List Ext → UInt8 → Prop
  | nh, [], nxt => nh = nxt
  | nh, e :: es, nxt => nh = e.kind ∧ Linked e.next es nxt

instance : (nh : UInt8) → (es : List Ext) → (nxt : UInt8) → Decidable (Linked nh es nxt)
  | nh, [], nxt => inferInstanceAs (Decidable (nh = nxt))
  | nh, e :: es, nxt =>
    have := instDecidableLinked e.next es nxt
    inferInstanceAs (Decidable (nh = e.kind ∧ Linked e.next es nxt))

/-- the decoded fragment header of the model (`Sw2.fragV` with the 16-bit word) in terms of offset and M flag -/
theorem fragV_eq (nh : UInt8) (offset : Nat) (more : Bool) (ident : UInt32) (hoff : offset < 8192) :
    fragV nh 0 (UInt16.ofNat (offset * 8 + (if more then 1 else 0))) ident
      = (Ext.frag nh offset more ident).val := by
  have hw : (UInt16.ofNat (offset * 8 + (if more then 1 else 0))).toNat = offset * 8 + (if more then 1 else 0) :=
    Sw.ofNat16_toNat _ (by cases more <;> simp <;> omega)
  unfold fragV Ext.val
  rw [hw]
  have e1 : (offset * 8 + (if more then 1 else 0)) / 8 = offset := by cases more <;> simp <;> omega
  have e2 : (offset * 8 + (if more then 1 else 0)) % 2 = (if more then 1 else 0) := by cases more <;> simp <;> omega
  rw [e1, e2]
  rfl

/-- a walk state from offset, next-header value and the three stored headers -/
def mkSt (n : Nat) (nxt : UInt8) (h : V × V × V) : PIPv6.XSt := ⟨n, nxt, h.1, h.2.1, h.2.2⟩

/-- one pass of the walk over any extension header -/
theorem xloop_ext (r : Slice) (hwf : r.WF) (f : Nat) (s : PIPv6.XSt) (e : Ext) (hok : e.OK) (hn : s.nxt = e.kind)
    (more : Bytes) (hb : r.bytes.drop s.n = e.bytes ++ more) :
    PIPv6.xloop r (f + 1) s
      = PIPv6.xloop r f (mkSt (s.n + e.bytes.length) e.next (e.store (s.hbh, s.rt, s.fr))) := by
  cases e with
  | hbh nh hel os =>
    obtain ⟨hos, hlen⟩ := hok
    rw [xloop_hbh_opts r hwf f s (by rw [hn]; rfl) nh hel os hos hlen more
      (by rw [hb]; simp only [Ext.bytes, List.append_assoc])]
    have : ([nh, hel] ++ optsBytes os).length = 8 * (hel.toNat + 1) := by simp; omega
    simp only [Ext.bytes, Ext.next, Ext.store, Ext.val, this, mkSt]
  | rt nh hel ty sl data =>
    simp only [Ext.OK] at hok
    rw [xloop_rt r hwf f s (by rw [hn]; rfl) nh hel ty sl data more hok
      (by rw [hb]; simp only [Ext.bytes, List.append_assoc])]
    have : ([nh, hel, ty, sl] ++ data).length = 8 * (hel.toNat + 1) := by simp; omega
    simp only [Ext.bytes, Ext.next, Ext.store, Ext.val, this, mkSt]
  | frag nh offset mf ident =>
    simp only [Ext.OK] at hok
    rw [xloop_frag r hwf f s (by rw [hn]; rfl) nh 0 (UInt16.ofNat (offset * 8 + (if mf then 1 else 0))) ident more
      (by rw [hb]; simp only [Ext.bytes, List.append_assoc])]
    rw [fragV_eq nh offset mf ident hok]
    have : ([nh, 0] ++ be16 (UInt16.ofNat (offset * 8 + (if mf then 1 else 0))) ++ be32 ident).length = 8 := by simp
    simp only [Ext.bytes, Ext.next, Ext.store, this, mkSt]

/-- the walk over ANY linked sequence of well-formed extension headers, from any state: it ends behind the last header,
    at the upper-layer protocol the last header announces, holding the last header of each kind -/
theorem xloop_exts (r : Slice) (hwf : r.WF) (es : List Ext) (hok : ∀ e ∈ es, e.OK) (nxt : UInt8) (hup : Upper nxt)
    (s : PIPv6.XSt) (hlink : Linked s.nxt es nxt) (more : Bytes) (hb : r.bytes.drop s.n = extsBytes es ++ more)
    (fuel : Nat) (hfuel : es.length < fuel) :
    PIPv6.xloop r fuel s
      = .ok (mkSt (s.n + (extsBytes es).length) nxt (stored es (s.hbh, s.rt, s.fr))) := by
  induction es generalizing s fuel with
  | nil =>
    obtain ⟨f, rfl⟩ : ∃ f, fuel = f + 1 := ⟨fuel - 1, by simp at hfuel; omega⟩
    have hn : s.nxt = nxt := hlink
    rw [xloop_end r f s (by rw [hn]; exact hup.1) (by rw [hn]; exact hup.2.1) (by rw [hn]; exact hup.2.2)]
    simp [extsBytes, stored, mkSt, ← hn]
  | cons e es ih =>
    obtain ⟨f, rfl⟩ : ∃ f, fuel = f + 1 := ⟨fuel - 1, by simp at hfuel; omega⟩
    obtain ⟨hk, hrest⟩ := hlink
    rw [extsBytes_cons, List.append_assoc] at hb
    rw [xloop_ext r hwf f s e (hok e (by simp)) hk _ hb,
      ih (fun q hq => hok q (by simp [hq])) _ hrest
        (by
          show r.bytes.drop (s.n + e.bytes.length) = _
          rw [← List.drop_drop, hb]; simp)
        f (by simp at hfuel; omega)]
    simp only [extsBytes_cons, List.length_append, stored, List.foldl_cons, Nat.add_assoc, mkSt]

/-- ANY linked sequence of well-formed hop-by-hop, routing and fragment headers, in ANY order, behind an IPv6 fixed
    header whose next-header field announces the first of them, is walked completely (`Sw2.Chain`) -/
theorem chain_exts (nh : UInt8) (es : List Ext) (hok : ∀ e ∈ es, e.OK) (nxt : UInt8) (hup : Upper nxt)
    (hlink : Linked nh es nxt) :
    Chain nh (extsBytes es) nxt (stored es (.nil, .nil, .nil)).1 (stored es (.nil, .nil, .nil)).2.1
      (stored es (.nil, .nil, .nil)).2.2 := by
  intro r hwf pb hb
  have hlen : 8 * es.length ≤ (extsBytes es).length := by
    clear hlink hb
    induction es with
    | nil => simp
    | cons e es ih =>
      rw [extsBytes_cons, List.length_append, List.length_cons]
      have := e.bytes_length (hok e (by simp))
      have := ih (fun q hq => hok q (by simp [hq]))
      omega
  have hl : (extsBytes es ++ pb).length ≤ r.len := by
    have := congrArg List.length hb
    rw [List.length_drop, Sw.bytes_length r hwf] at this
    omega
  rw [List.length_append] at hl
  exact xloop_exts r hwf es hok nxt hup ⟨40, nh, .nil, .nil, .nil⟩ hlink pb hb _ (by omega)

end OFV.Sw3
